import ElvProofs.C39.ConcSerial
/-!
C39 helper (round 2): the sequential run of a program of the class always
finishes.  Measure: (number of modules of the universe not yet installed) ×
(a bound on the size of a module body) + (size of what remains of the
evaluation); every step of `pnext` decreases it.
-/
namespace C39.Conc
open C39

mutual
def sizeS : Stmt → Nat
  | .peach n body => n * (sizeL body + 2) + 3
  | .each n body => n * (sizeL body + 4) + 1
  | .par b1 b2 => sizeL b1 + sizeL b2 + 5
  | .useF _ => 3
  | .useB _ => 3
  | .inc _ _ => 1
  | .flag _ => 1
  | .out _ => 1
  | .useStr => 1
  | .getF _ => 1
  | .getB _ => 1
  | .var _ _ => 1
  | .ref _ => 1
  | .del _ => 1
def sizeL : List Stmt → Nat
  | [] => 0
  | s :: ss => sizeS s + sizeL ss
end

def psize : Proc → Nat
  | .code ss _ => sizeL ss + 1
  | .inst _ ss _ => sizeL ss + 2
  | .seq p _ ss _ => psize p + sizeL ss + 2
  | .par a b => psize a + psize b + 1

theorem sizeL_cons (s : Stmt) (ss : List Stmt) : sizeL (s :: ss) = sizeS s + sizeL ss := by simp [sizeL]

theorem psize_parN (n : Nat) (body : List Stmt) (e : Env) : psize (parN n body e) = n * (sizeL body + 2) + 1 := by
  induction n with
  | zero => simp [parN, psize, sizeL]
  | succ n ih => simp only [parN, psize, ih, Nat.add_one_mul]; omega

theorem psize_pos (p : Proc) : 0 < psize p := by cases p <;> simp [psize]

theorem sizeS_use {s : Stmt} {i : Nat} (h : stmtUse s = some i) : sizeS s = 3 := by
  cases s <;> simp [stmtUse] at h <;> simp [sizeS]

theorem sizeS_pos (s : Stmt) : 0 < sizeS s := by cases s <;> simp [sizeS]

/-- Every step that installs nothing makes what remains smaller; a step that
installs module `i` adds at most the size of its body. -/
theorem pstep_size {w : World} {acc : Acc} {p : Proc} {d : Acc} {em : List Out} {win : Option Nat} {p' : Proc}
    (h : PStep w acc p d em win p') :
    (win = none → psize p' < psize p) ∧ (∀ i, win = some i → psize p' ≤ psize p + sizeL (w.body i) + 1) := by
  induction h with
  | useHit s i ss e hs _ => simp [psize, sizeL_cons, sizeS_use hs]
  | useMiss s i ss e hs _ => simp [psize, sizeL_cons, sizeS_use hs]; omega
  | instLost i ss e _ => simp [psize]
  | instWin i ss e _ =>
    refine ⟨(by intro h; cases h), ?_⟩
    intro j hj; cases hj
    simp only [psize]; omega
  | get s i ss e hs =>
    have := sizeS_pos s
    simp only [psize, sizeL_cons]
    exact ⟨fun _ => by omega, fun i hi => by cases hi⟩
  | peach n body ss e =>
    simp only [psize, sizeL_cons, sizeS, psize_parN]
    exact ⟨fun _ => by omega, fun i hi => by cases hi⟩
  | eachSucc n body ss e =>
    simp only [psize, sizeL_cons, sizeS, Nat.add_one_mul]
    exact ⟨fun _ => by omega, fun i hi => by cases hi⟩
  | seqIn p d em win p' fin ss e _ ih =>
    simp only [psize]
    exact ⟨fun hw => by have := ih.1 hw; omega, fun i hi => by have := ih.2 i hi; omega⟩
  | seqOut p fin ss e _ =>
    have := psize_pos p
    simp only [psize]
    exact ⟨fun _ => by omega, fun i hi => by cases hi⟩
  | parL a d em win a' c _ ih =>
    simp only [psize]
    exact ⟨fun hw => by have := ih.1 hw; omega, fun i hi => by have := ih.2 i hi; omega⟩
  | parR a c d em win c' _ ih =>
    simp only [psize]
    exact ⟨fun hw => by have := ih.1 hw; omega, fun i hi => by have := ih.2 i hi; omega⟩
  | _ => simp [psize, sizeL_cons, sizeS] <;> omega

/-- Modules of the universe that are not installed. -/
def uninst (w : World) (acc : Acc) : Nat := sumTo w.N (fun i => if installed w acc i then 0 else 1)

theorem sumTo_le_n {n : Nat} {f : Nat → Nat} (h : ∀ m, m < n → f m ≤ 1) : sumTo n f ≤ n := by
  induction n with
  | zero => simp [sumTo]
  | succ n ih =>
    simp only [sumTo]
    have := ih (fun m hm => h m (by omega))
    have := h n (by omega)
    omega

theorem uninst_le (w : World) (acc : Acc) : uninst w acc ≤ w.N :=
  sumTo_le_n (fun m _ => by split <;> omega)

/-- A bound on what installing one module can add. -/
def bodyBound (w : World) : Nat := sumTo w.N (fun i => sizeL (w.body i)) + 2

theorem body_lt_bound {w : World} {i : Nat} (hi : i < w.N) : sizeL (w.body i) + 1 < bodyBound w := by
  have := sumTo_le (f := fun i => sizeL (w.body i)) hi
  simp only [bodyBound]; omega

theorem installed_congr {w : World} {acc d : Acc} {m : Nat} (h : d (.load m) = 0) :
    installed w (fun k => acc k + d k) m = installed w acc m := by
  simp [installed, h]

/-- One step of the scheduler decreases the measure. -/
theorem pstep_measure {w : World} {acc : Acc} {p : Proc} {d : Acc} {em : List Out} {win : Option Nat} {p' : Proc}
    (h : PStep w acc p d em win p') {b : Bool} (hk : okP w b p) :
    uninst w (fun k => acc k + d k) * bodyBound w + psize p' < uninst w acc * bodyBound w + psize p := by
  obtain ⟨s1, s2⟩ := pstep_size h
  cases hw : win with
  | none =>
    have hu : uninst w (fun k => acc k + d k) = uninst w acc :=
      sumTo_congr (fun m _ => by rw [installed_congr (by rw [pstep_load h m, hw]; simp)])
    rw [hu]; have := s1 hw; omega
  | some i =>
    subst hw
    obtain ⟨hni, _, hN⟩ := pstep_win h
    have hiN := hN b hk
    have hu : uninst w acc = uninst w (fun k => acc k + d k) + 1 := by
      refine sumTo_point hiN (fun m _ => ?_)
      by_cases hmi : m = i
      · subst hmi
        have hd := pstep_load h m
        simp only [if_true] at hd
        have : installed w (fun k => acc k + d k) m = true := by simp [installed, hd]
        simp [hni, this]
      · have hd := pstep_load h m
        have hne : ¬ (some i = some m) := fun hh => hmi (by cases hh; rfl)
        rw [if_neg hne] at hd
        rw [installed_congr hd]; simp [hmi]
    have hb := body_lt_bound hiN
    have := s2 i rfl
    rw [hu, Nat.add_one_mul]
    omega

/-- An evaluation of the class, run alone, finishes. -/
theorem runProc_total {w : World} (hb : BodiesOk w) : ∀ (n : Nat) (acc : Acc) (p : Proc) (outs : List Out) (b : Bool),
    okP w b p → uninst w acc * bodyBound w + psize p < n → ∃ r, runProc w n acc p outs = some r := by
  intro n
  induction n with
  | zero => intro acc p outs b _ h; omega
  | succ n ih =>
    intro acc p outs b hk hm
    simp only [runProc]
    cases hn : pnext w acc p with
    | none => exact ⟨_, rfl⟩
    | some r =>
      obtain ⟨d, em, win, p'⟩ := r
      have hs := pnext_sound.1 _ _ _ _ hn
      have := pstep_measure hs hk
      exact ih _ p' _ b (okP_step hb hs b hk) (by omega)

/-- Size of the evaluation an action starts. -/
def sizeA : Action → Nat
  | .eval ss => sizeL ss + 1
  | .evalPriv ss => sizeL ss + 1
  | .call _ _ => 2
  | .check _ => 1

theorem psize_startOf (a : Action) (env : Env) : psize (startOf a env).proc ≤ sizeA a := by
  cases a with
  | eval ss => simp only [startOf]; split <;> simp [psize, sizeA, sizeL]
  | evalPriv ss => simp only [startOf]; split <;> simp [psize, sizeA, sizeL]
  | call c k => simp [startOf, psize, sizeA, sizeL, sizeS]
  | check n => simp [startOf, psize, sizeA, sizeL]

theorem runActions_total {w : World} (hb : BodiesOk w) (fuel : Nat) : ∀ (as : List Action) (acc : Acc) (g : GState),
    (∀ a ∈ as, okAction w a = true ∧ w.N * bodyBound w + sizeA a < fuel) →
    ∃ r, runActions w fuel as acc g = some r := by
  intro as
  induction as with
  | nil => intro acc g _; exact ⟨_, rfl⟩
  | cons a as ih =>
    intro acc g h
    obtain ⟨hok, hf⟩ := h a (by simp)
    simp only [runActions]
    have hm : uninst w acc * bodyBound w + psize (startOf a g.env).proc < fuel := by
      have h1 := psize_startOf a g.env
      have h2 := Nat.mul_le_mul_right (bodyBound w) (uninst_le w acc)
      omega
    obtain ⟨r, hr⟩ := runProc_total hb fuel acc _ [] false (okP_startOf hok g.env) hm
    rw [hr]
    exact ih _ _ (fun a' ha' => h a' (by simp [ha']))

theorem runGoroutines_total {w : World} (hb : BodiesOk w) (fuel : Nat) : ∀ (rest : List GState) (acc : Acc) (done : List GState),
    (∀ g ∈ rest, ∀ a ∈ g.todo, okAction w a = true ∧ w.N * bodyBound w + sizeA a < fuel) →
    ∃ c, runGoroutines w fuel rest acc done = some c := by
  intro rest
  induction rest with
  | nil => intro acc done _; exact ⟨_, rfl⟩
  | cons g rest ih =>
    intro acc done h
    simp only [runGoroutines]
    obtain ⟨r, hr⟩ := runActions_total hb fuel g.todo acc g (h g (by simp))
    rw [hr]
    exact ih _ _ (fun g' hg' => h g' (by simp [hg']))

/-- Enough fuel for every evaluation of the program. -/
def fuelFor (w : World) (prog : List (List Action)) : Nat :=
  w.N * bodyBound w + (prog.map (fun g => (g.map sizeA).sum)).sum + 1

theorem sizeA_le_sum {a : Action} {g : List Action} (h : a ∈ g) : sizeA a ≤ (g.map sizeA).sum := by
  induction g with
  | nil => cases h
  | cons x xs ih =>
    simp only [List.map_cons, List.sum_cons]
    rcases List.mem_cons.1 h with rfl | h'
    · omega
    · have := ih h'; omega

theorem sum_le_sum {g : List Action} {prog : List (List Action)} (h : g ∈ prog) :
    (g.map sizeA).sum ≤ (prog.map (fun g => (g.map sizeA).sum)).sum := by
  induction prog with
  | nil => cases h
  | cons x xs ih =>
    simp only [List.map_cons, List.sum_cons]
    rcases List.mem_cons.1 h with rfl | h'
    · omega
    · have := ih h'; omega

/-- **The sequential run of a program of the class finishes.** -/
theorem serialRun_total {w : World} {prog : List (List Action)} (h : inClass w prog = true) (acc : Acc) :
    (serialRun w (fuelFor w prog) acc prog).isSome = true := by
  obtain ⟨hb, _⟩ := inClass_spec h acc
  simp only [inClass, Bool.and_eq_true, List.all_eq_true] at h
  obtain ⟨c, hc⟩ := runGoroutines_total hb (fuelFor w prog) (prog.map GState.init) acc [] (by
    intro g hg a ha
    simp only [List.mem_map] at hg
    obtain ⟨as, has, rfl⟩ := hg
    simp only [GState.init] at ha
    refine ⟨h.2 as has a ha, ?_⟩
    have h1 := sizeA_le_sum ha
    have h2 := sum_le_sum has
    simp only [fuelFor]; omega)
  simp [serialRun, hc]

end C39.Conc
