import ElvModel.C39.CheckThenAct
/-!
C39 helper (round 2): the test-and-set discipline gives at-most-once insertion.
-/
namespace C39.Cta
open C39

/-- Nothing installed was ever overwritten; insertions and deletions alternate;
a pending guard of the mutex holder still tells the truth. -/
def Inv (s : State) : Prop :=
  s.overwrites = 0 ∧
  s.inserts = s.deletes + (if s.present then 1 else 0) ∧
  ∀ n b, s.armed = some (n, b) → s.holder.isSome = true ∧ b = s.present

theorem inv_init : Inv init := ⟨rfl, rfl, by intro n b h; cases h⟩

/-- Every live entry is a test-and-set. -/
def AllTas (tbl : List CtaSite) : Prop := ∀ e ∈ tbl, e.live = true → e.atomic = true

theorem allTas_of_check {tbl : List CtaSite} (h : ctaCheck tbl = .tas) : AllTas tbl := by
  unfold ctaCheck at h
  split at h
  · split at h <;> cases h
  · rename_i hn
    intro e he hl
    have := List.find?_eq_none.1 hn e he
    simpa [hl] using this

theorem permitted_atomic {tbl : List CtaSite} (ht : AllTas tbl) {s : State} {g : Nat} {site : String} {del : Bool}
    (h : permitted tbl s g site del = true) :
    s.holder = some g ∧ ∃ an, s.armed = some (an, del) := by
  unfold permitted at h
  split at h
  · cases h
  · rename_i e he
    have hmem := List.mem_of_find?_eq_some he
    have hp := List.find?_some he
    simp only [Bool.and_eq_true] at hp
    have hat := ht e hmem hp.2
    rw [if_pos hat] at h
    simp only [Bool.and_eq_true, beq_iff_eq] at h
    refine ⟨h.1, ?_⟩
    have h2 := h.2
    split at h2
    · rename_i gn _ _ an found _ _
      simp only [Bool.and_eq_true, beq_iff_eq] at h2
      exact ⟨an, by rw [‹s.armed = _›, h2.2]⟩
    · cases h2

theorem inv_step {tbl : List CtaSite} (ht : AllTas tbl) {s s' : State} {e : Ev}
    (hi : Inv s) (h : step tbl s e = some s') : Inv s' := by
  obtain ⟨h1, h2, h3⟩ := hi
  cases e with
  | lock g =>
    simp only [step] at h
    split at h
    · cases h; exact ⟨h1, h2, by intro n b hh; cases hh⟩
    · cases h
  | unlock g =>
    simp only [step] at h
    split at h
    · cases h; exact ⟨h1, h2, by intro n b hh; cases hh⟩
    · cases h
  | look g site found =>
    simp only [step] at h
    split at h
    · rename_i hf
      simp only [beq_iff_eq] at hf
      simp only [Option.some.injEq] at h
      split at h
      · rename_i hh
        simp only [beq_iff_eq] at hh
        subst h
        refine ⟨h1, h2, ?_⟩
        intro n b hnb
        simp only [Option.some.injEq, Prod.mk.injEq] at hnb
        exact ⟨by simp [hh], by rw [← hnb.2]; exact hf⟩
      · subst h; exact ⟨h1, h2, h3⟩
    · cases h
  | ins g site =>
    simp only [step] at h
    split at h
    · rename_i hp
      obtain ⟨hh, an, ha⟩ := permitted_atomic ht hp
      have hpres : s.present = false := ((h3 an false ha).2).symm
      simp only [Option.some.injEq] at h
      subst h
      refine ⟨by simp [h1, hpres], by simp [h2, hpres], ?_⟩
      intro n b hnb
      simp [hh] at hnb
    · cases h
  | del g site =>
    simp only [step] at h
    split at h
    · rename_i hp
      obtain ⟨hh, an, ha⟩ := permitted_atomic ht hp
      have hpres : s.present = true := ((h3 an true ha).2).symm
      simp only [Option.some.injEq] at h
      subst h
      refine ⟨h1, by simp [h2, hpres], ?_⟩
      intro n b hnb
      simp [hh] at hnb
    · cases h

theorem inv_run {tbl : List CtaSite} (ht : AllTas tbl) : ∀ (tr : List Ev) (s s' : State),
    Inv s → run tbl s tr = some s' → Inv s'
  | [], s, s', hi, h => by simp only [run, Option.some.injEq] at h; subst h; exact hi
  | e :: es, s, s', hi, h => by
    simp only [run] at h
    split at h
    · rename_i s1 hs
      exact inv_run ht es s1 s' (inv_step ht hi hs) h
    · cases h

end C39.Cta
