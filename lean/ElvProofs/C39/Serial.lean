import ElvModel.C39.Programs
/-!
C39 helper lemmas: the effects of the generated programs form a commutative
monoid, so applying them in any order gives the same shared state.
-/
namespace C39

theorem Shared.add_comm (a b : Shared) : a.add b = b.add a := by
  cases a; cases b
  simp only [Shared.add, Shared.mk.injEq]
  refine ⟨?_, ?_, ?_⟩ <;> funext n
  · exact Nat.add_comm _ _
  · exact Bool.or_comm _ _
  · exact Bool.or_comm _ _

theorem Shared.add_assoc (a b c : Shared) : (a.add b).add c = a.add (b.add c) := by
  cases a; cases b; cases c
  simp only [Shared.add, Shared.mk.injEq]
  refine ⟨?_, ?_, ?_⟩ <;> funext n
  · exact Nat.add_assoc _ _ _
  · exact Bool.or_assoc _ _ _
  · exact Bool.or_assoc _ _ _

theorem Shared.zero_add (a : Shared) : Shared.zero.add a = a := by
  cases a
  simp [Shared.add, Shared.zero]

theorem Shared.add_zero (a : Shared) : a.add Shared.zero = a := by
  rw [Shared.add_comm, Shared.zero_add]

theorem foldl_add_start (l : List Shared) (a b : Shared) :
    l.foldl Shared.add (a.add b) = a.add (l.foldl Shared.add b) := by
  induction l generalizing b with
  | nil => rfl
  | cons x xs ih =>
    simp only [List.foldl_cons]
    rw [Shared.add_assoc, ih]

/-- Folding a commutative, associative operation is invariant under permutation. -/
theorem foldl_add_perm {l₁ l₂ : List Shared} (p : l₁.Perm l₂) :
    ∀ b, l₁.foldl Shared.add b = l₂.foldl Shared.add b := by
  induction p with
  | nil => intro b; rfl
  | cons x _ ih => intro b; simp only [List.foldl_cons]; exact ih _
  | swap x y l =>
    intro b
    simp only [List.foldl_cons]
    rw [Shared.add_assoc, Shared.add_comm y x, ← Shared.add_assoc]
  | trans _ _ ih1 ih2 => intro b; rw [ih1, ih2]

theorem applyAll_append (l₁ l₂ : List Shared) :
    applyAll (l₁ ++ l₂) = (applyAll l₁).add (applyAll l₂) := by
  unfold applyAll
  rw [List.foldl_append]
  have := foldl_add_start l₂ (List.foldl Shared.add Shared.zero l₁) Shared.zero
  rw [Shared.add_zero] at this
  exact this

theorem applyAll_cons (x : Shared) (l : List Shared) : applyAll (x :: l) = x.add (applyAll l) := by
  have := applyAll_append [x] l
  simp only [List.singleton_append] at this
  rw [this]
  congr 1
  simp [applyAll, Shared.zero_add]

theorem runGoroutine_effects (as : List Action) (e : Env) :
    (runGoroutine as e).1 = applyAll (goroutineEffects as e) := by
  induction as generalizing e with
  | nil => rfl
  | cons a as ih =>
    simp only [runGoroutine, goroutineEffects]
    rw [applyAll_cons, ← ih]

theorem runAll_effects (gs : List (List Action)) : (runAll gs).1 = applyAll (effects gs) := by
  induction gs with
  | nil => rfl
  | cons g gs ih =>
    simp only [runAll, effects, List.map_cons, List.flatten_cons]
    rw [applyAll_append, ← runGoroutine_effects]
    congr 1

end C39
