import ElvModel.C39.UseProtocol
/-!
C39 helper: the invariant of the `use` protocol with the re-check.
-/
namespace C39.Use

/-- The body was started once iff something is installed, and every goroutine
that is running the body or has returned holds the installed namespace. -/
def Inv (s : State) : Prop :=
  s.execs = (if s.installed.isSome then 1 else 0) ∧
  ∀ (g ns : Nat), (s.pcs[g]? = some (Pc.running ns) ∨ s.pcs[g]? = some (Pc.done ns)) → s.installed = some ns

theorem inv_init (n : Nat) : Inv (init n) := by
  refine ⟨rfl, ?_⟩
  intro g ns h
  simp only [init, List.getElem?_replicate] at h
  split at h <;> rcases h with h | h <;> cases h

theorem getElem?_set_cases {l : List Pc} {g g' : Nat} {a b : Pc}
    (h : (l.set g a)[g']? = some b) : (g = g' ∧ b = a) ∨ (g ≠ g' ∧ l[g']? = some b) := by
  rw [List.getElem?_set] at h
  split at h
  · split at h
    · left; cases h; exact ⟨by assumption, rfl⟩
    · cases h
  · right; exact ⟨by assumption, h⟩

theorem inv_step (s : State) (g : Nat) (h : Inv s) : Inv (step true s g) := by
  obtain ⟨h1, h2⟩ := h
  unfold step
  split
  · -- start
    split
    · rename_i ns hinst
      refine ⟨by simpa using h1, ?_⟩
      intro g' ns' hp
      simp only at hp ⊢
      rcases hp with hp | hp <;> rcases getElem?_set_cases hp with ⟨_, hb⟩ | ⟨_, hb⟩
      · cases hb
      · exact h2 g' ns' (Or.inl hb)
      · cases hb; exact hinst
      · exact h2 g' ns' (Or.inr hb)
    · refine ⟨by simpa using h1, ?_⟩
      intro g' ns' hp
      simp only at hp ⊢
      rcases hp with hp | hp <;> rcases getElem?_set_cases hp with ⟨_, hb⟩ | ⟨_, hb⟩
      · cases hb
      · exact h2 g' ns' (Or.inl hb)
      · cases hb
      · exact h2 g' ns' (Or.inr hb)
  · -- prepared
    split
    · rename_i ns hinst
      refine ⟨by simpa using h1, ?_⟩
      intro g' ns' hp
      simp only at hp ⊢
      rcases hp with hp | hp <;> rcases getElem?_set_cases hp with ⟨_, hb⟩ | ⟨_, hb⟩
      · cases hb
      · exact h2 g' ns' (Or.inl hb)
      · cases hb; exact hinst
      · exact h2 g' ns' (Or.inr hb)
    · rename_i hne
      have hnone : s.installed = none := by
        cases hi : s.installed with
        | none => rfl
        | some ns => exact absurd hi (by intro hh; exact hne ns rfl hh)
      refine ⟨by simp [h1, hnone], ?_⟩
      intro g' ns' hp
      simp only at hp ⊢
      rcases hp with hp | hp <;> rcases getElem?_set_cases hp with ⟨_, hb⟩ | ⟨_, hb⟩
      · cases hb; rfl
      · have := h2 g' ns' (Or.inl hb); rw [hnone] at this; cases this
      · cases hb
      · have := h2 g' ns' (Or.inr hb); rw [hnone] at this; cases this
  · -- running
    rename_i ns hrun
    refine ⟨by simpa using h1, ?_⟩
    intro g' ns' hp
    simp only at hp ⊢
    rcases hp with hp | hp <;> rcases getElem?_set_cases hp with ⟨_, hb⟩ | ⟨_, hb⟩
    · cases hb
    · exact h2 g' ns' (Or.inl hb)
    · cases hb; exact h2 g ns (Or.inl hrun)
    · exact h2 g' ns' (Or.inr hb)
  · exact ⟨h1, h2⟩

theorem inv_run (s : State) (sched : List Nat) (h : Inv s) : Inv (run true s sched) := by
  induction sched generalizing s with
  | nil => exact h
  | cons g gs ih => exact ih (step true s g) (inv_step s g h)

end C39.Use
