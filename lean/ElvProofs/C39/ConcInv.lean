import ElvProofs.C39.ConcLocal
/-!
C39 helper (round 2): the global invariants of the concurrent semantics, and
that they determine the result of every execution that runs to the end
(`Conc.unique`).
-/
namespace C39.Conc
open C39

/-! ### Sums over the module universe -/

def sumTo : Nat → (Nat → Nat) → Nat
  | 0, _ => 0
  | n + 1, f => sumTo n f + f n

theorem sumTo_congr {n : Nat} {f g : Nat → Nat} (h : ∀ m, m < n → f m = g m) : sumTo n f = sumTo n g := by
  induction n with
  | zero => rfl
  | succ n ih =>
    simp only [sumTo]
    rw [ih (fun m hm => h m (by omega)), h n (by omega)]

theorem sumTo_zero {n : Nat} {f : Nat → Nat} (h : ∀ m, m < n → f m = 0) : sumTo n f = 0 := by
  induction n with
  | zero => rfl
  | succ n ih =>
    simp only [sumTo]
    rw [ih (fun m hm => h m (by omega)), h n (by omega)]

theorem sumTo_point {n i d : Nat} {f g : Nat → Nat} (hi : i < n)
    (h : ∀ m, m < n → g m = f m + if m = i then d else 0) : sumTo n g = sumTo n f + d := by
  induction n with
  | zero => omega
  | succ n ih =>
    simp only [sumTo]
    by_cases hin : i = n
    · subst hin
      have h1 : sumTo i g = sumTo i f := sumTo_congr (fun m hm => by
        have := h m (by omega)
        rw [this]; simp; omega)
      have h2 := h i (by omega)
      simp at h2
      omega
    · have h1 := ih (by omega) (fun m hm => h m (by omega))
      have h2 := h n (by omega)
      have : ¬ n = i := fun hh => hin hh.symm
      simp [this] at h2
      omega

theorem sumTo_le {n i : Nat} {f : Nat → Nat} (hi : i < n) : f i ≤ sumTo n f := by
  induction n with
  | zero => omega
  | succ n ih =>
    simp only [sumTo]
    by_cases hin : i = n
    · subst hin; omega
    · have := ih (by omega); omega

/-! ### Static accounts of a goroutine -/

def effActions : List Action → Env → Acc
  | [], _ => zero
  | a :: as, env => fun k => rem (startOf a env).proc k + effActions as (startOf a env).nextEnv k

/-- What each evaluation returns: whether it compiled, and how often it outputs each value. -/
def resActions : List Action → Env → List (Bool × (Out → Nat))
  | [], _ => []
  | a :: as, env =>
    ((startOf a env).ok, fun o => rem (startOf a env).proc (.out o)) :: resActions as (startOf a env).nextEnv

def curRem (g : GState) : Acc :=
  match g.cur with
  | some c => rem c.proc
  | none => zero

def nextEnvG (g : GState) : Env :=
  match g.cur with
  | some c => c.nextEnv
  | none => g.env

/-- Everything the goroutine still has to do. -/
def remG (g : GState) : Acc := fun k => curRem g k + effActions g.todo (nextEnvG g) k

/-- The results of the goroutine's evaluations: past, present and future. -/
def view (g : GState) : List (Bool × (Out → Nat)) :=
  g.results.map (fun r => (r.ok, fun o => r.outs.count o)) ++
  (match g.cur with
   | some c => [(c.ok, fun o => g.outs.count o + rem c.proc (.out o))]
   | none => []) ++
  resActions g.todo (nextEnvG g)

def sumG (gs : List GState) (k : Key) : Nat := (gs.map (fun g => remG g k)).sum

theorem sumG_split (l1 : List GState) (g : GState) (l2 : List GState) (k : Key) :
    sumG (l1 ++ g :: l2) k = sumG l1 k + remG g k + sumG l2 k := by
  simp [sumG, List.sum_append, List.sum_cons]; omega

/-- What loading modules has brought so far. -/
def T (w : World) (acc : Acc) (k : Key) : Nat := sumTo w.N (fun m => acc (.load m) * loadEff w m k)

def okG (w : World) (g : GState) : Prop :=
  (∀ c, g.cur = some c → okP w false c.proc) ∧ g.todo.all (okAction w) = true

/-! ### Module bodies produce no output -/

mutual
theorem effS_noout (w : World) : ∀ (s : Stmt) (e : Env) (o : Out), okS w true s = true → effS s e (.out o) = 0
  | .inc c k, e, o, _ => by simp [effS, single]
  | .flag n, e, o, _ => by simp [effS, single]
  | .out v, e, o, h => by simp [okS] at h
  | .useF m, e, o, _ => by simp [effS, single]
  | .useB m, e, o, _ => by simp [effS, single]
  | .useStr, e, o, _ => by simp [effS, zero]
  | .getF m, e, o, h => by simp [okS] at h
  | .getB m, e, o, h => by simp [okS] at h
  | .var n k, e, o, _ => by simp [effS, zero]
  | .ref n, e, o, h => by simp [okS] at h
  | .del n, e, o, _ => by simp [effS, zero]
  | .peach n body, e, o, h => by
    have := effL_noout w body e o (by simpa [okS] using h)
    simp [effS, this]
  | .each n body, e, o, h => by
    have := effL_noout w body e o (by simpa [okS] using h)
    simp [effS, this]
  | .par b1 b2, e, o, h => by
    have h12 : okL w true b1 = true ∧ okL w true b2 = true := by simpa [okS] using h
    have h1 := effL_noout w b1 e o h12.1
    have h2 := effL_noout w b2 e o h12.2
    simp [effS, h1, h2]
theorem effL_noout (w : World) : ∀ (ss : List Stmt) (e : Env) (o : Out), okL w true ss = true → effL ss e (.out o) = 0
  | [], e, o, _ => by simp [effL, zero]
  | s :: ss, e, o, h => by
    have h' := okL_cons.1 h
    simp [effL_cons, effS_noout w s e o h'.1, effL_noout w ss _ o h'.2]
end

theorem winEff_out {w : World} (hb : BodiesOk w) {win : Option Nat} (hw : ∀ i, win = some i → i < w.N) (o : Out) :
    winEff w win (.out o) = 0 := by
  cases win with
  | none => simp [winEff, zero]
  | some i => simp [winEff, loadEff, single, effL_noout w _ _ o (hb i (hw i rfl))]

/-! ### One step of one goroutine -/

theorem okP_startOf {w : World} {a : Action} (h : okAction w a = true) (env : Env) :
    okP w false (startOf a env).proc := by
  cases a with
  | eval ss => simp only [startOf]; split <;> simp_all [okP, okAction, okL]
  | evalPriv ss => simp only [startOf]; split <;> simp_all [okP, okAction, okL]
  | call c k => simp [startOf, okP, okL, okS]
  | check n => simp [startOf, okP, okL]

structure StepFacts (w : World) (acc : Acc) (g : GState) (acc' : Acc) (g' : GState) (win : Option Nat) : Prop where
  account : ∀ k, acc' k + remG g' k = acc k + remG g k + winEff w win k
  loads : ∀ m, acc' (.load m) = acc (.load m) + if win = some m then 1 else 0
  won : ∀ i, win = some i → installed w acc i = false ∧ 1 ≤ remG g (.use i) ∧ i < w.N
  mono : ∀ k, acc k ≤ acc' k
  used : ∀ i, acc (.use i) < acc' (.use i) → installed w acc' i = true

theorem gstep_facts {w : World} (hb : BodiesOk w) {acc acc' : Acc} {g g' : GState}
    (h : GStep w acc g acc' g') (hk : okG w g) :
    okG w g' ∧ view g' = view g ∧ ∃ win, StepFacts w acc g acc' g' win := by
  cases h with
  | start a as hc ht =>
    refine ⟨?_, ?_, none, ?_⟩
    · obtain ⟨_, h2⟩ := hk
      rw [ht] at h2
      simp only [List.all_cons, Bool.and_eq_true] at h2
      refine ⟨?_, h2.2⟩
      intro c hcc; cases hcc
      exact okP_startOf h2.1 _
    · simp only [view, hc, ht, nextEnvG, resActions]
      simp
    · refine ⟨?_, (by intro m; simp), (by intro i hi; cases hi), fun k => Nat.le_refl _, fun i hi => absurd hi (Nat.lt_irrefl _)⟩
      intro k
      simp only [remG, curRem, nextEnvG, hc, ht, effActions, winEff, zero]
      omega
  | run c d em win p' hc hp =>
    have hkp := hk.1 c hc
    refine ⟨⟨?_, hk.2⟩, ?_, win, ?_⟩
    · intro c' hcc; cases hcc
      exact okP_step hb hp _ hkp
    · have hwN : ∀ i, win = some i → i < w.N := fun i hi => by
        subst hi; exact (pstep_win hp).2.2 _ hkp
      simp only [view, hc, nextEnvG, Cur.nextEnv, pstep_finalEnv hp]
      congr 2
      simp only [List.cons.injEq, Prod.mk.injEq, true_and, and_true]
      funext o
      have h1 := pstep_rem hp _ hkp (.out o)
      rw [winEff_out hb hwN o, pstep_out hp o] at h1
      rw [List.count_append]; omega
    · refine ⟨?_, ?_, ?_, fun k => Nat.le_add_right _ _, ?_⟩
      · intro k
        have h1 := pstep_rem hp _ hkp k
        simp only [remG, curRem, nextEnvG, hc, Cur.nextEnv, pstep_finalEnv hp]
        omega
      · intro m; rw [pstep_load hp m]
      · intro i hi
        subst hi
        obtain ⟨h1, h2, h3⟩ := pstep_win hp
        refine ⟨h1, ?_, h3 _ hkp⟩
        simp only [remG, curRem, hc]; omega
      · intro i hi
        exact pstep_use hp i (by omega)
  | finish c hc hd =>
    refine ⟨⟨(by intro c' hcc; cases hcc), hk.2⟩, ?_, none, ?_⟩
    · simp only [view, hc, nextEnvG, List.map_append, List.map_cons, List.map_nil]
      have : (fun o => List.count o g.outs + rem c.proc (Key.out o)) = fun o => List.count o g.outs := by
        funext o; rw [rem_done hd]; rfl
      simp [this]
    · refine ⟨?_, (by intro m; simp), (by intro i hi; cases hi), fun k => Nat.le_refl _, fun i hi => absurd hi (Nat.lt_irrefl _)⟩
      intro k
      simp only [remG, curRem, nextEnvG, hc, winEff, zero, rem_done hd]
      omega

/-! ### The invariants of a whole execution -/

/-- `C` contains every module the program must load: the ones its own `use`
statements name, and the ones the bodies of modules in `C` import — unless they
were loaded before. -/
def Good (w : World) (c0 : Cfg) (C : Nat → Prop) : Prop :=
  (∀ i, 0 < sumG c0.gs (.use i) → w.pre i = true ∨ C i) ∧
  (∀ m i, C m → 0 < loadEff w m (.use i) → w.pre i = true ∨ C i)

structure Inv (w : World) (c0 c : Cfg) : Prop where
  account : ∀ k, c.acc k + sumG c.gs k = c0.acc k + sumG c0.gs k + T w c.acc k
  ok : ∀ g ∈ c.gs, okG w g
  used : ∀ i, 0 < c.acc (.use i) → installed w c.acc i = true
  loads : ∀ i, c.acc (.load i) ≤ 1 ∧ (0 < c.acc (.load i) → i < w.N)
  views : c.gs.map view = c0.gs.map view
  sound : ∀ C, Good w c0 C →
    (∀ i, 0 < sumG c.gs (.use i) → w.pre i = true ∨ C i) ∧ (∀ i, 0 < c.acc (.load i) → C i)

theorem inv_init {w : World} {c0 : Cfg} (hf : Fresh c0.acc) (hk : ∀ g ∈ c0.gs, okG w g) : Inv w c0 c0 := by
  refine ⟨?_, hk, ?_, ?_, rfl, ?_⟩
  · intro k
    have : T w c0.acc k = 0 := sumTo_zero (fun m _ => by simp [(hf m).2.1])
    omega
  · intro i hi; rw [(hf i).1] at hi; omega
  · intro i; rw [(hf i).2.1]; exact ⟨by omega, by omega⟩
  · intro C hC
    exact ⟨hC.1, fun i hi => by rw [(hf i).2.1] at hi; omega⟩

theorem inv_step {w : World} (hb : BodiesOk w) {c0 c c' : Cfg} (hi : Inv w c0 c) (hs : CStep w c c') :
    Inv w c0 c' := by
  cases hs with
  | mk acc acc' l1 g g' l2 hg =>
    have hgk : okG w g := hi.ok g (by simp)
    obtain ⟨hk', hv, win, hf⟩ := gstep_facts hb hg hgk
    -- the `load` counts and T
    have hT : ∀ k, T w acc' k = T w acc k + winEff w win k := by
      intro k
      cases hw : win with
      | none =>
        simp only [winEff, zero, Nat.add_zero]
        exact sumTo_congr (fun m _ => by rw [hf.loads m, hw]; simp)
      | some i =>
        obtain ⟨_, _, hiN⟩ := hf.won i hw
        simp only [winEff]
        exact sumTo_point hiN (fun m _ => by
          rw [hf.loads m, hw]
          by_cases hmi : m = i
          · subst hmi; simp [Nat.add_mul]
          · have : ¬ i = m := fun hh => hmi hh.symm
            simp [hmi, this])
    refine ⟨?_, ?_, ?_, ?_, ?_, ?_⟩
    · intro k
      have h1 := hi.account k
      have h2 := hf.account k
      simp only [sumG_split] at h1 ⊢
      rw [hT k]
      omega
    · intro h hh
      simp only [List.mem_append, List.mem_cons] at hh
      rcases hh with hh | rfl | hh
      · exact hi.ok h (by simp [hh])
      · exact hk'
      · exact hi.ok h (by simp [hh])
    · intro i hpos
      have hpos' : 0 < acc' (.use i) := hpos
      by_cases hlt : acc (.use i) < acc' (.use i)
      · exact hf.used i hlt
      · have hm := hf.mono (.use i)
        have heq : acc (.use i) = acc' (.use i) := by omega
        have h1 : installed w acc i = true := hi.used i (by show 0 < acc (.use i); omega)
        simp only [installed, Bool.or_eq_true, bne_iff_ne, ne_eq] at h1 ⊢
        rcases h1 with h1 | h1
        · exact Or.inl h1
        · right; have := hf.mono (.load i); omega
    · intro i
      have h1 := hi.loads i
      simp only at h1 ⊢
      rw [hf.loads i]
      by_cases hwi : win = some i
      · obtain ⟨hni, _, hiN⟩ := hf.won i hwi
        simp only [installed, Bool.or_eq_false_iff, bne_eq_false_iff_eq] at hni
        simp [hwi, hni.2, hiN]
      · simp only [hwi, if_false, Nat.add_zero]; exact h1
    · simp only [List.map_append, List.map_cons, hv]
      simpa using hi.views
    · intro C hC
      obtain ⟨s1, s2⟩ := hi.sound C hC
      have hwinC : ∀ i, win = some i → C i := by
        intro i hwi
        obtain ⟨hni, hrem, _⟩ := hf.won i hwi
        have hpos : 0 < sumG (l1 ++ g :: l2) (.use i) := by rw [sumG_split]; omega
        rcases s1 i hpos with hp | hc
        · simp [installed, hp] at hni
        · exact hc
      constructor
      · intro i hpos
        rw [sumG_split] at hpos
        have hacc := hf.account (.use i)
        have hm := hf.mono (.use i)
        by_cases hold : 0 < sumG (l1 ++ g :: l2) (.use i)
        · exact s1 i hold
        · rw [sumG_split] at hold
          -- the new pending use comes from the body of the module just installed
          have hwpos : 0 < winEff w win (.use i) := by omega
          cases hw : win with
          | none => rw [hw] at hwpos; simp [winEff, zero] at hwpos
          | some m =>
            rw [hw] at hwpos
            exact hC.2 m i (hwinC m hw) hwpos
      · intro i hpos
        simp only at hpos
        rw [hf.loads i] at hpos
        by_cases hwi : win = some i
        · exact hwinC i hwi
        · simp only [hwi, if_false, Nat.add_zero] at hpos
          exact s2 i hpos

theorem inv_exec {w : World} (hb : BodiesOk w) {c0 c : Cfg} (hf : Fresh c0.acc)
    (hk : ∀ g ∈ c0.gs, okG w g) (h : Exec w c0 c) : Inv w c0 c := by
  induction h with
  | refl => exact inv_init hf hk
  | step c' c'' _ hs ih => exact inv_step hb ih hs

/-! ### At the end -/

theorem remG_terminal {g : GState} (h : g.cur = none ∧ g.todo = []) (k : Key) : remG g k = 0 := by
  simp [remG, curRem, h.1, h.2, effActions, zero]

theorem sumG_terminal {c : Cfg} (h : c.terminal) (k : Key) : sumG c.gs k = 0 := by
  unfold sumG
  have : ∀ gs : List GState, (∀ g ∈ gs, g.cur = none ∧ g.todo = []) → (gs.map (fun g => remG g k)).sum = 0 := by
    intro gs
    induction gs with
    | nil => intro _; rfl
    | cons g gs ih =>
      intro hh
      simp only [List.map_cons, List.sum_cons]
      rw [remG_terminal (hh g (by simp)), ih (fun g' hg' => hh g' (by simp [hg']))]
  exact this c.gs h

/-- The set of modules a finished execution has loaded is Good. -/
theorem good_final {w : World} {c0 c : Cfg} (hi : Inv w c0 c) (ht : c.terminal) :
    Good w c0 (fun i => 0 < c.acc (.load i)) := by
  have hacc : ∀ k, c.acc k = c0.acc k + sumG c0.gs k + T w c.acc k := by
    intro k
    have := hi.account k
    rw [sumG_terminal ht k] at this
    omega
  have hinst : ∀ i, 0 < c.acc (.use i) → w.pre i = true ∨ 0 < c.acc (.load i) := by
    intro i hpos
    have := hi.used i hpos
    simp only [installed, Bool.or_eq_true, bne_iff_ne, ne_eq] at this
    rcases this with h | h
    · exact Or.inl h
    · right; omega
  constructor
  · intro i hpos
    exact hinst i (by rw [hacc]; omega)
  · intro m i hm hpos
    apply hinst i
    rw [hacc]
    have hmN := (hi.loads m).2 hm
    have : c.acc (.load m) * loadEff w m (.use i) ≤ T w c.acc (.use i) :=
      sumTo_le (f := fun m => c.acc (.load m) * loadEff w m (.use i)) hmN
    have : 0 < c.acc (.load m) * loadEff w m (.use i) := Nat.mul_pos hm hpos
    omega

/-- **Confluence of results**: two executions of a program of the class that
run to the end — under any two interleavings — end with the same counts
(counters, flags, loaded modules, load counts) and give every evaluation the
same result. -/
theorem unique {w : World} (hb : BodiesOk w) {c0 cA cB : Cfg} (hf : Fresh c0.acc)
    (hk : ∀ g ∈ c0.gs, okG w g)
    (hA : Exec w c0 cA) (hB : Exec w c0 cB) (tA : cA.terminal) (tB : cB.terminal) :
    cA.acc = cB.acc ∧ cA.gs.map view = cB.gs.map view := by
  have iA := inv_exec hb hf hk hA
  have iB := inv_exec hb hf hk hB
  have hAB : ∀ i, 0 < cA.acc (.load i) → 0 < cB.acc (.load i) :=
    (iA.sound _ (good_final iB tB)).2
  have hBA : ∀ i, 0 < cB.acc (.load i) → 0 < cA.acc (.load i) :=
    (iB.sound _ (good_final iA tA)).2
  have hload : ∀ i, cA.acc (.load i) = cB.acc (.load i) := by
    intro i
    have a1 := (iA.loads i).1
    have b1 := (iB.loads i).1
    by_cases ha : 0 < cA.acc (.load i)
    · have := hAB i ha; omega
    · by_cases hb' : 0 < cB.acc (.load i)
      · have := hBA i hb'; omega
      · omega
  refine ⟨?_, by rw [iA.views, iB.views]⟩
  funext k
  have a := iA.account k
  have b := iB.account k
  rw [sumG_terminal tA k] at a
  rw [sumG_terminal tB k] at b
  have hT : T w cA.acc k = T w cB.acc k := sumTo_congr (fun m _ => by rw [hload m])
  omega

end C39.Conc
