/-
C05 helper lemmas: the structured literals of Spec.lean are parsed with their
stated values (integer and rational syntaxes).
-/
import ElvProofs.C05.Scan
namespace C05
open Go

theorem dig_byte_toNat (d : Dig) (h : d.val < 16) :
    d.byte.toNat = if d.val < 10 then 48 + d.val else if d.upper then 55 + d.val else 87 + d.val := by
  unfold Dig.byte
  split
  · rw [ofNat_toNat_small (by omega)]
  · split <;> rw [ofNat_toNat_small (by omega)]

theorem dig_digitVal (d : Dig) (h : d.val < 16) : digitVal d.byte = d.val := by
  unfold digitVal
  simp only [dig_byte_toNat d h]
  by_cases h1 : d.val < 10
  · simp [h1]; omega
  · by_cases h2 : d.upper = true
    · simp [h1, h2]
      have : ¬ (48 ≤ 55 + d.val ∧ 55 + d.val ≤ 57) := by omega
      have : ¬ (97 ≤ 55 + d.val ∧ 55 + d.val ≤ 122) := by omega
      have : (65 ≤ 55 + d.val ∧ 55 + d.val ≤ 90) := by omega
      simp [*]
    · simp [h1, h2]
      have : ¬ (48 ≤ 87 + d.val ∧ 87 + d.val ≤ 57) := by omega
      have : (97 ≤ 87 + d.val ∧ 87 + d.val ≤ 122) := by omega
      simp [*]

/-- a rendered digit is none of `_ / + - .` -/
theorem dig_byte_ne (d : Dig) (h : d.val < 16) (x : UInt8)
    (hx : x.toNat = 95 ∨ x.toNat = 47 ∨ x.toNat = 43 ∨ x.toNat = 45 ∨ x.toNat = 46) : d.byte ≠ x := by
  apply ne_of_toNat_ne
  rw [dig_byte_toNat d h]
  split
  · omega
  · split <;> omega

theorem scanLoop_renderRest (b : Nat) (hb : b ≤ 16) (tail : Bytes) :
    ∀ (rest : List (Bool × Dig)) (st : ScanSt), st.prev = .digit → (∀ x ∈ rest, x.2.val < b) →
    scanLoop b st (renderRest rest ++ tail) =
      scanLoop b { prev := .digit, invalSep := st.invalSep, count := st.count + rest.length,
                   acc := valRest b st.acc rest } tail
  | [], st, hp, _ => by
    cases st; simp_all [renderRest, valRest]
  | (us, d) :: r, st, hp, h => by
    have hd : d.val < b := h (us, d) (by simp)
    have hd16 : d.val < 16 := by omega
    have hne : d.byte ≠ 0x5F := dig_byte_ne d hd16 _ (by simp)
    have hv : digitVal d.byte < b := by rw [dig_digitVal d hd16]; exact hd
    have ih := scanLoop_renderRest b hb tail r
    cases us with
    | true =>
      simp only [renderRest, if_true, List.cons_append, List.nil_append]
      rw [scanLoop_us, scanLoop_digit hne hv, ih _ rfl (fun x hx => h x (by simp [hx]))]
      simp only [stepDigit, hp, valRest, dig_digitVal d hd16, List.length_cons]
      congr 2
      · simp
      · omega
    | false =>
      simp only [renderRest, Bool.false_eq_true, if_false, List.cons_append, List.nil_append]
      rw [scanLoop_digit hne hv, ih _ rfl (fun x hx => h x (by simp [hx]))]
      simp only [stepDigit, valRest, dig_digitVal d hd16, List.length_cons]
      congr 2
      omega

theorem scanLoop_digits_render (b : Nat) (hb : b ≤ 16) (st : ScanSt) (hp : st.prev = .digit)
    (usp : Bool) (ds : Digits) (hall : ds.all (fun d => decide (d.val < b)) = true) :
    scanLoop b st ((if usp then [0x5F] else []) ++ ds.render) =
      ({ prev := .digit, invalSep := st.invalSep, count := st.count + ds.len,
         acc := valRest b (st.acc * b + ds.first.val) ds.rest }, []) := by
  obtain ⟨first, rest⟩ := ds
  simp only [Digits.all, Bool.and_eq_true, decide_eq_true_eq, List.all_eq_true] at hall
  obtain ⟨hf, hr⟩ := hall
  have hf16 : first.val < 16 := by omega
  have hne : first.byte ≠ 0x5F := dig_byte_ne first hf16 _ (by simp)
  have hv : digitVal first.byte < b := by rw [dig_digitVal first hf16]; exact hf
  have hr' : ∀ x ∈ rest, x.2.val < b := fun x hx => hr x hx
  have key := scanLoop_renderRest b hb [] rest
  simp only [List.append_nil] at key
  cases usp with
  | true =>
    simp only [if_true, Digits.render, List.cons_append, List.nil_append]
    rw [scanLoop_us, scanLoop_digit hne hv, key _ rfl hr']
    simp [stepDigit, hp, scanLoop, Digits.len, dig_digitVal first hf16]
    omega
  | false =>
    simp only [Digits.render, Bool.false_eq_true, if_false, List.nil_append]
    rw [scanLoop_digit hne hv, key _ rfl hr']
    simp [stepDigit, scanLoop, Digits.len, dig_digitVal first hf16]
    omega


theorem natScan_natLit (l : NatLit) (h : l.wf = true) : natScan l.render = some (l.value, []) := by
  obtain ⟨base, up, usp, ds⟩ := l
  simp only [NatLit.wf, Bool.and_eq_true] at h
  obtain ⟨hall, hlead⟩ := h
  have st0p : ({ prev := .digit, invalSep := false, count := 0, acc := 0 } : ScanSt).prev = .digit := rfl
  cases base with
  | dec =>
    simp only [Base.radix] at hall
    obtain ⟨first, rest⟩ := ds
    have hall' := hall
    simp only [Digits.all, Bool.and_eq_true, List.all_eq_true] at hall'
    obtain ⟨hf0, hr0⟩ := hall'
    have hf : first.val < 10 := of_decide_eq_true hf0
    have hr : ∀ x ∈ rest, x.2.val < 10 := fun x hx => of_decide_eq_true (hr0 x hx)
    have hb : first.byte.toNat = 48 + first.val := by rw [dig_byte_toNat first (by omega)]; simp [hf]
    simp only [NatLit.render, Base.pfx, NatLit.value, Base.radix, Digits.value, Digits.render]
    simp only [bne_self_eq_false, Bool.and_false, Bool.false_eq_true, if_false, List.nil_append]
    by_cases hz : first.val = 0
    · -- the literal is `0`
      simp [hz] at hlead
      subst hlead
      have : first.byte = 0x30 := by
        apply UInt8.toNat_inj.mp; rw [hb, hz]; rfl
      simp [renderRest, this, natScan, valRest, hz]
    · have hne0 : first.byte ≠ 0x30 := by apply ne_of_toNat_ne; rw [hb]; simp; omega
      have hne : first.byte ≠ 0x5F := dig_byte_ne first (by omega) _ (by simp)
      have hv : digitVal first.byte < 10 := by rw [dig_digitVal first (by omega)]; exact hf
      unfold natScan
      simp only [hne0, if_false]
      have key := scanLoop_renderRest 10 (by omega) [] rest
      simp only [List.append_nil] at key
      rw [scanLoop_digit hne hv, key _ rfl (fun x hx => hr x hx)]
      simp [scanLoop, scanFinish, stepDigit, dig_digitVal first (by omega : first.val < 16)]
  | hex =>
    simp only [Base.radix] at hall
    have key := scanLoop_digits_render 16 (by omega) _ st0p usp ds hall
    cases up <;>
      simp [NatLit.render, Base.pfx, NatLit.value, Base.radix, Digits.value, natScan, key, scanFinish, Digits.len]
  | oct =>
    simp only [Base.radix] at hall
    have key := scanLoop_digits_render 8 (by omega) _ st0p usp ds hall
    cases up <;>
      simp [NatLit.render, Base.pfx, NatLit.value, Base.radix, Digits.value, natScan, key, scanFinish, Digits.len]
  | bin =>
    simp only [Base.radix] at hall
    have key := scanLoop_digits_render 2 (by omega) _ st0p usp ds hall
    cases up <;>
      simp [NatLit.render, Base.pfx, NatLit.value, Base.radix, Digits.value, natScan, key, scanFinish, Digits.len]


theorem slash_not_mem_renderRest : ∀ (rest : List (Bool × Dig)), (∀ x ∈ rest, x.2.val < 16) →
    (0x2F : UInt8) ∉ renderRest rest
  | [], _ => by simp [renderRest]
  | (us, d) :: r, h => by
    have hd := dig_byte_ne d (h (us, d) (by simp)) 0x2F (by simp)
    have ih := slash_not_mem_renderRest r (fun x hx => h x (by simp [hx]))
    cases us <;> simp [renderRest, hd.symm, ih]

theorem natLit_lt16 (l : NatLit) (h : l.wf = true) :
    l.digits.first.val < 16 ∧ ∀ x ∈ l.digits.rest, x.2.val < 16 := by
  simp only [NatLit.wf, Bool.and_eq_true, Digits.all, List.all_eq_true] at h
  have hr : l.base.radix ≤ 16 := by cases l.base <;> simp [Base.radix]
  refine ⟨?_, ?_⟩
  · have := of_decide_eq_true h.1.1; omega
  · intro x hx; have := of_decide_eq_true (h.1.2 x hx); omega

theorem slash_not_mem_natLit (l : NatLit) (h : l.wf = true) : (0x2F : UInt8) ∉ l.render := by
  obtain ⟨h1, h2⟩ := natLit_lt16 l h
  have hd := dig_byte_ne l.digits.first h1 0x2F (by simp)
  have hr := slash_not_mem_renderRest l.digits.rest h2
  obtain ⟨base, up, usp, ds⟩ := l
  cases base <;> cases up <;> cases usp <;>
    simp_all [NatLit.render, Base.pfx, Digits.render, hd.symm]

theorem natLit_render_head (l : NatLit) (h : l.wf = true) :
    ∃ c cs, l.render = c :: cs ∧ c ≠ 0x2D ∧ c ≠ 0x2B := by
  obtain ⟨h1, _⟩ := natLit_lt16 l h
  have hm := dig_byte_ne l.digits.first h1 0x2D (by simp)
  have hp := dig_byte_ne l.digits.first h1 0x2B (by simp)
  obtain ⟨base, up, usp, ds⟩ := l
  cases base <;> simp_all [NatLit.render, Base.pfx, Digits.render]

theorem intSetString_intLit (l : IntLit) (h : l.wf = true) :
    intSetString l.render = some l.value := by
  obtain ⟨sign, mag⟩ := l
  have hs := natScan_natLit mag h
  cases sign with
  | none =>
    obtain ⟨c, cs, e, h1, h2⟩ := natLit_render_head mag h
    simp only [IntLit.render, Sign.bytes, List.nil_append, IntLit.value, Sign.isNeg]
    rw [e] at hs ⊢
    simp [intSetString, h1, h2, hs]
  | plus =>
    simp [IntLit.render, Sign.bytes, IntLit.value, Sign.isNeg, intSetString, hs]
  | minus =>
    simp [IntLit.render, Sign.bytes, IntLit.value, Sign.isNeg, intSetString, hs]

theorem slash_not_mem_intLit (l : IntLit) (h : l.wf = true) : (0x2F : UInt8) ∉ l.render := by
  have := slash_not_mem_natLit l.mag h
  obtain ⟨sign, mag⟩ := l
  cases sign <;> simp_all [IntLit.render, Sign.bytes]

theorem parseNum_intLit (l : IntLit) (h : l.wf = true) :
    parseNum l.render = some (normalizeBigInt l.value) := by
  unfold parseNum splitSlash
  rw [splitByte_none (slash_not_mem_intLit l h), intSetString_intLit l h]

theorem parseNum_ratLit (l : RatLit) (h : l.wf = true) :
    parseNum l.render = some (normalizeBigRat l.value) := by
  simp only [RatLit.wf, Bool.and_eq_true, bne_iff_ne, ne_eq] at h
  obtain ⟨⟨hn, hd⟩, hz⟩ := h
  unfold parseNum splitSlash RatLit.render
  rw [splitByte_append _ (slash_not_mem_intLit l.num hn)]
  simp [ratSetFrac, intSetString_intLit l.num hn, natScan_natLit l.den hd, hz, RatLit.value]

end C05
