/-
C05 round 2: strconv's `special` accepts (entirely) exactly `inf`, `infinity`
with an optional sign and `nan`, in any letter case (`specialValue`).
-/
import ElvModel.C05.Grammar
import ElvProofs.C05.Reject
namespace C05
open Go

theorem lowerAscii_facts : ∀ c : UInt8,
    (lowerAscii c = 0x2B ↔ c = 0x2B) ∧ (lowerAscii c = 0x2D ↔ c = 0x2D) ∧
    (lowerAscii c = 0x69 ↔ (c = 0x69 ∨ c = 0x49)) ∧ (lowerAscii c = 0x6E ↔ (c = 0x6E ∨ c = 0x4E)) := by
  apply forall_uint8; decide +kernel

theorem cpl_eq (c : UInt8) (cs : Bytes) (q : UInt8) (ps : Bytes) :
    commonPrefixLen (c :: cs) (q :: ps) = if lowerAscii c = q then commonPrefixLen cs ps + 1 else 0 := by
  simp only [commonPrefixLen, lowerAscii]
  rfl

/-- the whole of `s` is a case-folded prefix of `p` -/
theorem cpl_full : ∀ (s p : Bytes), commonPrefixLen s p = s.length ↔
    (s.length ≤ p.length ∧ s.map lowerAscii = p.take s.length)
  | [], p => by simp [commonPrefixLen]
  | c :: cs, [] => by simp [commonPrefixLen]
  | c :: cs, q :: ps => by
    rw [cpl_eq]
    have ih := cpl_full cs ps
    by_cases h : lowerAscii c = q
    · simp only [h, if_true, List.length_cons, Nat.add_right_cancel_iff, List.map_cons, List.take_succ_cons,
        List.cons.injEq, true_and, Nat.add_le_add_iff_right]
      exact ih
    · simp [h]

theorem specialInf_iff (neg : Bool) (nsign : Nat) (cs : Bytes) (b : Nat) :
    specialInf neg nsign cs = some (b, nsign + cs.length) ↔
      ((cs.map lowerAscii = infLit ∨ cs.map lowerAscii = infinityLit) ∧
        b = (if neg then signBit + infBits else infBits)) := by
  have hle := commonPrefixLen_le cs infinityLit
  have hfull := cpl_full cs infinityLit
  unfold specialInf
  simp only
  generalize hn : commonPrefixLen cs infinityLit = n at hle hfull
  constructor
  · intro h
    by_cases hc : 3 < n ∧ n < 8
    · simp only [hc, and_self, if_true] at h
      simp at h
      omega
    · simp only [hc, if_false] at h
      by_cases h2 : n = 3 ∨ n = 8
      · simp only [h2, if_true, Option.some.injEq, Prod.mk.injEq] at h
        obtain ⟨hb, hl⟩ := h
        have hnl : n = cs.length := by omega
        have hm := (hfull.mp hnl).2
        refine ⟨?_, hb.symm⟩
        rcases h2 with h2 | h2
        · left; rw [hm, ← hnl, h2]; rfl
        · right; rw [hm, ← hnl, h2]; rfl
      · simp [h2] at h
  · rintro ⟨hm, hb⟩
    have hlen : cs.length = (cs.map lowerAscii).length := by simp
    rcases hm with hm | hm
    · have h3 : cs.length = 3 := by rw [hlen, hm]; rfl
      have : n = 3 := by
        have := hfull.mpr ⟨by rw [h3]; decide, by rw [hm, h3]; rfl⟩
        omega
      subst this
      simp [hb, h3]
    · have h8 : cs.length = 8 := by rw [hlen, hm]; rfl
      have : n = 8 := by
        have := hfull.mpr ⟨by rw [h8]; decide, by rw [hm, h8]; rfl⟩
        omega
      subst this
      simp [hb, h8]

/-- `special` consumes the whole string exactly on the inf/nan spellings -/
theorem special_full (s : Bytes) (b : Nat) : special s = some (b, s.length) ↔ specialValue s = some b := by
  cases s with
  | nil => simp [special, specialValue, infLit, infinityLit, nanLit]
  | cons c cs =>
    obtain ⟨f1, f2, f3, f4⟩ := lowerAscii_facts c
    have hlen : (c :: cs).length = 1 + cs.length := by simp; omega
    unfold special
    simp only
    by_cases h1 : c = 0x2B
    · subst h1
      simp only [if_true, hlen]
      rw [specialInf_iff]
      simp only [specialValue, List.map_cons, show lowerAscii 0x2B = 0x2B by decide, infLit, infinityLit, nanLit,
        List.cons.injEq, Bool.false_eq_true, if_false]
      simp only [show ((0x2B : UInt8) = 0x69) = False by decide, show ((0x2B : UInt8) = 0x2D) = False by decide,
        show ((0x2B : UInt8) = 0x6E) = False by decide, false_and, true_and, false_or, or_false]
      constructor
      · rintro ⟨h, rfl⟩; simp [h]
      · intro h
        split at h
        · rename_i hc; exact ⟨hc, by simpa using h.symm⟩
        · simp at h
    · simp only [h1, if_false]
      by_cases h2 : c = 0x2D
      · subst h2
        simp only [if_true, hlen]
        rw [specialInf_iff]
        simp only [specialValue, List.map_cons, show lowerAscii 0x2D = 0x2D by decide, infLit, infinityLit, nanLit,
          List.cons.injEq, if_true]
        simp only [show ((0x2D : UInt8) = 0x69) = False by decide, show ((0x2D : UInt8) = 0x2B) = False by decide,
          show ((0x2D : UInt8) = 0x6E) = False by decide, false_and, true_and, false_or, or_false, if_false]
        constructor
        · rintro ⟨h, rfl⟩; simp [h]
        · intro h
          split at h
          · rename_i hc; exact ⟨hc, by simpa using h.symm⟩
          · simp at h
      · simp only [h2, if_false]
        have n1 : lowerAscii c ≠ 0x2B := fun e => h1 (f1.mp e)
        have n2 : lowerAscii c ≠ 0x2D := fun e => h2 (f2.mp e)
        by_cases h3 : c = 0x69 ∨ c = 0x49
        · simp only [h3, if_true]
          have hi : lowerAscii c = 0x69 := f3.mpr h3
          have := specialInf_iff false 0 (c :: cs) b
          simp only [Nat.zero_add] at this
          rw [this]
          simp only [specialValue, List.map_cons, hi, infLit, infinityLit, nanLit, List.cons.injEq,
            Bool.false_eq_true, if_false]
          simp only [show ((0x69 : UInt8) = 0x2B) = False by decide, show ((0x69 : UInt8) = 0x2D) = False by decide,
            show ((0x69 : UInt8) = 0x6E) = False by decide, false_and, true_and, false_or, or_false, if_false]
          constructor
          · rintro ⟨h, rfl⟩
            rcases h with h | h <;> simp [h]
          · intro h
            split at h
            · rename_i hc
              refine ⟨?_, by simpa using h.symm⟩
              rcases hc with hc | hc
              · exact Or.inl hc
              · exact Or.inr hc
            · simp at h
        · simp only [h3, if_false]
          have n3 : lowerAscii c ≠ 0x69 := fun e => h3 (f3.mp e)
          by_cases h4 : c = 0x6E ∨ c = 0x4E
          · simp only [h4, if_true]
            have hn : lowerAscii c = 0x6E := f4.mpr h4
            have hfull := cpl_full (c :: cs) nanLit
            have key : (commonPrefixLen (c :: cs) nanLit = 3 ∧ (c :: cs).length = 3) ↔
                cs.map lowerAscii = [0x61, 0x6E] := by
              constructor
              · rintro ⟨k1, k2⟩
                have := (hfull.mp (k1.trans k2.symm)).2
                rw [k2] at this
                simpa [hn, nanLit] using this
              · intro hc
                have hl : (c :: cs).length = 3 := by
                  have : (cs.map lowerAscii).length = 2 := by rw [hc]; rfl
                  simp at this ⊢; omega
                refine ⟨?_, hl⟩
                rw [← hl]
                apply hfull.mpr
                refine ⟨by rw [hl]; decide, ?_⟩
                rw [hl]; simp [hn, hc, nanLit]
            have rhs : specialValue (c :: cs) = some b ↔ (cs.map lowerAscii = [0x61, 0x6E] ∧ b = nanBits) := by
              simp only [specialValue, List.map_cons, hn, infLit, infinityLit, nanLit, List.cons.injEq]
              simp only [show ((0x6E : UInt8) = 0x2B) = False by decide, show ((0x6E : UInt8) = 0x2D) = False by decide,
                show ((0x6E : UInt8) = 0x69) = False by decide, false_and, true_and, or_self, if_false]
              constructor
              · intro h
                split at h
                · rename_i hc; exact ⟨hc, by simpa using h.symm⟩
                · simp at h
              · rintro ⟨hc, rfl⟩; simp [hc]
            rw [rhs, ← key]
            constructor
            · intro h
              split at h
              · rename_i hc
                simp only [Option.some.injEq, Prod.mk.injEq] at h
                exact ⟨⟨hc, h.2.symm⟩, h.1.symm⟩
              · simp at h
            · rintro ⟨⟨k1, k2⟩, rfl⟩
              simp [k1, k2]
          · simp only [h4, if_false]
            have n4 : lowerAscii c ≠ 0x6E := fun e => h4 (f4.mp e)
            simp [specialValue, infLit, infinityLit, nanLit, n1, n2, n3, n4]

end C05
