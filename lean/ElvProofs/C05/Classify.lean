/-
C05 round 2: `vals.ParseNum` accepts exactly the renderings of the structured
literals of Grammar.lean — integers, rationals, float literals whose rounded
value is finite, and the inf/nan spellings — and gives each its value.
-/
import ElvProofs.C05.FloatInv
import ElvProofs.C05.Special
namespace C05
open Go

/-- "a number in some syntax": the union of the three library grammars and the
inf/nan spellings.  (A float literal whose rounded value overflows is excluded:
the code rejects it — the known finding `literal-float-overflow`.) -/
def IsNumber (s : Bytes) : Prop :=
  (∃ g : GInt, g.wf = true ∧ g.render = s) ∨
  (∃ g : GRat, g.wf = true ∧ g.render = s) ∨
  (∃ g : GFloatLit, g.wf = true ∧ g.render = s ∧ g.lit.overflows = false) ∨
  (specialValue s).isSome = true

/-! ### integers and rationals -/

theorem slash_not_mem_gnat (g : GNat) (h : g.wf = true) : (0x2F : UInt8) ∉ g.render := by
  cases g with
  | lit l => exact slash_not_mem_natLit l h
  | oct0 r =>
    simp only [GNat.wf, Bool.and_eq_true, List.all_eq_true, decide_eq_true_eq] at h
    intro hm
    simp only [GNat.render, List.mem_cons] at hm
    rcases hm with hm | hm
    · exact absurd hm (by decide)
    · exact slash_not_mem_renderRest r (fun x hx => by have := h.2 x hx; omega) hm

theorem slash_not_mem_gint (g : GInt) (h : g.wf = true) : (0x2F : UInt8) ∉ g.render := by
  have := slash_not_mem_gnat g.mag h
  obtain ⟨sign, mag⟩ := g
  cases sign <;> simp_all [GInt.render, Sign.bytes]

theorem parseNum_gint (g : GInt) (h : g.wf = true) : parseNum g.render = some (normalizeBigInt g.value) := by
  unfold parseNum splitSlash
  rw [splitByte_none (slash_not_mem_gint g h), intSetString_gint g h]

theorem parseNum_grat (g : GRat) (h : g.wf = true) : parseNum g.render = some (normalizeBigRat g.value) := by
  simp only [GRat.wf, Bool.and_eq_true, bne_iff_ne, ne_eq] at h
  obtain ⟨⟨hn, hd⟩, hz⟩ := h
  unfold parseNum splitSlash GRat.render
  rw [splitByte_append _ (slash_not_mem_gint g.num hn)]
  simp [ratSetFrac, intSetString_gint g.num hn, natScan_gnat g.den hd, hz, GRat.value]

/-- the head of an unsigned integer literal is a decimal digit -/
theorem gnat_head_dec (g : GNat) (h : g.wf = true) : ∃ c cs, g.render = c :: cs ∧ IsDecByte c := by
  cases g with
  | oct0 r => exact ⟨0x30, _, rfl, by unfold IsDecByte; decide⟩
  | lit l =>
    obtain ⟨base, up, usp, ⟨first, rest⟩⟩ := l
    cases base with
    | dec =>
      simp only [GNat.wf, NatLit.wf, Digits.all, Base.radix, Bool.and_eq_true, decide_eq_true_eq] at h
      have h10 : first.val < 10 := of_decide_eq_true h.1.1
      refine ⟨first.byte, renderRest rest, by simp [GNat.render, NatLit.render, Base.pfx, Digits.render], ?_⟩
      exact ((dig_facts first (by omega)).2.2.2.2.2.2.2.1 h10).2.2
    | hex => exact ⟨0x30, _, by simp [GNat.render, NatLit.render, Base.pfx]; rfl, by unfold IsDecByte; decide⟩
    | oct => exact ⟨0x30, _, by simp [GNat.render, NatLit.render, Base.pfx]; rfl, by unfold IsDecByte; decide⟩
    | bin => exact ⟨0x30, _, by simp [GNat.render, NatLit.render, Base.pfx]; rfl, by unfold IsDecByte; decide⟩

/-! ### inf / nan -/

theorem lowerAscii_dec {c : UInt8} (h : IsDecByte c) : lowerAscii c = c := by
  rcases decByte_cases h with e | e | e | e | e | e | e | e | e | e <;> subst e <;> decide

theorem specialValue_cases {s : Bytes} {b : Nat} (h : specialValue s = some b) :
    s.map lowerAscii = infLit ∨ s.map lowerAscii = 0x2B :: infLit ∨ s.map lowerAscii = infinityLit ∨
    s.map lowerAscii = 0x2B :: infinityLit ∨ s.map lowerAscii = 0x2D :: infLit ∨
    s.map lowerAscii = 0x2D :: infinityLit ∨ s.map lowerAscii = nanLit := by
  unfold specialValue at h
  simp only at h
  split at h
  · rename_i hc; rcases hc with hc | hc | hc | hc <;> simp [hc]
  · split at h
    · rename_i hc; rcases hc with hc | hc <;> simp [hc]
    · split at h
      · rename_i hc; simp [hc]
      · simp at h

theorem special_no_slash {s : Bytes} {b : Nat} (h : specialValue s = some b) : (0x2F : UInt8) ∉ s := by
  intro hm
  have hm' : (0x2F : UInt8) ∈ s.map lowerAscii := by
    have := List.mem_map_of_mem (f := lowerAscii) hm
    simpa [show lowerAscii 0x2F = 0x2F by decide] using this
  rcases specialValue_cases h with e | e | e | e | e | e | e <;> rw [e] at hm' <;>
    exact absurd hm' (by decide)

theorem special_not_int {s : Bytes} {b : Nat} (h : specialValue s = some b) : intSetString s = none := by
  cases hi : intSetString s with
  | none => rfl
  | some z =>
    exfalso
    obtain ⟨g, hw, hr⟩ := intSetString_inv hi
    obtain ⟨c, cs, e, hc⟩ := gnat_head_dec g.mag hw
    have hl := lowerAscii_dec hc
    have hnot : c ≠ 0x69 ∧ c ≠ 0x6E ∧ c ≠ 0x2B ∧ c ≠ 0x2D ∧ c ≠ 0x61 := by
      rcases decByte_cases hc with e | e | e | e | e | e | e | e | e | e <;> subst e <;> decide
    obtain ⟨n1, n2, n3, n4, n5⟩ := hnot
    obtain ⟨sign, mag⟩ := g
    simp only at e
    have hs := specialValue_cases h
    rw [← hr] at hs
    cases sign <;>
      simp [GInt.render, Sign.bytes, e, hl, infLit, infinityLit, nanLit, n1, n2, n3, n4, n5,
        show lowerAscii 0x2B = 0x2B by decide, show lowerAscii 0x2D = 0x2D by decide] at hs

theorem parseFloat_special {s : Bytes} {b : Nat} (h : specialValue s = some b) : parseFloat s = some b := by
  unfold parseFloat
  rw [(special_full s b).mpr h]
  simp

theorem parseNum_special {s : Bytes} {b : Nat} (h : specialValue s = some b) : parseNum s = some (.float b) := by
  unfold parseNum splitSlash
  rw [splitByte_none (special_no_slash h), special_not_int h, parseFloat_special h]

/-! ### floats -/

theorem bits_of_not_overflows {l : FloatLit} (h : l.overflows = false) : l.bits = some l.ieeeBits := by
  simp only [FloatLit.overflows, decide_eq_false_iff_not] at h
  simp [FloatLit.bits, FloatLit.ieeeBits, h]

theorem bits_of_overflows {l : FloatLit} (h : l.overflows = true) : l.bits = none := by
  simp only [FloatLit.overflows, decide_eq_true_eq] at h
  simp [FloatLit.bits, h]

theorem overflows_of_bits {l : FloatLit} {f : Nat} (h : l.bits = some f) : l.overflows = false := by
  cases ho : l.overflows with
  | false => rfl
  | true => rw [bits_of_overflows ho] at h; exact absurd h (by simp)

/-- a hex literal's text after `0x` that the integer grammar would have to consume contains `p` -/
theorem intSetString_gfloat_marked (l : GFloatLit) (hp : GParts l) (hm : l.marked = true) :
    intSetString l.render = none := by
  cases hi : intSetString l.render with
  | none => rfl
  | some z =>
    exfalso
    by_cases hpt : l.point = true
    · have : (0x2E : UInt8) ∈ l.render := by
        simp [GFloatLit.render, GFloatLit.mantBytes, hpt]
      rw [intSetString_none_of_dot this] at hi
      exact absurd hi (by simp)
    · -- no point: there is an exponent
      have hex : l.exp.isSome = true := by
        simp only [GFloatLit.marked, Bool.or_eq_true] at hm
        rcases hm with h | h
        · exact absurd h hpt
        · exact h
      obtain ⟨x, hx⟩ := Option.isSome_iff_exists.mp hex
      obtain ⟨up, sg, e⟩ := x
      -- the exponent letter is in the text, after the first byte
      have hall := intSetString_all hi
      have hlet : l.expLetter up ∈ l.render := by
        simp [GFloatLit.render, GFloatLit.expBytes, hx]
      obtain ⟨g, hw, hr⟩ := intSetString_inv hi
      -- an integer literal has no `p`; a decimal one has no `e`; a sign only in front
      cases hh : l.isHex with
      | true =>
        have hP : lower (l.expLetter up) = 0x70 := by
          have := (expLetter_other l up).2.2; rw [hh] at this; simpa using this
        rcases hall _ hlet with h | h | h
        · rw [h] at hP; exact absurd hP (by decide)
        · rw [h] at hP; exact absurd hP (by decide)
        · -- `p` is a ScanByte, but every digit of an integer literal is below 16: use the body scan
          -- the literal starts `sign? 0x`, so Int.SetString scans base 16
          have hb : ∃ X t, l.body = 0x30 :: X :: t ∧ (X = 0x78 ∨ X = 0x58) ∧ l.expLetter up ∈ t := by
            have hhx : l.hex.isSome = true := hh
            obtain ⟨y, hy⟩ := Option.isSome_iff_exists.mp hhx
            obtain ⟨upx, us⟩ := y
            refine ⟨if upx then 0x58 else 0x78, _, by simp [GFloatLit.body, GFloatLit.pfx, hy]; rfl,
              by cases upx <;> simp, ?_⟩
            simp [GFloatLit.tailBytes, GFloatLit.expBytes, hx]
          obtain ⟨X, t, eb, hX, hmem⟩ := hb
          have hscan : ∃ n, natScan l.body = some (n, []) := by
            rw [grender_eq] at hi
            cases hs : l.sign with
            | none =>
              rw [hs, eb] at hi
              simp only [Sign.bytes, List.nil_append, intSetString,
                show ¬((0x30 : UInt8) = 0x2D ∨ (0x30 : UInt8) = 0x2B) by decide, if_false] at hi
              split at hi
              · rename_i n hn; exact ⟨n, by rw [eb]; exact hn⟩
              · simp at hi
            | plus =>
              rw [hs] at hi
              simp only [Sign.bytes, List.cons_append, List.nil_append, intSetString, or_true, if_true] at hi
              split at hi
              · rename_i n hn; exact ⟨n, hn⟩
              · simp at hi
            | minus =>
              rw [hs] at hi
              simp only [Sign.bytes, List.cons_append, List.nil_append, intSetString, true_or, if_true] at hi
              split at hi
              · rename_i n hn; exact ⟨n, hn⟩
              · simp at hi
          obtain ⟨n, hn⟩ := hscan
          rw [eb] at hn
          have hX' : ¬(X = 0x62 ∨ X = 0x42) ∧ ¬(X = 0x6F ∨ X = 0x4F) := by
            rcases hX with e | e <;> subst e <;> decide
          simp only [natScan, if_true, hX'.1, hX'.2, if_false, hX] at hn
          have h3 := scanFinish_rest hn
          have := scanLoop_rest_nil_b 16 t _ _ (Prod.ext rfl h3) _ hmem
          have hd : digitVal (l.expLetter up) = 25 := by
            unfold GFloatLit.expLetter; rw [hh]; cases up <;> decide
          rcases this with e1 | e1
          · have := (expLetter_other l up).2.1; exact this e1
          · omega
      | false =>
        -- decimal: the existing argument for `DecFloatLit` (head digit, then an `e`)
        have hi' : l.int.isSome = true := by
          rcases hp.has with h | h
          · exact h
          · have := hp.point h; exact absurd this hpt
        obtain ⟨c, t, e1, _, hdec, _⟩ := tail_head l hp
        have hcd : IsDecByte c := by
          rcases hdec hh with h | h
          · exact h
          · -- the head is the integer part's first digit, never the point
            exfalso
            obtain ⟨ds, hds⟩ := Option.isSome_iff_exists.mp hi'
            simp [GFloatLit.tailBytes, GFloatLit.mantBytes, hds, optRender, Digits.render] at e1
            have h10 := hp.int
            rw [hds, hh] at h10
            simp only [optAll, Digits.all, radixOf, Bool.and_eq_true, decide_eq_true_eq] at h10
            have := (dig_facts ds.first (by have := h10.1; simp at this; omega)).2.1
            exact this (e1.1.trans h)
        have hfb := floatByte_tail l hp hh
        have ht : ∀ y ∈ t, FloatByte y := fun y hy => hfb y (by rw [e1]; simp [hy])
        have hbody : l.body = c :: t := by
          have : l.hex = none := by
            cases hq : l.hex with
            | none => rfl
            | some _ => simp [GFloatLit.isHex, hq] at hh
          simp [GFloatLit.body, GFloatLit.pfx, this, e1]
        have hE : (0x65 : UInt8) ∈ t ∨ (0x45 : UInt8) ∈ t := by
          have hin : l.expLetter up ∈ c :: t := by
            rw [← e1]; simp [GFloatLit.tailBytes, GFloatLit.expBytes, hx]
          have hne : l.expLetter up ≠ c := by
            intro e2
            have : IsDecByte (l.expLetter up) := e2 ▸ hcd
            unfold GFloatLit.expLetter at this; rw [hh] at this
            cases up <;> simp [IsDecByte] at this
          rcases List.mem_cons.mp hin with h | h
          · exact absurd h hne
          · unfold GFloatLit.expLetter at h; rw [hh] at h
            cases up
            · exact Or.inl (by simpa using h)
            · exact Or.inr (by simpa using h)
        have hns := natScan_dec_e hcd ht hE
        obtain ⟨_, _, _, h4, h5, _⟩ := decByte_facts hcd
        have : intSetString l.render = none := by
          rw [grender_eq, hbody]
          cases l.sign with
          | none =>
            apply intSetString_none_of_natScan
            simp only [h4, h5, or_self, if_false]; exact hns
          | plus =>
            apply intSetString_none_of_natScan
            simp only [or_true, if_true]; exact hns
          | minus =>
            apply intSetString_none_of_natScan
            simp only [true_or, if_true]; exact hns
        rw [this] at hi; exact absurd hi (by simp)

/-- a general float literal with a point or an exponent parses to its (Go-capped) value -/
theorem parseNum_gfloat (l : GFloatLit) (h : l.wf = true) (hm : l.marked = true) :
    parseNum l.render = l.lit.bits.map Num.float := by
  have hp := gparts_of_wf l h
  unfold parseNum splitSlash
  rw [splitByte_none (slash_not_mem_glit l hp), intSetString_gfloat_marked l hp hm, parseFloat_glit l h]
  cases l.lit.bits <;> rfl

/-- any general float literal whose rounded value is finite is accepted (as an
integer if the integer grammar takes the text — `123` — else as a float) -/
theorem parseNum_gfloat_some (l : GFloatLit) (h : l.wf = true) (hfin : l.lit.overflows = false) :
    (parseNum l.render).isSome = true := by
  have hp := gparts_of_wf l h
  unfold parseNum splitSlash
  rw [splitByte_none (slash_not_mem_glit l hp)]
  cases hi : intSetString l.render with
  | some z => rfl
  | none =>
    simp only
    rw [parseFloat_glit l h, bits_of_not_overflows hfin]
    rfl

/-! ### the characterisation -/

theorem isNumber_of_parseNum {s : Bytes} {v : Num} (h : parseNum s = some v) : IsNumber s := by
  unfold parseNum at h
  split at h
  · rename_i a b hs
    obtain ⟨e, _⟩ := splitByte_some hs
    split at h
    · rename_i q hq
      unfold ratSetFrac at hq
      split at hq
      · rename_i n d hn hd
        obtain ⟨ga, hwa, hra⟩ := intSetString_inv hn
        obtain ⟨gb, hwb, hrb, hvb⟩ := (natScan_iff b d).mp hd
        by_cases hz : d = 0
        · simp [hz] at hq
        · right; left
          refine ⟨⟨ga, gb⟩, ?_, by rw [GRat.render, hra, hrb, e]⟩
          simp [GRat.wf, hwa, hwb, hvb, hz]
      · simp at hq
    · simp at h
  · split at h
    · rename_i z hz
      obtain ⟨g, hw, hr⟩ := intSetString_inv hz
      exact Or.inl ⟨g, hw, hr⟩
    · split at h
      · rename_i f hf
        unfold parseFloat at hf
        split at hf
        · rename_i bits n hsp
          by_cases hn : n = s.length
          · rw [hn] at hsp
            right; right; right
            rw [(special_full s bits).mp hsp]; rfl
          · simp [hn] at hf
        · split at hf
          · simp at hf
          · rename_i l hl
            obtain ⟨g, hw, hr, hv⟩ := (readFloat_iff s l).mp hl
            right; right; left
            exact ⟨g, hw, hr, by rw [hv]; exact overflows_of_bits hf⟩
      · simp at h

theorem parseNum_of_isNumber {s : Bytes} (h : IsNumber s) : (parseNum s).isSome = true := by
  rcases h with ⟨g, hw, hr⟩ | ⟨g, hw, hr⟩ | ⟨g, hw, hr, hf⟩ | h
  · rw [← hr, parseNum_gint g hw]; rfl
  · rw [← hr, parseNum_grat g hw]; rfl
  · rw [← hr]; exact parseNum_gfloat_some g hw hf
  · obtain ⟨b, hb⟩ := Option.isSome_iff_exists.mp h
    rw [parseNum_special hb]; rfl

/-- ParseNum accepts exactly the numbers. -/
theorem parseNum_isSome_iff (s : Bytes) : (parseNum s).isSome = true ↔ IsNumber s := by
  constructor
  · intro h
    obtain ⟨v, hv⟩ := Option.isSome_iff_exists.mp h
    exact isNumber_of_parseNum hv
  · exact parseNum_of_isNumber

theorem parseNum_none_of_not_isNumber {s : Bytes} (h : ¬ IsNumber s) : parseNum s = none := by
  cases hp : parseNum s with
  | none => rfl
  | some v => exact absurd (isNumber_of_parseNum hp) h

end C05
