/-
C05 helper lemmas for the float round trip: what Int.SetString can never
accept, and `parseFloat (s ++ ".0") = parseFloat s` for digit strings.
-/
import ElvProofs.C05.Scan
namespace C05
open Go

/-! ### what nat.scan / Int.SetString consume -/

/-- bytes the scan loop can consume in some base: `_` or an alphanumeric -/
def ScanByte (c : UInt8) : Prop := c = 0x5F ∨ digitVal c < 63

/-- if the loop consumed everything, every byte was `_` or a digit of the base -/
theorem scanLoop_rest_nil_b (b : Nat) : ∀ (s : Bytes) (st st' : ScanSt),
    scanLoop b st s = (st', []) → ∀ c ∈ s, c = 0x5F ∨ digitVal c < b
  | [], _, _, _ => by simp
  | c :: cs, st, st', h => by
    unfold scanLoop at h
    by_cases h1 : c = 0x5F
    · simp only [h1, if_true] at h
      intro x hx
      rcases List.mem_cons.mp hx with e | e
      · exact Or.inl (e.trans h1)
      · exact scanLoop_rest_nil_b b cs _ _ h x e
    · simp only [h1, if_false] at h
      by_cases h2 : b ≤ digitVal c
      · simp [h2] at h
      · simp only [h2, if_false] at h
        intro x hx
        rcases List.mem_cons.mp hx with e | e
        · exact Or.inr (by rw [e]; omega)
        · exact scanLoop_rest_nil_b b cs _ _ h x e

theorem scanLoop_rest_nil (b : Nat) (hb : b ≤ 63) (s : Bytes) (st st' : ScanSt)
    (h : scanLoop b st s = (st', [])) : ∀ c ∈ s, ScanByte c := by
  intro c hc
  rcases scanLoop_rest_nil_b b s st st' h c hc with e | e
  · exact Or.inl e
  · exact Or.inr (by omega)

theorem scanFinish_rest {o : Bool} {r : ScanSt × Bytes} {n : Nat} {rest : Bytes}
    (h : scanFinish o r = some (n, rest)) : r.2 = rest := by
  simp only [scanFinish] at h
  split at h
  · split at h
    · split at h <;> simp at h; exact h.2
    · simp at h
  · split at h <;> simp at h; exact h.2

theorem natScan_all {s : Bytes} {n : Nat} (h : natScan s = some (n, [])) : ∀ c ∈ s, ScanByte c := by
  unfold natScan at h
  cases s with
  | nil => simp at h
  | cons c rest =>
    simp only at h
    by_cases hc : c = 0x30
    · simp only [hc, if_true] at h
      have h0 : ScanByte 0x30 := Or.inr (by decide)
      cases rest with
      | nil => intro x hx; simp at hx; rw [hx, hc]; exact h0
      | cons c1 cs =>
        simp only at h
        have fin : ∀ {b o t}, b ≤ 63 → scanFinish o (scanLoop b
            { prev := .digit, invalSep := false, count := 0, acc := 0 } t) = some (n, []) →
            ∀ x ∈ t, ScanByte x := by
          intro b o t hb hh
          have := scanFinish_rest hh
          exact scanLoop_rest_nil b hb t _ _ (Prod.ext rfl this)
        intro x hx
        rcases List.mem_cons.mp hx with e | e
        · rw [e, hc]; exact h0
        · split at h
          · rename_i hp
            rcases List.mem_cons.mp e with e1 | e1
            · rw [e1]; rcases hp with hp | hp <;> rw [hp] <;> exact Or.inr (by decide)
            · exact fin (by omega) h x e1
          · split at h
            · rename_i hp
              rcases List.mem_cons.mp e with e1 | e1
              · rw [e1]; rcases hp with hp | hp <;> rw [hp] <;> exact Or.inr (by decide)
              · exact fin (by omega) h x e1
            · split at h
              · rename_i hp
                rcases List.mem_cons.mp e with e1 | e1
                · rw [e1]; rcases hp with hp | hp <;> rw [hp] <;> exact Or.inr (by decide)
                · exact fin (by omega) h x e1
              · exact fin (by omega) h x e
    · simp only [hc, if_false] at h
      have := scanFinish_rest h
      exact scanLoop_rest_nil 10 (by omega) _ _ _ (Prod.ext rfl this)

/-- Int.SetString accepts only: an optional sign, then `_` and alphanumerics. -/
theorem intSetString_tail {c : UInt8} {cs : Bytes} {z : Int} (h : intSetString (c :: cs) = some z) :
    ∀ x ∈ cs, ScanByte x := by
  unfold intSetString at h
  simp only at h
  split at h
  · rename_i n hn
    by_cases hs : c = 0x2D ∨ c = 0x2B
    · simp only [hs, if_true] at hn
      exact natScan_all hn
    · simp only [hs, if_false] at hn
      intro x hx
      exact natScan_all hn x (List.mem_cons_of_mem _ hx)
  · simp at h

theorem intSetString_all {s : Bytes} {z : Int} (h : intSetString s = some z) :
    ∀ x ∈ s, x = 0x2D ∨ x = 0x2B ∨ ScanByte x := by
  cases s with
  | nil => simp
  | cons c cs =>
    intro x hx
    rcases List.mem_cons.mp hx with e | e
    · by_cases hs : c = 0x2D ∨ c = 0x2B
      · rcases hs with hs | hs
        · exact Or.inl (e.trans hs)
        · exact Or.inr (Or.inl (e.trans hs))
      · unfold intSetString at h
        simp only [hs, if_false] at h
        split at h
        · rename_i n hn
          exact Or.inr (Or.inr (natScan_all hn x (by rw [e]; simp)))
        · simp at h
    · exact Or.inr (Or.inr (intSetString_tail h x e))

theorem not_scanByte_dot : ¬ ScanByte 0x2E := by unfold ScanByte; decide
theorem not_scanByte_plus : ¬ ScanByte 0x2B := by unfold ScanByte; decide
theorem not_scanByte_minus : ¬ ScanByte 0x2D := by unfold ScanByte; decide

theorem intSetString_none_of_dot {s : Bytes} (h : (0x2E : UInt8) ∈ s) : intSetString s = none := by
  cases hr : intSetString s with
  | none => rfl
  | some z =>
    rcases intSetString_all hr _ h with e | e | e
    · exact absurd e (by decide)
    · exact absurd e (by decide)
    · exact absurd e not_scanByte_dot

theorem intSetString_none_of_inner_sign {c : UInt8} {cs : Bytes}
    (h : (0x2B : UInt8) ∈ cs ∨ (0x2D : UInt8) ∈ cs) : intSetString (c :: cs) = none := by
  cases hr : intSetString (c :: cs) with
  | none => rfl
  | some z =>
    rcases h with h | h
    · exact absurd (intSetString_tail hr _ h) not_scanByte_plus
    · exact absurd (intSetString_tail hr _ h) not_scanByte_minus


/-! ### strconv.ParseFloat on `-?d+` and `-?d+.0` -/

theorem decByte_cases {c : UInt8} (h : IsDecByte c) :
    c = 0x30 ∨ c = 0x31 ∨ c = 0x32 ∨ c = 0x33 ∨ c = 0x34 ∨ c = 0x35 ∨ c = 0x36 ∨ c = 0x37 ∨
    c = 0x38 ∨ c = 0x39 := by
  unfold IsDecByte at h
  have : c.toNat = 48 ∨ c.toNat = 49 ∨ c.toNat = 50 ∨ c.toNat = 51 ∨ c.toNat = 52 ∨ c.toNat = 53 ∨
      c.toNat = 54 ∨ c.toNat = 55 ∨ c.toNat = 56 ∨ c.toNat = 57 := by omega
  rcases this with e | e | e | e | e | e | e | e | e | e
  · exact Or.inl (UInt8.toNat_inj.mp e)
  · exact Or.inr (Or.inl (UInt8.toNat_inj.mp e))
  · exact Or.inr (Or.inr (Or.inl (UInt8.toNat_inj.mp e)))
  · exact Or.inr (Or.inr (Or.inr (Or.inl (UInt8.toNat_inj.mp e))))
  · exact Or.inr (Or.inr (Or.inr (Or.inr (Or.inl (UInt8.toNat_inj.mp e)))))
  · exact Or.inr (Or.inr (Or.inr (Or.inr (Or.inr (Or.inl (UInt8.toNat_inj.mp e))))))
  · exact Or.inr (Or.inr (Or.inr (Or.inr (Or.inr (Or.inr (Or.inl (UInt8.toNat_inj.mp e)))))))
  · exact Or.inr (Or.inr (Or.inr (Or.inr (Or.inr (Or.inr (Or.inr (Or.inl (UInt8.toNat_inj.mp e))))))))
  · exact Or.inr (Or.inr (Or.inr (Or.inr (Or.inr (Or.inr (Or.inr (Or.inr (Or.inl (UInt8.toNat_inj.mp e)))))))))
  · exact Or.inr (Or.inr (Or.inr (Or.inr (Or.inr (Or.inr (Or.inr (Or.inr (Or.inr (UInt8.toNat_inj.mp e)))))))))

/-- every fact about a decimal digit byte that the float reader asks for -/
theorem decByte_facts {c : UInt8} (h : IsDecByte c) :
    isDec c = true ∧ c ≠ 0x5F ∧ c ≠ 0x2E ∧ c ≠ 0x2D ∧ c ≠ 0x2B ∧ lower c ≠ 0x78 ∧
    c ≠ 0x69 ∧ c ≠ 0x49 ∧ c ≠ 0x6E ∧ c ≠ 0x4E ∧ c ≠ 0x2F ∧
    (if 0x41 ≤ c ∧ c ≤ 0x5A then c + 0x20 else c) ≠ 0x69 := by
  rcases decByte_cases h with e | e | e | e | e | e | e | e | e | e <;> subst e <;> decide

theorem isDec_iff {c : UInt8} : isDec c = true ↔ IsDecByte c := by
  unfold isDec IsDecByte
  simp [UInt8.le_iff_toNat_le]

theorem mantLoop_decs : ∀ (ds : Bytes) (st : MantSt) (rest : Bytes), (∀ c ∈ ds, IsDecByte c) →
    mantLoop false st (ds ++ rest) =
      mantLoop false { st with sawdigits := st.sawdigits || !ds.isEmpty,
                               mant := digitsVal 10 st.mant ds,
                               frac := if st.sawdot then st.frac + ds.length else st.frac } rest
  | [], st, rest, _ => by cases st; simp [digitsVal]
  | c :: cs, st, rest, h => by
    have hc := h c (by simp)
    obtain ⟨h1, h2, h3, _⟩ := decByte_facts hc
    rw [List.cons_append, mantLoop]
    simp only [h2, h3, h1, if_true, if_false, Bool.false_eq_true]
    rw [mantLoop_decs cs _ rest (fun x hx => h x (by simp [hx]))]
    congr 1
    cases hd : st.sawdot <;>
      simp [digitsVal, digitVal_dec hc, Nat.add_assoc, Nat.add_comm 1]

theorem hexPrefix_no {body : Bytes} (h : ∀ c ∈ body, lower c ≠ 0x78) : hexPrefix body = (false, body) := by
  unfold hexPrefix
  split
  · rename_i c0 c1 c2 r
    have := h c1 (by simp)
    simp [this]
  · rfl

theorem special_dec {c : UInt8} (cs : Bytes) (h : IsDecByte c) : special (c :: cs) = none := by
  obtain ⟨_, _, _, h4, h5, _, h7, h8, h9, h10, _⟩ := decByte_facts h
  simp [special, h4, h5, h7, h8, h9, h10]

theorem special_minus_dec {c : UInt8} (cs : Bytes) (h : IsDecByte c) :
    special (0x2D :: c :: cs) = none := by
  have := (decByte_facts h).2.2.2.2.2.2.2.2.2.2.2
  simp [special, specialInf, commonPrefixLen, infinityLit, this]

/-- The digits-only reading. -/
theorem readBody_decs (neg : Bool) (d0 : UInt8) (ds s : Bytes) (h : ∀ c ∈ d0 :: ds, IsDecByte c) :
    readBody neg (d0 :: ds) s =
      some { neg := neg, hex := false, mant := digitsVal 10 0 (d0 :: ds), frac := 0, exp := 0 } := by
  have hx : hexPrefix (d0 :: ds) = (false, d0 :: ds) :=
    hexPrefix_no (fun c hc => (decByte_facts (h c hc)).2.2.2.2.2.1)
  unfold readBody
  simp only [hx]
  have := mantLoop_decs (d0 :: ds) { sawdot := false, sawdigits := false, underscores := false, mant := 0, frac := 0 } [] h
  rw [List.append_nil] at this
  rw [this]
  simp [mantLoop, readExp]

theorem readBody_decs_dot0 (neg : Bool) (d0 : UInt8) (ds s : Bytes) (h : ∀ c ∈ d0 :: ds, IsDecByte c) :
    readBody neg (d0 :: ds ++ [0x2E, 0x30]) s =
      some { neg := neg, hex := false, mant := digitsVal 10 0 (d0 :: ds) * 10, frac := 1, exp := 0 } := by
  have hx : hexPrefix (d0 :: ds ++ [0x2E, 0x30]) = (false, d0 :: ds ++ [0x2E, 0x30]) := by
    apply hexPrefix_no
    intro c hc
    rcases List.mem_append.mp hc with hc | hc
    · exact (decByte_facts (h c hc)).2.2.2.2.2.1
    · simp at hc; rcases hc with e | e <;> subst e <;> decide
  unfold readBody
  simp only [hx]
  rw [mantLoop_decs (d0 :: ds) _ [0x2E, 0x30] h]
  simp [mantLoop, readExp, isDec]

theorem floatLit_value_dot0 (neg : Bool) (m : Nat) :
    ({ neg := neg, hex := false, mant := m * 10, frac := 1, exp := 0 } : FloatLit).value =
    ({ neg := neg, hex := false, mant := m, frac := 0, exp := 0 } : FloatLit).value := by
  simp [FloatLit.value]
  rw [Rat.mkRat_eq_iff (by omega) (by omega)]
  simp

theorem floatLit_bits_dot0 (neg : Bool) (m : Nat) :
    ({ neg := neg, hex := false, mant := m * 10, frac := 1, exp := 0 } : FloatLit).bits =
    ({ neg := neg, hex := false, mant := m, frac := 0, exp := 0 } : FloatLit).bits := by
  unfold FloatLit.bits
  rw [floatLit_value_dot0]

/-- `s ++ ".0"` parses to the same float as `s` for `s` of the form `-?d+`. -/
theorem parseFloat_dot0 (s : Bytes) (h : isDigits (stripMinus s) = true) :
    parseFloat (s ++ [0x2E, 0x30]) = parseFloat s := by
  have key : ∀ (d0 : UInt8) (ds : Bytes), isDigits (d0 :: ds) = true → ∀ c ∈ d0 :: ds, IsDecByte c := by
    intro d0 ds hd c hc
    simp only [isDigits, Bool.and_eq_true, List.all_eq_true] at hd
    exact isDec_iff.mp (hd.2 c hc)
  cases s with
  | nil => simp [stripMinus, isDigits] at h
  | cons c cs =>
    by_cases hm : c = 0x2D
    · subst hm
      simp only [stripMinus, if_true] at h
      cases cs with
      | nil => simp [isDigits] at h
      | cons d0 ds =>
        have hd := key d0 ds h
        unfold parseFloat
        rw [List.cons_append, List.cons_append, special_minus_dec _ (hd d0 (by simp)),
          special_minus_dec _ (hd d0 (by simp))]
        simp only [readFloat, true_or, if_true]
        rw [← List.cons_append, readBody_decs_dot0 _ d0 ds _ hd, readBody_decs _ d0 ds _ hd]
        exact floatLit_bits_dot0 _ _
    · simp only [stripMinus, hm, if_false] at h
      have hd := key c cs h
      have hp : c ≠ 0x2B := (decByte_facts (hd c (by simp))).2.2.2.2.1
      unfold parseFloat
      rw [List.cons_append, special_dec _ (hd c (by simp)), special_dec _ (hd c (by simp))]
      simp only [readFloat, hm, hp, or_self, if_false]
      rw [← List.cons_append, readBody_decs_dot0 _ c cs _ hd, readBody_decs _ c cs _ hd]
      exact floatLit_bits_dot0 _ _


/-! ### consequences of the shapes of strconv's outputs -/

theorem parseNum_float {r : Bytes} {f : Nat} (h1 : (0x2F : UInt8) ∉ r) (h2 : intSetString r = none)
    (h3 : parseFloat r = some f) : parseNum r = some (.float f) := by
  unfold parseNum splitSlash
  rw [splitByte_none h1, h2, h3]

theorem isDigits_mem {s : Bytes} (h : isDigits s = true) : ∀ c ∈ s, IsDecByte c := by
  intro c hc
  simp only [isDigits, Bool.and_eq_true, List.all_eq_true] at h
  exact isDec_iff.mp (h.2 c hc)

theorem stripMinus_cases (s : Bytes) : s = stripMinus s ∨ s = 0x2D :: stripMinus s := by
  cases s with
  | nil => exact Or.inl rfl
  | cons c cs =>
    by_cases h : c = 0x2D
    · subst h; exact Or.inr (by simp [stripMinus])
    · exact Or.inl (by simp [stripMinus, h])

theorem fshape_no_slash {s : Bytes} (h : isFShape s = true) : (0x2F : UInt8) ∉ s := by
  have hb : (0x2F : UInt8) ∉ stripMinus s := by
    unfold isFShape at h
    simp only at h
    split at h
    · intro hm; exact absurd rfl (decByte_facts (isDigits_mem h _ hm)).2.2.2.2.2.2.2.2.2.2.1
    · rename_i i f hs
      obtain ⟨e, _⟩ := splitByte_some hs
      simp only [Bool.and_eq_true] at h
      rw [e]
      intro hm
      rcases List.mem_append.mp hm with hm | hm
      · exact absurd rfl (decByte_facts (isDigits_mem h.1 _ hm)).2.2.2.2.2.2.2.2.2.2.1
      · rcases List.mem_cons.mp hm with hm | hm
        · exact absurd hm (by decide)
        · exact absurd rfl (decByte_facts (isDigits_mem h.2 _ hm)).2.2.2.2.2.2.2.2.2.2.1
  rcases stripMinus_cases s with e | e <;> rw [e]
  · exact hb
  · intro hm
    rcases List.mem_cons.mp hm with hm | hm
    · exact absurd hm (by decide)
    · exact hb hm

theorem fshape_no_dot {s : Bytes} (h : isFShape s = true) (hd : (0x2E : UInt8) ∉ s) :
    isDigits (stripMinus s) = true := by
  have hb : (0x2E : UInt8) ∉ stripMinus s := by
    rcases stripMinus_cases s with e | e
    · rw [← e]; exact hd
    · intro hm; exact hd (by rw [e]; exact List.mem_cons_of_mem _ hm)
  unfold isFShape at h
  simp only [splitByte_none hb] at h
  exact h

/-- an `e`-format output has no `/`, and an exponent sign after its first byte -/
theorem eshape_facts {s : Bytes} (h : isEShape s = true) :
    (0x2F : UInt8) ∉ s ∧ ∃ c cs, s = c :: cs ∧ ((0x2B : UInt8) ∈ cs ∨ (0x2D : UInt8) ∈ cs) := by
  unfold isEShape at h
  simp only at h
  split at h
  · simp at h
  · rename_i m ex hs
    obtain ⟨e, _⟩ := splitByte_some hs
    simp only [Bool.and_eq_true] at h
    obtain ⟨hm, hex⟩ := h
    -- the exponent: a sign and digits
    cases ex with
    | nil => simp at hex
    | cons sg ds =>
      simp only [Bool.and_eq_true, Bool.or_eq_true, beq_iff_eq, List.all_eq_true] at hex
      obtain ⟨⟨hsg, _⟩, hds⟩ := hex
      have hds' : ∀ c ∈ ds, IsDecByte c := fun c hc => isDec_iff.mp (hds c hc)
      -- the mantissa: non-empty, digits and a point
      have hmant : m ≠ [] ∧ ∀ c ∈ m, c ≠ 0x2F := by
        match m, hm with
        | [d], hm =>
          refine ⟨by simp, ?_⟩
          intro c hc; simp at hc; subst hc
          exact (decByte_facts (isDec_iff.mp hm)).2.2.2.2.2.2.2.2.2.2.1
        | d :: p :: f, hm =>
          simp only [Bool.and_eq_true, beq_iff_eq] at hm
          refine ⟨by simp, ?_⟩
          intro c hc
          rcases List.mem_cons.mp hc with hc | hc
          · rw [hc]; exact (decByte_facts (isDec_iff.mp hm.1.1)).2.2.2.2.2.2.2.2.2.2.1
          · rcases List.mem_cons.mp hc with hc | hc
            · rw [hc, hm.1.2]; decide
            · exact (decByte_facts (isDigits_mem hm.2 _ hc)).2.2.2.2.2.2.2.2.2.2.1
      have hns : (0x2F : UInt8) ∉ stripMinus s := by
        rw [e]
        intro hmem
        rcases List.mem_append.mp hmem with h1 | h1
        · exact hmant.2 _ h1 rfl
        · rcases List.mem_cons.mp h1 with h1 | h1
          · exact absurd h1 (by decide)
          · rcases List.mem_cons.mp h1 with h1 | h1
            · rcases hsg with hsg | hsg <;> rw [hsg] at h1 <;> exact absurd h1 (by decide)
            · exact absurd rfl (decByte_facts (hds' _ h1)).2.2.2.2.2.2.2.2.2.2.1
      have hsign : ∀ pre : Bytes, (0x2B : UInt8) ∈ pre ++ 0x65 :: sg :: ds ∨ (0x2D : UInt8) ∈ pre ++ 0x65 :: sg :: ds := by
        intro pre
        rcases hsg with hsg | hsg <;> subst hsg
        · exact Or.inl (by simp)
        · exact Or.inr (by simp)
      refine ⟨?_, ?_⟩
      · rcases stripMinus_cases s with e1 | e1 <;> rw [e1]
        · exact hns
        · intro hmem
          rcases List.mem_cons.mp hmem with h1 | h1
          · exact absurd h1 (by decide)
          · exact hns h1
      · obtain ⟨hne, _⟩ := hmant
        cases m with
        | nil => exact absurd rfl hne
        | cons m0 mt =>
          rcases stripMinus_cases s with e1 | e1
          · exact ⟨m0, mt ++ 0x65 :: sg :: ds, by rw [e1, e]; rfl, hsign mt⟩
          · refine ⟨0x2D, stripMinus s, e1, ?_⟩
            rw [e]; exact hsign (m0 :: mt)


/-! ### the formatFloat64 wrapper -/

theorem wrapper_nan (sE : Bytes) (f : Nat) (h : isNaN f = true) : formatFloat64W nanStr sE f = nanStr := by
  simp [formatFloat64W, nanStr, h, hasPrefix, zeroPrefix]

theorem wrapper_pinf (sE : Bytes) : formatFloat64W pInfStr sE infBits = pInfStr := by
  simp [formatFloat64W, pInfStr, hasPrefix, zeroPrefix]; decide

theorem wrapper_ninf (sE : Bytes) : formatFloat64W nInfStr sE (signBit + infBits) = nInfStr := by
  simp [formatFloat64W, nInfStr, hasPrefix, zeroPrefix]; decide

theorem isInf_iff {f : Nat} (hf : f < 2 ^ 64) : isInf f = true ↔ (f = infBits ∨ f = signBit + infBits) := by
  unfold isInf infBits signBit
  simp only [decide_eq_true_eq]
  omega

theorem wrapper_finite (sF sE : Bytes) (f : Nat) (hn : isNaN f = false) (hi : isInf f = false) :
    formatFloat64W sF sE f =
      if ((!sF.contains 0x2E) && decide (14 < sF.length) && sF.getLast? == some 0x30) || hasPrefix sF zeroPrefix then sE
      else if !sF.contains 0x2E then sF ++ [0x2E, 0x30] else sF := by
  simp [formatFloat64W, hn, hi]

end C05
