/-
C05 helper lemmas for rejection: everything ParseNum accepts consists of
bytes of the number alphabet `[0-9A-Za-z_+-./]`.
-/
import ElvProofs.C05.Float
namespace C05
open Go

/-- the number alphabet: alphanumerics and `_ + - . /` -/
def NumByte (c : UInt8) : Prop := ScanByte c ∨ c = 0x2B ∨ c = 0x2D ∨ c = 0x2E ∨ c = 0x2F

theorem forall_uint8 (P : UInt8 → Prop) (h : ∀ i : Fin 256, P (UInt8.ofNat i.val)) : ∀ c, P c := by
  intro c
  have := h ⟨c.toNat, c.toNat_lt⟩
  simpa using this

theorem isDec_scanByte : ∀ c : UInt8, isDec c = true → ScanByte c := by
  apply forall_uint8; unfold ScanByte; decide +kernel

theorem isHexLetter_scanByte : ∀ c : UInt8, isHexLetter c = true → ScanByte c := by
  apply forall_uint8; unfold ScanByte; decide +kernel

theorem lower_e_scanByte : ∀ c : UInt8, (lower c = 0x65 ∨ lower c = 0x70 ∨ lower c = 0x78) → ScanByte c := by
  apply forall_uint8; unfold ScanByte; decide +kernel

theorem upper_scanByte : ∀ c : UInt8, (0x41 ≤ c ∧ c ≤ 0x5A) → ScanByte c := by
  apply forall_uint8; unfold ScanByte; decide +kernel

theorem lowerLetter_scanByte : ∀ c : UInt8, (0x61 ≤ c ∧ c ≤ 0x7A) → ScanByte c := by
  apply forall_uint8; unfold ScanByte; decide +kernel


theorem numByte_of_scan {c : UInt8} (h : ScanByte c) : NumByte c := Or.inl h

/-! ### special -/

theorem commonPrefixLen_le : ∀ (s p : Bytes), commonPrefixLen s p ≤ s.length
  | [], _ => by simp [commonPrefixLen]
  | _ :: _, [] => by simp [commonPrefixLen]
  | c :: cs, q :: ps => by
    simp only [commonPrefixLen]
    generalize (if 0x41 ≤ c ∧ c ≤ 0x5A then c + 0x20 else c) = c'
    by_cases h : c' = q
    · have := commonPrefixLen_le cs ps; simp [h]; omega
    · simp [h]

/-- if the whole of `s` is a case-folded prefix of a lower-case word, `s` consists of letters -/
theorem commonPrefixLen_all : ∀ (s p : Bytes), (∀ x ∈ p, 0x61 ≤ x ∧ x ≤ 0x7A) →
    commonPrefixLen s p = s.length → ∀ c ∈ s, ScanByte c
  | [], _, _, _ => by simp
  | c :: cs, [], _, h => by simp [commonPrefixLen] at h
  | c :: cs, q :: ps, hp, h => by
    simp only [commonPrefixLen] at h
    have key : ∀ c' : UInt8, (if c' = q then commonPrefixLen cs ps + 1 else 0) = (c :: cs).length →
        c' = q ∧ commonPrefixLen cs ps = cs.length := by
      intro c' hh
      by_cases he : c' = q
      · simp only [he, if_true, List.length_cons] at hh; exact ⟨he, by omega⟩
      · simp [he] at hh
    by_cases hu : 0x41 ≤ c ∧ c ≤ 0x5A
    · simp only [hu, and_self, if_true] at h
      obtain ⟨_, h'⟩ := key _ h
      have ih := commonPrefixLen_all cs ps (fun x hx => hp x (by simp [hx])) h'
      intro x hx
      rcases List.mem_cons.mp hx with e | e
      · rw [e]; exact upper_scanByte c hu
      · exact ih x e
    · simp only [hu, if_false] at h
      obtain ⟨heq, h'⟩ := key _ h
      have ih := commonPrefixLen_all cs ps (fun x hx => hp x (by simp [hx])) h'
      intro x hx
      rcases List.mem_cons.mp hx with e | e
      · rw [e, heq]; exact lowerLetter_scanByte q (hp q (by simp))
      · exact ih x e

theorem infinityLit_lower : ∀ x ∈ infinityLit, (0x61 : UInt8) ≤ x ∧ x ≤ 0x7A := by decide
theorem nanLit_lower : ∀ x ∈ nanLit, (0x61 : UInt8) ≤ x ∧ x ≤ 0x7A := by decide

theorem specialInf_all {neg : Bool} {nsign : Nat} {cs : Bytes} {bits : Nat}
    (h : specialInf neg nsign cs = some (bits, nsign + cs.length)) : ∀ c ∈ cs, ScanByte c := by
  unfold specialInf at h
  simp only at h
  have hle := commonPrefixLen_le cs infinityLit
  generalize hn : commonPrefixLen cs infinityLit = n at h hle
  have : n = cs.length := by
    by_cases h1 : 3 < n ∧ n < 8
    · simp only [h1, and_self, if_true] at h
      simp at h; omega
    · simp only [h1, if_false] at h
      by_cases h2 : n = 3 ∨ n = 8
      · simp only [h2, if_true, Option.some.injEq, Prod.mk.injEq] at h; omega
      · simp [h2] at h
  exact commonPrefixLen_all cs infinityLit infinityLit_lower (hn.trans this)

theorem special_all {s : Bytes} {bits : Nat} (h : special s = some (bits, s.length)) :
    ∀ c ∈ s, NumByte c := by
  cases s with
  | nil => simp
  | cons c cs =>
    unfold special at h
    simp only at h
    have len : ∀ a : UInt8, (a :: cs).length = 1 + cs.length := by intro a; simp; omega
    intro x hx
    by_cases h1 : c = 0x2B
    · simp only [h1, if_true] at h
      rw [len] at h
      rcases List.mem_cons.mp hx with e | e
      · exact Or.inr (Or.inl (e.trans h1))
      · exact Or.inl (specialInf_all h x e)
    · simp only [h1, if_false] at h
      by_cases h2 : c = 0x2D
      · simp only [h2, if_true] at h
        rw [len] at h
        rcases List.mem_cons.mp hx with e | e
        · exact Or.inr (Or.inr (Or.inl (e.trans h2)))
        · exact Or.inl (specialInf_all h x e)
      · simp only [h2, if_false] at h
        split at h
        · have h' : specialInf false 0 (c :: cs) = some (bits, 0 + (c :: cs).length) := by simpa using h
          exact Or.inl (specialInf_all h' x hx)
        · split at h
          · split at h
            · rename_i h3
              simp only [Option.some.injEq, Prod.mk.injEq] at h
              have : commonPrefixLen (c :: cs) nanLit = (c :: cs).length := by omega
              exact Or.inl (commonPrefixLen_all _ _ nanLit_lower this x hx)
            · simp at h
          · simp at h

/-! ### readFloat -/

theorem mantLoop_consumed (hex : Bool) : ∀ (s : Bytes) (st st' : MantSt) (rest : Bytes),
    mantLoop hex st s = (st', rest) → ∃ pre, s = pre ++ rest ∧ ∀ c ∈ pre, NumByte c
  | [], st, st', rest, h => by
    simp only [mantLoop, Prod.mk.injEq] at h
    exact ⟨[], by simp [h.2], by simp⟩
  | c :: cs, st, st', rest, h => by
    have step : ∀ st2, NumByte c → mantLoop hex st2 cs = (st', rest) →
        ∃ pre, c :: cs = pre ++ rest ∧ ∀ x ∈ pre, NumByte x := by
      intro st2 hc hh
      obtain ⟨pre, e, hp⟩ := mantLoop_consumed hex cs st2 st' rest hh
      refine ⟨c :: pre, by simp [e], ?_⟩
      intro x hx
      rcases List.mem_cons.mp hx with e1 | e1
      · rw [e1]; exact hc
      · exact hp x e1
    have stop : (st, c :: cs) = (st', rest) → ∃ pre, c :: cs = pre ++ rest ∧ ∀ x ∈ pre, NumByte x := by
      intro hh
      simp only [Prod.mk.injEq] at hh
      exact ⟨[], by simp [hh.2], by simp⟩
    rw [mantLoop] at h
    by_cases h1 : c = 0x5F
    · simp only [h1, if_true] at h
      exact step _ (Or.inl (Or.inl h1)) h
    · simp only [h1, if_false] at h
      by_cases h2 : c = 0x2E
      · simp only [h2, if_true] at h
        split at h
        · rw [← h2] at h; exact stop h
        · exact step _ (Or.inr (Or.inr (Or.inr (Or.inl h2)))) h
      · simp only [h2, if_false] at h
        by_cases h3 : isDec c = true
        · simp only [h3, if_true] at h
          exact step _ (Or.inl (isDec_scanByte c h3)) h
        · simp only [h3] at h
          by_cases h4 : (hex && isHexLetter c) = true
          · simp only [h4, if_true] at h
            simp only [Bool.and_eq_true] at h4
            exact step _ (Or.inl (isHexLetter_scanByte c h4.2)) h
          · simp only [h4] at h
            exact stop h

theorem expLoop_consumed : ∀ (s : Bytes) (e : Nat) (us : Bool) (r : Nat × Bool × Bytes),
    expLoop e us s = r → r.2.2 = [] → ∀ c ∈ s, NumByte c
  | [], _, _, _, _, _ => by simp
  | c :: cs, e, us, r, h, hr => by
    rw [expLoop] at h
    by_cases h1 : c = 0x5F
    · simp only [h1, if_true] at h
      intro x hx
      rcases List.mem_cons.mp hx with e1 | e1
      · exact Or.inl (Or.inl (e1.trans h1))
      · exact expLoop_consumed cs _ _ r h hr x e1
    · simp only [h1, if_false] at h
      by_cases h3 : isDec c = true
      · simp only [h3, if_true] at h
        intro x hx
        rcases List.mem_cons.mp hx with e1 | e1
        · rw [e1]; exact Or.inl (isDec_scanByte c h3)
        · exact expLoop_consumed cs _ _ r h hr x e1
      · simp only [h3] at h
        rw [← h] at hr; simp at hr


theorem readExp_all {neg hex : Bool} {st : MantSt} {rest s : Bytes} {l : FloatLit}
    (h : readExp neg hex st rest s = some l) : ∀ c ∈ rest, NumByte c := by
  cases rest with
  | nil => simp
  | cons e r =>
    simp only [readExp] at h
    by_cases he : lower e = (if hex = true then 0x70 else 0x65)
    · simp only [he, if_true] at h
      have hE : NumByte e := by
        apply numByte_of_scan; apply lower_e_scanByte
        cases hex <;> simp at he <;> simp [he]
      cases r with
      | nil => simp at h
      | cons c1 r1 =>
        simp only at h
        by_cases hs : c1 = 0x2B ∨ c1 = 0x2D
        · simp only [hs, if_true] at h
          cases r1 with
          | nil => simp at h
          | cons d r3 =>
            simp only at h
            by_cases hd : isDec d = true
            · simp only [hd, Bool.not_true, Bool.false_eq_true, if_false] at h
              by_cases hr : (expLoop 0 st.underscores (d :: r3)).2.2.isEmpty = true
              · have hall := expLoop_consumed (d :: r3) 0 st.underscores _ rfl (List.isEmpty_iff.mp hr)
                intro x hx
                rcases List.mem_cons.mp hx with e1 | e1
                · rw [e1]; exact hE
                · rcases List.mem_cons.mp e1 with e2 | e2
                  · rcases hs with hs | hs
                    · exact Or.inr (Or.inl (e2.trans hs))
                    · exact Or.inr (Or.inr (Or.inl (e2.trans hs)))
                  · exact hall x e2
              · simp [hr] at h
            · simp [hd] at h
        · simp only [hs, if_false] at h
          by_cases hd : isDec c1 = true
          · simp only [hd, Bool.not_true, Bool.false_eq_true, if_false] at h
            by_cases hr : (expLoop 0 st.underscores (c1 :: r1)).2.2.isEmpty = true
            · have hall := expLoop_consumed (c1 :: r1) 0 st.underscores _ rfl (List.isEmpty_iff.mp hr)
              intro x hx
              rcases List.mem_cons.mp hx with e1 | e1
              · rw [e1]; exact hE
              · exact hall x e1
            · simp [hr] at h
          · simp [hd] at h
    · simp [he] at h

theorem hexPrefix_cases (body : Bytes) :
    hexPrefix body = (false, body) ∨
    ∃ c1 t, body = 0x30 :: c1 :: t ∧ lower c1 = 0x78 ∧ hexPrefix body = (true, t) := by
  unfold hexPrefix
  split
  · rename_i c0 c1 c2 r
    by_cases h : c0 = 0x30 ∧ lower c1 = 0x78
    · exact Or.inr ⟨c1, c2 :: r, by rw [h.1], h.2, by simp [h]⟩
    · exact Or.inl (by simp [h])
  · exact Or.inl rfl

theorem readBody_all {neg : Bool} {body s : Bytes} {l : FloatLit}
    (h : readBody neg body s = some l) : ∀ c ∈ body, NumByte c := by
  unfold readBody at h
  simp only at h
  split at h
  · simp at h
  · have inner : ∀ hex t, (if (!(mantLoop hex { sawdot := false, sawdigits := false, underscores := false, mant := 0, frac := 0 } t).1.sawdigits) = true
          then none else readExp neg hex (mantLoop hex { sawdot := false, sawdigits := false, underscores := false, mant := 0, frac := 0 } t).1
            (mantLoop hex { sawdot := false, sawdigits := false, underscores := false, mant := 0, frac := 0 } t).2 s) = some l →
        ∀ c ∈ t, NumByte c := by
      intro hex t hh
      split at hh
      · simp at hh
      · obtain ⟨pre, e, hp⟩ := mantLoop_consumed hex t _ _ _ (Prod.ext rfl rfl :
          mantLoop hex { sawdot := false, sawdigits := false, underscores := false, mant := 0, frac := 0 } t = (_, _))
        have hr := readExp_all hh
        intro c hc
        rw [e] at hc
        rcases List.mem_append.mp hc with h1 | h1
        · exact hp c h1
        · exact hr c h1
    rename_i hsd
    rcases hexPrefix_cases body with hx | ⟨c1, t, eb, hl, hx⟩
    · rw [hx] at h hsd
      exact inner false body (by simp only [hsd]; exact h)
    · rw [hx] at h hsd
      have := inner true t (by simp only [hsd]; exact h)
      intro c hc
      rw [eb] at hc
      rcases List.mem_cons.mp hc with e1 | e1
      · rw [e1]; exact Or.inl (Or.inr (by decide))
      · rcases List.mem_cons.mp e1 with e2 | e2
        · rw [e2]; exact Or.inl (lower_e_scanByte c1 (Or.inr (Or.inr hl)))
        · exact this c e2

theorem readFloat_all {s : Bytes} {l : FloatLit} (h : readFloat s = some l) : ∀ c ∈ s, NumByte c := by
  cases s with
  | nil => simp
  | cons c cs =>
    simp only [readFloat] at h
    by_cases hs : c = 0x2D ∨ c = 0x2B
    · simp only [hs, if_true] at h
      have := readBody_all h
      intro x hx
      rcases List.mem_cons.mp hx with e | e
      · rcases hs with hs | hs
        · exact Or.inr (Or.inr (Or.inl (e.trans hs)))
        · exact Or.inr (Or.inl (e.trans hs))
      · exact this x e
    · simp only [hs, if_false] at h
      exact readBody_all h

theorem parseFloat_all {s : Bytes} {f : Nat} (h : parseFloat s = some f) : ∀ c ∈ s, NumByte c := by
  unfold parseFloat at h
  split at h
  · rename_i bits n hsp
    by_cases hn : n = s.length
    · rw [hn] at hsp; exact special_all hsp
    · simp [hn] at h
  · split at h
    · simp at h
    · rename_i l hl; exact readFloat_all hl

/-- everything ParseNum accepts is written in the number alphabet -/
theorem parseNum_all {s : Bytes} {v : Num} (h : parseNum s = some v) : ∀ c ∈ s, NumByte c := by
  unfold parseNum at h
  split at h
  · rename_i a b hs
    obtain ⟨e, _⟩ := splitByte_some hs
    split at h
    · rename_i q hq
      unfold ratSetFrac at hq
      split at hq
      · rename_i n d hn hd
        intro c hc
        rw [e] at hc
        rcases List.mem_append.mp hc with h1 | h1
        · rcases intSetString_all hn c h1 with h2 | h2 | h2
          · exact Or.inr (Or.inr (Or.inl h2))
          · exact Or.inr (Or.inl h2)
          · exact Or.inl h2
        · rcases List.mem_cons.mp h1 with h2 | h2
          · exact Or.inr (Or.inr (Or.inr (Or.inr h2)))
          · exact Or.inl (natScan_all hd c h2)
      · simp at hq
    · simp at h
  · split at h
    · rename_i z hz
      intro c hc
      rcases intSetString_all hz c hc with h2 | h2 | h2
      · exact Or.inr (Or.inr (Or.inl h2))
      · exact Or.inr (Or.inl h2)
      · exact Or.inl h2
    · split at h
      · rename_i f hf; exact parseFloat_all hf
      · simp at h


theorem numByte_isNumByte : ∀ c : UInt8, NumByte c → isNumByte c = true := by
  apply forall_uint8; unfold NumByte ScanByte; decide +kernel

end C05
