/-
C05 round 2: the general float literals of Grammar.lean (hex floats, `.5`, `5.`,
bare digit strings, exponents of any length) are read by `readFloat` with the
stated mantissa, fraction length and (capped) exponent.
-/
import ElvModel.C05.Grammar
import ElvProofs.C05.FloatLit
import ElvProofs.C05.Reject
namespace C05
open Go

def radixOf (hex : Bool) : Nat := if hex then 16 else 10
def isDigB (hex : Bool) (c : UInt8) : Bool := isDec c || (hex && isHexLetter c)

/-- what the readers ask about the byte `c` of a digit of value `v` -/
def DigFacts (c : UInt8) (v : Nat) : Prop :=
  c ≠ 0x5F ∧ c ≠ 0x2E ∧ c ≠ 0x2B ∧ c ≠ 0x2D ∧ c ≠ 0x2F ∧ lower c ≠ 0x70 ∧ lower c ≠ 0x78 ∧
  (v < 10 → isDec c = true ∧ c.toNat - 48 = v ∧ IsDecByte c) ∧
  (¬ v < 10 → isDec c = false ∧ isHexLetter c = true ∧ (lower c).toNat - 87 = v)

theorem dig_facts_fin : ∀ (v : Fin 16) (up : Bool), DigFacts (Dig.byte ⟨v.val, up⟩) v.val := by
  unfold DigFacts IsDecByte; decide

theorem dig_facts (d : Dig) (h : d.val < 16) : DigFacts d.byte d.val := by
  obtain ⟨v, up⟩ := d; exact dig_facts_fin ⟨v, h⟩ up

theorem radixOf_le (hex : Bool) : radixOf hex ≤ 16 := by cases hex <;> simp [radixOf]

theorem dig_isDigB {hex : Bool} {d : Dig} (h : d.val < radixOf hex) : isDigB hex d.byte = true := by
  obtain ⟨_, _, _, _, _, _, _, f8, f9⟩ := dig_facts d (by have := radixOf_le hex; omega)
  unfold isDigB
  by_cases hv : d.val < 10
  · simp [(f8 hv).1]
  · cases hex with
    | false => simp [radixOf] at h; omega
    | true => simp [(f9 hv).2.1]

/-! ### the mantissa loop -/

theorem mantLoopG_us {hex : Bool} {st : MantSt} {t : Bytes} :
    mantLoop hex st (0x5F :: t) = mantLoop hex { st with underscores := true } t := by
  rw [mantLoop]; simp

theorem mantLoopG_dig {hex : Bool} {st : MantSt} {d : Dig} {t : Bytes} (h : d.val < radixOf hex) :
    mantLoop hex st (d.byte :: t) =
      mantLoop hex { st with sawdigits := true, mant := st.mant * radixOf hex + d.val,
                             frac := if st.sawdot then st.frac + 1 else st.frac } t := by
  obtain ⟨f1, f2, _, _, _, _, _, f8, f9⟩ := dig_facts d (by have := radixOf_le hex; omega)
  rw [mantLoop]
  by_cases hv : d.val < 10
  · obtain ⟨g1, g2, _⟩ := f8 hv
    simp [f1, f2, g1, g2, radixOf]
  · obtain ⟨g1, g2, g3⟩ := f9 hv
    cases hex with
    | false => simp [radixOf] at h; omega
    | true => simp [f1, f2, g1, g2, g3, radixOf]

theorem mantLoopG_renderRest (hex : Bool) (tail : Bytes) : ∀ (rest : List (Bool × Dig)) (st : MantSt),
    (∀ x ∈ rest, x.2.val < radixOf hex) →
    mantLoop hex st (renderRest rest ++ tail) =
      mantLoop hex { st with sawdigits := st.sawdigits || !rest.isEmpty,
                             underscores := st.underscores || hasUs rest,
                             mant := valRest (radixOf hex) st.mant rest,
                             frac := if st.sawdot then st.frac + rest.length else st.frac } tail
  | [], st, _ => by cases st; simp [renderRest, valRest, hasUs]
  | (us, d) :: r, st, h => by
    have hd := h (us, d) (by simp)
    have ih := mantLoopG_renderRest hex tail r
    cases us with
    | true =>
      simp only [renderRest, if_true, List.cons_append, List.nil_append]
      rw [mantLoopG_us, mantLoopG_dig hd, ih _ (fun x hx => h x (by simp [hx]))]
      congr 1
      cases hs : st.sawdot <;> simp [hasUs, valRest, Nat.add_assoc, Nat.add_comm 1]
    | false =>
      simp only [renderRest, Bool.false_eq_true, if_false, List.cons_append, List.nil_append]
      rw [mantLoopG_dig hd, ih _ (fun x hx => h x (by simp [hx]))]
      congr 1
      cases hs : st.sawdot <;> simp [hasUs, valRest, Nat.add_assoc, Nat.add_comm 1]

def optUs : Option Digits → Bool
  | none => false
  | some d => hasUs d.rest

theorem mantLoopG_opt (hex : Bool) (tail : Bytes) (o : Option Digits) (st : MantSt)
    (h : optAll (fun d => decide (d.val < radixOf hex)) o = true) :
    mantLoop hex st (optRender o ++ tail) =
      mantLoop hex { st with sawdigits := st.sawdigits || o.isSome,
                             underscores := st.underscores || optUs o,
                             mant := optVal (radixOf hex) st.mant o,
                             frac := if st.sawdot then st.frac + optLen o else st.frac } tail := by
  cases o with
  | none => cases st; simp [optRender, optUs, optVal, optLen]
  | some ds =>
    obtain ⟨first, rest⟩ := ds
    simp only [optAll, Digits.all, Bool.and_eq_true, decide_eq_true_eq, List.all_eq_true] at h
    simp only [optRender, Digits.render, List.cons_append]
    rw [mantLoopG_dig h.1, mantLoopG_renderRest hex tail rest _ h.2]
    congr 1
    cases hs : st.sawdot <;> simp [optUs, optVal, optLen, Digits.len, Nat.add_assoc, Nat.add_comm 1]

/-- where the mantissa loop stops: the end, or the exponent letter of the base -/
def StopTailG (hex : Bool) (tail : Bytes) : Prop :=
  tail = [] ∨ ∃ e r, tail = e :: r ∧ lower e = (if hex then 0x70 else 0x65)

theorem expLetter_facts : ∀ c : UInt8, (lower c = 0x70 ∨ lower c = 0x65) →
    c ≠ 0x5F ∧ c ≠ 0x2E ∧ isDec c = false ∧ (lower c = 0x70 → isHexLetter c = false) ∧ c ≠ 0x2B ∧ c ≠ 0x2D := by
  apply forall_uint8; decide +kernel

theorem mantLoopG_stop {hex : Bool} {st : MantSt} {tail : Bytes} (h : StopTailG hex tail) :
    mantLoop hex st tail = (st, tail) := by
  rcases h with h | ⟨e, r, h, he⟩
  · subst h; rfl
  · subst h; rw [mantLoop]
    cases hex with
    | false =>
      obtain ⟨f1, f2, f3, _⟩ := expLetter_facts e (Or.inr (by simpa using he))
      simp [f1, f2, f3]
    | true =>
      have he' : lower e = 0x70 := by simpa using he
      obtain ⟨f1, f2, f3, f4, _⟩ := expLetter_facts e (Or.inl he')
      simp [f1, f2, f3, f4 he']

/-! ### the exponent loop, any number of digits -/

theorem expLoopG_dec {e : Nat} {us : Bool} {d : Dig} {t : Bytes} (h : d.val < 10) :
    expLoop e us (d.byte :: t) = expLoop (capStep e d.val) us t := by
  obtain ⟨f1, _, _, _, _, _, _, f8, _⟩ := dig_facts d (by omega)
  obtain ⟨g1, g2, _⟩ := f8 h
  rw [expLoop]; simp [f1, g1, g2, capStep]

theorem expLoopG_renderRest : ∀ (rest : List (Bool × Dig)) (e : Nat) (us : Bool),
    (∀ x ∈ rest, x.2.val < 10) →
    expLoop e us (renderRest rest) = (capRest e rest, us || hasUs rest, [])
  | [], e, us, _ => by simp [renderRest, expLoop, capRest, hasUs]
  | (u, d) :: r, e, us, h => by
    have hd := h (u, d) (by simp)
    have ih := expLoopG_renderRest r
    cases u with
    | true =>
      simp only [renderRest, if_true, List.cons_append, List.nil_append]
      rw [expLoop]; simp only [if_true]
      rw [expLoopG_dec hd, ih _ _ (fun x hx => h x (by simp [hx]))]
      simp [capRest, hasUs]
    | false =>
      simp only [renderRest, Bool.false_eq_true, if_false, List.nil_append]
      rw [expLoopG_dec hd, ih _ _ (fun x hx => h x (by simp [hx]))]
      simp [capRest, hasUs]

theorem digits_dec_of_all {ds : Digits} (h : ds.all isDecDig = true) :
    ds.first.val < 10 ∧ ∀ x ∈ ds.rest, x.2.val < 10 := by
  simp only [Digits.all, isDecDig, Bool.and_eq_true, decide_eq_true_eq, List.all_eq_true] at h
  exact h

theorem expLoopG_digits (ds : Digits) (us : Bool) (h : ds.all isDecDig = true) :
    expLoop 0 us ds.render = (capExp ds, us || hasUs ds.rest, []) := by
  obtain ⟨h1, h2⟩ := digits_dec_of_all h
  obtain ⟨first, rest⟩ := ds
  simp only [Digits.render, capExp]
  rw [expLoopG_dec h1, expLoopG_renderRest rest _ _ h2]

/-- Go's cap is inert for exponents below 100000 -/
theorem valRest_ge (b : Nat) (hb : 1 ≤ b) : ∀ (r : List (Bool × Dig)) (a : Nat), a ≤ valRest b a r
  | [], a => by simp [valRest]
  | (_, d) :: r, a => by
    have := valRest_ge b hb r (a * b + d.val)
    simp only [valRest]
    have : a ≤ a * b := Nat.le_mul_of_pos_right a hb
    omega

theorem capRest_eq : ∀ (r : List (Bool × Dig)) (a : Nat), valRest 10 a r < 100000 →
    capRest a r = valRest 10 a r
  | [], a, _ => rfl
  | (u, d) :: r, a, h => by
    simp only [valRest] at h
    have h1 := valRest_ge 10 (by omega) r (a * 10 + d.val)
    have ha : a < 10000 := by omega
    simp only [capRest, valRest, capStep, ha, if_true]
    exact capRest_eq r _ h

theorem capExp_eq (ds : Digits) (h : ds.value 10 < 100000) : capExp ds = ds.value 10 := by
  obtain ⟨first, rest⟩ := ds
  simp only [Digits.value] at h
  simp only [capExp, Digits.value, capStep]
  have : (0 : Nat) < 10000 := by omega
  simp only [this, if_true, Nat.zero_mul, Nat.zero_add]
  exact capRest_eq rest _ h

/-! ### underscoreOK's loop -/

theorem us_not_digB (hex : Bool) : isDigB hex 0x5F = false := by cases hex <;> decide

theorem usLoopG_dig {hex : Bool} {saw : Saw} {d : Dig} {t : Bytes} (h : d.val < radixOf hex) :
    usLoop hex saw (d.byte :: t) = usLoop hex .digit t := by
  have := dig_isDigB h
  unfold isDigB at this
  rw [usLoop]; simp [this]

theorem usLoopG_us {hex : Bool} {t : Bytes} : usLoop hex .digit (0x5F :: t) = usLoop hex .us t := by
  have := us_not_digB hex
  unfold isDigB at this
  rw [usLoop]; simp [this]

theorem usLoopG_other {hex : Bool} {saw : Saw} {c : UInt8} {t : Bytes} (h1 : isDigB hex c = false)
    (h2 : c ≠ 0x5F) (h3 : saw ≠ .us) : usLoop hex saw (c :: t) = usLoop hex .bang t := by
  unfold isDigB at h1
  rw [usLoop]; simp [h1, h2, h3]

theorem usLoopG_renderRest (hex : Bool) (tail : Bytes) : ∀ (rest : List (Bool × Dig)),
    (∀ x ∈ rest, x.2.val < radixOf hex) →
    usLoop hex .digit (renderRest rest ++ tail) = usLoop hex .digit tail
  | [], _ => by simp [renderRest]
  | (u, d) :: r, h => by
    have hd := h (u, d) (by simp)
    have ih := usLoopG_renderRest hex tail r (fun x hx => h x (by simp [hx]))
    cases u with
    | true =>
      simp only [renderRest, if_true, List.cons_append, List.nil_append]
      rw [usLoopG_us, usLoopG_dig hd, ih]
    | false =>
      simp only [renderRest, Bool.false_eq_true, if_false, List.cons_append, List.nil_append]
      rw [usLoopG_dig hd, ih]

theorem usLoopG_opt (hex : Bool) (tail : Bytes) (o : Option Digits) (saw : Saw)
    (h : optAll (fun d => decide (d.val < radixOf hex)) o = true) :
    usLoop hex saw (optRender o ++ tail) = usLoop hex (if o.isSome then .digit else saw) tail := by
  cases o with
  | none => simp [optRender]
  | some ds =>
    obtain ⟨first, rest⟩ := ds
    simp only [optAll, Digits.all, Bool.and_eq_true, decide_eq_true_eq, List.all_eq_true] at h
    simp only [optRender, Digits.render, List.cons_append, Option.isSome_some, if_true]
    rw [usLoopG_dig h.1, usLoopG_renderRest hex tail rest h.2]

/-! ### the parts of a rendered general literal -/

structure GParts (l : GFloatLit) : Prop where
  int : optAll (fun d => decide (d.val < radixOf l.isHex)) l.int = true
  frac : optAll (fun d => decide (d.val < radixOf l.isHex)) l.frac = true
  exp : ∀ up sg e, l.exp = some (up, sg, e) → e.all isDecDig = true
  has : l.int.isSome = true ∨ l.frac.isSome = true
  point : l.frac.isSome = true → l.point = true
  hexexp : l.isHex = true → l.exp.isSome = true
  usint : ∀ up, l.hex = some (up, true) → l.int.isSome = true

theorem gparts_of_wf (l : GFloatLit) (h : l.wf = true) : GParts l := by
  simp only [GFloatLit.wf, GFloatLit.radix, Bool.and_eq_true, Bool.or_eq_true, Bool.not_eq_true'] at h
  obtain ⟨⟨⟨⟨⟨⟨h1, h2⟩, h3⟩, h4⟩, h5⟩, h6⟩, h7⟩ := h
  refine ⟨h1, h2, ?_, h4, ?_, ?_, ?_⟩
  · intro up sg e he; simpa [he] using h3
  · intro hf; rcases h5 with h5 | h5
    · rw [hf] at h5; exact absurd h5 (by simp)
    · exact h5
  · intro hh; rcases h6 with h6 | h6
    · rw [hh] at h6; exact absurd h6 (by simp)
    · exact h6
  · intro up hu; simpa [hu] using h7

/-- the text after the base prefix (and the underscore that may follow it) -/
def GFloatLit.tailBytes (l : GFloatLit) : Bytes := l.mantBytes ++ l.expBytes

theorem stopTailG_expBytes (l : GFloatLit) : StopTailG l.isHex l.expBytes := by
  unfold GFloatLit.expBytes
  split
  · rename_i up sg e _
    refine Or.inr ⟨_, _, rfl, ?_⟩
    unfold GFloatLit.expLetter
    cases l.isHex <;> cases up <;> decide
  · exact Or.inl rfl

/-- the state of the mantissa loop after the mantissa -/
def stG (l : GFloatLit) (us0 : Bool) : MantSt :=
  { sawdot := l.point, sawdigits := true,
    underscores := us0 || optUs l.int || optUs l.frac,
    mant := l.lit.mant, frac := l.lit.frac }

theorem mantLoopG_lit (l : GFloatLit) (hp : GParts l) (us0 : Bool) :
    mantLoop l.isHex { sawdot := false, sawdigits := false, underscores := us0, mant := 0, frac := 0 }
      (l.mantBytes ++ l.expBytes) = (stG l us0, l.expBytes) := by
  have hstop := stopTailG_expBytes l
  simp only [GFloatLit.mantBytes, List.append_assoc]
  rw [mantLoopG_opt _ _ _ _ hp.int]
  have hsd : (l.int.isSome || l.frac.isSome) = true := by
    rcases hp.has with h | h <;> simp [h]
  by_cases hpt : l.point = true
  · simp only [hpt, if_true, List.cons_append, List.nil_append]
    rw [mantLoop]
    simp only [show ((0x2E : UInt8) = 0x5F) = False by decide, if_false, if_true, Bool.false_eq_true]
    rw [mantLoopG_opt _ _ _ _ hp.frac, mantLoopG_stop hstop]
    simp only [Bool.false_or, if_true, Nat.zero_add, stG, GFloatLit.lit, GFloatLit.radix, hpt, hsd,
      Bool.or_assoc]
    rfl
  · have hfn : l.frac = none := by
      cases hf : l.frac with
      | none => rfl
      | some f => exact absurd (hp.point (by simp [hf])) hpt
    have hpf : l.point = false := by simpa using hpt
    simp only [hpf, Bool.false_eq_true, if_false, List.nil_append, hfn, optRender]
    rw [mantLoopG_stop hstop]
    have hi : l.int.isSome = true := by
      rcases hp.has with h | h
      · exact h
      · simp [hfn] at h
    simp [stG, GFloatLit.lit, GFloatLit.radix, hpf, hfn, optVal, optLen, optUs, hi, radixOf]

/-- the exponent letter is no digit and no underscore -/
theorem expLetter_other (l : GFloatLit) (up : Bool) :
    isDigB l.isHex (l.expLetter up) = false ∧ l.expLetter up ≠ 0x5F ∧
    lower (l.expLetter up) = (if l.isHex then 0x70 else 0x65) := by
  unfold GFloatLit.expLetter isDigB
  cases l.isHex <;> cases up <;> decide

theorem usLoopG_expBytes (l : GFloatLit) (hp : GParts l) (saw : Saw) (hs : saw ≠ .us) :
    usLoop l.isHex saw l.expBytes = true := by
  cases hx : l.exp with
  | none => simp [GFloatLit.expBytes, hx, usLoop, hs]
  | some x =>
    obtain ⟨up, sg, e⟩ := x
    have he := hp.exp up sg e hx
    obtain ⟨h1, h2⟩ := digits_dec_of_all he
    have hr : ∀ hex, 10 ≤ radixOf hex := by intro hex; cases hex <;> simp [radixOf]
    have hfin : ∀ saw', usLoop l.isHex saw' e.render = true := by
      intro saw'
      obtain ⟨first, rest⟩ := e
      have hr' := hr l.isHex
      simp only [Digits.render]
      rw [usLoopG_dig (by simp only at h1; omega)]
      have := usLoopG_renderRest l.isHex [] rest (fun x hx => by have := h2 x hx; omega)
      rw [List.append_nil] at this
      rw [this]; simp [usLoop]
    obtain ⟨f1, f2, _⟩ := expLetter_other l up
    simp only [GFloatLit.expBytes, hx]
    rw [usLoopG_other f1 f2 hs]
    have hsign : ∀ hex, isDigB hex 0x2B = false ∧ isDigB hex 0x2D = false := by
      intro hex; cases hex <;> decide
    cases sg with
    | none => simpa [Sign.bytes] using hfin _
    | plus =>
      simp only [Sign.bytes, List.cons_append, List.nil_append]
      rw [usLoopG_other (hsign _).1 (by decide) (by decide)]; exact hfin _
    | minus =>
      simp only [Sign.bytes, List.cons_append, List.nil_append]
      rw [usLoopG_other (hsign _).2 (by decide) (by decide)]; exact hfin _

theorem dot_not_digB (hex : Bool) : isDigB hex 0x2E = false := by cases hex <;> decide

/-- `underscoreOK`'s loop accepts mantissa and exponent -/
theorem usLoopG_tail (l : GFloatLit) (hp : GParts l) (saw : Saw) (hs : saw ≠ .us) :
    usLoop l.isHex saw l.tailBytes = true := by
  simp only [GFloatLit.tailBytes, GFloatLit.mantBytes, List.append_assoc]
  rw [usLoopG_opt _ _ _ _ hp.int]
  have hs1 : (if l.int.isSome = true then Saw.digit else saw) ≠ .us := by
    split
    · decide
    · exact hs
  by_cases hpt : l.point = true
  · simp only [hpt, if_true, List.cons_append, List.nil_append]
    rw [usLoopG_other (dot_not_digB _) (by decide) hs1, usLoopG_opt _ _ _ _ hp.frac]
    apply usLoopG_expBytes l hp
    split <;> decide
  · have hfn : l.frac = none := by
      cases hf : l.frac with
      | none => rfl
      | some f => exact absurd (hp.point (by simp [hf])) hpt
    have hpf : l.point = false := by simpa using hpt
    simp only [hpf, Bool.false_eq_true, if_false, List.nil_append, hfn, optRender]
    exact usLoopG_expBytes l hp _ hs1

/-! ### the bytes of a rendered literal -/

/-- bytes of the text after the sign -/
def GByte (c : UInt8) : Prop :=
  digitVal c < 16 ∨ c = 0x5F ∨ c = 0x2E ∨ lower c = 0x65 ∨ lower c = 0x70 ∨ lower c = 0x78 ∨ c = 0x2B ∨ c = 0x2D

theorem gbyte_facts : ∀ c : UInt8, GByte c →
    c ≠ 0x2F ∧ (lower c ≠ 0x78 → lower c ≠ 0x70 → digitVal c < 10 ∨ c = 0x5F ∨ c = 0x2E ∨ lower c = 0x65 ∨ c = 0x2B ∨ c = 0x2D ∨
      (10 ≤ digitVal c ∧ digitVal c < 16)) := by
  apply forall_uint8; unfold GByte; decide +kernel

theorem dig_digitVal' (d : Dig) (h : d.val < 16) : digitVal d.byte < 16 := by
  rw [dig_digitVal d h]; exact h

theorem gbyte_renderRest : ∀ (rest : List (Bool × Dig)), (∀ x ∈ rest, x.2.val < 16) →
    ∀ c ∈ renderRest rest, GByte c
  | [], _ => by simp [renderRest]
  | (u, d) :: r, h => by
    have hd : GByte d.byte := Or.inl (dig_digitVal' d (h (u, d) (by simp)))
    have ih := gbyte_renderRest r (fun x hx => h x (by simp [hx]))
    intro c hc
    cases u with
    | true =>
      simp only [renderRest, if_true, List.cons_append, List.nil_append, List.mem_cons] at hc
      rcases hc with e | e | e
      · exact Or.inr (Or.inl e)
      · rw [e]; exact hd
      · exact ih c e
    | false =>
      simp only [renderRest, Bool.false_eq_true, if_false, List.nil_append, List.mem_cons] at hc
      rcases hc with e | e
      · rw [e]; exact hd
      · exact ih c e

theorem gbyte_opt (hex : Bool) (o : Option Digits) (h : optAll (fun d => decide (d.val < radixOf hex)) o = true) :
    ∀ c ∈ optRender o, GByte c := by
  have hr := radixOf_le hex
  cases o with
  | none => simp [optRender]
  | some ds =>
    obtain ⟨first, rest⟩ := ds
    simp only [optAll, Digits.all, Bool.and_eq_true, decide_eq_true_eq, List.all_eq_true] at h
    intro c hc
    simp only [optRender, Digits.render, List.mem_cons] at hc
    rcases hc with e | e
    · rw [e]; exact Or.inl (dig_digitVal' first (by omega))
    · exact gbyte_renderRest rest (fun x hx => by have := h.2 x hx; omega) c e

theorem gbyte_expBytes (l : GFloatLit) (hp : GParts l) : ∀ c ∈ l.expBytes, GByte c := by
  intro c hc
  unfold GFloatLit.expBytes at hc
  split at hc
  · rename_i up sg e he
    rcases List.mem_cons.mp hc with h1 | h1
    · have := (expLetter_other l up).2.2
      rw [← h1] at this
      cases hh : l.isHex
      · simp [hh] at this; exact Or.inr (Or.inr (Or.inr (Or.inl this)))
      · simp [hh] at this; exact Or.inr (Or.inr (Or.inr (Or.inr (Or.inl this))))
    · rcases List.mem_append.mp h1 with h2 | h2
      · cases sg with
        | none => simp [Sign.bytes] at h2
        | plus => simp [Sign.bytes] at h2; exact Or.inr (Or.inr (Or.inr (Or.inr (Or.inr (Or.inr (Or.inl h2))))))
        | minus => simp [Sign.bytes] at h2; exact Or.inr (Or.inr (Or.inr (Or.inr (Or.inr (Or.inr (Or.inr h2))))))
      · have := hp.exp up sg e he
        exact gbyte_opt false (some e) (by unfold isDecDig at this; simpa [optAll, radixOf] using this) c (by simpa [optRender] using h2)
  · simp at hc

theorem gbyte_tail (l : GFloatLit) (hp : GParts l) : ∀ c ∈ l.tailBytes, GByte c := by
  intro c hc
  simp only [GFloatLit.tailBytes, GFloatLit.mantBytes, List.mem_append] at hc
  rcases hc with (hc | hc | hc) | hc
  · exact gbyte_opt _ _ hp.int c hc
  · split at hc
    · exact Or.inr (Or.inr (Or.inl (by simpa using hc)))
    · simp at hc
  · exact gbyte_opt _ _ hp.frac c hc
  · exact gbyte_expBytes l hp c hc

/-- the first byte of the mantissa: a decimal digit or the point (never a hex
letter: without the `0x` prefix the literal is decimal, and with it the head is `0`) -/
def HeadByte (c : UInt8) : Prop := digitVal c < 16 ∨ c = 0x2E

theorem tail_head (l : GFloatLit) (hp : GParts l) : ∃ c t, l.tailBytes = c :: t ∧ HeadByte c ∧
    (l.isHex = false → IsDecByte c ∨ c = 0x2E) ∧ (l.int.isSome = true → digitVal c < 16 ∧ isDigB l.isHex c = true) := by
  have hr := radixOf_le l.isHex
  cases hi : l.int with
  | some ds =>
    have h := hp.int
    rw [hi] at h
    simp only [optAll, Digits.all, Bool.and_eq_true, decide_eq_true_eq] at h
    have h16 : ds.first.val < 16 := by omega
    refine ⟨ds.first.byte, _, by simp [GFloatLit.tailBytes, GFloatLit.mantBytes, hi, optRender, Digits.render]; rfl,
      Or.inl (dig_digitVal' _ h16), ?_, fun _ => ⟨dig_digitVal' _ h16, dig_isDigB h.1⟩⟩
    intro hh
    rw [hh] at h
    simp only [radixOf, Bool.false_eq_true, if_false] at h
    exact Or.inl ((dig_facts ds.first h16).2.2.2.2.2.2.2.1 h.1).2.2
  | none =>
    have hf : l.frac.isSome = true := by
      rcases hp.has with h | h
      · simp [hi] at h
      · exact h
    have hpt := hp.point hf
    exact ⟨0x2E, _, by simp [GFloatLit.tailBytes, GFloatLit.mantBytes, hi, optRender, hpt]; rfl,
      Or.inr rfl, fun _ => Or.inr rfl, by simp⟩

theorem headByte_facts : ∀ c : UInt8, HeadByte c →
    c ≠ 0x2D ∧ c ≠ 0x2B ∧ c ≠ 0x69 ∧ c ≠ 0x49 ∧ c ≠ 0x6E ∧ c ≠ 0x4E ∧ c ≠ 0x5F ∧
    (if 0x41 ≤ c ∧ c ≤ 0x5A then c + 0x20 else c) ≠ 0x69 := by
  apply forall_uint8; unfold HeadByte; decide +kernel

/-- the text after the sign -/
def GFloatLit.body (l : GFloatLit) : Bytes := l.pfx ++ l.tailBytes

theorem grender_eq (l : GFloatLit) : l.render = l.sign.bytes ++ l.body := by
  simp [GFloatLit.render, GFloatLit.body, GFloatLit.tailBytes]

theorem body_headG (l : GFloatLit) (hp : GParts l) : ∃ c t, l.body = c :: t ∧ HeadByte c := by
  obtain ⟨c, t, e, hc, _⟩ := tail_head l hp
  cases hh : l.hex with
  | none => exact ⟨c, t, by simp [GFloatLit.body, GFloatLit.pfx, hh, e], hc⟩
  | some x =>
    obtain ⟨up, us⟩ := x
    exact ⟨0x30, _, by simp [GFloatLit.body, GFloatLit.pfx, hh]; rfl, Or.inl (by decide)⟩

/-! ### decimal literals consist of `FloatByte`s -/

theorem floatByte_opt (o : Option Digits) (h : optAll (fun d => decide (d.val < 10)) o = true) :
    ∀ c ∈ optRender o, FloatByte c := by
  cases o with
  | none => simp [optRender]
  | some ds => exact floatByte_digits ds h

theorem floatByte_tail (l : GFloatLit) (hp : GParts l) (hh : l.isHex = false) :
    ∀ c ∈ l.tailBytes, FloatByte c := by
  have hi := hp.int
  have hf := hp.frac
  rw [hh] at hi hf
  intro c hc
  simp only [GFloatLit.tailBytes, GFloatLit.mantBytes, List.mem_append] at hc
  rcases hc with (hc | hc | hc) | hc
  · exact floatByte_opt _ hi c hc
  · split at hc
    · exact Or.inr (Or.inr (Or.inl (by simpa using hc)))
    · simp at hc
  · exact floatByte_opt _ hf c hc
  · unfold GFloatLit.expBytes at hc
    split at hc
    · rename_i up sg e he
      rcases List.mem_cons.mp hc with h1 | h1
      · rw [h1]; unfold GFloatLit.expLetter; rw [hh]
        cases up
        · exact Or.inr (Or.inr (Or.inr (Or.inl rfl)))
        · exact Or.inr (Or.inr (Or.inr (Or.inr (Or.inl rfl))))
      · rcases List.mem_append.mp h1 with h2 | h2
        · cases sg with
          | none => simp [Sign.bytes] at h2
          | plus => simp [Sign.bytes] at h2; exact Or.inr (Or.inr (Or.inr (Or.inr (Or.inr (Or.inl h2)))))
          | minus => simp [Sign.bytes] at h2; exact Or.inr (Or.inr (Or.inr (Or.inr (Or.inr (Or.inr h2)))))
        · exact floatByte_digits _ (hp.exp up sg e he) c h2
    · simp at hc

/-! ### hexPrefix, underscoreOK and readFloat on the rendering -/

/-- the underscore that may follow `0x` -/
def GFloatLit.usPfx (l : GFloatLit) : Bool :=
  match l.hex with
  | some (_, true) => true
  | _ => false

theorem hexPrefix_body (l : GFloatLit) (hp : GParts l) :
    hexPrefix l.body = (l.isHex, (if l.usPfx then [0x5F] else []) ++ l.tailBytes) := by
  obtain ⟨c, t, e, _⟩ := tail_head l hp
  cases hh : l.hex with
  | none =>
    have hhex : l.isHex = false := by simp [GFloatLit.isHex, hh]
    simp only [GFloatLit.body, GFloatLit.pfx, GFloatLit.usPfx, hh, List.nil_append, hhex]
    exact hexPrefix_no (fun c hc => (floatByte_facts (floatByte_tail l hp hhex c hc)).1)
  | some x =>
    obtain ⟨up, us⟩ := x
    have hhex : l.isHex = true := by simp [GFloatLit.isHex, hh]
    have hX : lower (if up = true then (0x58 : UInt8) else 0x78) = 0x78 := by cases up <;> decide
    cases us with
    | true =>
      simp only [GFloatLit.body, GFloatLit.pfx, GFloatLit.usPfx, hh, hhex, if_true, List.cons_append, List.nil_append]
      simp [hexPrefix, hX]
    | false =>
      simp only [GFloatLit.body, GFloatLit.pfx, GFloatLit.usPfx, hh, hhex, Bool.false_eq_true, if_false,
        List.cons_append, List.nil_append, List.append_nil, e]
      simp [hexPrefix, hX]

theorem underscoreOK_strip (sign : Sign) (c : UInt8) (t : Bytes) (h1 : c ≠ 0x2D) (h2 : c ≠ 0x2B) :
    underscoreOK (sign.bytes ++ c :: t) = underscoreOK (c :: t) := by
  cases sign <;> simp [underscoreOK, Sign.bytes, h1, h2]

theorem underscoreOK_dec (c : UInt8) (t : Bytes) (h1 : c ≠ 0x2D) (h2 : c ≠ 0x2B) (ht : ∀ y ∈ t, FloatByte y) :
    underscoreOK (c :: t) = usLoop false .start (c :: t) := by
  cases t with
  | nil => simp [underscoreOK, h1, h2]
  | cons c1 cs =>
    obtain ⟨f1, f2, f3, _⟩ := floatByte_facts (ht c1 (by simp))
    simp [underscoreOK, h1, h2, f1, f2, f3]

theorem usLoop_digit_head {hex : Bool} (saw saw' : Saw) {c : UInt8} {t : Bytes} (h : isDigB hex c = true) :
    usLoop hex saw (c :: t) = usLoop hex saw' (c :: t) := by
  unfold isDigB at h
  rw [usLoop, usLoop]; simp [h]

theorem underscoreOK_grender (l : GFloatLit) (hp : GParts l) : underscoreOK l.render = true := by
  obtain ⟨c0, t0, eb, hb⟩ := body_headG l hp
  obtain ⟨b1, b2, _⟩ := headByte_facts c0 hb
  rw [grender_eq, eb, underscoreOK_strip _ _ _ b1 b2, ← eb]
  obtain ⟨c, t, e, _, _, hint⟩ := tail_head l hp
  cases hh : l.hex with
  | none =>
    have hhex : l.isHex = false := by simp [GFloatLit.isHex, hh]
    have hfb := floatByte_tail l hp hhex
    have hbody : l.body = c :: t := by simp [GFloatLit.body, GFloatLit.pfx, hh, e]
    rw [hbody] at eb
    have hc0 : c = c0 := by simp at eb; exact eb.1
    rw [hbody, underscoreOK_dec c t (hc0 ▸ b1) (hc0 ▸ b2) (fun y hy => hfb y (by rw [e]; simp [hy])), ← e]
    have := usLoopG_tail l hp .start (by decide)
    rw [hhex] at this; exact this
  | some x =>
    obtain ⟨up, us⟩ := x
    have hhex : l.isHex = true := by simp [GFloatLit.isHex, hh]
    have hX : lower (if up = true then (0x58 : UInt8) else 0x78) = 0x78 := by cases up <;> decide
    have key := usLoopG_tail l hp .digit (by decide)
    rw [hhex] at key
    cases us with
    | true =>
      have hi := hp.usint up hh
      obtain ⟨_, hd⟩ := hint hi
      rw [hhex] at hd
      simp only [GFloatLit.body, GFloatLit.pfx, hh, if_true, List.cons_append, List.nil_append]
      simp only [underscoreOK, show ¬((0x30 : UInt8) = 0x2D ∨ (0x30 : UInt8) = 0x2B) by decide, if_false, hX,
        true_and, or_true, if_true, decide_true]
      rw [usLoopG_us, e, usLoop_digit_head .us .digit hd, ← e]
      exact key
    | false =>
      simp only [GFloatLit.body, GFloatLit.pfx, hh, Bool.false_eq_true, if_false, List.cons_append,
        List.nil_append, List.append_nil, e]
      simp only [underscoreOK, show ¬((0x30 : UInt8) = 0x2D ∨ (0x30 : UInt8) = 0x2B) by decide, if_false, hX,
        true_and, or_true, if_true, decide_true]
      rw [← e]; exact key

theorem readExp_glit (l : GFloatLit) (hp : GParts l) (neg : Bool) (st : MantSt) (s : Bytes)
    (hu : underscoreOK s = true) :
    readExp neg l.isHex st l.expBytes s =
      some { neg := neg, hex := l.isHex, mant := st.mant, frac := st.frac, exp := l.lit.exp } := by
  cases hx : l.exp with
  | none =>
    have hh : l.isHex = false := by
      cases h : l.isHex with
      | false => rfl
      | true => have := hp.hexexp h; simp [hx] at this
    simp [GFloatLit.expBytes, hx, readExp, hu, GFloatLit.lit, hh]
  | some x =>
    obtain ⟨up, sg, e⟩ := x
    have he := hp.exp up sg e hx
    have hxx := expLoopG_digits e st.underscores he
    obtain ⟨h1, _⟩ := digits_dec_of_all he
    obtain ⟨f1, _, f3, f4, _, _, _, f8, _⟩ := dig_facts e.first (by omega)
    obtain ⟨hd1, _, _⟩ := f8 h1
    have et : e.render = e.first.byte :: renderRest e.rest := rfl
    have hlow := (expLetter_other l up).2.2
    simp only [GFloatLit.expBytes, hx, readExp, hlow, if_true]
    cases sg with
    | none =>
      simp only [Sign.bytes, List.nil_append]
      rw [et]
      simp only [f3, f4, or_self, if_false, hd1, Bool.not_true, Bool.false_eq_true]
      rw [← et, hxx]
      simp [hu, GFloatLit.lit, hx, Sign.isNeg]
    | plus =>
      simp only [Sign.bytes, List.cons_append, List.nil_append, true_or, if_true]
      rw [et]
      simp only [hd1, Bool.not_true, Bool.false_eq_true, if_false]
      rw [← et, hxx]
      simp [hu, GFloatLit.lit, hx, Sign.isNeg]
    | minus =>
      simp only [Sign.bytes, List.cons_append, List.nil_append, or_true, if_true]
      rw [et]
      simp only [hd1, Bool.not_true, Bool.false_eq_true, if_false]
      rw [← et, hxx]
      simp [hu, GFloatLit.lit, hx, Sign.isNeg]

theorem readBody_glit (l : GFloatLit) (hp : GParts l) (neg : Bool) (s : Bytes)
    (hu : underscoreOK s = true) :
    readBody neg l.body s = some { l.lit with neg := neg } := by
  unfold readBody
  simp only [hexPrefix_body l hp]
  have key : mantLoop l.isHex { sawdot := false, sawdigits := false, underscores := false, mant := 0, frac := 0 }
      ((if l.usPfx then [0x5F] else []) ++ l.tailBytes) = (stG l l.usPfx, l.expBytes) := by
    cases hus : l.usPfx with
    | false => simpa [GFloatLit.tailBytes] using mantLoopG_lit l hp false
    | true =>
      simp only [if_true, List.cons_append, List.nil_append]
      rw [mantLoopG_us]
      simpa [GFloatLit.tailBytes] using mantLoopG_lit l hp true
  rw [key]
  simp only [stG, Bool.not_true, Bool.false_eq_true, if_false]
  rw [readExp_glit l hp neg _ s hu]
  simp [GFloatLit.lit]

theorem readFloat_glit (l : GFloatLit) (h : l.wf = true) : readFloat l.render = some l.lit := by
  have hp := gparts_of_wf l h
  have hu := underscoreOK_grender l hp
  obtain ⟨c0, t0, eb, hb⟩ := body_headG l hp
  obtain ⟨b1, b2, _⟩ := headByte_facts c0 hb
  have key := fun neg => readBody_glit l hp neg l.render hu
  rw [grender_eq] at key ⊢
  cases hs : l.sign with
  | none =>
    simp only [hs, Sign.bytes, List.nil_append] at key ⊢
    rw [eb] at key ⊢
    simp only [readFloat, b1, b2, or_self, if_false, decide_false]
    rw [key]
    simp [GFloatLit.lit, hs, Sign.isNeg]
  | plus =>
    simp only [hs, Sign.bytes, List.cons_append, List.nil_append] at key ⊢
    simp only [readFloat, or_true, if_true]
    rw [key]
    simp [GFloatLit.lit, hs, Sign.isNeg]
  | minus =>
    simp only [hs, Sign.bytes, List.cons_append, List.nil_append] at key ⊢
    simp only [readFloat, true_or, if_true]
    rw [key]
    simp [GFloatLit.lit, hs, Sign.isNeg]

/-! ### `special`, `/` and the integer grammar on a rendered literal -/

theorem special_headByte {c : UInt8} (cs : Bytes) (h : HeadByte c) : special (c :: cs) = none := by
  obtain ⟨h1, h2, h3, h4, h5, h6, _⟩ := headByte_facts c h
  simp [special, h1, h2, h3, h4, h5, h6]

theorem special_sign_headByte {c : UInt8} (sg : UInt8) (cs : Bytes) (h : HeadByte c) (hs : sg = 0x2B ∨ sg = 0x2D) :
    special (sg :: c :: cs) = none := by
  have := (headByte_facts c h).2.2.2.2.2.2.2
  rcases hs with hs | hs <;> subst hs <;> simp [special, specialInf, commonPrefixLen, infinityLit, this]

theorem special_glit (l : GFloatLit) (hp : GParts l) : special l.render = none := by
  obtain ⟨c0, t0, eb, hb⟩ := body_headG l hp
  rw [grender_eq, eb]
  cases l.sign with
  | none => exact special_headByte _ hb
  | plus => exact special_sign_headByte _ _ hb (Or.inl rfl)
  | minus => exact special_sign_headByte _ _ hb (Or.inr rfl)

theorem parseFloat_glit (l : GFloatLit) (h : l.wf = true) : parseFloat l.render = l.lit.bits := by
  unfold parseFloat
  rw [special_glit l (gparts_of_wf l h), readFloat_glit l h]

theorem slash_not_mem_glit (l : GFloatLit) (hp : GParts l) : (0x2F : UInt8) ∉ l.render := by
  rw [grender_eq]
  intro hm
  rcases List.mem_append.mp hm with h | h
  · cases hs : l.sign <;> simp [hs, Sign.bytes] at h
  · simp only [GFloatLit.body, List.mem_append] at h
    rcases h with h | h
    · unfold GFloatLit.pfx at h
      split at h
      · rename_i up us _
        cases up <;> cases us <;> simp at h
      · simp at h
    · exact (gbyte_facts _ (gbyte_tail l hp _ h)).1 rfl

end C05
