/-
C05 round 2: the inverse direction for `readFloat`.  Whatever `readFloat`
accepts entirely is the rendering of a well-formed general float literal
(`GFloatLit` of Grammar.lean).
-/
import ElvProofs.C05.GFloat
import ElvProofs.C05.ScanInv
namespace C05
open Go

/-! ### bytes -/

theorem digB_facts : ∀ c : UInt8,
    (isDec c = true → digitVal c < 10) ∧ (isHexLetter c = true → 10 ≤ digitVal c ∧ digitVal c < 16) ∧
    (lower c = 0x65 → c = 0x65 ∨ c = 0x45) ∧ (lower c = 0x70 → c = 0x70 ∨ c = 0x50) ∧
    (lower c = 0x78 → c = 0x78 ∨ c = 0x58) := by
  apply forall_uint8; decide +kernel

theorem ofByte_digB {hex : Bool} {c : UInt8} (h : isDigB hex c = true) :
    (Dig.ofByte c).byte = c ∧ (Dig.ofByte c).val < radixOf hex := by
  obtain ⟨f1, f2, _⟩ := digB_facts c
  unfold isDigB at h
  simp only [Bool.or_eq_true, Bool.and_eq_true] at h
  have hv : digitVal c < radixOf hex := by
    rcases h with h | ⟨hh, h⟩
    · have := f1 h; cases hex <;> simp [radixOf] <;> omega
    · have := f2 h; subst hh; simp [radixOf]; omega
  have h16 := radixOf_le hex
  obtain ⟨g1, g2, _⟩ := ofByte_facts c (by omega)
  exact ⟨g1, by rw [g2]; exact hv⟩

/-- the text does not go on with a digit or an underscore -/
def NoRunHead (hex : Bool) (t : Bytes) : Prop := ∀ c ∈ t.head?, isDigB hex c = false ∧ c ≠ 0x5F

/-! ### runs of digits and underscores accepted by underscoreOK's loop -/

theorem usLoop_run (hex : Bool) : ∀ (t : Bytes) (saw : Saw), usLoop hex saw t = true →
    ∃ (rest : List (Bool × Dig)) (t' : Bytes),
      (if saw = .us then [0x5F] else []) ++ t = renderRest rest ++ t' ∧
      (∀ x ∈ rest, x.2.val < radixOf hex) ∧
      (saw = .us → rest ≠ []) ∧
      (saw ≠ .digit → saw ≠ .us → ∀ x ∈ rest.head?, x.1 = false) ∧
      NoRunHead hex t' ∧
      usLoop hex (if rest.isEmpty then saw else .digit) t' = true
  | [], saw, h => by
    have hs : saw ≠ .us := by
      intro e; subst e; simp [usLoop] at h
    exact ⟨[], [], by simp [hs, renderRest], by simp, fun e => absurd e hs, by simp, by simp [NoRunHead], by simpa using h⟩
  | c :: cs, saw, h => by
    by_cases hd : isDigB hex c = true
    · have h' : usLoop hex .digit cs = true := by
        rw [usLoop] at h
        unfold isDigB at hd
        simpa [hd] using h
      obtain ⟨r, t', e, hr, _, _, hn, hu⟩ := usLoop_run hex cs .digit h'
      simp only [reduceCtorEq, if_false, List.nil_append] at e
      obtain ⟨g1, g2⟩ := ofByte_digB hd
      refine ⟨(decide (saw = .us), Dig.ofByte c) :: r, t', ?_, ?_, by simp, ?_, hn, ?_⟩
      · by_cases hq : saw = .us <;> simp [hq, renderRest, g1, e]
      · intro x hx
        rcases List.mem_cons.mp hx with e1 | e1
        · rw [e1]; exact g2
        · exact hr x e1
      · intro _ h2 x hx
        simp only [List.head?_cons, Option.mem_def, Option.some.injEq] at hx
        rw [← hx]; simp [h2]
      · have : (if r.isEmpty = true then Saw.digit else Saw.digit) = Saw.digit := by split <;> rfl
        rw [this] at hu
        simpa using hu
    · have hd' : isDigB hex c = false := by simpa using hd
      by_cases hc : c = 0x5F
      · subst hc
        have hsd : saw = .digit := by
          rw [usLoop] at h
          unfold isDigB at hd'
          cases saw <;> simp [hd'] at h ⊢
        have h' : usLoop hex .us cs = true := by
          rw [hsd, usLoopG_us] at h; exact h
        obtain ⟨r, t', e, hr, hne, _, hn, hu⟩ := usLoop_run hex cs .us h'
        have hne' := hne rfl
        refine ⟨r, t', ?_, hr, fun e' => by rw [hsd] at e'; exact absurd e' (by decide), ?_, hn, ?_⟩
        · simpa [hsd] using e
        · intro h1; exact absurd hsd h1
        · have : r.isEmpty = false := by cases r with
            | nil => exact absurd rfl hne'
            | cons _ _ => rfl
          simpa [this] using hu
      · have hs : saw ≠ .us := by
          intro e; subst e
          rw [usLoop] at h
          unfold isDigB at hd'
          simp [hd', hc] at h
        refine ⟨[], c :: cs, by simp [hs, renderRest], by simp, fun e => absurd e hs, by simp, ?_, by simpa using h⟩
        intro x hx
        simp only [List.head?_cons, Option.mem_def, Option.some.injEq] at hx
        rw [← hx]; exact ⟨hd', hc⟩

theorem usLoop_of_no_us (hex : Bool) : ∀ (t : Bytes) (saw : Saw), (0x5F : UInt8) ∉ t → saw ≠ .us →
    usLoop hex saw t = true
  | [], saw, _, hs => by simp [usLoop, hs]
  | c :: cs, saw, hn, hs => by
    have hc : c ≠ 0x5F := fun e => hn (by simp [e])
    have hn' : (0x5F : UInt8) ∉ cs := fun e => hn (by simp [e])
    by_cases hd : isDigB hex c = true
    · rw [usLoop_digit_head saw .digit hd]
      have : usLoop hex .digit (c :: cs) = usLoop hex .digit cs := by
        unfold isDigB at hd
        rw [usLoop]; simp [hd]
      rw [this]; exact usLoop_of_no_us hex cs _ hn' (by decide)
    · rw [usLoopG_other (by simpa using hd) hc hs]
      exact usLoop_of_no_us hex cs _ hn' (by decide)

/-! ### structured digits from `(_? d)*` lists -/

def toOpt : List (Bool × Dig) → Option Digits
  | [] => none
  | (_, d) :: r => some ⟨d, r⟩

def headUs : List (Bool × Dig) → Bool
  | (u, _) :: _ => u
  | [] => false

theorem renderRest_toOpt (r : List (Bool × Dig)) :
    renderRest r = (if headUs r then [0x5F] else []) ++ optRender (toOpt r) := by
  cases r with
  | nil => simp [renderRest, headUs, toOpt, optRender]
  | cons x r => obtain ⟨u, d⟩ := x; cases u <;> simp [renderRest, headUs, toOpt, optRender, Digits.render]

theorem headUs_false {r : List (Bool × Dig)} (h : ∀ x ∈ r.head?, x.1 = false) : headUs r = false := by
  cases r with
  | nil => rfl
  | cons x r => exact h x (by simp)

theorem optAll_toOpt {b : Nat} {r : List (Bool × Dig)} (h : ∀ x ∈ r, x.2.val < b) :
    optAll (fun d => decide (d.val < b)) (toOpt r) = true := by
  cases r with
  | nil => rfl
  | cons x r =>
    simp only [toOpt, optAll, Digits.all, Bool.and_eq_true, decide_eq_true_eq, List.all_eq_true]
    exact ⟨h x (by simp), fun y hy => h y (by simp [hy])⟩

theorem toOpt_isSome (r : List (Bool × Dig)) : (toOpt r).isSome = !r.isEmpty := by
  cases r <;> simp [toOpt]

/-! ### what the loops tell about the text -/

theorem mantLoop_split (hex : Bool) : ∀ (t : Bytes) (st st' : MantSt) (rest : Bytes),
    mantLoop hex st t = (st', rest) →
    ∃ pre, t = pre ++ rest ∧ (st'.underscores = false → (0x5F : UInt8) ∉ pre)
  | [], st, st', rest, h => by
    simp only [mantLoop, Prod.mk.injEq] at h
    exact ⟨[], by simp [h.2], by simp⟩
  | c :: cs, st, st', rest, h => by
    have step : ∀ st2, c ≠ 0x5F → mantLoop hex st2 cs = (st', rest) →
        ∃ pre, c :: cs = pre ++ rest ∧ (st'.underscores = false → (0x5F : UInt8) ∉ pre) := by
      intro st2 hc hh
      obtain ⟨pre, e, hp⟩ := mantLoop_split hex cs st2 st' rest hh
      refine ⟨c :: pre, by simp [e], ?_⟩
      intro hu hx
      rcases List.mem_cons.mp hx with e1 | e1
      · exact hc e1.symm
      · exact hp hu e1
    have stop : (st, c :: cs) = (st', rest) →
        ∃ pre, c :: cs = pre ++ rest ∧ (st'.underscores = false → (0x5F : UInt8) ∉ pre) := by
      intro hh
      simp only [Prod.mk.injEq] at hh
      exact ⟨[], by simp [hh.2], by simp⟩
    rw [mantLoop] at h
    by_cases h1 : c = 0x5F
    · simp only [h1, if_true] at h
      -- the flag is set and never reset
      have mono : ∀ (t : Bytes) (s1 s2 : MantSt) (r : Bytes), mantLoop hex s1 t = (s2, r) →
          s1.underscores = true → s2.underscores = true := by
        intro t
        induction t with
        | nil => intro s1 s2 r hh hu; simp only [mantLoop, Prod.mk.injEq] at hh; rw [← hh.1]; exact hu
        | cons a t ih =>
          intro s1 s2 r hh hu
          rw [mantLoop] at hh
          split at hh
          · exact ih _ _ _ hh rfl
          · split at hh
            · split at hh
              · simp only [Prod.mk.injEq] at hh; rw [← hh.1]; exact hu
              · exact ih _ _ _ hh hu
            · split at hh
              · exact ih _ _ _ hh hu
              · split at hh
                · exact ih _ _ _ hh hu
                · simp only [Prod.mk.injEq] at hh; rw [← hh.1]; exact hu
      have hu := mono cs _ _ _ h rfl
      obtain ⟨pre, e, _⟩ := mantLoop_split hex cs _ st' rest h
      exact ⟨c :: pre, by simp [e], fun hf => by rw [hu] at hf; exact absurd hf (by simp)⟩
    · simp only [h1, if_false] at h
      by_cases h2 : c = 0x2E
      · simp only [h2, if_true] at h
        split at h
        · rw [← h2] at h; exact stop h
        · exact step _ h1 h
      · simp only [h2, if_false] at h
        by_cases h3 : isDec c = true
        · simp only [h3, if_true] at h
          exact step _ h1 h
        · simp only [h3] at h
          by_cases h4 : (hex && isHexLetter c) = true
          · simp only [h4, if_true] at h
            exact step _ h1 h
          · simp only [h4] at h
            exact stop h

theorem expLoop_split : ∀ (t : Bytes) (e : Nat) (us : Bool) (e' : Nat) (us' : Bool),
    expLoop e us t = (e', us', []) →
    (∀ c ∈ t, isDec c = true ∨ c = 0x5F) ∧ (us' = false → (0x5F : UInt8) ∉ t)
  | [], _, _, _, _, _ => by simp
  | c :: cs, e, us, e', us', h => by
    rw [expLoop] at h
    by_cases h1 : c = 0x5F
    · simp only [h1, if_true] at h
      have mono : ∀ (t : Bytes) (a : Nat) (r : Nat × Bool × Bytes), expLoop a true t = r → r.2.1 = true := by
        intro t
        induction t with
        | nil => intro a r hh; rw [← hh]; rfl
        | cons b t ih =>
          intro a r hh
          rw [expLoop] at hh
          split at hh
          · exact ih _ _ hh
          · split at hh
            · exact ih _ _ hh
            · rw [← hh]
      have := mono cs e _ h
      obtain ⟨ih, _⟩ := expLoop_split cs _ _ _ _ h
      refine ⟨?_, fun hf => by simp only at this; rw [this] at hf; exact absurd hf (by simp)⟩
      intro x hx
      rcases List.mem_cons.mp hx with e1 | e1
      · exact Or.inr (e1.trans h1)
      · exact ih x e1
    · simp only [h1, if_false] at h
      by_cases h3 : isDec c = true
      · simp only [h3, if_true] at h
        obtain ⟨ih, ih2⟩ := expLoop_split cs _ _ _ _ h
        refine ⟨?_, fun hf hx => ?_⟩
        · intro x hx
          rcases List.mem_cons.mp hx with e1 | e1
          · rw [e1]; exact Or.inl h3
          · exact ih x e1
        · rcases List.mem_cons.mp hx with e1 | e1
          · exact h1 e1.symm
          · exact ih2 hf e1
      · simp only [h3] at h
        simp at h

/-- everything `readExp` tells about the text the mantissa loop left -/
theorem readExp_inv {neg hex : Bool} {st : MantSt} {rest s : Bytes} {l : FloatLit}
    (h : readExp neg hex st rest s = some l) :
    (rest = [] ∧ hex = false ∧ (st.underscores = true → underscoreOK s = true)) ∨
    (∃ (e : UInt8) (sg : Sign) (d : UInt8) (more : Bytes),
        rest = e :: (sg.bytes ++ d :: more) ∧ lower e = (if hex then 0x70 else 0x65) ∧ isDec d = true ∧
        (∀ c ∈ d :: more, isDec c = true ∨ c = 0x5F) ∧
        ((st.underscores = false → (0x5F : UInt8) ∈ more) → underscoreOK s = true)) := by
  cases rest with
  | nil =>
    simp only [readExp] at h
    split at h
    · simp at h
    · rename_i hh
      split at h
      · simp at h
      · rename_i hu
        refine Or.inl ⟨rfl, by simpa using hh, ?_⟩
        intro hus
        simp only [hus, Bool.true_and, Bool.not_eq_true'] at hu
        simpa using hu
  | cons e r =>
    simp only [readExp] at h
    by_cases he : lower e = (if hex = true then 0x70 else 0x65)
    · simp only [he, if_true] at h
      have fin : ∀ (r2 : Bytes) (v : FloatLit),
          (match r2 with
            | [] => none
            | d :: _ =>
              if (!isDec d) = true then none
              else
                if (!(expLoop 0 st.underscores r2).2.2.isEmpty) = true then none
                else if ((expLoop 0 st.underscores r2).2.1 && !underscoreOK s) = true then none
                else some v) = some l →
          ∃ d more, r2 = d :: more ∧ isDec d = true ∧ (∀ c ∈ d :: more, isDec c = true ∨ c = 0x5F) ∧
            ((st.underscores = false → (0x5F : UInt8) ∈ more) → underscoreOK s = true) := by
        intro r2 v hh
        cases r2 with
        | nil => simp at hh
        | cons d more =>
          simp only at hh
          by_cases hd : isDec d = true
          · simp only [hd, Bool.not_true, Bool.false_eq_true, if_false] at hh
            by_cases hr : (expLoop 0 st.underscores (d :: more)).2.2.isEmpty = true
            · simp only [hr, Bool.not_true, Bool.false_eq_true, if_false] at hh
              have hr' := List.isEmpty_iff.mp hr
              obtain ⟨hall, hno⟩ := expLoop_split (d :: more) 0 st.underscores _ _ (Prod.ext rfl (Prod.ext rfl hr'))
              refine ⟨d, more, rfl, hd, hall, ?_⟩
              intro hus
              by_cases hf : (expLoop 0 st.underscores (d :: more)).2.1 = true
              · simp only [hf, Bool.true_and, Bool.not_eq_true'] at hh
                split at hh
                · simp at hh
                · rename_i hu; simpa using hu
              · -- no underscore flagged: none in the mantissa, none in the exponent
                exfalso
                have hf' : (expLoop 0 st.underscores (d :: more)).2.1 = false := by simpa using hf
                have hnot := hno hf'
                have hsu : st.underscores = false := by
                  cases hq : st.underscores with
                  | false => rfl
                  | true =>
                    exfalso
                    have mono : ∀ (t : Bytes) (a : Nat), (expLoop a true t).2.1 = true := by
                      intro t
                      induction t with
                      | nil => intro a; rfl
                      | cons b t ih =>
                        intro a
                        rw [expLoop]
                        split
                        · exact ih _
                        · split
                          · exact ih _
                          · rfl
                    rw [hq, mono] at hf'
                    exact absurd hf' (by simp)
                exact hnot (List.mem_cons_of_mem _ (hus hsu))
            · simp [hr] at hh
          · simp [hd] at hh
      cases r with
      | nil => simp at h
      | cons c1 r1 =>
        simp only at h
        by_cases hs : c1 = 0x2B ∨ c1 = 0x2D
        · simp only [hs, if_true] at h
          obtain ⟨d, more, e2, hd, hall, hu⟩ := fin r1 _ h
          rcases hs with hs | hs
          · exact Or.inr ⟨e, .plus, d, more, by simp [Sign.bytes, hs, e2], he, hd, hall, hu⟩
          · exact Or.inr ⟨e, .minus, d, more, by simp [Sign.bytes, hs, e2], he, hd, hall, hu⟩
        · simp only [hs, if_false] at h
          obtain ⟨d, more, e2, hd, hall, hu⟩ := fin (c1 :: r1) _ h
          exact Or.inr ⟨e, .none, d, more, by simp [Sign.bytes, e2], he, hd, hall, hu⟩
    · simp [he] at h

/-! ### the shape of an accepted text -/

/-- the state `readFloat` starts the mantissa loop in -/
def st00 : MantSt := { sawdot := false, sawdigits := false, underscores := false, mant := 0, frac := 0 }

theorem digB_false {hex : Bool} {c : UInt8} (h : isDigB hex c = false) :
    isDec c = false ∧ (hex && isHexLetter c) = false := by
  unfold isDigB at h
  simpa [Bool.or_eq_false_iff] using h

theorem mantLoop_stop_norun {hex : Bool} {st : MantSt} {t : Bytes} (hn : NoRunHead hex t)
    (hd : st.sawdot = true ∨ ∀ c ∈ t.head?, c ≠ 0x2E) : mantLoop hex st t = (st, t) := by
  cases t with
  | nil => rfl
  | cons c cs =>
    obtain ⟨h1, h2⟩ := hn c (by simp)
    obtain ⟨g1, g2⟩ := digB_false h1
    rw [mantLoop]
    by_cases hc : c = 0x2E
    · rcases hd with hd | hd
      · simp [h2, hc, hd]
      · exact absurd hc (hd c (by simp))
    · simp [h2, hc, g1, g2]

theorem byte_mem_renderRest : ∀ (r : List (Bool × Dig)) (x : Bool × Dig), x ∈ r → x.2.byte ∈ renderRest r
  | [], _, h => by simp at h
  | (u, d) :: r, x, h => by
    rcases List.mem_cons.mp h with e | e
    · rw [e]; cases u <;> simp [renderRest]
    · have := byte_mem_renderRest r x e
      cases u <;> simp [renderRest, this]

/-- in every accepted text underscoreOK's loop holds (trivially when there is no underscore) -/
theorem usLoop_of_read (hex : Bool) {neg : Bool} {T s rest : Bytes} {st : MantSt} {l : FloatLit} {saw0 : Saw}
    (hs0 : saw0 ≠ .us) (hm : mantLoop hex st00 T = (st, rest))
    (hre : readExp neg hex st rest s = some l)
    (hU : underscoreOK s = true → usLoop hex saw0 T = true) : usLoop hex saw0 T = true := by
  obtain ⟨pre, eT, hpre⟩ := mantLoop_split hex T st00 st rest hm
  rcases readExp_inv hre with ⟨hr, _, hu⟩ | ⟨e, sg, d, more, hr, hle, hd, hall, hu⟩
  · by_cases hf : st.underscores = true
    · exact hU (hu hf)
    · apply usLoop_of_no_us hex T saw0 _ hs0
      rw [eT, hr, List.append_nil]
      exact hpre (by simpa using hf)
  · by_cases hq : st.underscores = false ∧ (0x5F : UInt8) ∉ more
    · apply usLoop_of_no_us hex T saw0 _ hs0
      rw [eT, hr]
      have he : e ≠ 0x5F := by
        have := expLetter_facts e (by cases hex <;> simp at hle <;> simp [hle])
        exact this.1
      have hd' : d ≠ 0x5F := by
        intro e'; subst e'; exact absurd hd (by decide)
      intro hmem
      rcases List.mem_append.mp hmem with h1 | h1
      · exact hpre hq.1 h1
      · rcases List.mem_cons.mp h1 with h2 | h2
        · exact he h2.symm
        · rcases List.mem_append.mp h2 with h3 | h3
          · cases sg <;> simp [Sign.bytes] at h3
          · rcases List.mem_cons.mp h3 with h4 | h4
            · exact hd' h4.symm
            · exact hq.2 h4
    · apply hU; apply hu
      intro hf
      cases hm' : decide ((0x5F : UInt8) ∈ more) with
      | true => exact of_decide_eq_true hm'
      | false => exact absurd ⟨hf, of_decide_eq_false hm'⟩ hq

theorem mant_shape (hex : Bool) {T rest : Bytes} {st : MantSt} {saw0 : Saw} (hs0 : saw0 ≠ .us)
    (hm : mantLoop hex st00 T = (st, rest)) (hus : usLoop hex saw0 T = true) :
    ∃ (r1 r2 : List (Bool × Dig)) (point : Bool) (saw2 : Saw),
      T = renderRest r1 ++ ((if point then [0x2E] else []) ++ (renderRest r2 ++ rest)) ∧
      (∀ x ∈ r1, x.2.val < radixOf hex) ∧ (∀ x ∈ r2, x.2.val < radixOf hex) ∧
      (saw0 ≠ .digit → headUs r1 = false) ∧ headUs r2 = false ∧ (point = false → r2 = []) ∧
      st.sawdigits = (!r1.isEmpty || !r2.isEmpty) ∧
      saw2 ≠ .us ∧ usLoop hex saw2 rest = true := by
  obtain ⟨r1, t1, e1, hr1, _, hh1, hn1, hu1⟩ := usLoop_run hex T saw0 hus
  simp only [hs0, if_false, List.nil_append] at e1
  have hsaw1 : (if r1.isEmpty = true then saw0 else Saw.digit) ≠ .us := by
    split
    · exact hs0
    · decide
  have hm1 := hm
  rw [e1, mantLoopG_renderRest hex t1 r1 _ hr1] at hm1
  by_cases hdot : ∃ t1', t1 = 0x2E :: t1'
  · obtain ⟨t1', et⟩ := hdot
    rw [et] at hu1 hm1
    rw [usLoopG_other (dot_not_digB hex) (by decide) hsaw1] at hu1
    obtain ⟨r2, t2, e2, hr2, _, hh2, hn2, hu2⟩ := usLoop_run hex t1' .bang hu1
    simp only [reduceCtorEq, if_false, List.nil_append] at e2
    rw [mantLoop] at hm1
    simp only [show ((0x2E : UInt8) = 0x5F) = False by decide, if_false, if_true, st00, Bool.false_eq_true] at hm1
    rw [e2, mantLoopG_renderRest hex t2 r2 _ hr2, mantLoop_stop_norun hn2 (Or.inl rfl)] at hm1
    simp only [Prod.mk.injEq] at hm1
    obtain ⟨hst, hrest⟩ := hm1
    refine ⟨r1, r2, true, (if r2.isEmpty then .bang else .digit), ?_, hr1, hr2, ?_,
      headUs_false (hh2 (by decide) (by decide)), by simp, ?_, by split <;> decide, by rw [← hrest]; exact hu2⟩
    · rw [e1, et, e2, hrest]; simp
    · intro h; exact headUs_false (hh1 h hs0)
    · rw [← hst]; simp
  · have hnd : ∀ c ∈ t1.head?, c ≠ 0x2E := by
      intro c hc e
      cases t1 with
      | nil => simp at hc
      | cons a t =>
        simp only [List.head?_cons, Option.mem_def, Option.some.injEq] at hc
        exact hdot ⟨t, by rw [hc, e]⟩
    rw [mantLoop_stop_norun hn1 (Or.inr hnd)] at hm1
    simp only [Prod.mk.injEq] at hm1
    obtain ⟨hst, hrest⟩ := hm1
    refine ⟨r1, [], false, _, ?_, hr1, by simp, ?_, rfl, fun _ => rfl, ?_, hsaw1, by rw [← hrest]; exact hu1⟩
    · rw [e1, hrest]; simp [renderRest]
    · intro h; exact headUs_false (hh1 h hs0)
    · rw [← hst]; simp [st00]

theorem exp_shape (hex : Bool) {neg : Bool} {st : MantSt} {rest s : Bytes} {l : FloatLit}
    (hre : readExp neg hex st rest s = some l) {saw2 : Saw} (hs2 : saw2 ≠ .us)
    (hus : usLoop hex saw2 rest = true) :
    (rest = [] ∧ hex = false) ∨
    ∃ (e : UInt8) (sg : Sign) (ds : Digits), rest = e :: (sg.bytes ++ ds.render) ∧
      lower e = (if hex then 0x70 else 0x65) ∧ ds.all isDecDig = true := by
  rcases readExp_inv hre with ⟨hr, hh, _⟩ | ⟨e, sg, d, more, hr, hle, hd, hall, _⟩
  · exact Or.inl ⟨hr, hh⟩
  · right
    have hef := expLetter_facts e (by cases hex <;> simp at hle <;> simp [hle])
    have hedig : isDigB hex e = false := by
      unfold isDigB
      cases hex with
      | false => simp [hef.2.2.1]
      | true => simp at hle; simp [hef.2.2.1, hef.2.2.2.1 hle]
    rw [hr, usLoopG_other hedig hef.1 hs2] at hus
    have hsign : ∀ hex, isDigB hex 0x2B = false ∧ isDigB hex 0x2D = false := by
      intro hex; cases hex <;> decide
    have hus' : usLoop hex .bang (d :: more) = true := by
      cases sg with
      | none => simpa [Sign.bytes] using hus
      | plus =>
        simp only [Sign.bytes, List.cons_append, List.nil_append] at hus
        rwa [usLoopG_other (hsign _).1 (by decide) (by decide)] at hus
      | minus =>
        simp only [Sign.bytes, List.cons_append, List.nil_append] at hus
        rwa [usLoopG_other (hsign _).2 (by decide) (by decide)] at hus
    obtain ⟨r3, t3, e3, hr3, _, hh3, hn3, _⟩ := usLoop_run hex (d :: more) .bang hus'
    simp only [reduceCtorEq, if_false, List.nil_append] at e3
    have ht3 : t3 = [] := by
      cases t3 with
      | nil => rfl
      | cons c t =>
        exfalso
        obtain ⟨n1, n2⟩ := hn3 c (by simp)
        have hc : c ∈ d :: more := by rw [e3]; simp
        rcases hall c hc with h | h
        · unfold isDigB at n1; simp [h] at n1
        · exact n2 h
    rw [ht3, List.append_nil] at e3
    have hdec : ∀ x ∈ r3, x.2.val < 10 := by
      intro x hx
      have hb := byte_mem_renderRest r3 x hx
      rw [← e3] at hb
      have h16 : x.2.val < 16 := by have := hr3 x hx; have := radixOf_le hex; omega
      obtain ⟨f1, _, _, _, _, _, _, _, f9⟩ := dig_facts x.2 h16
      rcases hall _ hb with h | h
      · cases Nat.lt_or_ge x.2.val 10 with
        | inl hlt => exact hlt
        | inr hge =>
          have := (f9 (by omega)).1
          rw [h] at this; exact absurd this (by simp)
      · exact absurd h f1
    cases r3 with
    | nil => simp [renderRest] at e3
    | cons x r3' =>
      obtain ⟨u, d3⟩ := x
      have hu : u = false := hh3 (by decide) (by decide) (u, d3) (by simp)
      subst hu
      refine ⟨e, sg, ⟨d3, r3'⟩, ?_, hle, ?_⟩
      · rw [hr, e3]; simp [renderRest, Digits.render]
      · simp only [Digits.all, isDecDig, Bool.and_eq_true, decide_eq_true_eq, List.all_eq_true]
        exact ⟨hdec (false, d3) (by simp), fun y hy => hdec y (by simp [hy])⟩

/-- the core of the inversion: the text after sign and base prefix -/
theorem read_core (sign : Sign) (hxo : Option Bool) {neg : Bool} {T s rest : Bytes} {st : MantSt} {l : FloatLit}
    (hm : mantLoop hxo.isSome st00 T = (st, rest)) (hsd : st.sawdigits = true)
    (hre : readExp neg hxo.isSome st rest s = some l)
    (hU : underscoreOK s = true → usLoop hxo.isSome (if hxo.isSome then .digit else .start) T = true) :
    ∃ g : GFloatLit, g.wf = true ∧ g.sign = sign ∧ (∃ usp, g.hex = hxo.map (fun up => (up, usp))) ∧
      (if g.usPfx then [0x5F] else []) ++ g.tailBytes = T := by
  have hs0 : (if hxo.isSome = true then Saw.digit else Saw.start) ≠ .us := by split <;> decide
  have hus := usLoop_of_read hxo.isSome hs0 hm hre hU
  obtain ⟨r1, r2, point, saw2, eT, hr1, hr2, hh1, hh2, hpt, hsawd, hs2, hus2⟩ := mant_shape hxo.isSome hs0 hm hus
  have hexp := exp_shape hxo.isSome hre hs2 hus2
  -- the exponent of the literal and its bytes
  obtain ⟨exp, hexpb, hexpd, hexph⟩ : ∃ exp : Option (Bool × Sign × Digits),
      (∀ g : GFloatLit, g.isHex = hxo.isSome → g.exp = exp → g.expBytes = rest) ∧
      (match exp with | some (_, _, e) => e.all isDecDig | none => true) = true ∧
      (hxo.isSome = true → exp.isSome = true) := by
    rcases hexp with ⟨hr, hh⟩ | ⟨e, sg, ds, hr, hle, hd⟩
    · exact ⟨none, fun g _ hg => by simp [GFloatLit.expBytes, hg, hr], rfl, fun h => by rw [hh] at h; exact absurd h (by simp)⟩
    · refine ⟨some (decide (e = 0x45 ∨ e = 0x50), sg, ds), ?_, hd, fun _ => rfl⟩
      intro g hg hge
      simp only [GFloatLit.expBytes, hge, hr, List.cons.injEq, and_true]
      unfold GFloatLit.expLetter
      rw [hg]
      obtain ⟨_, _, f3, f4, _⟩ := digB_facts e
      cases hx : hxo.isSome with
      | false =>
        rw [hx] at hle
        rcases f3 (by simpa using hle) with h | h <;> subst h <;> decide
      | true =>
        rw [hx] at hle
        rcases f4 (by simpa using hle) with h | h <;> subst h <;> decide
  let g : GFloatLit := ⟨sign, hxo.map (fun up => (up, headUs r1)), toOpt r1, point, toOpt r2, exp⟩
  have gh : g.isHex = hxo.isSome := by simp [g, GFloatLit.isHex]
  have gus : g.usPfx = headUs r1 := by
    cases hx : hxo with
    | none =>
      have : headUs r1 = false := hh1 (by simp [hx])
      simp [g, GFloatLit.usPfx, hx, this]
    | some up => cases hu : headUs r1 <;> simp [g, GFloatLit.usPfx, hx, hu]
  refine ⟨g, ?_, rfl, ⟨headUs r1, rfl⟩, ?_⟩
  · -- well-formedness
    simp only [GFloatLit.wf, Bool.and_eq_true, Bool.or_eq_true, Bool.not_eq_true']
    have hrad : g.radix = radixOf hxo.isSome := by simp [GFloatLit.radix, gh, radixOf]
    refine ⟨⟨⟨⟨⟨⟨?_, ?_⟩, hexpd⟩, ?_⟩, ?_⟩, ?_⟩, ?_⟩
    · rw [hrad]; exact optAll_toOpt hr1
    · rw [hrad]; exact optAll_toOpt hr2
    · show (toOpt r1).isSome = true ∨ (toOpt r2).isSome = true
      rw [toOpt_isSome, toOpt_isSome]
      rw [hsd] at hsawd
      simpa [Bool.or_eq_true] using hsawd.symm
    · show (toOpt r2).isSome = false ∨ point = true
      cases hp : point with
      | true => exact Or.inr rfl
      | false => left; rw [hpt hp]; rfl
    · show g.isHex = false ∨ exp.isSome = true
      rw [gh]
      cases hx : hxo.isSome with
      | false => exact Or.inl rfl
      | true => exact Or.inr (hexph hx)
    · cases hx : hxo with
      | none => simp [g, hx]
      | some up =>
        cases hu : headUs r1 with
        | false => simp [g, hx, hu]
        | true =>
          simp only [g, hx, hu, Option.map_some]
          cases r1 with
          | nil => simp [headUs] at hu
          | cons _ _ => simp [toOpt]
  · rw [gus, eT]
    have e1 := renderRest_toOpt r1
    have e2 := renderRest_toOpt r2
    rw [hh2] at e2
    simp only [Bool.false_eq_true, if_false, List.nil_append] at e2
    rw [e1, e2]
    simp only [GFloatLit.tailBytes, GFloatLit.mantBytes, hexpb g gh rfl, List.append_assoc]
    rfl

/-- `underscoreOK` after its sign stripping -/
def uokBody (body : Bytes) : Bool :=
  match body with
  | c0 :: c1 :: cs =>
    if c0 = 0x30 ∧ (lower c1 = 0x62 ∨ lower c1 = 0x6F ∨ lower c1 = 0x78) then
      usLoop (lower c1 = 0x78) .digit cs
    else usLoop false .start body
  | _ => usLoop false .start body

theorem underscoreOK_sign (sign : Sign) (body : Bytes)
    (hns : sign = .none → ∀ c ∈ body.head?, c ≠ 0x2D ∧ c ≠ 0x2B) :
    underscoreOK (sign.bytes ++ body) = uokBody body := by
  cases sign with
  | none =>
    cases body with
    | nil => simp [Sign.bytes, underscoreOK, uokBody]
    | cons c t =>
      obtain ⟨h1, h2⟩ := hns rfl c (by simp)
      simp only [Sign.bytes, List.nil_append, underscoreOK, h1, h2, or_self, if_false, uokBody]
      rfl
  | plus => simp only [Sign.bytes, List.cons_append, List.nil_append, underscoreOK, or_true, if_true, uokBody]; rfl
  | minus => simp only [Sign.bytes, List.cons_append, List.nil_append, underscoreOK, true_or, if_true, uokBody]; rfl

theorem pfxLetter_facts : ∀ c : UInt8, (lower c = 0x62 ∨ lower c = 0x6F ∨ lower c = 0x78) →
    c ≠ 0x5F ∧ c ≠ 0x2E ∧ isDec c = false ∧ lower c ≠ 0x65 := by
  apply forall_uint8; decide +kernel

theorem readBody_inv {neg : Bool} {body s : Bytes} {l : FloatLit} (sign : Sign) (hs : s = sign.bytes ++ body)
    (hns : sign = .none → ∀ c ∈ body.head?, c ≠ 0x2D ∧ c ≠ 0x2B)
    (h : readBody neg body s = some l) : ∃ g : GFloatLit, g.wf = true ∧ g.render = s := by
  have huok : underscoreOK s = uokBody body := by rw [hs]; exact underscoreOK_sign sign body hns
  unfold readBody at h
  simp only at h
  rcases hexPrefix_cases body with hx | ⟨c1, T, eb, hl, hx⟩
  · -- decimal
    rw [hx] at h
    simp only at h
    split at h
    · simp at h
    · rename_i hsd
      have hsd' : (mantLoop false st00 body).1.sawdigits = true := by simpa [st00] using hsd
      have hU : underscoreOK s = true → usLoop false .start body = true := by
        intro hu
        rw [huok] at hu
        unfold uokBody at hu
        split at hu
        · rename_i c0 c1 cs
          split at hu
          · rename_i hc
            exfalso
            obtain ⟨f1, f2, f3, f4⟩ := pfxLetter_facts c1 hc.2
            have hm : mantLoop false { sawdot := false, sawdigits := false, underscores := false, mant := 0, frac := 0 }
                (c0 :: c1 :: cs) = ({ sawdot := false, sawdigits := true, underscores := false, mant := 0 * 10 + (c0.toNat - 48), frac := 0 }, c1 :: cs) := by
              rw [mantLoop, hc.1]
              simp only [show ((0x30 : UInt8) = 0x5F) = False by decide, show ((0x30 : UInt8) = 0x2E) = False by decide,
                show isDec 0x30 = true by decide, if_false, if_true, Bool.false_eq_true]
              rw [mantLoop]
              simp [f1, f2, f3]
            rw [hm] at h
            simp only [readExp, Bool.false_eq_true, if_false, f4] at h
            exact absurd h (by simp)
          · exact hu
        · exact hu
      obtain ⟨g, hw, hsg, ⟨usp, hgh⟩, hT⟩ := read_core sign none (T := body) (s := s)
        (show mantLoop (none : Option Bool).isSome st00 body = (_, _) from Prod.ext rfl rfl) hsd' h
        (by simpa using hU)
      refine ⟨g, hw, ?_⟩
      simp only [Option.map_none] at hgh
      have hus : g.usPfx = false := by simp [GFloatLit.usPfx, hgh]
      rw [hus] at hT
      simp only [Bool.false_eq_true, if_false, List.nil_append] at hT
      rw [hs, GFloatLit.render, hsg, ← hT]
      simp [GFloatLit.pfx, hgh, GFloatLit.tailBytes]
  · -- hexadecimal
    rw [hx] at h
    simp only at h
    split at h
    · simp at h
    · rename_i hsd
      have hsd' : (mantLoop true st00 T).1.sawdigits = true := by simpa [st00] using hsd
      have hU : underscoreOK s = true → usLoop true .digit T = true := by
        intro hu
        rw [huok, eb] at hu
        simpa [uokBody, hl] using hu
      obtain ⟨g, hw, hsg, ⟨usp, hgh⟩, hT⟩ := read_core sign (some (decide (c1 = 0x58))) (T := T) (s := s)
        (show mantLoop (some (decide (c1 = 0x58))).isSome st00 T = (_, _) from Prod.ext rfl rfl) hsd' h
        (by simpa using hU)
      refine ⟨g, hw, ?_⟩
      simp only [Option.map_some] at hgh
      have hus : g.usPfx = usp := by cases usp <;> simp [GFloatLit.usPfx, hgh]
      rw [hus] at hT
      have hc1 : (if c1 = 0x58 then (0x58 : UInt8) else 0x78) = c1 := by
        rcases (digB_facts c1).2.2.2.2 hl with h' | h' <;> subst h' <;> decide
      rw [hs, GFloatLit.render, hsg, eb, ← hT]
      simp [GFloatLit.pfx, hgh, GFloatLit.tailBytes, hc1]

/-- Whatever `readFloat` accepts entirely is the rendering of a well-formed general float literal. -/
theorem readFloat_inv {s : Bytes} {l : FloatLit} (h : readFloat s = some l) :
    ∃ g : GFloatLit, g.wf = true ∧ g.render = s := by
  cases s with
  | nil => simp [readFloat] at h
  | cons c cs =>
    simp only [readFloat] at h
    by_cases h1 : c = 0x2D
    · subst h1
      simp only [true_or, if_true] at h
      exact readBody_inv (body := cs) .minus rfl (by simp) h
    · by_cases h2 : c = 0x2B
      · subst h2
        simp only [or_true, if_true] at h
        exact readBody_inv (body := cs) .plus rfl (by simp) h
      · simp only [h1, h2, or_self, if_false] at h
        exact readBody_inv (body := c :: cs) .none rfl (fun _ x hx => by
          simp only [List.head?_cons, Option.mem_def, Option.some.injEq] at hx
          rw [← hx]; exact ⟨h1, h2⟩) h

/-- `readFloat` accepts exactly the renderings of well-formed general float literals. -/
theorem readFloat_iff (s : Bytes) (l : FloatLit) :
    readFloat s = some l ↔ ∃ g : GFloatLit, g.wf = true ∧ g.render = s ∧ g.lit = l := by
  constructor
  · intro h
    obtain ⟨g, hw, hr⟩ := readFloat_inv h
    refine ⟨g, hw, hr, ?_⟩
    have := readFloat_glit g hw
    rw [hr, h] at this
    simpa using this.symm
  · rintro ⟨g, hw, hr, hv⟩
    rw [← hr, ← hv]; exact readFloat_glit g hw

end C05
