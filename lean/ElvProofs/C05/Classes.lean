/-
C05 round 2: rejection classes proved directly on the model — sign errors and
malformed fractions.
-/
import ElvProofs.C05.Classify
namespace C05
open Go

theorem ratSetFrac_none_of_den {a b : Bytes} (h : ∀ d, natScan b ≠ some (d, [])) : ratSetFrac a b = none := by
  unfold ratSetFrac
  split
  · rename_i n d hn hd; exact absurd hd (h d)
  · rfl

theorem ratSetFrac_none_of_num {a b : Bytes} (h : intSetString a = none) : ratSetFrac a b = none := by
  unfold ratSetFrac
  split
  · rename_i n d hn hd; rw [h] at hn; exact absurd hn (by simp)
  · rfl

theorem parseNum_frac {a b : Bytes} (ha : (0x2F : UInt8) ∉ a) (h : ratSetFrac a b = none) :
    parseNum (a ++ 0x2F :: b) = none := by
  unfold parseNum splitSlash
  rw [splitByte_append _ ha]
  simp only [h]

/-- a sign byte cannot start an unsigned integer -/
theorem natScan_sign (sg : UInt8) (hs : sg = 0x2B ∨ sg = 0x2D) (x : Bytes) (d : Nat) :
    natScan (sg :: x) ≠ some (d, []) := by
  rcases hs with hs | hs <;> subst hs <;>
    simp [natScan, scanLoop, scanFinish, show digitVal 0x2B = 63 by decide, show digitVal 0x2D = 63 by decide]

theorem intSetString_double_sign (a b : UInt8) (ha : a = 0x2B ∨ a = 0x2D) (hb : b = 0x2B ∨ b = 0x2D)
    (x : Bytes) : intSetString (a :: b :: x) = none := by
  apply intSetString_none_of_natScan
  have : (if a = 0x2D ∨ a = 0x2B then b :: x else a :: b :: x) = b :: x := by
    rcases ha with ha | ha <;> simp [ha]
  rw [this]
  exact natScan_sign b hb x

theorem readBody_sign (neg : Bool) (sg : UInt8) (hs : sg = 0x2B ∨ sg = 0x2D) (x s : Bytes) :
    readBody neg (sg :: x) s = none := by
  unfold readBody
  have hx : hexPrefix (sg :: x) = (false, sg :: x) := by
    rcases hexPrefix_cases (sg :: x) with h | ⟨c1, t, e, _, _⟩
    · exact h
    · simp only [List.cons.injEq] at e
      rcases hs with hs | hs <;> rw [hs] at e <;> exact absurd e.1 (by decide)
  simp only [hx]
  have : mantLoop false { sawdot := false, sawdigits := false, underscores := false, mant := 0, frac := 0 } (sg :: x) =
      ({ sawdot := false, sawdigits := false, underscores := false, mant := 0, frac := 0 }, sg :: x) := by
    rw [mantLoop]
    rcases hs with hs | hs <;> subst hs <;> simp [isDec]
  rw [this]
  simp

theorem parseFloat_double_sign (a b : UInt8) (ha : a = 0x2B ∨ a = 0x2D) (hb : b = 0x2B ∨ b = 0x2D)
    (x : Bytes) : parseFloat (a :: b :: x) = none := by
  have hsp : special (a :: b :: x) = none := by
    rcases ha with ha | ha <;> rcases hb with hb | hb <;> subst ha <;> subst hb <;>
      simp [special, specialInf, commonPrefixLen, infinityLit]
  unfold parseFloat
  rw [hsp]
  simp only [readFloat]
  have : (if a = 0x2D ∨ a = 0x2B then b :: x else a :: b :: x) = b :: x := by
    rcases ha with ha | ha <;> simp [ha]
  rw [this, readBody_sign _ b hb]

/-- two signs in front (`+-1`, `--1`, `-+1`, `++1`, with anything after them) -/
theorem parseNum_double_sign (a b : UInt8) (ha : a = 0x2B ∨ a = 0x2D) (hb : b = 0x2B ∨ b = 0x2D)
    (x : Bytes) : parseNum (a :: b :: x) = none := by
  have na : a ≠ 0x2F := by rcases ha with h | h <;> rw [h] <;> decide
  have nb : b ≠ 0x2F := by rcases hb with h | h <;> rw [h] <;> decide
  unfold parseNum splitSlash
  cases hsp : splitByte 0x2F (a :: b :: x) with
  | none =>
    simp only
    rw [intSetString_double_sign a b ha hb, parseFloat_double_sign a b ha hb]
  | some p =>
    obtain ⟨p1, p2⟩ := p
    obtain ⟨e, hn⟩ := splitByte_some hsp
    simp only
    -- the numerator starts with the two signs
    have : ∃ p', p1 = a :: b :: p' := by
      cases p1 with
      | nil => simp at e; exact absurd e.1 na
      | cons c1 r1 =>
        cases r1 with
        | nil => simp at e; exact absurd e.2.1 nb
        | cons c2 r2 => simp at e; exact ⟨r2, by rw [e.1, e.2.1]⟩
    obtain ⟨p', hp⟩ := this
    rw [ratSetFrac_none_of_num (by rw [hp]; exact intSetString_double_sign a b ha hb p')]

/-- a signed denominator: `a` slash `-b`, `a` slash `+b` -/
theorem parseNum_signed_den (a : Bytes) (ha : (0x2F : UInt8) ∉ a) (sg : UInt8) (hs : sg = 0x2B ∨ sg = 0x2D)
    (x : Bytes) : parseNum (a ++ 0x2F :: sg :: x) = none :=
  parseNum_frac ha (ratSetFrac_none_of_den (natScan_sign sg hs x))

/-- an empty denominator: `a` slash -/
theorem parseNum_empty_den (a : Bytes) (ha : (0x2F : UInt8) ∉ a) : parseNum (a ++ [0x2F]) = none :=
  parseNum_frac ha (ratSetFrac_none_of_den (by simp [natScan]))

/-- an empty numerator: slash `b` -/
theorem parseNum_empty_num (b : Bytes) : parseNum (0x2F :: b) = none := by
  have := parseNum_frac (a := []) (b := b) (by simp) (ratSetFrac_none_of_num (by simp [intSetString]))
  simpa using this

/-- a second slash -/
theorem parseNum_second_slash (a b : Bytes) (ha : (0x2F : UInt8) ∉ a) (hb : (0x2F : UInt8) ∈ b) :
    parseNum (a ++ 0x2F :: b) = none := by
  apply parseNum_frac ha
  apply ratSetFrac_none_of_den
  intro d hd
  have := natScan_all hd _ hb
  unfold ScanByte at this
  revert this; decide

/-- zero denominator in any integer syntax (0, 0x0, 0_0, 00) -/
theorem parseNum_zero_den (a : GInt) (b : GNat) (ha : a.wf = true) (hb : b.wf = true) (hz : b.value = 0) :
    parseNum (a.render ++ 0x2F :: b.render) = none := by
  apply parseNum_frac (slash_not_mem_gint a ha)
  simp [ratSetFrac, intSetString_gint a ha, natScan_gnat b hb, hz]

end C05
