/-
C05 round 2: the inverse direction of the nat.scan lemmas.  Whatever
`nat.scan(base 0)` / `Int.SetString(s, 0)` accept is the rendering of a
well-formed structured literal (`GNat` / `GInt` of Grammar.lean), and
conversely; the value is the literal's value.
-/
import ElvModel.C05.Grammar
import ElvProofs.C05.Lit
import ElvProofs.C05.Reject
namespace C05
open Go

/-- the digit a byte denotes (inverse of `Dig.byte` on alphanumerics) -/
def Dig.ofByte (c : UInt8) : Dig := ⟨digitVal c, decide (0x41 ≤ c ∧ c ≤ 0x5A)⟩

theorem ofByte_facts : ∀ c : UInt8, digitVal c < 63 →
    (Dig.ofByte c).byte = c ∧ (Dig.ofByte c).val = digitVal c ∧ (digitVal c = 0 → c = 0x30) := by
  apply forall_uint8; decide +kernel

theorem ofByte_byte {c : UInt8} (h : digitVal c < 63) : (Dig.ofByte c).byte = c := (ofByte_facts c h).1

/-! ### the scan loop, inverted -/

theorem scanLoop_invalSep_mono (b : Nat) : ∀ (s : Bytes) (st st' : ScanSt) (r : Bytes),
    scanLoop b st s = (st', r) → st.invalSep = true → st'.invalSep = true
  | [], st, st', r, h, hi => by
    simp only [scanLoop, Prod.mk.injEq] at h
    rw [← h.1]; exact hi
  | c :: cs, st, st', r, h, hi => by
    rw [scanLoop] at h
    by_cases h1 : c = 0x5F
    · simp only [h1, if_true] at h
      exact scanLoop_invalSep_mono b cs _ _ _ h (by simp [hi])
    · simp only [h1, if_false] at h
      by_cases h2 : b ≤ digitVal c
      · simp only [h2, if_true, Prod.mk.injEq] at h
        rw [← h.1]; exact hi
      · simp only [h2, if_false] at h
        exact scanLoop_invalSep_mono b cs _ _ _ h hi

theorem scanLoop_invalSep_mono' (b : Nat) (s : Bytes) (st : ScanSt) (hi : st.invalSep = true) :
    (scanLoop b st s).1.invalSep = true :=
  scanLoop_invalSep_mono b s st _ _ rfl hi

/-- If the loop consumed everything without a separator error, the text is
`(_? d)*` (with the pending `_` in front when the previous byte was one). -/
theorem scanLoop_inv (b : Nat) (hb : b ≤ 36) : ∀ (s : Bytes) (st st' : ScanSt),
    scanLoop b st s = (st', []) → st'.invalSep = false → st'.prev ≠ .us → st.prev ≠ .dot →
    ∃ rest : List (Bool × Dig),
      (if st.prev = .us then [0x5F] else []) ++ s = renderRest rest ∧
      (∀ x ∈ rest, x.2.val < b) ∧ st'.count = st.count + rest.length
  | [], st, st', h, _, hu, hd => by
    simp only [scanLoop, Prod.mk.injEq] at h
    have hp : st.prev = .digit := by
      rw [← h.1] at hu
      cases hq : st.prev <;> simp_all
    exact ⟨[], by simp [hp, renderRest], by simp, by rw [← h.1]; simp⟩
  | c :: cs, st, st', h, hi, hu, hd => by
    rw [scanLoop] at h
    by_cases h1 : c = 0x5F
    · simp only [h1, if_true] at h
      have hp : st.prev = .digit := by
        cases hq : st.prev with
        | dot => exact absurd hq hd
        | digit => rfl
        | us =>
          have := scanLoop_invalSep_mono b cs _ _ _ h (by simp [hq])
          rw [hi] at this; exact absurd this (by simp)
      obtain ⟨rest, e, hr, hc⟩ := scanLoop_inv b hb cs _ st' h hi hu (by simp)
      refine ⟨rest, ?_, hr, ?_⟩
      · rw [hp, h1]; simpa using e
      · simpa using hc
    · simp only [h1, if_false] at h
      by_cases h2 : b ≤ digitVal c
      · simp [h2] at h
      · simp only [h2, if_false] at h
        obtain ⟨rest, e, hr, hc⟩ := scanLoop_inv b hb cs _ st' h hi hu (by simp)
        simp only [reduceCtorEq, if_false, List.nil_append] at e
        have hv : digitVal c < 63 := by omega
        obtain ⟨f1, f2, _⟩ := ofByte_facts c hv
        refine ⟨(decide (st.prev = .us), Dig.ofByte c) :: rest, ?_, ?_, ?_⟩
        · by_cases hq : st.prev = .us
          · simp [hq, renderRest, f1, e]
          · simp [hq, renderRest, f1, e]
        · intro x hx
          rcases List.mem_cons.mp hx with e1 | e1
          · rw [e1]; simp only; rw [f2]; omega
          · exact hr x e1
        · have hc' : st'.count = st.count + 1 + rest.length := hc
          simp only [List.length_cons]
          omega

theorem scanFinish_some {o : Bool} {r : ScanSt × Bytes} {n : Nat} (h : scanFinish o r = some (n, [])) :
    r.1.invalSep = false ∧ r.1.prev ≠ .us ∧ r.2 = [] ∧ (o = false → r.1.count ≠ 0) := by
  have hr := scanFinish_rest h
  simp only [scanFinish] at h
  have sep : ∀ {st : ScanSt}, (st.invalSep || st.prev == .us) = false → st.invalSep = false ∧ st.prev ≠ .us := by
    intro st hs
    simp only [Bool.or_eq_false_iff, beq_eq_false_iff_ne] at hs
    exact ⟨hs.1, hs.2⟩
  split at h
  · split at h
    · split at h
      · simp at h
      · rename_i ho hs
        have := sep (by simpa using hs)
        exact ⟨this.1, this.2, hr, by intro e; simp [e] at ho⟩
    · simp at h
  · rename_i hc
    split at h
    · simp at h
    · rename_i hs
      have := sep (by simpa using hs)
      exact ⟨this.1, this.2, hr, fun _ => hc⟩

/-- the state the loops start from after a base prefix -/
def st0 : ScanSt := { prev := .digit, invalSep := false, count := 0, acc := 0 }

theorem scan_pfx_inv {b : Nat} (hb : b ≤ 36) {o : Bool} {t : Bytes} {n : Nat}
    (h : scanFinish o (scanLoop b st0 t) = some (n, [])) :
    ∃ rest : List (Bool × Dig), t = renderRest rest ∧ (∀ x ∈ rest, x.2.val < b) ∧ (o = false → rest ≠ []) := by
  obtain ⟨h1, h2, h3, h4⟩ := scanFinish_some h
  obtain ⟨rest, e, hr, hc⟩ := scanLoop_inv b hb t st0 _ (Prod.ext rfl h3) h1 h2 (by simp [st0])
  refine ⟨rest, by simpa [st0] using e, hr, ?_⟩
  intro ho hn
  apply h4 ho
  rw [hc, hn]; rfl

theorem natLit_based_wf (base : Base) (up us : Bool) (d : Dig) (r : List (Bool × Dig))
    (hb : base ≠ .dec ∨ d.val ≠ 0) (h : ∀ x ∈ (us, d) :: r, x.2.val < base.radix) :
    (⟨base, up, us, ⟨d, r⟩⟩ : NatLit).wf = true := by
  have h1 : d.val < base.radix := h (us, d) (by simp)
  have h2 : ∀ x ∈ r, x.2.val < base.radix := fun x hx => h x (by simp [hx])
  simp only [NatLit.wf, Digits.all, Bool.and_eq_true, decide_eq_true_eq, List.all_eq_true, Bool.or_eq_true,
    bne_iff_ne, ne_eq]
  exact ⟨⟨h1, h2⟩, hb.elim Or.inl (fun h => Or.inr (Or.inl h))⟩

/-- Whatever `nat.scan(base 0)` accepts entirely is the rendering of a well-formed `GNat`. -/
theorem natScan_inv {s : Bytes} {n : Nat} (h : natScan s = some (n, [])) :
    ∃ g : GNat, g.wf = true ∧ g.render = s := by
  unfold natScan at h
  cases s with
  | nil => simp at h
  | cons c rest =>
    simp only at h
    by_cases hc : c = 0x30
    · simp only [hc, if_true] at h
      cases rest with
      | nil =>
        exact ⟨.lit ⟨.dec, false, false, ⟨⟨0, false⟩, []⟩⟩, by decide, by rw [hc]; decide⟩
      | cons c1 cs =>
        simp only at h
        have based : ∀ (base : Base) (up : Bool), base ≠ .dec → base.radix ≤ 36 →
            [0x30, c1] = base.pfx up →
            scanFinish false (scanLoop base.radix st0 cs) = some (n, []) →
            ∃ g : GNat, g.wf = true ∧ g.render = c :: c1 :: cs := by
          intro base up hne hr36 hp hh
          obtain ⟨r, e, hr, hnn⟩ := scan_pfx_inv hr36 hh
          cases r with
          | nil => exact absurd rfl (hnn rfl)
          | cons x r =>
            obtain ⟨us, d⟩ := x
            refine ⟨.lit ⟨base, up, us, ⟨d, r⟩⟩, natLit_based_wf base up us d r (Or.inl hne) hr, ?_⟩
            simp only [GNat.render, NatLit.render, ← hp, hc, e, renderRest, Digits.render]
            cases us <;> simp [hne]
        split at h
        · rename_i hp
          rcases hp with hp | hp
          · exact based .bin false (by simp) (by simp [Base.radix]) (by simp [Base.pfx, hp]) h
          · exact based .bin true (by simp) (by simp [Base.radix]) (by simp [Base.pfx, hp]) h
        · split at h
          · rename_i hp
            rcases hp with hp | hp
            · exact based .oct false (by simp) (by simp [Base.radix]) (by simp [Base.pfx, hp]) h
            · exact based .oct true (by simp) (by simp [Base.radix]) (by simp [Base.pfx, hp]) h
          · split at h
            · rename_i hp
              rcases hp with hp | hp
              · exact based .hex false (by simp) (by simp [Base.radix]) (by simp [Base.pfx, hp]) h
              · exact based .hex true (by simp) (by simp [Base.radix]) (by simp [Base.pfx, hp]) h
            · -- legacy octal
              obtain ⟨h1, h2, h3, _⟩ := scanFinish_some h
              obtain ⟨r, e, hr, hcnt⟩ := scanLoop_inv 8 (by omega) (c1 :: cs) st0 _ (Prod.ext rfl h3) h1 h2 (by simp [st0])
              simp only [st0, reduceCtorEq, if_false, List.nil_append] at e
              refine ⟨.oct0 r, ?_, by simp [GNat.render, hc, e]⟩
              simp only [GNat.wf, Bool.and_eq_true, Bool.not_eq_true', List.all_eq_true, decide_eq_true_eq]
              refine ⟨?_, hr⟩
              cases r with
              | nil => simp [renderRest] at e
              | cons _ _ => rfl
    · simp only [hc, if_false] at h
      obtain ⟨h1, h2, h3, _⟩ := scanFinish_some h
      have h3' := h3
      rw [scanLoop] at h3'
      by_cases hu : c = 0x5F
      · rw [scanLoop] at h1
        simp only [hu, if_true] at h1
        rw [scanLoop_invalSep_mono' _ _ _ (by decide)] at h1
        exact absurd h1 (by simp)
      · simp only [hu, if_false] at h3'
        by_cases hd : 10 ≤ digitVal c
        · simp [hd] at h3'
        · simp only [hd, if_false] at h3'
          rw [scanLoop] at h1 h2
          simp only [hu, hd, if_false] at h1 h2
          obtain ⟨r, e, hr, _⟩ := scanLoop_inv 10 (by omega) rest _ _ (Prod.ext rfl h3') h1 h2 (by simp)
          simp only [reduceCtorEq, if_false, List.nil_append] at e
          obtain ⟨f1, f2, f3⟩ := ofByte_facts c (by omega)
          refine ⟨.lit ⟨.dec, false, false, ⟨Dig.ofByte c, r⟩⟩, ?_, ?_⟩
          · refine natLit_based_wf .dec false false _ r (Or.inr ?_) ?_
            · rw [f2]; intro hz; exact hc (f3 hz)
            · intro x hx
              rcases List.mem_cons.mp hx with e1 | e1
              · rw [e1]; show (Dig.ofByte c).val < 10; rw [f2]; omega
              · exact hr x e1
          · simp [GNat.render, NatLit.render, Base.pfx, Digits.render, f1, e]

/-! ### forward direction for the legacy octal form -/

theorem renderRest_head_oct : ∀ (r : List (Bool × Dig)), r ≠ [] → (∀ x ∈ r, x.2.val < 8) →
    ∃ c1 cs, renderRest r = c1 :: cs ∧ ¬ (c1 = 0x62 ∨ c1 = 0x42) ∧ ¬ (c1 = 0x6F ∨ c1 = 0x4F) ∧
      ¬ (c1 = 0x78 ∨ c1 = 0x58)
  | [], h, _ => absurd rfl h
  | (us, d) :: r, _, h => by
    have hd : d.val < 8 := h (us, d) (by simp)
    have key : ∀ v : Fin 8, ∀ up : Bool, ¬ ((Dig.byte ⟨v.val, up⟩ = 0x62 ∨ Dig.byte ⟨v.val, up⟩ = 0x42)) ∧
        ¬ ((Dig.byte ⟨v.val, up⟩ = 0x6F ∨ Dig.byte ⟨v.val, up⟩ = 0x4F)) ∧
        ¬ ((Dig.byte ⟨v.val, up⟩ = 0x78 ∨ Dig.byte ⟨v.val, up⟩ = 0x58)) := by decide
    cases us with
    | true => exact ⟨0x5F, d.byte :: renderRest r, by simp [renderRest], by decide, by decide, by decide⟩
    | false =>
      obtain ⟨v, up⟩ := d
      exact ⟨Dig.byte ⟨v, up⟩, renderRest r, by simp [renderRest], key ⟨v, hd⟩ up⟩

theorem natScan_gnat (g : GNat) (h : g.wf = true) : natScan g.render = some (g.value, []) := by
  cases g with
  | lit l => exact natScan_natLit l h
  | oct0 r =>
    simp only [GNat.wf, Bool.and_eq_true, Bool.not_eq_true', List.all_eq_true, decide_eq_true_eq] at h
    obtain ⟨hne, hr⟩ := h
    have hne' : r ≠ [] := by intro e; simp [e] at hne
    obtain ⟨c1, cs, e, n1, n2, n3⟩ := renderRest_head_oct r hne' hr
    have key := scanLoop_renderRest 8 (by omega) [] r st0 rfl hr
    simp only [List.append_nil] at key
    simp only [GNat.render, GNat.value, natScan, e, if_true, n1, n2, n3, if_false]
    rw [← e, show ({ prev := .digit, invalSep := false, count := 0, acc := 0 } : ScanSt) = st0 from rfl, key]
    have : r.length ≠ 0 := by
      cases r with
      | nil => exact absurd rfl hne'
      | cons _ _ => simp
    simp [scanLoop, scanFinish, st0, this]

/-- `nat.scan(base 0)` accepts exactly the renderings of well-formed `GNat`s, with their value. -/
theorem natScan_iff (s : Bytes) (n : Nat) :
    natScan s = some (n, []) ↔ ∃ g : GNat, g.wf = true ∧ g.render = s ∧ g.value = n := by
  constructor
  · intro h
    obtain ⟨g, hw, hr⟩ := natScan_inv h
    refine ⟨g, hw, hr, ?_⟩
    have := natScan_gnat g hw
    rw [hr, h] at this
    simpa using this.symm
  · rintro ⟨g, hw, hr, hv⟩
    rw [← hr, ← hv]; exact natScan_gnat g hw

theorem gnat_render_head (g : GNat) (h : g.wf = true) :
    ∃ c cs, g.render = c :: cs ∧ c ≠ 0x2D ∧ c ≠ 0x2B := by
  cases g with
  | lit l => exact natLit_render_head l h
  | oct0 r => exact ⟨0x30, _, rfl, by decide, by decide⟩

theorem intSetString_gint (l : GInt) (h : l.wf = true) : intSetString l.render = some l.value := by
  obtain ⟨sign, mag⟩ := l
  have hs := natScan_gnat mag h
  cases sign with
  | none =>
    obtain ⟨c, cs, e, h1, h2⟩ := gnat_render_head mag h
    simp only [GInt.render, Sign.bytes, List.nil_append, GInt.value, Sign.isNeg]
    rw [e] at hs ⊢
    simp [intSetString, h1, h2, hs]
  | plus => simp [GInt.render, Sign.bytes, GInt.value, Sign.isNeg, intSetString, hs]
  | minus => simp [GInt.render, Sign.bytes, GInt.value, Sign.isNeg, intSetString, hs]

/-- `Int.SetString(s, 0)` accepts exactly the renderings of well-formed `GInt`s. -/
theorem intSetString_inv {s : Bytes} {z : Int} (h : intSetString s = some z) :
    ∃ g : GInt, g.wf = true ∧ g.render = s := by
  cases s with
  | nil => simp [intSetString] at h
  | cons c cs =>
    simp only [intSetString] at h
    split at h
    · rename_i n hn
      by_cases hs : c = 0x2D ∨ c = 0x2B
      · simp only [hs, if_true] at hn
        obtain ⟨g, hw, hr⟩ := natScan_inv hn
        rcases hs with hs | hs
        · exact ⟨⟨.minus, g⟩, hw, by simp [GInt.render, Sign.bytes, hr, hs]⟩
        · exact ⟨⟨.plus, g⟩, hw, by simp [GInt.render, Sign.bytes, hr, hs]⟩
      · simp only [hs, if_false] at hn
        obtain ⟨g, hw, hr⟩ := natScan_inv hn
        exact ⟨⟨.none, g⟩, hw, by simp [GInt.render, Sign.bytes, hr]⟩
    · simp at h

theorem intSetString_iff (s : Bytes) (z : Int) :
    intSetString s = some z ↔ ∃ g : GInt, g.wf = true ∧ g.render = s ∧ g.value = z := by
  constructor
  · intro h
    obtain ⟨g, hw, hr⟩ := intSetString_inv h
    refine ⟨g, hw, hr, ?_⟩
    have := intSetString_gint g hw
    rw [hr, h] at this
    simpa using this.symm
  · rintro ⟨g, hw, hr, hv⟩
    rw [← hr, ← hv]; exact intSetString_gint g hw

end C05
