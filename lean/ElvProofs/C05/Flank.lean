/-
C05 round 2: a rejection class derived from the characterisation — in every
accepted string each underscore stands between two alphanumeric bytes.
-/
import ElvProofs.C05.Classify
namespace C05
open Go

/-- `0-9 a-z A-Z` -/
def isAlnum (c : UInt8) : Bool := decide (digitVal c < 63)

/-- does the text go on with an alphanumeric byte? -/
def nextAlnum : Bytes → Bool
  | d :: _ => isAlnum d
  | [] => false

/-- Every underscore of the text stands between two alphanumeric bytes
(`p`: the byte before the text was alphanumeric). -/
def flank : Bool → Bytes → Bool
  | _, [] => true
  | p, c :: cs => if c = 0x5F then p && nextAlnum cs && flank false cs else flank (isAlnum c) cs

theorem flank_cons_ne {p : Bool} {c : UInt8} {t : Bytes} (h : c ≠ 0x5F) :
    flank p (c :: t) = flank (isAlnum c) t := by
  simp [flank, h]

theorem dig_alnum (d : Dig) (h : d.val < 16) : isAlnum d.byte = true ∧ d.byte ≠ 0x5F := by
  refine ⟨?_, (dig_facts d h).1⟩
  unfold isAlnum
  rw [dig_digitVal d h]
  simp; omega

theorem flank_dig {p : Bool} {d : Dig} {t : Bytes} (h : d.val < 16) : flank p (d.byte :: t) = flank true t := by
  obtain ⟨h1, h2⟩ := dig_alnum d h
  rw [flank_cons_ne h2, h1]

theorem flank_renderRest : ∀ (r : List (Bool × Dig)) (t : Bytes), (∀ x ∈ r, x.2.val < 16) →
    flank true (renderRest r ++ t) = flank true t
  | [], t, _ => by simp [renderRest]
  | (u, d) :: r, t, h => by
    have hd := h (u, d) (by simp)
    have ih := flank_renderRest r t (fun x hx => h x (by simp [hx]))
    obtain ⟨h1, _⟩ := dig_alnum d hd
    cases u with
    | true =>
      simp only [renderRest, if_true, List.cons_append, List.nil_append]
      rw [flank]
      simp only [if_true, nextAlnum, h1, Bool.true_and]
      rw [flank_dig hd, ih]
    | false =>
      simp only [renderRest, Bool.false_eq_true, if_false, List.cons_append, List.nil_append]
      rw [flank_dig hd, ih]

theorem flank_digits (p : Bool) (ds : Digits) (t : Bytes) (h1 : ds.first.val < 16)
    (h2 : ∀ x ∈ ds.rest, x.2.val < 16) : flank p (ds.render ++ t) = flank true t := by
  simp only [Digits.render, List.cons_append]
  rw [flank_dig h1, flank_renderRest _ _ h2]

theorem optAll_lt16 {b : Nat} (hb : b ≤ 16) {o : Option Digits} (h : optAll (fun d => decide (d.val < b)) o = true) :
    ∀ ds, o = some ds → ds.first.val < 16 ∧ ∀ x ∈ ds.rest, x.2.val < 16 := by
  intro ds e
  subst e
  simp only [optAll, Digits.all, Bool.and_eq_true, decide_eq_true_eq, List.all_eq_true] at h
  exact ⟨by omega, fun x hx => by have := h.2 x hx; omega⟩

theorem flank_opt {b : Nat} (hb : b ≤ 16) (p : Bool) (o : Option Digits) (t : Bytes)
    (h : optAll (fun d => decide (d.val < b)) o = true) :
    flank p (optRender o ++ t) = flank (o.isSome || p) t := by
  cases o with
  | none => simp [optRender]
  | some ds =>
    obtain ⟨h1, h2⟩ := optAll_lt16 hb h ds rfl
    simp only [optRender, Option.isSome_some, Bool.true_or]
    exact flank_digits p ds t h1 h2

theorem flank_gnat (p : Bool) (g : GNat) (t : Bytes) (h : g.wf = true) :
    flank p (g.render ++ t) = flank true t := by
  cases g with
  | oct0 r =>
    simp only [GNat.wf, Bool.and_eq_true, List.all_eq_true, decide_eq_true_eq] at h
    simp only [GNat.render, List.cons_append]
    rw [flank_cons_ne (by decide), show isAlnum 0x30 = true by decide]
    exact flank_renderRest r t (fun x hx => by have := h.2 x hx; omega)
  | lit l =>
    obtain ⟨h1, h2⟩ := natLit_lt16 l h
    obtain ⟨base, up, usp, ⟨first, rest⟩⟩ := l
    simp only at h1 h2
    have based : ∀ X : UInt8, X ≠ 0x5F → isAlnum X = true →
        flank p ([0x30, X] ++ (if usp = true then [0x5F] else []) ++ Digits.render ⟨first, rest⟩ ++ t) = flank true t := by
      intro X hX hA
      simp only [List.cons_append, List.nil_append]
      rw [flank_cons_ne (by decide), flank_cons_ne hX, hA]
      cases usp with
      | true =>
        have := flank_renderRest ((true, first) :: rest) t (by
          intro x hx
          rcases List.mem_cons.mp hx with e | e
          · rw [e]; exact h1
          · exact h2 x e)
        simpa [renderRest, Digits.render] using this
      | false => simpa using flank_digits true ⟨first, rest⟩ t h1 h2
    cases base with
    | dec =>
      simp only [GNat.render, NatLit.render, Base.pfx, bne_self_eq_false, Bool.and_false, Bool.false_eq_true,
        if_false, List.nil_append]
      exact flank_digits p ⟨first, rest⟩ t h1 h2
    | hex =>
      have := based (if up = true then 0x58 else 0x78) (by cases up <;> decide) (by cases up <;> decide)
      simpa [GNat.render, NatLit.render, Base.pfx] using this
    | oct =>
      have := based (if up = true then 0x4F else 0x6F) (by cases up <;> decide) (by cases up <;> decide)
      simpa [GNat.render, NatLit.render, Base.pfx] using this
    | bin =>
      have := based (if up = true then 0x42 else 0x62) (by cases up <;> decide) (by cases up <;> decide)
      simpa [GNat.render, NatLit.render, Base.pfx] using this

theorem flank_sign (p : Bool) (sg : Sign) (t : Bytes) (h : ∀ q, flank q t = flank false t) :
    flank p (sg.bytes ++ t) = flank false t := by
  cases sg with
  | none => simpa [Sign.bytes] using h p
  | plus =>
    simp only [Sign.bytes, List.cons_append, List.nil_append]
    rw [flank_cons_ne (by decide)]; exact h _
  | minus =>
    simp only [Sign.bytes, List.cons_append, List.nil_append]
    rw [flank_cons_ne (by decide)]; exact h _

theorem flank_gint (p : Bool) (g : GInt) (t : Bytes) (h : g.wf = true) :
    flank p (g.render ++ t) = flank true t := by
  obtain ⟨sg, mag⟩ := g
  simp only [GInt.render, List.append_assoc]
  rw [flank_sign p sg _ (fun q => by rw [flank_gnat q mag t h, flank_gnat false mag t h]), flank_gnat false mag t h]

theorem flank_no_us : ∀ (s : Bytes) (p : Bool), (0x5F : UInt8) ∉ s → flank p s = true
  | [], _, _ => rfl
  | c :: cs, p, h => by
    rw [flank_cons_ne (fun e => h (by simp [e]))]
    exact flank_no_us cs _ (fun e => h (by simp [e]))

theorem special_no_us {s : Bytes} {b : Nat} (h : specialValue s = some b) : (0x5F : UInt8) ∉ s := by
  intro hm
  have hm' : (0x5F : UInt8) ∈ s.map lowerAscii := by
    have := List.mem_map_of_mem (f := lowerAscii) hm
    simpa [show lowerAscii 0x5F = 0x5F by decide] using this
  rcases specialValue_cases h with e | e | e | e | e | e | e <;> rw [e] at hm' <;>
    exact absurd hm' (by decide)

theorem flank_gfloat (l : GFloatLit) (h : l.wf = true) : flank false l.render = true := by
  have hp := gparts_of_wf l h
  have hr16 := radixOf_le l.isHex
  -- the exponent part
  have hexp : ∀ q, flank q l.expBytes = true := by
    intro q
    cases hx : l.exp with
    | none => simp [GFloatLit.expBytes, hx, flank]
    | some x =>
      obtain ⟨up, sg, e⟩ := x
      obtain ⟨e1, e2⟩ := digits_dec_of_all (hp.exp up sg e hx)
      have hl : l.expLetter up ≠ 0x5F ∧ isAlnum (l.expLetter up) = true := by
        unfold GFloatLit.expLetter; cases l.isHex <;> cases up <;> decide
      simp only [GFloatLit.expBytes, hx]
      rw [flank_cons_ne hl.1, hl.2]
      have hd : ∀ q, flank q e.render = true := by
        intro q
        have := flank_digits q e [] (by omega) (fun x hx => by have := e2 x hx; omega)
        simpa [flank] using this
      rw [flank_sign true sg _ (fun q => by rw [hd, hd]), hd]
  -- mantissa and exponent, after any prefix
  have hmant : ∀ q, flank q (l.mantBytes ++ l.expBytes) = true := by
    intro q
    simp only [GFloatLit.mantBytes, List.append_assoc]
    rw [flank_opt hr16 _ _ _ hp.int]
    by_cases hpt : l.point = true
    · simp only [hpt, if_true, List.cons_append, List.nil_append]
      rw [flank_cons_ne (by decide), flank_opt hr16 _ _ _ hp.frac]
      exact hexp _
    · have hfn : l.frac = none := by
        cases hf : l.frac with
        | none => rfl
        | some f => exact absurd (hp.point (by simp [hf])) hpt
      have hpf : l.point = false := by simpa using hpt
      simp only [hpf, Bool.false_eq_true, if_false, List.nil_append, hfn, optRender]
      exact hexp _
  rw [GFloatLit.render, flank_sign false l.sign _ (fun q => ?_)]
  all_goals
    cases hh : l.hex with
    | none => simp only [GFloatLit.pfx, hh, List.nil_append]; first | exact hmant _ | rw [hmant, hmant]
    | some x =>
      obtain ⟨up, us⟩ := x
      have hX : (if up = true then (0x58 : UInt8) else 0x78) ≠ 0x5F ∧ isAlnum (if up = true then (0x58 : UInt8) else 0x78) = true := by
        cases up <;> decide
      have key : ∀ q, flank q (l.pfx ++ (l.mantBytes ++ l.expBytes)) = true := by
        intro q
        simp only [GFloatLit.pfx, hh, List.cons_append, List.nil_append, List.append_assoc]
        rw [flank_cons_ne (by decide), flank_cons_ne hX.1, hX.2]
        cases us with
        | false => simpa using hmant true
        | true =>
          have hi := hp.usint up hh
          obtain ⟨ds, hds⟩ := Option.isSome_iff_exists.mp hi
          obtain ⟨d1, d2⟩ := optAll_lt16 hr16 hp.int ds hds
          have hm := hmant true
          have e0 : optRender (some ds) = ds.first.byte :: renderRest ds.rest := rfl
          simp only [GFloatLit.mantBytes, hds, List.append_assoc] at hm ⊢
          rw [e0] at hm ⊢
          rw [List.cons_append, flank_dig d1, flank_renderRest _ _ d2] at hm
          have := flank_renderRest ((true, ds.first) :: ds.rest) ((if l.point = true then [0x2E] else []) ++ (optRender l.frac ++ l.expBytes)) (by
            intro x hx
            rcases List.mem_cons.mp hx with e | e
            · rw [e]; exact d1
            · exact d2 x e)
          simp only [renderRest, if_true, List.cons_append, List.nil_append, List.append_assoc] at this
          simp only [if_true, List.cons_append, List.nil_append]
          rw [this]; exact hm
      first | exact key _ | rw [key, key]

/-- in every accepted string each underscore stands between two alphanumeric bytes -/
theorem flank_of_isNumber {s : Bytes} (h : IsNumber s) : flank false s = true := by
  rcases h with ⟨g, hw, hr⟩ | ⟨g, hw, hr⟩ | ⟨g, hw, hr, _⟩ | h
  · have := flank_gint false g [] hw
    rw [List.append_nil, hr] at this
    rw [this]; rfl
  · simp only [GRat.wf, Bool.and_eq_true] at hw
    rw [← hr, GRat.render, flank_gint false g.num _ hw.1.1, flank_cons_ne (by decide)]
    have := flank_gnat (isAlnum 0x2F) g.den [] hw.1.2
    rw [List.append_nil] at this
    rw [this]; rfl
  · rw [← hr]; exact flank_gfloat g hw
  · obtain ⟨b, hb⟩ := Option.isSome_iff_exists.mp h
    exact flank_no_us s _ (special_no_us hb)

theorem flank_trailing : ∀ (x : Bytes) (p : Bool), flank p (x ++ [0x5F]) = false
  | [], p => by simp [flank, nextAlnum]
  | c :: cs, p => by
    have ih := flank_trailing cs
    simp only [List.cons_append, flank]
    split
    · simp [ih]
    · exact ih _

theorem flank_double : ∀ (x y : Bytes) (p : Bool), flank p (x ++ 0x5F :: 0x5F :: y) = false
  | [], y, p => by simp [flank, nextAlnum, isAlnum]
  | c :: cs, y, p => by
    have ih := flank_double cs y
    simp only [List.cons_append, flank]
    split
    · simp [ih]
    · exact ih _

end C05
