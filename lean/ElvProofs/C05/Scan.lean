/-
C05 helper lemmas: bytes, nat.scan loop, decimal printer.
-/
import ElvModel.C05.Model
import ElvModel.C05.Spec
namespace C05
open Go

/-! ### bytes -/

/-- a decimal digit byte -/
def IsDecByte (c : UInt8) : Prop := 48 ≤ c.toNat ∧ c.toNat ≤ 57

theorem ne_of_toNat_ne {a b : UInt8} (h : a.toNat ≠ b.toNat) : a ≠ b := fun e => h (e ▸ rfl)

theorem digitVal_dec {c : UInt8} (h : IsDecByte c) : digitVal c = c.toNat - 48 := by
  unfold digitVal IsDecByte at *; simp [h]

theorem IsDecByte.ne_us {c : UInt8} (h : IsDecByte c) : c ≠ 0x5F := by
  apply ne_of_toNat_ne; unfold IsDecByte at h; simp; omega

theorem ofNat_toNat_small {n : Nat} (h : n < 256) : (UInt8.ofNat n).toNat = n := by
  simp [UInt8.toNat_ofNat']; omega

theorem isDecByte_ofNat {d : Nat} (h : d < 10) : IsDecByte (UInt8.ofNat (48 + d)) := by
  unfold IsDecByte; rw [ofNat_toNat_small (by omega)]; omega


/-! ### the nat.scan loop over digits -/

/-- one digit step of the loop -/
def stepDigit (b : Nat) (st : ScanSt) (c : UInt8) : ScanSt :=
  { st with prev := .digit, count := st.count + 1, acc := st.acc * b + digitVal c }

theorem scanLoop_digit {b : Nat} {st : ScanSt} {c : UInt8} {cs : Bytes}
    (h1 : c ≠ 0x5F) (h2 : digitVal c < b) :
    scanLoop b st (c :: cs) = scanLoop b (stepDigit b st c) cs := by
  simp [scanLoop, h1, Nat.not_le.mpr h2, stepDigit]

theorem scanLoop_us {b : Nat} {st : ScanSt} {cs : Bytes} :
    scanLoop b st (0x5F :: cs) =
      scanLoop b { st with invalSep := st.invalSep || (st.prev != .digit), prev := .us } cs := by
  simp [scanLoop]

theorem scanLoop_digits_append (b : Nat) : ∀ (ds : Bytes) (st : ScanSt) (rest : Bytes),
    (∀ c ∈ ds, c ≠ 0x5F ∧ digitVal c < b) →
    scanLoop b st (ds ++ rest) = scanLoop b (ds.foldl (stepDigit b) st) rest
  | [], st, rest, _ => rfl
  | c :: cs, st, rest, h => by
    have hc := h c (by simp)
    rw [List.cons_append, scanLoop_digit hc.1 hc.2, List.foldl_cons]
    exact scanLoop_digits_append b cs _ rest (fun x hx => h x (by simp [hx]))

theorem scanLoop_digits (b : Nat) (ds : Bytes) (st : ScanSt)
    (h : ∀ c ∈ ds, c ≠ 0x5F ∧ digitVal c < b) :
    scanLoop b st ds = (ds.foldl (stepDigit b) st, []) := by
  have := scanLoop_digits_append b ds st [] h
  simpa [scanLoop] using this

/-- value of a digit string appended to an accumulator -/
def digitsVal (b : Nat) (a : Nat) (ds : Bytes) : Nat := ds.foldl (fun a c => a * b + digitVal c) a

theorem foldl_step_invalSep (b : Nat) : ∀ (ds : Bytes) (st : ScanSt),
    (ds.foldl (stepDigit b) st).invalSep = st.invalSep
  | [], _ => rfl
  | c :: cs, st => by rw [List.foldl_cons, foldl_step_invalSep b cs]; rfl

theorem foldl_step_count (b : Nat) : ∀ (ds : Bytes) (st : ScanSt),
    (ds.foldl (stepDigit b) st).count = st.count + ds.length
  | [], _ => rfl
  | c :: cs, st => by rw [List.foldl_cons, foldl_step_count b cs]; simp [stepDigit]; omega

theorem foldl_step_acc (b : Nat) : ∀ (ds : Bytes) (st : ScanSt),
    (ds.foldl (stepDigit b) st).acc = digitsVal b st.acc ds
  | [], _ => rfl
  | c :: cs, st => by rw [List.foldl_cons, foldl_step_acc b cs]; simp [stepDigit, digitsVal]

theorem foldl_step_prev (b : Nat) : ∀ (ds : Bytes) (st : ScanSt), ds ≠ [] →
    (ds.foldl (stepDigit b) st).prev = .digit
  | [c], st, _ => rfl
  | c :: d :: cs, st, _ => by rw [List.foldl_cons]; exact foldl_step_prev b (d :: cs) _ (by simp)

theorem digitsVal_append (b a : Nat) (xs ys : Bytes) :
    digitsVal b a (xs ++ ys) = digitsVal b (digitsVal b a xs) ys := by
  simp [digitsVal, List.foldl_append]

/-! ### the decimal printer -/

theorem natToDec_lt {n : Nat} (h : n < 10) : natToDec n = [UInt8.ofNat (48 + n)] := by
  rw [natToDec]; simp [h]

theorem natToDec_ge {n : Nat} (h : ¬ n < 10) :
    natToDec n = natToDec (n / 10) ++ [UInt8.ofNat (48 + n % 10)] := by
  rw [natToDec]; simp [h]

theorem natToDec_dec (n : Nat) : ∀ c ∈ natToDec n, IsDecByte c := by
  induction n using natToDec.induct with
  | case1 n h =>
    rw [natToDec_lt h]; intro c hc
    rw [List.mem_singleton.mp hc]; exact isDecByte_ofNat h
  | case2 n h ih =>
    rw [natToDec_ge h]; intro c hc
    rcases List.mem_append.mp hc with hc | hc
    · exact ih c hc
    · rw [List.mem_singleton.mp hc]; exact isDecByte_ofNat (Nat.mod_lt _ (by omega))

theorem natToDec_ne_nil (n : Nat) : natToDec n ≠ [] := by
  by_cases h : n < 10
  · rw [natToDec_lt h]; simp
  · rw [natToDec_ge h]; simp

theorem digitVal_ofNat {d : Nat} (h : d < 10) : digitVal (UInt8.ofNat (48 + d)) = d := by
  rw [digitVal_dec (isDecByte_ofNat h), ofNat_toNat_small (by omega)]; omega

theorem natToDec_val (n : Nat) : digitsVal 10 0 (natToDec n) = n := by
  induction n using natToDec.induct with
  | case1 n h =>
    rw [natToDec_lt h]
    show 0 * 10 + digitVal (UInt8.ofNat (48 + n)) = n
    rw [digitVal_ofNat h]; omega
  | case2 n h ih =>
    rw [natToDec_ge h, digitsVal_append, ih]
    show n / 10 * 10 + digitVal (UInt8.ofNat (48 + n % 10)) = n
    rw [digitVal_ofNat (Nat.mod_lt n (by omega : 10 > 0))]
    omega

/-- the first byte of the decimal form of a positive number is not `'0'` -/
theorem natToDec_head (n : Nat) (hn : 0 < n) : ∃ c cs, natToDec n = c :: cs ∧ IsDecByte c ∧ c ≠ 0x30 := by
  induction n using natToDec.induct with
  | case1 n h =>
    refine ⟨_, [], natToDec_lt h, isDecByte_ofNat h, ?_⟩
    apply ne_of_toNat_ne; rw [ofNat_toNat_small (by omega)]; simp; omega
  | case2 n h ih =>
    obtain ⟨c, cs, e, hc, hz⟩ := ih (by omega)
    exact ⟨c, cs ++ [UInt8.ofNat (48 + n % 10)], by rw [natToDec_ge h, e]; rfl, hc, hz⟩


/-! ### splitting at a byte -/

theorem splitByte_none {x : UInt8} : ∀ {s : Bytes}, x ∉ s → splitByte x s = none
  | [], _ => rfl
  | c :: cs, h => by
    have h1 : c ≠ x := fun e => h (by simp [e])
    have h2 : x ∉ cs := fun e => h (by simp [e])
    simp [splitByte, h1, splitByte_none h2]

theorem splitByte_append {x : UInt8} : ∀ {a : Bytes} (b : Bytes), x ∉ a →
    splitByte x (a ++ x :: b) = some (a, b)
  | [], b, _ => by simp [splitByte]
  | c :: cs, b, h => by
    have h1 : c ≠ x := fun e => h (by simp [e])
    have h2 : x ∉ cs := fun e => h (by simp [e])
    simp [splitByte, h1, splitByte_append b h2]

theorem splitByte_some {x : UInt8} : ∀ {s a b : Bytes}, splitByte x s = some (a, b) →
    s = a ++ x :: b ∧ x ∉ a
  | [], a, b, h => by simp [splitByte] at h
  | c :: cs, a, b, h => by
    unfold splitByte at h
    by_cases hc : c = x
    · simp [hc] at h; obtain ⟨rfl, rfl⟩ := h; simp [hc]
    · simp only [hc, if_false] at h
      cases hr : splitByte x cs with
      | none => simp [hr] at h
      | some p =>
        obtain ⟨a', b'⟩ := p
        simp [hr] at h
        obtain ⟨rfl, rfl⟩ := h
        obtain ⟨e, hn⟩ := splitByte_some hr
        refine ⟨by simp [e], ?_⟩
        intro hm
        rcases List.mem_cons.mp hm with h1 | h1
        · exact hc h1.symm
        · exact hn h1

/-! ### nat.scan / Int.SetString on printed decimals -/

theorem dec_scan_ok {ds : Bytes} (h : ∀ x ∈ ds, IsDecByte x) :
    ∀ c ∈ ds, c ≠ 0x5F ∧ digitVal c < 10 := by
  intro c hc
  have := h c hc
  refine ⟨this.ne_us, ?_⟩
  rw [digitVal_dec this]; unfold IsDecByte at this; omega

theorem natScan_dec {c : UInt8} {cs : Bytes} (hz : c ≠ 0x30) (hd : ∀ x ∈ c :: cs, IsDecByte x) :
    natScan (c :: cs) = some (digitsVal 10 0 (c :: cs), []) := by
  unfold natScan
  simp only [hz, if_false]
  rw [scanLoop_digits 10 (c :: cs) _ (dec_scan_ok hd)]
  unfold scanFinish
  simp only [foldl_step_count, foldl_step_invalSep, foldl_step_acc,
    foldl_step_prev 10 (c :: cs) _ (by simp)]
  simp

theorem natScan_natToDec (n : Nat) : natScan (natToDec n) = some (n, []) := by
  by_cases hn : n = 0
  · subst hn; rw [natToDec_lt (by omega)]; rfl
  · obtain ⟨c, cs, e, _, hz⟩ := natToDec_head n (by omega)
    have hd := natToDec_dec n
    rw [e] at hd
    rw [e, natScan_dec hz hd, ← e, natToDec_val]

theorem intSetString_intToDec (z : Int) : intSetString (intToDec z) = some z := by
  unfold intToDec
  by_cases hz : z < 0
  · simp only [hz, if_true]
    unfold intSetString
    simp [natScan_natToDec]
    omega
  · simp only [hz, if_false]
    have hd := natToDec_dec z.natAbs
    have hne := natToDec_ne_nil z.natAbs
    cases e : natToDec z.natAbs with
    | nil => exact absurd e hne
    | cons c cs =>
      rw [e] at hd
      have hc : IsDecByte c := hd c (by simp)
      have h1 : c ≠ 0x2D := by apply ne_of_toNat_ne; unfold IsDecByte at hc; simp; omega
      have h2 : c ≠ 0x2B := by apply ne_of_toNat_ne; unfold IsDecByte at hc; simp; omega
      unfold intSetString
      simp only [h1, h2, or_self, if_false]
      rw [← e, natScan_natToDec]
      simp; omega


theorem slash_not_mem_intToDec (z : Int) : (0x2F : UInt8) ∉ intToDec z := by
  have hd : ∀ n, (0x2F : UInt8) ∉ natToDec n := by
    intro n hm
    have := natToDec_dec n _ hm
    unfold IsDecByte at this; simp at this
  unfold intToDec
  split
  · intro hm
    rcases List.mem_cons.mp hm with h | h
    · simp at h
    · exact hd _ h
  · exact hd _

theorem parseNum_intToDec (z : Int) : parseNum (intToDec z) = some (normalizeBigInt z) := by
  unfold parseNum splitSlash
  rw [splitByte_none (slash_not_mem_intToDec z), intSetString_intToDec]

theorem parseNum_ratToString (q : Rat) : parseNum (ratToString q) = some (normalizeBigRat q) := by
  unfold parseNum splitSlash ratToString
  rw [splitByte_append _ (slash_not_mem_intToDec q.num)]
  unfold ratSetFrac
  simp only [intSetString_intToDec, natScan_natToDec]
  simp [q.den_nz, Rat.mkRat_self]

end C05
