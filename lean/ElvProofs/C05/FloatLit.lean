/-
C05 helper lemmas: decimal / scientific float literals of Spec.lean are read by
readFloat with the stated mantissa, fraction length and exponent.
-/
import ElvProofs.C05.Float
import ElvProofs.C05.Lit
namespace C05
open Go

/-- bytes a rendered decimal float literal consists of -/
def FloatByte (c : UInt8) : Prop :=
  IsDecByte c ∨ c = 0x5F ∨ c = 0x2E ∨ c = 0x65 ∨ c = 0x45 ∨ c = 0x2B ∨ c = 0x2D

theorem floatByte_facts {c : UInt8} (h : FloatByte c) :
    lower c ≠ 0x78 ∧ lower c ≠ 0x62 ∧ lower c ≠ 0x6F ∧ c ≠ 0x2F ∧
    c ≠ 0x62 ∧ c ≠ 0x42 ∧ c ≠ 0x6F ∧ c ≠ 0x4F ∧ c ≠ 0x78 ∧ c ≠ 0x58 := by
  rcases h with h | h | h | h | h | h | h
  · rcases decByte_cases h with e | e | e | e | e | e | e | e | e | e <;> subst e <;> decide
  all_goals (subst h; decide)

theorem decDig_byte {d : Dig} (h : isDecDig d = true) : IsDecByte d.byte := by
  have h' : d.val < 10 := of_decide_eq_true h
  unfold Dig.byte; simp only [h', if_true]
  exact isDecByte_ofNat h'

theorem decDig_val {d : Dig} (h : isDecDig d = true) : d.byte.toNat - 48 = d.val := by
  have h' : d.val < 10 := of_decide_eq_true h
  unfold Dig.byte; simp only [h', if_true]
  rw [ofNat_toNat_small (by omega)]; omega

def hasUs (rest : List (Bool × Dig)) : Bool := rest.any (·.1)

/-! ### the mantissa loop over rendered digits -/

theorem mantLoop_dec {st : MantSt} {c : UInt8} {t : Bytes} (h : IsDecByte c) :
    mantLoop false st (c :: t) =
      mantLoop false { st with sawdigits := true, mant := st.mant * 10 + (c.toNat - 48),
                               frac := if st.sawdot then st.frac + 1 else st.frac } t := by
  obtain ⟨h1, h2, h3, _⟩ := decByte_facts h
  rw [mantLoop]
  simp [h2, h3, h1]

theorem mantLoop_us {st : MantSt} {t : Bytes} :
    mantLoop false st (0x5F :: t) = mantLoop false { st with underscores := true } t := by
  rw [mantLoop]; simp

theorem mantLoop_renderRest (tail : Bytes) : ∀ (rest : List (Bool × Dig)) (st : MantSt),
    (∀ x ∈ rest, isDecDig x.2 = true) →
    mantLoop false st (renderRest rest ++ tail) =
      mantLoop false { st with sawdigits := st.sawdigits || !rest.isEmpty,
                               underscores := st.underscores || hasUs rest,
                               mant := valRest 10 st.mant rest,
                               frac := if st.sawdot then st.frac + rest.length else st.frac } tail
  | [], st, _ => by cases st; simp [renderRest, valRest, hasUs]
  | (us, d) :: r, st, h => by
    have hd := h (us, d) (by simp)
    have ih := mantLoop_renderRest tail r
    cases us with
    | true =>
      simp only [renderRest, if_true, List.cons_append, List.nil_append]
      rw [mantLoop_us, mantLoop_dec (decDig_byte hd), ih _ (fun x hx => h x (by simp [hx]))]
      congr 1
      cases hs : st.sawdot <;> simp [hasUs, valRest, decDig_val hd, Nat.add_assoc, Nat.add_comm 1]
    | false =>
      simp only [renderRest, Bool.false_eq_true, if_false, List.cons_append, List.nil_append]
      rw [mantLoop_dec (decDig_byte hd), ih _ (fun x hx => h x (by simp [hx]))]
      congr 1
      cases hs : st.sawdot <;> simp [hasUs, valRest, decDig_val hd, Nat.add_assoc, Nat.add_comm 1]

theorem mantLoop_digits (tail : Bytes) (ds : Digits) (st : MantSt) (h : ds.all isDecDig = true) :
    mantLoop false st (ds.render ++ tail) =
      mantLoop false { st with sawdigits := true,
                               underscores := st.underscores || hasUs ds.rest,
                               mant := valRest 10 (st.mant * 10 + ds.first.val) ds.rest,
                               frac := if st.sawdot then st.frac + ds.len else st.frac } tail := by
  obtain ⟨first, rest⟩ := ds
  simp only [Digits.all, Bool.and_eq_true, List.all_eq_true] at h
  simp only [Digits.render, List.cons_append]
  rw [mantLoop_dec (decDig_byte h.1), mantLoop_renderRest tail rest _ h.2]
  congr 1
  cases hs : st.sawdot <;> simp [Digits.len, decDig_val h.1, Nat.add_assoc, Nat.add_comm 1]


/-! ### the exponent loop (at most four digits: the cap `e < 10000` never bites) -/

theorem expLoop_dec {e : Nat} {us : Bool} {c : UInt8} {t : Bytes} (h : IsDecByte c) (he : e < 10000) :
    expLoop e us (c :: t) = expLoop (e * 10 + (c.toNat - 48)) us t := by
  obtain ⟨h1, h2, _⟩ := decByte_facts h
  rw [expLoop]; simp [h2, h1, he]

theorem expLoop_renderRest : ∀ (rest : List (Bool × Dig)) (e n : Nat) (us : Bool),
    (∀ x ∈ rest, isDecDig x.2 = true) → e < 10 ^ n → n + rest.length ≤ 4 →
    expLoop e us (renderRest rest) = (valRest 10 e rest, us || hasUs rest, [])
  | [], e, n, us, _, _, _ => by simp [renderRest, expLoop, valRest, hasUs]
  | (u, d) :: r, e, n, us, h, he, hn => by
    have hd := h (u, d) (by simp)
    have hd' : d.val < 10 := of_decide_eq_true hd
    simp only [List.length_cons] at hn
    have hp : (10 : Nat) ^ n ≤ 10 ^ 3 := Nat.pow_le_pow_right (by omega) (by omega)
    have he' : e < 10000 := by omega
    have hstep : e * 10 + d.val < 10 ^ (n + 1) := by rw [Nat.pow_succ]; omega
    have ih := expLoop_renderRest r (e * 10 + d.val) (n + 1)
    cases u with
    | true =>
      simp only [renderRest, if_true, List.cons_append, List.nil_append]
      rw [expLoop]; simp only [if_true]
      rw [expLoop_dec (decDig_byte hd) he', decDig_val hd,
        ih true (fun x hx => h x (by simp [hx])) hstep (by omega)]
      simp [valRest, hasUs]
    | false =>
      simp only [renderRest, Bool.false_eq_true, if_false, List.nil_append]
      rw [expLoop_dec (decDig_byte hd) he', decDig_val hd,
        ih us (fun x hx => h x (by simp [hx])) hstep (by omega)]
      simp [valRest, hasUs]

theorem expLoop_digits (ds : Digits) (us : Bool) (h : ds.all isDecDig = true) (hl : ds.len ≤ 4) :
    expLoop 0 us ds.render = (ds.value 10, us || hasUs ds.rest, []) := by
  obtain ⟨first, rest⟩ := ds
  simp only [Digits.all, Bool.and_eq_true, List.all_eq_true] at h
  simp only [Digits.len] at hl
  have hf : first.val < 10 := of_decide_eq_true h.1
  simp only [Digits.render, Digits.value]
  rw [expLoop_dec (decDig_byte h.1) (by omega), decDig_val h.1,
    expLoop_renderRest rest _ 1 us h.2 (by omega) (by omega)]
  simp

/-! ### underscoreOK on rendered literals -/

theorem usLoop_dec {saw : Saw} {c : UInt8} {t : Bytes} (h : IsDecByte c) :
    usLoop false saw (c :: t) = usLoop false .digit t := by
  rw [usLoop]; simp [(decByte_facts h).1]

theorem usLoop_renderRest (tail : Bytes) : ∀ (rest : List (Bool × Dig)),
    (∀ x ∈ rest, isDecDig x.2 = true) →
    usLoop false .digit (renderRest rest ++ tail) = usLoop false .digit tail
  | [], _ => by simp [renderRest]
  | (u, d) :: r, h => by
    have hd := h (u, d) (by simp)
    have ih := usLoop_renderRest tail r (fun x hx => h x (by simp [hx]))
    cases u with
    | true =>
      simp only [renderRest, if_true, List.cons_append, List.nil_append]
      rw [usLoop]; simp only [isDec]
      rw [show ((0x30 : UInt8) ≤ 0x5F && (0x5F : UInt8) ≤ 0x39 || (false && isHexLetter 0x5F)) = false by decide]
      simp only [Bool.false_eq_true, if_false, if_true, bne_self_eq_false]
      rw [usLoop_dec (decDig_byte hd), ih]
    | false =>
      simp only [renderRest, Bool.false_eq_true, if_false, List.cons_append, List.nil_append]
      rw [usLoop_dec (decDig_byte hd), ih]

theorem usLoop_digits (tail : Bytes) (ds : Digits) (saw : Saw) (h : ds.all isDecDig = true) :
    usLoop false saw (ds.render ++ tail) = usLoop false .digit tail := by
  obtain ⟨first, rest⟩ := ds
  simp only [Digits.all, Bool.and_eq_true, List.all_eq_true] at h
  simp only [Digits.render, List.cons_append]
  rw [usLoop_dec (decDig_byte h.1), usLoop_renderRest tail rest h.2]

/-- a byte that is neither a digit nor `_`, seen when the last byte was not `_` -/
theorem usLoop_other {saw : Saw} {c : UInt8} {t : Bytes} (h1 : isDec c = false) (h2 : c ≠ 0x5F)
    (h3 : saw ≠ .us) : usLoop false saw (c :: t) = usLoop false .bang t := by
  rw [usLoop]; simp [h1, h2, h3]


/-! ### the parts of a rendered literal -/

def fracPart (l : DecFloatLit) : Bytes :=
  match l.frac with
  | some f => 0x2E :: f.render
  | none => []

def expPart (l : DecFloatLit) : Bytes :=
  match l.exp with
  | some (up, sg, e) => (if up then 0x45 else 0x65) :: (sg.bytes ++ e.render)
  | none => []

def body (l : DecFloatLit) : Bytes := l.int.render ++ (fracPart l ++ expPart l)

theorem render_eq (l : DecFloatLit) : l.render = l.sign.bytes ++ body l := by
  obtain ⟨sign, int, frac, exp⟩ := l
  cases frac <;> cases exp <;> simp [DecFloatLit.render, body, fracPart, expPart, List.append_assoc]

structure Parts (l : DecFloatLit) : Prop where
  int : l.int.all isDecDig = true
  frac : ∀ f, l.frac = some f → f.all isDecDig = true
  exp : ∀ up sg e, l.exp = some (up, sg, e) → e.all isDecDig = true ∧ e.len ≤ 4
  some : l.frac.isSome = true ∨ l.exp.isSome = true

theorem parts_of_wf (l : DecFloatLit) (h : l.wf = true) : Parts l := by
  simp only [DecFloatLit.wf, Bool.and_eq_true, Bool.or_eq_true] at h
  obtain ⟨⟨⟨h1, h2⟩, h3⟩, h4⟩ := h
  refine ⟨h1, ?_, ?_, h4⟩
  · intro f hf; simpa [hf] using h2
  · intro up sg e he; simpa [he] using h3

/-- an exponent character or nothing: where the mantissa loop stops -/
def StopTail (tail : Bytes) : Prop := tail = [] ∨ ∃ e r, tail = e :: r ∧ (e = 0x65 ∨ e = 0x45)

theorem mantLoop_stop {st : MantSt} {tail : Bytes} (h : StopTail tail) :
    mantLoop false st tail = (st, tail) := by
  rcases h with h | ⟨e, r, h, he⟩
  · subst h; rfl
  · subst h; rw [mantLoop]
    rcases he with he | he <;> subst he <;> simp [isDec] <;> decide

theorem stopTail_expPart (l : DecFloatLit) : StopTail (expPart l) := by
  unfold expPart
  split
  · rename_i up sg e _
    exact Or.inr ⟨_, _, rfl, by cases up <;> simp⟩
  · exact Or.inl rfl

/-- the state of the mantissa loop after the integer and fraction parts -/
def stM (l : DecFloatLit) : MantSt :=
  { sawdot := l.frac.isSome, sawdigits := true,
    underscores := hasUs l.int.rest || (match l.frac with | some f => hasUs f.rest | none => false),
    mant := l.lit.mant, frac := l.lit.frac }

theorem mantLoop_lit (l : DecFloatLit) (hp : Parts l) (tail : Bytes) (ht : StopTail tail) :
    mantLoop false { sawdot := false, sawdigits := false, underscores := false, mant := 0, frac := 0 }
      (l.int.render ++ (fracPart l ++ tail)) = (stM l, tail) := by
  rw [mantLoop_digits _ _ _ hp.int]
  obtain ⟨sign, int, frac, exp⟩ := l
  cases frac with
  | none =>
    simp only [fracPart, List.nil_append]
    rw [mantLoop_stop ht]
    simp [stM, DecFloatLit.lit, Digits.value]
  | some f =>
    have hf := hp.frac f rfl
    simp only [fracPart, List.cons_append]
    rw [mantLoop]
    simp only [show ((0x2E : UInt8) = 0x5F) = False by decide, if_false, if_true, Bool.false_eq_true]
    rw [mantLoop_digits _ _ _ hf, mantLoop_stop ht]
    simp [stM, DecFloatLit.lit, valRest]

theorem usLoop_lit (l : DecFloatLit) (hp : Parts l) (tail : Bytes) (saw : Saw) :
    usLoop false saw (l.int.render ++ (fracPart l ++ tail)) = usLoop false .digit tail := by
  rw [usLoop_digits _ _ _ hp.int]
  obtain ⟨sign, int, frac, exp⟩ := l
  cases frac with
  | none => simp [fracPart]
  | some f =>
    have hf := hp.frac f rfl
    simp only [fracPart, List.cons_append]
    rw [usLoop_other (by decide) (by decide) (by decide), usLoop_digits _ _ _ hf]

theorem usLoop_expPart (l : DecFloatLit) (hp : Parts l) : usLoop false .digit (expPart l) = true := by
  obtain ⟨sign, int, frac, exp⟩ := l
  cases exp with
  | none => simp [expPart, usLoop]
  | some x =>
    obtain ⟨up, sg, e⟩ := x
    have he := (hp.exp up sg e rfl).1
    have hfin : ∀ saw, usLoop false saw e.render = true := by
      intro saw
      have := usLoop_digits [] e saw he
      rw [List.append_nil] at this
      rw [this]; simp [usLoop]
    simp only [expPart]
    have h1 : usLoop false .digit ((if up = true then (0x45 : UInt8) else 0x65) :: (sg.bytes ++ e.render)) =
        usLoop false .bang (sg.bytes ++ e.render) := by
      cases up
      · exact usLoop_other (by decide) (by decide) (by decide)
      · exact usLoop_other (by decide) (by decide) (by decide)
    rw [h1]
    cases sg with
    | none => simpa [Sign.bytes] using hfin _
    | plus =>
      simp only [Sign.bytes, List.cons_append, List.nil_append]
      rw [usLoop_other (by decide) (by decide) (by decide)]; exact hfin _
    | minus =>
      simp only [Sign.bytes, List.cons_append, List.nil_append]
      rw [usLoop_other (by decide) (by decide) (by decide)]; exact hfin _


/-! ### the bytes of a rendered literal -/

theorem floatByte_renderRest : ∀ (rest : List (Bool × Dig)), (∀ x ∈ rest, isDecDig x.2 = true) →
    ∀ c ∈ renderRest rest, FloatByte c
  | [], _ => by simp [renderRest]
  | (u, d) :: r, h => by
    have hd : FloatByte d.byte := Or.inl (decDig_byte (h (u, d) (by simp)))
    have ih := floatByte_renderRest r (fun x hx => h x (by simp [hx]))
    intro c hc
    cases u with
    | true =>
      simp only [renderRest, if_true, List.cons_append, List.nil_append, List.mem_cons] at hc
      rcases hc with e | e | e
      · exact Or.inr (Or.inl e)
      · rw [e]; exact hd
      · exact ih c e
    | false =>
      simp only [renderRest, Bool.false_eq_true, if_false, List.nil_append, List.mem_cons] at hc
      rcases hc with e | e
      · rw [e]; exact hd
      · exact ih c e

theorem floatByte_digits (ds : Digits) (h : ds.all isDecDig = true) : ∀ c ∈ ds.render, FloatByte c := by
  obtain ⟨first, rest⟩ := ds
  simp only [Digits.all, Bool.and_eq_true, List.all_eq_true] at h
  intro c hc
  simp only [Digits.render, List.mem_cons] at hc
  rcases hc with e | e
  · rw [e]; exact Or.inl (decDig_byte h.1)
  · exact floatByte_renderRest rest h.2 c e

theorem floatByte_body (l : DecFloatLit) (hp : Parts l) : ∀ c ∈ body l, FloatByte c := by
  intro c hc
  simp only [body, List.mem_append] at hc
  rcases hc with hc | hc | hc
  · exact floatByte_digits _ hp.int c hc
  · unfold fracPart at hc
    split at hc
    · rename_i f hf
      rcases List.mem_cons.mp hc with e | e
      · exact Or.inr (Or.inr (Or.inl e))
      · exact floatByte_digits _ (hp.frac f hf) c e
    · simp at hc
  · unfold expPart at hc
    split at hc
    · rename_i up sg e he
      rcases List.mem_cons.mp hc with h1 | h1
      · cases up
        · exact Or.inr (Or.inr (Or.inr (Or.inl (by simpa using h1))))
        · exact Or.inr (Or.inr (Or.inr (Or.inr (Or.inl (by simpa using h1)))))
      · rcases List.mem_append.mp h1 with h2 | h2
        · cases sg with
          | none => simp [Sign.bytes] at h2
          | plus => simp [Sign.bytes] at h2; exact Or.inr (Or.inr (Or.inr (Or.inr (Or.inr (Or.inl h2)))))
          | minus => simp [Sign.bytes] at h2; exact Or.inr (Or.inr (Or.inr (Or.inr (Or.inr (Or.inr h2)))))
        · exact floatByte_digits _ (hp.exp up sg e he).1 c h2
    · simp at hc

theorem body_head (l : DecFloatLit) (hp : Parts l) :
    ∃ t, body l = l.int.first.byte :: t ∧ IsDecByte l.int.first.byte := by
  have : l.int.all isDecDig = true := hp.int
  simp only [Digits.all, Bool.and_eq_true] at this
  exact ⟨renderRest l.int.rest ++ (fracPart l ++ expPart l), by simp [body, Digits.render], decDig_byte this.1⟩

/-- `underscoreOK` when no base prefix can be present -/
theorem underscoreOK_noprefix (sign : Sign) (d0 : UInt8) (t : Bytes) (hd : IsDecByte d0)
    (ht : ∀ c ∈ t, FloatByte c) :
    underscoreOK (sign.bytes ++ d0 :: t) = usLoop false .start (d0 :: t) := by
  obtain ⟨_, _, _, h4, h5, _⟩ := decByte_facts hd
  have inner : (match d0 :: t with
      | c0 :: c1 :: cs =>
        if c0 = 0x30 ∧ (lower c1 = 0x62 ∨ lower c1 = 0x6F ∨ lower c1 = 0x78) then
          usLoop (lower c1 = 0x78) .digit cs
        else usLoop false .start (d0 :: t)
      | _ => usLoop false .start (d0 :: t)) = usLoop false .start (d0 :: t) := by
    cases t with
    | nil => rfl
    | cons c1 cs =>
      obtain ⟨f1, f2, f3, _⟩ := floatByte_facts (ht c1 (by simp))
      simp [f1, f2, f3]
  cases sign with
  | none => simp only [Sign.bytes, List.nil_append, underscoreOK, h4, h5, or_self, if_false]; exact inner
  | plus =>
    simp only [Sign.bytes, List.cons_append, List.nil_append, underscoreOK, or_true, if_true]
    exact inner
  | minus =>
    simp only [Sign.bytes, List.cons_append, List.nil_append, underscoreOK, true_or, if_true]
    exact inner

theorem underscoreOK_render (l : DecFloatLit) (hp : Parts l) : underscoreOK l.render = true := by
  obtain ⟨t, e, hd⟩ := body_head l hp
  have hb := floatByte_body l hp
  rw [render_eq, e, underscoreOK_noprefix _ _ _ hd (fun c hc => hb c (by rw [e]; exact List.mem_cons_of_mem _ hc)),
    ← e, body, usLoop_lit l hp, usLoop_expPart l hp]


/-! ### the exponent part, and the whole literal -/

theorem readExp_lit (l : DecFloatLit) (hp : Parts l) (neg : Bool) (st : MantSt) (s : Bytes)
    (hu : underscoreOK s = true) :
    readExp neg false st (expPart l) s =
      some { neg := neg, hex := false, mant := st.mant, frac := st.frac, exp := l.lit.exp } := by
  obtain ⟨sign, int, frac, exp⟩ := l
  cases exp with
  | none => simp [expPart, readExp, hu, DecFloatLit.lit]
  | some x =>
    obtain ⟨up, sg, e⟩ := x
    obtain ⟨he, hl⟩ := hp.exp up sg e rfl
    have hx := expLoop_digits e st.underscores he hl
    have hfirst : ∃ t, e.render = e.first.byte :: t ∧ IsDecByte e.first.byte := by
      simp only [Digits.all, Bool.and_eq_true] at he
      exact ⟨_, rfl, decDig_byte he.1⟩
    obtain ⟨t, et, hd⟩ := hfirst
    obtain ⟨hd1, _, _, hd4, hd5, _⟩ := decByte_facts hd
    have hlow : lower (if up = true then (0x45 : UInt8) else 0x65) = 0x65 := by cases up <;> decide
    simp only [expPart, readExp, hlow, Bool.false_eq_true, if_false, if_true]
    cases sg with
    | none =>
      simp only [Sign.bytes, List.nil_append]
      rw [et]
      simp only [hd4, hd5, or_self, if_false, hd1, Bool.not_true, Bool.false_eq_true]
      rw [← et, hx]
      simp [hu, DecFloatLit.lit, Sign.isNeg]
    | plus =>
      simp only [Sign.bytes, List.cons_append, List.nil_append, true_or, if_true]
      rw [et]
      simp only [hd1, Bool.not_true, Bool.false_eq_true, if_false]
      rw [← et, hx]
      simp [hu, DecFloatLit.lit, Sign.isNeg]
    | minus =>
      simp only [Sign.bytes, List.cons_append, List.nil_append, or_true, if_true]
      rw [et]
      simp only [hd1, Bool.not_true, Bool.false_eq_true, if_false]
      rw [← et, hx]
      simp [hu, DecFloatLit.lit, Sign.isNeg]

theorem readBody_lit (l : DecFloatLit) (hp : Parts l) (neg : Bool) (s : Bytes)
    (hu : underscoreOK s = true) :
    readBody neg (body l) s = some { l.lit with neg := neg } := by
  have hx : hexPrefix (body l) = (false, body l) :=
    hexPrefix_no (fun c hc => (floatByte_facts (floatByte_body l hp c hc)).1)
  unfold readBody
  simp only [hx]
  rw [body, mantLoop_lit l hp _ (stopTail_expPart l)]
  simp only [stM, Bool.not_true, Bool.false_eq_true, if_false]
  rw [readExp_lit l hp neg _ s hu]
  simp [DecFloatLit.lit]

theorem readFloat_lit (l : DecFloatLit) (h : l.wf = true) : readFloat l.render = some l.lit := by
  have hp := parts_of_wf l h
  have hu := underscoreOK_render l hp
  obtain ⟨t, e, hd⟩ := body_head l hp
  obtain ⟨_, _, _, h4, h5, _⟩ := decByte_facts hd
  have key := fun neg => readBody_lit l hp neg l.render hu
  rw [render_eq] at key ⊢
  cases hs : l.sign with
  | none =>
    simp only [hs, Sign.bytes, List.nil_append] at key ⊢
    rw [e] at key ⊢
    simp only [readFloat, h4, h5, or_self, if_false, decide_false]
    rw [key]
    simp [DecFloatLit.lit, hs, Sign.isNeg]
  | plus =>
    simp only [hs, Sign.bytes, List.cons_append, List.nil_append] at key ⊢
    simp only [readFloat, or_true, if_true]
    rw [key]
    simp [DecFloatLit.lit, hs, Sign.isNeg]
  | minus =>
    simp only [hs, Sign.bytes, List.cons_append, List.nil_append] at key ⊢
    simp only [readFloat, true_or, if_true]
    rw [key]
    simp [DecFloatLit.lit, hs, Sign.isNeg]


theorem special_plus_dec {c : UInt8} (cs : Bytes) (h : IsDecByte c) :
    special (0x2B :: c :: cs) = none := by
  have := (decByte_facts h).2.2.2.2.2.2.2.2.2.2.2
  simp [special, specialInf, commonPrefixLen, infinityLit, this]

theorem special_lit (l : DecFloatLit) (hp : Parts l) : special l.render = none := by
  obtain ⟨t, e, hd⟩ := body_head l hp
  rw [render_eq, e]
  cases l.sign with
  | none => exact special_dec _ hd
  | plus => exact special_plus_dec _ hd
  | minus => exact special_minus_dec _ hd

/-- nat.scan cannot consume a digit string containing an exponent letter -/
theorem natScan_dec_e {d0 : UInt8} {t : Bytes} (_hd : IsDecByte d0) (ht : ∀ c ∈ t, FloatByte c)
    (he : (0x65 : UInt8) ∈ t ∨ (0x45 : UInt8) ∈ t) (n : Nat) : natScan (d0 :: t) ≠ some (n, []) := by
  intro h
  have bad : ∀ b, b ≤ 10 → (∀ c ∈ t, c = 0x5F ∨ digitVal c < b) → False := by
    intro b hb hall
    rcases he with he | he
    · rcases hall _ he with e | e
      · exact absurd e (by decide)
      · have : digitVal 0x65 = 14 := by decide
        omega
    · rcases hall _ he with e | e
      · exact absurd e (by decide)
      · have : digitVal 0x45 = 14 := by decide
        omega
  unfold natScan at h
  simp only at h
  by_cases hz : d0 = 0x30
  · simp only [hz, if_true] at h
    cases t with
    | nil => simp at he
    | cons c1 cs =>
      obtain ⟨_, _, _, _, f5, f6, f7, f8, f9, f10⟩ := floatByte_facts (ht c1 (by simp))
      simp only [f5, f6, f7, f8, f9, f10, or_self, if_false] at h
      have := scanFinish_rest h
      exact bad 8 (by omega) (scanLoop_rest_nil_b 8 _ _ _ (Prod.ext rfl this))
  · simp only [hz, if_false] at h
    have := scanFinish_rest h
    have hall := scanLoop_rest_nil_b 10 _ _ _ (Prod.ext rfl this)
    exact bad 10 (by omega) (fun c hc => hall c (List.mem_cons_of_mem _ hc))

theorem intSetString_none_of_natScan {c : UInt8} {cs : Bytes}
    (h : ∀ n, natScan (if c = 0x2D ∨ c = 0x2B then cs else c :: cs) ≠ some (n, [])) :
    intSetString (c :: cs) = none := by
  cases hr : intSetString (c :: cs) with
  | none => rfl
  | some z =>
    -- the match on `natScan …` reduces to its default arm: `h` discharges the overlap condition
    simp only [intSetString] at hr
    cases hr

theorem intSetString_lit (l : DecFloatLit) (hp : Parts l) : intSetString l.render = none := by
  cases hf : l.frac with
  | some f =>
    apply intSetString_none_of_dot
    rw [render_eq]
    simp [body, fracPart, hf]
  | none =>
    have hex : l.exp.isSome = true := by
      rcases hp.some with h | h
      · simp [hf] at h
      · exact h
    obtain ⟨t, e, hd⟩ := body_head l hp
    have hb := floatByte_body l hp
    have ht : ∀ c ∈ t, FloatByte c := fun c hc => hb c (by rw [e]; exact List.mem_cons_of_mem _ hc)
    have hmem : (0x65 : UInt8) ∈ t ∨ (0x45 : UInt8) ∈ t := by
      have hin : (0x65 : UInt8) ∈ body l ∨ (0x45 : UInt8) ∈ body l := by
        cases hx : l.exp with
        | none => simp [hx] at hex
        | some x =>
          obtain ⟨up, sg, ex⟩ := x
          cases up
          · exact Or.inl (by simp [body, expPart, hx])
          · exact Or.inr (by simp [body, expPart, hx])
      obtain ⟨_, _, _, _, _, _⟩ := decByte_facts hd
      rw [e] at hin
      rcases hin with h | h
      · rcases List.mem_cons.mp h with h1 | h1
        · rw [← h1] at hd; exact absurd hd (by unfold IsDecByte; decide)
        · exact Or.inl h1
      · rcases List.mem_cons.mp h with h1 | h1
        · rw [← h1] at hd; exact absurd hd (by unfold IsDecByte; decide)
        · exact Or.inr h1
    have hns := natScan_dec_e hd ht hmem
    obtain ⟨_, _, _, h4, h5, _⟩ := decByte_facts hd
    rw [render_eq, e]
    cases l.sign with
    | none =>
      apply intSetString_none_of_natScan
      simp only [h4, h5, or_self, if_false]; exact hns
    | plus =>
      apply intSetString_none_of_natScan
      simp only [or_true, if_true]; exact hns
    | minus =>
      apply intSetString_none_of_natScan
      simp only [true_or, if_true]; exact hns

theorem slash_not_mem_lit (l : DecFloatLit) (hp : Parts l) : (0x2F : UInt8) ∉ l.render := by
  rw [render_eq]
  intro hm
  rcases List.mem_append.mp hm with h | h
  · cases hs : l.sign <;> simp [hs, Sign.bytes] at h
  · exact (floatByte_facts (floatByte_body l hp _ h)).2.2.2.1 rfl

theorem parseFloat_lit (l : DecFloatLit) (h : l.wf = true) : parseFloat l.render = l.lit.bits := by
  unfold parseFloat
  rw [special_lit l (parts_of_wf l h), readFloat_lit l h]

theorem parseNum_decFloatLit (l : DecFloatLit) (h : l.wf = true) :
    parseNum l.render = l.lit.bits.map Num.float := by
  have hp := parts_of_wf l h
  unfold parseNum splitSlash
  rw [splitByte_none (slash_not_mem_lit l hp), intSetString_lit l hp, parseFloat_lit l h]
  cases l.lit.bits <;> rfl

end C05
