import ElvModel.C03.Model
import ElvProofs.C03.Quote
open Go C01 C03 Gen.C01Chars

/-!
# C03 — quoted strings evaluate back to the exact original string

All theorems are about the executable model `ElvModel/C03/Model.lean` of
`pkg/parse/quote.go` composed with the C01 model of the parser (entry point
`C01.parseAs` = `parse.ParseAs`) and the literal fragment `evalLit` of
`pkg/eval/compile_value.go`; they hold for EVERY byte string `s` (invalid
UTF-8 included, unbounded length) and EVERY `unicode.IsPrint`.  The tie to the
Go code is `./check C03`.
-/

/-- `r` is the result of parsing the text `q` as ONE WORD whose value is `s`:
`ParseAs` returns a tree and no error (so `parser.done` found no text left
over); the tree is a `Compound` over the whole text with exactly one child,
an `Indexing` over the whole text with exactly one child (so: no indices, no
separators), a `Primary` of type Bareword / SingleQuoted / DoubleQuoted with
`Value = s` and no children — in particular there is no Tilde node, wildcard,
variable or capture anywhere in the tree — and evaluating the tree as a
literal (`compoundOp` → `indexingOp` → `primaryOp` → `literalValues`) gives
the string `s`. -/
def C03_IsWord (r : ParseResult) (ctx : Int) (q s : Bytes) : Prop :=
  ∃ tree idx head, r = .ok tree [] ∧
    tree.kind = .compound ∧ tree.ctx = ctx ∧ tree.frm = 0 ∧ tree.to = q.length ∧ tree.text = q ∧
    tree.children = [idx] ∧
    idx.kind = .indexing ∧ idx.frm = 0 ∧ idx.to = q.length ∧ idx.children = [head] ∧
    head.kind = .primary ∧ head.frm = 0 ∧ head.to = q.length ∧ head.children = [] ∧
    (head.ptype = Bareword ∨ head.ptype = SingleQuoted ∨ head.ptype = DoubleQuoted) ∧
    head.ptype ≠ Tilde ∧ head.value = s ∧
    evalLit tree = some s

/-- `r` is the result of parsing `src` as a use of the variable named `s`:
no error, a childless `Primary` of type Variable over the whole text with
`Value = s`. -/
def C03_IsVariable (r : ParseResult) (src s : Bytes) : Prop :=
  ∃ tree, r = .ok tree [] ∧ tree.kind = .primary ∧ tree.frm = 0 ∧ tree.to = src.length ∧
    tree.text = src ∧ tree.children = [] ∧ tree.ptype = Variable ∧ tree.value = s ∧
    variableName tree = some s

/-- The property at full strength.  For every byte string and every `IsPrint`:
1. the general form: `QuoteAs s q` returns (no panic, fuel suffices) for every
   preference `q`, `Quote s` is `QuoteAs s Bareword`, and its text is one word
   with value `s` in argument (`NormalExpr`), map-key / assignment
   (`LHSExpr`), braced-element (`BracedElemExpr`) and command (`CmdExpr`)
   context;
2. the command-name form `QuoteCommandName s` is one word with value `s` in
   command-head context (`CmdExpr`);
3. `$` followed by the variable-name form `QuoteVariableName s` is a use of
   the variable named `s` (in every expression context).
(4) of the plan — evaluation gives `s` — is part of `C03_IsWord`. -/
def C03_full : Prop :=
  ∀ (isPrint : Int → Bool) (s : Bytes),
    (∀ q : Int, ∃ text ty, QuoteAs isPrint s q = .ok (text, ty) ∧
      (q = Bareword → Quote isPrint s = .ok text) ∧
      ∀ ctx, ctx = NormalExpr ∨ ctx = LHSExpr ∨ ctx = BracedElemExpr ∨ ctx = CmdExpr →
        C03_IsWord (parseAs isPrint (.compound ctx) text) ctx text s) ∧
    (∃ text, QuoteCommandName isPrint s = .ok text ∧
      C03_IsWord (parseAs isPrint (.compound CmdExpr) text) CmdExpr text s) ∧
    (∃ text, QuoteVariableName isPrint s = .ok text ∧
      ∀ ctx : Int, C03_IsVariable (parseAs isPrint (.primary ctx) (36 :: text)) (36 :: text) s)

/-- the explicit tree is a word -/
theorem C03_wordTree_isWord (ctx : Int) (q : Bytes) (ty : Int) (s : Bytes)
    (hty : ty = Bareword ∨ ty = SingleQuoted ∨ ty = DoubleQuoted) :
    C03_IsWord (.ok (wordTree ctx q ty s) []) ctx q s := by
  have hnt : ty ≠ Tilde := by
    rcases hty with h | h | h <;> subst h <;> decide
  refine ⟨_, _, _, rfl, rfl, rfl, rfl, rfl, rfl, rfl, rfl, rfl, rfl, rfl, rfl, rfl, rfl, rfl, hty, hnt,
    rfl, ?_⟩
  rcases hty with h | h | h <;> subst h <;> rfl

/-- **Quoting with any preference, any context** (explicit tree): `quoteAs`
decided in context `ctxQ` returns a text that `ParseAs` turns, in every context
`ctxP` allowing at least `ctxQ`'s bareword runes, into exactly the one-word
tree with value `s` — no errors. -/
theorem C03_quoteAs_tree (isPrint : Int → Bool) (s : Bytes) (q ctxQ ctxP : Int)
    (hle : ∀ r : Int, allowedInBareword isPrint r ctxQ = true → allowedInBareword isPrint r ctxP = true) :
    ∃ text ty, quoteAs isPrint s q ctxQ = .ok (text, ty) ∧
      (ty = Bareword ∨ ty = SingleQuoted ∨ ty = DoubleQuoted) ∧
      parseAs isPrint (.compound ctxP) text = .ok (wordTree ctxP text ty s) [] :=
  quoteAs_parse isPrint s q ctxQ ctxP hle

/-- `Quote` / `QuoteAs` never panic and never run out of fuel. -/
theorem C03_quote_total (isPrint : Int → Bool) (s : Bytes) (q : Int) :
    (∃ text ty, QuoteAs isPrint s q = .ok (text, ty)) ∧ (∃ text, Quote isPrint s = .ok text) ∧
    (∃ text, QuoteCommandName isPrint s = .ok text) ∧ (∃ text, QuoteVariableName isPrint s = .ok text) := by
  obtain ⟨t1, ty1, h1, _⟩ := quoteAs_parse isPrint s q strictExpr strictExpr (CtxLe.refl _ _)
  obtain ⟨t2, ty2, h2, _⟩ := quoteAs_parse isPrint s Bareword strictExpr strictExpr (CtxLe.refl _ _)
  obtain ⟨t3, ty3, h3, _⟩ := quoteAs_parse isPrint s Bareword CmdExpr CmdExpr (CtxLe.refl _ _)
  obtain ⟨t4, h4, _⟩ := quoteVariableName_parse isPrint s NormalExpr
  refine ⟨⟨t1, ty1, h1⟩, ⟨t2, ?_⟩, ⟨t3, ?_⟩, ⟨t4, h4⟩⟩
  · simp [Quote, QuoteAs, h2, QRes.map]
  · simp [QuoteCommandName, h3, QRes.map]

/-- **(1)** the general form, as an argument, a map key, a braced element and a command head. -/
theorem C03_quote_roundtrip (isPrint : Int → Bool) (s : Bytes) (q : Int) :
    ∃ text ty, QuoteAs isPrint s q = .ok (text, ty) ∧
      (q = Bareword → Quote isPrint s = .ok text) ∧
      ∀ ctx : Int, C03_IsWord (parseAs isPrint (.compound ctx) text) ctx text s := by
  obtain ⟨text, ty, hq, hty, _⟩ := quoteAs_parse isPrint s q strictExpr strictExpr (CtxLe.refl _ _)
  refine ⟨text, ty, hq, ?_, ?_⟩
  · intro hb
    subst hb
    simp [Quote, QuoteAs, hq, QRes.map]
  · intro ctx
    obtain ⟨text', ty', hq', hty', hp⟩ := quoteAs_parse isPrint s q strictExpr ctx (CtxLe.strict _ _)
    rw [hq] at hq'
    cases hq'
    rw [hp]
    exact C03_wordTree_isWord ctx text ty s hty

/-- **(2)** the command-name form in command-head position. -/
theorem C03_quoteCommandName_roundtrip (isPrint : Int → Bool) (s : Bytes) :
    ∃ text, QuoteCommandName isPrint s = .ok text ∧
      C03_IsWord (parseAs isPrint (.compound CmdExpr) text) CmdExpr text s := by
  obtain ⟨text, ty, hq, hty, hp⟩ := quoteAs_parse isPrint s Bareword CmdExpr CmdExpr (CtxLe.refl _ _)
  refine ⟨text, by simp [QuoteCommandName, hq, QRes.map], ?_⟩
  rw [hp]
  exact C03_wordTree_isWord CmdExpr text ty s hty

/-- **(3)** the variable-name form after `$`. -/
theorem C03_quoteVariableName_roundtrip (isPrint : Int → Bool) (s : Bytes) :
    ∃ text, QuoteVariableName isPrint s = .ok text ∧
      ∀ ctx : Int, C03_IsVariable (parseAs isPrint (.primary ctx) (36 :: text)) (36 :: text) s := by
  obtain ⟨text, hq, _⟩ := quoteVariableName_parse isPrint s NormalExpr
  refine ⟨text, hq, ?_⟩
  intro ctx
  obtain ⟨text', hq', hp⟩ := quoteVariableName_parse isPrint s ctx
  rw [hq] at hq'
  cases hq'
  rw [hp]
  exact ⟨_, rfl, rfl, rfl, rfl, rfl, rfl, rfl, rfl, rfl⟩

/-- **The property at full strength.** -/
theorem C03_roundtrip : C03_full := by
  intro isPrint s
  refine ⟨?_, C03_quoteCommandName_roundtrip isPrint s, C03_quoteVariableName_roundtrip isPrint s⟩
  intro q
  obtain ⟨text, ty, h1, h2, h3⟩ := C03_quote_roundtrip isPrint s q
  exact ⟨text, ty, h1, h2, fun ctx _ => h3 ctx⟩

/-- The double-quoted form alone round-trips EVERY byte string (this is the
form every other one falls back to). -/
theorem C03_quoteDouble_roundtrip (isPrint : Int → Bool) (s : Bytes) (ctx : Int) :
    ∃ text, quoteDouble isPrint s = .ok text ∧
      C03_IsWord (parseAs isPrint (.compound ctx) text) ctx text s := by
  obtain ⟨body, hq, hd⟩ := quoteDouble_spec isPrint s
  refine ⟨_, hq, ?_⟩
  rw [parseAs_double ctx hd]
  exact C03_wordTree_isWord ctx _ DoubleQuoted s (Or.inr (Or.inr rfl))

/-- Go's unspecified iteration order over `doubleEscape` in `init()` cannot
change `doubleUnescape`: the values of the (generated) table are pairwise
distinct, and the derived table inverts it. -/
theorem C03_doubleUnescape_inverse :
    (doubleEscape.map (·.2)).Nodup ∧
    ∀ kv ∈ doubleEscape, doubleUnescape.lookup kv.2 = some kv.1 := by decide

/-! ## Non-vacuity: concrete instances, evaluated -/

/-- IsPrint of the examples: printable ASCII -/
def C03_asciiPrint : Int → Bool := fun r => decide (32 ≤ r) && decide (r ≤ 126)

/-- `a b` → `'a b'` -/
example : Quote C03_asciiPrint [97, 32, 98] = .ok [39, 97, 32, 98, 39] := by decide
/-- `~a` is quoted because of the leading tilde; `a~` is a bareword -/
example : Quote C03_asciiPrint [126, 97] = .ok [39, 126, 97, 39] ∧
    Quote C03_asciiPrint [97, 126] = .ok [97, 126] := by decide
/-- `\xff`, newline, `'` → `"\xff\n'"` -/
example : Quote C03_asciiPrint [255, 10, 39] = .ok [34, 92, 120, 102, 102, 92, 110, 39, 34] := by decide
/-- `a=b` is a bareword as a command name, quoted elsewhere -/
example : QuoteCommandName C03_asciiPrint [97, 61, 98] = .ok [97, 61, 98] ∧
    Quote C03_asciiPrint [97, 61, 98] = .ok [39, 97, 61, 98, 39] := by decide
/-- `a/b` must be quoted after `$` -/
example : QuoteVariableName C03_asciiPrint [97, 47, 98] = .ok [39, 97, 47, 98, 39] := by decide
/-- the parse of `"\xff\n'"` really is the word `\xff`, newline, `'` -/
example : ∃ t, parseAs C03_asciiPrint (.compound NormalExpr) [34, 92, 120, 102, 102, 92, 110, 39, 34] = .ok t [] ∧
    evalLit t = some [255, 10, 39] := by
  obtain ⟨text, ty, h1, _, h3⟩ := C03_quote_roundtrip C03_asciiPrint [255, 10, 39] Bareword
  have h1' : QuoteAs C03_asciiPrint [255, 10, 39] Bareword =
      .ok ([34, 92, 120, 102, 102, 92, 110, 39, 34], DoubleQuoted) := by decide
  rw [h1'] at h1
  cases h1
  obtain ⟨tree, _, _, hr, rest⟩ := h3 NormalExpr
  exact ⟨tree, hr, rest.2.2.2.2.2.2.2.2.2.2.2.2.2.2.2.2.2⟩
/-- an unquoted leading tilde is NOT a word (so the `bare := s[0] != '~'` test matters):
`~a` parses to two indexings, the first a Tilde node, and is outside the literal fragment -/
example : (match parseAs C03_asciiPrint (.compound NormalExpr) [126, 97] with
    | .ok t [] => (t.childrenOf .indexing).length == 2 && (evalLit t).isNone
    | _ => false) = true := by decide
