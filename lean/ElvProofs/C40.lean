import ElvProofs.C40.Top
/-!
C40 — Finished evaluations leave no file descriptors or goroutines behind.

Property theorems over the accounting model `ElvModel/C40/Resources.lean`
(the op tree of pkg/eval with every open / close / go / goroutine-exit event
of `pipelineOp.exec`, `formOp.exec`, `redirOp.exec`, `releaseReplacedPort`,
`PipePort`, output capture, `IterateInputs`, `peach`, `run-parallel`).

Every theorem quantifies over ALL op trees without background pipelines, all
outcomes of all leaves (`ok | exc | gone | int`), every failure flag
(`os.Pipe` failing at any form of any pipeline or in any capture,
`os.OpenFile` failing in any redirection), every initial world — in
particular every value of the interrupt flag `cancelled` — and every initial
port table.
-/
open C40

/-- The property on the model, at full strength: when the top-level `exec`
returns, exactly the descriptors that were open before are open (so
opened − closed = 0), as many goroutines finished as were started, no
descriptor was closed twice, no bookkeeping entry pointed at a nil port, and no
wait was reached that cannot complete. -/
def C40_full (cfg : Cfg) : Prop :=
  ∀ (c : Chunk), c.noBg = true → ∀ (w : World) (ports : Ports), WF w → PortsOK w ports →
    netFds w (execChunk cfg w ports c).1 = 0 ∧
    netGo w (execChunk cfg w ports c).1 = 0 ∧
    (∀ fd, fd ∈ (execChunk cfg w ports c).1.openFds ↔ fd ∈ w.openFds) ∧
    (execChunk cfg w ports c).1.openFds.Nodup ∧
    (execChunk cfg w ports c).1.badClose = w.badClose ∧
    (execChunk cfg w ports c).1.panics = w.panics ∧
    (execChunk cfg w ports c).1.hung = w.hung

/-- MAIN THEOREM.  On the code with the pipe-failure cleanup, for every op tree
without background pipelines and every outcome of every sub-op:
opened − closed = 0 and spawned − finished = 0 when the top-level exec returns. -/
theorem C40_finished_evaluation_balanced : C40_full Cfg.fixed := by
  intro c hc w ports hw hp
  exact net_of_res hw (chunk_res (cfg := Cfg.fixed) rfl c hc w ports hw hp)

/-- The same for a single pipeline (`pipelineOp.exec`), whatever its forms do and
whichever `os.Pipe` call fails. -/
theorem C40_pipeline_balanced (p : Pipeline) (hp : p.noBg = true) (w : World) (ports : Ports)
    (hw : WF w) (hports : PortsOK w ports) :
    netFds w (execPipeline Cfg.fixed w ports p).1 = 0 ∧ netGo w (execPipeline Cfg.fixed w ports p).1 = 0 :=
  let h := net_of_res hw (pipeline_res (cfg := Cfg.fixed) rfl p hp w ports hw hports)
  ⟨h.1, h.2.1⟩

/-- The invariant of the induction, for one form: if the frame owns exactly the
descriptors recorded in its `fops` (`FormInv`, with `B` the descriptors of the
surroundings), then after the redirections, the body and the stage epilogue
exactly the surroundings' descriptors are open — whether the form ended
normally, a redirection failed half-way, or the body raised. -/
theorem C40_form_closes_exactly_what_it_owns (f : Form) (hf : f.noBg = true) (w : World) (ports : Ports)
    (fops : Fops) (B : Nat → Prop) (h : FormInv w ports fops B) :
    (∀ fd, fd ∈ (runStage Cfg.fixed w ports fops f).1.openFds ↔ B fd) ∧
    live (runStage Cfg.fixed w ports fops f).1 = live w ∧
    (runStage Cfg.fixed w ports fops f).1.badClose = w.badClose ∧
    (runStage Cfg.fixed w ports fops f).1.panics = w.panics :=
  let r := runStage_res (cfg := Cfg.fixed) rfl f hf w ports fops B h
  ⟨r.2.1, r.2.2.live, r.2.2.bad, r.2.2.panics⟩

/-- One redirection (`redirOp.exec` with its deferred `releaseReplacedPort`)
keeps the frame invariant, whether it succeeds or fails: the file it opened is
recorded as owned, the port it replaced is handed over to another entry that
still uses it or closed, and nothing is owned twice. -/
theorem C40_redirection_keeps_ownership (rd : Redir) (hr : rd.noBg = true) (w : World) (ports : Ports)
    (fops : Fops) (B : Nat → Prop) (h : FormInv w ports fops B) :
    FormInv (execRedir Cfg.fixed w ports fops rd).1 (execRedir Cfg.fixed w ports fops rd).2.1
      (execRedir Cfg.fixed w ports fops rd).2.2.1 B :=
  (redir_res (cfg := Cfg.fixed) rfl rd hr w ports fops B h).1

/-- The world and port table `Evaler.Eval` starts with satisfy the hypotheses:
the theorem applies to every top-level evaluation. -/
theorem C40_top_level (c : Chunk) (hc : c.noBg = true) (base : List Nat) (next : Nat)
    (hnd : base.Nodup) (hlt : ∀ fd ∈ base, fd < next) :
    netFds (World.init base next) (execChunk Cfg.fixed (World.init base next) topPorts c).1 = 0 ∧
    netGo (World.init base next) (execChunk Cfg.fixed (World.init base next) topPorts c).1 = 0 := by
  have hw : WF (World.init base next) := ⟨hnd, hlt, by simp [World.init]⟩
  have hp : PortsOK (World.init base next) topPorts := topPorts_ok _
  have := C40_finished_evaluation_balanced c hc _ topPorts hw hp
  exact ⟨this.1, this.2.1⟩

/-! ### The unchanged tree: `os.Pipe` failing in the middle of a pipeline -/

/-- On the unchanged tree the read end of the first pipe stays open: one
descriptor leaks per evaluation (replayed on the real code by the witness ops
of the harness, under a descriptor budget of 2). -/
theorem C40_counterexample : ¬ C40_full Cfg.orig := by
  intro h
  have := (h witness (by decide) w0 topPorts w0_wf (topPorts_ok w0)).1
  revert this
  decide

/-- …and with the cleanup the same evaluation is balanced. -/
theorem C40_fixed_on_witness :
    netFds w0 (execChunk Cfg.fixed w0 topPorts witness).1 = 0 ∧
    (execChunk Cfg.fixed w0 topPorts witness).2 = .exc := by
  decide

/-- The hypothesis "no background pipelines" is needed: what a background job
was handed is still live when `exec` returns. -/
theorem C40_background_not_balanced :
    netGo w0 (execChunk Cfg.fixed w0 topPorts (.mk [.mk true none [.mk [] (.leaf .ok)]])).1 ≠ 0 := by
  decide

/-! ### Non-vacuity: the hypotheses hold for concrete, non-trivial inputs -/

example : sample.noBg = true := by decide
example : WF w0 ∧ PortsOK w0 topPorts := ⟨w0_wf, topPorts_ok w0⟩
/-- the sample really opens and closes descriptors and starts goroutines -/
example : (execChunk Cfg.fixed w0 topPorts sample).1.opened - w0.opened = 7 ∧
    (execChunk Cfg.fixed w0 topPorts sample).1.spawned = 7 ∧
    (execChunk Cfg.fixed w0 topPorts sample).2 = .exc := by decide
/-- `FormInv` is satisfiable by a frame that owns something: the frame of a
middle stage of a pipeline (owns the read end 3 and the write end 6). -/
example : ∃ (w : World) (ports : Ports) (fops : Fops) (B : Nat → Prop),
    FormInv w ports fops B ∧ ownerFd ports fops 0 = some 3 ∧ ownerFd ports fops 1 = some 6 := by
  let w : World := World.init [3] 5
  have hw : WF w := ⟨by decide, by decide, by decide⟩
  have hin : InOK w (some ⟨7, some 3, some 4⟩) := ⟨3, 4, rfl, by decide, rfl, by decide, by decide⟩
  exact ⟨_, _, _, _, stage_formInv_mid hw (topPorts_ok w) hin, by decide, by decide⟩

