/-
C44 — property theorems (positions).  `lspPositionToIdx`, `lspPositionFromIdx`,
`lspRangeFromRange` are the model of pkg/lsp/server.go after
fixes/C44-crlf-position.patch; `toIdxV .orig` etc. are the unchanged code.
The specification is ElvModel/C44/Spec.lean.
-/
import ElvProofs.C44.Lemmas
import ElvProofs.C44.Chars
import ElvProofs.C44.Server
open Go C44

/-! ## Positions -/

/-- `lspPositionFromIdx` computes the specified position — for every text
(valid UTF-8 or not) and every `idx`, in range or not; for a character-boundary
offset this is (line breaks before it with CRLF counted once, UTF-16 units
since the last one). -/
theorem C44_fromIdx_eq_spec (s : Bytes) (idx : Int) : lspPositionFromIdx s idx = specPos s idx := by
  show runCb _ (visitsFrom .fixed s.length (chars s) (⟨0, 0⟩ : Pos) false) (⟨0, 0⟩ : Pos) = _
  have h0 : (⟨0, 0⟩ : Pos) = specOfPrefix [] := by simp [specOfPrefix]
  rw [h0, fromIdx_visitsFrom, takeWhile_eq_filter_of_sorted _ _ (chars_sorted s)]
  rfl

example : lspPositionFromIdx [97, 13, 10, 240, 159, 152, 128, 98] 7 = ⟨1, 2⟩ := by decide

/-- Full round trip: every character-boundary offset (including the one
between `\r` and `\n`) is recovered from its position. -/
theorem C44_roundtrip (s : Bytes) (i : Nat) (h : i ∈ boundaries s) :
    lspPositionToIdx s (lspPositionFromIdx s i).line (lspPositionFromIdx s i).char = i := by
  rw [C44_fromIdx_eq_spec]
  have hmem := mem_visitsFrom_of_boundary s.length (chars s) (chars_sorted s) (chars_off_lt s) [] false i h
  have h0 : specOfPrefix [] = (⟨0, 0⟩ : Pos) := by simp [specOfPrefix]
  rw [h0] at hmem
  exact toIdx_visitsFrom s.length (chars s) ⟨0, 0⟩ false 0 _ hmem

example : (3 : Nat) ∈ boundaries [97, 13, 10, 98] := by decide

/-- Distinct boundary offsets have distinct positions. -/
theorem C44_position_injective (s : Bytes) (i j : Nat) (hi : i ∈ boundaries s) (hj : j ∈ boundaries s)
    (h : lspPositionFromIdx s i = lspPositionFromIdx s j) : i = j := by
  rw [← C44_roundtrip s i hi, ← C44_roundtrip s j hj, h]

/-- `lspPositionToIdx` is total and returns a character-boundary offset, for
every position: negative, past the end of a line, past the end of the text,
inside a surrogate pair. -/
theorem C44_toIdx_boundary (s : Bytes) (line char : Int) :
    lspPositionToIdx s line char ∈ boundaries s := by
  have := toIdx_mem .fixed s.length line char (chars s) ⟨0, 0⟩ false 0
  rw [visitsFrom_offsets] at this
  exact this

example : lspPositionToIdx [240, 159, 152, 128, 10, 98] 0 1 = 4 := by decide

/-- Boundary offsets lie in `[0, len(s)]`. -/
theorem C44_boundary_le (s : Bytes) (i : Nat) (h : i ∈ boundaries s) : i ≤ s.length := by
  rcases List.mem_append.mp h with h | h
  · obtain ⟨c, hc, rfl⟩ := List.mem_map.mp h
    exact Nat.le_of_lt (chars_off_lt s c hc)
  · simp at h; omega

/-- `lspRangeFromRange` converts both ends by the specification. -/
theorem C44_range_eq_spec (s : Bytes) (frm to : Int) :
    lspRangeFromRange s frm to = (specPos s frm, specPos s to) := by
  show (lspPositionFromIdx s frm, lspPositionFromIdx s to) = _
  rw [C44_fromIdx_eq_spec, C44_fromIdx_eq_spec]

/-- The unchanged code does not round-trip after a CRLF: in `"a\r\nb"` the
offset 3 (start of the second line) has position (1,0), which maps back to
offset 2 (the `\n`). -/
theorem C44_counterexample :
    ¬ ∀ (s : Bytes) (i : Nat), i ∈ boundaries s →
        toIdxV .orig s (fromIdxV .orig s i).line (fromIdxV .orig s i).char = i := by
  intro h
  have := h [97, 13, 10, 98] 3 (by decide)
  revert this
  decide

/-! ## The server -/

/-- The fixed server answers every message: no handler panics, whatever the
state, the method, the shape of `params` (absent, null, `{}`, ill-typed), the
number of content changes, the URI or the position; a response is produced
exactly for messages that carry an id.  Hypotheses: the completer parameter is
a total function (`wf`: its table covers every boundary offset — a dot the
server can compute, by `C44_toIdx_boundary`). -/
theorem C44_answers_every_request (empty : Doc) (s : Server) (hasId : Bool) (r : Req)
    (he : empty.wf) (hs : s.wf) (hr : r.wf) :
    ∃ o, serve .fixed empty s hasId r = .ok o ∧ o.srv.wf ∧ (o.reply = .none ↔ hasId = false) := by
  obtain ⟨o, ho, hw⟩ := handle_ok empty s r he hs hr
  refine ⟨⟨o.srv, if hasId then .res o.res else .none, o.diag⟩, ?_, hw, ?_⟩
  · simp [serve, ho, bind, Res.bind, pure]
  · cases hasId <;> simp

/-- non-vacuity: a well-formed document, and a request sequence member. -/
example : (⟨[], [], [(0, .err)]⟩ : Doc).wf := by
  intro b hb
  simp [boundaries, chars, charsFrom] at hb
  subst hb
  rfl

example : serve .fixed ⟨[], [], [(0, .err)]⟩ Server.new true (.raw "textDocument/didChange" .absent)
    = .ok ⟨Server.new, .res (.error (-32602)), none⟩ := by decide

/-- `didOpen` stores the document and publishes exactly its parse errors'
ranges converted by the specification. -/
theorem C44_diagnostics_open (empty : Doc) (s : Server) (hasId : Bool) (uri : Bytes) (d : Doc) :
    ∃ o, serve .fixed empty s hasId (.didOpen uri d) = .ok o ∧
      o.diag = some (uri, specRanges d) ∧ o.srv.find uri = some d := by
  refine ⟨_, rfl, ?_, ?_⟩
  · show some (updateDocument .fixed s uri d).2 = _
    rw [updateDocument_diag]
  · exact updateDocument_find_self .fixed s uri d

/-- `didChange` with a non-empty list of full-text changes: the document is the
last text, and the diagnostics are its parse errors' ranges. -/
theorem C44_diagnostics_change (empty : Doc) (s : Server) (hasId : Bool) (uri : Bytes)
    (cs : List Doc) (d : Doc) (h : cs.getLast? = some d) :
    ∃ o, serve .fixed empty s hasId (.didChange uri cs) = .ok o ∧
      o.diag = some (uri, specRanges d) ∧ o.srv.find uri = some d := by
  refine ⟨⟨(updateDocument .fixed s uri d).1, if hasId then .res .null else .none,
    some (updateDocument .fixed s uri d).2⟩, ?_, ?_, ?_⟩
  · simp [serve, handle, didChange, h, bind, Res.bind, pure]
  · show some (updateDocument .fixed s uri d).2 = _
    rw [updateDocument_diag]
  · exact updateDocument_find_self .fixed s uri d

example : ([⟨[36, 33], [(1, 2)], []⟩] : List Doc).getLast? = some ⟨[36, 33], [(1, 2)], []⟩ := rfl

/-- After any sequence of messages to a fresh fixed server, the last
diagnostics on the wire for each URI are those of the document the server
holds for it (and there are none iff it holds none): diagnostics are never
stale. -/
theorem C44_latest_diagnostics_current (empty : Doc) (reqs : List (Bool × Req)) (s' : Server)
    (os : List Out) (h : serveAll .fixed empty Server.new reqs = .ok (s', os)) (uri : Bytes) :
    lastFor uri (published os) = (s'.find uri).map specRanges := by
  have hi : Inv Server.new [] := by intro k; simp [lastFor, Server.new, Server.find, List.lookup]
  simpa using Inv_serveAll empty reqs Server.new [] s' os h hi uri

example : ∃ s' os, serveAll .fixed ⟨[], [], []⟩ Server.new
    [(false, .didOpen [1] ⟨[36, 33], [(1, 2)], []⟩), (false, .didChange [1] [⟨[97], [], []⟩])] = .ok (s', os) :=
  ⟨_, _, rfl⟩

/-! ### the unchanged tree -/

/-- Unchanged tree: a message for a known method without `params` kills the server. -/
theorem C44_counterexample_no_params :
    (serve .orig ⟨[], [], []⟩ Server.new false (.raw "initialized" .absent)).isPanic = true := by decide

/-- Unchanged tree: `didChange` with an empty change list kills the server. -/
theorem C44_counterexample_empty_changes :
    (serve .orig ⟨[], [], []⟩ Server.new false (.didChange [1] [])).isPanic = true := by decide

/-- Unchanged tree: of several full-text changes in one `didChange` the FIRST is kept. -/
theorem C44_counterexample_multi_change :
    ∃ o, serve .orig ⟨[], [], []⟩ Server.new false (.didChange [1] [⟨[97], [], []⟩, ⟨[98], [], []⟩]) = .ok o ∧
      o.srv.find [1] ≠ some ⟨[98], [], []⟩ := ⟨_, rfl, by decide⟩

/-- Unchanged tree: each `updateDocument` publishes from its own goroutine, so
the notifications of a run can reach the wire in any order; in the reversed
order of two changes the client is left with the diagnostics of the old text. -/
theorem C44_counterexample_diagnostics_order :
    ∃ s' os wire, serveAll .orig ⟨[], [], []⟩ Server.new
        [(false, .didChange [1] [⟨[36, 33], [(1, 2)], []⟩]), (false, .didChange [1] [⟨[97], [], []⟩])] = .ok (s', os) ∧
      wire.Perm (published os) ∧
      lastFor [1] wire ≠ (s'.find [1]).map fun d => d.errs.map fun e => rangeV .orig d.code e.1 e.2 :=
  ⟨_, _, [([1], []), ([1], [(⟨0, 1⟩, ⟨0, 2⟩)])], rfl, by decide, by decide⟩

/-! ## The property, assembled -/

/-- C44 at full strength over the model of the fixed tree. -/
def C44_full : Prop :=
  (∀ (s : Bytes) (idx : Int), lspPositionFromIdx s idx = specPos s idx) ∧
  (∀ (s : Bytes) (i : Nat), i ∈ boundaries s →
    lspPositionToIdx s (lspPositionFromIdx s i).line (lspPositionFromIdx s i).char = i) ∧
  (∀ (s : Bytes) (line char : Int), lspPositionToIdx s line char ∈ boundaries s ∧
    lspPositionToIdx s line char ≤ s.length) ∧
  (∀ (empty : Doc) (s : Server) (hasId : Bool) (r : Req), empty.wf → s.wf → r.wf →
    ∃ o, serve .fixed empty s hasId r = .ok o ∧ o.srv.wf ∧ (o.reply = .none ↔ hasId = false)) ∧
  (∀ (empty : Doc) (reqs : List (Bool × Req)) (s' : Server) (os : List Out),
    serveAll .fixed empty Server.new reqs = .ok (s', os) →
    ∀ uri, lastFor uri (published os) = (s'.find uri).map specRanges)

theorem C44_full_holds : C44_full :=
  ⟨C44_fromIdx_eq_spec, C44_roundtrip,
   fun s l c => ⟨C44_toIdx_boundary s l c, C44_boundary_le s _ (C44_toIdx_boundary s l c)⟩,
   C44_answers_every_request, C44_latest_diagnostics_current⟩

/-- The characters the model walks are the prelude's `for i, r := range s`
(`Go.runes`, tied to Go by C00): same offsets, same runes. -/
theorem C44_chars_are_range (s : Bytes) :
    (chars s).map (fun c => (c.off, c.r)) = (runes s).map (fun t => (t.1, t.2.1)) :=
  charsFrom_runesFrom s.length 0 s
