/-
C44 — property theorems (positions).  `lspPositionToIdx`, `lspPositionFromIdx`,
`lspRangeFromRange` are the model of pkg/lsp/server.go after
fixes/C44-crlf-position.patch; `toIdxV .orig` etc. are the unchanged code.
The specification is ElvModel/C44/Spec.lean.

Round 2: the parser is the C01 model (`C01.parse`), so the diagnostics theorems
speak about actual parse errors; `np.Find` and the `np` matchers are the C43
model's; `hover`'s choice of documentation is modelled (ElvModel/C44/Hover.lean).
-/
import ElvProofs.C44.Lemmas
import ElvProofs.C44.Chars
import ElvProofs.C44.Mono
import ElvProofs.C44.Hover
import ElvProofs.C44.Server
open Go C44

/-! ## Positions -/

/-- `lspPositionFromIdx` computes the specified position — for every text
(valid UTF-8 or not) and every `idx`, in range or not; for a character-boundary
offset this is (line breaks before it with CRLF counted once, UTF-16 units
since the last one). -/
theorem C44_fromIdx_eq_spec (s : Bytes) (idx : Int) : lspPositionFromIdx s idx = specPos s idx := by
  show runCb _ (visitsFrom .fixed s.length (chars s) (⟨0, 0⟩ : Pos) false) (⟨0, 0⟩ : Pos) = _
  have h0 : (⟨0, 0⟩ : Pos) = specOfPrefix [] := by simp [specOfPrefix]
  rw [h0, fromIdx_visitsFrom, takeWhile_eq_filter_of_sorted _ _ (chars_sorted s)]
  rfl

example : lspPositionFromIdx [97, 13, 10, 240, 159, 152, 128, 98] 7 = ⟨1, 2⟩ := by decide

/-- Full round trip: every character-boundary offset (including the one
between `\r` and `\n`) is recovered from its position. -/
theorem C44_roundtrip (s : Bytes) (i : Nat) (h : i ∈ boundaries s) :
    lspPositionToIdx s (lspPositionFromIdx s i).line (lspPositionFromIdx s i).char = i := by
  rw [C44_fromIdx_eq_spec]
  have hmem := mem_visitsFrom_of_boundary s.length (chars s) (chars_sorted s) (chars_off_lt s) [] false i h
  have h0 : specOfPrefix [] = (⟨0, 0⟩ : Pos) := by simp [specOfPrefix]
  rw [h0] at hmem
  exact toIdx_visitsFrom s.length (chars s) ⟨0, 0⟩ false 0 _ hmem

example : (3 : Nat) ∈ boundaries [97, 13, 10, 98] := by decide

/-- Distinct boundary offsets have distinct positions. -/
theorem C44_position_injective (s : Bytes) (i j : Nat) (hi : i ∈ boundaries s) (hj : j ∈ boundaries s)
    (h : lspPositionFromIdx s i = lspPositionFromIdx s j) : i = j := by
  rw [← C44_roundtrip s i hi, ← C44_roundtrip s j hj, h]

/-- `lspPositionToIdx` is total and returns a character-boundary offset, for
every position: negative, past the end of a line, past the end of the text,
inside a surrogate pair. -/
theorem C44_toIdx_boundary (s : Bytes) (line char : Int) :
    lspPositionToIdx s line char ∈ boundaries s := by
  have := toIdx_mem .fixed s.length line char (chars s) ⟨0, 0⟩ false 0
  rw [visitsFrom_offsets] at this
  exact this

example : lspPositionToIdx [240, 159, 152, 128, 10, 98] 0 1 = 4 := by decide

/-- Boundary offsets lie in `[0, len(s)]`. -/
theorem C44_boundary_le (s : Bytes) (i : Nat) (h : i ∈ boundaries s) : i ≤ s.length := by
  rcases List.mem_append.mp h with h | h
  · obtain ⟨c, hc, rfl⟩ := List.mem_map.mp h
    exact Nat.le_of_lt (chars_off_lt s c hc)
  · simp at h; omega

/-- `lspRangeFromRange` converts both ends by the specification. -/
theorem C44_range_eq_spec (s : Bytes) (frm to : Int) :
    lspRangeFromRange s frm to = (specPos s frm, specPos s to) := by
  show (lspPositionFromIdx s frm, lspPositionFromIdx s to) = _
  rw [C44_fromIdx_eq_spec, C44_fromIdx_eq_spec]

/-- The unchanged code does not round-trip after a CRLF: in `"a\r\nb"` the
offset 3 (start of the second line) has position (1,0), which maps back to
offset 2 (the `\n`). -/
theorem C44_counterexample :
    ¬ ∀ (s : Bytes) (i : Nat), i ∈ boundaries s →
        toIdxV .orig s (fromIdxV .orig s i).line (fromIdxV .orig s i).char = i := by
  intro h
  have := h [97, 13, 10, 98] 3 (by decide)
  revert this
  decide

/-! ## The server -/

/-- The one fact about the parser that `hover` needs and C01 does not state:
every `Indexing` node has its `Head` (`(*Indexing).parse` starts by parsing a
`Primary` and adding it).  NOT PROVED here (it needs a pass over every grammar
function of the C01 model, like C01's well-formedness proof); it is a
hypothesis of `C44_answers_every_request`/`C44_hover_no_panic` and is sampled
by the differential run: the model's `hover` prints `PANIC` on a tree without
such a head, the real server answers. -/
def C44_parser_heads_full : Prop := ∀ isPrint : Int → Bool, ParserHeads isPrint

/-- The fixed server answers every message: no handler panics, whatever the
state, the method, the shape of `params` (absent, null, `{}`, ill-typed), the
number of content changes, the text (the real parser runs on it: it returns
for every byte string, `C01_total_lossless`), the URI or the position; a
response is produced exactly for messages that carry an id.  Hypotheses: the
completer parameter is a total function (`wf`: its table covers every boundary
offset — a dot the server can compute, by `C44_toIdx_boundary`), and — for
`hover` only — `ParserHeads` (see `C44_parser_heads_full`). -/
theorem C44_answers_every_request (lib : Lib) (empty : Text) (s : Server) (hasId : Bool) (r : Req)
    (he : empty.wf) (hs : s.wf lib) (hr : r.wf) (hh : ParserHeads lib.isPrint) :
    ∃ o, serve .fixed lib empty s hasId r = .ok o ∧ o.srv.wf lib ∧ (o.reply = .none ↔ hasId = false) := by
  obtain ⟨o, ho, hw⟩ := handle_ok lib empty s r he hs hr hh
  refine ⟨⟨o.srv, if hasId then .res o.res else .none, o.diag⟩, ?_, hw, ?_⟩
  · simp [serve, ho, bind, Res.bind, pure]
  · cases hasId <;> simp

/-- Every message except `hover` needs no hypothesis on the parser at all. -/
theorem C44_answers_every_request_but_hover (lib : Lib) (empty : Text) (s : Server) (hasId : Bool) (r : Req)
    (he : empty.wf) (hs : s.wf lib) (hr : r.wf)
    (hnh : (∀ uri l c, r ≠ .hover uri l c) ∧ ∀ pk, r ≠ .raw "textDocument/hover" pk) :
    ∃ o, serve .fixed lib empty s hasId r = .ok o ∧ o.srv.wf lib ∧ (o.reply = .none ↔ hasId = false) := by
  have key : ∃ o, handle .fixed lib empty s r = .ok o ∧ o.srv.wf lib := by
    cases r with
    | didOpen uri d => exact didOpen_ok lib s uri d hs hr
    | didChange uri cs => exact didChange_ok lib s uri cs hs hr
    | hover uri l c => exact absurd rfl (hnh.1 uri l c)
    | completion uri l c => exact completion_ok lib s uri l c hs
    | raw m pk =>
      simp only [handle]
      split
      · exact ⟨_, rfl, hs⟩
      split
      · rename_i h; simp at h
      split
      · exact ⟨_, rfl, hs⟩
      split
      · exact ⟨_, rfl, hs⟩
      split
      · exact ⟨_, rfl, hs⟩
      split
      · exact didOpen_ok lib s [] empty hs he
      split
      · exact didChange_ok lib s [] [] hs (by simp)
      split
      · rename_i hm; exact absurd (by rw [hm]) (hnh.2 pk)
      · exact completion_ok lib s [] 0 0 hs
  obtain ⟨o, ho, hw⟩ := key
  refine ⟨⟨o.srv, if hasId then .res o.res else .none, o.diag⟩, ?_, hw, ?_⟩
  · simp [serve, ho, bind, Res.bind, pure]
  · cases hasId <;> simp

/-- a library with nothing printable beyond ASCII, no home directories, no documentation -/
def C44_lib0 : Lib := { isPrint := fun _ => false, home := fun _ => none, docs := [] }

/-- non-vacuity: a well-formed text, and a request sequence member. -/
example : (⟨[], [(0, .err)]⟩ : Text).wf := by
  intro b hb
  simp [boundaries, chars, charsFrom] at hb
  subst hb
  rfl

example : (match serve .fixed C44_lib0 ⟨[], [(0, .err)]⟩ Server.new true (.raw "textDocument/didChange" .absent) with
    | .ok o => decide (o.reply = .res (.error (-32602))) && o.diag.isNone
    | _ => false) = true := by decide

/-! ### diagnostics are the parse errors of the stored text -/

/-- `didOpen` parses the text with the real parser, stores the document and
publishes exactly its parse errors: one diagnostic per error, in order, each
with the range OF THAT ERROR converted by the specification and that error's
message (`specDiags d = d.errs.map (specDiag d.code)`). -/
theorem C44_diagnostics_open (lib : Lib) (empty : Text) (s : Server) (hasId : Bool) (uri : Bytes) (t : Text) :
    ∃ o d, serve .fixed lib empty s hasId (.didOpen uri t) = .ok o ∧
      d.code = t.code ∧ C01.parse lib.isPrint t.code = .ok d.tree d.errs ∧
      o.diag = some (uri, d.errs.map (specDiag t.code)) ∧ o.srv.find uri = some d := by
  obtain ⟨d, hd, he⟩ := updateText_eq lib s uri t
  obtain ⟨hc, _, hp⟩ := parseText_inv hd
  refine ⟨⟨(updateDocument .fixed s uri d).1, if hasId then .res .null else .none,
    some (updateDocument .fixed s uri d).2⟩, d, ?_, hc, by rw [← hc]; exact hp, ?_, ?_⟩
  · simp only [serve, handle, didOpen, he, bind, Res.bind, pure]
  · show some (updateDocument .fixed s uri d).2 = _
    rw [updateDocument_diag, specDiags, hc]
  · exact updateDocument_find_self .fixed s uri d

/-- `didChange` with a non-empty list of full-text changes: the document is the
last text, and the diagnostics are its parse errors. -/
theorem C44_diagnostics_change (lib : Lib) (empty : Text) (s : Server) (hasId : Bool) (uri : Bytes)
    (cs : List Text) (t : Text) (h : cs.getLast? = some t) :
    ∃ o d, serve .fixed lib empty s hasId (.didChange uri cs) = .ok o ∧
      d.code = t.code ∧ C01.parse lib.isPrint t.code = .ok d.tree d.errs ∧
      o.diag = some (uri, d.errs.map (specDiag t.code)) ∧ o.srv.find uri = some d := by
  obtain ⟨d, hd, he⟩ := updateText_eq lib s uri t
  obtain ⟨hc, _, hp⟩ := parseText_inv hd
  refine ⟨⟨(updateDocument .fixed s uri d).1, if hasId then .res .null else .none,
    some (updateDocument .fixed s uri d).2⟩, d, ?_, hc, by rw [← hc]; exact hp, ?_, ?_⟩
  · simp only [serve, handle, didChange, h, he, bind, Res.bind, pure]
  · show some (updateDocument .fixed s uri d).2 = _
    rw [updateDocument_diag, specDiags, hc]
  · exact updateDocument_find_self .fixed s uri d

example : ([⟨[36, 33], []⟩] : List Text).getLast? = some ⟨[36, 33], []⟩ := rfl

/-- Pointwise form (the statement the seeded change
`seeded/C44-diagnostic-range-reused` violates): the `i`-th diagnostic is made
from the `i`-th parse error and from nothing else — its range is the conversion
of THAT error's range, its message is THAT error's message; there are exactly
as many diagnostics as errors. -/
theorem C44_diagnostic_is_own_error (code : Bytes) (errs : List C01.PErr) :
    (errs.map (specDiag code)).length = errs.length ∧
    ∀ i : Nat, (errs.map (specDiag code))[i]? =
      errs[i]?.map fun e => ((specPos code e.frm, specPos code e.to), e.msg) := by
  refine ⟨List.length_map _, fun i => ?_⟩
  rw [List.getElem?_map]
  rfl

/-- Two errors with the same start and different ends (the witness of the
seeded change: `"\x\400"` gives `[1,2)` "should be hex digit" and `[1,5)`
"should be below 256") get different diagnostics. -/
example : (([⟨1, 2, false, .invalidEscapeHex⟩, ⟨1, 5, false, .invalidEscapeOctOverflow⟩] : List C01.PErr).map
    (specDiag [34, 92, 120, 92, 52, 48, 48, 34])).map (·.1) = [(⟨0, 1⟩, ⟨0, 2⟩), (⟨0, 1⟩, ⟨0, 5⟩)] := by decide

/-- The published ranges are those of actual parse errors, hence inside the
text (`C01_error_ranges`): every diagnostic of a parsed text comes from an
error with `from ≤ to ≤ len`, so its LSP range is well ordered (start ≤ end)
and ends no later than the position of the end of the text. -/
theorem C44_diagnostics_in_bounds (isPrint : Int → Bool) (code : Bytes) (tree : C01.Node)
    (errs : List C01.PErr) (h : C01.parse isPrint code = .ok tree errs) :
    ∀ x ∈ errs.map (specDiag code), ∃ e ∈ errs, x = specDiag code e ∧
      e.frm ≤ e.to ∧ e.to ≤ code.length ∧
      Pos.le x.1.1 x.1.2 ∧ Pos.le x.1.2 (specPos code code.length) := by
  intro x hx
  obtain ⟨e, he, rfl⟩ := List.mem_map.mp hx
  obtain ⟨h1, h2⟩ := C01_error_ranges isPrint code tree errs h e he
  exact ⟨e, he, rfl, h1, h2, specPos_mono code _ _ (by omega), specPos_mono code _ _ (by omega)⟩

set_option maxRecDepth 100000 in
/-- non-vacuity: the parser returns errors on `$!` … -/
example : ∃ t errs, C01.parse (fun _ => false) [36, 33] = .ok t errs ∧ errs ≠ [] := by
  obtain ⟨t, errs, h⟩ := C01_isOk_iff (C01.parse (fun _ => false) [36, 33]) (by decide)
  refine ⟨t, errs, h, ?_⟩
  have hl : (match C01.parse (fun _ => false) [36, 33] with | .ok _ e => decide (e.length > 0) | _ => false) = true := by
    decide
  rw [h] at hl
  intro he; rw [he] at hl; cases hl

/-- After any sequence of messages to a fresh fixed server, the last
diagnostics on the wire for each URI are those of the document the server
holds for it (and there are none iff it holds none): diagnostics are never
stale. -/
theorem C44_latest_diagnostics_current (lib : Lib) (empty : Text) (reqs : List (Bool × Req)) (s' : Server)
    (os : List Out) (h : serveAll .fixed lib empty Server.new reqs = .ok (s', os)) (uri : Bytes) :
    lastFor uri (published os) = (s'.find uri).map specDiags := by
  have hi : Inv Server.new [] := by intro k; simp [lastFor, Server.new, Server.find, List.lookup]
  simpa using Inv_serveAll lib empty reqs Server.new [] s' os h hi uri

/-- … and the stored documents are parsed: what `specDiags` converts are the
errors the parser returned for the stored text. -/
theorem C44_stored_documents_parsed (lib : Lib) (empty : Text) (s : Server) (hasId : Bool) (r : Req)
    (o : Out) (hs : ∀ e ∈ s.docs, e.2.Parsed lib) (h : serve .fixed lib empty s hasId r = .ok o) :
    ∀ e ∈ o.srv.docs, e.2.Parsed lib := by
  simp only [serve, bind, Res.bind] at h
  cases hh : handle .fixed lib empty s r with
  | exc e => simp [hh] at h
  | panic w => simp [hh] at h
  | ok ho =>
    simp only [hh, pure, Res.ok.injEq] at h
    subst h
    rcases handle_shape lib empty s r ho hh with ⟨h1, _⟩ | ⟨uri, t, d, hd, h1, _⟩
    · simpa [h1] using hs
    · intro e he
      simp only [h1, updateDocument] at he
      rcases List.mem_cons.mp he with rfl | he
      · exact (parseText_inv hd).2.2
      · exact hs e (List.mem_filter.mp he).1

example : ∃ s' os, serveAll .fixed C44_lib0 ⟨[], []⟩ Server.new
    [(false, .raw "initialized" .obj), (true, .hover [1] 0 0)] = .ok (s', os) :=
  ⟨_, _, rfl⟩

/-! ### hover: `np.Find` on parsed trees, no panic, which documentation -/

/-- `np.Find(root, pos)` on the tree the parser returns: whenever the position
is inside the root's range (or the root is a leaf) the `descend:` loop reaches
a leaf — it never falls out with `nil` — because every node's children tile its
range (`C01_wf_nodes`); the path goes from a leaf (no children) up to the root,
every node on it is a node of the tree, hence has its range inside the text,
and every node below the root contains the position. -/
theorem C44_find_on_parsed_tree (isPrint : Int → Bool) (src : Bytes) (tree : C01.Node)
    (errs : List C01.PErr) (h : C01.parse isPrint src = .ok tree errs) (pos : Int)
    (hin : tree.children = [] ∨ ((tree.frm : Int) ≤ pos ∧ pos < (tree.to : Int))) :
    ∃ path pre leaf, C43.findN pos false 0 tree = some path ∧
      path = pre ++ [(tree, 0)] ∧ path.head? = some leaf ∧ leaf.1.children = [] ∧
      (∀ x ∈ pre, (x.1.frm : Int) ≤ pos ∧ pos < (x.1.to : Int)) ∧
      (∀ x ∈ path, C01_Desc tree x.1 ∧ x.1.frm ≤ x.1.to ∧ x.1.to ≤ src.length) := by
  have hok : AllOk src tree := (C01_lossless_partial isPrint src tree errs h).1
  obtain ⟨path, hp⟩ := findN_some src pos tree 0 hok hin
  obtain ⟨pre, hpre, hall, leaf, hhead, hleaf⟩ := findN_path pos tree 0 path hp
  refine ⟨path, pre, leaf, hp, hpre, hhead, hleaf, hall, ?_⟩
  intro x hx
  have hd := C43.findN_desc pos false tree 0 path hp x hx
  have hn := hok _ hd
  exact ⟨hd, hn.1, hn.2.1⟩

set_option maxRecDepth 100000 in
/-- non-vacuity: in `$a` offset 1 is inside the root. -/
example : (match C01.parse (fun _ => false) [36, 97] with
    | .ok t _ => decide ((t.frm : Int) ≤ 1 ∧ (1 : Int) < t.to) | _ => false) = true := by decide

/-- `hover`'s choice of documentation returns (no nil dereference in
`np.Find`, the matchers or `PurelyEvalPartialCompound`) for every parsed text
and every offset.  Hypothesis: `ParserHeads` (see `C44_parser_heads_full`). -/
theorem C44_hover_no_panic (lib : Lib) (src : Bytes) (tree : C01.Node) (errs : List C01.PErr)
    (h : C01.parse lib.isPrint src = .ok tree errs) (hh : ParserHeads lib.isPrint) (pos : Int) :
    ∃ c, hoverContent lib tree pos = .ok c :=
  hoverContent_ok lib tree pos (hh src tree errs h)

/-- Which documentation is shown for which node: if `hover` shows a text, the
leaf `np.Find` found at the position is a `Primary`, and the text is
* the documentation of `$name`, the leaf being the variable use `$name`, or
* the documentation of the command `v`, where the leaf is a piece of the head
  word (`form.Head`, child 0 of the form) of a command and `v` is the static
  value of that word up to the end of the piece under the cursor. -/
theorem C44_hover_shows_symbol_at_position (lib : Lib) (tree : C01.Node) (pos : Int) (md : String)
    (h : hoverContent lib tree pos = .ok (some md)) :
    ∃ leaf rest, npFind tree pos = leaf :: rest ∧ leaf.1.kind = .primary ∧
      ((leaf.1.ptype = Gen.C01Chars.Variable ∧ docSource lib.docs (36 :: leaf.1.value) = some md) ∨
       (∃ inn cn form rest' v, rest = inn :: (cn, 0) :: form :: rest' ∧
          inn.1.kind = .indexing ∧ cn.kind = .compound ∧ form.1.kind = .form ∧
          C43.purelyEvalPartialCompound (nilEvalerEnv lib) cn (inn.1.to : Int) = .ok (some v) ∧
          docSource lib.docs v = some md)) :=
  hoverContent_some lib tree pos md h

/-- Outside every leaf (`np.Find` returns nil: e.g. the end of the text, or a
position after the parsed part) nothing is shown. -/
theorem C44_hover_nothing_outside (lib : Lib) (tree : C01.Node) (pos : Int)
    (h : C43.findN pos false 0 tree = none) : hoverContent lib tree pos = .ok none := by
  simp [hoverContent, npFind, h, hoverVariable, hoverCommand, C43.matchKind, C43.matchSimpleExpr]

/-- a documentation table with `echo` and `$paths` -/
def C44_docs1 : DocTable := [([], ⟨[(strBytes "echo", "doc-echo")], [(strBytes "$paths", "doc-paths")]⟩)]

set_option maxRecDepth 100000 in
/-- non-vacuity: hovering over `echo` in `echo $paths` shows the command's
documentation, over `$paths` the variable's, at the end of the text nothing. -/
example : (match C01.parse (fun _ => false) (strBytes "echo $paths") with
    | .ok t _ =>
      let lib : Lib := { C44_lib0 with docs := C44_docs1 }
      decide (hoverContent lib t 2 = .ok (some "doc-echo") ∧ hoverContent lib t 7 = .ok (some "doc-paths") ∧
        hoverContent lib t 11 = .ok none)
    | _ => false) = true := by decide +kernel

/-! ### the unchanged tree -/

/-- Unchanged tree: a message for a known method without `params` kills the server. -/
theorem C44_counterexample_no_params :
    (serve .orig C44_lib0 ⟨[], []⟩ Server.new false (.raw "initialized" .absent)).isPanic = true := by decide

/-- Unchanged tree: `didChange` with an empty change list kills the server. -/
theorem C44_counterexample_empty_changes :
    (serve .orig C44_lib0 ⟨[], []⟩ Server.new false (.didChange [1] [])).isPanic = true := by decide

/-- Unchanged tree: of several full-text changes in one `didChange` the FIRST is kept. -/
theorem C44_counterexample_multi_change :
    ∃ o, serve .orig C44_lib0 ⟨[], []⟩ Server.new false (.didChange [1] [⟨[97], []⟩, ⟨[98], []⟩]) = .ok o ∧
      (o.srv.find [1]).map (·.code) ≠ some [98] := ⟨_, rfl, by decide +kernel⟩

/-- Unchanged tree: each `updateDocument` publishes from its own goroutine, so
the notifications of a run can reach the wire in any order; in the reversed
order of two changes the client is left with the diagnostics of the old text
(`$!` has a parse error, `a` has none). -/
theorem C44_counterexample_diagnostics_order :
    ∃ s' os wire, serveAll .orig C44_lib0 ⟨[], []⟩ Server.new
        [(false, .didChange [1] [⟨[36, 33], []⟩]), (false, .didChange [1] [⟨[97], []⟩])] = .ok (s', os) ∧
      wire.Perm (published os) ∧
      lastFor [1] wire ≠ (s'.find [1]).map fun d => d.errs.map fun e => (rangeV .orig d.code e.frm e.to, e.msg) :=
  ⟨_, _, [([1], []), ([1], [((⟨0, 1⟩, ⟨0, 2⟩), .shouldBeVariableName)])], rfl, by decide +kernel, by decide +kernel⟩

/-! ## The property, assembled -/

/-- C44 at full strength over the model of the fixed tree. -/
def C44_full : Prop :=
  (∀ (s : Bytes) (idx : Int), lspPositionFromIdx s idx = specPos s idx) ∧
  (∀ (s : Bytes) (i : Nat), i ∈ boundaries s →
    lspPositionToIdx s (lspPositionFromIdx s i).line (lspPositionFromIdx s i).char = i) ∧
  (∀ (s : Bytes) (line char : Int), lspPositionToIdx s line char ∈ boundaries s ∧
    lspPositionToIdx s line char ≤ s.length) ∧
  (∀ (lib : Lib) (empty : Text) (s : Server) (hasId : Bool) (r : Req), empty.wf → s.wf lib → r.wf →
    ParserHeads lib.isPrint →
    ∃ o, serve .fixed lib empty s hasId r = .ok o ∧ o.srv.wf lib ∧ (o.reply = .none ↔ hasId = false)) ∧
  (∀ (lib : Lib) (empty : Text) (reqs : List (Bool × Req)) (s' : Server) (os : List Out),
    serveAll .fixed lib empty Server.new reqs = .ok (s', os) →
    ∀ uri, lastFor uri (published os) = (s'.find uri).map specDiags)

theorem C44_full_holds : C44_full :=
  ⟨C44_fromIdx_eq_spec, C44_roundtrip,
   fun s l c => ⟨C44_toIdx_boundary s l c, C44_boundary_le s _ (C44_toIdx_boundary s l c)⟩,
   C44_answers_every_request, C44_latest_diagnostics_current⟩

/-- The characters the model walks are the prelude's `for i, r := range s`
(`Go.runes`, tied to Go by C00): same offsets, same runes. -/
theorem C44_chars_are_range (s : Bytes) :
    (chars s).map (fun c => (c.off, c.r)) = (runes s).map (fun t => (t.1, t.2.1)) :=
  charsFrom_runesFrom s.length 0 s
