/-
C08 — Values that are eq are the same map key.

Model: ElvModel/C08/Model.lean (`Equal`, `Hash` of the tree with
fixes/C08-negzero-hash.patch and fixes/C08-equaler-fieldmap-symmetry.patch;
`HashOld` = unfixed float hash).  `WF` (ElvModel/C08/Spec.lean): every map
inside a value has pairwise non-eq keys — the shape `C08_assoc_wf` /
`C08_dissoc_wf` show is preserved by the map operations, starting from the
empty map.  `rh` is the hash of identity kinds (closures, namespaces, …): the
theorems hold for every such function.  Maps are the abstract maps of C07
(association lists modulo `Equal`); `C08_hamt_lookup` is the link to a
hash-bucketed lookup.
-/
import ElvProofs.C08.MapLemmas

open C08

/-- The property at full strength: eq values hash identically. -/
def C08_full : Prop :=
  ∀ (rh : Nat → Nat → UInt32) (a b : Val), WF a → WF b → Equal a b = true → Hash rh a = Hash rh b

/-- eq values hash identically (fixed tree), for all values: numbers in all four
representations, ±0.0, strings, nested lists, maps in any insertion order,
field maps vs maps, identity kinds. -/
theorem C08_equal_hash : C08_full :=
  fun rh _ _ wa wb h => Equal_hash rh wa wb h

/-- non-vacuity: ±0.0, and a map vs the same map built in the other order vs a field map. -/
example : Equal (.float F64.posZero) (.float F64.negZero) = true ∧ F64.posZero ≠ F64.negZero := by
  constructor
  · simp [Equal, F64.eq, F64.isNaN, F64.key, F64.mag, F64.neg, F64.posZero, F64.negZero, F64.expInf]
  · decide
example :
    let a := Val.map false [(.str [97], .int 1), (.str [98], .float F64.posZero)]
    let b := Val.map false [(.str [98], .float F64.negZero), (.str [97], .int 1)]
    let c := Val.map true [(.str [98], .float F64.negZero), (.str [97], .int 1)]
    WF a ∧ WF b ∧ WF c ∧ Equal a b = true ∧ Equal a c = true ∧ Equal c a = true := by
  simp [WF, WFEntries, NoDupKeys, Equal, entriesEq, lookupEq, F64.eq, F64.isNaN, F64.key, F64.mag, F64.neg,
    F64.posZero, F64.negZero, F64.expInf]

/-- The unfixed tree violates the property: `0.0` and `-0.0` are eq but hash to
`0` and `0x80000000` (witness replayed on the real code by harness/corpus/C08.txt). -/
theorem C08_counterexample :
    ¬ ∀ (rh : Nat → Nat → UInt32) (a b : Val), WF a → WF b → Equal a b = true → HashOld rh a = HashOld rh b := by
  intro h
  have := h (fun _ _ => 0) (.float F64.posZero) (.float F64.negZero) (by simp [WF]) (by simp [WF])
    (by simp [Equal, F64.eq, F64.isNaN, F64.key, F64.mag, F64.neg, F64.posZero, F64.negZero, F64.expInf])
  revert this
  simp only [HashOld, HashG, hashFloatOld]
  decide

/-- … and a hash-bucketed map (what the HAMT does below its first level) then
misses an eq key: the unfixed tree's `has-key [&(num 0.0)=a &(num 1073741824)=b] (num -0.0)` is false. -/
theorem C08_counterexample_map :
    mapIndexH (HashOld fun _ _ => 0) (.float F64.negZero) [(.float F64.posZero, .str [97])] = none ∧
    mapIndex (.float F64.negZero) [(.float F64.posZero, .str [97])] = some (.str [97]) := by
  constructor
  · simp only [mapIndexH, HashOld, HashG, hashFloatOld]
    decide
  · simp [mapIndex, Equal, F64.eq, F64.isNaN, F64.key, F64.mag, F64.neg, F64.posZero, F64.negZero, F64.expInf]

/-- An int key `0 ≤ n < 2^32` hashes to `n`: the neighbour keys the harness
puts next to a probe (sharing the low 5k bits of its hash) really sit on the
probe's trie path. -/
theorem C08_hash_small_int (rh : Nat → Nat → UInt32) (n : Nat) (h : n < 2 ^ 32) :
    Hash rh (.int (n : Int)) = UInt32.ofNat n :=
  hash_small_nat rh n h

/-- With consistent hashes the bucketed lookup is the plain lookup. -/
theorem C08_hamt_lookup (rh : Nat → Nat → UInt32) (k : Val) (m : List (Val × Val))
    (wk : WF k) (wm : WF (.map false m)) : mapIndexH (Hash rh) k m = mapIndex k m :=
  mapIndexH_eq rh wk m (by simp only [WF] at wm; exact wm.1)

/-- has-key and indexing give identical results for eq keys. -/
theorem C08_index_eq_keys (a b : Val) (m : List (Val × Val)) (wa : WF a) (wb : WF b)
    (wm : WF (.map false m)) (h : Equal a b = true) :
    mapIndex a m = mapIndex b m ∧ mapHasKey a m = mapHasKey b m := by
  simp only [WF] at wm
  have := mapIndex_congr wa wb h m wm.1
  exact ⟨this, by simp [mapHasKey, this]⟩

/-- dissoc gives the identical map for eq keys. -/
theorem C08_dissoc_eq_keys (a b : Val) (m : List (Val × Val)) (wa : WF a) (wb : WF b)
    (wm : WF (.map false m)) (h : Equal a b = true) : mapDissoc a m = mapDissoc b m := by
  simp only [WF] at wm
  exact mapDissoc_congr wa wb h m wm.1

/-- assoc with eq keys gives maps of the same size, with the same values in the
same positions, indistinguishable by any lookup. -/
theorem C08_assoc_eq_keys (a b v : Val) (m : List (Val × Val)) (wa : WF a) (wb : WF b)
    (wm : WF (.map false m)) (h : Equal a b = true) :
    (mapAssoc a v m).length = (mapAssoc b v m).length ∧
    (mapAssoc a v m).map Prod.snd = (mapAssoc b v m).map Prod.snd ∧
    ∀ c, WF c → mapIndex c (mapAssoc a v m) = mapIndex c (mapAssoc b v m) := by
  simp only [WF] at wm
  exact mapAssoc_congr wa wb h v m wm.1

/-- No map ever holds two eq keys: assoc preserves well-formedness … -/
theorem C08_assoc_wf (a v : Val) (m : List (Val × Val)) (wa : WF a) (wv : WF v)
    (wm : WF (.map false m)) : WF (.map false (mapAssoc a v m)) := by
  simp only [WF] at wm ⊢
  exact ⟨mapAssoc_wfEntries wa wv wm.1, mapAssoc_noDup wa m wm.1 wm.2⟩

/-- … and so does dissoc (the empty map is trivially well-formed). -/
theorem C08_dissoc_wf (a : Val) (m : List (Val × Val)) (wm : WF (.map false m)) :
    WF (.map false (mapDissoc a m)) := by
  simp only [WF] at wm ⊢
  exact ⟨WFEntries_of_mem fun p hp => WFEntries_mem wm.1 p (mem_mapDissoc hp), mapDissoc_noDup m wm.2⟩

/-- assoc of `b` after assoc of an eq `a` replaces, it does not add. -/
theorem C08_assoc_no_growth (a b v v' : Val) (m : List (Val × Val)) (wa : WF a) (wb : WF b) (wv : WF v)
    (wm : WF (.map false m)) (haa : Equal a a = true) (h : Equal a b = true) :
    (mapAssoc b v' (mapAssoc a v m)).length = (mapAssoc a v m).length := by
  apply mapAssoc_length_of_hasKey
  have w' := C08_assoc_wf a v m wa wv wm
  rw [← (C08_index_eq_keys a b _ wa wb w' h).2]
  exact mapHasKey_mapAssoc_self haa m

/-- non-vacuity of the map theorems: a two-entry map, probes `0.0` / `-0.0`. -/
example :
    let m : List (Val × Val) := [(.float F64.posZero, .str [97]), (.int 1073741824, .str [98])]
    WF (.map false m) ∧ mapHasKey (.float F64.negZero) m = true := by
  simp [WF, WFEntries, NoDupKeys, Equal, mapHasKey, mapIndex, F64.eq, F64.isNaN, F64.key, F64.mag, F64.neg,
    F64.posZero, F64.negZero, F64.expInf]
