/-
C29 — history navigation visits matching commands newest-first, then back.
Model: ElvModel/C29 (mem_store.go, db_store.go, hybrid_store.go,
dedup_cursor.go over the store model of C24).  Spec: ElvModel/C29/Spec.lean
(a cursor is an index into the session's view).

Setting of the theorems.  The session starts on a database holding the
well-formed log `l` (`S l d`, C24); `NewDBStore` freezes `upper = l.counter+1`.
`sess` is the session's in-memory history when the cursor is created.  A walk
is a list of steps `(move, db)`: the move and the database *as it is at that
moment*; `Frozen l.entries upper db` says that database still holds the
snapshot below `upper` — which every addition by this or any other session
preserves (`C29_additions_invisible`).
-/
import ElvProofs.C29.Session
open Go C24 C24.Spec C29 C29.Spec

/-- At session start the snapshot is the whole log, and any number of later
additions to the database — by this session's `AddCmd` or by other sessions —
leave it frozen below `upper`: they are numbered `upper` or more, so the shared
cursor never shows them. -/
theorem C29_additions_invisible (l : Log) (d : Bucket) (hwf : l.WF) (hc : l.counter + 1 < two63) :
    newDBStore (S l d) = ⟨((l.counter + 1 : Nat) : Int)⟩ ∧
    Frozen l.entries (l.counter + 1) (S l d) ∧
    ∀ (db : Store) (t : Bytes), Frozen l.entries (l.counter + 1) db → db.cmd.sequence + 1 < two63 →
      Frozen l.entries (l.counter + 1) (addCmd db t).1 := by
  obtain ⟨h1, _, h3⟩ := session_start l d hwf hc
  exact ⟨h1, h3, fun db t hf hb => (frozen_add _ _ db t hf hb).1⟩

example : Frozen [(1, [7])] 2 (addCmd (addCmd (S ⟨[(1, [7])], 1⟩ Bucket.empty) [7, 7]).1 [8]).1 := by
  have h0 : Log.WF ⟨[(1, [7])], 1⟩ := ⟨by simp, by simp⟩
  have s := C29_additions_invisible ⟨[(1, [7])], 1⟩ Bucket.empty h0 (by decide)
  have f1 := s.2.2 _ [7, 7] s.2.1 (by decide)
  exact s.2.2 _ [8] f1 (by
    obtain ⟨l, d, e, _⟩ := f1
    decide)

/-- The view of a cursor: the session part (newer) followed by the stored part. -/
theorem C29_view_split (stored session : List Cmd) (p : Bytes) :
    view stored session p = (session.filter (isMatch p)).reverse ++ (stored.filter (isMatch p)).reverse :=
  view_split stored session p

/-- MAIN (without de-duplication).  For every prefix, every session history and
every walk — every sequence of Prev/Next, interleaved with arbitrary additions
to the database — the hybrid cursor behaves as an index into the view, starting
at -1: `Prev ↦ min (i+1) |view|`, `Next ↦ max (i-1) (-1)`, and after each move
`Get` returns `view[i]`, or end of history at either end.  No move fails. -/
theorem C29_walk_hybrid (p : Bytes) (l : Log) (d : Bucket) (hwf : l.WF) (hc : l.counter + 1 < two63)
    (sess : List Cmd) (steps : List (Move × Store))
    (hfro : ∀ st ∈ steps, Frozen l.entries (l.counter + 1) st.2) :
    runWalk ((⟨newDBStore (S l d), ⟨sess⟩⟩ : HybridStore).cursor p) (steps.map fun st => (st.1, hybOps st.2))
      = .ok (walkGets (view (l.entries.map toCmd) sess p) (-1) (steps.map (·.1))) := by
  obtain ⟨h1, hsnap, _⟩ := session_start l d hwf hc
  rw [h1]
  have := sim_walk (view (l.entries.map toCmd) sess p) (RhybC p l.entries (l.counter + 1) sess)
    (steps.map fun st => (st.1, hybOps st.2)) _ (-1)
    (by
      intro st hst
      obtain ⟨st0, h0, rfl⟩ := List.mem_map.1 hst
      exact hyb_sim p l.entries (l.counter + 1) hsnap sess st0.2 (hfro st0 h0))
    (hyb_init p l.entries (l.counter + 1) sess)
  simpa [List.map_map, Function.comp_def] using this

/-- MAIN (with de-duplication).  The same with `NewDedupCursor` around the hybrid
cursor: the view is replaced by its first-occurrence filter. -/
theorem C29_walk_dedup (p : Bytes) (l : Log) (d : Bucket) (hwf : l.WF) (hc : l.counter + 1 < two63)
    (sess : List Cmd) (steps : List (Move × Store)) (fuel : Nat)
    (hfuel : (view (l.entries.map toCmd) sess p).length + 1 ≤ fuel)
    (hfro : ∀ st ∈ steps, Frozen l.entries (l.counter + 1) st.2) :
    runWalk (newDedup ((⟨newDBStore (S l d), ⟨sess⟩⟩ : HybridStore).cursor p))
        (steps.map fun st => (st.1, dedupOps (hybOps st.2) fuel))
      = .ok (walkGets (dedupView (view (l.entries.map toCmd) sess p)) (-1) (steps.map (·.1))) := by
  obtain ⟨h1, hsnap, _⟩ := session_start l d hwf hc
  rw [h1]
  have := sim_walk (dedupView (view (l.entries.map toCmd) sess p))
    (Rdd (view (l.entries.map toCmd) sess p) (RhybC p l.entries (l.counter + 1) sess))
    (steps.map fun st => (st.1, dedupOps (hybOps st.2) fuel)) _ (-1)
    (by
      intro st hst
      obtain ⟨st0, h0, rfl⟩ := List.mem_map.1 hst
      exact dedup_sim _ _ _ (hyb_sim p l.entries (l.counter + 1) hsnap sess st0.2 (hfro st0 h0)) fuel hfuel)
    (dedup_init _ _ _ (hyb_init p l.entries (l.counter + 1) sess))
  simpa [List.map_map, Function.comp_def] using this

/-- The database-less store (`NewHybridStore(nil)` = `memStore`), plain and de-duplicated. -/
theorem C29_walk_mem (p : Bytes) (s : MemStore) (moves : List Move) (fuel : Nat)
    (hfuel : s.cmds.length + 1 ≤ fuel) :
    runWalk (s.cursor p) (moves.map fun m => (m, memOps)) = .ok (walkGets (view [] s.cmds p) (-1) moves) ∧
    runWalk (newDedup (s.cursor p)) (moves.map fun m => (m, dedupOps memOps fuel))
      = .ok (walkGets (dedupView (view [] s.cmds p)) (-1) moves) := by
  have hv : view [] s.cmds p = (s.cmds.filter (isMatch p)).reverse := by simp [view]
  rw [hv]
  constructor
  · have := sim_walk _ (Rmem s.cmds p) (moves.map fun m => (m, memOps)) (s.cursor p) (-1)
      (by intro st hst; obtain ⟨m, _, rfl⟩ := List.mem_map.1 hst; exact mem_sim s.cmds p) (mem_init s p)
    simpa [List.map_map, Function.comp_def] using this
  · have hlen : (s.cmds.filter (isMatch p)).reverse.length + 1 ≤ fuel := by
      have := List.length_filter_le (isMatch p) s.cmds
      simp only [List.length_reverse]; omega
    have := sim_walk _ (Rdd _ (Rmem s.cmds p)) (moves.map fun m => (m, dedupOps memOps fuel)) (newDedup (s.cursor p)) (-1)
      (by intro st hst; obtain ⟨m, _, rfl⟩ := List.mem_map.1 hst; exact dedup_sim _ _ _ (mem_sim s.cmds p) fuel hlen)
      (dedup_init _ _ _ (mem_init s p))
    simpa [List.map_map, Function.comp_def] using this

/-- With de-duplication each distinct text appears once, at its most recent
occurrence: the de-duplicated view is a sub-list of the (newest-first) view, has
no repeated text, misses no text, and every entry is the first — i.e. the most
recent — one with its text. -/
theorem C29_dedup_view (v : List Cmd) :
    (dedupView v).Sublist v ∧ (texts (dedupView v)).Nodup ∧ (∀ t, t ∈ texts (dedupView v) ↔ t ∈ texts v) ∧
    ∀ c ∈ dedupView v, ∃ newer older, v = newer ++ c :: older ∧ c.text ∉ texts newer := by
  refine ⟨dedupFrom_sublist v [], dedupFrom_nodup v [], ?_, ?_⟩
  · intro t
    have := mem_texts_dedupFrom t v []
    simpa [dedupView] using this
  · intro c hc
    obtain ⟨X, Y, e, h1, _⟩ := dedupFrom_first c v [] hc
    exact ⟨X, Y, e, h1⟩

example : dedupView [⟨[1], 5⟩, ⟨[2], 4⟩, ⟨[1], 3⟩, ⟨[3], 2⟩, ⟨[2], 1⟩] = [⟨[1], 5⟩, ⟨[2], 4⟩, ⟨[3], 2⟩] := by decide

/-- Shape of a walk on a view `v` (plain or de-duplicated): `n` steps back from the
start end at index `min (n-1) |v|` — the `n`-th newest entry, or end of history once
`n > |v|`; `m` steps forward from index `i` end at `max (i-m) (-1)` — the same entries
in reverse, then end of history; and the `Get` after the last move of any walk
is taken at the index where the walk ends. -/
theorem C29_walk_shape (v : List Cmd) (n m : Nat) (i : Int) (hi : -1 ≤ i ∧ i ≤ v.length) (ms : List Move) (mv : Move) :
    walkIdx v (-1) (List.replicate n Move.prev) = min ((n : Int) - 1) v.length ∧
    walkIdx v i (List.replicate m Move.next) = max (i - m) (-1) ∧
    (walkGets v i (ms ++ [mv])).getLast? = some (walkGet v (walkIdx v i (ms ++ [mv]))) := by
  refine ⟨?_, walk_nexts v m i hi.1, walkGets_last v ms mv i⟩
  rw [walk_prevs v n (-1) (by omega)]
  congr 1

set_option maxRecDepth 8000 in
/-- non-vacuity of the main theorems: a stored history, a concurrent addition,
session additions, and a walk across the hand-off in both directions -/
example :
    let db0 := S ⟨[(1, [1, 1]), (2, [2]), (4, [1])], 4⟩ Bucket.empty
    let db1 := (addCmd db0 [1, 9]).1            -- another session adds "1 9" after this session started
    let hs : HybridStore := ⟨newDBStore db0, ⟨[⟨[1, 5], 6⟩, ⟨[3], 7⟩]⟩⟩
    runWalk (hs.cursor [1]) [(.prev, hybOps db1), (.prev, hybOps db1), (.prev, hybOps db1), (.prev, hybOps db1),
        (.next, hybOps db1), (.next, hybOps db1), (.next, hybOps db1), (.next, hybOps db1)]
      = .ok [.ok ⟨[1, 5], 6⟩, .ok ⟨[1], 4⟩, .ok ⟨[1, 1], 1⟩, .exc errEndOfHistory,
             .ok ⟨[1, 1], 1⟩, .ok ⟨[1], 4⟩, .ok ⟨[1, 5], 6⟩, .exc errEndOfHistory] := by
  decide
