/-
C24 helper lemmas: each function of cmd.go, run on the bucket that represents
a well-formed log, computes the corresponding log operation.
-/
import ElvModel.C24.Spec
import ElvProofs.C24.Bytes
import ElvProofs.C24.Sorted
namespace C24
open Go Spec Sorted

/-- the bucket pair of a log entry -/
def enc (e : Entry) : KV := (marshalSeq e.1, e.2)

/-- the `cmd` bucket that holds a log -/
def conc (l : Log) : Bucket := ⟨l.entries.map enc, l.counter⟩

/-- the abstraction function: the log a `cmd` bucket holds -/
def absLog (b : Bucket) : Log := ⟨b.kvs.map (fun kv => (beVal kv.1, kv.2)), b.sequence⟩

abbrev ltN : Nat → Nat → Bool := fun a b => decide (a < b)

theorem ltN_strict : StrictTotal ltN where
  irrefl := by intro a; simp [ltN]
  trans := by intro a b c; simp [ltN]; omega
  tri := by intro a b; simp [ltN]; omega

abbrev SortedE (es : List Entry) : Prop := Sorted (fun e : Entry => e.1) ltN es

theorem wf_sorted {l : Log} (h : l.WF) : SortedE l.entries := by
  have := h.1
  simpa [SortedE, Sorted, ltN] using this

theorem absLog_conc (l : Log) (hb : ∀ e ∈ l.entries, e.1 < two64) : absLog (conc l) = l := by
  cases l with
  | mk es c =>
    simp only [absLog, conc, List.map_map]
    congr 1
    have : ∀ (es : List Entry), (∀ e ∈ es, e.1 < two64) →
        es.map ((fun kv : KV => (beVal kv.1, kv.2)) ∘ enc) = es := by
      intro es
      induction es with
      | nil => intro _; rfl
      | cons h t ih =>
        intro hb
        simp only [List.map_cons, Function.comp, enc]
        rw [beVal_marshalSeq _ (hb h (by simp)), ih (fun e he => hb e (by simp [he]))]
    exact this es hb

/-! #### seek on an encoded list -/

theorem seekPre_enc (n : Nat) (hn : n < two64) :
    ∀ (es : List Entry), (∀ e ∈ es, e.1 < two64) →
      seekPre (marshalSeq n) (es.map enc) = (es.takeWhile (fun e => ltN e.1 n)).map enc
  | [], _ => rfl
  | h :: t, hb => by
    have ih := seekPre_enc n hn t (fun e he => hb e (by simp [he]))
    have hh : h.1 < two64 := hb h (by simp)
    simp only [seekPre] at ih ⊢
    simp only [List.map_cons, List.takeWhile_cons, enc, bytesLt_marshalSeq _ _ hh hn, ltN]
    by_cases c : h.1 < n
    · simp only [c, decide_true, if_true, List.map_cons, enc]
      rw [← ih]
    · simp [c]

theorem seekPost_enc (n : Nat) (hn : n < two64) :
    ∀ (es : List Entry), (∀ e ∈ es, e.1 < two64) →
      seekPost (marshalSeq n) (es.map enc) = (es.dropWhile (fun e => ltN e.1 n)).map enc
  | [], _ => rfl
  | h :: t, hb => by
    have ih := seekPost_enc n hn t (fun e he => hb e (by simp [he]))
    have hh : h.1 < two64 := hb h (by simp)
    simp only [seekPost] at ih ⊢
    simp only [List.map_cons, List.dropWhile_cons, enc, bytesLt_marshalSeq _ _ hh hn, ltN]
    by_cases c : h.1 < n
    · simp only [c, decide_true, if_true]
      rw [← ih]
    · simp [c, enc]

/-! #### entry-level versions of get / delete through seek -/

def getE (n : Nat) (es : List Entry) : Option Bytes :=
  match es.dropWhile (fun e => ltN e.1 n) with
  | e :: _ => if e.1 = n then some e.2 else none
  | [] => none

def delE (n : Nat) (es : List Entry) : List Entry :=
  es.takeWhile (fun e => ltN e.1 n) ++
    (match es.dropWhile (fun e => ltN e.1 n) with
     | e :: rest => if e.1 = n then rest else e :: rest
     | [] => [])

theorem getE_eq (n : Nat) : ∀ (es : List Entry), SortedE es →
    getE n es = (es.find? (fun e => e.1 = n)).map (·.2)
  | [], _ => rfl
  | h :: t, hs => by
    have ht : SortedE t := (List.pairwise_cons.1 hs).2
    have hh := (List.pairwise_cons.1 hs).1
    have ih := getE_eq n t ht
    unfold getE at ih ⊢
    by_cases c : h.1 < n
    · have hne : ¬ h.1 = n := by omega
      simp only [List.dropWhile_cons, ltN, c, decide_true, if_true, List.find?_cons, hne, decide_false]
      exact ih
    · simp only [List.dropWhile_cons, ltN, c, decide_false, List.find?_cons]
      by_cases e : h.1 = n
      · simp [e]
      · have : t.find? (fun e => decide (e.1 = n)) = none := by
          apply List.find?_eq_none.2
          intro x hx
          have := hh x hx
          simp [ltN] at this
          simp; omega
        simp [e, this]

theorem delE_eq (n : Nat) : ∀ (es : List Entry), SortedE es →
    delE n es = es.filter (fun e => e.1 ≠ n)
  | [], _ => rfl
  | h :: t, hs => by
    have ht : SortedE t := (List.pairwise_cons.1 hs).2
    have hh := (List.pairwise_cons.1 hs).1
    have ih := delE_eq n t ht
    unfold delE at ih ⊢
    by_cases c : h.1 < n
    · have hne : ¬ h.1 = n := by omega
      simp only [List.takeWhile_cons, List.dropWhile_cons, ltN, c, decide_true, if_true, List.filter_cons, hne,
        decide_not, decide_false, Bool.not_false, List.cons_append]
      simp only [ltN, decide_not] at ih
      rw [ih]
    · have hall : ∀ x ∈ t, n < x.1 ∨ (h.1 = n ∧ n < x.1) ∨ h.1 < x.1 := by
        intro x hx
        have := hh x hx
        simp [ltN] at this
        omega
      simp only [List.takeWhile_cons, List.dropWhile_cons, ltN, c, decide_false, List.filter_cons]
      by_cases e : h.1 = n
      · have : t.filter (fun e => !decide (e.1 = n)) = t := by
          apply List.filter_eq_self.2
          intro x hx
          have := hh x hx
          simp [ltN] at this
          simp; omega
        simp [e, this]
      · have : t.filter (fun e => !decide (e.1 = n)) = t := by
          apply List.filter_eq_self.2
          intro x hx
          have := hh x hx
          simp [ltN] at this
          simp; omega
        simp [e, this]

end C24
