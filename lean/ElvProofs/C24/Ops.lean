/-
C24 helper lemmas: refinement of each cmd.go function to the log operation.
-/
import ElvProofs.C24.Refine
namespace C24
open Go Spec Sorted

theorem two63_lt_two64 : two63 < two64 := by decide

theorem wf_bound {l : Log} (h : l.WF) (hc : l.counter < two63) : ∀ e ∈ l.entries, e.1 < two64 := by
  intro e he
  have := (h.2 e he).2
  have := two63_lt_two64
  omega

theorem wf_bound63 {l : Log} (h : l.WF) (hc : l.counter < two63) : ∀ e ∈ l.entries, e.1 < two63 := by
  intro e he
  have := (h.2 e he).2
  omega

/-- the store whose `cmd` bucket holds log `l` -/
def S (l : Log) (d : Bucket) : Store := ⟨conc l, d⟩

theorem nextCmdSeq_conc (l : Log) (d : Bucket) (hc : l.counter + 1 < two63) :
    nextCmdSeq (S l d) = ((l.nextSeq : Nat) : Int) := by
  have h64 := two63_lt_two64
  have : (l.counter + 1) % two64 = l.counter + 1 := Nat.mod_eq_of_lt (by omega)
  simp only [nextCmdSeq, S, conc, this, Log.nextSeq]
  exact toInt_of_lt _ hc

theorem addCmd_conc (l : Log) (d : Bucket) (t : Bytes) (h : l.WF) (hc : l.counter + 1 < two63) :
    addCmd (S l d) t = (S (l.add t).1 d, .ok (((l.add t).2 : Nat) : Int)) := by
  have h64 := two63_lt_two64
  have hm : (l.counter + 1) % 18446744073709551616 = l.counter + 1 :=
    Nat.mod_eq_of_lt (by simp only [two63, two64] at *; omega)
  have hb := wf_bound h (by omega : l.counter < two63)
  have hn : l.counter + 1 < two64 := by omega
  have hall : ∀ e ∈ l.entries, ltN e.1 (l.counter + 1) = true := by
    intro e he
    have := (h.2 e he).2
    simp [ltN]; omega
  have hpre : seekPre (marshalSeq (l.counter + 1)) (l.entries.map enc) = l.entries.map enc := by
    rw [seekPre_enc _ hn _ hb, takeWhile_all _ _ hall]
  have hpost : seekPost (marshalSeq (l.counter + 1)) (l.entries.map enc) = [] := by
    rw [seekPost_enc _ hn _ hb, dropWhile_all _ _ hall]; rfl
  simp only [addCmd, S, conc, Bucket.nextSequence, hm, Bucket.put, marshalSeq_length, maxKeySize, hpre, hpost,
    Log.add, dropKey]
  simp [toInt_of_lt _ hc, enc]

theorem delCmd_conc (l : Log) (d : Bucket) (n : Int) (h : l.WF) (hc : l.counter < two63) :
    delCmd (S l d) n = S (l.del (toU64 n)) d := by
  have hb := wf_bound h hc
  have hn := toU64_lt n
  simp only [delCmd, S, conc, Bucket.delete, seekPre_enc _ hn _ hb, seekPost_enc _ hn _ hb, Log.del]
  congr 2
  rw [← delE_eq _ _ (wf_sorted h), delE]
  rw [List.map_append]
  congr 1
  cases hd : l.entries.dropWhile (fun e => ltN e.1 (toU64 n)) with
  | nil => simp [dropKey]
  | cons e rest =>
    have he : e ∈ l.entries := by
      have : e ∈ l.entries.dropWhile (fun e => ltN e.1 (toU64 n)) := by rw [hd]; simp
      exact (List.dropWhile_sublist _).subset this
    simp only [List.map_cons, enc, dropKey]
    by_cases c : e.1 = toU64 n
    · simp [c]
    · have : ¬ marshalSeq e.1 = marshalSeq (toU64 n) := fun hh => c (marshalSeq_inj _ _ (hb e he) hn hh)
      simp [c, this, enc]

theorem cmd_conc (l : Log) (d : Bucket) (n : Int) (h : l.WF) (hc : l.counter < two63) :
    cmd (S l d) n = textOf (l.get (toU64 n)) := by
  have hb := wf_bound h hc
  have hn := toU64_lt n
  simp only [cmd, S, conc, Bucket.get, seekPost_enc _ hn _ hb, Log.get]
  rw [← getE_eq _ _ (wf_sorted h), getE]
  cases hd : l.entries.dropWhile (fun e => ltN e.1 (toU64 n)) with
  | nil => rfl
  | cons e rest =>
    have he : e ∈ l.entries := by
      have : e ∈ l.entries.dropWhile (fun e => ltN e.1 (toU64 n)) := by rw [hd]; simp
      exact (List.dropWhile_sublist _).subset this
    simp only [List.map_cons, enc]
    by_cases c : e.1 = toU64 n
    · simp [c, textOf]
    · have : ¬ marshalSeq e.1 = marshalSeq (toU64 n) := fun hh => c (marshalSeq_inj _ _ (hb e he) hn hh)
      simp [c, this, textOf]

theorem iterLoop_enc (u : Nat) : ∀ (es : List Entry), (∀ e ∈ es, e.1 < two63) →
    iterLoop u (es.map enc) = .ok ((es.takeWhile (fun e => ltN e.1 u)).map toCmd)
  | [], _ => rfl
  | h :: t, hb => by
    have ih := iterLoop_enc u t (fun e he => hb e (by simp [he]))
    have hh : h.1 < two63 := hb h (by simp)
    have h64 := two63_lt_two64
    simp only [List.map_cons, enc, iterLoop, unmarshalSeq_marshalSeq _ (by omega : h.1 < two64), ih,
      List.takeWhile_cons, ltN]
    by_cases c : h.1 < u
    · simp [c, toCmd, toInt_of_lt _ hh]
    · simp [c]

theorem scanLoop_enc (p : Bytes) : ∀ (es : List Entry), (∀ e ∈ es, e.1 < two63) →
    scanLoop p (es.map enc) = found (es.find? (fun e => hasPrefix e.2 p))
  | [], _ => rfl
  | h :: t, hb => by
    have ih := scanLoop_enc p t (fun e he => hb e (by simp [he]))
    have hh : h.1 < two63 := hb h (by simp)
    have h64 := two63_lt_two64
    simp only [List.map_cons, enc, scanLoop, unmarshalSeq_marshalSeq _ (by omega : h.1 < two64), ih, List.find?_cons]
    by_cases c : hasPrefix h.2 p = true
    · simp [c, found, toCmd, toInt_of_lt _ hh]
    · simp [c]

theorem cmdsWithSeq_conc (l : Log) (d : Bucket) (f u : Int) (h : l.WF) (hc : l.counter < two63) :
    cmdsWithSeq (S l d) f u = .ok ((l.list (toU64 f) (toU64 u)).map toCmd) := by
  have hb := wf_bound h hc
  have hb63 := wf_bound63 h hc
  have hs := wf_sorted h
  simp only [cmdsWithSeq, S, conc, Bucket.seek, seekPost_enc _ (toU64_lt f) _ hb]
  rw [iterLoop_enc]
  · congr 2
    rw [dropWhile_eq_filter ltN_strict _ _ hs, takeWhile_eq_filter ltN_strict _ _ (sorted_filter _ _ hs),
      List.filter_filter, Log.list]
    apply List.filter_congr
    intro e _
    simp only [ltN, Bool.decide_and]
    by_cases c1 : e.1 < toU64 u <;> by_cases c2 : e.1 < toU64 f <;> simp [c1, c2] <;> omega
  · intro e he
    exact hb63 e ((List.dropWhile_sublist _).subset he)

theorem nextCmd_conc (l : Log) (d : Bucket) (f : Int) (p : Bytes) (h : l.WF) (hc : l.counter < two63) :
    nextCmd (S l d) f p = found (l.next (toU64 f) p) := by
  have hb := wf_bound h hc
  have hb63 := wf_bound63 h hc
  have hs := wf_sorted h
  simp only [nextCmd, S, conc, Bucket.seek, seekPost_enc _ (toU64_lt f) _ hb]
  rw [scanLoop_enc]
  · congr 1
    rw [dropWhile_eq_filter ltN_strict _ _ hs, List.find?_filter, Log.next]
    congr 1
    funext e
    simp [ltN]
  · intro e he
    exact hb63 e ((List.dropWhile_sublist _).subset he)

theorem prevCmd_conc (l : Log) (d : Bucket) (u : Int) (p : Bytes) (h : l.WF) (hc : l.counter < two63) :
    prevCmd (S l d) u p = found (l.prev (toU64 u) p) := by
  have hb := wf_bound h hc
  have hb63 := wf_bound63 h hc
  have hs := wf_sorted h
  simp only [prevCmd, S, conc, Bucket.seek, Cursor.cur, seekPost_enc _ (toU64_lt u) _ hb,
    seekPre_enc _ (toU64_lt u) _ hb, Bucket.last]
  cases hd : l.entries.dropWhile (fun e => ltN e.1 (toU64 u)) with
  | nil =>
    -- nothing is ≥ upto: start from `Last()`
    have hall : ∀ e ∈ l.entries, ltN e.1 (toU64 u) = true := all_of_dropWhile_nil _ _ hd
    simp only [List.map_nil, List.head?_nil, ← List.map_reverse]
    cases hr : l.entries.reverse with
    | nil =>
      have : l.entries = [] := by simpa using hr
      simp [Log.prev, this, found]
    | cons x r =>
      simp only [List.map_cons, List.head?_cons]
      have : enc x :: List.map enc r = (x :: r).map enc := rfl
      rw [this, scanLoop_enc]
      · congr 1
        rw [Log.prev, hr]
        apply find?_congr'
        intro e he
        have : e ∈ l.entries := by
          have : e ∈ l.entries.reverse := by rw [hr]; exact he
          simpa using this
        have := hall e this
        simp [ltN] at this
        simp [this]
      · intro e he
        have : e ∈ l.entries.reverse := by rw [hr]; exact he
        exact hb63 e (by simpa using this)
  | cons x r =>
    simp only [List.map_cons, List.head?_cons, ← List.map_reverse]
    rw [scanLoop_enc]
    · congr 1
      rw [takeWhile_eq_filter ltN_strict _ _ hs, ← List.filter_reverse, List.find?_filter, Log.prev]
      congr 1
      funext e
      simp [ltN]
    · intro e he
      have : e ∈ l.entries.takeWhile (fun e => ltN e.1 (toU64 u)) := by simpa using he
      exact hb63 e ((List.takeWhile_sublist _).subset this)

end C24
