/-
C24 helper lemmas: `takeWhile`/`dropWhile` by a key bound on a list sorted by
that key are filters; lookup, replace and delete through `seek` on a sorted
association list.
-/
import ElvModel.C24.Model
namespace C24.Sorted

variable {β κ : Type} (key : β → κ) (r : κ → κ → Bool)

/-- `r` is a strict total order (as a Bool-valued relation) -/
structure StrictTotal (r : κ → κ → Bool) : Prop where
  irrefl : ∀ a, r a a = false
  trans : ∀ a b c, r a b = true → r b c = true → r a c = true
  tri : ∀ a b, r a b = false → r b a = false → a = b

abbrev Sorted (l : List β) : Prop := l.Pairwise (fun a b => r (key a) (key b) = true)

variable {key r}

theorem takeWhile_eq_filter (hr : StrictTotal r) (k : κ) :
    ∀ (l : List β), Sorted key r l → l.takeWhile (fun x => r (key x) k) = l.filter (fun x => r (key x) k)
  | [], _ => rfl
  | h :: t, hs => by
    have ht : Sorted key r t := (List.pairwise_cons.1 hs).2
    have hh := (List.pairwise_cons.1 hs).1
    by_cases c : r (key h) k = true
    · simp [List.takeWhile, List.filter, c, takeWhile_eq_filter hr k t ht]
    · have c' : r (key h) k = false := by simpa using c
      have : t.filter (fun x => r (key x) k) = [] := by
        apply List.filter_eq_nil_iff.2
        intro x hx hxk
        exact c (hr.trans _ _ _ (hh x hx) hxk)
      simp [List.takeWhile, List.filter, c', this]

theorem dropWhile_eq_filter (hr : StrictTotal r) (k : κ) :
    ∀ (l : List β), Sorted key r l → l.dropWhile (fun x => r (key x) k) = l.filter (fun x => !r (key x) k)
  | [], _ => rfl
  | h :: t, hs => by
    have ht : Sorted key r t := (List.pairwise_cons.1 hs).2
    have hh := (List.pairwise_cons.1 hs).1
    by_cases c : r (key h) k = true
    · simp [List.dropWhile, List.filter, c, dropWhile_eq_filter hr k t ht]
    · have c' : r (key h) k = false := by simpa using c
      have : t.filter (fun x => !r (key x) k) = t := by
        apply List.filter_eq_self.2
        intro x hx
        cases hxk : r (key x) k with
        | false => rfl
        | true => exact absurd (hr.trans _ _ _ (hh x hx) hxk) c
      simp [List.dropWhile, List.filter, c', this]

theorem sorted_filter (p : β → Bool) (l : List β) (hs : Sorted key r l) : Sorted key r (l.filter p) :=
  List.Pairwise.sublist List.filter_sublist hs

/-- keys of a sorted list are pairwise distinct: at most one element has key `k` -/
theorem find_none_of_lt (hr : StrictTotal r) (k : κ) (l : List β)
    (h : ∀ x ∈ l, r k (key x) = true) [DecidableEq κ] : l.find? (fun x => key x = k) = none := by
  apply List.find?_eq_none.2
  intro x hx hk
  have := h x hx
  simp at hk
  rw [hk, hr.irrefl] at this
  exact absurd this (by simp)

theorem takeWhile_all {α : Type} (p : α → Bool) : ∀ (l : List α), (∀ x ∈ l, p x = true) → l.takeWhile p = l
  | [], _ => rfl
  | h :: t, hp => by
    simp [List.takeWhile, hp h (by simp), takeWhile_all p t (fun x hx => hp x (by simp [hx]))]

theorem dropWhile_all {α : Type} (p : α → Bool) : ∀ (l : List α), (∀ x ∈ l, p x = true) → l.dropWhile p = []
  | [], _ => rfl
  | h :: t, hp => by
    simp [List.dropWhile, hp h (by simp), dropWhile_all p t (fun x hx => hp x (by simp [hx]))]

theorem all_of_dropWhile_nil {α : Type} (p : α → Bool) : ∀ (l : List α), l.dropWhile p = [] → ∀ x ∈ l, p x = true
  | [], _ => by simp
  | h :: t, hd => by
    cases hh : p h with
    | false => simp [List.dropWhile, hh] at hd
    | true =>
      simp [List.dropWhile, hh] at hd
      intro x hx
      rcases List.mem_cons.1 hx with rfl | hx
      · exact hh
      · exact all_of_dropWhile_nil p t hd x hx

theorem find?_congr' {α : Type} {p q : α → Bool} : ∀ (l : List α), (∀ x ∈ l, p x = q x) → l.find? p = l.find? q
  | [], _ => rfl
  | h :: t, hpq => by
    simp [List.find?, hpq h (by simp), find?_congr' t (fun x hx => hpq x (by simp [hx]))]

end C24.Sorted
