/-
C24 helper lemmas: `bytesLt` is a strict total order on byte strings, and on
big-endian encodings of a fixed width it is the numeric order.
-/
import ElvModel.C24.Model
namespace C24
open Go

/-- big-endian value of a byte string -/
def beVal : Bytes → Nat
  | [] => 0
  | a :: r => a.toNat * 256 ^ r.length + beVal r

theorem beVal_lt (x : Bytes) : beVal x < 256 ^ x.length := by
  induction x with
  | nil => simp [beVal]
  | cons a r ih =>
    have ha : a.toNat < 256 := a.toNat_lt
    simp only [beVal, List.length_cons, Nat.pow_succ]
    generalize 256 ^ r.length = P at *
    have h1 : (a.toNat + 1) * P ≤ 256 * P := Nat.mul_le_mul_right P (by omega)
    rw [Nat.add_mul, Nat.one_mul] at h1
    omega

theorem u8_lt_iff (a b : UInt8) : a < b ↔ a.toNat < b.toNat := UInt8.lt_iff_toNat_lt

theorem bytesLt_irrefl (x : Bytes) : bytesLt x x = false := by
  induction x with
  | nil => rfl
  | cons a r ih => simp [bytesLt, ih]

theorem bytesLt_beVal : ∀ (x y : Bytes), x.length = y.length → bytesLt x y = decide (beVal x < beVal y)
  | [], [], _ => by simp [bytesLt, beVal]
  | [], _ :: _, h => by simp at h
  | _ :: _, [], h => by simp at h
  | a :: r, b :: t, h => by
    have hl : r.length = t.length := by simpa using h
    have ih := bytesLt_beVal r t hl
    have hr := beVal_lt r
    have ht := beVal_lt t
    rw [hl] at hr
    simp only [bytesLt, beVal, u8_lt_iff, hl]
    generalize 256 ^ t.length = P at *
    by_cases h1 : a.toNat < b.toNat
    · have : (a.toNat + 1) * P ≤ b.toNat * P := Nat.mul_le_mul_right P h1
      rw [Nat.succ_mul] at this
      simp [h1]; omega
    · by_cases h2 : b.toNat < a.toNat
      · have : (b.toNat + 1) * P ≤ a.toNat * P := Nat.mul_le_mul_right P h2
        rw [Nat.succ_mul] at this
        simp [h1, h2]; omega
      · have : a.toNat = b.toNat := by omega
        simp [ih, this]

theorem marshalSeq_length (n : Nat) : (marshalSeq n).length = 8 := rfl

/-- base-256 expansion of a number below 2^64 -/
theorem digits64 (n : Nat) (h : n < two64) :
    n = (((((((n / 256 ^ 7 % 256) * 256 + n / 256 ^ 6 % 256) * 256 + n / 256 ^ 5 % 256) * 256 + n / 256 ^ 4 % 256) * 256
      + n / 256 ^ 3 % 256) * 256 + n / 256 ^ 2 % 256) * 256 + n / 256 ^ 1 % 256) * 256 + n / 256 ^ 0 % 256 := by
  have e0 := @Nat.mod_pow_succ n 256 0
  have e1 := @Nat.mod_pow_succ n 256 1
  have e2 := @Nat.mod_pow_succ n 256 2
  have e3 := @Nat.mod_pow_succ n 256 3
  have e4 := @Nat.mod_pow_succ n 256 4
  have e5 := @Nat.mod_pow_succ n 256 5
  have e6 := @Nat.mod_pow_succ n 256 6
  have e7 := @Nat.mod_pow_succ n 256 7
  have e8 : n % 256 ^ 8 = n := Nat.mod_eq_of_lt h
  simp only [Nat.pow_zero, Nat.mod_one, Nat.zero_add, Nat.reduceAdd] at e0 e1 e2 e3 e4 e5 e6 e7 e8
  generalize n / 256 ^ 7 % 256 = d7 at *
  generalize n / 256 ^ 6 % 256 = d6 at *
  generalize n / 256 ^ 5 % 256 = d5 at *
  generalize n / 256 ^ 4 % 256 = d4 at *
  generalize n / 256 ^ 3 % 256 = d3 at *
  generalize n / 256 ^ 2 % 256 = d2 at *
  generalize n / 256 ^ 1 % 256 = d1 at *
  generalize n / 256 ^ 0 % 256 = d0 at *
  generalize n % 256 ^ 1 = r1 at *
  generalize n % 256 ^ 2 = r2 at *
  generalize n % 256 ^ 3 = r3 at *
  generalize n % 256 ^ 4 = r4 at *
  generalize n % 256 ^ 5 = r5 at *
  generalize n % 256 ^ 6 = r6 at *
  generalize n % 256 ^ 7 = r7 at *
  generalize n % 256 ^ 8 = r8 at *
  simp only [Nat.reducePow] at *
  omega

theorem beVal_marshalSeq (n : Nat) (h : n < two64) : beVal (marshalSeq n) = n := by
  have := digits64 n h
  simp only [marshalSeq, byteAt, beVal, List.length_cons, List.length_nil, UInt8.toNat_ofNat', Nat.mod_mod]
  generalize n / 256 ^ 7 % 256 = d7 at *
  generalize n / 256 ^ 6 % 256 = d6 at *
  generalize n / 256 ^ 5 % 256 = d5 at *
  generalize n / 256 ^ 4 % 256 = d4 at *
  generalize n / 256 ^ 3 % 256 = d3 at *
  generalize n / 256 ^ 2 % 256 = d2 at *
  generalize n / 256 ^ 1 % 256 = d1 at *
  generalize n / 256 ^ 0 % 256 = d0 at *
  simp only [Nat.reducePow, Nat.reduceAdd] at *
  omega

theorem unmarshalSeq_marshalSeq (n : Nat) (h : n < two64) : unmarshalSeq (marshalSeq n) = .ok n := by
  have := digits64 n h
  simp only [marshalSeq, byteAt, unmarshalSeq, UInt8.toNat_ofNat', Nat.mod_mod]
  congr 1
  exact this.symm

/-- `marshalSeq` is monotone: big-endian key order is numeric order. -/
theorem bytesLt_marshalSeq (a b : Nat) (ha : a < two64) (hb : b < two64) :
    bytesLt (marshalSeq a) (marshalSeq b) = decide (a < b) := by
  rw [bytesLt_beVal _ _ ((marshalSeq_length a).trans (marshalSeq_length b).symm), beVal_marshalSeq a ha, beVal_marshalSeq b hb]

theorem marshalSeq_inj (a b : Nat) (ha : a < two64) (hb : b < two64) (h : marshalSeq a = marshalSeq b) : a = b := by
  have := congrArg beVal h
  rwa [beVal_marshalSeq a ha, beVal_marshalSeq b hb] at this

theorem toU64_lt (i : Int) : toU64 i < two64 := by
  unfold toU64 two64
  omega

theorem toU64_of_nonneg (i : Int) (h0 : 0 ≤ i) (h1 : i < (two64 : Int)) : toU64 i = i.toNat := by
  unfold toU64 two64 at *
  omega

theorem toU64_of_neg (i : Int) (h0 : i < 0) (h1 : -(two63 : Int) ≤ i) : two63 ≤ toU64 i := by
  unfold toU64 two64 two63 at *
  omega

theorem toInt_of_lt (n : Nat) (h : n < two63) : toInt n = (n : Int) := by
  unfold toInt two63 two64 at *
  have : n % 18446744073709551616 = n := Nat.mod_eq_of_lt (by omega)
  simp [this, h]

end C24
