/-
C24 helper lemmas about the specification log itself.
-/
import ElvProofs.C24.Ops
namespace C24
open Go Spec Sorted

theorem Log.WF_empty : Log.empty.WF := by simp [Log.WF, Log.empty]

theorem Log.WF_add {l : Log} (h : l.WF) (t : Bytes) : (l.add t).1.WF := by
  refine ⟨?_, ?_⟩
  · simp only [Log.add]
    apply List.pairwise_append.2
    refine ⟨h.1, by simp, ?_⟩
    intro a ha b hb
    simp at hb
    have := (h.2 a ha).2
    rw [hb]; simp; omega
  · intro e he
    simp only [Log.add, List.mem_append, List.mem_singleton] at he ⊢
    rcases he with he | he
    · have := h.2 e he; omega
    · rw [he]; simp

theorem Log.WF_del {l : Log} (h : l.WF) (n : Nat) : (l.del n).WF := by
  refine ⟨List.Pairwise.sublist List.filter_sublist h.1, ?_⟩
  intro e he
  exact h.2 e (List.mem_filter.1 he).1

theorem Log.counter_step (l : Log) (op : Op) : l.counter ≤ (Spec.step l op).1.counter ∧
    (Spec.step l op).1.counter ≤ l.counter + 1 := by
  cases op <;> simp [Spec.step, Log.add, Log.del]

theorem Log.WF_step {l : Log} (h : l.WF) (op : Op) : (Spec.step l op).1.WF := by
  cases op <;> simp only [Spec.step] <;> first | exact h | exact Log.WF_add h _ | exact Log.WF_del h _

theorem Log.WF_run : ∀ (ops : List Op) {l : Log}, l.WF → (Spec.run l ops).1.WF
  | [], _, h => h
  | op :: ops, l, h => by
    simp only [Spec.run]
    exact Log.WF_run ops (Log.WF_step h op)

theorem Log.counter_run : ∀ (ops : List Op) (l : Log), l.counter ≤ (Spec.run l ops).1.counter ∧
    (Spec.run l ops).1.counter ≤ l.counter + ops.length
  | [], l => by simp [Spec.run]
  | op :: ops, l => by
    simp only [Spec.run, List.length_cons]
    have h1 := Log.counter_step l op
    have h2 := Log.counter_run ops (Spec.step l op).1
    omega

/-- every number issued by a history is above the counter it started from, and they strictly increase -/
theorem issued_run : ∀ (ops : List Op) (l : Log),
    (issued (Spec.run l ops).2).Pairwise (· < ·) ∧
    ∀ n ∈ issued (Spec.run l ops).2, (l.counter : Int) < n ∧ n ≤ ((Spec.run l ops).1.counter : Int)
  | [], l => by simp [Spec.run, issued]
  | op :: ops, l => by
    have ih := issued_run ops (Spec.step l op).1
    have hc := Log.counter_step l op
    have hr := Log.counter_run ops (Spec.step l op).1
    simp only [Spec.run]
    cases op with
    | add t =>
      simp only [Spec.step, Log.add, issued] at ih hc hr ⊢
      refine ⟨List.pairwise_cons.2 ⟨?_, ih.1⟩, ?_⟩
      · intro n hn
        have := (ih.2 n hn).1
        exact this
      · intro n hn
        rcases List.mem_cons.1 hn with rfl | hn
        · constructor <;> omega
        · have := ih.2 n hn
          constructor <;> omega
    | del n => simpa [Spec.step, issued, Log.del] using ih
    | get n => simpa [Spec.step, issued] using ih
    | list f u => simpa [Spec.step, issued] using ih
    | next f p => simpa [Spec.step, issued] using ih
    | prev u p => simpa [Spec.step, issued] using ih
    | nseq => simpa [Spec.step, issued] using ih

/-- in a list sorted by sequence number, the first element satisfying `q` has the least number among those satisfying `q` -/
theorem find_first {es : List Entry} (hs : es.Pairwise (fun a b => a.1 < b.1)) (q : Entry → Bool) (e : Entry)
    (h : es.find? q = some e) : e ∈ es ∧ q e = true ∧ ∀ e' ∈ es, q e' = true → e.1 ≤ e'.1 := by
  obtain ⟨hq, as, bs, rfl, hnot⟩ := List.find?_eq_some_iff_append.1 h
  refine ⟨by simp, hq, ?_⟩
  intro e' he' hq'
  rcases List.mem_append.1 he' with ha | hb
  · have := hnot e' ha
    simp [hq'] at this
  · rcases List.mem_cons.1 hb with rfl | hb
    · exact Nat.le_refl _
    · have := (List.pairwise_append.1 hs).2.1
      exact Nat.le_of_lt ((List.pairwise_cons.1 this).1 e' hb)

/-- …and the first one from the back has the greatest -/
theorem find_last {es : List Entry} (hs : es.Pairwise (fun a b => a.1 < b.1)) (q : Entry → Bool) (e : Entry)
    (h : es.reverse.find? q = some e) : e ∈ es ∧ q e = true ∧ ∀ e' ∈ es, q e' = true → e'.1 ≤ e.1 := by
  obtain ⟨hq, as, bs, hrev, hnot⟩ := List.find?_eq_some_iff_append.1 h
  have hes : es = bs.reverse ++ e :: as.reverse := by
    have := congrArg List.reverse hrev
    simpa using this
  subst hes
  refine ⟨by simp, hq, ?_⟩
  intro e' he' hq'
  rcases List.mem_append.1 he' with hb | ha
  · have := (List.pairwise_append.1 hs).2.2 e' hb e (by simp)
    exact Nat.le_of_lt this
  · rcases List.mem_cons.1 ha with rfl | ha
    · exact Nat.le_refl _
    · have := hnot e' (by simpa using ha)
      simp [hq'] at this

end C24
