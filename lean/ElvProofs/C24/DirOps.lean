/-
C24 helper lemmas for dir.go: AddDir / AddDirRaw / DelDir / Dirs on a bucket
with sorted valid keys.
-/
import ElvProofs.C24.Dir
namespace C24
open Go Sorted

/-- the stored form of a score after one decay step -/
def decayed (o : ScoreOps) (v : Bytes) : Bytes := o.format (o.mul (o.parse v) o.decay)

theorem sortedKV_iff_keys (l : List KV) : SortedKV l ↔ (l.map Prod.fst).Pairwise (fun a b => bytesLt a b = true) := by
  simp [SortedKV, Sorted, List.pairwise_map]

theorem validKeys_iff_keys (l : List KV) :
    ValidKeys l ↔ ∀ k ∈ l.map Prod.fst, 0 < k.length ∧ k.length ≤ maxKeySize := by
  simp only [ValidKeys, List.mem_map]
  constructor
  · rintro h k ⟨kv, hkv, rfl⟩; exact h kv hkv
  · intro h kv hkv; exact h kv.1 ⟨kv, hkv, rfl⟩

theorem filter_split (pre rest : List KV) (k v : Bytes) (hs : SortedKV (pre ++ (k, v) :: rest)) :
    (pre ++ (k, v) :: rest).filter (fun kv => bytesLt kv.1 k) = pre ∧
    (pre ++ (k, v) :: rest).filter (fun kv => bytesLt k kv.1) = rest := by
  obtain ⟨_, h2, h3⟩ := List.pairwise_append.1 hs
  have h4 := (List.pairwise_cons.1 h2).1
  have hpre : ∀ a ∈ pre, bytesLt a.1 k = true := fun a ha => h3 a ha (k, v) (by simp)
  have hrest : ∀ b ∈ rest, bytesLt k b.1 = true := fun b hb => h4 b hb
  constructor
  · rw [List.filter_append, List.filter_cons]
    simp only [bytesLt_irrefl]
    have e1 : pre.filter (fun kv => bytesLt kv.1 k) = pre := List.filter_eq_self.2 hpre
    have e2 : rest.filter (fun kv => bytesLt kv.1 k) = [] := by
      apply List.filter_eq_nil_iff.2
      intro b hb
      simp [bytesLt_asymm _ _ (hrest b hb)]
    simp [e1, e2]
  · rw [List.filter_append, List.filter_cons]
    simp only [bytesLt_irrefl]
    have e1 : pre.filter (fun kv => bytesLt k kv.1) = [] := by
      apply List.filter_eq_nil_iff.2
      intro a ha
      simp [bytesLt_asymm _ _ (hpre a ha)]
    have e2 : rest.filter (fun kv => bytesLt k kv.1) = rest := List.filter_eq_self.2 hrest
    simp [e1, e2]

/-- the decay loop replaces every value in place -/
theorem decayLoop_eq (o : ScoreOps) (s : Nat) : ∀ (rest pre : List KV),
    SortedKV (pre ++ rest) → ValidKeys (pre ++ rest) →
    decayLoop o rest ⟨pre ++ rest, s⟩ = ⟨pre ++ rest.map (fun kv => (kv.1, decayed o kv.2)), s⟩
  | [], pre, _, _ => by simp [decayLoop]
  | (k, v) :: rest, pre, hs, hv => by
    have hk := hv (k, v) (by simp)
    have hput := put_kvs ⟨pre ++ (k, v) :: rest, s⟩ k (decayed o v) hs hk.1 hk.2
    obtain ⟨f1, f2⟩ := filter_split pre rest k v hs
    simp only [f1, f2] at hput
    simp only [decayLoop]
    simp only [decayed] at hput
    rw [hput]
    simp only
    have e : pre ++ (k, o.format (o.mul (o.parse v) o.decay)) :: rest
        = (pre ++ [(k, o.format (o.mul (o.parse v) o.decay))]) ++ rest := by simp
    rw [e]
    have keys : ((pre ++ [(k, o.format (o.mul (o.parse v) o.decay))]) ++ rest).map Prod.fst
        = (pre ++ (k, v) :: rest).map Prod.fst := by simp
    have hs' : SortedKV ((pre ++ [(k, o.format (o.mul (o.parse v) o.decay))]) ++ rest) := by
      rw [sortedKV_iff_keys, keys, ← sortedKV_iff_keys]; exact hs
    have hv' : ValidKeys ((pre ++ [(k, o.format (o.mul (o.parse v) o.decay))]) ++ rest) := by
      rw [validKeys_iff_keys, keys, ← validKeys_iff_keys]; exact hv
    rw [decayLoop_eq o s rest _ hs' hv']
    simp [decayed]

theorem dirWF_map (b : Bucket) (f : Bytes → Bytes) (h : DirWF b) :
    DirWF ⟨b.kvs.map (fun kv => (kv.1, f kv.2)), b.sequence⟩ := by
  have keys : (b.kvs.map (fun kv => (kv.1, f kv.2))).map Prod.fst = b.kvs.map Prod.fst := by simp
  constructor
  · show SortedKV _
    rw [sortedKV_iff_keys, keys, ← sortedKV_iff_keys]; exact h.1
  · show ValidKeys _
    rw [validKeys_iff_keys, keys, ← validKeys_iff_keys]; exact h.2

theorem dirWF_put (b : Bucket) (k v : Bytes) (h : DirWF b) (h0 : 0 < k.length) (h1 : k.length ≤ maxKeySize) :
    DirWF { b with kvs := b.kvs.filter (fun kv => bytesLt kv.1 k) ++ (k, v) :: b.kvs.filter (fun kv => bytesLt k kv.1) } := by
  refine ⟨sorted_put b.kvs k v h.1, ?_⟩
  intro kv hkv
  simp only [List.mem_append, List.mem_filter, List.mem_cons] at hkv
  rcases hkv with ⟨hm, _⟩ | rfl | ⟨hm, _⟩
  · exact h.2 kv hm
  · exact ⟨h0, h1⟩
  · exact h.2 kv hm

theorem dirWF_delete (b : Bucket) (k : Bytes) (h : DirWF b) : DirWF (b.delete k) := by
  rw [delete_kvs b k h.1]
  refine ⟨sorted_delete b.kvs k h.1, ?_⟩
  intro kv hkv
  simp only [List.mem_append, List.mem_filter] at hkv
  rcases hkv with ⟨hm, _⟩ | ⟨hm, _⟩ <;> exact h.2 kv hm

/-- the score `AddDir` stores for the visited directory -/
def visitedScore (o : ScoreOps) (old : Option Bytes) (incFactor : o.F) : Bytes :=
  o.format (o.add (match old with
    | some v => o.parse (decayed o v)
    | none => o.zero) (o.mul o.increment incFactor))

theorem addDir_ok (o : ScoreOps) (s : Store) (d : Bytes) (f : o.F) (h : DirWF s.dir)
    (h0 : 0 < d.length) (h1 : d.length ≤ maxKeySize) :
    (addDir o s d f).2 = none ∧ (addDir o s d f).1.cmd = s.cmd ∧ DirWF (addDir o s d f).1.dir ∧
    ∀ p, (addDir o s d f).1.dir.get p =
      if p = d then some (visitedScore o (s.dir.get d) f) else (s.dir.get p).map (decayed o) := by
  have hloop := decayLoop_eq o s.dir.sequence s.dir.kvs [] (by simpa using h.1) (by simpa using h.2)
  simp only [List.nil_append] at hloop
  have hb1 := dirWF_map s.dir (decayed o) h
  have hget : ∀ p, (⟨s.dir.kvs.map (fun kv => (kv.1, decayed o kv.2)), s.dir.sequence⟩ : Bucket).get p
      = (s.dir.get p).map (decayed o) := fun p => get_map_values (decayed o) p s.dir.kvs s.dir.sequence
  have hput := fun v => put_kvs ⟨s.dir.kvs.map (fun kv => (kv.1, decayed o kv.2)), s.dir.sequence⟩ d v hb1.1 h0 h1
  simp only [addDir, Bucket.first, hloop, hget, hput]
  refine ⟨trivial, trivial, ?_, ?_⟩
  · exact dirWF_put _ d _ hb1 h0 h1
  · intro p
    have := get_put ⟨s.dir.kvs.map (fun kv => (kv.1, decayed o kv.2)), s.dir.sequence⟩ d
      (visitedScore o (s.dir.get d) f) p hb1.1
    simp only [hget] at this
    simp only [visitedScore] at this ⊢
    cases hd : s.dir.get d <;> simp only [hd, Option.map] at this ⊢ <;> exact this

theorem addDir_bad_key (o : ScoreOps) (s : Store) (d : Bytes) (f : o.F)
    (hbad : d.length = 0 ∨ maxKeySize < d.length) :
    (addDir o s d f).1 = s ∧ (addDir o s d f).2 ≠ none := by
  simp only [addDir, Bucket.put]
  rcases hbad with h | h
  · simp [h]
  · have : ¬ d.length = 0 := by simp [maxKeySize] at h; omega
    simp [this, h]

theorem addDirRaw_ok (o : ScoreOps) (s : Store) (d : Bytes) (x : o.F) (h : DirWF s.dir)
    (h0 : 0 < d.length) (h1 : d.length ≤ maxKeySize) :
    (addDirRaw o s d x).2 = none ∧ (addDirRaw o s d x).1.cmd = s.cmd ∧ DirWF (addDirRaw o s d x).1.dir ∧
    ∀ p, (addDirRaw o s d x).1.dir.get p = if p = d then some (o.format x) else s.dir.get p := by
  simp only [addDirRaw, put_kvs s.dir d _ h.1 h0 h1]
  exact ⟨trivial, trivial, dirWF_put _ d _ h h0 h1, fun p => get_put s.dir d _ p h.1⟩

theorem delDir_ok (s : Store) (d : Bytes) (h : DirWF s.dir) :
    (delDir s d).cmd = s.cmd ∧ DirWF (delDir s d).dir ∧
    ∀ p, (delDir s d).dir.get p = if p = d then none else s.dir.get p :=
  ⟨rfl, dirWF_delete _ d h, fun p => get_delete s.dir d p h.1⟩

theorem dirs_sorted_perm (o : ScoreOps) (s : Store) (bl : List Bytes)
    (htrans : ∀ a b c : o.F, o.lt a b = false → o.lt b c = false → o.lt a c = false)
    (htot : ∀ a b : o.F, o.lt a b = false ∨ o.lt b a = false) :
    (dirs o s bl).Perm ((s.dir.kvs.filter (fun kv => !bl.contains kv.1)).map (fun kv => (kv.1, o.parse kv.2))) ∧
    (dirs o s bl).Pairwise (fun a b => o.lt a.2 b.2 = false) := by
  constructor
  · exact List.mergeSort_perm _ _
  · have := @List.pairwise_mergeSort (Bytes × o.F) (fun a b => !o.lt a.2 b.2)
      (by intro a b c; simp only [Bool.not_eq_true', ]; exact htrans a.2 b.2 c.2)
      (by intro a b; simp only [Bool.or_eq_true, Bool.not_eq_true']; exact htot a.2 b.2)
      ((s.dir.kvs.filter (fun kv => !bl.contains kv.1)).map (fun kv => (kv.1, o.parse kv.2)))
    simp only [Bool.not_eq_true'] at this
    exact this

end C24

/-- non-vacuity of the directory theorems: a toy instance (scores are natural
numbers written as one byte) and a concrete run -/
def C24_toyOps : C24.ScoreOps where
  F := Nat
  parse := fun s => match s with
    | [b] => b.toNat
    | _ => 0
  format := fun x => [UInt8.ofNat x]
  mul := fun a b => a * b / 10
  add := fun a b => a + b
  lt := fun a b => decide (a < b)
  zero := 0
  decay := 9
  increment := 10

