/-
C24 helper lemmas for dir.go: `bytesLt` is a strict total order; get / put /
delete through `seek` on a bucket with sorted keys; the decay loop is a map.
-/
import ElvProofs.C24.Bytes
import ElvProofs.C24.Sorted
namespace C24
open Go Sorted

theorem bytesLt_trans : ∀ (x y z : Bytes), bytesLt x y = true → bytesLt y z = true → bytesLt x z = true
  | [], [], _, h, _ => by simp [bytesLt] at h
  | [], _ :: _, [], _, h => by simp [bytesLt] at h
  | [], _ :: _, _ :: _, _, _ => by simp [bytesLt]
  | _ :: _, [], _, h, _ => by simp [bytesLt] at h
  | _ :: _, _ :: _, [], _, h => by simp [bytesLt] at h
  | a :: x, b :: y, c :: z, h1, h2 => by
    have ih := bytesLt_trans x y z
    simp only [bytesLt, u8_lt_iff] at h1 h2 ⊢
    by_cases ab : a.toNat < b.toNat
    · by_cases bc : b.toNat < c.toNat
      · have : a.toNat < c.toNat := by omega
        simp [this]
      · by_cases cb : c.toNat < b.toNat
        · simp [bc, cb] at h2
        · have : a.toNat < c.toNat := by omega
          simp [this]
    · by_cases ba : b.toNat < a.toNat
      · simp [ab, ba] at h1
      · simp only [ab, ba, if_false] at h1
        by_cases bc : b.toNat < c.toNat
        · have : a.toNat < c.toNat := by omega
          simp [this]
        · by_cases cb : c.toNat < b.toNat
          · simp [bc, cb] at h2
          · simp only [bc, cb, if_false] at h2
            have e1 : ¬ a.toNat < c.toNat := by omega
            have e2 : ¬ c.toNat < a.toNat := by omega
            simp only [e1, e2, if_false]
            exact ih h1 h2

theorem bytesLt_tri : ∀ (x y : Bytes), bytesLt x y = false → bytesLt y x = false → x = y
  | [], [], _, _ => rfl
  | [], _ :: _, h, _ => by simp [bytesLt] at h
  | _ :: _, [], _, h => by simp [bytesLt] at h
  | a :: x, b :: y, h1, h2 => by
    have ih := bytesLt_tri x y
    simp only [bytesLt, u8_lt_iff] at h1 h2
    by_cases ab : a.toNat < b.toNat
    · simp [ab] at h1
    · by_cases ba : b.toNat < a.toNat
      · simp [ba] at h2
      · simp only [ab, ba, if_false] at h1 h2
        have : a = b := UInt8.toNat_inj.1 (by omega)
        rw [this, ih h1 h2]

theorem bytesLt_strict : StrictTotal bytesLt where
  irrefl := bytesLt_irrefl
  trans := bytesLt_trans
  tri := bytesLt_tri

theorem bytesLt_asymm (x y : Bytes) (h : bytesLt x y = true) : bytesLt y x = false := by
  cases h' : bytesLt y x with
  | false => rfl
  | true =>
    have := bytesLt_trans x y x h h'
    rw [bytesLt_irrefl] at this
    exact absurd this (by simp)

/-- keys strictly ascending -/
abbrev SortedKV (l : List KV) : Prop := Sorted (fun kv : KV => kv.1) bytesLt l

/-- every key acceptable to `Bucket.Put` -/
def ValidKeys (l : List KV) : Prop := ∀ kv ∈ l, 0 < kv.1.length ∧ kv.1.length ≤ maxKeySize

/-- invariant of the `dir` bucket -/
def DirWF (b : Bucket) : Prop := SortedKV b.kvs ∧ ValidKeys b.kvs

/-- the pairs after the sought key, once a pair with exactly that key is dropped -/
def postDrop (k : Bytes) (l : List KV) : List KV := dropKey k (seekPost k l)

theorem seekPre_eq (k : Bytes) (l : List KV) (hs : SortedKV l) :
    seekPre k l = l.filter (fun kv => bytesLt kv.1 k) :=
  takeWhile_eq_filter bytesLt_strict k l hs

theorem postDrop_eq (k : Bytes) : ∀ (l : List KV), SortedKV l → postDrop k l = l.filter (fun kv => bytesLt k kv.1)
  | [], _ => rfl
  | h :: t, hs => by
    have ht : SortedKV t := (List.pairwise_cons.1 hs).2
    have hh := (List.pairwise_cons.1 hs).1
    have ih := postDrop_eq k t ht
    unfold postDrop seekPost at ih ⊢
    by_cases c : bytesLt h.1 k = true
    · simp only [List.dropWhile_cons, c, if_true, List.filter_cons, bytesLt_asymm _ _ c]
      exact ih
    · have c' : bytesLt h.1 k = false := by simpa using c
      simp only [List.dropWhile_cons, c', List.filter_cons, dropKey]
      by_cases e : h.1 = k
      · have : t.filter (fun kv => bytesLt k kv.1) = t := by
          apply List.filter_eq_self.2
          intro x hx
          rw [← e]; exact hh x hx
        simp [e, bytesLt_irrefl, this]
      · have hk : bytesLt k h.1 = true := by
          cases hk : bytesLt k h.1 with
          | true => rfl
          | false => exact absurd (bytesLt_tri _ _ c' hk) e
        have : t.filter (fun kv => bytesLt k kv.1) = t := by
          apply List.filter_eq_self.2
          intro x hx
          exact bytesLt_trans _ _ _ hk (hh x hx)
        simp [e, hk, this]

/-- what `Put` leaves in the bucket -/
theorem put_kvs (b : Bucket) (k v : Bytes) (hs : SortedKV b.kvs) (h0 : 0 < k.length) (h1 : k.length ≤ maxKeySize) :
    b.put k v = .ok { b with kvs := b.kvs.filter (fun kv => bytesLt kv.1 k) ++ (k, v) :: b.kvs.filter (fun kv => bytesLt k kv.1) } := by
  have := postDrop_eq k b.kvs hs
  unfold postDrop at this
  simp only [Bucket.put, seekPre_eq k _ hs, this]
  have : ¬ k.length = 0 := by omega
  have : ¬ k.length > maxKeySize := by omega
  simp [*]

theorem delete_kvs (b : Bucket) (k : Bytes) (hs : SortedKV b.kvs) :
    b.delete k = { b with kvs := b.kvs.filter (fun kv => bytesLt kv.1 k) ++ b.kvs.filter (fun kv => bytesLt k kv.1) } := by
  have := postDrop_eq k b.kvs hs
  unfold postDrop at this
  simp only [Bucket.delete, seekPre_eq k _ hs, this]

/-- in a bucket with sorted keys `Get` is membership -/
theorem get_iff_mem (k v : Bytes) : ∀ (l : List KV) (s : Nat), SortedKV l →
    ((⟨l, s⟩ : Bucket).get k = some v ↔ (k, v) ∈ l)
  | [], _, _ => by simp [Bucket.get, seekPost]
  | h :: t, s, hs => by
    have ht : SortedKV t := (List.pairwise_cons.1 hs).2
    have hh := (List.pairwise_cons.1 hs).1
    have ih := get_iff_mem k v t s ht
    simp only [Bucket.get, seekPost] at ih ⊢
    by_cases c : bytesLt h.1 k = true
    · have hne : ¬ h = (k, v) := by
        intro e; rw [e] at c; simp [bytesLt_irrefl] at c
      simp only [List.dropWhile_cons, c, if_true, List.mem_cons]
      rw [ih]
      constructor
      · exact Or.inr
      · rintro (e | e)
        · exact absurd e.symm hne
        · exact e
    · have c' : bytesLt h.1 k = false := by simpa using c
      have hnot : (k, v) ∉ t := by
        intro hm
        have h1 : bytesLt h.1 k = true := hh (k, v) hm
        rw [h1] at c'; exact absurd c' (by simp)
      obtain ⟨hk, hv0⟩ := h
      simp only at c'
      simp only [List.dropWhile_cons, c', Bool.false_eq_true, if_false, List.mem_cons]
      by_cases e : hk = k
      · subst e
        simp only [if_true, Option.some.injEq, Prod.mk.injEq, true_and]
        constructor
        · intro hv; left; exact hv.symm
        · rintro (hv | hv)
          · exact hv.symm
          · exact absurd hv hnot
      · simp only [e, if_false, Prod.mk.injEq]
        constructor
        · intro hv; exact absurd hv (by simp)
        · rintro (hv | hv)
          · exact absurd hv.1.symm e
          · exact absurd hv hnot

theorem sorted_put (l : List KV) (k v : Bytes) (hs : SortedKV l) :
    SortedKV (l.filter (fun kv => bytesLt kv.1 k) ++ (k, v) :: l.filter (fun kv => bytesLt k kv.1)) := by
  apply List.pairwise_append.2
  refine ⟨sorted_filter _ _ hs, ?_, ?_⟩
  · apply List.pairwise_cons.2
    refine ⟨?_, sorted_filter _ _ hs⟩
    intro x hx
    exact (List.mem_filter.1 hx).2
  · intro a ha b hb
    have ha' := (List.mem_filter.1 ha).2
    rcases List.mem_cons.1 hb with rfl | hb
    · exact ha'
    · exact bytesLt_trans _ _ _ ha' (List.mem_filter.1 hb).2

theorem sorted_delete (l : List KV) (k : Bytes) (hs : SortedKV l) :
    SortedKV (l.filter (fun kv => bytesLt kv.1 k) ++ l.filter (fun kv => bytesLt k kv.1)) := by
  apply List.pairwise_append.2
  refine ⟨sorted_filter _ _ hs, sorted_filter _ _ hs, ?_⟩
  intro a ha b hb
  exact bytesLt_trans _ _ _ (List.mem_filter.1 ha).2 (List.mem_filter.1 hb).2

/-- `Get` after `Put` -/
theorem get_put (b : Bucket) (k v k' : Bytes) (hs : SortedKV b.kvs) :
    ({ b with kvs := b.kvs.filter (fun kv => bytesLt kv.1 k) ++ (k, v) :: b.kvs.filter (fun kv => bytesLt k kv.1) } : Bucket).get k'
      = if k' = k then some v else b.get k' := by
  have hs' := sorted_put b.kvs k v hs
  apply Option.ext
  intro w
  rw [get_iff_mem k' w _ _ hs']
  by_cases e : k' = k
  · subst e
    simp only [if_true, List.mem_append, List.mem_filter, List.mem_cons, Prod.mk.injEq, true_and, bytesLt_irrefl]
    constructor
    · rintro (⟨_, h⟩ | h | ⟨_, h⟩)
      · exact absurd h (by simp)
      · rw [h]
      · exact absurd h (by simp)
    · intro h; right; left; exact (Option.some.inj h).symm
  · simp only [e, if_false]
    have := get_iff_mem k' w b.kvs b.sequence hs
    rw [this]
    simp only [List.mem_append, List.mem_filter, List.mem_cons, Prod.mk.injEq]
    constructor
    · rintro (⟨h, _⟩ | ⟨h, _⟩ | ⟨h, _⟩)
      · exact h
      · exact absurd h e
      · exact h
    · intro h
      cases c : bytesLt k' k with
      | true => left; exact ⟨h, rfl⟩
      | false =>
        right; right
        refine ⟨h, ?_⟩
        cases c2 : bytesLt k k' with
        | true => rfl
        | false => exact absurd (bytesLt_tri _ _ c c2) e

/-- `Get` after `Delete` -/
theorem get_delete (b : Bucket) (k k' : Bytes) (hs : SortedKV b.kvs) :
    (b.delete k).get k' = if k' = k then none else b.get k' := by
  rw [delete_kvs b k hs]
  have hs' := sorted_delete b.kvs k hs
  apply Option.ext
  intro w
  rw [get_iff_mem k' w _ _ hs']
  by_cases e : k' = k
  · subst e
    simp [bytesLt_irrefl]
  · simp only [e, if_false]
    rw [get_iff_mem k' w b.kvs b.sequence hs]
    simp only [List.mem_append, List.mem_filter]
    constructor
    · rintro (⟨h, _⟩ | ⟨h, _⟩) <;> exact h
    · intro h
      cases c : bytesLt k' k with
      | true => left; exact ⟨h, rfl⟩
      | false =>
        right
        refine ⟨h, ?_⟩
        cases c2 : bytesLt k k' with
        | true => rfl
        | false => exact absurd (bytesLt_tri _ _ c c2) e

/-- `Get` on a bucket whose values were all transformed -/
theorem get_map_values (f : Bytes → Bytes) (k : Bytes) : ∀ (l : List KV) (s : Nat),
    (⟨l.map (fun kv => (kv.1, f kv.2)), s⟩ : Bucket).get k = ((⟨l, s⟩ : Bucket).get k).map f
  | [], _ => rfl
  | h :: t, s => by
    have ih := get_map_values f k t s
    simp only [Bucket.get, seekPost] at ih ⊢
    by_cases c : bytesLt h.1 k = true
    · simp only [List.map_cons, List.dropWhile_cons, c, if_true]
      exact ih
    · have c' : bytesLt h.1 k = false := by simpa using c
      simp only [List.map_cons, List.dropWhile_cons, c']
      by_cases e : h.1 = k <;> simp [e]

end C24
