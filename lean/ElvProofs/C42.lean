/-
C42 — redirections route bytes and values exactly as specified.

Property theorems over `ElvModel/C42/Model.lean` (`Cfg.fixed`: the tree with
`fixes/C42-*.patch`), the specification `ElvModel/C42/Spec.lean`, and the
counterexamples of the unchanged tree (`Cfg.orig`).  Helper lemmas are in
`ElvProofs/C42/*.lean`.
-/
import ElvProofs.C42.Route
import ElvProofs.C42.NoPanic
import ElvProofs.C42.Chan
import ElvProofs.C42.Close
open Go C42

/-- The frame a top-level form starts with: ports 0, 1, 2 on three open files. -/
def C42_st0 : St :=
  ⟨[some ⟨0, some 0, .closed, false, false, false⟩, some ⟨1, some 1, .live 1, false, false, false⟩,
    some ⟨2, some 2, .live 2, false, false, false⟩], [],
   ⟨[("in", .file []), ("out", .file []), ("err", .file [])],
    [⟨"in", 0, true, false, false, true⟩, ⟨"out", 0, false, true, true, true⟩, ⟨"err", 0, false, true, true, true⟩],
    [], []⟩, 3⟩


/-! ## 1. The port table is the specification's table -/

/-- For ANY list of redirections and any frame: when the redirection loop of
the fixed code returns, the table it built (`lookup ports`), the file system,
the number of files opened and the exception (if any) are exactly those of
the specification: left-to-right application of the documented meaning of
`<`, `>`, `>>`, `<>`, `n>&m`, `n>&-`. -/
theorem C42_table_is_spec_table (st : St) (rs : List Redir) (s : Step)
    (h : execRedirs Cfg.fixed st rs = .ok s) :
    specRedirs st.abs rs = (s.st.abs, s.exc) :=
  execRedirs_refines rs h

/-- The same, read per fd. -/
theorem C42_table_pointwise (st : St) (rs : List Redir) (s : Step)
    (h : execRedirs Cfg.fixed st rs = .ok s) (n : Nat) :
    lookup s.st.ports n = (specRedirs st.abs rs).1.tbl n := by
  rw [C42_table_is_spec_table st rs s h]; rfl

/-! ## 2. Every fd value yields a port or an exception -/

/-- EVERY destination value — any string with any parse, any integer however
negative or large, any other value, any number of values — either raises an
exception or is an index in `0..maxRedirFD` for which both slices grow
without a panic.  No hypothesis on the frame. -/
theorem C42_every_dst_fd_port_or_exception (st : St) (r : Redir) :
    (∃ e, evalDst Cfg.fixed r = .exc e) ∨
    (∃ dst x, evalDst Cfg.fixed r = .ok dst ∧ 0 ≤ dst ∧ dst ≤ maxRedirFD ∧ prepDst Cfg.fixed st dst = .ok x) := by
  cases hd : evalDst Cfg.fixed r with
  | panic m => exact absurd hd (evalDst_noPanic _ _ m)
  | exc e => exact Or.inl ⟨e, rfl⟩
  | ok dst =>
    obtain ⟨h0, h1⟩ := evalDst_fixed_range hd
    obtain ⟨f, hp, _⟩ := prepDst_fixed st h0 h1
    exact Or.inr ⟨dst, _, rfl, h0, h1, hp⟩

/-- EVERY source fd value either raises an exception, is the close marker of
`&-`, or is an index in `0..maxRedirFD`; evaluating the source never panics. -/
theorem C42_every_src_fd_port_or_exception (st : St) (d : Nat) (mode : Mode) (v : FdVal) :
    NoPanic (installSrc Cfg.fixed st d mode (.fd v)) ∧
    ∀ n, evalForFd Cfg.fixed v true = .ok n → (0 ≤ n ∧ n ≤ maxRedirFD) ∨ n = -1 :=
  ⟨installSrc_noPanic_fixed _ _ _ _, fun _ h => (evalForFd_fixed_range h).imp id And.left⟩

/-- `pid` is the identity of a `*Port`: the allocator's counter is above every
port of the table (a port made by `&Port{…}` is a pointer that did not exist),
and two entries with the same pid are the same port.  Every frame the real
code can build satisfies this. -/
def C42_PidsWF (st : St) : Prop :=
  (∀ (i : Nat) (p : Port), lookup st.ports i = some p → p.pid < st.nextPid) ∧
  (∀ (i j : Nat) (p q : Port), lookup st.ports i = some p → lookup st.ports j = some q → p.pid = q.pid → p = q)

/-- Full panic-freedom of the redirection loop; the well-formedness asked of
the frame concerns only the value channels the form owns (a form followed by
another form of its pipeline owns the channel of its output pipe): an owned
channel is live and not closed, no channel is owned twice, and pids are
pointer identities. -/
def C42_ChanWF (st : St) : Prop :=
  (∀ (i : Nat) (f : Fop), st.fops[i]? = some f → f.chan = true →
    ∃ p id, lookup st.ports i = some p ∧ p.chan = .live id ∧ id ∉ st.w.closedChans) ∧
  (∀ (i j : Nat) (fi fj : Fop) (pi pj : Port), i ≠ j → st.fops[i]? = some fi → fi.chan = true →
    st.fops[j]? = some fj → fj.chan = true → lookup st.ports i = some pi → lookup st.ports j = some pj →
    pi.chan ≠ pj.chan) ∧
  C42_PidsWF st

def C42_no_panic_full : Prop :=
  ∀ (st : St) (rs : List Redir), C42_ChanWF st → ∃ s, execRedirs Cfg.fixed st rs = .ok s

/-- Whatever the fd values, however many redirections, and in every position
of a pipeline: the redirection loop of the fixed code returns — with the table
or with an exception — and never panics.  In particular `close(p.Chan)` of the
channel of the form's output pipe is never reached twice: when the port is
redirected away the channel is closed once (or handed over to the entry that
still uses the port), and the ownership invariant (`ChanInv`: owned channels
are live, not closed, and owned by one entry) holds again after every
redirection. -/
theorem C42_no_panic : C42_no_panic_full := by
  intro st rs ⟨h1, h2, hlt, hinj⟩
  have hp : PidInv st := ⟨hlt, hinj⟩
  have hc : ChanInv st := by
    constructor
    · intro i hi
      exact h1 i _ (getElem?_of_fopAt_lt (fopAt_lt_of_chan hi)) hi
    · intro i j p q hij hi hj hpi hpj
      exact h2 i j _ _ p q hij (getElem?_of_fopAt_lt (fopAt_lt_of_chan hi)) hi
        (getElem?_of_fopAt_lt (fopAt_lt_of_chan hj)) hj hpi hpj
  obtain ⟨s, hs, _⟩ := execRedirs_chanInv rs st hp hc
  exact ⟨s, hs⟩

/-- … and the invariant the proof carries: after the loop every channel the
form still owns is live and has not been closed, and no two entries own the
same channel — so the stage end closes each of them exactly once. -/
theorem C42_owned_channels_after_redirs (st : St) (rs : List Redir) (h : C42_ChanWF st) :
    ∃ s, execRedirs Cfg.fixed st rs = .ok s ∧ C42_ChanWF s.st := by
  obtain ⟨h1, h2, hlt, hinj⟩ := h
  have hp : PidInv st := ⟨hlt, hinj⟩
  have hc : ChanInv st := by
    constructor
    · intro i hi
      exact h1 i _ (getElem?_of_fopAt_lt (fopAt_lt_of_chan hi)) hi
    · intro i j p q hij hi hj hpi hpj
      exact h2 i j _ _ p q hij (getElem?_of_fopAt_lt (fopAt_lt_of_chan hi)) hi
        (getElem?_of_fopAt_lt (fopAt_lt_of_chan hj)) hj hpi hpj
  obtain ⟨s, hs, hp', hc'⟩ := execRedirs_chanInv rs st hp hc
  refine ⟨s, hs, ?_, ?_, hp'.lt, hp'.inj⟩
  · intro i f hf hch
    exact hc'.owner i (by rw [fopAt_of_getElem? hf]; exact hch)
  · intro i j fi fj pi pj hij hfi hci hfj hcj hpi hpj
    exact hc'.uniq i j pi pj hij (by rw [fopAt_of_getElem? hfi]; exact hci)
      (by rw [fopAt_of_getElem? hfj]; exact hcj) hpi hpj

/-- A form that owns no value channel (every form that is the last of its
pipeline, in particular every stand-alone form) needs no hypothesis at all, not
even on the pids: the loop returns whatever the frame is. -/
theorem C42_no_panic_without_owned_channel (st : St) (rs : List Redir)
    (h : ∀ (i : Nat) (f : Fop), st.fops[i]? = some f → f.chan = false) :
    ∃ s, execRedirs Cfg.fixed st rs = .ok s :=
  (execRedirs_fixed_ok rs st h).imp fun _ h => h.1

/-- The frame of a form followed by another form (`form | …`): port 1 is the
output pipe, whose file and channel the form owns. -/
def C42_stPipeOut (nextPid : Nat) : St :=
  ⟨[some ⟨0, some 0, .closed, false, false, false⟩, some ⟨4, some 3, .live 4, false, true, false⟩,
    some ⟨2, some 2, .live 2, false, false, false⟩], [Fop.unowned, ⟨true, true⟩],
   ⟨[("in", .file []), ("err", .file []), ("|dn", .file [])],
    [⟨"in", 0, true, false, false, true⟩, ⟨"out", 0, false, true, true, true⟩, ⟨"err", 0, false, true, true, true⟩,
     ⟨"|dn", 0, false, true, true, true⟩], [], []⟩, nextPid⟩

/-- `3>a >b 3>c` in front of a pipe. -/
def C42_overridePipeOut : List Redir :=
  [⟨some (.int 3), .write, .name "a"⟩, ⟨none, .write, .name "b"⟩, ⟨some (.int 3), .write, .name "c"⟩]

/-- The hypothesis that pids are pointer identities is needed (it was missing
from the first statement of `C42_ChanWF`): in a model state whose allocator
hands out the pid of the pipe port again, `3>a >b 3>c` hands the channel over
to the port of `a` and closes a nil channel.  No frame of the real code is
like that (`&Port{…}` is a new pointer); with a fresh counter the same
redirections close the pipe's channel once. -/
theorem C42_no_panic_needs_pid_identity :
    execRedirs Cfg.fixed (C42_stPipeOut 4) C42_overridePipeOut = .panic "close of nil channel" ∧
    ∃ s, execRedirs Cfg.fixed (C42_stPipeOut 5) C42_overridePipeOut = .ok s ∧ s.exc = none ∧
      s.st.w.closedChans = [4] := ⟨rfl, _, rfl, rfl, rfl⟩

/-! ## 3. Value output to a file-redirected or closed port -/

/-- After a successful redirection whose source is a file name, a file
object, a map or `&-`, the destination port refuses values: `put` in any
frame that has this port as port 1 (e.g. after `>&n`) raises "port does not
support value output". -/
theorem C42_value_output_raises (st st' : St) (r : Redir) (hsrc : r.src.isFileOrClose = true)
    (h : execRedir Cfg.fixed st r = .ok ⟨st', none⟩) :
    ∃ dst p, evalDst Cfg.fixed r = .ok dst ∧ lookup st'.ports dst.toNat = some p ∧
      ∀ (s2 : St) (v : Bytes), s2.ports[1]? = some (some p) →
        valueOutput Cfg.fixed s2 v = .ok (s2, some eNoValueOutput) := by
  obtain ⟨dst, oldFop, st1, hd, h0, h1, hi, hr⟩ := execRedir_fixed_ok_inv h
  obtain ⟨p, hp, hrf⟩ := installSrc_refuses hsrc hi
  obtain ⟨e1, _⟩ := release_shape hr
  refine ⟨dst, p, hd, ?_, fun s2 v h2 => valueOutput_refused v h2 hrf⟩
  rw [e1, hp]
  simp only
  rw [lookup_set _ _ _ _ (grown_length_gt _ _ _)]
  simp

/-! ## 4. Bytes end up where the operator says -/


/-- Bytes written through the port of a file redirection, by operator. -/
theorem C42_bytes_routed_by_mode {st st' : St} {dstv : Option FdVal} {mode : Mode} {path : String}
    {old : Option Bytes} (d : Bytes)
    (hwf : PortsInRange st) (hfile : st.w.fs.get path = old.map Node.file)
    (h : execRedir Cfg.fixed st ⟨dstv, mode, .name path⟩ = .ok ⟨st', none⟩) :
    ∃ dst p hi, evalDst Cfg.fixed ⟨dstv, mode, .name path⟩ = .ok dst ∧
      lookup st'.ports dst.toNat = some p ∧ p.file = some hi ∧
      match mode with
      | .read =>
        writeHandle st'.w (some hi) d = .error "w-ebadf" ∧
        ∃ data w', old = some data ∧ readHandle st'.w (some hi) = .ok (w', data)
      | .write => ∃ w', writeHandle st'.w (some hi) d = .ok w' ∧ w'.fs.get path = some (.file d) ∧
          ∀ q, q ≠ path → w'.fs.get q = st.w.fs.get q
      | .append => ∃ w', writeHandle st'.w (some hi) d = .ok w' ∧
          w'.fs.get path = some (.file (contentOr old ++ d)) ∧ ∀ q, q ≠ path → w'.fs.get q = st.w.fs.get q
      | .readWrite => ∃ w', writeHandle st'.w (some hi) d = .ok w' ∧
          w'.fs.get path = some (.file (d ++ (contentOr old).drop d.length)) ∧
          ∀ q, q ≠ path → w'.fs.get q = st.w.fs.get q := by
  obtain ⟨dst, fs', hd, hdst, hopen, hport, hh, hfs⟩ := execRedir_name_inv hwf h
  obtain ⟨hhd, hother, hmode⟩ := openFile_regular hfile hopen
  refine ⟨dst, _, st.w.hs.length, hdst, hport, ?_, ?_⟩
  · unfold fileRedirPort; split <;> rfl
  · subst hhd
    cases mode with
    | read =>
      obtain ⟨data, hold, hget⟩ := hmode
      refine ⟨writeHandle_readonly d hh rfl rfl, data, ?_⟩
      rw [← hfs] at hget
      obtain ⟨w', hr⟩ := readHandle_ok hh rfl rfl hget
      exact ⟨w', hold, by simpa using hr⟩
    | write =>
      simp only at hmode
      rw [← hfs] at hmode
      obtain ⟨w', hw, hg, ho⟩ := writeHandle_ok d hh rfl rfl hmode
      refine ⟨w', hw, ?_, fun q hq => ?_⟩
      · simpa [makeFlag, writeAt_zero] using hg
      · rw [ho q hq, hfs]; exact hother q hq
    | append =>
      simp only at hmode
      rw [← hfs] at hmode
      obtain ⟨w', hw, hg, ho⟩ := writeHandle_ok d hh rfl rfl hmode
      refine ⟨w', hw, ?_, fun q hq => ?_⟩
      · simpa [makeFlag] using hg
      · rw [ho q hq, hfs]; exact hother q hq
    | readWrite =>
      simp only at hmode
      rw [← hfs] at hmode
      obtain ⟨w', hw, hg, ho⟩ := writeHandle_ok d hh rfl rfl hmode
      refine ⟨w', hw, ?_, fun q hq => ?_⟩
      · simpa [makeFlag, writeAt_zero] using hg
      · rw [ho q hq, hfs]; exact hother q hq

/-! ## 5. Closing -/

/-- FULL statement about closing, for a form alone in its pipeline: when the
form has finished, every file opened by one of its redirections is closed,
and every file that existed before (inherited ports, file objects, pipes
given as maps) has kept its open state.  The only thing asked of the frame is
that pids are pointer identities (`C42_PidsWF`).
(Round 1 stated this with `PortsInRange` and `C42_foreignSources` instead;
neither is needed, but without `C42_PidsWF` the statement is false:
`C42_files_closed_needs_pid_identity`.) -/
def C42_files_closed_full : Prop :=
  ∀ (st : St) (rs : List Redir) (as : List Action) (o : FormOut),
    st.fops = [] → C42_PidsWF st →
    runForm Cfg.fixed st none rs as = .ok o →
    (∀ (h : Nat) (hd : Handle), st.w.hs.length ≤ h → o.st.w.hs[h]? = some hd → hd.isOpen = false) ∧
    (∀ (h : Nat) (hd : Handle), st.w.hs[h]? = some hd → ∃ hd', o.st.w.hs[h]? = some hd' ∧ hd'.isOpen = hd.isOpen)

/-- The same for a form in ANY position of a pipeline (it then starts with
owned entries: its input pipe, the file and channel of its output pipe): when
it has finished — normally, with a redirection that failed half-way, or with
actions that failed — every file it owned at the start and every file one of
its redirections opened is closed, and every other file has kept its open
state: nothing the form does not own is closed, nothing it owns leaks. -/
theorem C42_form_closes_exactly_what_it_owns (st : St) (inPipe : Option Port) (rs : List Redir)
    (as : List Action) (o : FormOut) (hp : C42_PidsWF st)
    (hflag : ∀ i, (fopAt st.fops i).file = true → ∃ p, lookup st.ports i = some p)
    (h : runForm Cfg.fixed st inPipe rs as = .ok o) :
    (∀ (h : Nat) (hd : Handle),
      ((∃ i p, (fopAt st.fops i).file = true ∧ lookup st.ports i = some p ∧ p.file = some h) ∨ st.w.hs.length ≤ h) →
      o.st.w.hs[h]? = some hd → hd.isOpen = false) ∧
    (∀ (h : Nat) (hd : Handle),
      ¬ (∃ i p, (fopAt st.fops i).file = true ∧ lookup st.ports i = some p ∧ p.file = some h) →
      st.w.hs[h]? = some hd → ∃ hd', o.st.w.hs[h]? = some hd' ∧ hd'.isOpen = hd.isOpen) := by
  have hinv : FileInv (fun h => (∃ i p, (fopAt st.fops i).file = true ∧ lookup st.ports i = some p ∧ p.file = some h) ∨
      st.w.hs.length ≤ h) st := by
    refine ⟨fun h hh => Or.inr hh, ?_, ?_⟩
    · intro i hi
      obtain ⟨p, hl⟩ := hflag i hi
      exact ⟨p, hl, fun h hf => Or.inl ⟨i, p, hi, hl, hf⟩⟩
    · intro h hd hT hh _
      rcases hT with hT | hT
      · exact hT
      · rw [List.getElem?_eq_none_iff.mpr hT] at hh; cases hh
  obtain ⟨hA, hB⟩ := runForm_files h ⟨hp.1, hp.2⟩ hinv
  refine ⟨fun h hd hT hh => hA h hd hT hh, fun h hd hno hh => ?_⟩
  have hlt : h < st.w.hs.length := (List.getElem?_eq_some_iff.mp hh).1
  have := hB h (by rintro (x | x); exact hno x; omega)
  rw [hh] at this
  cases hx : o.st.w.hs[h]? with
  | none => rw [hx] at this; cases this
  | some x =>
    rw [hx] at this
    simp only [Option.map_some, Option.some.injEq] at this
    exact ⟨x, rfl, this⟩

theorem C42_files_closed : C42_files_closed_full := by
  intro st rs as o hfops hp h
  have hnone : ∀ hh, ¬ (∃ i p, (fopAt st.fops i).file = true ∧ lookup st.ports i = some p ∧ p.file = some hh) := by
    rintro hh ⟨i, p, hi, _⟩
    rw [hfops, fopAt_nil] at hi; cases hi
  obtain ⟨hA, hB⟩ := C42_form_closes_exactly_what_it_owns st none rs as o hp
    (by intro i hi; rw [hfops, fopAt_nil] at hi; cases hi) h
  exact ⟨fun h hd hge hh => hA h hd (Or.inr hge) hh, fun h hd hh => hB h hd (hnone h) hh⟩

/-- A model state in which the allocator hands out a pid that is already in
the table (port 5, on the foreign file 0, has the pid the next port will get). -/
def C42_stStalePid : St :=
  { C42_st0 with ports := C42_st0.ports ++ [none, none, some ⟨3, some 0, .closed, false, false, false⟩] }

/-- `C42_PidsWF` is needed in `C42_files_closed_full` (round 1 stated it
without): in `C42_stStalePid`, `>a >b` hands the ownership of `a` over to port
5, so the form closes the foreign file 0 and leaves `a` (file 3) open.  The
state satisfies what round 1 asked (`PortsInRange`, nothing owned); no frame
of the real code is like that. -/
theorem C42_files_closed_needs_pid_identity :
    C42_stStalePid.fops = [] ∧ PortsInRange C42_stStalePid ∧
    ∃ o, runForm Cfg.fixed C42_stStalePid none [⟨none, .write, .name "a"⟩, ⟨none, .write, .name "b"⟩] [] = .ok o ∧
      o.st.w.hs.map (·.isOpen) = [false, true, true, true, false] := by
  refine ⟨rfl, ?_, _, rfl, rfl⟩
  intro j q h hl hf
  have hj := lookup_lt hl
  have : j = 0 ∨ j = 1 ∨ j = 2 ∨ j = 3 ∨ j = 4 ∨ j = 5 := by
    simp [C42_stStalePid, C42_st0] at hj; omega
  rcases this with rfl | rfl | rfl | rfl | rfl | rfl <;>
    (simp [lookup, C42_stStalePid, C42_st0] at hl) <;>
    (subst hl; simp at hf; subst hf; simp [C42_stStalePid, C42_st0])

/-! ## 6. The unchanged tree (`Cfg.orig`) violates the property -/


theorem C42_counterexample_negative_dst :
    execRedir Cfg.orig C42_st0 ⟨some (.int (-1)), .write, .name "f"⟩ = .panic "index out of range" := by
  simp [execRedir, evalDst, evalForFd, checkRange, Cfg.orig, prepDst, growAccess, bind, Res.bind]

theorem C42_counterexample_huge_dst :
    execRedir Cfg.orig C42_st0 ⟨some (.int 100000000000), .write, .name "f"⟩ = .panic "out of memory" := by
  simp [execRedir, evalDst, evalForFd, checkRange, Cfg.orig, prepDst, growAccess, bind, Res.bind, C42_st0]

theorem C42_counterexample_negative_src :
    execRedir Cfg.orig C42_st0 ⟨none, .write, .fd (.int (-2))⟩ = .panic "index out of range" := by
  rfl

/-- `>&-1` is taken for `>&-` by the unchanged tree. -/
theorem C42_counterexample_minus_one_closes :
    ∃ st', execRedir Cfg.orig C42_st0 ⟨none, .write, .fd (.int (-1))⟩ = .ok ⟨st', none⟩ ∧
      lookup st'.ports 1 = some (closedPort 3) := ⟨_, rfl, rfl⟩

def C42_dupThenOverride : List Redir :=
  [⟨some (.int 3), .write, .name "a"⟩, ⟨some (.int 4), .write, .fd (.int 3)⟩, ⟨some (.int 3), .write, .name "b"⟩]

/-- `3>a 4>&3 3>b` on the unchanged tree: port 4 is left on a closed file. -/
theorem C42_counterexample_dup_then_override :
    ∃ s p h hd, execRedirs Cfg.orig C42_st0 C42_dupThenOverride = .ok s ∧ s.exc = none ∧
      lookup s.st.ports 4 = some p ∧ p.file = some h ∧ s.st.w.hs[h]? = some hd ∧ hd.isOpen = false ∧
      writeHandle s.st.w p.file [120] = .error "w-closed" := by
  refine ⟨_, _, _, _, rfl, rfl, rfl, rfl, rfl, rfl, rfl⟩

/-- … and on the fixed code it still refers to the open file `a`. -/
theorem C42_fixed_dup_then_override :
    ∃ s p w', execRedirs Cfg.fixed C42_st0 C42_dupThenOverride = .ok s ∧ s.exc = none ∧
      lookup s.st.ports 4 = some p ∧ writeHandle s.st.w p.file [120] = .ok w' ∧
      w'.fs.get "a" = some (.file [120]) := by
  refine ⟨_, _, _, rfl, rfl, rfl, rfl, rfl⟩

/-- `3>a 3>&3` on the unchanged tree closes `a` and keeps port 3 on it. -/
theorem C42_counterexample_self_dup :
    ∃ s p, execRedirs Cfg.orig C42_st0 [⟨some (.int 3), .write, .name "a"⟩, ⟨some (.int 3), .write, .fd (.int 3)⟩] = .ok s ∧
      s.exc = none ∧ lookup s.st.ports 3 = some p ∧ writeHandle s.st.w p.file [120] = .error "w-closed" :=
  ⟨_, _, rfl, rfl, rfl, rfl⟩

/-- `put x >&0` (and `put x 1<f`) on the unchanged tree: send on closed channel. -/
theorem C42_counterexample_value_output_input_port :
    runAction Cfg.orig C42_st0 (.put (some 0) [120]) = .panic "send on closed channel" := rfl

/-- The frame of a form whose input is a pipe (`a | form`): port 0 is the pipe, owned by the form. -/
def C42_stPipeIn : St × Port :=
  let p : Port := ⟨3, some 3, .live 3, false, true, true⟩
  (⟨[some p, some ⟨1, some 1, .live 1, false, false, false⟩, some ⟨2, some 2, .live 2, false, false, false⟩], [⟨true, false⟩],
    ⟨[("in", .file [65]), ("out", .file []), ("err", .file []), ("|up", .file [])],
     [⟨"in", 0, true, false, false, true⟩, ⟨"out", 0, false, true, true, true⟩, ⟨"err", 0, false, true, true, true⟩,
      ⟨"|up", 0, true, false, false, true⟩], [], []⟩, 4⟩, p)

/-- `a | form <in` on the unchanged tree: nil dereference when the form ends. -/
theorem C42_counterexample_pipe_input_redirected :
    runForm Cfg.orig C42_stPipeIn.1 (some C42_stPipeIn.2) [⟨none, .read, .name "in"⟩] [] =
      .panic "nil pointer dereference or close of closed channel" := rfl

/-- The unchanged tree is not panic-free, even for a stand-alone form. -/
theorem C42_counterexample :
    ¬ ∀ (st : St) (rs : List Redir), (∀ (i : Nat) (f : Fop), st.fops[i]? = some f → f.chan = false) →
      ∃ s, execRedirs Cfg.orig st rs = .ok s := by
  intro h
  obtain ⟨s, hs⟩ := h C42_st0 [⟨some (.int (-1)), .write, .name "f"⟩] (by intro i f hf; simp [C42_st0] at hf)
  have : execRedirs Cfg.orig C42_st0 [⟨some (.int (-1)), .write, .name "f"⟩] = .panic "index out of range" := rfl
  rw [this] at hs
  cases hs

/-! ## 7. The fixed code on the same witnesses, and non-vacuity -/

theorem C42_fixed_rejects_bad_fds :
    (Step.exc <$> execRedir Cfg.fixed C42_st0 ⟨some (.int (-1)), .write, .name "f"⟩) = Res.ok (some "invalid-fd,-1") ∧
    (Step.exc <$> execRedir Cfg.fixed C42_st0 ⟨some (.int 100000000000), .write, .name "f"⟩) = Res.ok (some "invalid-fd,100000000000") ∧
    (Step.exc <$> execRedir Cfg.fixed C42_st0 ⟨none, .write, .fd (.int (-2))⟩) = Res.ok (some "invalid-fd,-2") ∧
    (Step.exc <$> execRedir Cfg.fixed C42_st0 ⟨none, .write, .fd (.int (-1))⟩) = Res.ok (some "invalid-fd,-1") :=
  ⟨rfl, rfl, rfl, rfl⟩

/-- The fixed code on `a | form <in`: no panic, the pipe and the file are both closed at the end. -/
theorem C42_fixed_pipe_input_redirected :
    ∃ o, runForm Cfg.fixed C42_stPipeIn.1 (some C42_stPipeIn.2) [⟨none, .read, .name "in"⟩] [.read none] = .ok o ∧
      o.acts = ["r41/vclosed"] ∧ (o.st.w.hs.drop 3).all (fun h => !h.isOpen) = true :=
  ⟨_, rfl, rfl, rfl⟩

/-- Closing on the dup-then-override witness (an instance of `C42_files_closed_full`):
`echo x >&4` reaches `a`, and afterwards both opened files are closed and ports 0–2 are still open. -/
theorem C42_fixed_dup_then_override_closes :
    ∃ o, runForm Cfg.fixed C42_st0 none C42_dupThenOverride [.echo (some 4) [120], .put (some 4) [121]] = .ok o ∧
      o.acts = ["ok", "no-value-output"] ∧ o.st.w.fs.get "a" = some (.file [120, 10]) ∧
      o.st.w.hs.map (·.isOpen) = [true, true, true, false, false] :=
  ⟨_, rfl, rfl, rfl, rfl⟩

/-- `put x >&0` in `a | form` (the case C17 found: `nop | { sleep 0.05; put x >&0 }` panicked
with `send on closed channel`): with the reading end of a pipe as port 1, value output raises
"port does not support value output" whatever the state of the channel. -/
theorem C42_value_output_pipe_read_end (st : St) (p : Port) (v : Bytes)
    (hp : st.ports[1]? = some (some p)) (hr : p.pipeReadEnd = true) :
    valueOutput Cfg.fixed st v = .ok (st, some eNoValueOutput) :=
  valueOutput_readEnd v hp hr

example : ∃ st', runAction Cfg.fixed C42_stPipeIn.1 (.put (some 0) [120]) = .ok (st', "no-value-output") := ⟨_, rfl⟩
/-- without that repair the value is sent into the pipe's channel, which the writing side closes -/
example : ∃ st', runAction Cfg.orig C42_stPipeIn.1 (.put (some 0) [120]) = .ok (st', "ok") ∧
    st'.w.sent = [(3, [120])] := ⟨_, rfl, rfl⟩

-- non-vacuity of the hypotheses of the general theorems
example : ∃ s, execRedirs Cfg.fixed C42_st0 C42_dupThenOverride = .ok s ∧ s.exc = none := ⟨_, rfl, rfl⟩
example : ∀ (i : Nat) (f : Fop), C42_st0.fops[i]? = some f → f.chan = false := by
  intro i f h; simp [C42_st0] at h

/-- pids of a three-port table, by enumeration -/
theorem C42_pidsWF_of_three {p0 p1 p2 : Port} {fops : List Fop} {w : World} {n : Nat}
    (h0 : p0.pid < n) (h1 : p1.pid < n) (h2 : p2.pid < n)
    (h01 : p0.pid ≠ p1.pid) (h02 : p0.pid ≠ p2.pid) (h12 : p1.pid ≠ p2.pid) :
    C42_PidsWF ⟨[some p0, some p1, some p2], fops, w, n⟩ := by
  have hcases : ∀ (i : Nat) (p : Port), lookup [some p0, some p1, some p2] i = some p →
      (i = 0 ∧ p = p0) ∨ (i = 1 ∧ p = p1) ∨ (i = 2 ∧ p = p2) := by
    intro i p hl
    have hi := lookup_lt hl
    have : i = 0 ∨ i = 1 ∨ i = 2 := by simp at hi; omega
    rcases this with rfl | rfl | rfl <;> simp [lookup] at hl <;> simp [hl]
  constructor
  · intro i p hl
    rcases hcases i p hl with ⟨_, rfl⟩ | ⟨_, rfl⟩ | ⟨_, rfl⟩ <;> assumption
  · intro i j p q hi hj e
    rcases hcases i p hi with ⟨_, rfl⟩ | ⟨_, rfl⟩ | ⟨_, rfl⟩ <;>
      rcases hcases j q hj with ⟨_, rfl⟩ | ⟨_, rfl⟩ | ⟨_, rfl⟩ <;>
      first | rfl | exact absurd e ‹_› | exact absurd e.symm ‹_›

-- the hypotheses of `C42_files_closed` / `C42_form_closes_exactly_what_it_owns` hold for the
-- top-level frame, for the frame of `a | form` and for the frame of `form | b`
example : C42_PidsWF C42_st0 := C42_pidsWF_of_three (by decide) (by decide) (by decide) (by decide) (by decide) (by decide)
example : C42_PidsWF C42_stPipeIn.1 := C42_pidsWF_of_three (by decide) (by decide) (by decide) (by decide) (by decide) (by decide)
example : C42_ChanWF (C42_stPipeOut 5) := by
  refine ⟨?_, ?_, C42_pidsWF_of_three (by decide) (by decide) (by decide) (by decide) (by decide) (by decide)⟩
  · intro i f hf hc
    have hi : i < 2 := (List.getElem?_eq_some_iff.mp hf).1
    have : i = 0 ∨ i = 1 := by omega
    rcases this with rfl | rfl
    · simp [C42_stPipeOut, Fop.unowned] at hf; subst hf; cases hc
    · exact ⟨_, 4, rfl, rfl, by simp [C42_stPipeOut]⟩
  · intro i j fi fj pi pj hij hfi hci hfj hcj _ _
    have hi : i < 2 := (List.getElem?_eq_some_iff.mp hfi).1
    have hj : j < 2 := (List.getElem?_eq_some_iff.mp hfj).1
    have h1 : ∀ k (f : Fop), k < 2 → (C42_stPipeOut 5).fops[k]? = some f → f.chan = true → k = 1 := by
      intro k f hk hf hc
      have : k = 0 ∨ k = 1 := by omega
      rcases this with rfl | rfl
      · simp [C42_stPipeOut, Fop.unowned] at hf; subst hf; cases hc
      · rfl
    exact absurd ((h1 i fi hi hfi hci).trans (h1 j fj hj hfj hcj).symm) hij
/-- the owned channel really is closed by the loop when its port is redirected away, once -/
example : ∃ s, execRedirs Cfg.fixed (C42_stPipeOut 5) C42_overridePipeOut = .ok s ∧ s.st.w.closedChans = [4] :=
  ⟨_, rfl, rfl⟩
/-- a pipeline form that owns its input pipe (file 3): after `<in` and the body, the pipe and the
file opened by the redirection are closed, ports 0–2 of the surroundings are as they were -/
example : ∃ o, runForm Cfg.fixed C42_stPipeIn.1 (some C42_stPipeIn.2) [⟨none, .read, .name "in"⟩] [.read none] = .ok o ∧
    (fopAt C42_stPipeIn.1.fops 0).file = true ∧ o.st.w.hs.map (·.isOpen) = [true, true, true, false, false] :=
  ⟨_, rfl, rfl, rfl⟩
example : PortsInRange C42_st0 := by
  intro j q h hl hf
  have hj := lookup_lt hl
  have : j = 0 ∨ j = 1 ∨ j = 2 := by simp [C42_st0] at hj; omega
  rcases this with rfl | rfl | rfl <;> (simp [lookup, C42_st0] at hl; subst hl; simp at hf; subst hf; simp [C42_st0])
example : ∃ st', execRedir Cfg.fixed C42_st0 ⟨some (.str "3" (some 3)), .append, .name "out"⟩ = .ok ⟨st', none⟩ ∧
    (Src.name "out").isFileOrClose = true ∧ C42_st0.w.fs.get "out" = (some []).map Node.file := ⟨_, rfl, rfl, rfl⟩
example : ∃ st', execRedir Cfg.fixed C42_st0 ⟨none, .write, .fd (.str "-" none)⟩ = .ok ⟨st', none⟩ ∧
    (Src.fd (.str "-" none)).isFileOrClose = true := ⟨_, rfl, rfl⟩
