/-
C42 — redirections route bytes and values exactly as specified.

Property theorems over `ElvModel/C42/Model.lean` (`Cfg.fixed`: the tree with
`fixes/C42-*.patch`), the specification `ElvModel/C42/Spec.lean`, and the
counterexamples of the unchanged tree (`Cfg.orig`).  Helper lemmas are in
`ElvProofs/C42/*.lean`.
-/
import ElvProofs.C42.Route
import ElvProofs.C42.NoPanic
open Go C42

/-! ## 1. The port table is the specification's table -/

/-- For ANY list of redirections and any frame: when the redirection loop of
the fixed code returns, the table it built (`lookup ports`), the file system,
the number of files opened and the exception (if any) are exactly those of
the specification: left-to-right application of the documented meaning of
`<`, `>`, `>>`, `<>`, `n>&m`, `n>&-`. -/
theorem C42_table_is_spec_table (st : St) (rs : List Redir) (s : Step)
    (h : execRedirs Cfg.fixed st rs = .ok s) :
    specRedirs st.abs rs = (s.st.abs, s.exc) :=
  execRedirs_refines rs h

/-- The same, read per fd. -/
theorem C42_table_pointwise (st : St) (rs : List Redir) (s : Step)
    (h : execRedirs Cfg.fixed st rs = .ok s) (n : Nat) :
    lookup s.st.ports n = (specRedirs st.abs rs).1.tbl n := by
  rw [C42_table_is_spec_table st rs s h]; rfl

/-! ## 2. Every fd value yields a port or an exception -/

/-- EVERY destination value — any string with any parse, any integer however
negative or large, any other value, any number of values — either raises an
exception or is an index in `0..maxRedirFD` for which both slices grow
without a panic.  No hypothesis on the frame. -/
theorem C42_every_dst_fd_port_or_exception (st : St) (r : Redir) :
    (∃ e, evalDst Cfg.fixed r = .exc e) ∨
    (∃ dst x, evalDst Cfg.fixed r = .ok dst ∧ 0 ≤ dst ∧ dst ≤ maxRedirFD ∧ prepDst Cfg.fixed st dst = .ok x) := by
  cases hd : evalDst Cfg.fixed r with
  | panic m => exact absurd hd (evalDst_noPanic _ _ m)
  | exc e => exact Or.inl ⟨e, rfl⟩
  | ok dst =>
    obtain ⟨h0, h1⟩ := evalDst_fixed_range hd
    obtain ⟨f, hp, _⟩ := prepDst_fixed st h0 h1
    exact Or.inr ⟨dst, _, rfl, h0, h1, hp⟩

/-- EVERY source fd value either raises an exception, is the close marker of
`&-`, or is an index in `0..maxRedirFD`; evaluating the source never panics. -/
theorem C42_every_src_fd_port_or_exception (st : St) (d : Nat) (mode : Mode) (v : FdVal) :
    NoPanic (installSrc Cfg.fixed st d mode (.fd v)) ∧
    ∀ n, evalForFd Cfg.fixed v true = .ok n → (0 ≤ n ∧ n ≤ maxRedirFD) ∨ n = -1 :=
  ⟨installSrc_noPanic_fixed _ _ _ _, fun _ h => (evalForFd_fixed_range h).imp id And.left⟩

/-- Full panic-freedom of the redirection loop; the well-formedness asked of
the frame concerns only the value channels the form owns (a form followed by
another form of its pipeline owns the channel of its output pipe). -/
def C42_ChanWF (st : St) : Prop :=
  (∀ (i : Nat) (f : Fop), st.fops[i]? = some f → f.chan = true →
    ∃ p id, lookup st.ports i = some p ∧ p.chan = .live id ∧ id ∉ st.w.closedChans) ∧
  (∀ (i j : Nat) (fi fj : Fop) (pi pj : Port), i ≠ j → st.fops[i]? = some fi → fi.chan = true →
    st.fops[j]? = some fj → fj.chan = true → lookup st.ports i = some pi → lookup st.ports j = some pj →
    pi.chan ≠ pj.chan) ∧
  (∀ (i j : Nat) (p q : Port), lookup st.ports i = some p → lookup st.ports j = some q → p.pid = q.pid → p = q)

def C42_no_panic_full : Prop :=
  ∀ (st : St) (rs : List Redir), C42_ChanWF st → ∃ s, execRedirs Cfg.fixed st rs = .ok s

/-- Proved part of `C42_no_panic_full`: forms that own no value channel
(every form that is the last of its pipeline, in particular every stand-alone
form).  Whatever the fd values and however many redirections, the loop
returns — with the table or with an exception — and never panics.
GAP: a form that owns the channel of its output pipe (`close(p.Chan)` must
not be reached twice); covered by the correspondence contexts `o` and `io`. -/
theorem C42_no_panic_partial (st : St) (rs : List Redir) (h : ∀ (i : Nat) (f : Fop), st.fops[i]? = some f → f.chan = false) :
    ∃ s, execRedirs Cfg.fixed st rs = .ok s :=
  (execRedirs_fixed_ok rs st h).imp fun _ h => h.1

/-! ## 3. Value output to a file-redirected or closed port -/

/-- After a successful redirection whose source is a file name, a file
object, a map or `&-`, the destination port refuses values: `put` in any
frame that has this port as port 1 (e.g. after `>&n`) raises "port does not
support value output". -/
theorem C42_value_output_raises (st st' : St) (r : Redir) (hsrc : r.src.isFileOrClose = true)
    (h : execRedir Cfg.fixed st r = .ok ⟨st', none⟩) :
    ∃ dst p, evalDst Cfg.fixed r = .ok dst ∧ lookup st'.ports dst.toNat = some p ∧
      ∀ (s2 : St) (v : Bytes), s2.ports[1]? = some (some p) →
        valueOutput Cfg.fixed s2 v = .ok (s2, some eNoValueOutput) := by
  obtain ⟨dst, oldFop, st1, hd, h0, h1, hi, hr⟩ := execRedir_fixed_ok_inv h
  obtain ⟨p, hp, hrf⟩ := installSrc_refuses hsrc hi
  obtain ⟨e1, _⟩ := release_shape hr
  refine ⟨dst, p, hd, ?_, fun s2 v h2 => valueOutput_refused v h2 hrf⟩
  rw [e1, hp]
  simp only
  rw [lookup_set _ _ _ _ (grown_length_gt _ _ _)]
  simp

/-! ## 4. Bytes end up where the operator says -/


/-- Bytes written through the port of a file redirection, by operator. -/
theorem C42_bytes_routed_by_mode {st st' : St} {dstv : Option FdVal} {mode : Mode} {path : String}
    {old : Option Bytes} (d : Bytes)
    (hwf : PortsInRange st) (hfile : st.w.fs.get path = old.map Node.file)
    (h : execRedir Cfg.fixed st ⟨dstv, mode, .name path⟩ = .ok ⟨st', none⟩) :
    ∃ dst p hi, evalDst Cfg.fixed ⟨dstv, mode, .name path⟩ = .ok dst ∧
      lookup st'.ports dst.toNat = some p ∧ p.file = some hi ∧
      match mode with
      | .read =>
        writeHandle st'.w (some hi) d = .error "w-ebadf" ∧
        ∃ data w', old = some data ∧ readHandle st'.w (some hi) = .ok (w', data)
      | .write => ∃ w', writeHandle st'.w (some hi) d = .ok w' ∧ w'.fs.get path = some (.file d) ∧
          ∀ q, q ≠ path → w'.fs.get q = st.w.fs.get q
      | .append => ∃ w', writeHandle st'.w (some hi) d = .ok w' ∧
          w'.fs.get path = some (.file (contentOr old ++ d)) ∧ ∀ q, q ≠ path → w'.fs.get q = st.w.fs.get q
      | .readWrite => ∃ w', writeHandle st'.w (some hi) d = .ok w' ∧
          w'.fs.get path = some (.file (d ++ (contentOr old).drop d.length)) ∧
          ∀ q, q ≠ path → w'.fs.get q = st.w.fs.get q := by
  obtain ⟨dst, fs', hd, hdst, hopen, hport, hh, hfs⟩ := execRedir_name_inv hwf h
  obtain ⟨hhd, hother, hmode⟩ := openFile_regular hfile hopen
  refine ⟨dst, _, st.w.hs.length, hdst, hport, ?_, ?_⟩
  · unfold fileRedirPort; split <;> rfl
  · subst hhd
    cases mode with
    | read =>
      obtain ⟨data, hold, hget⟩ := hmode
      refine ⟨writeHandle_readonly d hh rfl rfl, data, ?_⟩
      rw [← hfs] at hget
      obtain ⟨w', hr⟩ := readHandle_ok hh rfl rfl hget
      exact ⟨w', hold, by simpa using hr⟩
    | write =>
      simp only at hmode
      rw [← hfs] at hmode
      obtain ⟨w', hw, hg, ho⟩ := writeHandle_ok d hh rfl rfl hmode
      refine ⟨w', hw, ?_, fun q hq => ?_⟩
      · simpa [makeFlag, writeAt_zero] using hg
      · rw [ho q hq, hfs]; exact hother q hq
    | append =>
      simp only at hmode
      rw [← hfs] at hmode
      obtain ⟨w', hw, hg, ho⟩ := writeHandle_ok d hh rfl rfl hmode
      refine ⟨w', hw, ?_, fun q hq => ?_⟩
      · simpa [makeFlag] using hg
      · rw [ho q hq, hfs]; exact hother q hq
    | readWrite =>
      simp only at hmode
      rw [← hfs] at hmode
      obtain ⟨w', hw, hg, ho⟩ := writeHandle_ok d hh rfl rfl hmode
      refine ⟨w', hw, ?_, fun q hq => ?_⟩
      · simpa [makeFlag, writeAt_zero] using hg
      · rw [ho q hq, hfs]; exact hother q hq

/-! ## 5. Closing -/

/-- FULL statement about closing, for a form alone in its pipeline: when the
form has finished, every file opened by one of its redirections is closed,
and every file that existed before (inherited ports, file objects, pipes
given as maps) has kept its open state.  File objects and maps refer to files
that existed before the form. -/
def C42_foreignSources (st : St) (rs : List Redir) : Prop :=
  ∀ r ∈ rs, match r.src with
    | .fileObj h => h < st.w.hs.length
    | .map a b => (∀ h, a = some h → h < st.w.hs.length) ∧ (∀ h, b = some h → h < st.w.hs.length)
    | _ => True

def C42_files_closed_full : Prop :=
  ∀ (st : St) (rs : List Redir) (as : List Action) (o : FormOut),
    st.fops = [] → PortsInRange st → C42_foreignSources st rs →
    runForm Cfg.fixed st none rs as = .ok o →
    (∀ (h : Nat) (hd : Handle), st.w.hs.length ≤ h → o.st.w.hs[h]? = some hd → hd.isOpen = false) ∧
    (∀ (h : Nat) (hd : Handle), st.w.hs[h]? = some hd → ∃ hd', o.st.w.hs[h]? = some hd' ∧ hd'.isOpen = hd.isOpen)

/-! ## 6. The unchanged tree (`Cfg.orig`) violates the property -/


/-- The frame a top-level form starts with: ports 0, 1, 2 on three open files. -/
def C42_st0 : St :=
  ⟨[some ⟨0, some 0, .closed, false, false⟩, some ⟨1, some 1, .live 1, false, false⟩,
    some ⟨2, some 2, .live 2, false, false⟩], [],
   ⟨[("in", .file []), ("out", .file []), ("err", .file [])],
    [⟨"in", 0, true, false, false, true⟩, ⟨"out", 0, false, true, true, true⟩, ⟨"err", 0, false, true, true, true⟩],
    [], []⟩, 3⟩

theorem C42_counterexample_negative_dst :
    execRedir Cfg.orig C42_st0 ⟨some (.int (-1)), .write, .name "f"⟩ = .panic "index out of range" := by
  simp [execRedir, evalDst, evalForFd, checkRange, Cfg.orig, prepDst, growAccess, bind, Res.bind]

theorem C42_counterexample_huge_dst :
    execRedir Cfg.orig C42_st0 ⟨some (.int 100000000000), .write, .name "f"⟩ = .panic "out of memory" := by
  simp [execRedir, evalDst, evalForFd, checkRange, Cfg.orig, prepDst, growAccess, bind, Res.bind, C42_st0]

theorem C42_counterexample_negative_src :
    execRedir Cfg.orig C42_st0 ⟨none, .write, .fd (.int (-2))⟩ = .panic "index out of range" := by
  rfl

/-- `>&-1` is taken for `>&-` by the unchanged tree. -/
theorem C42_counterexample_minus_one_closes :
    ∃ st', execRedir Cfg.orig C42_st0 ⟨none, .write, .fd (.int (-1))⟩ = .ok ⟨st', none⟩ ∧
      lookup st'.ports 1 = some (closedPort 3) := ⟨_, rfl, rfl⟩

def C42_dupThenOverride : List Redir :=
  [⟨some (.int 3), .write, .name "a"⟩, ⟨some (.int 4), .write, .fd (.int 3)⟩, ⟨some (.int 3), .write, .name "b"⟩]

/-- `3>a 4>&3 3>b` on the unchanged tree: port 4 is left on a closed file. -/
theorem C42_counterexample_dup_then_override :
    ∃ s p h hd, execRedirs Cfg.orig C42_st0 C42_dupThenOverride = .ok s ∧ s.exc = none ∧
      lookup s.st.ports 4 = some p ∧ p.file = some h ∧ s.st.w.hs[h]? = some hd ∧ hd.isOpen = false ∧
      writeHandle s.st.w p.file [120] = .error "w-closed" := by
  refine ⟨_, _, _, _, rfl, rfl, rfl, rfl, rfl, rfl, rfl⟩

/-- … and on the fixed code it still refers to the open file `a`. -/
theorem C42_fixed_dup_then_override :
    ∃ s p w', execRedirs Cfg.fixed C42_st0 C42_dupThenOverride = .ok s ∧ s.exc = none ∧
      lookup s.st.ports 4 = some p ∧ writeHandle s.st.w p.file [120] = .ok w' ∧
      w'.fs.get "a" = some (.file [120]) := by
  refine ⟨_, _, _, rfl, rfl, rfl, rfl, rfl⟩

/-- `3>a 3>&3` on the unchanged tree closes `a` and keeps port 3 on it. -/
theorem C42_counterexample_self_dup :
    ∃ s p, execRedirs Cfg.orig C42_st0 [⟨some (.int 3), .write, .name "a"⟩, ⟨some (.int 3), .write, .fd (.int 3)⟩] = .ok s ∧
      s.exc = none ∧ lookup s.st.ports 3 = some p ∧ writeHandle s.st.w p.file [120] = .error "w-closed" :=
  ⟨_, _, rfl, rfl, rfl, rfl⟩

/-- `put x >&0` (and `put x 1<f`) on the unchanged tree: send on closed channel. -/
theorem C42_counterexample_value_output_input_port :
    runAction Cfg.orig C42_st0 (.put (some 0) [120]) = .panic "send on closed channel" := rfl

/-- The frame of a form whose input is a pipe (`a | form`): port 0 is the pipe, owned by the form. -/
def C42_stPipeIn : St × Port :=
  let p : Port := ⟨3, some 3, .live 3, false, true⟩
  (⟨[some p, some ⟨1, some 1, .live 1, false, false⟩, some ⟨2, some 2, .live 2, false, false⟩], [⟨true, false⟩],
    ⟨[("in", .file [65]), ("out", .file []), ("err", .file []), ("|up", .file [])],
     [⟨"in", 0, true, false, false, true⟩, ⟨"out", 0, false, true, true, true⟩, ⟨"err", 0, false, true, true, true⟩,
      ⟨"|up", 0, true, false, false, true⟩], [], []⟩, 4⟩, p)

/-- `a | form <in` on the unchanged tree: nil dereference when the form ends. -/
theorem C42_counterexample_pipe_input_redirected :
    runForm Cfg.orig C42_stPipeIn.1 (some C42_stPipeIn.2) [⟨none, .read, .name "in"⟩] [] =
      .panic "nil pointer dereference or close of closed channel" := rfl

/-- The unchanged tree is not panic-free, even for a stand-alone form. -/
theorem C42_counterexample :
    ¬ ∀ (st : St) (rs : List Redir), (∀ (i : Nat) (f : Fop), st.fops[i]? = some f → f.chan = false) →
      ∃ s, execRedirs Cfg.orig st rs = .ok s := by
  intro h
  obtain ⟨s, hs⟩ := h C42_st0 [⟨some (.int (-1)), .write, .name "f"⟩] (by intro i f hf; simp [C42_st0] at hf)
  have : execRedirs Cfg.orig C42_st0 [⟨some (.int (-1)), .write, .name "f"⟩] = .panic "index out of range" := rfl
  rw [this] at hs
  cases hs

/-! ## 7. The fixed code on the same witnesses, and non-vacuity -/

theorem C42_fixed_rejects_bad_fds :
    (Step.exc <$> execRedir Cfg.fixed C42_st0 ⟨some (.int (-1)), .write, .name "f"⟩) = Res.ok (some "invalid-fd,-1") ∧
    (Step.exc <$> execRedir Cfg.fixed C42_st0 ⟨some (.int 100000000000), .write, .name "f"⟩) = Res.ok (some "invalid-fd,100000000000") ∧
    (Step.exc <$> execRedir Cfg.fixed C42_st0 ⟨none, .write, .fd (.int (-2))⟩) = Res.ok (some "invalid-fd,-2") ∧
    (Step.exc <$> execRedir Cfg.fixed C42_st0 ⟨none, .write, .fd (.int (-1))⟩) = Res.ok (some "invalid-fd,-1") :=
  ⟨rfl, rfl, rfl, rfl⟩

/-- The fixed code on `a | form <in`: no panic, the pipe and the file are both closed at the end. -/
theorem C42_fixed_pipe_input_redirected :
    ∃ o, runForm Cfg.fixed C42_stPipeIn.1 (some C42_stPipeIn.2) [⟨none, .read, .name "in"⟩] [.read none] = .ok o ∧
      o.acts = ["r41/vclosed"] ∧ (o.st.w.hs.drop 3).all (fun h => !h.isOpen) = true :=
  ⟨_, rfl, rfl, rfl⟩

/-- Closing on the dup-then-override witness (an instance of `C42_files_closed_full`):
`echo x >&4` reaches `a`, and afterwards both opened files are closed and ports 0–2 are still open. -/
theorem C42_fixed_dup_then_override_closes :
    ∃ o, runForm Cfg.fixed C42_st0 none C42_dupThenOverride [.echo (some 4) [120], .put (some 4) [121]] = .ok o ∧
      o.acts = ["ok", "no-value-output"] ∧ o.st.w.fs.get "a" = some (.file [120, 10]) ∧
      o.st.w.hs.map (·.isOpen) = [true, true, true, false, false] :=
  ⟨_, rfl, rfl, rfl, rfl⟩

-- non-vacuity of the hypotheses of the general theorems
example : ∃ s, execRedirs Cfg.fixed C42_st0 C42_dupThenOverride = .ok s ∧ s.exc = none := ⟨_, rfl, rfl⟩
example : ∀ (i : Nat) (f : Fop), C42_st0.fops[i]? = some f → f.chan = false := by
  intro i f h; simp [C42_st0] at h
example : PortsInRange C42_st0 := by
  intro j q h hl hf
  have hj := lookup_lt hl
  have : j = 0 ∨ j = 1 ∨ j = 2 := by simp [C42_st0] at hj; omega
  rcases this with rfl | rfl | rfl <;> (simp [lookup, C42_st0] at hl; subst hl; simp at hf; subst hf; simp [C42_st0])
example : ∃ st', execRedir Cfg.fixed C42_st0 ⟨some (.str "3" (some 3)), .append, .name "out"⟩ = .ok ⟨st', none⟩ ∧
    (Src.name "out").isFileOrClose = true ∧ C42_st0.w.fs.get "out" = (some []).map Node.file := ⟨_, rfl, rfl, rfl⟩
example : ∃ st', execRedir Cfg.fixed C42_st0 ⟨none, .write, .fd (.str "-" none)⟩ = .ok ⟨st', none⟩ ∧
    (Src.fd (.str "-" none)).isFileOrClose = true := ⟨_, rfl, rfl⟩
