import ElvModel.C10.Model
/-! Helper lemmas for C10: strict weak orders, stable sorts. -/
namespace C10
open List

/-- `less` is a strict weak order: asymmetric and negatively transitive
(equivalently: irreflexive, transitive, with transitive incomparability). -/
structure StrictWeak {α} (less : α → α → Bool) : Prop where
  asymm : ∀ a b, less a b = true → less b a = false
  negTrans : ∀ a b c, less a c = true → less a b = true ∨ less b c = true

theorem StrictWeak.irrefl {α} {less : α → α → Bool} (h : StrictWeak less) (a : α) : less a a = false := by
  cases hh : less a a
  · rfl
  · have := h.asymm a a hh; simp_all

theorem StrictWeak.rev {α} {less : α → α → Bool} (h : StrictWeak less) : StrictWeak (revLess less) where
  asymm a b hab := h.asymm b a hab
  negTrans a b c hac := by
    unfold revLess at *
    rcases h.negTrans c b a hac with h1 | h1
    · exact Or.inr h1
    · exact Or.inl h1

theorem leOf_trans {α} {less : α → α → Bool} (h : StrictWeak less) :
    ∀ a b c : α, leOf less a b = true → leOf less b c = true → leOf less a c = true := by
  intro a b c hab hbc
  simp only [leOf, Bool.not_eq_eq_eq_not, Bool.not_true] at *
  cases hca : less c a
  · rfl
  · rcases h.negTrans c b a hca with h1 | h1 <;> simp_all

theorem leOf_total {α} {less : α → α → Bool} (h : StrictWeak less) :
    ∀ a b : α, (leOf less a b || leOf less b a) = true := by
  intro a b
  simp only [leOf]
  cases hba : less b a
  · simp
  · have := h.asymm b a hba; simp [this]

/-- Antisymmetry of the lexicographic (key, position) order on distinct positions. -/
theorem zipIdxLE_antisymm {α} {le : α → α → Bool} (a b : α × Nat)
    (h1 : zipIdxLE le a b = true) (h2 : zipIdxLE le b a = true) : a.2 = b.2 := by
  simp only [zipIdxLE] at h1 h2
  split at h1 <;> split at h2 <;> simp_all
  omega

theorem mem_zipIdx_unique {α} {l : List α} {a b : α × Nat}
    (ha : a ∈ l.zipIdx) (hb : b ∈ l.zipIdx) (h : a.2 = b.2) : a = b := by
  obtain ⟨a1, a2⟩ := a
  obtain ⟨b1, b2⟩ := b
  simp only at h
  subst h
  rw [List.mk_mem_zipIdx_iff_getElem?] at ha hb
  simp_all

theorem isStableSort_unique {α} {le : α → α → Bool} {l r₁ r₂ : List α}
    (h₁ : IsStableSort le l r₁) (h₂ : IsStableSort le l r₂) : r₁ = r₂ := by
  obtain ⟨s₁, rfl, p₁, w₁⟩ := h₁
  obtain ⟨s₂, rfl, p₂, w₂⟩ := h₂
  have : s₁ = s₂ := by
    apply Perm.eq_of_pairwise (le := fun a b => zipIdxLE le a b = true) _ w₁ w₂ (p₁.trans p₂.symm)
    intro a b ha hb hab hba
    exact mem_zipIdx_unique (p₁.subset ha) (p₂.subset hb) (zipIdxLE_antisymm a b hab hba)
  rw [this]

theorem mergeSort_isStableSort {α} {le : α → α → Bool}
    (trans : ∀ a b c, le a b = true → le b c = true → le a c = true)
    (total : ∀ a b, (le a b || le b a) = true) (l : List α) :
    IsStableSort le l (l.mergeSort le) :=
  ⟨mergeSort l.zipIdx (zipIdxLE le), mergeSort_zipIdx, mergeSort_perm _ _,
    pairwise_mergeSort (zipIdxLE_trans trans) (zipIdxLE_total total) _⟩

/-- decorate with an always-succeeding key is `map`. -/
theorem decorate_ok {ν κ} (f : ν → κ) (l : List ν) :
    decorate (fun v => Go.Res.ok (f v)) l = .ok (l.map fun v => (f v, v)) := by
  induction l with
  | nil => rfl
  | cons a l ih => simp [decorate, ih]

/-- Sorting decorated pairs by key and undecorating = sorting values by the composed comparator. -/
theorem map_snd_mergeSort_decorated {ν κ} (f : ν → κ) (le : κ → κ → Bool) (l : List ν) :
    ((l.map fun v => (f v, v)).mergeSort (fun a b => le a.1 b.1)).map (·.2)
      = l.mergeSort (fun a b => le (f a) (f b)) := by
  have h : ∀ l : List ν, (l.map fun v => (f v, v)).mergeSort (fun a b => le a.1 b.1)
      = (l.mergeSort (fun a b => le (f a) (f b))).map fun v => (f v, v) := by
    intro l
    exact (List.map_mergeSort (f := fun v => (f v, v)) (by intros; rfl)).symm
  rw [h, List.map_map]
  simp [Function.comp_def]

end C10
