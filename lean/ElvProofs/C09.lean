/-
C09 — eq is an equivalence and compare is a consistent total preorder.

Model: ElvModel/C08/Model.lean (`Equal`), ElvModel/C09/Model.lean (`Cmp`,
`CmpTotal`, number unification, the builtins) of the tree WITH
fixes/C08-equaler-fieldmap-symmetry.patch and fixes/C09-exact-compare.patch;
spec vocabulary in ElvModel/C09/Spec.lean (`NumVal`: the mathematical value
of a number; `COrd.flip`, `COrd.seq`, `COrd.isLE`).  `WF` = every map inside
the value has pairwise non-eq keys (C08).  `rank` = address order of the Go
type descriptors; the only fact used about it is injectivity.
-/
import ElvProofs.C09.CmpLaws

open C08 C09 C09.COrd

/-! ## eq is an equivalence (except on NaN) -/

/-- eq is symmetric. -/
theorem C09_equal_symm (a b : Val) (wa : WF a) (wb : WF b) (h : Equal a b = true) : Equal b a = true :=
  Equal_symm wa wb h

/-- eq is transitive. -/
theorem C09_equal_trans (a b c : Val) (wa : WF a) (wb : WF b) (wc : WF c)
    (h1 : Equal a b = true) (h2 : Equal b c = true) : Equal a c = true :=
  Equal_trans wa wb wc h1 h2

/-- eq is reflexive on values that hold no NaN … -/
theorem C09_equal_refl (a : Val) (wa : WF a) (na : NaNFree a) : Equal a a = true :=
  Equal_refl wa na

/-- … and NaN is not eq to itself, nor is a list holding it. -/
theorem C09_nan_not_equal_self (b : UInt64) (h : F64.isNaN b = true) (xs ys : List Val) :
    Equal (.float b) (.float b) = false ∧
    Equal (.list (xs ++ .float b :: ys)) (.list (xs ++ .float b :: ys)) = false := by
  have h1 : Equal (.float b) (.float b) = false := by simp [Equal, F64.eq, h]
  refine ⟨h1, ?_⟩
  simp only [Equal, beq_self_eq_true, Bool.true_and]
  induction xs with
  | nil => simp [equalList_cons, h1]
  | cons x xs ih => simp [equalList_cons, ih]

/-- the builtin `eq` on two arguments is `vals.Equal`. -/
theorem C09_builtin_eq (a b : Val) : builtinEq [a, b] = Equal a b := by
  simp [builtinEq]

example : Equal (.list [.float F64.posZero, .int 1]) (.list [.float F64.negZero, .int 1]) = true ∧
    NaNFree (.list [.float F64.posZero, .int 1]) ∧ WF (.list [.float F64.posZero, .int 1]) := by
  simp [Equal, equalList, F64.eq, F64.isNaN, F64.key, F64.mag, F64.neg, F64.posZero, F64.negZero, F64.expInf,
    NaNFree, NaNFreeList, WF, WFList]

/-! ## compare -/

/-- compare outputs 0 for eq values. -/
theorem C09_eq_compare_zero (a b : Val) (wa : WF a) (wb : WF b) (h : Equal a b = true) : Cmp a b = equal :=
  (laws_at (fun h => by cases h) (sizeOf a + sizeOf b)).eq a b (by omega) (by omega) wa wb h

/-- compare is antisymmetric: swapping the arguments flips the result
(less ↔ more; equal and uncomparable stay). -/
theorem C09_compare_antisymm (a b : Val) (wa : WF a) (wb : WF b) : Cmp b a = (Cmp a b).flip :=
  (laws_at (fun h => by cases h) (sizeOf a + sizeOf b)).flip a b (by omega) (by omega) wa wb

/-- compare is transitive: from `a ≤ b` and `b ≤ c` follows `a ? c` with
`? = <` if either step is strict and `=` otherwise — for ALL values, including
mixed exact/inexact numbers of any magnitude. -/
theorem C09_compare_trans (a b c : Val) (wa : WF a) (wb : WF b) (wc : WF c)
    (h1 : (Cmp a b).isLE = true) (h2 : (Cmp b c).isLE = true) : Cmp a c = (Cmp a b).seq (Cmp b c) :=
  (laws_at (fun h => by cases h) (sizeOf a + sizeOf b + sizeOf c)).trans a b c (by omega) (by omega) (by omega)
    wa wb wc h1 h2

/-- numbers compare by mathematical value, NaN = NaN below everything else,
in all 16 combinations of the four representations. -/
theorem C09_compare_numbers_by_value (a b : Val) (x y : NumVal) (ha : numVal a = some x) (hb : numVal b = some y) :
    Cmp a b = NumVal.cmp x y := by
  show cmpG id false a b = _
  rw [cmpG_eq]
  simp only [Bool.false_and, Bool.false_eq_true, if_false, post_false, innerS, numVal_shape ha, numVal_shape hb]

/-- a number and a non-number are uncomparable. -/
theorem C09_compare_number_other (a b : Val) (x : NumVal) (ha : numVal a = some x) (hb : numVal b = none) :
    Cmp a b = uncomparable := by
  show cmpG id false a b = _
  rw [cmpG_eq]
  simp only [Bool.false_and, Bool.false_eq_true, if_false, post_false, innerS, numVal_shape ha]
  cases b <;> simp [numVal] at hb <;> rfl

/-- strings compare by bytes; `false < true`; lists lexicographically (first
non-equal pair of elements decides, then the shorter list is smaller). -/
theorem C09_compare_per_type (s t : Go.Bytes) (x y : Val) (xs ys : List Val) :
    Cmp (.str s) (.str t) = compareBytes s t ∧
    (compareBytes s t = less ↔ bytesLt s t = true) ∧ (compareBytes s t = equal ↔ s = t) ∧
    Cmp (.bool false) (.bool true) = less ∧ Cmp (.bool true) (.bool false) = more ∧
    Cmp (.list []) (.list []) = equal ∧ Cmp (.list []) (.list (y :: ys)) = less ∧
    Cmp (.list (x :: xs)) (.list []) = more ∧
    Cmp (.list (x :: xs)) (.list (y :: ys)) = (Cmp x y).seq (Cmp (.list xs) (.list ys)) := by
  refine ⟨by simp [Cmp, cmpG], ?_, ?_, by simp [Cmp, cmpG], by simp [Cmp, cmpG], by simp [Cmp, cmpG, cmpListG],
    by simp [Cmp, cmpG, cmpListG], by simp [Cmp, cmpG, cmpListG], ?_⟩
  · rcases bytesLt_trichotomy s t with h | h | h
    · simp [compareBytes_of_lt h, h]
    · subst h; simp [compareBytes_self, bytesLt_irrefl]
    · simp [compareBytes_of_gt h, bytesLt_asymm t s h]
  · rcases bytesLt_trichotomy s t with h | h | h
    · simp [compareBytes_of_lt h]; intro e; subst e; simp [bytesLt_irrefl] at h
    · subst h; simp [compareBytes_self]
    · simp [compareBytes_of_gt h]; intro e; subst e; simp [bytesLt_irrefl] at h
  · simp only [Cmp, cmpG, Bool.false_and, Bool.false_eq_true, if_false, cmpListG, COrd.seq]
    by_cases h : cmpG id false x y = equal <;> simp [h]

/-- `compare` the builtin: -1 / 0 / 1, or the "uncomparable" exception. -/
theorem C09_builtin_compare (rank : Nat → Nat) (a b : Val) :
    (builtinCompare rank false a b = .ok (-1) ↔ Cmp a b = less) ∧
    (builtinCompare rank false a b = .ok 0 ↔ Cmp a b = equal) ∧
    (builtinCompare rank false a b = .ok 1 ↔ Cmp a b = more) ∧
    (builtinCompare rank false a b = .exc "uncomparable" ↔ Cmp a b = uncomparable) ∧
    (builtinCompare rank true a b = .ok 0 ↔ CmpTotal rank a b = equal) := by
  unfold builtinCompare
  simp only [Bool.false_eq_true, if_false, if_true]
  cases Cmp a b <;> cases CmpTotal rank a b <;> simp

/-- `<`, `<=`, `==` on two numbers say what compare says (and are all false on NaN). -/
theorem C09_num_builtins (a b : Val) (x y : NumVal) (ha : numVal a = some x) (hb : numVal b = some y) :
    builtinLt [a, b] = some (decide (x.cls ≠ 0 ∧ y.cls ≠ 0 ∧ Cmp a b = less)) ∧
    builtinLe [a, b] = some (decide (x.cls ≠ 0 ∧ y.cls ≠ 0 ∧ (Cmp a b).isLE = true)) ∧
    builtinEqNum [a, b] = some (decide (x.cls ≠ 0 ∧ y.cls ≠ 0 ∧ Cmp a b = equal)) := by
  rw [C09_compare_numbers_by_value a b x y ha hb]
  exact ⟨builtinLt_pair ha hb, builtinLe_pair ha hb, builtinEqNum_pair ha hb⟩

example : numVal (.int (2 ^ 53 + 1)) = some (.fin ((2 ^ 53 + 1 : Int) : Rat)) ∧
    numVal (.float 0x4340000000000000) = some (F64.val 0x4340000000000000) := ⟨rfl, rfl⟩

/-! ## compare &total -/

/-- compare &total never says uncomparable. -/
theorem C09_total_total (rank : Nat → Nat) (a b : Val) : CmpTotal rank a b ≠ uncomparable :=
  step_tot rfl a b

/-- compare &total is antisymmetric. -/
theorem C09_total_antisymm (rank : Nat → Nat) (a b : Val) (wa : WF a) (wb : WF b)
    (hinj : ∀ s t, rank s = rank t → s = t) : CmpTotal rank b a = (CmpTotal rank a b).flip :=
  (laws_at (fun _ => hinj) (sizeOf a + sizeOf b)).flip a b (by omega) (by omega) wa wb

/-- compare &total is transitive (a total preorder). -/
theorem C09_total_trans (rank : Nat → Nat) (a b c : Val) (wa : WF a) (wb : WF b) (wc : WF c)
    (hinj : ∀ s t, rank s = rank t → s = t)
    (h1 : (CmpTotal rank a b).isLE = true) (h2 : (CmpTotal rank b c).isLE = true) :
    CmpTotal rank a c = (CmpTotal rank a b).seq (CmpTotal rank b c) :=
  (laws_at (fun _ => hinj) (sizeOf a + sizeOf b + sizeOf c)).trans a b c (by omega) (by omega) (by omega)
    wa wb wc h1 h2

/-- compare &total agrees with compare wherever compare compares. -/
theorem C09_total_agrees (rank : Nat → Nat) (a b : Val) (h : Cmp a b ≠ uncomparable) :
    CmpTotal rank a b = Cmp a b :=
  agree_at rank id (sizeOf a + sizeOf b) a b (by omega) (by omega) h

/-- compare &total groups values by type: values of different types are ordered
by their types alone (never equal). -/
theorem C09_total_groups_by_type (rank : Nat → Nat) (a b : Val) (hinj : ∀ s t, rank s = rank t → s = t)
    (h : typeTag a ≠ typeTag b) :
    CmpTotal rank a b = compareNat (rank (typeTag a)) (rank (typeTag b)) ∧ CmpTotal rank a b ≠ equal := by
  have hne : compareNat (rank (typeTag a)) (rank (typeTag b)) ≠ equal := by
    intro he; exact h (hinj _ _ (compareNat_eq_equal.1 he))
  have : CmpTotal rank a b = compareNat (rank (typeTag a)) (rank (typeTag b)) := by
    show cmpG rank true a b = _
    rw [cmpG_eq]; unfold tyCmp; simp [hne]
  exact ⟨this, by rw [this]; exact hne⟩

/-- The property at full strength. -/
def C09_full : Prop :=
  (∀ a b, WF a → WF b → Equal a b = true → Equal b a = true) ∧
  (∀ a b c, WF a → WF b → WF c → Equal a b = true → Equal b c = true → Equal a c = true) ∧
  (∀ a, WF a → NaNFree a → Equal a a = true) ∧
  (∀ a b, WF a → WF b → Equal a b = true → Cmp a b = equal) ∧
  (∀ a b, WF a → WF b → Cmp b a = (Cmp a b).flip) ∧
  (∀ a b c, WF a → WF b → WF c → (Cmp a b).isLE = true → (Cmp b c).isLE = true →
    Cmp a c = (Cmp a b).seq (Cmp b c)) ∧
  (∀ a b x y, numVal a = some x → numVal b = some y → Cmp a b = NumVal.cmp x y) ∧
  (∀ rank : Nat → Nat, (∀ s t, rank s = rank t → s = t) →
    (∀ a b, CmpTotal rank a b ≠ uncomparable) ∧
    (∀ a b, WF a → WF b → CmpTotal rank b a = (CmpTotal rank a b).flip) ∧
    (∀ a b c, WF a → WF b → WF c → (CmpTotal rank a b).isLE = true → (CmpTotal rank b c).isLE = true →
      CmpTotal rank a c = (CmpTotal rank a b).seq (CmpTotal rank b c)) ∧
    (∀ a b, Cmp a b ≠ uncomparable → CmpTotal rank a b = Cmp a b) ∧
    (∀ a b, typeTag a ≠ typeTag b → CmpTotal rank a b ≠ equal))

theorem C09_all : C09_full :=
  ⟨C09_equal_symm, C09_equal_trans, C09_equal_refl, C09_eq_compare_zero, C09_compare_antisymm, C09_compare_trans,
   C09_compare_numbers_by_value,
   fun rank hinj => ⟨C09_total_total rank, fun a b wa wb => C09_total_antisymm rank a b wa wb hinj,
     fun a b c wa wb wc => C09_total_trans rank a b c wa wb wc hinj, C09_total_agrees rank,
     fun a b h => (C09_total_groups_by_type rank a b hinj h).2⟩⟩

/-- The unfixed tree (exact operand rounded to float64 by `UnifyNums2` /
`ConvertToFloat64`) is not transitive and not by value: with `a = 2^53`,
`b = 2^53` as a float, `c = 2^53 + 1`: `a = b`, `b = c`, but `a < c`
(witness replayed on the real code by harness/corpus/C09.txt). -/
theorem C09_counterexample :
    ¬ ∀ a b c : Val, cmpNumOld a b = some equal → cmpNumOld b c = some equal → cmpNumOld a c = some equal := by
  intro h
  have := h (.int (2 ^ 53)) (.float 0x4340000000000000) (.int (2 ^ 53 + 1)) (by decide) (by decide)
  revert this
  decide

-- … while the fixed tree orders the same triple strictly by value.
set_option exponentiation.threshold 2000 in
example : Cmp (.int (2 ^ 53)) (.float 0x4340000000000000) = equal ∧
    Cmp (.float 0x4340000000000000) (.int (2 ^ 53 + 1)) = less ∧
    Cmp (.int (2 ^ 53)) (.int (2 ^ 53 + 1)) = less := by
  decide
