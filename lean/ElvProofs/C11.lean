/-
C11 — Exact arithmetic is mathematically exact and canonical.

Theorems over the executable model `ElvModel/C11/Model.lean` (tied to the Go
code by `./check C11`).  `run ops cmd args step` is the elvish command `cmd`
applied to typed numbers; `ops` is an arbitrary record of float operations, so
everything holds whatever the floating-point unit does.

Vocabulary (ElvProofs/C11/Basic.lean):
  `val v`       the rational an exact number denotes
  `Canonical v` machine int iff the value fits int64, big int only if it does
                not, rational only if it is not an integer
  `ExactC v`    exact and canonical (the invariant of every constructible
                number, and the obligation on every output)

Every theorem gives the result as `.ok …` or `.exc …`, never `.panic`.
-/
import ElvProofs.C11.Arith
import ElvProofs.C11.Pow
import ElvProofs.C11.RangeFn
import ElvModel.C11.Driver
open C11 Go

variable {F : Type}

/-! ### + - * -/

/-- `+`: the sum (0 for no arguments), canonical. -/
theorem C11_add (ops : F64Ops F) (args : List (Num F)) (st : Option (Num F))
    (hx : ∀ a ∈ args, isExact a = true) :
    ∃ v, run ops "+" args st = .ok [v] ∧ ExactC v ∧ val v = (args.map val).foldl (· + ·) 0 := by
  obtain ⟨v, h, hc, hv⟩ := add_exact ops args hx
  exact ⟨v, by show outs (add ops args) = _; rw [h, outs_ok v hc], hc, hv⟩

example : ∀ a ∈ [Num.int 9223372036854775807, .rat (mkRat 1 2), .big 18446744073709551616],
    isExact (a : Num UInt64) = true := by decide
example : run bitsOps "+" [.int 9223372036854775807, .int 1] none = .ok [.big 9223372036854775808] := by rfl

/-- `-`: negation of a single argument, otherwise the left fold of `−` from
the first; canonical.  No argument is an arity exception. -/
theorem C11_sub (ops : F64Ops F) (args : List (Num F)) (st : Option (Num F))
    (hx : ∀ a ∈ args, isExact a = true) :
    (args = [] ∧ run ops "-" args st = .exc "arity") ∨
    (args ≠ [] ∧ ∃ v, run ops "-" args st = .ok [v] ∧ ExactC v ∧ val v = subSpec (args.map val)) := by
  by_cases h : args = []
  · subst h; exact .inl ⟨rfl, rfl⟩
  · obtain ⟨v, hv, hxv, hk, hval⟩ := sub_exact ops args hx h
    obtain ⟨hc, hfv⟩ := fromGo_spec v hxv (fun k hk' => absurd hk' (hk k))
    refine .inr ⟨h, fromGo v, ?_, hc, hfv.trans hval⟩
    show outs (sub ops args) = _
    rw [hv]; rfl

example : run bitsOps "-" [.int (-9223372036854775808)] none = .ok [.big 9223372036854775808] := by rfl
example : run bitsOps "-" [.big 9223372036854775808, .int 1] none = .ok [.int 9223372036854775807] := by rfl

/-- `*`: the product (1 for no arguments), canonical. -/
theorem C11_mul (ops : F64Ops F) (args : List (Num F)) (st : Option (Num F))
    (hx : ∀ a ∈ args, isExact a = true) :
    ∃ v, run ops "*" args st = .ok [v] ∧ ExactC v ∧ val v = (args.map val).foldl (· * ·) 1 := by
  obtain ⟨v, h, hc, hv⟩ := mul_exact ops args hx
  exact ⟨v, by show outs (mul ops args) = _; rw [h, outs_ok v hc], hc, hv⟩

example : run bitsOps "*" [.int 4294967296, .int (-2147483648)] none = .ok [.int (-9223372036854775808)] := by rfl

/-- Exact-zero rule of `*`, inexact arguments allowed: an exact 0 among the
arguments and no infinity ⇒ exact 0. -/
theorem C11_mul_zero_rule (ops : F64Ops F) (args : List (Num F)) (st : Option (Num F))
    (h0 : Num.int 0 ∈ args) (hinf : ∀ a ∈ args, isInfNum ops a = false) :
    run ops "*" args st = .ok [.int 0] := by
  show outs (mul ops args) = _
  rw [mul_zero_rule ops args h0 hinf]; rfl

example : run bitsOps "*" [.flt 0x7ff8000000000000, .int 0, .flt 0x3ff0000000000000] none = .ok [.int 0] := by rfl

/-! ### / -/

/-- `/` on canonical exact arguments: a divide-by-zero exception exactly when
some divisor is zero (`/ x` is `1/x`), otherwise the left fold of `÷`
(reciprocal for one argument), canonical. -/
theorem C11_div (ops : F64Ops F) (args : List (Num F)) (st : Option (Num F))
    (hc : ∀ a ∈ args, ExactC a) (hne : args ≠ []) :
    (DivByZero (args.map val) ∧ run ops "/" args st = .exc "div0") ∨
    (¬ DivByZero (args.map val) ∧ ∃ v, run ops "/" args st = .ok [v] ∧ ExactC v ∧
      val v = divSpec (args.map val)) := by
  have hne' : args.isEmpty = false := by cases args <;> simp_all
  have hrun : run ops "/" args st = resMap (fun v => [v]) (resMap fromGo (div ops args)) := by
    show resMap (fun v => [v]) (slash ops args) = _
    simp [slash, hne']
  rcases div_exact ops args hc hne with ⟨hz, h⟩ | ⟨hz, v, h, hxv, hk, hval⟩
  · exact .inl ⟨hz, by rw [hrun, h]; rfl⟩
  · obtain ⟨hcv, hfv⟩ := fromGo_spec v hxv hk
    exact .inr ⟨hz, fromGo v, by rw [hrun, h]; rfl, hcv, hfv.trans hval⟩

example : run bitsOps "/" [.int 6, .int 4] none = .ok [.rat (mkRat 3 2)] := by with_unfolding_all rfl
example : run bitsOps "/" [.int 0] none = .exc "div0" := by rfl

/-- Exact-zero rule of `/`, inexact arguments allowed: exact 0 divided by
anything that contains no exact 0 is exact 0. -/
theorem C11_div_zero_rule (ops : F64Ops F) (rest : List (Num F)) (st : Option (Num F))
    (hne : rest ≠ []) (h : rest.any isExactZero = false) :
    run ops "/" (.int 0 :: rest) st = .ok [.int 0] := by
  show resMap (fun v => [v]) (slash ops (.int 0 :: rest)) = _
  simp [slash, div_zero_rule ops rest hne h, fromGo]

/-- Dividing by exact 0 is an exception whatever the other arguments are. -/
theorem C11_div_by_exact_zero (ops : F64Ops F) (x : Num F) (rest : List (Num F))
    (st : Option (Num F)) (h : rest.any isExactZero = true) :
    run ops "/" (x :: rest) st = .exc "div0" := by
  show resMap (fun v => [v]) (slash ops (x :: rest)) = _
  simp [slash, div_by_exact_zero ops x rest h]

example : run bitsOps "/" [.int 0, .flt 0x7ff8000000000000] none = .ok [.int 0] := by rfl
example : run bitsOps "/" [.flt 0x3ff0000000000000, .int 0] none = .exc "div0" := by rfl

/-! ### % -/

/-- `%` on canonical exact arguments: an exception unless both are integers;
divide-by-zero for a zero divisor; otherwise the truncated remainder
(`Int.tmod`), canonical. -/
theorem C11_rem (ops : F64Ops F) (a b : Num F) (st : Option (Num F)) (ha : ExactC a) (hb : ExactC b) :
    (¬ (isExactInt a = true ∧ isExactInt b = true) ∧ run ops "%" [a, b] st = .exc "exact-int") ∨
    (isExactInt a = true ∧ isExactInt b = true ∧ val b = 0 ∧ run ops "%" [a, b] st = .exc "div0") ∨
    (isExactInt a = true ∧ isExactInt b = true ∧ val b ≠ 0 ∧ ∃ v, run ops "%" [a, b] st = .ok [v] ∧
      ExactC v ∧ val v = ((Int.tmod (intVal a) (intVal b) : Int) : Rat)) := by
  have hrun : run ops "%" [a, b] st = outs (rem a b) := rfl
  rcases rem_exact a b ha hb with ⟨h1, h⟩ | ⟨h1, h2, h3, h⟩ | ⟨h1, h2, h3, v, h, hxv, hk, hval⟩
  · exact .inl ⟨h1, by rw [hrun, h]; rfl⟩
  · exact .inr (.inl ⟨h1, h2, h3, by rw [hrun, h]; rfl⟩)
  · obtain ⟨hcv, hfv⟩ := fromGo_spec v hxv hk
    exact .inr (.inr ⟨h1, h2, h3, fromGo v, by rw [hrun, h]; rfl, hcv, hfv.trans hval⟩)

/-- The remainder `%` computes has the sign of the dividend, is smaller in
magnitude than the divisor, and complements the truncated quotient. -/
theorem C11_rem_sign (x y : Int) (hy : y ≠ 0) :
    y * Int.tdiv x y + Int.tmod x y = x ∧ (Int.tmod x y).natAbs < y.natAbs ∧
    (0 ≤ x → 0 ≤ Int.tmod x y) ∧ (x ≤ 0 → Int.tmod x y ≤ 0) := by
  refine ⟨Int.mul_tdiv_add_tmod x y, ?_, Int.tmod_nonneg y, ?_⟩
  · rw [Int.natAbs_tmod]; exact Nat.mod_lt _ (by omega)
  · intro hx
    have h1 : 0 ≤ (-x).tmod y := Int.tmod_nonneg y (by omega)
    rw [Int.neg_tmod] at h1; omega

example : run bitsOps "%" [.int (-9223372036854775808), .int (-1)] none = .ok [.int 0] := by rfl
example : run bitsOps "%" [.int (-7), .int 2] none = .ok [.int (-1)] := by rfl
example : run bitsOps "%" [.rat (mkRat 1 2), .int 2] none = .exc "exact-int" := by rfl

/-! ### range -/

/-- `range $s $e &step=$st?` on canonical exact arguments: the documented
arithmetic progression (`RangeSpecT`, ElvProofs/C11/Range.lean: ascending
while `< e` when `s ≤ e`, descending while `> e` otherwise; exception for a
step of the wrong sign or zero), every output canonical.  On machine ints the
wrap guards of the Go loop stop it exactly where the progression leaves int64. -/
theorem C11_range (ops : F64Ops F) (s e : Num F) (st : Option (Num F)) (hs : ExactC s)
    (he : ExactC e) (hst : ∀ z, st = some z → ExactC z) :
    RangeSpecT (0 : Rat) 1 (-1) (val s) (val e) (st.map val)
      (resMap (List.map val) (run ops "range" [s, e] st)) ∧
    ∀ outs, run ops "range" [s, e] st = .ok outs → ∀ v ∈ outs, ExactC v :=
  rangeFn_exact ops s e st hs he hst

/-- `range $e` is `range 0 $e`. -/
theorem C11_range_one (ops : F64Ops F) (e : Num F) (st : Option (Num F)) :
    run ops "range" [e] st = run ops "range" [.int 0, e] st := rfl

/-- Closed form of the progression: the `k`-th output is `s + k·step`, all of
them before the end and the next one not. -/
theorem C11_range_closed_form {cont : Rat → Prop} {s c : Rat} {L : List Rat} (h : Prog cont s c L) :
    L = (List.range L.length).map (fun k : Nat => c + (k : Rat) * s) ∧
    (∀ k, k < L.length → cont (c + (k : Rat) * s)) ∧ ¬ cont (c + (L.length : Rat) * s) :=
  h.closed

example : run bitsOps "range" [.int 9223372036854775800, .int 9223372036854775807] (some (.int 5)) =
    .ok [.int 9223372036854775800, .int 9223372036854775805] := by rfl
example : run bitsOps "range" [.int 9223372036854775806, .big 9223372036854775809] none =
    .ok [.int 9223372036854775806, .int 9223372036854775807, .big 9223372036854775808] := by rfl
example : run bitsOps "range" [.int 1, .int 0] (some (.int 1)) = .exc "step-negative" := by rfl

/-! ### math: -/

/-- `math:abs`: `|x|`, canonical (`abs` of the least int is a big int). -/
theorem C11_abs (ops : F64Ops F) (a : Num F) (st : Option (Num F)) (ha : ExactC a) :
    ∃ v, run ops "abs" [a] st = .ok [v] ∧ ExactC v ∧
      val v = if val a < 0 then -val a else val a := by
  obtain ⟨hg, hv⟩ := mathAbs_exact ops a ha
  obtain ⟨hc, hf⟩ := fromGo_good _ hg
  exact ⟨_, rfl, hc, hf.trans hv⟩

example : run bitsOps "abs" [.int (-9223372036854775808)] none = .ok [.big 9223372036854775808] := by rfl

/-- `math:floor`: `⌊x⌋`, canonical. -/
theorem C11_floor (ops : F64Ops F) (a : Num F) (st : Option (Num F)) (ha : ExactC a) :
    ∃ v, run ops "floor" [a] st = .ok [v] ∧ ExactC v ∧ val v = (((val a).floor : Int) : Rat) := by
  obtain ⟨hg, hv⟩ := integerize_exact a ha ops.floor floorRat Rat.floor Rat.floor_intCast
    (fun q _ => floorRat_eq q)
  obtain ⟨hc, hf⟩ := fromGo_good _ hg
  exact ⟨_, rfl, hc, hf.trans hv⟩

/-- `math:ceil`: `⌈x⌉`, canonical. -/
theorem C11_ceil (ops : F64Ops F) (a : Num F) (st : Option (Num F)) (ha : ExactC a) :
    ∃ v, run ops "ceil" [a] st = .ok [v] ∧ ExactC v ∧ val v = (((val a).ceil : Int) : Rat) := by
  obtain ⟨hg, hv⟩ := integerize_exact a ha ops.ceil ceilRat Rat.ceil Rat.ceil_intCast
    (fun q hq => ceilRat_eq q hq)
  obtain ⟨hc, hf⟩ := fromGo_good _ hg
  exact ⟨_, rfl, hc, hf.trans hv⟩

/-- `math:trunc`: rounding towards zero, canonical. -/
theorem C11_trunc (ops : F64Ops F) (a : Num F) (st : Option (Num F)) (ha : ExactC a) :
    ∃ v, run ops "trunc" [a] st = .ok [v] ∧ ExactC v ∧ val v = ((truncSpec (val a) : Int) : Rat) := by
  obtain ⟨hg, hv⟩ := integerize_exact a ha ops.trunc truncRat truncSpec truncSpec_int
    (fun q hq => truncRat_eq q hq)
  obtain ⟨hc, hf⟩ := fromGo_good _ hg
  exact ⟨_, rfl, hc, hf.trans hv⟩

/-- `math:round`: a nearest integer (`2·|num − n·den| ≤ den`), the one farther
from zero at a tie; canonical. -/
theorem C11_round (ops : F64Ops F) (a : Num F) (st : Option (Num F)) (ha : ExactC a) :
    ∃ v, run ops "round" [a] st = .ok [v] ∧ ExactC v ∧
      ∃ n : Int, val v = (n : Rat) ∧ RoundHalfAway (val a) n := by
  obtain ⟨hg, n, hv, hp⟩ := integerize_exact_rel a ha ops.round roundRat RoundHalfAway
    roundHalfAway_int (fun q _ => roundRat_spec q)
  obtain ⟨hc, hf⟩ := fromGo_good _ hg
  exact ⟨_, rfl, hc, n, hf.trans hv, hp⟩

/-- `math:round-to-even`: a nearest integer, the even one at a tie; canonical. -/
theorem C11_round_to_even (ops : F64Ops F) (a : Num F) (st : Option (Num F)) (ha : ExactC a) :
    ∃ v, run ops "round-to-even" [a] st = .ok [v] ∧ ExactC v ∧
      ∃ n : Int, val v = (n : Rat) ∧ RoundHalfEven (val a) n := by
  obtain ⟨hg, n, hv, hp⟩ := integerize_exact_rel a ha ops.roundEven roundEvenRat RoundHalfEven
    roundHalfEven_int (fun q _ => roundEvenRat_spec q)
  obtain ⟨hc, hf⟩ := fromGo_good _ hg
  exact ⟨_, rfl, hc, n, hf.trans hv, hp⟩

example : ExactC (.rat (mkRat (-5) 2) : Num UInt64) := ⟨rfl, by show (mkRat (-5) 2).den ≠ 1; decide⟩
example : run bitsOps "round" [.rat (mkRat (-5) 2)] none = .ok [.int (-3)] := by rfl
example : run bitsOps "round-to-even" [.rat (mkRat (-5) 2)] none = .ok [.int (-2)] := by rfl
example : run bitsOps "ceil" [.rat (mkRat (-5) 2)] none = .ok [.int (-2)] := by rfl
example : run bitsOps "floor" [.rat (mkRat 18446744073709551617 2)] none = .ok [.big 9223372036854775808] := by rfl

/-- `math:max`: one of the arguments' values, not below any of them;
canonical.  No argument is an arity exception. -/
theorem C11_max (ops : F64Ops F) (args : List (Num F)) (st : Option (Num F))
    (hc : ∀ a ∈ args, ExactC a) :
    (args = [] ∧ run ops "max" args st = .exc "arity") ∨
    (args ≠ [] ∧ ∃ v, run ops "max" args st = .ok [v] ∧ ExactC v ∧ val v ∈ args.map val ∧
      ∀ a ∈ args, val a ≤ val v) := by
  by_cases h : args = []
  · subst h; exact .inl ⟨rfl, rfl⟩
  · obtain ⟨v, hv, hg, hm, hle⟩ := mathMax_exact ops args hc h
    obtain ⟨hcv, hf⟩ := fromGo_good _ hg
    refine .inr ⟨h, fromGo v, ?_, hcv, hf ▸ hm, fun a ha => hf ▸ hle a ha⟩
    show outs (mathMax ops args) = _
    rw [hv]; rfl

/-- `math:min`. -/
theorem C11_min (ops : F64Ops F) (args : List (Num F)) (st : Option (Num F))
    (hc : ∀ a ∈ args, ExactC a) :
    (args = [] ∧ run ops "min" args st = .exc "arity") ∨
    (args ≠ [] ∧ ∃ v, run ops "min" args st = .ok [v] ∧ ExactC v ∧ val v ∈ args.map val ∧
      ∀ a ∈ args, val v ≤ val a) := by
  by_cases h : args = []
  · subst h; exact .inl ⟨rfl, rfl⟩
  · obtain ⟨v, hv, hg, hm, hle⟩ := mathMin_exact ops args hc h
    obtain ⟨hcv, hf⟩ := fromGo_good _ hg
    refine .inr ⟨h, fromGo v, ?_, hcv, hf ▸ hm, fun a ha => hf ▸ hle a ha⟩
    show outs (mathMin ops args) = _
    rw [hv]; rfl

example : run bitsOps "max" [.int 3, .rat (mkRat 7 2), .big 9223372036854775808] none =
    .ok [.big 9223372036854775808] := by rfl

/-- `math:pow` with an exact base and an exact integer exponent `e` (as fixed
by fixes/C11-pow-zero-neg.patch): a divide-by-zero exception exactly for a
negative power of zero, otherwise `base^e` (rational power with integer
exponent), canonical. -/
theorem C11_pow (ops : F64Ops F) (base exp : Num F) (st : Option (Num F)) (hb : ExactC base)
    (he : ExactC exp) (hi : isExactInt exp = true) :
    (val base = 0 ∧ intVal exp < 0 ∧ run ops "pow" [base, exp] st = .exc "div0") ∨
    (¬ (val base = 0 ∧ intVal exp < 0) ∧ ∃ v, run ops "pow" [base, exp] st = .ok [v] ∧ ExactC v ∧
      val v = val base ^ intVal exp) := by
  have hrun : run ops "pow" [base, exp] st = outs (mathPow ops base exp) := rfl
  rcases mathPow_exact ops base exp hb he hi with ⟨h1, h2, h⟩ | ⟨h1, v, h, hg, hv⟩
  · exact .inl ⟨h1, h2, by rw [hrun, h]; rfl⟩
  · obtain ⟨hcv, hf⟩ := fromGo_good _ hg
    exact .inr ⟨h1, fromGo v, by rw [hrun, h]; rfl, hcv, hf.trans hv⟩

example : run bitsOps "pow" [.int 0, .int (-1)] none = .exc "div0" := by rfl
example : run bitsOps "pow" [.int 0, .big (-18446744073709551616)] none = .exc "div0" := by rfl
example : run bitsOps "pow" [.rat (mkRat 2 3), .int (-3)] none = .ok [.rat (mkRat 27 8)] := by with_unfolding_all rfl
example : run bitsOps "pow" [.int 2, .int 64] none = .ok [.big 18446744073709551616] := by rfl
example : run bitsOps "pow" [.int (-1), .big 18446744073709551617] none = .ok [.int (-1)] := by rfl

/-! ### The property as one statement -/

/-- C11 at full strength over the model: for canonical exact arguments each
listed command outputs the exact mathematical result in canonical form, or
the documented exception; the exact-zero rules hold with inexact arguments. -/
def C11_full (ops : F64Ops F) : Prop :=
  (∀ args st, (∀ a ∈ args, isExact a = true) →
    ∃ v, run ops "+" args st = .ok [v] ∧ ExactC v ∧ val v = (args.map val).foldl (· + ·) 0) ∧
  (∀ args st, (∀ a ∈ args, isExact a = true) →
    (args = [] ∧ run ops "-" args st = .exc "arity") ∨
    (args ≠ [] ∧ ∃ v, run ops "-" args st = .ok [v] ∧ ExactC v ∧ val v = subSpec (args.map val))) ∧
  (∀ args st, (∀ a ∈ args, isExact a = true) →
    ∃ v, run ops "*" args st = .ok [v] ∧ ExactC v ∧ val v = (args.map val).foldl (· * ·) 1) ∧
  (∀ args st, Num.int 0 ∈ args → (∀ a ∈ args, isInfNum ops a = false) →
    run ops "*" args st = .ok [.int 0]) ∧
  (∀ args st, (∀ a ∈ args, ExactC a) → args ≠ [] →
    (DivByZero (args.map val) ∧ run ops "/" args st = .exc "div0") ∨
    (¬ DivByZero (args.map val) ∧ ∃ v, run ops "/" args st = .ok [v] ∧ ExactC v ∧
      val v = divSpec (args.map val))) ∧
  (∀ rest st, rest ≠ [] → rest.any isExactZero = false →
    run ops "/" (.int 0 :: rest) st = .ok [.int 0]) ∧
  (∀ x rest st, rest.any isExactZero = true → run ops "/" (x :: rest) st = .exc "div0") ∧
  (∀ a b st, ExactC a → ExactC b →
    (¬ (isExactInt a = true ∧ isExactInt b = true) ∧ run ops "%" [a, b] st = .exc "exact-int") ∨
    (isExactInt a = true ∧ isExactInt b = true ∧ val b = 0 ∧ run ops "%" [a, b] st = .exc "div0") ∨
    (isExactInt a = true ∧ isExactInt b = true ∧ val b ≠ 0 ∧ ∃ v, run ops "%" [a, b] st = .ok [v] ∧
      ExactC v ∧ val v = ((Int.tmod (intVal a) (intVal b) : Int) : Rat))) ∧
  (∀ s e st, ExactC s → ExactC e → (∀ z, st = some z → ExactC z) →
    RangeSpecT (0 : Rat) 1 (-1) (val s) (val e) (st.map val)
      (resMap (List.map val) (run ops "range" [s, e] st)) ∧
    ∀ outs, run ops "range" [s, e] st = .ok outs → ∀ v ∈ outs, ExactC v) ∧
  (∀ a st, ExactC a → ∃ v, run ops "abs" [a] st = .ok [v] ∧ ExactC v ∧
      val v = if val a < 0 then -val a else val a) ∧
  (∀ a st, ExactC a → ∃ v, run ops "floor" [a] st = .ok [v] ∧ ExactC v ∧
      val v = (((val a).floor : Int) : Rat)) ∧
  (∀ a st, ExactC a → ∃ v, run ops "ceil" [a] st = .ok [v] ∧ ExactC v ∧
      val v = (((val a).ceil : Int) : Rat)) ∧
  (∀ a st, ExactC a → ∃ v, run ops "trunc" [a] st = .ok [v] ∧ ExactC v ∧
      val v = ((truncSpec (val a) : Int) : Rat)) ∧
  (∀ a st, ExactC a → ∃ v, run ops "round" [a] st = .ok [v] ∧ ExactC v ∧
      ∃ n : Int, val v = (n : Rat) ∧ RoundHalfAway (val a) n) ∧
  (∀ a st, ExactC a → ∃ v, run ops "round-to-even" [a] st = .ok [v] ∧ ExactC v ∧
      ∃ n : Int, val v = (n : Rat) ∧ RoundHalfEven (val a) n) ∧
  (∀ args st, (∀ a ∈ args, ExactC a) →
    (args = [] ∧ run ops "max" args st = .exc "arity") ∨
    (args ≠ [] ∧ ∃ v, run ops "max" args st = .ok [v] ∧ ExactC v ∧ val v ∈ args.map val ∧
      ∀ a ∈ args, val a ≤ val v)) ∧
  (∀ args st, (∀ a ∈ args, ExactC a) →
    (args = [] ∧ run ops "min" args st = .exc "arity") ∨
    (args ≠ [] ∧ ∃ v, run ops "min" args st = .ok [v] ∧ ExactC v ∧ val v ∈ args.map val ∧
      ∀ a ∈ args, val v ≤ val a)) ∧
  (∀ base exp st, ExactC base → ExactC exp → isExactInt exp = true →
    (val base = 0 ∧ intVal exp < 0 ∧ run ops "pow" [base, exp] st = .exc "div0") ∨
    (¬ (val base = 0 ∧ intVal exp < 0) ∧ ∃ v, run ops "pow" [base, exp] st = .ok [v] ∧ ExactC v ∧
      val v = val base ^ intVal exp))

/-- The whole property holds of the model, for every float instance. -/
theorem C11_full_holds (ops : F64Ops F) : C11_full ops :=
  ⟨C11_add ops, C11_sub ops, C11_mul ops, C11_mul_zero_rule ops, C11_div ops,
   C11_div_zero_rule ops, C11_div_by_exact_zero ops, fun a b st => C11_rem ops a b st,
   fun s e st => C11_range ops s e st, fun a st => C11_abs ops a st, fun a st => C11_floor ops a st,
   fun a st => C11_ceil ops a st, fun a st => C11_trunc ops a st, fun a st => C11_round ops a st,
   fun a st => C11_round_to_even ops a st, C11_max ops, C11_min ops,
   fun b e st => C11_pow ops b e st⟩

/-- No listed command panics on canonical exact arguments, whatever their
number (wrong counts are arity exceptions). -/
theorem C11_no_panic (ops : F64Ops F) (cmd : String) (args : List (Num F)) (st : Option (Num F))
    (hcmd : cmd ∈ ["+", "-", "*", "%", "abs", "ceil", "floor", "round", "round-to-even", "trunc",
      "max", "min", "pow"] ∨ (cmd = "/" ∧ args ≠ []) ∨ (cmd = "range"))
    (hc : ∀ a ∈ args, ExactC a) (hst : ∀ z, st = some z → ExactC z) :
    (run ops cmd args st).isPanic = false := by
  have hx : ∀ a ∈ args, isExact a = true := fun a ha => (hc a ha).1
  have one : ∀ f : Num F → Num F, (one1 f args).isPanic = false := by
    intro f; unfold one1; split <;> rfl
  rcases hcmd with hcmd | ⟨rfl, hne⟩ | rfl
  · simp only [List.mem_cons, List.mem_nil_iff, or_false] at hcmd
    rcases hcmd with rfl | rfl | rfl | rfl | rfl | rfl | rfl | rfl | rfl | rfl | rfl | rfl | rfl
    · obtain ⟨v, h, _⟩ := C11_add ops args st hx; rw [h]; rfl
    · rcases C11_sub ops args st hx with ⟨_, h⟩ | ⟨_, v, h, _⟩ <;> rw [h] <;> rfl
    · obtain ⟨v, h, _⟩ := C11_mul ops args st hx; rw [h]; rfl
    · match args, hc with
      | [a, b], hc =>
        rcases C11_rem ops a b st (hc a (by simp)) (hc b (by simp)) with ⟨_, h⟩ | ⟨_, _, _, h⟩ |
          ⟨_, _, _, v, h, _⟩ <;> rw [h] <;> rfl
      | [], _ => rfl
      | [_], _ => rfl
      | _ :: _ :: _ :: _, _ => rfl
    · exact one _
    · exact one _
    · exact one _
    · exact one _
    · exact one _
    · exact one _
    · rcases C11_max ops args st hc with ⟨_, h⟩ | ⟨_, v, h, _⟩ <;> rw [h] <;> rfl
    · rcases C11_min ops args st hc with ⟨_, h⟩ | ⟨_, v, h, _⟩ <;> rw [h] <;> rfl
    · match args, hc with
      | [b, e], hc =>
        by_cases hi : isExactInt e = true
        · rcases C11_pow ops b e st (hc b (by simp)) (hc e (by simp)) hi with ⟨_, _, h⟩ |
            ⟨_, v, h, _⟩ <;> rw [h] <;> rfl
        · have hb := (hc b (by simp)).1
          show (outs (mathPow ops b e)).isPanic = false
          unfold mathPow
          simp [hi, outs, resMap, Res.isPanic]
      | [], _ => rfl
      | [_], _ => rfl
      | _ :: _ :: _ :: _, _ => rfl
  · rcases C11_div ops args st hc hne with ⟨_, h⟩ | ⟨_, v, h, _⟩ <;> rw [h] <;> rfl
  · match args, hc with
    | [s, e], hc =>
      obtain ⟨h, _⟩ := C11_range ops s e st (hc s (by simp)) (hc e (by simp)) hst
      generalize run ops "range" [s, e] st = r at h
      cases r with
      | ok _ => rfl
      | exc _ => rfl
      | panic w =>
        exfalso
        unfold RangeSpecT at h
        simp only [resMap] at h
        by_cases c : val s ≤ val e
        · have := h.1 c
          cases st with
          | none => simp at this
          | some z =>
            simp only [Option.map] at this
            by_cases c2 : val z ≤ 0
            · have := this.1 c2; simp at this
            · have := this.2 c2; simp at this
        · have := h.2 c
          cases st with
          | none => simp at this
          | some z =>
            simp only [Option.map] at this
            by_cases c2 : 0 ≤ val z
            · have := this.1 c2; simp at this
            · have := this.2 c2; simp at this
    | [e], hc =>
      rw [C11_range_one]
      obtain ⟨h, _⟩ := C11_range ops (.int 0) e st ⟨rfl, by simp [Canonical, fitsInt, minInt, maxInt]⟩ (hc e (by simp)) hst
      generalize run ops "range" [.int 0, e] st = r at h
      cases r with
      | ok _ => rfl
      | exc _ => rfl
      | panic w =>
        exfalso
        unfold RangeSpecT at h
        simp only [resMap] at h
        by_cases c : val (.int 0 : Num F) ≤ val e
        · have := h.1 c
          cases st with
          | none => simp at this
          | some z =>
            simp only [Option.map] at this
            by_cases c2 : val z ≤ 0
            · have := this.1 c2; simp at this
            · have := this.2 c2; simp at this
        · have := h.2 c
          cases st with
          | none => simp at this
          | some z =>
            simp only [Option.map] at this
            by_cases c2 : 0 ≤ val z
            · have := this.1 c2; simp at this
            · have := this.2 c2; simp at this
    | [], _ => rfl
    | _ :: _ :: _ :: _, _ => rfl

example : (run bitsOps "%" [.int 1, .int 2, .int 3] none).isPanic = false := by rfl
