/-
C26, soundness of the executable checker: every component check of
`C26.isLinearization` implies the corresponding clause of `C26.Linearizable`.
-/
import ElvModel.C26.Linearizable
namespace C26
variable {σ Op Out : Type}

/-! ### generic list facts -/

theorem findIdx_some_get {α : Type} (p : α → Bool) :
    ∀ (l : List α) (q : Nat), l.findIdx? p = some q → ∃ e, l[q]? = some e ∧ p e = true
  | [], q, h => by simp at h
  | x :: l, q, h => by
    rw [List.findIdx?_cons] at h
    by_cases hx : p x = true
    · simp only [hx, if_true, Option.some.injEq] at h
      subst h
      exact ⟨x, by simp, hx⟩
    · simp only [hx, Bool.false_eq_true, if_false, Option.map_eq_some_iff] at h
      obtain ⟨q', hq', rfl⟩ := h
      obtain ⟨e, he, hp⟩ := findIdx_some_get p l q' hq'
      exact ⟨e, by simpa using he, hp⟩

theorem get_findIdx_le {α : Type} (p : α → Bool) :
    ∀ (l : List α) (i : Nat) (e : α), l[i]? = some e → p e = true → ∃ q, l.findIdx? p = some q ∧ q ≤ i
  | [], i, e, h, _ => by simp at h
  | x :: l, i, e, h, hp => by
    rw [List.findIdx?_cons]
    by_cases hx : p x = true
    · exact ⟨0, by simp [hx], Nat.zero_le _⟩
    · cases i with
      | zero =>
        simp only [List.getElem?_cons_zero, Option.some.injEq] at h
        subst h
        exact absurd hp hx
      | succ i =>
        simp only [List.getElem?_cons_succ] at h
        obtain ⟨q, hq, hle⟩ := get_findIdx_le p l i e h hp
        exact ⟨q + 1, by simp [hx, hq], by omega⟩

theorem nodupB_sound : ∀ (l : List Nat), nodupB l = true → l.Nodup
  | [], _ => List.nodup_nil
  | a :: l, h => by
    simp only [nodupB, Bool.and_eq_true, Bool.not_eq_eq_eq_not, Bool.not_true,
      List.contains_eq_mem, decide_eq_false_iff_not] at h
    exact List.nodup_cons.2 ⟨h.1, nodupB_sound l h.2⟩

/-! ### histories -/

theorem mem_invIds_of_get (h : History Op Out) (j b : Nat) (op : Op) (hj : h[j]? = some (Event.inv b op)) :
    b ∈ invIds h := by
  simp only [invIds, List.mem_filterMap]
  exact ⟨Event.inv b op, List.mem_of_getElem? hj, rfl⟩

/-- two invocation events of the same operation are the same event -/
theorem inv_pos_unique : ∀ (h : History Op Out), (invIds h).Nodup → ∀ (i j b : Nat) (op op' : Op),
    h[i]? = some (Event.inv b op) → h[j]? = some (Event.inv b op') → i = j
  | [], _, i, _, _, _, _, hi, _ => by simp at hi
  | e :: h, hn, i, j, b, op, op', hi, hj => by
    have hn' : (invIds h).Nodup := by
      cases e with
      | inv id o => simp only [invIds, List.filterMap_cons, Event.invId?] at hn; exact (List.nodup_cons.1 hn).2
      | res id o => simpa only [invIds, List.filterMap_cons, Event.invId?] using hn
    cases i with
    | zero =>
      cases j with
      | zero => rfl
      | succ j =>
        simp only [List.getElem?_cons_zero, Option.some.injEq] at hi
        simp only [List.getElem?_cons_succ] at hj
        subst hi
        simp only [invIds, List.filterMap_cons, Event.invId?] at hn
        exact absurd (mem_invIds_of_get h j b op' hj) (List.nodup_cons.1 hn).1
    | succ i =>
      cases j with
      | zero =>
        simp only [List.getElem?_cons_zero, Option.some.injEq] at hj
        simp only [List.getElem?_cons_succ] at hi
        subst hj
        simp only [invIds, List.filterMap_cons, Event.invId?] at hn
        exact absurd (mem_invIds_of_get h i b op hi) (List.nodup_cons.1 hn).1
      | succ j =>
        simp only [List.getElem?_cons_succ] at hi hj
        rw [inv_pos_unique h hn' i j b op op' hi hj]

theorem invPos_of_get (h : History Op Out) (hn : (invIds h).Nodup) (j b : Nat) (op : Op)
    (hj : h[j]? = some (Event.inv b op)) : invPos h b = some j := by
  obtain ⟨q, hq, _⟩ := get_findIdx_le (isInvOf b) h j _ hj (by simp [isInvOf])
  obtain ⟨e, he, hp⟩ := findIdx_some_get (isInvOf b) h q hq
  cases e with
  | res id o => simp [isInvOf] at hp
  | inv id o =>
    simp only [isInvOf, beq_iff_eq] at hp
    subst hp
    have := inv_pos_unique h hn q j id o op he hj
    subst this
    exact hq

theorem resPos_of_get (h : History Op Out) (i a : Nat) (out : Out)
    (hi : h[i]? = some (Event.res a out)) : ∃ p, resPos h a = some p ∧ p ≤ i :=
  get_findIdx_le (isResOf a) h i _ hi (by simp [isResOf])

theorem resAfterInvB_sound : ∀ (h : History Op Out) (seen : List Nat), resAfterInvB seen h = true →
    ∀ (i id : Nat) (out : Out), h[i]? = some (Event.res id out) →
      id ∈ seen ∨ ∃ (j : Nat) (op : Op), j < i ∧ h[j]? = some (Event.inv id op)
  | [], _, _, i, _, _, hi => by simp at hi
  | Event.inv b op :: h, seen, hb, i, id, out, hi => by
    simp only [resAfterInvB] at hb
    cases i with
    | zero => simp at hi
    | succ i =>
      simp only [List.getElem?_cons_succ] at hi
      rcases resAfterInvB_sound h (b :: seen) hb i id out hi with hm | ⟨j, o, hj, hg⟩
      · rcases List.mem_cons.1 hm with rfl | hm
        · exact Or.inr ⟨0, op, by omega, by simp⟩
        · exact Or.inl hm
      · exact Or.inr ⟨j + 1, o, by omega, by simpa using hg⟩
  | Event.res b o :: h, seen, hb, i, id, out, hi => by
    simp only [resAfterInvB, Bool.and_eq_true, List.contains_eq_mem, decide_eq_true_eq] at hb
    cases i with
    | zero =>
      simp only [List.getElem?_cons_zero, Option.some.injEq, Event.res.injEq] at hi
      exact Or.inl (hi.1 ▸ hb.1)
    | succ i =>
      simp only [List.getElem?_cons_succ] at hi
      rcases resAfterInvB_sound h seen hb.2 i id out hi with hm | ⟨j, o', hj, hg⟩
      · exact Or.inl hm
      · exact Or.inr ⟨j + 1, o', by omega, by simpa using hg⟩

theorem wellFormedB_sound (h : History Op Out) (hb : wellFormedB h = true) : WellFormed h := by
  simp only [wellFormedB, Bool.and_eq_true] at hb
  refine ⟨nodupB_sound _ hb.1.1, nodupB_sound _ hb.1.2, ?_⟩
  intro i id out hi
  rcases resAfterInvB_sound h [] hb.2 i id out hi with hm | hx
  · simp at hm
  · exact hx

theorem opOf_mem (h : History Op Out) (id : Nat) (op : Op) (ho : opOf h id = some op) : Event.inv id op ∈ h := by
  simp only [opOf, List.findSome?_eq_some_iff] at ho
  obtain ⟨l1, a, l2, rfl, ha, _⟩ := ho
  cases a with
  | res i o => simp at ha
  | inv i o =>
    by_cases hi : i = id
    · subst hi
      simp only [if_true, Option.some.injEq] at ha
      subst ha
      simp
    · simp [hi] at ha

/-! ### replay -/

theorem replay_sound (step : σ → Op → σ × Out) (h : History Op Out) :
    ∀ (order : List Nat) (s : σ) (S : List (Nat × Op × Out)), replay step h s order = some S →
      S.map (·.1) = order ∧ (∀ x ∈ S, opOf h x.1 = some x.2.1) ∧
      (runSeq step s (S.map (·.2.1))).2 = S.map (·.2.2)
  | [], s, S, hr => by
    simp only [replay, Option.some.injEq] at hr
    subst hr
    simp [runSeq]
  | id :: r, s, S, hr => by
    simp only [replay] at hr
    cases ho : opOf h id with
    | none => simp [ho] at hr
    | some op =>
      simp only [ho] at hr
      cases hrr : replay step h (step s op).1 r with
      | none => simp [hrr] at hr
      | some S' =>
        simp only [hrr, Option.some.injEq] at hr
        subst hr
        obtain ⟨h1, h2, h3⟩ := replay_sound step h r (step s op).1 S' hrr
        refine ⟨by simp [h1], ?_, ?_⟩
        · intro x hx
          rcases List.mem_cons.1 hx with rfl | hx
          · exact ho
          · exact h2 x hx
        · simp only [List.map_cons, runSeq]
          rw [h3]

theorem completeB_sound [DecidableEq Out] (h : History Op Out) (S : List (Nat × Op × Out))
    (hc : completeB h S = true) (id : Nat) (out : Out) (hm : Event.res id out ∈ h) :
    ∃ op, (id, op, out) ∈ S := by
  simp only [completeB, List.all_eq_true] at hc
  have := hc _ hm
  simp only [List.any_eq_true, Bool.and_eq_true, beq_iff_eq, decide_eq_true_eq] at this
  obtain ⟨⟨i, o, u⟩, hx, h1, h2⟩ := this
  simp only at h1 h2
  subst h1; subst h2
  exact ⟨o, hx⟩

/-! ### real time -/

theorem realtimeB_sound (h : History Op Out) :
    ∀ (order : List Nat) (m : Nat), realtimeB h m order = true →
      ∀ (l1 : List Nat) (x : Nat) (l2 : List Nat), order = l1 ++ x :: l2 →
        ∀ p, resPos h x = some p → m ≤ p + 1 ∧ ∀ y ∈ l1, ∀ q, invPos h y = some q → q ≤ p
  | [], _, _, l1, x, l2, ho => by simp at ho
  | id :: r, m, hb, l1, x, l2, ho => by
    intro p hp
    simp only [realtimeB] at hb
    cases hq : invPos h id with
    | none => simp [hq] at hb
    | some q0 =>
      simp only [hq, Bool.and_eq_true] at hb
      cases l1 with
      | nil =>
        simp only [List.nil_append, List.cons.injEq] at ho
        obtain ⟨rfl, _⟩ := ho
        have h1 := hb.1
        simp only [hp, decide_eq_true_eq] at h1
        exact ⟨h1, by simp⟩
      | cons y l1' =>
        simp only [List.cons_append, List.cons.injEq] at ho
        obtain ⟨rfl, hr⟩ := ho
        obtain ⟨h1, h2⟩ := realtimeB_sound h r (max m (q0 + 1)) hb.2 l1' x l2 hr p hp
        refine ⟨by omega, ?_⟩
        intro y hy q hyq
        rcases List.mem_cons.1 hy with rfl | hy
        · rw [hq] at hyq
          simp only [Option.some.injEq] at hyq
          omega
        · exact h2 y hy q hyq

/-- the real-time clause of `Linearization`, from the one-pass check -/
theorem realtime_of_checks (h : History Op Out) (hw : WellFormed h) (order : List Nat)
    (hrt : realtimeB h 0 order = true)
    (hcomplete : ∀ id out, Event.res id out ∈ h → id ∈ order)
    (a b : Nat) (hp : Precedes h a b) (l1 l2 : List Nat) (ho : order = l1 ++ b :: l2) : a ∈ l1 := by
  obtain ⟨i, j, out, op, hij, hi, hj⟩ := hp
  have ha : a ∈ order := hcomplete a out (List.mem_of_getElem? hi)
  have hab : a ≠ b := by
    intro hab
    subst hab
    obtain ⟨j', op', hj', hg⟩ := hw.res_after_inv i a out hi
    have := inv_pos_unique h hw.inv_unique j' j a op' op hg hj
    omega
  rw [ho] at ha
  rcases List.mem_append.1 ha with ha | ha
  · exact ha
  · rcases List.mem_cons.1 ha with ha | ha
    · exact absurd ha hab
    · obtain ⟨l2a, l2b, rfl⟩ := List.append_of_mem ha
      obtain ⟨p, hpa, hpi⟩ := resPos_of_get h i a out hi
      have hqb := invPos_of_get h hw.inv_unique j b op hj
      have := (realtimeB_sound h order 0 hrt (l1 ++ b :: l2a) a l2b (by simp [ho]) p hpa).2 b (by simp) j hqb
      omega

/-- SOUNDNESS OF THE CHECKER: an order accepted by the executable function is
a proof that the history is linearizable. -/
theorem isLinearization_sound [DecidableEq Out] (step : σ → Op → σ × Out) (init : σ)
    (h : History Op Out) (order : List Nat) (hb : isLinearization step init h order = true) :
    Linearizable step init h := by
  simp only [isLinearization, Bool.and_eq_true] at hb
  obtain ⟨⟨hwf, hnd⟩, hrest⟩ := hb
  cases hr : replay step h init order with
  | none => simp [hr] at hrest
  | some S =>
    simp only [hr, Bool.and_eq_true] at hrest
    obtain ⟨hc, hrt⟩ := hrest
    have hw := wellFormedB_sound h hwf
    obtain ⟨h1, h2, h3⟩ := replay_sound step h order init S hr
    have hndp := nodupB_sound order hnd
    refine ⟨hw, S, ⟨by rw [h1]; exact hndp, fun x hx => opOf_mem h x.1 x.2.1 (h2 x hx),
      completeB_sound h S hc, h3, ?_⟩⟩
    intro a b hp l1 l2 ho
    rw [h1] at ho
    refine realtime_of_checks h hw order hrt ?_ a b hp l1 l2 ho
    intro id out hm
    obtain ⟨op, hx⟩ := completeB_sound h S hc id out hm
    rw [← h1]
    exact List.mem_map.2 ⟨_, hx, rfl⟩

end C26
