/-
C26: the retry path of `client.call` is at-least-once.  A concrete run of the
model in which a connection dies after the daemon committed an AddCmd but
before the reply was written, while another goroutine resets the client
(`closing`), so the pending call fails with `ErrShutdown` and is re-sent on a
new connection: ONE AddCmd invocation is committed TWICE, and the resulting
history is not linearizable.
-/
import ElvModel.C26.Store
import ElvProofs.C26.Main
namespace C26
open Go C24

def addX : Op := .cmd (.add [120])
def listAll : Op := .cmd (.list 0 (-1))

/-- the schedule: … commit, connection closed by the server, ResetConn, EOF ⇒
`ErrShutdown` ⇒ redial, re-send, second commit … -/
def retryRun : List (Label Op) :=
  [.newClient, .invoke 0 addX, .dial 0, .send 0, .read 0, .commit 0,
   .serverClose 0, .clientReset 0, .inputEOF 0,
   .dial 0, .send 0, .read 1, .commit 1, .lock 1, .writeHdr 1, .writeBody 1, .recv 1, .ret 0,
   .invoke 0 listAll, .send 1, .read 2, .commit 2, .lock 2, .writeHdr 2, .writeBody 2, .recv 1, .ret 1]

/-- what the two callers saw: AddCmd returned 2, and the listing shows the text twice -/
def retryHist : History Op Out :=
  [.inv 0 addX, .res 0 (.cmd (.seq (.ok 2))), .inv 1 listAll,
   .res 1 (.cmd (.cmds (.ok [⟨[120], 1⟩, ⟨[120], 2⟩])))]

set_option maxRecDepth 100000 in
theorem retryRun_result :
    (run seqStep (State.init Store.fresh) retryRun).map (fun s => (s.hist, s.lin.map (·.1))) =
      some (retryHist, [0, 0, 1]) := by decide

theorem reachable_run {σ Op Out : Type} (spec : σ → Op → σ × Out) (s0 : σ) (ok : Label Op → Prop) :
    ∀ (ls : List (Label Op)) (s s' : State σ Op Out), Reachable spec s0 ok s → (∀ l ∈ ls, ok l) →
      run spec s ls = some s' → Reachable spec s0 ok s'
  | [], s, s', hr, _, hrun => by
    simp only [run, Option.some.injEq] at hrun
    exact hrun ▸ hr
  | l :: ls, s, s', hr, hok, hrun => by
    simp only [run] at hrun
    cases hst : step spec s l with
    | none => simp [hst] at hrun
    | some s1 =>
      simp only [hst, Option.bind_some] at hrun
      exact reachable_run spec s0 ok ls s1 s' (.step hr (hok l (by simp)) hst) (fun l' hl' => hok l' (by simp [hl'])) hrun

theorem reachable_mono {σ Op Out : Type} {spec : σ → Op → σ × Out} {s0 : σ} {ok ok' : Label Op → Prop}
    (himp : ∀ l, ok l → ok' l) {s : State σ Op Out} (hr : Reachable spec s0 ok s) : Reachable spec s0 ok' s := by
  induction hr with
  | init => exact .init
  | step _ hok hs ih => exact .step ih (himp _ hok) hs

instance {Op : Type} : DecidablePred (Label.noReset (Op := Op)) := fun l => by
  cases l <;> simp only [Label.noReset] <;> infer_instance

/-- a duplicate-free list over {0, 1} -/
theorem nodup_two : ∀ (l : List Nat), l.Nodup → (∀ x ∈ l, x = 0 ∨ x = 1) →
    l = [] ∨ l = [0] ∨ l = [1] ∨ l = [0, 1] ∨ l = [1, 0]
  | [], _, _ => Or.inl rfl
  | [a], _, h => by
    rcases h a (by simp) with rfl | rfl <;> simp
  | [a, b], hn, h => by
    have hab : a ≠ b := by
      intro e
      subst e
      simp at hn
    rcases h a (by simp) with rfl | rfl <;> rcases h b (by simp) with rfl | rfl <;> simp at hab ⊢
  | a :: b :: c :: r, hn, h => by
    exfalso
    have ha := h a (by simp)
    have hb := h b (by simp)
    have hc := h c (by simp)
    simp only [List.nodup_cons, List.mem_cons, not_or] at hn
    omega

set_option maxRecDepth 100000 in
theorem retry_first_reply : (seqStep Store.fresh addX).2 = .cmd (.seq (.ok 1)) := by decide

theorem retryHist_not_linearizable : ¬ Linearizable seqStep Store.fresh retryHist := by
  rintro ⟨_, S, hS⟩
  -- the ids in S
  have hids : ∀ x ∈ S.map (·.1), x = 0 ∨ x = 1 := by
    intro x hx
    obtain ⟨y, hy, rfl⟩ := List.mem_map.1 hx
    have := hS.invoked y hy
    simp only [retryHist, List.mem_cons, Event.inv.injEq, List.mem_nil_iff, or_false] at this
    rcases this with h | h | h | h
    · exact Or.inl h.1
    · cases h
    · exact Or.inr h.1
    · cases h
  obtain ⟨op0, h0⟩ := hS.complete 0 (.cmd (.seq (.ok 2))) (by simp [retryHist])
  obtain ⟨op1, h1⟩ := hS.complete 1 (.cmd (.cmds (.ok [⟨[120], 1⟩, ⟨[120], 2⟩]))) (by simp [retryHist])
  have m0 : 0 ∈ S.map (·.1) := List.mem_map.2 ⟨_, h0, rfl⟩
  have m1 : 1 ∈ S.map (·.1) := List.mem_map.2 ⟨_, h1, rfl⟩
  have hprec : Precedes retryHist 0 1 := ⟨1, 2, _, _, by omega, rfl, rfl⟩
  have hshape : S.map (·.1) = [0, 1] := by
    rcases nodup_two _ hS.nodup hids with h | h | h | h | h
    · rw [h] at m0; simp at m0
    · rw [h] at m1; simp at m1
    · rw [h] at m0; simp at m0
    · exact h
    · have := hS.realtime 0 1 hprec [] [0] (by rw [h]; rfl)
      simp at this
  -- so S = [x0, x1] with x0 the entry of operation 0
  obtain ⟨x0, x1, rfl⟩ : ∃ x0 x1, S = [x0, x1] := by
    cases S with
    | nil => simp at hshape
    | cons a t =>
      cases t with
      | nil => simp at hshape
      | cons b t' =>
        cases t' with
        | nil => exact ⟨a, b, rfl⟩
        | cons c t'' => simp at hshape
  have hsh := hshape
  simp only [List.map_cons, List.map_nil, List.cons.injEq, and_true] at hsh
  have hfinal : False := by
    have hx0 : x0 = (0, op0, .cmd (.seq (.ok 2))) := by
      rcases List.mem_cons.1 h0 with h | h
      · exact h.symm
      · simp only [List.mem_singleton] at h
        have : x1.1 = 0 := by rw [← h]
        omega
    have hop0 : op0 = addX := by
      have := hS.invoked x0 (by simp)
      rw [hx0] at this
      simp only [retryHist, List.mem_cons, Event.inv.injEq, List.mem_nil_iff, or_false] at this
      rcases this with h | h | h | h
      · exact h.2
      · cases h
      · have := h.1
        omega
      · cases h
    have hlegal := hS.legal
    rw [hx0, hop0] at hlegal
    simp only [List.map_cons, List.map_nil, runSeq, List.cons.injEq] at hlegal
    have := hlegal.1
    rw [retry_first_reply] at this
    cases this
  exact hfinal

end C26
