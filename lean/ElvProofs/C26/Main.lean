/-
C26: the invariant is inductive (every step except `clientReset` preserves
it), hence holds in every state reachable without `ResetConn`, and yields a
linearization of the history: the commit order.
-/
import ElvProofs.C26.Steps2
namespace C26
variable {σ Op Out : Type} {spec : σ → Op → σ × Out} {s0 : σ} {s : State σ Op Out}

theorem inv_step (h : Inv spec s0 s) (l : Label Op) (hl : l.noReset) {s' : State σ Op Out}
    (hs : step spec s l = some s') : Inv spec s0 s' := by
  cases l with
  | newClient =>
    simp only [step, Option.some.injEq] at hs
    subst hs
    exact inv_newClient h
  | invoke o op =>
    simp only [step] at hs
    split at hs
    · cases hs
      exact inv_invoke h o op
    · cases hs
  | dial id =>
    simp only [step] at hs
    split at hs
    next c hc =>
      split at hs
      next k hpc =>
        split at hs
        · cases hs
          exact inv_dial h c.obj
        · cases hs
      next => cases hs
    next => cases hs
  | send id =>
    simp only [step] at hs
    split at hs
    next c hc =>
      split at hs
      next k cn hpc ho =>
        split at hs
        · cases hs
          exact inv_send h hc hpc ho
        · cases hs
      next => cases hs
    next => cases hs
  | sendShutdown id =>
    simp only [step] at hs
    split at hs
    next c hc =>
      split at hs
      next k cn hpc ho =>
        split at hs
        · cases hs
          exact inv_setObj (inv_setPc h hc (.ready (k + 1)) (by rw [hpc]; intro hx; cases hx)
            (by intro o hx; cases hx) (by intro k' _; exact ⟨k, hpc⟩)) c.obj
        · cases hs
      next => cases hs
    next => cases hs
  | giveUp id =>
    simp only [step] at hs
    split at hs
    next c hc =>
      split at hs
      next k hpc =>
        split at hs
        · cases hs
          exact inv_setPc h hc .failed (by rw [hpc]; intro hx; cases hx)
            (by intro o hx; cases hx) (by intro k' hx; cases hx)
        · cases hs
      next => cases hs
    next => cases hs
  | read r =>
    simp only [step] at hs
    split at hs
    next q hq =>
      split at hs
      next hph =>
        split at hs
        · cases hs
          exact inv_read h hq hph
        · cases hs
      next => cases hs
    next => cases hs
  | commit r =>
    simp only [step] at hs
    split at hs
    next q hq =>
      split at hs
      next hph =>
        cases hs
        exact inv_commit h hq hph
      next => cases hs
    next => cases hs
  | lock r =>
    simp only [step] at hs
    split at hs
    next q hq =>
      split at hs
      next out hph =>
        split at hs
        next hfree =>
          cases hs
          exact inv_lock h hq hph hfree
        next => cases hs
      next => cases hs
    next => cases hs
  | writeHdr r =>
    simp only [step] at hs
    split at hs
    next q hq =>
      split at hs
      next out hph =>
        cases hs
        exact inv_writeHdr h hq hph
      next => cases hs
    next => cases hs
  | writeBody r =>
    simp only [step] at hs
    split at hs
    next q hq =>
      split at hs
      next out hph =>
        cases hs
        exact inv_writeBody h hq hph
      next => cases hs
    next => cases hs
  | recv c =>
    simp only [step] at hs
    split at hs
    next hcond =>
      split at hs
      next id id' out rest hst =>
        obtain ⟨_, hm, hinv⟩ := recv_front h hst
        split at hs
        next cl hcl =>
          split at hs
          next c' k hpc =>
            split at hs
            · cases hs
              refine inv_setPc hinv hcl (.got out) (by rw [hpc]; intro hx; cases hx) ?_ (by intro k' hx; cases hx)
              intro o ho
              cases ho
              exact hm
            · cases hs
              exact hinv
          next =>
            cases hs
            exact hinv
        next =>
          cases hs
          exact hinv
      next => cases hs
    next => cases hs
  | ret id =>
    simp only [step] at hs
    split at hs
    next c hc =>
      split at hs
      next out hpc =>
        cases hs
        exact inv_ret h hc hpc
      next => cases hs
    next => cases hs
  | retErr id =>
    simp only [step] at hs
    split at hs
    next c hc =>
      split at hs
      next hpc =>
        cases hs
        exact inv_setPc h hc .returned (by rw [hpc]; intro hx; cases hx)
          (by intro o hx; cases hx) (by intro k' hx; cases hx)
      next => cases hs
    next => cases hs
  | serverClose c =>
    simp only [step] at hs
    split at hs
    · cases hs
      exact inv_serverClose h c
    · cases hs
  | clientReset o => exact absurd hl (by simp [Label.noReset])
  | inputEOF c =>
    simp only [step] at hs
    split at hs
    · cases hs
      have hcl := h.N1 c
      simp only [hcl, Bool.false_eq_true, if_false, false_and]
      exact inv_failWaiting h c _ rfl hcl.symm rfl rfl
    · cases hs
  | inputErr c =>
    simp only [step] at hs
    split at hs
    next hcond =>
      have := h.N1 c
      rw [this] at hcond
      simp at hcond
    next => cases hs

theorem inv_reachable (hr : Reachable spec s0 Label.noReset s) : Inv spec s0 s := by
  induction hr with
  | init => exact inv_init spec s0
  | step _ hok hs ih => exact inv_step ih _ hok hs

/-- from the invariant: the history is well formed and the commit order is a linearization of it -/
theorem linearization_of_inv (h : Inv spec s0 s) : WellFormed s.hist ∧ Linearization spec s0 s.hist s.lin := by
  refine ⟨⟨?_, h.R2, h.RA⟩, ⟨h.L1, h.L2, h.C1, ?_, h.T1⟩⟩
  · rw [h.H0]
    exact List.nodup_range
  · rw [h.S1]

end C26
