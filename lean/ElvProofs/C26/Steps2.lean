/-
C26: every step of the daemon model other than `clientReset` preserves the
invariant `Inv` — part 2: the server-side steps, `recv`, `serverClose`,
`inputEOF`.
-/
import ElvProofs.C26.Steps
namespace C26
variable {σ Op Out : Type} {spec : σ → Op → σ × Out} {s0 : σ} {s : State σ Op Out}

/-! ### requests: one request changes its phase -/

theorem reqFields_setPhase (h : Inv spec s0 s) {r : Nat} {q : SReq Op Out} (hq : s.req r = some q)
    (ph' : Phase Out) (lin' : List (Nat × Op × Out)) (hsub : ∀ x ∈ s.lin, x ∈ lin')
    (h4 : ∀ o, ph'.out? = some o → (q.id, q.op, o) ∈ lin')
    (h5 : ∀ o, q.phase.out? = some o → ∃ o', ph'.out? = some o') :
    (∀ i, s.nReqs ≤ i → upd s.req r (some { q with phase := ph' }) i = none) ∧
    (∀ r' q', upd s.req r (some { q with phase := ph' }) r' = some q' → ∃ c, s.call q'.id = some c ∧ c.op = q'.op) ∧
    (∀ r1 r2 q1 q2, upd s.req r (some { q with phase := ph' }) r1 = some q1 →
      upd s.req r (some { q with phase := ph' }) r2 = some q2 → q1.id = q2.id → r1 = r2) ∧
    (∀ r' q' c k, upd s.req r (some { q with phase := ph' }) r' = some q' → s.call q'.id = some c → c.pc ≠ .ready k) ∧
    (∀ r' q' o, upd s.req r (some { q with phase := ph' }) r' = some q' → q'.phase.out? = some o →
      (q'.id, q'.op, o) ∈ lin') ∧
    (∀ x ∈ s.lin, ∃ r' q' o, upd s.req r (some { q with phase := ph' }) r' = some q' ∧ q'.id = x.1 ∧
      q'.phase.out? = some o) ∧
    (∀ r' q', upd s.req r (some { q with phase := ph' }) r' = some q' → q'.conn < s.nConns) := by
  refine ⟨?_, ?_, ?_, ?_, ?_, ?_, ?_⟩
  · intro i hi
    have hne : i ≠ r := by
      intro he
      subst he
      rw [h.bReq i hi] at hq
      cases hq
    rw [upd_ne _ _ hne]
    exact h.bReq i hi
  · intro r' q' hq'
    rcases upd_eq_some hq' with ⟨_, rfl⟩ | ⟨_, ho⟩
    · exact h.Q1 r q hq
    · exact h.Q1 r' q' ho
  · intro r1 r2 q1 q2 h1 h2 hid
    rcases upd_eq_some h1 with ⟨e1, rfl⟩ | ⟨_, o1⟩
    · rcases upd_eq_some h2 with ⟨e2, rfl⟩ | ⟨_, o2⟩
      · rw [e1, e2]
      · rw [e1]
        exact h.Q2 r r2 q q2 hq o2 hid
    · rcases upd_eq_some h2 with ⟨e2, rfl⟩ | ⟨_, o2⟩
      · rw [e2]
        exact h.Q2 r1 r q1 q o1 hq hid
      · exact h.Q2 r1 r2 q1 q2 o1 o2 hid
  · intro r' q' c k hq' hc
    rcases upd_eq_some hq' with ⟨_, rfl⟩ | ⟨_, ho⟩
    · exact h.Q3 r q c k hq hc
    · exact h.Q3 r' q' c k ho hc
  · intro r' q' o hq' hph
    rcases upd_eq_some hq' with ⟨_, rfl⟩ | ⟨_, ho⟩
    · exact h4 o hph
    · exact hsub _ (h.Q4 r' q' o ho hph)
  · intro x hx
    obtain ⟨r0, q0, o0, hq0, hid, hph⟩ := h.Q5 x hx
    by_cases hr : r0 = r
    · subst hr
      rw [hq] at hq0
      cases hq0
      obtain ⟨o', ho'⟩ := h5 o0 hph
      exact ⟨r0, _, o', upd_same _ _ _, hid, ho'⟩
    · exact ⟨r0, q0, o0, by rw [upd_ne _ _ hr]; exact hq0, hid, hph⟩
  · intro r' q' hq'
    rcases upd_eq_some hq' with ⟨_, rfl⟩ | ⟨_, ho⟩
    · exact h.Q6 r q hq
    · exact h.Q6 r' q' ho

/-- `M1` when no connection changes and the new phase holds no mutex claim that is not already justified -/
theorem M1_setPhase (h : Inv spec s0 s) {r : Nat} {q : SReq Op Out} (hq : s.req r = some q) (ph' : Phase Out)
    (hM : (∃ o, ph' = .locked o ∨ ph' = .hdrDone o) → (s.conn q.conn).sending = some r) :
    ∀ r' q', upd s.req r (some { q with phase := ph' }) r' = some q' →
      (∃ o, q'.phase = .locked o ∨ q'.phase = .hdrDone o) → (s.conn q'.conn).sending = some r' := by
  intro r' q' hq' hph
  rcases upd_eq_some hq' with ⟨e, rfl⟩ | ⟨_, ho⟩
  · rw [e]
    exact hM hph
  · exact h.M1 r' q' ho hph

theorem frames_setPhase_other (h : Inv spec s0 s) {r : Nat} {q : SReq Op Out} (hq : s.req r = some q)
    (s' : State σ Op Out) (ph' : Phase Out) (c : Nat)
    (hreq : s'.req = upd s.req r (some { q with phase := ph' }))
    (hconn : s'.conn c = s.conn c) (hlin : ∀ x ∈ s.lin, x ∈ s'.lin)
    (hph : (q.conn = c → ∀ o, ph' ≠ .hdrDone o ∧ q.phase ≠ .hdrDone o)) : FramesOK s' c := by
  refine framesOK_transfer s s' c (by rw [hconn]) (by rw [hconn]) hlin ?_ ?_ (h.F1 c)
  · intro r' q' out hq' hqc hp
    rw [hreq] at hq'
    rcases upd_eq_some hq' with ⟨_, rfl⟩ | ⟨_, ho⟩
    · exact absurd hp (hph hqc out).1
    · exact ho
  · intro r' q' out hq' hqc hp hsd
    have hne : r' ≠ r := by
      intro he
      subst he
      rw [hq] at hq'
      cases hq'
      exact (hph hqc out).2 hp
    exact ⟨by rw [hreq, upd_ne _ _ hne]; exact hq', by rw [hconn]; exact hsd⟩

/-! ### read -/

theorem inv_read (h : Inv spec s0 s) {r : Nat} {q : SReq Op Out} (hq : s.req r = some q) (hph : q.phase = .inbox) :
    Inv spec s0 (setPhase s r q .handling) :=
  have hrf := reqFields_setPhase h hq .handling s.lin (fun _ hx => hx) (by intro o ho; cases ho)
    (by intro o ho; rw [hph] at ho; cases ho)
  { h with
    bReq := hrf.1
    Q1 := hrf.2.1
    Q2 := hrf.2.2.1
    Q3 := hrf.2.2.2.1
    Q4 := hrf.2.2.2.2.1
    Q5 := hrf.2.2.2.2.2.1
    Q6 := hrf.2.2.2.2.2.2
    M1 := M1_setPhase h hq .handling (by rintro ⟨o, ho | ho⟩ <;> cases ho)
    F1 := by
      intro c
      exact frames_setPhase_other h hq _ .handling c rfl rfl (fun _ hx => hx)
        (by intro _ o; exact ⟨(by intro hx; cases hx), (by rw [hph]; intro hx; cases hx)⟩) }

/-! ### commit -/

theorem inv_commit (h : Inv spec s0 s) {r : Nat} {q : SReq Op Out} (hq : s.req r = some q)
    (hph : q.phase = .handling) :
    Inv spec s0 { setPhase s r q (.committed (spec s.store q.op).2) with
                  store := (spec s.store q.op).1, lin := s.lin ++ [(q.id, q.op, (spec s.store q.op).2)] } :=
  have hrf := reqFields_setPhase h hq (.committed (spec s.store q.op).2) (s.lin ++ [(q.id, q.op, (spec s.store q.op).2)])
    (fun _ hx => List.mem_append_left _ hx)
    (by intro o ho; simp only [Phase.out?, Option.some.injEq] at ho; subst ho; simp)
    (by intro o ho; rw [hph] at ho; cases ho)
  have hnotin : q.id ∉ s.lin.map (·.1) := by
    intro hin
    obtain ⟨x, hx, hx1⟩ := List.mem_map.1 hin
    obtain ⟨r0, q0, o0, hq0, hid, hp0⟩ := h.Q5 x hx
    have : r0 = r := h.Q2 r0 r q0 q hq0 hq (by rw [hid, hx1])
    subst this
    rw [hq] at hq0
    cases hq0
    rw [hph] at hp0
    cases hp0
  { h with
    bReq := hrf.1
    Q1 := hrf.2.1
    Q2 := hrf.2.2.1
    Q3 := hrf.2.2.2.1
    Q4 := hrf.2.2.2.2.1
    Q5 := by
      intro x hx
      red
      rcases List.mem_append.1 hx with hx | hx
      · exact hrf.2.2.2.2.2.1 x hx
      · simp only [List.mem_singleton] at hx
        subst hx
        exact ⟨r, _, _, upd_same _ _ _, rfl, rfl⟩
    Q6 := hrf.2.2.2.2.2.2
    M1 := M1_setPhase h hq _ (by rintro ⟨o, ho | ho⟩ <;> cases ho)
    L1 := by
      show ((s.lin ++ [(q.id, q.op, (spec s.store q.op).2)]).map (·.1)).Nodup
      rw [List.map_append]
      refine List.nodup_append.2 ⟨h.L1, by simp, ?_⟩
      intro a ha b hb
      simp only [List.map_cons, List.map_nil, List.mem_singleton] at hb
      subst hb
      intro hab
      subst hab
      exact hnotin ha
    L2 := by
      intro x hx
      red
      rcases List.mem_append.1 hx with hx | hx
      · exact h.L2 x hx
      · simp only [List.mem_singleton] at hx
        subst hx
        obtain ⟨c, hc, hop⟩ := h.Q1 r q hq
        have := h.H1 q.id c hc
        rw [hop] at this
        exact this
    C1 := by
      intro id out hm
      obtain ⟨op, ho⟩ := h.C1 id out hm
      exact ⟨op, List.mem_append_left _ ho⟩
    G1 := by
      intro id c out hc hp
      obtain ⟨op, ho⟩ := h.G1 id c out hc hp
      exact ⟨op, List.mem_append_left _ ho⟩
    S1 := by
      show runSeq spec s0 ((s.lin ++ [(q.id, q.op, (spec s.store q.op).2)]).map (·.2.1)) =
        ((spec s.store q.op).1, (s.lin ++ [(q.id, q.op, (spec s.store q.op).2)]).map (·.2.2))
      rw [List.map_append, List.map_append, runSeq_append, h.S1]
      simp [runSeq]
    T1 := by
      intro a b hp l1 l2 hl
      red
      rw [List.map_append] at hl
      rcases append_single_eq_split _ _ l1 b l2 hl with ⟨_, _, hl1⟩ | ⟨l2', _, hl'⟩
      · obtain ⟨out, hm⟩ := precedes_res_mem s.hist a b hp
        obtain ⟨op, ho⟩ := h.C1 a out hm
        rw [hl1]
        exact List.mem_map.2 ⟨_, ho, rfl⟩
      · exact h.T1 a b hp l1 l2' hl'
    F1 := by
      intro c
      exact frames_setPhase_other h hq _ _ c rfl rfl (fun _ hx => List.mem_append_left _ hx)
        (by intro _ o; exact ⟨(by intro hx; cases hx), (by rw [hph]; intro hx; cases hx)⟩) }

/-! ### lock, writeHdr, writeBody -/

theorem inv_lock (h : Inv spec s0 s) {r : Nat} {q : SReq Op Out} {out : Out} (hq : s.req r = some q)
    (hph : q.phase = .committed out) (hfree : (s.conn q.conn).sending = none) :
    Inv spec s0 { setPhase s r q (.locked out) with
                  conn := upd s.conn q.conn { s.conn q.conn with sending := some r } } :=
  have hrf := reqFields_setPhase h hq (.locked out) s.lin (fun _ hx => hx)
    (by intro o ho; simp only [Phase.out?, Option.some.injEq] at ho; subst ho
        exact h.Q4 r q out hq (by rw [hph]; rfl))
    (by intro o _; exact ⟨out, rfl⟩)
  { h with
    bReq := hrf.1
    Q1 := hrf.2.1
    Q2 := hrf.2.2.1
    Q3 := hrf.2.2.2.1
    Q4 := hrf.2.2.2.2.1
    Q5 := hrf.2.2.2.2.2.1
    Q6 := hrf.2.2.2.2.2.2
    N1 := by
      intro c
      red
      by_cases hc : c = q.conn
      · subst hc
        simp only [upd_same]
        exact h.N1 _
      · rw [upd_ne _ _ hc]
        exact h.N1 c
    M1 := by
      intro r' q' hq' hp
      red
      rcases upd_eq_some hq' with ⟨e, rfl⟩ | ⟨hne, ho⟩
      · simp only [upd_same]
        rw [e]
      · by_cases hc : q'.conn = q.conn
        · have := h.M1 r' q' ho hp
          rw [hc, hfree] at this
          cases this
        · rw [upd_ne _ _ hc]
          exact h.M1 r' q' ho hp
    F1 := by
      intro c
      by_cases hc : c = q.conn
      · subst hc
        refine framesOK_transfer s _ q.conn ?_ ?_ (fun _ hx => hx) ?_ ?_ (h.F1 q.conn)
        · red
          simp only [upd_same]
        · red
          simp only [upd_same]
        · intro r' q' o hq' _ hp
          red
          rcases upd_eq_some hq' with ⟨_, rfl⟩ | ⟨_, ho⟩
          · cases hp
          · exact ho
        · intro r' q' o _ _ _ hsd
          rw [hfree] at hsd
          cases hsd
      · exact frames_setPhase_other h hq _ (.locked out) c rfl (by red; rw [upd_ne _ _ hc]) (fun _ hx => hx)
          (by intro hx; exact absurd hx.symm hc) }

theorem inv_writeHdr (h : Inv spec s0 s) {r : Nat} {q : SReq Op Out} {out : Out} (hq : s.req r = some q)
    (hph : q.phase = .locked out) :
    Inv spec s0 { setPhase s r q (.hdrDone out) with
                  conn := upd s.conn q.conn
                    (if (s.conn q.conn).srvClosed then s.conn q.conn
                     else { s.conn q.conn with stream := (s.conn q.conn).stream ++ [.hdr q.id] }) } :=
  have hrf := reqFields_setPhase h hq (.hdrDone out) s.lin (fun _ hx => hx)
    (by intro o ho; simp only [Phase.out?, Option.some.injEq] at ho; subst ho
        exact h.Q4 r q out hq (by rw [hph]; rfl))
    (by intro o _; exact ⟨out, rfl⟩)
  have hsend : (s.conn q.conn).sending = some r := h.M1 r q hq ⟨out, Or.inl hph⟩
  have hconn : ∀ c, ((upd s.conn q.conn
      (if (s.conn q.conn).srvClosed then s.conn q.conn
       else { s.conn q.conn with stream := (s.conn q.conn).stream ++ [.hdr q.id] })) c).sending = (s.conn c).sending ∧
      ((upd s.conn q.conn
      (if (s.conn q.conn).srvClosed then s.conn q.conn
       else { s.conn q.conn with stream := (s.conn q.conn).stream ++ [.hdr q.id] })) c).closing = (s.conn c).closing ∧
      ((upd s.conn q.conn
      (if (s.conn q.conn).srvClosed then s.conn q.conn
       else { s.conn q.conn with stream := (s.conn q.conn).stream ++ [.hdr q.id] })) c).srvClosed = (s.conn c).srvClosed := by
    intro c
    by_cases hc : c = q.conn
    · subst hc
      simp only [upd_same]
      split <;> simp
    · rw [upd_ne _ _ hc]
      simp
  { h with
    bReq := hrf.1
    Q1 := hrf.2.1
    Q2 := hrf.2.2.1
    Q3 := hrf.2.2.2.1
    Q4 := hrf.2.2.2.2.1
    Q5 := hrf.2.2.2.2.2.1
    Q6 := hrf.2.2.2.2.2.2
    N1 := by
      intro c
      red
      rw [(hconn c).2.1]
      exact h.N1 c
    M1 := by
      intro r' q' hq' hp
      red
      rw [(hconn _).1]
      rcases upd_eq_some hq' with ⟨e, rfl⟩ | ⟨_, ho⟩
      · rw [e]
        exact hsend
      · exact h.M1 r' q' ho hp
    F1 := by
      intro c
      by_cases hc : c = q.conn
      · subst hc
        obtain ⟨pairs, tail, hs, hp, h1, h2⟩ := h.F1 q.conn
        cases hcl : (s.conn q.conn).srvClosed with
        | true =>
          refine ⟨pairs, tail, ?_, hp, fun _ => h1 hcl, ?_⟩
          · red
            simp only [upd_same, hcl, if_true]
            exact hs
          · intro hx
            red
            simp only [upd_same, hcl, if_true] at hx
            cases hx
        | false =>
          have htail : tail = [] := by
            rcases h2 hcl with ⟨ht, _⟩ | ⟨r', q', o', _, hsd, hq', _, hp'⟩
            · exact ht
            · rw [hsend] at hsd
              cases hsd
              rw [hq] at hq'
              cases hq'
              rw [hph] at hp'
              cases hp'
          subst htail
          refine ⟨pairs, [.hdr q.id], ?_, hp, ?_, ?_⟩
          · red
            simp only [upd_same, hcl, Bool.false_eq_true, if_false]
            rw [hs]
            simp
          · intro hx
            red
            simp only [upd_same, hcl, Bool.false_eq_true, if_false] at hx
          · intro _
            red
            refine Or.inr ⟨r, { q with phase := .hdrDone out }, out, rfl, ?_, upd_same _ _ _, rfl, rfl⟩
            simp only [upd_same, hcl, Bool.false_eq_true, if_false]
            exact hsend
      · exact frames_setPhase_other h hq _ (.hdrDone out) c rfl (by red; rw [upd_ne _ _ hc]) (fun _ hx => hx)
          (by intro hx; exact absurd hx.symm hc) }

theorem inv_writeBody (h : Inv spec s0 s) {r : Nat} {q : SReq Op Out} {out : Out} (hq : s.req r = some q)
    (hph : q.phase = .hdrDone out) :
    Inv spec s0 { setPhase s r q (.finished out) with
                  conn := upd s.conn q.conn
                    (if (s.conn q.conn).srvClosed then { s.conn q.conn with sending := none }
                     else { s.conn q.conn with stream := (s.conn q.conn).stream ++ [.body q.id out], sending := none }) } :=
  have hrf := reqFields_setPhase h hq (.finished out) s.lin (fun _ hx => hx)
    (by intro o ho; simp only [Phase.out?, Option.some.injEq] at ho; subst ho
        exact h.Q4 r q out hq (by rw [hph]; rfl))
    (by intro o _; exact ⟨out, rfl⟩)
  have hsend : (s.conn q.conn).sending = some r := h.M1 r q hq ⟨out, Or.inr hph⟩
  have hlinq : (q.id, q.op, out) ∈ s.lin := h.Q4 r q out hq (by rw [hph]; rfl)
  { h with
    bReq := hrf.1
    Q1 := hrf.2.1
    Q2 := hrf.2.2.1
    Q3 := hrf.2.2.2.1
    Q4 := hrf.2.2.2.2.1
    Q5 := hrf.2.2.2.2.2.1
    Q6 := hrf.2.2.2.2.2.2
    N1 := by
      intro c
      red
      by_cases hc : c = q.conn
      · subst hc
        simp only [upd_same]
        split <;> exact h.N1 _
      · rw [upd_ne _ _ hc]
        exact h.N1 c
    M1 := by
      intro r' q' hq' hp
      red
      rcases upd_eq_some hq' with ⟨_, rfl⟩ | ⟨hne, ho⟩
      · obtain ⟨o, ho | ho⟩ := hp <;> cases ho
      · by_cases hc : q'.conn = q.conn
        · have := h.M1 r' q' ho hp
          rw [hc, hsend] at this
          cases this
          exact absurd rfl hne
        · rw [upd_ne _ _ hc]
          exact h.M1 r' q' ho hp
    F1 := by
      intro c
      by_cases hc : c = q.conn
      · subst hc
        obtain ⟨pairs, tail, hs, hp, h1, h2⟩ := h.F1 q.conn
        cases hcl : (s.conn q.conn).srvClosed with
        | true =>
          refine ⟨pairs, tail, ?_, hp, fun _ => h1 hcl, ?_⟩
          · red
            simp only [upd_same, hcl, if_true]
            exact hs
          · intro hx
            red
            simp only [upd_same, hcl, if_true] at hx
            cases hx
        | false =>
          have htail : tail = [.hdr q.id] := by
            rcases h2 hcl with ⟨_, hn⟩ | ⟨r', q', o', ht, hsd, hq', _, _⟩
            · exact absurd hph (hn r q out hq rfl)
            · rw [hsend] at hsd
              cases hsd
              rw [hq] at hq'
              cases hq'
              exact ht
          subst htail
          refine ⟨pairs ++ [.hdr q.id, .body q.id out], [], ?_, ?_, fun _ => Or.inl rfl, ?_⟩
          · red
            simp only [upd_same, hcl, Bool.false_eq_true, if_false]
            rw [hs]
            simp
          · exact Pairs.append hp (.cons q.id out [] ⟨q.op, hlinq⟩ .nil)
          · intro _
            refine Or.inl ⟨rfl, ?_⟩
            intro r' q' o' hq' hqc hp'
            red
            rcases upd_eq_some hq' with ⟨_, rfl⟩ | ⟨hne, ho⟩
            · cases hp'
            · have := h.M1 r' q' ho ⟨o', Or.inr hp'⟩
              rw [hqc, hsend] at this
              cases this
              exact absurd rfl hne
      · exact frames_setPhase_other h hq _ (.finished out) c rfl (by red; rw [upd_ne _ _ hc]) (fun _ hx => hx)
          (by intro hx; exact absurd hx.symm hc) }

/-! ### connection-only changes: recv (stream), serverClose, shutdown flag -/

/-- a change of connection `c` that keeps `sending`, `closing`; new stream and flags given -/
theorem inv_conn (h : Inv spec s0 s) (c : Nat) (cn' : Conn Out)
    (hsend : cn'.sending = (s.conn c).sending) (hclosing : cn'.closing = (s.conn c).closing)
    (hF : FramesOK { s with conn := upd s.conn c cn' } c) :
    Inv spec s0 { s with conn := upd s.conn c cn' } :=
  { h with
    N1 := by
      intro c'
      red
      by_cases hc : c' = c
      · subst hc
        simp only [upd_same]
        rw [hclosing]
        exact h.N1 _
      · rw [upd_ne _ _ hc]
        exact h.N1 c'
    M1 := by
      intro r q hq hp
      red
      by_cases hc : q.conn = c
      · rw [hc]
        simp only [upd_same]
        rw [hsend, ← hc]
        exact h.M1 r q hq hp
      · rw [upd_ne _ _ hc]
        exact h.M1 r q hq hp
    F1 := by
      intro c'
      by_cases hc : c' = c
      · subst hc
        exact hF
      · refine framesOK_transfer s _ c' ?_ ?_ (fun _ hx => hx) (fun _ _ _ hq _ _ => hq) ?_ (h.F1 c')
        · red
          rw [upd_ne _ _ hc]
        · red
          rw [upd_ne _ _ hc]
        · intro r q o hq _ _ hsd
          refine ⟨hq, ?_⟩
          red
          rw [upd_ne _ _ hc]
          exact hsd }

/-- what `recv` finds at the front of a stream is one complete response of a committed request -/
theorem recv_front (h : Inv spec s0 s) {c id id' : Nat} {out : Out} {rest : List (Frame Out)}
    (hst : (s.conn c).stream = .hdr id :: .body id' out :: rest) :
    id' = id ∧ (∃ op, (id, op, out) ∈ s.lin) ∧
      Inv spec s0 { s with conn := upd s.conn c { s.conn c with stream := rest } } := by
  obtain ⟨pairs, tail, hs, hp, h1, h2⟩ := h.F1 c
  have htail : tail = [] ∨ ∃ i, tail = [.hdr i] := by
    cases hcl : (s.conn c).srvClosed with
    | true => exact h1 hcl
    | false =>
      rcases h2 hcl with ⟨ht, _⟩ | ⟨_, q', _, ht, _⟩
      · exact Or.inl ht
      · exact Or.inr ⟨q'.id, ht⟩
  cases hp with
  | nil =>
    rw [hst] at hs
    rcases htail with rfl | ⟨i, rfl⟩ <;> simp at hs
  | cons id0 out0 rest0 hm hr =>
    rw [hst] at hs
    simp only [List.cons_append, List.cons.injEq, Frame.hdr.injEq, Frame.body.injEq] at hs
    obtain ⟨rfl, ⟨rfl, rfl⟩, rfl⟩ := hs
    refine ⟨rfl, hm, inv_conn h c _ rfl rfl ?_⟩
    refine ⟨rest0, tail, ?_, hr, ?_, ?_⟩
    · red
      simp only [upd_same]
    · intro hx
      red
      simp only [upd_same] at hx
      exact h1 hx
    · intro hx
      red
      simp only [upd_same] at hx ⊢
      exact h2 hx

theorem inv_serverClose (h : Inv spec s0 s) (c : Nat) :
    Inv spec s0 { s with conn := upd s.conn c { s.conn c with srvClosed := true } } := by
  refine inv_conn h c _ rfl rfl ?_
  obtain ⟨pairs, tail, hs, hp, h1, h2⟩ := h.F1 c
  have htail : tail = [] ∨ ∃ i, tail = [.hdr i] := by
    cases hcl : (s.conn c).srvClosed with
    | true => exact h1 hcl
    | false =>
      rcases h2 hcl with ⟨ht, _⟩ | ⟨_, q', _, ht, _⟩
      · exact Or.inl ht
      · exact Or.inr ⟨q'.id, ht⟩
  refine ⟨pairs, tail, ?_, hp, fun _ => htail, ?_⟩
  · red
    simp only [upd_same]
    exact hs
  · intro hx
    red
    simp only [upd_same] at hx
    cases hx

/-! ### inputEOF without `closing`: the pending calls of the connection fail -/

theorem failWaiting_some {call : Nat → Option (Call Op Out)} {c i : Nat} {cl' : Call Op Out}
    (hf : failWaiting call c (fun _ => .failed) i = some cl') :
    ∃ cl, call i = some cl ∧ cl'.op = cl.op ∧ (cl'.pc = cl.pc ∨ ((∃ k, cl.pc = .waiting c k) ∧ cl'.pc = .failed)) := by
  simp only [failWaiting] at hf
  cases hc : call i with
  | none => simp [hc] at hf
  | some cl =>
    simp only [hc] at hf
    refine ⟨cl, rfl, ?_⟩
    cases hp : cl.pc with
    | waiting c' k =>
      simp only [hp] at hf
      by_cases hcc : c' = c
      · simp only [hcc, if_true, Option.some.injEq] at hf
        subst hf
        exact ⟨rfl, Or.inr ⟨⟨k, by rw [hcc]⟩, rfl⟩⟩
      · simp only [hcc, if_false, Option.some.injEq] at hf
        subst hf
        exact ⟨rfl, Or.inl hp⟩
    | ready k => simp only [hp, Option.some.injEq] at hf; subst hf; exact ⟨rfl, Or.inl hp⟩
    | got o => simp only [hp, Option.some.injEq] at hf; subst hf; exact ⟨rfl, Or.inl hp⟩
    | failed => simp only [hp, Option.some.injEq] at hf; subst hf; exact ⟨rfl, Or.inl hp⟩
    | returned => simp only [hp, Option.some.injEq] at hf; subst hf; exact ⟨rfl, Or.inl hp⟩

theorem failWaiting_of_some {call : Nat → Option (Call Op Out)} {c i : Nat} {cl : Call Op Out}
    (hc : call i = some cl) :
    ∃ cl', failWaiting call c (fun _ => .failed) i = some cl' ∧ cl'.op = cl.op ∧
      (cl'.pc = cl.pc ∨ ((∃ k, cl.pc = .waiting c k) ∧ cl'.pc = .failed)) := by
  cases hf : failWaiting call c (fun _ => CallPc.failed) i with
  | none =>
    simp only [failWaiting, hc] at hf
    split at hf
    · split at hf <;> cases hf
    · cases hf
  | some cl' =>
    obtain ⟨cl0, h0, h1, h2⟩ := failWaiting_some hf
    rw [hc] at h0
    cases h0
    exact ⟨cl', rfl, h1, h2⟩

theorem inv_failWaiting (h : Inv spec s0 s) (c : Nat) (cn' : Conn Out)
    (hsend : cn'.sending = (s.conn c).sending) (hclosing : cn'.closing = (s.conn c).closing)
    (hstream : cn'.stream = (s.conn c).stream) (hclosed : cn'.srvClosed = (s.conn c).srvClosed) :
    Inv spec s0 { s with conn := upd s.conn c cn',
                         call := failWaiting s.call c (fun _ => .failed) } :=
  have hb : Inv spec s0 { s with conn := upd s.conn c cn' } := by
    refine inv_conn h c _ hsend hclosing ?_
    obtain ⟨pairs, tail, hs, hp, h1, h2⟩ := h.F1 c
    refine ⟨pairs, tail, ?_, hp, ?_, ?_⟩
    · red
      simp only [upd_same]
      rw [hstream]
      exact hs
    · intro hx
      red
      simp only [upd_same] at hx
      rw [hclosed] at hx
      exact h1 hx
    · intro hx
      red
      simp only [upd_same] at hx ⊢
      rw [hclosed] at hx
      rw [hsend]
      exact h2 hx
  { hb with
    bCall := by
      intro i hi
      red
      simp only [failWaiting, h.bCall i hi]
    H1 := by
      intro id cl' hc'
      red
      obtain ⟨cl, hc, hop, _⟩ := failWaiting_some hc'
      rw [hop]
      exact h.H1 id cl hc
    R1 := by
      intro id hid
      red
      obtain ⟨cl, hc, hp⟩ := h.R1 id hid
      obtain ⟨cl', hc', _, hpc⟩ := failWaiting_of_some (c := c) hc
      refine ⟨cl', hc', ?_⟩
      rcases hpc with hpc | ⟨⟨k, hk⟩, _⟩
      · rw [hpc, hp]
      · rw [hp] at hk
        cases hk
    G1 := by
      intro id cl' out hc' hp
      red
      obtain ⟨cl, hc, _, hpc⟩ := failWaiting_some hc'
      rcases hpc with hpc | ⟨_, hf⟩
      · exact h.G1 id cl out hc (by rw [← hpc]; exact hp)
      · rw [hf] at hp
        cases hp
    Q1 := by
      intro r q hq
      red
      obtain ⟨cl, hc, hop⟩ := h.Q1 r q hq
      obtain ⟨cl', hc', hop', _⟩ := failWaiting_of_some (c := c) hc
      exact ⟨cl', hc', by rw [hop', hop]⟩
    Q3 := by
      intro r q cl' k hq hc' hp
      red
      obtain ⟨cl, hc, _, hpc⟩ := failWaiting_some hc'
      rcases hpc with hpc | ⟨_, hf⟩
      · exact h.Q3 r q cl k hq hc (by rw [← hpc]; exact hp)
      · rw [hf] at hp
        cases hp
    F1 := by
      intro c'
      exact framesOK_transfer _ _ c' rfl rfl (fun _ hx => hx) (fun _ _ _ hq _ _ => hq)
        (fun _ _ _ hq _ _ hsd => ⟨hq, hsd⟩) (hb.F1 c') }

end C26
