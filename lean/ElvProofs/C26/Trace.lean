import ElvModel.C26.Trace
/-!
C26 helper (round 2): the trace acceptor only ever takes steps of the LTS.
-/
namespace C26
variable {σ Op Out : Type}

theorem reqLabel_noReset {a : AState σ Op Out} {c seq : Nat} {mk : Nat → Label Op} {l : Label Op}
    (hmk : ∀ r, (mk r).noReset) (h : reqLabel a c seq mk = .ok l) : l.noReset := by
  unfold reqLabel at h
  split at h
  · cases h
  · split at h
    · split at h
      · cases h; exact hmk _
      · cases h
    · cases h

variable [DecidableEq Op] [DecidableEq Out]

/-- The acceptor never interprets an entry as `clientReset`. -/
theorem label_noReset {a : AState σ Op Out} {e : Entry Op Out} {l : Label Op}
    (h : e.label a = .ok l) : l.noReset := by
  cases e with
  | newClient o => simp only [Entry.label] at h; split at h <;> cases h; trivial
  | invoke id o op => simp only [Entry.label] at h; split at h <;> cases h; trivial
  | dial id c => simp only [Entry.label] at h; split at h <;> cases h; trivial
  | send id c seq =>
    simp only [Entry.label] at h
    split at h
    · split at h
      · split at h <;> cases h; trivial
      · cases h
    · cases h
  | sendShutdown id => cases h; trivial
  | giveUp id => cases h; trivial
  | read c seq op =>
    simp only [Entry.label] at h
    split at h
    · cases h
    · split at h
      · split at h <;> cases h; trivial
      · cases h
  | commit c seq out => exact reqLabel_noReset (mk := .commit) (fun _ => trivial) h
  | lock c seq => exact reqLabel_noReset (mk := .lock) (fun _ => trivial) h
  | writeHdr c seq => exact reqLabel_noReset (mk := .writeHdr) (fun _ => trivial) h
  | writeBody c seq => exact reqLabel_noReset (mk := .writeBody) (fun _ => trivial) h
  | recv c seq =>
    simp only [Entry.label] at h
    split at h
    · split at h
      · split at h <;> cases h; trivial
      · cases h
    · cases h
  | ret id out =>
    simp only [Entry.label] at h
    split at h
    · split at h <;> cases h; trivial
    · cases h
  | retErr id => cases h; trivial
  | serverClose c => cases h; trivial
  | inputEOF c => cases h; trivial
  | inputErr c => cases h; trivial

/-- One accepted entry is one enabled step of the model, with a label other than `clientReset`. -/
theorem accept1_step {spec : σ → Op → σ × Out} {a a' : AState σ Op Out} {e : Entry Op Out}
    (h : accept1 spec a e = .ok a') : ∃ l : Label Op, l.noReset ∧ step spec a.s l = some a'.s := by
  unfold accept1 at h
  split at h
  · cases h
  · rename_i l hl
    split at h
    · cases h
    · rename_i s' hs
      split at h
      · cases h
      · cases h
        exact ⟨l, label_noReset hl, hs⟩

theorem acceptFrom_reachable {spec : σ → Op → σ × Out} {s0 : σ} :
    ∀ (es : List (Entry Op Out)) (a a' : AState σ Op Out) (i : Nat),
      Reachable spec s0 Label.noReset a.s → acceptFrom spec a i es = .ok a' →
      Reachable spec s0 Label.noReset a'.s
  | [], a, a', i, hr, h => by simp only [acceptFrom] at h; cases h; exact hr
  | e :: es, a, a', i, hr, h => by
    simp only [acceptFrom] at h
    split at h
    · cases h
    · rename_i a1 h1
      obtain ⟨l, hl, hs⟩ := accept1_step h1
      exact acceptFrom_reachable es a1 a' (i + 1) (.step hr hl hs) h

end C26
