/-
C26: consequences of linearizability with respect to the store of C24 —
sequence numbers returned by AddCmd calls of a linearizable history are
pairwise different (C24_seq_strictly_increasing_never_reused transported
through the witness; directory operations interleave freely, they do not
touch the command bucket).
-/
import ElvModel.C26.Store
import ElvModel.C26.Linearizable
import ElvProofs.C24
namespace C26
open Go C24

/-- the command-history operations of a mixed sequence -/
def cmdOps : List Op → List C24.Op
  | [] => []
  | .cmd o :: r => o :: cmdOps r
  | _ :: r => cmdOps r

/-- the replies to command-history operations -/
def cmdOuts : List Out → List C24.Out
  | [] => []
  | .cmd o :: r => o :: cmdOuts r
  | _ :: r => cmdOuts r

/-- the numbers returned by successful AddCmd calls, in order -/
def issuedSeqs : List Out → List Int
  | [] => []
  | .cmd (.seq (.ok n)) :: r => n :: issuedSeqs r
  | _ :: r => issuedSeqs r

theorem issuedSeqs_eq : ∀ (l : List Out), issuedSeqs l = Spec.issued (cmdOuts l)
  | [] => rfl
  | .cmd (.seq (.ok n)) :: r => by simp [issuedSeqs, cmdOuts, Spec.issued, issuedSeqs_eq r]
  | .cmd (.seq (.exc e)) :: r => by simp [issuedSeqs, cmdOuts, Spec.issued, issuedSeqs_eq r]
  | .cmd (.seq (.panic e)) :: r => by simp [issuedSeqs, cmdOuts, Spec.issued, issuedSeqs_eq r]
  | .cmd .unit :: r => by simp [issuedSeqs, cmdOuts, Spec.issued, issuedSeqs_eq r]
  | .cmd (.text t) :: r => by simp [issuedSeqs, cmdOuts, Spec.issued, issuedSeqs_eq r]
  | .cmd (.cmds t) :: r => by simp [issuedSeqs, cmdOuts, Spec.issued, issuedSeqs_eq r]
  | .cmd (.cmd t) :: r => by simp [issuedSeqs, cmdOuts, Spec.issued, issuedSeqs_eq r]
  | .cmd (.nseq t) :: r => by simp [issuedSeqs, cmdOuts, Spec.issued, issuedSeqs_eq r]
  | .err e :: r => by simp [issuedSeqs, cmdOuts, issuedSeqs_eq r]
  | .dirs e :: r => by simp [issuedSeqs, cmdOuts, issuedSeqs_eq r]

theorem issuedSeqs_append : ∀ (l1 l2 : List Out), issuedSeqs (l1 ++ l2) = issuedSeqs l1 ++ issuedSeqs l2
  | [], l2 => rfl
  | .cmd (.seq (.ok n)) :: r, l2 => by simp [issuedSeqs, issuedSeqs_append r l2]
  | .cmd (.seq (.exc e)) :: r, l2 => by simp [issuedSeqs, issuedSeqs_append r l2]
  | .cmd (.seq (.panic e)) :: r, l2 => by simp [issuedSeqs, issuedSeqs_append r l2]
  | .cmd .unit :: r, l2 => by simp [issuedSeqs, issuedSeqs_append r l2]
  | .cmd (.text t) :: r, l2 => by simp [issuedSeqs, issuedSeqs_append r l2]
  | .cmd (.cmds t) :: r, l2 => by simp [issuedSeqs, issuedSeqs_append r l2]
  | .cmd (.cmd t) :: r, l2 => by simp [issuedSeqs, issuedSeqs_append r l2]
  | .cmd (.nseq t) :: r, l2 => by simp [issuedSeqs, issuedSeqs_append r l2]
  | .err e :: r, l2 => by simp [issuedSeqs, issuedSeqs_append r l2]
  | .dirs e :: r, l2 => by simp [issuedSeqs, issuedSeqs_append r l2]

/-- a command-history operation reads and writes the command bucket only -/
theorem step_cmd_only (c d d' : Bucket) (o : C24.Op) :
    (C24.step ⟨c, d⟩ o).1.cmd = (C24.step ⟨c, d'⟩ o).1.cmd ∧ (C24.step ⟨c, d⟩ o).2 = (C24.step ⟨c, d'⟩ o).2 ∧
    (C24.step ⟨c, d⟩ o).1.dir = d := by
  cases o with
  | add t =>
    simp only [C24.step, addCmd]
    cases (c.nextSequence.1.put (marshalSeq c.nextSequence.2) t) <;> simp
  | del n => simp [C24.step, delCmd]
  | get n => simp [C24.step, C24.cmd]
  | list f u => simp [C24.step, cmdsWithSeq]
  | next f p => simp [C24.step, nextCmd]
  | prev u p => simp [C24.step, prevCmd]
  | nseq => simp [C24.step, nextCmdSeq]

/-- a directory operation leaves the command bucket alone -/
theorem seqStep_dir_cmd (s : Store) (op : Op) (hne : ∀ o, op ≠ .cmd o) : (seqStep s op).1.cmd = s.cmd := by
  cases op with
  | cmd o => exact absurd rfl (hne o)
  | addDir d f =>
    simp only [seqStep, addDir]
    split <;> rfl
  | delDir d => rfl
  | dirs bl => rfl

/-- the replies to the command-history operations of a mixed run are those of
the run of these operations alone (from the same command bucket) -/
theorem run_cmd_projection : ∀ (ops : List Op) (s : Store) (d : Bucket),
    cmdOuts (runSeq seqStep s ops).2 = (C24.run ⟨s.cmd, d⟩ (cmdOps ops)).2
  | [], _, _ => rfl
  | .cmd o :: r, s, d => by
    simp only [runSeq, seqStep, cmdOuts, cmdOps, C24.run]
    have h := step_cmd_only s.cmd s.dir d o
    have hs : (⟨s.cmd, s.dir⟩ : Store) = s := by cases s; rfl
    rw [hs] at h
    have ih := run_cmd_projection r (C24.step s o).1 d
    rw [ih, h.1, h.2.1]
    have h2 := (step_cmd_only s.cmd d d o).2.2
    have : (C24.step ⟨s.cmd, d⟩ o).1 = ⟨(C24.step ⟨s.cmd, d⟩ o).1.cmd, d⟩ := by
      cases hx : (C24.step ⟨s.cmd, d⟩ o).1 with
      | mk c' d'' =>
        rw [hx] at h2
        simp only at h2
        rw [h2]
    rw [← this]
  | .addDir p f :: r, s, d => by
    simp only [runSeq, cmdOps]
    have : (seqStep s (.addDir p f)).2 = .err (C24.addDir C24.ratOps s p (F64.ofBits f)).2 := rfl
    rw [this]
    simp only [cmdOuts]
    rw [run_cmd_projection r _ d, seqStep_dir_cmd s _ (by intro o h; cases h)]
  | .delDir p :: r, s, d => by
    simp only [runSeq, cmdOps]
    have : (seqStep s (.delDir p)).2 = .err none := rfl
    rw [this]
    simp only [cmdOuts]
    rw [run_cmd_projection r _ d, seqStep_dir_cmd s _ (by intro o h; cases h)]
  | .dirs bl :: r, s, d => by
    simp only [runSeq, cmdOps]
    have : (seqStep s (.dirs bl)).2 = .dirs (C24.dirs C24.ratOps s bl) := rfl
    rw [this]
    simp only [cmdOuts]
    rw [run_cmd_projection r _ d, seqStep_dir_cmd s _ (by intro o h; cases h)]

theorem cmdOps_length_le : ∀ (ops : List Op), (cmdOps ops).length ≤ ops.length
  | [] => Nat.le_refl _
  | .cmd o :: r => by simp only [cmdOps, List.length_cons]; have := cmdOps_length_le r; omega
  | .addDir p f :: r => by simp only [cmdOps, List.length_cons]; have := cmdOps_length_le r; omega
  | .delDir p :: r => by simp only [cmdOps, List.length_cons]; have := cmdOps_length_le r; omega
  | .dirs bl :: r => by simp only [cmdOps, List.length_cons]; have := cmdOps_length_le r; omega

/-- the AddCmd numbers of any sequential run from a fresh store strictly increase -/
theorem issued_increasing (ops : List Op) (hlen : ops.length + 1 < two63) :
    (issuedSeqs (runSeq seqStep Store.fresh ops).2).Pairwise (· < ·) := by
  rw [issuedSeqs_eq, run_cmd_projection ops Store.fresh Bucket.empty]
  have hfresh : (⟨Store.fresh.cmd, Bucket.empty⟩ : Store) = S Spec.Log.empty Bucket.empty := rfl
  rw [hfresh]
  have hl := cmdOps_length_le ops
  exact (C24_seq_strictly_increasing_never_reused (cmdOps ops) Spec.Log.empty Bucket.empty Log.WF_empty
    (by simp only [Spec.Log.empty]; omega)).1

/-- two different members of a list occur one after the other -/
theorem split_two {α : Type} {l : List α} {x y : α} (hx : x ∈ l) (hy : y ∈ l) (hne : x ≠ y) :
    (∃ l1 l2 l3, l = l1 ++ x :: (l2 ++ y :: l3)) ∨ (∃ l1 l2 l3, l = l1 ++ y :: (l2 ++ x :: l3)) := by
  obtain ⟨l1, l2, rfl⟩ := List.append_of_mem hx
  rcases List.mem_append.1 hy with h | h
  · obtain ⟨a, b, rfl⟩ := List.append_of_mem h
    exact Or.inr ⟨a, b, l2, by simp⟩
  · rcases List.mem_cons.1 h with h | h
    · exact absurd h.symm hne
    · obtain ⟨a, b, rfl⟩ := List.append_of_mem h
      exact Or.inl ⟨l1, a, b, rfl⟩

theorem lt_of_issued_split (l1 l2 l3 : List Out) (n m : Int)
    (hp : (issuedSeqs (l1 ++ Out.cmd (.seq (.ok n)) :: (l2 ++ Out.cmd (.seq (.ok m)) :: l3))).Pairwise (· < ·)) :
    n < m := by
  rw [issuedSeqs_append] at hp
  have hp2 := (List.pairwise_append.1 hp).2.1
  simp only [issuedSeqs] at hp2
  rw [issuedSeqs_append] at hp2
  have := (List.pairwise_cons.1 hp2).1 m (by simp [issuedSeqs])
  exact this

end C26
