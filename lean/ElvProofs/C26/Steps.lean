/-
C26: every step of the daemon model other than `clientReset` preserves the
invariant `Inv` — part 1: generic transfer lemmas and the client-side steps.
-/
import ElvProofs.C26.Inv
namespace C26
variable {σ Op Out : Type} {spec : σ → Op → σ × Out} {s0 : σ} {s : State σ Op Out}

/-- reduce projections of the explicit post-states -/
macro "red" : tactic => `(tactic| try dsimp only [setPc, setPhase] at *)

theorem upd_eq_some {α : Type} {f : Nat → Option α} {i j : Nat} {v x : α}
    (h : upd f i (some v) j = some x) : (j = i ∧ x = v) ∨ (j ≠ i ∧ f j = some x) := by
  by_cases hji : j = i
  · subst hji
    simp only [upd_same, Option.some.injEq] at h
    exact Or.inl ⟨rfl, h.symm⟩
  · rw [upd_ne _ _ hji] at h
    exact Or.inr ⟨hji, h⟩

/-! ### calls: one call changes its program counter -/

theorem callFields_setPc (h : Inv spec s0 s) {id : Nat} {c : Call Op Out} (hc : s.call id = some c)
    (pc' : CallPc Out) (hret : c.pc ≠ .returned)
    (hgot : ∀ out, pc' = .got out → ∃ op, (id, op, out) ∈ s.lin)
    (hready : ∀ k, pc' = .ready k → ∃ k0, c.pc = .ready k0) :
    (∀ i, s.nCalls ≤ i → upd s.call id (some { c with pc := pc' }) i = none) ∧
    (∀ i c', upd s.call id (some { c with pc := pc' }) i = some c' → Event.inv i c'.op ∈ s.hist) ∧
    (∀ i, i ∈ resIds s.hist → ∃ c', upd s.call id (some { c with pc := pc' }) i = some c' ∧ c'.pc = .returned) ∧
    (∀ i c' out, upd s.call id (some { c with pc := pc' }) i = some c' → c'.pc = .got out →
      ∃ op, (i, op, out) ∈ s.lin) ∧
    (∀ r q, s.req r = some q → ∃ c', upd s.call id (some { c with pc := pc' }) q.id = some c' ∧ c'.op = q.op) ∧
    (∀ r q c' k, s.req r = some q → upd s.call id (some { c with pc := pc' }) q.id = some c' → c'.pc ≠ .ready k) := by
  refine ⟨?_, ?_, ?_, ?_, ?_, ?_⟩
  · intro i hi
    have hne : i ≠ id := by
      intro he
      subst he
      rw [h.bCall i hi] at hc
      cases hc
    rw [upd_ne _ _ hne]
    exact h.bCall i hi
  · intro i c' hc'
    rcases upd_eq_some hc' with ⟨rfl, rfl⟩ | ⟨_, ho⟩
    · exact h.H1 i c hc
    · exact h.H1 i c' ho
  · intro i hi
    obtain ⟨c0, hc0, hp0⟩ := h.R1 i hi
    by_cases hne : i = id
    · subst hne
      rw [hc] at hc0
      cases hc0
      exact absurd hp0 hret
    · exact ⟨c0, by rw [upd_ne _ _ hne]; exact hc0, hp0⟩
  · intro i c' out hc' hp
    rcases upd_eq_some hc' with ⟨rfl, rfl⟩ | ⟨_, ho⟩
    · exact hgot out hp
    · exact h.G1 i c' out ho hp
  · intro r q hq
    obtain ⟨c0, hc0, hop⟩ := h.Q1 r q hq
    by_cases hne : q.id = id
    · rw [hne] at hc0 ⊢
      rw [hc] at hc0
      cases hc0
      exact ⟨_, upd_same _ _ _, hop⟩
    · exact ⟨c0, by rw [upd_ne _ _ hne]; exact hc0, hop⟩
  · intro r q c' k hq hc' hp
    rcases upd_eq_some hc' with ⟨hid, rfl⟩ | ⟨_, ho⟩
    · obtain ⟨k0, hk0⟩ := hready k hp
      exact h.Q3 r q c k0 hq (by rw [hid]; exact hc) hk0
    · exact h.Q3 r q c' k hq ho hp

/-! ### response streams: transfer between states -/

theorem framesOK_transfer (s s' : State σ Op Out) (c : Nat)
    (hstream : (s'.conn c).stream = (s.conn c).stream)
    (hclosed : (s'.conn c).srvClosed = (s.conn c).srvClosed)
    (hlin : ∀ x ∈ s.lin, x ∈ s'.lin)
    (hnew : ∀ r q out, s'.req r = some q → q.conn = c → q.phase = .hdrDone out → s.req r = some q)
    (hold : ∀ r q out, s.req r = some q → q.conn = c → q.phase = .hdrDone out → (s.conn c).sending = some r →
      s'.req r = some q ∧ (s'.conn c).sending = some r)
    (hf : FramesOK s c) : FramesOK s' c := by
  obtain ⟨pairs, tail, hs, hp, h1, h2⟩ := hf
  refine ⟨pairs, tail, by rw [hstream]; exact hs, Pairs.mono hlin hp, ?_, ?_⟩
  · intro hc
    exact h1 (by rw [← hclosed]; exact hc)
  · intro hc
    rcases h2 (by rw [← hclosed]; exact hc) with ⟨ht, hn⟩ | ⟨r, q, out, ht, hsd, hq, hqc, hph⟩
    · refine Or.inl ⟨ht, ?_⟩
      intro r q out hq hqc hph
      exact hn r q out (hnew r q out hq hqc hph) hqc hph
    · obtain ⟨hq', hsd'⟩ := hold r q out hq hqc hph hsd
      exact Or.inr ⟨r, q, out, ht, hsd', hq', hqc, hph⟩

/-! ### newClient, invoke, dial -/

theorem inv_newClient (h : Inv spec s0 s) :
    Inv spec s0 { s with nObjs := s.nObjs + 1, obj := upd s.obj s.nObjs none } :=
  { h with
    O1 := by
      intro o cn ho
      red
      by_cases hne : o = s.nObjs
      · subst hne
        simp at ho
      · rw [upd_ne _ _ hne] at ho
        exact h.O1 o cn ho
    F1 := by
      intro c
      red
      exact framesOK_transfer s _ c rfl rfl (fun _ hx => hx) (fun _ _ _ hq _ _ => hq)
        (fun _ _ _ hq _ _ hsd => ⟨hq, hsd⟩) (h.F1 c) }

theorem call_fresh_none (h : Inv spec s0 s) : s.call s.nCalls = none := h.bCall _ (Nat.le_refl _)
theorem req_fresh_none (h : Inv spec s0 s) : s.req s.nReqs = none := h.bReq _ (Nat.le_refl _)

theorem inv_invoke (h : Inv spec s0 s) (o : Nat) (op : Op) :
    Inv spec s0 { s with nCalls := s.nCalls + 1,
                         call := upd s.call s.nCalls (some { obj := o, op := op, pc := .ready 0 }),
                         hist := s.hist ++ [.inv s.nCalls op] } :=
  have hfresh := call_fresh_none h
  have hne_of_some : ∀ i c, s.call i = some c → i ≠ s.nCalls := by
    intro i c hc he
    red
    subst he
    rw [hfresh] at hc
    cases hc
  { h with
    bCall := by
      intro i hi
      red
      have : i ≠ s.nCalls := by
        intro he
        red
        subst he
        omega
      rw [upd_ne _ _ this]
      exact h.bCall i (by omega)
    H0 := by
      show invIds (s.hist ++ [Event.inv s.nCalls op]) = List.range (s.nCalls + 1)
      rw [invIds_append, h.H0, List.range_succ]
      rfl
    H1 := by
      intro id c hc
      red
      rcases upd_eq_some hc with ⟨rfl, rfl⟩ | ⟨_, ho⟩
      · exact List.mem_append_right _ (by simp)
      · exact List.mem_append_left _ (h.H1 id c ho)
    R1 := by
      intro id hid
      red
      have hid' : id ∈ resIds s.hist := by
        have : resIds (s.hist ++ [Event.inv s.nCalls op]) = resIds s.hist := by
          rw [resIds_append]
          simp [resIds, Event.resId?]
        exact this ▸ hid
      obtain ⟨c, hc, hp⟩ := h.R1 id hid'
      exact ⟨c, by rw [upd_ne _ _ (hne_of_some id c hc)]; exact hc, hp⟩
    R2 := by
      show (resIds (s.hist ++ [Event.inv s.nCalls op])).Nodup
      have : resIds (s.hist ++ [Event.inv s.nCalls op]) = resIds s.hist := by
        rw [resIds_append]
        simp [resIds, Event.resId?]
      rw [this]
      exact h.R2
    RA := by
      intro i id out hi
      red
      rcases getElem?_append_single s.hist _ i _ hi with hi' | ⟨_, he⟩
      · obtain ⟨j, o', hj, hg⟩ := h.RA i id out hi'
        exact ⟨j, o', hj, by rw [List.getElem?_append_left (getElem?_lt_length hg)]; exact hg⟩
      · cases he
    L2 := fun x hx => List.mem_append_left _ (h.L2 x hx)
    C1 := by
      intro id out hm
      red
      rcases List.mem_append.1 hm with hm | hm
      · exact h.C1 id out hm
      · simp at hm
    G1 := by
      intro id c out hc hp
      red
      rcases upd_eq_some hc with ⟨_, rfl⟩ | ⟨_, ho⟩
      · cases hp
      · exact h.G1 id c out ho hp
    T1 := by
      intro a b hp l1 l2 hl
      red
      rcases precedes_append_inv s.hist s.nCalls op a b hp with hp' | hb
      · exact h.T1 a b hp' l1 l2 hl
      · exfalso
        subst hb
        have hmem : s.nCalls ∈ s.lin.map (·.1) := by rw [hl]; simp
        obtain ⟨x, hx, hx1⟩ := List.mem_map.1 hmem
        have := h.L2 x hx
        have hin : s.nCalls ∈ invIds s.hist := mem_invIds.2 ⟨x.2.1, hx1 ▸ this⟩
        rw [h.H0] at hin
        simp at hin
    Q1 := by
      intro r q hq
      red
      obtain ⟨c, hc, hop⟩ := h.Q1 r q hq
      exact ⟨c, by rw [upd_ne _ _ (hne_of_some _ c hc)]; exact hc, hop⟩
    Q3 := by
      intro r q c k hq hc
      red
      obtain ⟨c0, hc0, _⟩ := h.Q1 r q hq
      rw [upd_ne _ _ (hne_of_some _ c0 hc0)] at hc
      exact h.Q3 r q c k hq hc
    F1 := by
      intro c
      red
      exact framesOK_transfer s _ c rfl rfl (fun _ hx => hx) (fun _ _ _ hq _ _ => hq)
        (fun _ _ _ hq _ _ hsd => ⟨hq, hsd⟩) (h.F1 c) }

theorem inv_dial (h : Inv spec s0 s) (o : Nat) :
    Inv spec s0 { s with nConns := s.nConns + 1, conn := upd s.conn s.nConns (Conn.fresh o),
                         obj := upd s.obj o (some s.nConns) } :=
  { h with
    O1 := by
      intro o' cn ho
      red
      rcases upd_eq_some ho with ⟨_, rfl⟩ | ⟨_, ho'⟩
      · exact Nat.lt_succ_self _
      · exact Nat.lt_succ_of_lt (h.O1 o' cn ho')
    N1 := by
      intro c
      red
      by_cases hc : c = s.nConns
      · subst hc
        simp [Conn.fresh]
      · show (upd s.conn s.nConns (Conn.fresh o) c).closing = false
        rw [upd_ne _ _ hc]
        exact h.N1 c
    Q6 := fun r q hq => Nat.lt_succ_of_lt (h.Q6 r q hq)
    M1 := by
      intro r q hq hph
      red
      have hne : q.conn ≠ s.nConns := Nat.ne_of_lt (h.Q6 r q hq)
      show (upd s.conn s.nConns (Conn.fresh o) q.conn).sending = some r
      rw [upd_ne _ _ hne]
      exact h.M1 r q hq hph
    F1 := by
      intro c
      red
      by_cases hc : c = s.nConns
      · subst hc
        refine ⟨[], [], by simp [Conn.fresh], .nil, fun _ => Or.inl rfl, fun _ => Or.inl ⟨rfl, ?_⟩⟩
        intro r q out hq hqc
        exact absurd hqc (Nat.ne_of_lt (h.Q6 r q hq))
      · refine framesOK_transfer s _ c ?_ ?_ (fun _ hx => hx) (fun _ _ _ hq _ _ => hq) ?_ (h.F1 c)
        · show (upd s.conn s.nConns (Conn.fresh o) c).stream = _
          rw [upd_ne _ _ hc]
        · show (upd s.conn s.nConns (Conn.fresh o) c).srvClosed = _
          rw [upd_ne _ _ hc]
        · intro r q out hq _ _ hsd
          refine ⟨hq, ?_⟩
          show (upd s.conn s.nConns (Conn.fresh o) c).sending = some r
          rw [upd_ne _ _ hc]
          exact hsd }

/-! ### send, sendShutdown, giveUp, retErr, ret -/

theorem inv_send (h : Inv spec s0 s) {id cn k : Nat} {c : Call Op Out} (hc : s.call id = some c)
    (hpc : c.pc = .ready k) (ho : s.obj c.obj = some cn) :
    Inv spec s0 { setPc s id c (.waiting cn k) with
                  nReqs := s.nReqs + 1,
                  req := upd s.req s.nReqs (some { conn := cn, id := id, op := c.op, phase := .inbox }) } :=
  have hcf := callFields_setPc h hc (.waiting cn k) (by rw [hpc]; intro hx; cases hx)
    (by intro out hx; cases hx) (by intro k' hx; cases hx)
  have hfresh := req_fresh_none h
  have hne_of_some : ∀ r q, s.req r = some q → r ≠ s.nReqs := by
    intro r q hq he
    red
    subst he
    rw [hfresh] at hq
    cases hq
  { h with
    bCall := hcf.1
    H1 := hcf.2.1
    R1 := hcf.2.2.1
    G1 := hcf.2.2.2.1
    bReq := by
      intro r hr
      red
      have : r ≠ s.nReqs := by
        intro he
        red
        subst he
        omega
      show upd s.req s.nReqs _ r = none
      rw [upd_ne _ _ this]
      exact h.bReq r (by omega)
    Q1 := by
      intro r q hq
      red
      rcases upd_eq_some hq with ⟨_, rfl⟩ | ⟨_, hq'⟩
      · exact ⟨_, upd_same _ _ _, rfl⟩
      · exact hcf.2.2.2.2.1 r q hq'
    Q2 := by
      intro r r' q q' hq hq' hid
      red
      rcases upd_eq_some hq with ⟨hr, rfl⟩ | ⟨hr, hq0⟩
      · rcases upd_eq_some hq' with ⟨hr', rfl⟩ | ⟨hr', hq0'⟩
        · rw [hr, hr']
        · exact absurd hpc (h.Q3 r' q' c k hq0' (by rw [← hid]; exact hc))
      · rcases upd_eq_some hq' with ⟨hr', rfl⟩ | ⟨hr', hq0'⟩
        · exact absurd hpc (h.Q3 r q c k hq0 (by rw [hid]; exact hc))
        · exact h.Q2 r r' q q' hq0 hq0' hid
    Q3 := by
      intro r q c' k' hq hc'
      red
      rcases upd_eq_some hq with ⟨_, rfl⟩ | ⟨_, hq0⟩
      · have : upd s.call id (some { c with pc := CallPc.waiting cn k }) id = some c' := hc'
        rw [upd_same] at this
        cases this
        intro hx
        cases hx
      · exact hcf.2.2.2.2.2 r q c' k' hq0 hc'
    Q4 := by
      intro r q o hq hph
      red
      rcases upd_eq_some hq with ⟨_, rfl⟩ | ⟨_, hq0⟩
      · cases hph
      · exact h.Q4 r q o hq0 hph
    Q5 := by
      intro x hx
      red
      obtain ⟨r, q, o, hq, hid, hph⟩ := h.Q5 x hx
      exact ⟨r, q, o, by show upd s.req s.nReqs _ r = some q; rw [upd_ne _ _ (hne_of_some r q hq)]; exact hq, hid, hph⟩
    Q6 := by
      intro r q hq
      red
      rcases upd_eq_some hq with ⟨_, rfl⟩ | ⟨_, hq0⟩
      · exact h.O1 _ _ ho
      · exact h.Q6 r q hq0
    M1 := by
      intro r q hq hph
      red
      rcases upd_eq_some hq with ⟨_, rfl⟩ | ⟨_, hq0⟩
      · obtain ⟨o, ho | ho⟩ := hph <;> cases ho
      · exact h.M1 r q hq0 hph
    F1 := by
      intro c'
      red
      refine framesOK_transfer s _ c' rfl rfl (fun _ hx => hx) ?_ ?_ (h.F1 c')
      · intro r q out hq _ hph
        rcases upd_eq_some hq with ⟨_, rfl⟩ | ⟨_, hq0⟩
        · cases hph
        · exact hq0
      · intro r q out hq _ _ hsd
        exact ⟨by show upd s.req s.nReqs _ r = some q; rw [upd_ne _ _ (hne_of_some r q hq)]; exact hq, hsd⟩ }

/-- a call changes its program counter and nothing else happens -/
theorem inv_setPc (h : Inv spec s0 s) {id : Nat} {c : Call Op Out} (hc : s.call id = some c)
    (pc' : CallPc Out) (hret : c.pc ≠ .returned)
    (hgot : ∀ out, pc' = .got out → ∃ op, (id, op, out) ∈ s.lin)
    (hready : ∀ k, pc' = .ready k → ∃ k0, c.pc = .ready k0) : Inv spec s0 (setPc s id c pc') :=
  have hcf := callFields_setPc h hc pc' hret hgot hready
  { h with
    bCall := hcf.1
    H1 := hcf.2.1
    R1 := hcf.2.2.1
    G1 := hcf.2.2.2.1
    Q1 := hcf.2.2.2.2.1
    Q3 := hcf.2.2.2.2.2
    F1 := by
      intro c'
      red
      exact framesOK_transfer s _ c' rfl rfl (fun _ hx => hx) (fun _ _ _ hq _ _ => hq)
        (fun _ _ _ hq _ _ hsd => ⟨hq, hsd⟩) (h.F1 c') }

/-- `c.rpcClient = nil` -/
theorem inv_setObj (h : Inv spec s0 s) (o : Nat) : Inv spec s0 { s with obj := upd s.obj o none } :=
  { h with
    O1 := by
      intro o' cn ho
      red
      by_cases hne : o' = o
      · subst hne
        simp at ho
      · rw [upd_ne _ _ hne] at ho
        exact h.O1 o' cn ho
    F1 := by
      intro c'
      red
      exact framesOK_transfer s _ c' rfl rfl (fun _ hx => hx) (fun _ _ _ hq _ _ => hq)
        (fun _ _ _ hq _ _ hsd => ⟨hq, hsd⟩) (h.F1 c') }

theorem inv_ret (h : Inv spec s0 s) {id : Nat} {c : Call Op Out} {out : Out} (hc : s.call id = some c)
    (hpc : c.pc = .got out) :
    Inv spec s0 { setPc s id c .returned with hist := s.hist ++ [.res id out] } :=
  have hcf := callFields_setPc h hc .returned (by rw [hpc]; intro hx; cases hx)
    (by intro o hx; cases hx) (by intro k' hx; cases hx)
  have hnotres : id ∉ resIds s.hist := by
    intro hin
    red
    obtain ⟨c0, hc0, hp0⟩ := h.R1 id hin
    rw [hc] at hc0
    cases hc0
    rw [hpc] at hp0
    cases hp0
  { h with
    bCall := hcf.1
    H0 := by
      show invIds (s.hist ++ [Event.res id out]) = List.range s.nCalls
      rw [invIds_append, h.H0]
      simp [invIds, Event.invId?]
    H1 := fun i c' hc' => List.mem_append_left _ (hcf.2.1 i c' hc')
    R1 := by
      intro i hi
      red
      have : resIds (s.hist ++ [Event.res id out]) = resIds s.hist ++ [id] := by
        rw [resIds_append]
        simp [resIds, Event.resId?]
      have hi' : i ∈ resIds s.hist ++ [id] := this ▸ hi
      rcases List.mem_append.1 hi' with hi' | hi'
      · exact hcf.2.2.1 i hi'
      · simp only [List.mem_singleton] at hi'
        subst hi'
        exact ⟨_, upd_same _ _ _, rfl⟩
    R2 := by
      show (resIds (s.hist ++ [Event.res id out])).Nodup
      have : resIds (s.hist ++ [Event.res id out]) = resIds s.hist ++ [id] := by
        rw [resIds_append]
        simp [resIds, Event.resId?]
      rw [this]
      refine List.nodup_append.2 ⟨h.R2, by simp, ?_⟩
      intro a ha b hb
      simp only [List.mem_singleton] at hb
      subst hb
      intro hab
      subst hab
      exact hnotres ha
    RA := by
      intro i id' out' hi
      red
      rcases getElem?_append_single s.hist _ i _ hi with hi' | ⟨hil, he⟩
      · obtain ⟨j, o', hj, hg⟩ := h.RA i id' out' hi'
        exact ⟨j, o', hj, by rw [List.getElem?_append_left (getElem?_lt_length hg)]; exact hg⟩
      · cases he
        obtain ⟨j, hj⟩ := List.mem_iff_getElem?.1 (h.H1 id c hc)
        have hlt := getElem?_lt_length hj
        exact ⟨j, c.op, by omega, by rw [List.getElem?_append_left hlt]; exact hj⟩
    L2 := fun x hx => List.mem_append_left _ (h.L2 x hx)
    C1 := by
      intro id' out' hm
      red
      rcases List.mem_append.1 hm with hm | hm
      · exact h.C1 id' out' hm
      · simp only [List.mem_singleton, Event.res.injEq] at hm
        obtain ⟨rfl, rfl⟩ := hm
        exact h.G1 id' c out' hc hpc
    G1 := hcf.2.2.2.1
    T1 := fun a b hp l1 l2 hl => h.T1 a b (precedes_append_res s.hist id out a b hp) l1 l2 hl
    Q1 := hcf.2.2.2.2.1
    Q3 := hcf.2.2.2.2.2
    F1 := by
      intro c'
      red
      exact framesOK_transfer s _ c' rfl rfl (fun _ hx => hx) (fun _ _ _ hq _ _ => hq)
        (fun _ _ _ hq _ _ hsd => ⟨hq, hsd⟩) (h.F1 c') }

end C26
