/-
C26: the inductive invariant of the daemon model (ElvModel/C26/Model.lean) for
runs in which nobody calls `ResetConn`/`Close` on a client in use
(`Label.noReset`; connections may still die at any moment).
-/
import ElvModel.C26.Model
import ElvProofs.C26.Checker
namespace C26
variable {σ Op Out : Type}

/-! ### small facts -/

@[simp] theorem upd_same {α : Type} (f : Nat → α) (i : Nat) (v : α) : upd f i v i = v := by simp [upd]

theorem upd_ne {α : Type} (f : Nat → α) {i j : Nat} (v : α) (h : j ≠ i) : upd f i v j = f j := by simp [upd, h]

theorem runSeq_append (spec : σ → Op → σ × Out) : ∀ (l1 l2 : List Op) (s : σ),
    runSeq spec s (l1 ++ l2) =
      ((runSeq spec (runSeq spec s l1).1 l2).1, (runSeq spec s l1).2 ++ (runSeq spec (runSeq spec s l1).1 l2).2)
  | [], l2, s => by simp [runSeq]
  | a :: l1, l2, s => by
    simp only [List.cons_append, runSeq]
    rw [runSeq_append spec l1 l2]

theorem invIds_append (h1 h2 : History Op Out) : invIds (h1 ++ h2) = invIds h1 ++ invIds h2 := by
  simp [invIds, List.filterMap_append]

theorem resIds_append (h1 h2 : History Op Out) : resIds (h1 ++ h2) = resIds h1 ++ resIds h2 := by
  simp [resIds, List.filterMap_append]

theorem mem_resIds {h : History Op Out} {id : Nat} : id ∈ resIds h ↔ ∃ out, Event.res id out ∈ h := by
  simp only [resIds, List.mem_filterMap]
  constructor
  · rintro ⟨e, he, hid⟩
    cases e with
    | inv i o => simp [Event.resId?] at hid
    | res i o =>
      simp only [Event.resId?, Option.some.injEq] at hid
      subst hid
      exact ⟨o, he⟩
  · rintro ⟨o, ho⟩
    exact ⟨_, ho, rfl⟩

theorem mem_invIds {h : History Op Out} {id : Nat} : id ∈ invIds h ↔ ∃ op, Event.inv id op ∈ h := by
  simp only [invIds, List.mem_filterMap]
  constructor
  · rintro ⟨e, he, hid⟩
    cases e with
    | res i o => simp [Event.invId?] at hid
    | inv i o =>
      simp only [Event.invId?, Option.some.injEq] at hid
      subst hid
      exact ⟨o, he⟩
  · rintro ⟨o, ho⟩
    exact ⟨_, ho, rfl⟩

/-- appending an event: what was at a position stays there -/
theorem getElem?_append_single {α : Type} (l : List α) (e : α) (i : Nat) (x : α)
    (h : (l ++ [e])[i]? = some x) : l[i]? = some x ∨ (i = l.length ∧ x = e) := by
  rw [List.getElem?_append] at h
  by_cases hi : i < l.length
  · simp only [hi, if_true] at h
    exact Or.inl h
  · simp only [hi, if_false] at h
    have : i - l.length = 0 := by
      cases hd : i - l.length with
      | zero => rfl
      | succ n => rw [hd] at h; simp at h
    rw [this] at h
    simp only [List.getElem?_cons_zero, Option.some.injEq] at h
    exact Or.inr ⟨by omega, h.symm⟩

theorem getElem?_lt_length {α : Type} {l : List α} {i : Nat} {x : α} (h : l[i]? = some x) : i < l.length := by
  rcases List.getElem?_eq_some_iff.1 h with ⟨hl, _⟩
  exact hl

theorem precedes_append_inv (h : History Op Out) (n : Nat) (op : Op) (a b : Nat)
    (hp : Precedes (h ++ [Event.inv n op]) a b) : Precedes h a b ∨ b = n := by
  obtain ⟨i, j, out, o, hij, hi, hj⟩ := hp
  rcases getElem?_append_single h _ j _ hj with hj' | ⟨_, hje⟩
  · rcases getElem?_append_single h _ i _ hi with hi' | ⟨hil, _⟩
    · exact Or.inl ⟨i, j, out, o, hij, hi', hj'⟩
    · have := getElem?_lt_length hj'
      omega
  · simp only [Event.inv.injEq] at hje
    exact Or.inr hje.1

theorem precedes_append_res (h : History Op Out) (n : Nat) (out : Out) (a b : Nat)
    (hp : Precedes (h ++ [Event.res n out]) a b) : Precedes h a b := by
  obtain ⟨i, j, o', o, hij, hi, hj⟩ := hp
  rcases getElem?_append_single h _ j _ hj with hj' | ⟨_, hje⟩
  · rcases getElem?_append_single h _ i _ hi with hi' | ⟨hil, _⟩
    · exact ⟨i, j, o', o, hij, hi', hj'⟩
    · have := getElem?_lt_length hj'
      omega
  · simp at hje

theorem precedes_res_mem (h : History Op Out) (a b : Nat) (hp : Precedes h a b) : ∃ out, Event.res a out ∈ h := by
  obtain ⟨i, _, out, _, _, hi, _⟩ := hp
  exact ⟨out, List.mem_of_getElem? hi⟩

theorem append_single_eq_split {α : Type} (l : List α) (x : α) (l1 : List α) (b : α) (l2 : List α)
    (h : l ++ [x] = l1 ++ b :: l2) : (l2 = [] ∧ b = x ∧ l1 = l) ∨ ∃ l2', l2 = l2' ++ [x] ∧ l = l1 ++ b :: l2' := by
  rcases List.eq_nil_or_concat l2 with rfl | ⟨l2', y, rfl⟩
  · have : l ++ [x] = l1 ++ [b] := by simpa using h
    have := List.append_inj' this rfl
    exact Or.inl ⟨rfl, by simpa using this.2.symm, this.1.symm⟩
  · right
    have : l ++ [x] = (l1 ++ b :: l2') ++ [y] := by simpa using h
    have := List.append_inj' this rfl
    refine ⟨l2', ?_, this.1⟩
    have hxy : x = y := by simpa using this.2
    rw [hxy]
    simp

/-! ### the invariant -/

/-- complete responses: header and body of the same call, whose reply is the committed one -/
inductive Pairs (lin : List (Nat × Op × Out)) : List (Frame Out) → Prop where
  | nil : Pairs lin []
  | cons (id : Nat) (out : Out) (rest : List (Frame Out)) : (∃ op, (id, op, out) ∈ lin) → Pairs lin rest →
      Pairs lin (.hdr id :: .body id out :: rest)

theorem Pairs.mono {lin lin' : List (Nat × Op × Out)} (hsub : ∀ x ∈ lin, x ∈ lin') :
    ∀ {l : List (Frame Out)}, Pairs lin l → Pairs lin' l
  | _, .nil => .nil
  | _, .cons id out rest ⟨op, hm⟩ hr => .cons id out rest ⟨op, hsub _ hm⟩ (Pairs.mono hsub hr)

theorem Pairs.append {lin : List (Nat × Op × Out)} : ∀ {l1 l2 : List (Frame Out)}, Pairs lin l1 → Pairs lin l2 →
    Pairs lin (l1 ++ l2)
  | _, _, .nil, h2 => h2
  | _, _, .cons id out rest hm hr, h2 => .cons id out _ hm (Pairs.append hr h2)

/-- no request of connection `c` sits between its header and its body -/
def NoHdrPending (s : State σ Op Out) (c : Nat) : Prop :=
  ∀ r q out, s.req r = some q → q.conn = c → q.phase ≠ .hdrDone out

/-- the response stream of connection `c` is a sequence of complete responses,
followed by at most one header — the one of the request that holds `sending`
and has written its header (or any, once the server side is closed) -/
def FramesOK (s : State σ Op Out) (c : Nat) : Prop :=
  ∃ pairs tail, (s.conn c).stream = pairs ++ tail ∧ Pairs s.lin pairs ∧
    ((s.conn c).srvClosed = true → tail = [] ∨ ∃ id, tail = [.hdr id]) ∧
    ((s.conn c).srvClosed = false →
      (tail = [] ∧ NoHdrPending s c) ∨
      ∃ r q out, tail = [.hdr q.id] ∧ (s.conn c).sending = some r ∧ s.req r = some q ∧ q.conn = c ∧
        q.phase = .hdrDone out)

structure Inv (spec : σ → Op → σ × Out) (s0 : σ) (s : State σ Op Out) : Prop where
  bCall : ∀ i, s.nCalls ≤ i → s.call i = none
  bReq : ∀ r, s.nReqs ≤ r → s.req r = none
  O1 : ∀ o cn, s.obj o = some cn → cn < s.nConns
  N1 : ∀ c, (s.conn c).closing = false
  H0 : invIds s.hist = List.range s.nCalls
  H1 : ∀ id c, s.call id = some c → Event.inv id c.op ∈ s.hist
  R1 : ∀ id, id ∈ resIds s.hist → ∃ c, s.call id = some c ∧ c.pc = .returned
  R2 : (resIds s.hist).Nodup
  RA : ∀ (i id : Nat) (out : Out), s.hist[i]? = some (Event.res id out) →
    ∃ (j : Nat) (op : Op), j < i ∧ s.hist[j]? = some (Event.inv id op)
  L1 : (s.lin.map (·.1)).Nodup
  L2 : ∀ x ∈ s.lin, Event.inv x.1 x.2.1 ∈ s.hist
  C1 : ∀ id out, Event.res id out ∈ s.hist → ∃ op, (id, op, out) ∈ s.lin
  G1 : ∀ id c out, s.call id = some c → c.pc = .got out → ∃ op, (id, op, out) ∈ s.lin
  S1 : runSeq spec s0 (s.lin.map (·.2.1)) = (s.store, s.lin.map (·.2.2))
  T1 : ∀ a b, Precedes s.hist a b → ∀ l1 l2, s.lin.map (·.1) = l1 ++ b :: l2 → a ∈ l1
  Q1 : ∀ r q, s.req r = some q → ∃ c, s.call q.id = some c ∧ c.op = q.op
  Q2 : ∀ r r' q q', s.req r = some q → s.req r' = some q' → q.id = q'.id → r = r'
  Q3 : ∀ r q c k, s.req r = some q → s.call q.id = some c → c.pc ≠ .ready k
  Q4 : ∀ r q o, s.req r = some q → q.phase.out? = some o → (q.id, q.op, o) ∈ s.lin
  Q5 : ∀ x ∈ s.lin, ∃ r q o, s.req r = some q ∧ q.id = x.1 ∧ q.phase.out? = some o
  Q6 : ∀ r q, s.req r = some q → q.conn < s.nConns
  M1 : ∀ r q, s.req r = some q → (∃ o, q.phase = .locked o ∨ q.phase = .hdrDone o) →
    (s.conn q.conn).sending = some r
  F1 : ∀ c, FramesOK s c

theorem inv_init (spec : σ → Op → σ × Out) (s0 : σ) : Inv spec s0 (State.init s0 : State σ Op Out) where
  bCall := by intros; rfl
  bReq := by intros; rfl
  O1 := by intro o cn h; simp [State.init] at h
  N1 := by intro c; rfl
  H0 := by simp [State.init, invIds]
  H1 := by intro id c h; simp [State.init] at h
  R1 := by intro id h; simp [State.init, resIds] at h
  R2 := by simp [State.init, resIds]
  RA := by intro i id out h; simp [State.init] at h
  L1 := by simp [State.init]
  L2 := by intro x h; simp [State.init] at h
  C1 := by intro id out h; simp [State.init] at h
  G1 := by intro id c out h; simp [State.init] at h
  S1 := by simp [State.init, runSeq]
  T1 := by
    intro a b hp
    obtain ⟨i, _, _, _, _, hi, _⟩ := hp
    simp [State.init] at hi
  Q1 := by intro r q h; simp [State.init] at h
  Q2 := by intro r r' q q' h; simp [State.init] at h
  Q3 := by intro r q c k h; simp [State.init] at h
  Q4 := by intro r q o h; simp [State.init] at h
  Q5 := by intro x h; simp [State.init] at h
  Q6 := by intro r q h; simp [State.init] at h
  M1 := by intro r q h; simp [State.init] at h
  F1 := by
    intro c
    refine ⟨[], [], by simp [State.init, Conn.fresh], .nil, fun _ => Or.inl rfl, fun _ => Or.inl ⟨rfl, ?_⟩⟩
    intro r q out h
    simp [State.init] at h

end C26
