/-
C31 helper lemmas, part 3: `readRune` inverts `utf8.EncodeRune` on scalar
values, and the reader loop over plain text.
-/
import ElvProofs.C31.Reader
import ElvModel.C31.Spec
namespace C31
open Go

/-! ### `readRune` on well-formed sequences of 1–4 bytes -/

theorem run_readByte_byte (t : Timeout) (b : UInt8) (rest : List Item) (lg : List Timeout) :
    (readByte t).run ⟨.byte b :: rest, lg⟩ = (.ok b, ⟨rest, lg ++ [t]⟩) := rfl

theorem run_readCont_zero (r : Nat) (s : Src) : (readCont 0 r).run s = (.ok r, s) := rfl

theorem run_readCont_succ_byte (n r : Nat) (b : UInt8) (rest : List Item) (lg : List Timeout) :
    (readCont (n + 1) r).run ⟨.byte b :: rest, lg⟩ =
      (readCont n (r * 64 + b.toNat % 64)).run ⟨rest, lg ++ [.utf8Seq]⟩ := rfl

theorem run_readRune_byte (t : Timeout) (b : UInt8) (rest : List Item) (lg : List Timeout) :
    (readRune t).run ⟨.byte b :: rest, lg⟩ = (runeAfter b).run ⟨rest, lg ++ [t]⟩ := by
  rw [run_readRune, run_readByte_byte]

theorem readRune_1 (t : Timeout) (b0 : UInt8) (rest : List Item) (lg : List Timeout)
    (h : b0.toNat / 128 = 0) :
    (readRune t).run ⟨.byte b0 :: rest, lg⟩ = (.ok b0.toNat, ⟨rest, lg ++ [t]⟩) := by
  rw [run_readRune_byte]
  simp only [runeAfter, h, if_true, run_readCont_zero]

theorem readRune_2 (t : Timeout) (b0 b1 : UInt8) (rest : List Item) (lg : List Timeout)
    (h : b0.toNat / 32 = 6) :
    (readRune t).run ⟨.byte b0 :: .byte b1 :: rest, lg⟩ =
      (.ok (b0.toNat % 32 * 64 + b1.toNat % 64), ⟨rest, lg ++ [t] ++ [.utf8Seq]⟩) := by
  have h1 : ¬ b0.toNat / 128 = 0 := by omega
  rw [run_readRune_byte]
  simp only [runeAfter, h, h1, if_true, if_false, run_readCont_succ_byte, run_readCont_zero]

theorem readRune_3 (t : Timeout) (b0 b1 b2 : UInt8) (rest : List Item) (lg : List Timeout)
    (h : b0.toNat / 16 = 14) :
    (readRune t).run ⟨.byte b0 :: .byte b1 :: .byte b2 :: rest, lg⟩ =
      (.ok ((b0.toNat % 16 * 64 + b1.toNat % 64) * 64 + b2.toNat % 64),
        ⟨rest, lg ++ [t] ++ [.utf8Seq] ++ [.utf8Seq]⟩) := by
  have h1 : ¬ b0.toNat / 128 = 0 := by omega
  have h2 : ¬ b0.toNat / 32 = 6 := by omega
  rw [run_readRune_byte]
  simp only [runeAfter, h, h1, h2, if_true, if_false, run_readCont_succ_byte, run_readCont_zero]

theorem readRune_4 (t : Timeout) (b0 b1 b2 b3 : UInt8) (rest : List Item) (lg : List Timeout)
    (h : b0.toNat / 8 = 30) :
    (readRune t).run ⟨.byte b0 :: .byte b1 :: .byte b2 :: .byte b3 :: rest, lg⟩ =
      (.ok (((b0.toNat % 8 * 64 + b1.toNat % 64) * 64 + b2.toNat % 64) * 64 + b3.toNat % 64),
        ⟨rest, lg ++ [t] ++ [.utf8Seq] ++ [.utf8Seq] ++ [.utf8Seq]⟩) := by
  have h1 : ¬ b0.toNat / 128 = 0 := by omega
  have h2 : ¬ b0.toNat / 32 = 6 := by omega
  have h3 : ¬ b0.toNat / 16 = 14 := by omega
  rw [run_readRune_byte]
  simp only [runeAfter, h, h1, h2, h3, if_true, if_false, run_readCont_succ_byte, run_readCont_zero]

/-- `readRune` decodes what `utf8.EncodeRune` produces for a scalar value. -/
theorem readRune_char (t : Timeout) (c : Nat) (hv : validRune c = true) (rest : List Item) (lg : List Timeout) :
    ∃ lg', (readRune t).run ⟨charItems c ++ rest, lg⟩ = (.ok c, ⟨rest, lg'⟩) := by
  unfold charItems encodeRune
  have hmax : c ≤ 0x10FFFF := by
    simp [validRune] at hv
    have hv' : c < 55296 ∨ 57343 < c ∧ c ≤ 1114111 := hv  -- restate over `Nat` (not `Rune`) for omega
    omega
  by_cases h1 : c < 0x80
  · simp only [h1, if_true, List.map, List.cons_append, List.nil_append]
    have hb : (UInt8.ofNat c).toNat = c := by simp [UInt8.toNat_ofNat']; omega
    rw [readRune_1 _ _ _ _ (by rw [hb]; omega), hb]
    exact ⟨_, rfl⟩
  · by_cases h2 : c < 0x800
    · simp only [h1, h2, if_true, if_false, List.map, List.cons_append, List.nil_append]
      have hb0 : (UInt8.ofNat (0xC0 + c / 64)).toNat = 0xC0 + c / 64 := by simp [UInt8.toNat_ofNat']; omega
      have hb1 : (UInt8.ofNat (0x80 + c % 64)).toNat = 0x80 + c % 64 := by simp [UInt8.toNat_ofNat']; omega
      rw [readRune_2 _ _ _ _ _ (by rw [hb0]; omega), hb0, hb1]
      have e : (0xC0 + c / 64) % 32 * 64 + (0x80 + c % 64) % 64 = c := by omega
      rw [e]
      exact ⟨_, rfl⟩
    · simp only [h1, h2, hv, if_false, Bool.not_true]
      by_cases h3 : c < 0x10000
      · simp only [h3, if_true, Bool.false_eq_true, if_false, List.map_cons, List.map_nil, List.cons_append, List.nil_append]
        have hb0 : (UInt8.ofNat (0xE0 + c / 4096)).toNat = 0xE0 + c / 4096 := by simp [UInt8.toNat_ofNat']; omega
        have hb1 : (UInt8.ofNat (0x80 + c / 64 % 64)).toNat = 0x80 + c / 64 % 64 := by simp [UInt8.toNat_ofNat']; omega
        have hb2 : (UInt8.ofNat (0x80 + c % 64)).toNat = 0x80 + c % 64 := by simp [UInt8.toNat_ofNat']; omega
        rw [readRune_3 _ _ _ _ _ _ (by rw [hb0]; omega), hb0, hb1, hb2]
        have e : ((0xE0 + c / 4096) % 16 * 64 + (0x80 + c / 64 % 64) % 64) * 64 + (0x80 + c % 64) % 64 = c := by omega
        rw [e]
        exact ⟨_, rfl⟩
      · simp only [h3, Bool.false_eq_true, if_false, List.map_cons, List.map_nil, List.cons_append, List.nil_append]
        have hb0 : (UInt8.ofNat (0xF0 + c / 262144)).toNat = 0xF0 + c / 262144 := by simp [UInt8.toNat_ofNat']; omega
        have hb1 : (UInt8.ofNat (0x80 + c / 4096 % 64)).toNat = 0x80 + c / 4096 % 64 := by simp [UInt8.toNat_ofNat']; omega
        have hb2 : (UInt8.ofNat (0x80 + c / 64 % 64)).toNat = 0x80 + c / 64 % 64 := by simp [UInt8.toNat_ofNat']; omega
        have hb3 : (UInt8.ofNat (0x80 + c % 64)).toNat = 0x80 + c % 64 := by simp [UInt8.toNat_ofNat']; omega
        rw [readRune_4 _ _ _ _ _ _ _ (by rw [hb0]; omega), hb0, hb1, hb2, hb3]
        have e : (((0xF0 + c / 262144) % 8 * 64 + (0x80 + c / 4096 % 64) % 64) * 64 + (0x80 + c / 64 % 64) % 64) * 64 +
            (0x80 + c % 64) % 64 = c := by omega
        rw [e]
        exact ⟨_, rfl⟩

/-! ### Plain text through the reader loop -/

theorem readByteAux_gaps (g : Nat) (l : List Item) :
    readByteAux false (List.replicate g Item.gap ++ l) = readByteAux false l := by
  induction g with
  | zero => rfl
  | succ g ih => simpa [List.replicate_succ, readByteAux] using ih

/-- The untimed first read waits through pauses. -/
theorem run_readRune_gaps (g : Nat) (l : List Item) (lg : List Timeout) :
    (readRune .untimed).run ⟨List.replicate g Item.gap ++ l, lg⟩ = (readRune .untimed).run ⟨l, lg⟩ := by
  rw [run_readRune, run_readRune, run_readByte, run_readByte]
  simp only [Timeout.timed, readByteAux_gaps]

theorem charItems_ne_nil (c : Nat) : charItems c ≠ [] := by
  unfold charItems encodeRune
  repeat' split
  all_goals simp

theorem ctrlModify_plain (c : Nat) (h : plain c) : ctrlModify (c : Int) = K (c : Int) := by
  obtain ⟨h1, h2, _⟩ := h
  unfold ctrlModify
  have e1 : Gen.C31Keys.Tab = 9 := rfl
  have e2 : Gen.C31Keys.Enter = 10 := rfl
  have e3 : Gen.C31Keys.Backspace = 127 := rfl
  rw [e1, e2, e3]
  rw [if_neg (by omega), if_neg (by omega), if_neg (by omega), if_neg (by omega), if_neg (by omega)]

theorem readEventTail_plain (T : Tables) (c : Nat) (h : plain c) (s : Src) :
    (readEventTail T c).run s = (.event (.key (K (c : Int))), s) := by
  unfold readEventTail
  have hne : ¬ ((c : Int) = 0x1b) := by
    have := h.1
    omega
  simp only [hne, if_false, ctrlModify_plain c h, run_pure]

theorem run_readEvent (T : Tables) (s : Src) :
    (readEvent T).run s =
      match (readRune .untimed).run s with
      | (.error e, s') => (.err (.read e), s')
      | (.ok r0, s') => (readEventTail T r0).run s' := by
  show (readRune .untimed >>= _).run s = _
  rw [run_bind]
  rcases h : (readRune .untimed).run s with ⟨r, s'⟩
  cases r <;> rfl

theorem run_readRawEvent (s : Src) :
    readRawEvent.run s =
      match (readRune .untimed).run s with
      | (.error e, s') => (.err (.read e), s')
      | (.ok r, s') => (.event (.key (K (r : Int))), s') := by
  show (readRune .untimed >>= _).run s = _
  rw [run_bind]
  rcases h : (readRune .untimed).run s with ⟨r, s'⟩
  cases r <;> rfl

/-- What a reader has to do with one plain character (after any pauses) for
the loop to be lossless. -/
def DecodesPlain (m : M Outcome) : Prop :=
  ∀ (g c : Nat) (rest : List Item), plain c →
    ∃ cl, call m (List.replicate g Item.gap ++ charItems c ++ rest) = (cl, rest) ∧
      cl.out = .event (.key (K (c : Int)))

theorem readEvent_decodesPlain (T : Tables) : DecodesPlain (readEvent T) := by
  intro g c rest hc
  unfold call
  rw [List.append_assoc, run_readEvent, run_readRune_gaps]
  obtain ⟨lg', h⟩ := readRune_char .untimed c hc.2.2 rest []
  rw [h]
  simp only [readEventTail_plain T c hc]
  exact ⟨_, rfl, rfl⟩

theorem readRawEvent_decodesPlain : DecodesPlain readRawEvent := by
  intro g c rest hc
  unfold call
  rw [List.append_assoc, run_readRawEvent, run_readRune_gaps]
  obtain ⟨lg', h⟩ := readRune_char .untimed c hc.2.2 rest []
  rw [h]
  exact ⟨_, rfl, rfl⟩

theorem eventsFuel_succ_ne (m : M Outcome) (fuel : Nat) (items : List Item) (h : items ≠ []) :
    eventsFuel m (fuel + 1) items = some (call m items).1 :: eventsFuel m fuel (call m items).2 := by
  cases items with
  | nil => exact absurd rfl h
  | cons a t => rfl

theorem eventsFuel_gapText (m : M Outcome) (hm : DecodesPlain m) (cs : List (Nat × Nat))
    (hp : ∀ gc ∈ cs, plain gc.2) (fuel : Nat) (hf : cs.length ≤ fuel) :
    outcomes (eventsFuel m fuel (gapTextItems cs)) = cs.map fun gc => keyOf gc.2 := by
  induction cs generalizing fuel with
  | nil => cases fuel <;> rfl
  | cons gc t ih =>
    obtain ⟨g, c⟩ := gc
    cases fuel with
    | zero => simp at hf
    | succ fuel =>
      have hc : plain c := hp (g, c) (by simp)
      have hitems : gapTextItems ((g, c) :: t) = List.replicate g Item.gap ++ charItems c ++ gapTextItems t := by
        simp [gapTextItems]
      have hne : gapTextItems ((g, c) :: t) ≠ [] := by
        rw [hitems]
        have := charItems_ne_nil c
        simp [this]
      rw [eventsFuel_succ_ne m fuel _ hne, hitems]
      obtain ⟨cl, hcall, hout⟩ := hm g c (gapTextItems t) hc
      rw [hcall]
      simp only [outcomes, List.map_cons, Option.map_some, hout]
      have := ih (fun gc h => hp gc (by simp [h])) fuel (by simpa using hf)
      simp only [outcomes] at this
      rw [this]
      rfl

theorem length_le_gapTextItems (cs : List (Nat × Nat)) : cs.length ≤ (gapTextItems cs).length := by
  induction cs with
  | nil => simp
  | cons gc t ih =>
    have hitems : gapTextItems (gc :: t) = List.replicate gc.1 Item.gap ++ charItems gc.2 ++ gapTextItems t := by
      simp [gapTextItems]
    have : 0 < (charItems gc.2).length := List.length_pos_iff.mpr (charItems_ne_nil _)
    rw [hitems]
    simp only [List.length_append, List.length_cons]
    omega

theorem textItems_eq_gapTextItems (cs : List Nat) : textItems cs = gapTextItems (cs.map fun c => (0, c)) := by
  induction cs with
  | nil => rfl
  | cons c t ih =>
    simp only [textItems, gapTextItems, List.flatMap_cons, List.map_cons] at ih ⊢
    rw [ih]
    simp

end C31
