/-
C31 helper lemmas, part 2: no slice access in the CSI code can panic, the
`CSISeq` loop never runs out of fuel, and every piece of `readEvent` after
the first rune only performs timed reads and ends in an event or an error.
-/
import ElvProofs.C31.Basic
namespace C31
open Go

/-- The call returned what `readEvent` can return in Go: an event or an error
(as opposed to the model-only outcomes "panicked" and "out of fuel"). -/
def Outcome.good : Outcome → Prop
  | .event _ => True
  | .err _ => True
  | .panic _ => False
  | .fuel => False

instance : DecidablePred Outcome.good := fun o => by
  cases o <;> simp only [Outcome.good] <;> infer_instance

/-! ### Pure parts: no panic -/

theorem index_ok {α} (l : List α) (i : Nat) (h : i < l.length) : index l (i : Int) = .ok l[i] := by
  simp [index, h]

theorem addDigit_ok (nums : List Int) (r : Int) : ∃ l, addDigit nums r = .ok l := by
  unfold addDigit
  by_cases h : nums.length = 0
  · have : nums = [] := List.length_eq_zero_iff.mp h
    subst this
    simp [index, setIdx, bind, Res.bind]
  · simp only [h, if_false]
    have hpos : 0 < nums.length := Nat.pos_of_ne_zero h
    have hcur : ((nums.length : Int) - 1) = ((nums.length - 1 : Nat) : Int) := by omega
    rw [hcur, index_ok nums (nums.length - 1) (by omega)]
    simp only [bind, Res.bind, setIdx]
    rw [if_pos (by omega)]
    exact ⟨_, rfl⟩

theorem parseCSI_ok (T : Tables) (nums : List Int) (last : Int) : ∃ k, parseCSI T nums last = .ok k := by
  unfold parseCSI
  rcases nums with _ | ⟨a, _ | ⟨b, _ | ⟨c, _ | ⟨d, t⟩⟩⟩⟩ <;>
    simp [index, bind, Res.bind, pure] <;>
    repeat' split
  all_goals first | exact ⟨_, rfl⟩ | simp

theorem pasteArg_ok (nums : List Int) (r : Int) : ∃ o, pasteArg nums r = .ok o := by
  unfold pasteArg
  rcases nums with _ | ⟨a, _ | ⟨b, t⟩⟩ <;> simp [index, bind, Res.bind, pure] <;> repeat' split
  all_goals first | exact ⟨_, rfl⟩ | simp

theorem finishCSI_good (T : Tables) (two : Bool) (starter : Int) (nums : List Int) (r : Int) (seq : Bytes) :
    (finishCSI T two starter nums r seq).good := by
  unfold finishCSI
  obtain ⟨k, hk⟩ := parseCSI_ok T nums r
  obtain ⟨p, hp⟩ := pasteArg_ok nums r
  rw [hk, hp]
  rcases nums with _ | ⟨a, _ | ⟨b, _ | ⟨c, _ | ⟨d, t⟩⟩⟩⟩ <;>
    simp [index, bind, Res.bind, pure, seqErr] <;>
    repeat' split
  all_goals simp [Outcome.ofRes, Outcome.good]

/-! ### The `CSISeq` loop -/

theorem eos_eq : eos = -1 := rfl

/-- With fuel for the input that is left (or one unit if the sequence has
already ended) the loop never runs out of fuel, never panics, and performs
timed reads only. -/
theorem csiLoop_spec (fuel : Nat) (nums : List Int) (r : Int) (seq : Bytes) (s : Src)
    (h : s.items.length + 2 ≤ fuel ∨ (r = eos ∧ 1 ≤ fuel)) :
    (∀ o, ((csiLoop fuel nums r seq).run s).1 = .inl o → o.good) ∧
      Ext s ((csiLoop fuel nums r seq).run s).2 := by
  induction fuel generalizing nums r seq s with
  | zero => omega
  | succ fuel ih =>
    -- one iteration that reads the next rune and goes round again
    have again : ∀ nums', (∀ o, (((next seq >>= fun x => csiLoop fuel nums' x.1 x.2).run s).1 = .inl o → o.good)) ∧
        Ext s ((next seq >>= fun x => csiLoop fuel nums' x.1 x.2).run s).2 ∨ r = eos := by
      intro nums'
      by_cases hr : r = eos
      · exact Or.inr hr
      · left
        have hlen : s.items.length + 2 ≤ fuel + 1 := by
          rcases h with h | h
          · exact h
          · exact absurd h.1 hr
        rw [run_bind]
        have hn := next_cases seq s
        have he := (next_ext seq s).2
        have := ih nums' ((next seq).run s).1.1 ((next seq).run s).1.2 ((next seq).run s).2
          (by rcases hn with hn | hn
              · right; exact ⟨hn, by omega⟩
              · left; omega)
        exact ⟨this.1, he.trans this.2⟩
    unfold csiLoop
    by_cases h59 : r = 59
    · simp only [h59, if_true]
      have hne : r ≠ eos := by rw [h59, eos_eq]; decide
      rcases again (nums ++ [0]) with hh | hh
      · exact hh
      · exact absurd hh hne
    · simp only [h59, if_false]
      by_cases hd : 48 ≤ r ∧ r ≤ 57
      · simp only [hd, and_self, if_true]
        have hne : r ≠ eos := by rw [eos_eq]; omega
        obtain ⟨nums', hnums⟩ := addDigit_ok nums r
        rw [hnums]
        rcases again nums' with hh | hh
        · exact hh
        · exact absurd hh hne
      · rw [if_neg hd]
        by_cases he : r = eos
        · rw [if_pos he]
          refine ⟨?_, Ext.refl s⟩
          intro o ho
          simp only [run_pure, Sum.inl.injEq] at ho
          subst ho
          trivial
        · rw [if_neg he]
          refine ⟨?_, Ext.refl s⟩
          intro o ho
          simp at ho

theorem csiRun_spec (nums : List Int) (r : Int) (seq : Bytes) :
    Spec (csiRun nums r seq) (fun res => ∀ o, res = .inl o → o.good) := by
  intro s
  show (fun res => ∀ o, res = .inl o → o.good) ((remaining >>= fun n => csiLoop (n + 2) nums r seq).run s).1 ∧ _
  rw [run_bind, run_remaining]
  exact csiLoop_spec _ nums r seq s (Or.inl (Nat.le_refl _))

/-! ### The branches of `readEvent` after the first rune -/

/-- Decompose a reader computation along its binds, `if`s and matches. -/
macro "mspec" : tactic => `(tactic| repeat' first
  | exact Spec.pure trivial
  | exact Spec.pure (finishCSI_good _ _ _ _ _ _)
  | (refine Spec.bind (next_ext _) ?_; intro _ _)
  | (refine Spec.bind (Q1 := fun _ => True) ?_ ?_)
  | (intro _ _)
  | split)

theorem mouseX10_spec (seq : Bytes) : Spec (mouseX10 seq) Outcome.good := by
  unfold mouseX10 seqErr
  mspec

theorem g3_spec (T : Tables) (two : Bool) (seq : Bytes) : Spec (g3 T two seq) Outcome.good := by
  unfold g3 seqErr
  mspec

theorem csi_spec (T : Tables) (two : Bool) (seq : Bytes) : Spec (csi T two seq) Outcome.good := by
  unfold csi
  refine Spec.bind (next_ext _) ?_
  intro a _
  split
  split
  · exact Spec.pure trivial
  split
  · exact mouseX10_spec _
  refine Spec.bind (Q1 := fun _ => True) ?_ ?_
  · split
    · refine Spec.bind (next_ext _) ?_
      intro _ _
      split
      exact Spec.pure trivial
    · exact Spec.pure trivial
  intro b _
  split
  refine Spec.bind (csiRun_spec _ _ _) ?_
  intro res hres
  split
  · exact Spec.pure (hres _ rfl)
  · exact Spec.pure (finishCSI_good _ _ _ _ _ _)

theorem readEventTail_spec (T : Tables) (r0 : Nat) : Spec (readEventTail T r0) Outcome.good := by
  unfold readEventTail
  simp only
  split
  · refine Spec.bind (next_ext _) ?_
    intro a _
    refine Spec.bind (Q1 := fun _ => True) ?_ ?_
    · mspec
    intro b _
    repeat' first
      | exact Spec.pure trivial
      | exact csi_spec _ _ _
      | exact g3_spec _ _ _
      | split
  · exact Spec.pure trivial

end C31
