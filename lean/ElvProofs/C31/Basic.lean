/-
C31 helper lemmas: what every timed read does to the source (`Ext`), a small
Hoare-style rule set for the reader monad, and the per-function facts the
property theorems are assembled from.
-/
import ElvModel.C31.Model
namespace C31
open Go

/-! ### Running computations -/

@[simp] theorem run_pure {α} (a : α) (s : Src) : (pure a : M α).run s = (a, s) := rfl
@[simp] theorem run_bind {α β} (m : M α) (f : α → M β) (s : Src) :
    (m >>= f).run s = (f (m.run s).1).run (m.run s).2 := rfl
@[simp] theorem run_remaining (s : Src) : remaining.run s = (s.items.length, s) := rfl

/-- `s'` is reachable from `s` by timed reads only: the unread items are a
suffix of the old ones and every timeout logged in between is a finite one. -/
structure Ext (s s' : Src) : Prop where
  suffix : s'.items <:+ s.items
  log : ∃ l, s'.log = s.log ++ l ∧ ∀ t ∈ l, t.timed = true

theorem Ext.refl (s : Src) : Ext s s := ⟨List.suffix_refl _, [], by simp, by simp⟩

theorem Ext.trans {a b c : Src} (h1 : Ext a b) (h2 : Ext b c) : Ext a c := by
  obtain ⟨l1, e1, t1⟩ := h1.log
  obtain ⟨l2, e2, t2⟩ := h2.log
  refine ⟨h2.suffix.trans h1.suffix, l1 ++ l2, by rw [e2, e1, List.append_assoc], ?_⟩
  intro t ht
  rcases List.mem_append.mp ht with h | h
  · exact t1 t h
  · exact t2 t h

theorem Ext.length_le {s s' : Src} (h : Ext s s') : s'.items.length ≤ s.items.length :=
  h.suffix.length_le

/-- Hoare-style statement: from every source, `m` returns a value satisfying
`Q` and leaves a source reachable by timed reads. -/
def Spec {α} (m : M α) (Q : α → Prop) : Prop :=
  ∀ s, Q (m.run s).1 ∧ Ext s (m.run s).2

theorem Spec.pure {α} {Q : α → Prop} {a : α} (h : Q a) : Spec (pure a : M α) Q :=
  fun s => ⟨h, Ext.refl s⟩

theorem Spec.bind {α β} {m : M α} {f : α → M β} {Q1 : α → Prop} {Q2 : β → Prop}
    (hm : Spec m Q1) (hf : ∀ a, Q1 a → Spec (f a) Q2) : Spec (m >>= f) Q2 := by
  intro s
  have h1 := hm s
  have h2 := hf _ h1.1 (m.run s).2
  exact ⟨h2.1, h1.2.trans h2.2⟩

theorem Spec.mono {α} {m : M α} {Q1 Q2 : α → Prop} (hm : Spec m Q1) (h : ∀ a, Q1 a → Q2 a) :
    Spec m Q2 := fun s => ⟨h _ (hm s).1, (hm s).2⟩

theorem Spec.remaining : Spec remaining (fun _ => True) := fun s => ⟨trivial, Ext.refl s⟩

/-! ### The byte source -/

theorem readByteAux_suffix (timed : Bool) (l : List Item) : (readByteAux timed l).2 <:+ l := by
  induction l with
  | nil => simp [readByteAux]
  | cons a t ih =>
    cases a with
    | byte b => simp [readByteAux]
    | gap =>
      cases timed with
      | true => simp [readByteAux]
      | false =>
        simp only [readByteAux]
        exact ih.trans (List.suffix_cons _ _)

/-- Every read of a non-empty source consumes at least one item. -/
theorem readByteAux_lt (timed : Bool) (l : List Item) (h : l ≠ []) :
    (readByteAux timed l).2.length < l.length := by
  cases l with
  | nil => exact absurd rfl h
  | cons a t =>
    cases a with
    | byte b => simp [readByteAux]
    | gap =>
      cases timed with
      | true => simp [readByteAux]
      | false =>
        simp only [readByteAux]
        exact Nat.lt_succ_of_le (readByteAux_suffix _ _).length_le

/-- A successful read consumes at least one item. -/
theorem readByteAux_ok_lt (timed : Bool) (l : List Item) (b : UInt8)
    (h : (readByteAux timed l).1 = .ok b) : (readByteAux timed l).2.length < l.length := by
  cases l with
  | nil => simp [readByteAux] at h
  | cons a t => exact readByteAux_lt _ _ (by simp)

theorem run_readByte (t : Timeout) (s : Src) :
    (readByte t).run s =
      ((readByteAux t.timed s.items).1, { items := (readByteAux t.timed s.items).2, log := s.log ++ [t] }) := rfl

theorem readByte_ext (t : Timeout) (ht : t.timed = true) : Spec (readByte t) (fun _ => True) := by
  intro s
  rw [run_readByte]
  exact ⟨trivial, readByteAux_suffix _ _, [t], rfl, by simp [ht]⟩

theorem readCont_ext (n r : Nat) : Spec (readCont n r) (fun _ => True) := by
  induction n generalizing r with
  | zero => exact Spec.pure trivial
  | succ n ih =>
    unfold readCont
    refine Spec.bind (readByte_ext .utf8Seq rfl) ?_
    intro a _
    split
    · exact Spec.pure trivial
    · exact ih _

/-- The part of `readRune` after its first byte. -/
def runeAfter (leader : UInt8) : M (Except RdErr Nat) :=
  let x := leader.toNat
  if x / 128 = 0 then readCont 0 x
  else if x / 32 = 6 then readCont 1 (x % 32)
  else if x / 16 = 14 then readCont 2 (x % 16)
  else if x / 8 = 30 then readCont 3 (x % 8)
  else readCont 0 0

theorem runeAfter_ext (b : UInt8) : Spec (runeAfter b) (fun _ => True) := by
  unfold runeAfter
  simp only
  repeat' split
  all_goals exact readCont_ext _ _

theorem run_readRune (t : Timeout) (s : Src) :
    (readRune t).run s =
      match (readByte t).run s with
      | (.error e, s') => (.error e, s')
      | (.ok b, s') => (runeAfter b).run s' := by
  show (readByte t >>= _).run s = _
  rw [run_bind]
  rcases h : (readByte t).run s with ⟨r, s'⟩
  cases r <;> rfl

theorem readRune_ext (t : Timeout) (ht : t.timed = true) : Spec (readRune t) (fun _ => True) := by
  intro s
  rw [run_readRune]
  have h1 := readByte_ext t ht s
  rcases h : (readByte t).run s with ⟨r, s'⟩
  rw [h] at h1
  cases r with
  | error e => exact ⟨trivial, h1.2⟩
  | ok b => exact ⟨trivial, h1.2.trans (runeAfter_ext b s').2⟩

/-- A rune was read only if at least one item was consumed. -/
theorem readRune_ok_lt (t : Timeout) (s : Src) (r : Nat) (h : ((readRune t).run s).1 = .ok r) :
    ((readRune t).run s).2.items.length < s.items.length := by
  rw [run_readRune] at h ⊢
  rw [run_readByte] at h ⊢
  rcases hb : (readByteAux t.timed s.items).1 with e | b
  · simp [hb] at h
  · simp only [hb] at h ⊢
    have h1 := readByteAux_ok_lt _ _ _ hb
    have h2 := (runeAfter_ext b { items := (readByteAux t.timed s.items).2, log := s.log ++ [t] }).2.length_le
    exact Nat.lt_of_le_of_lt h2 h1

/-- The first, untimed read of an event: consumes at least one item of a
non-empty source, logs exactly one untimed read followed by timed ones. -/
theorem readRune_untimed (s : Src) :
    ((readRune .untimed).run s).2.items <:+ s.items ∧
      (s.items ≠ [] → ((readRune .untimed).run s).2.items.length < s.items.length) ∧
      ∃ l, ((readRune .untimed).run s).2.log = s.log ++ Timeout.untimed :: l ∧ ∀ t ∈ l, t.timed = true := by
  rw [run_readRune, run_readByte]
  have hsuf := readByteAux_suffix false s.items
  rcases hb : (readByteAux Timeout.untimed.timed s.items).1 with e | b
  · exact ⟨hsuf, fun hne => readByteAux_lt _ _ hne, [], by simp, by simp⟩
  · simp only []
    have h2 := (runeAfter_ext b { items := (readByteAux Timeout.untimed.timed s.items).2, log := s.log ++ [.untimed] }).2
    obtain ⟨l, hl, htl⟩ := h2.log
    refine ⟨h2.suffix.trans hsuf, fun hne => Nat.lt_of_le_of_lt h2.length_le (readByteAux_lt _ _ hne), l, ?_, htl⟩
    rw [hl]; simp

/-! ### `next`: the timed rune read inside a sequence -/

theorem next_ext (seq : Bytes) : Spec (next seq) (fun _ => True) := by
  unfold next
  refine Spec.bind (readRune_ext .keySeq rfl) ?_
  intro a _
  split <;> exact Spec.pure trivial

theorem run_next (seq : Bytes) (s : Src) :
    (next seq).run s =
      match (readRune .keySeq).run s with
      | (.error _, s') => ((eos, seq), s')
      | (.ok r, s') => (((r : Int), seq ++ encodeRune r), s') := by
  show (readRune .keySeq >>= _).run s = _
  rw [run_bind]
  rcases h : (readRune .keySeq).run s with ⟨r, s'⟩
  cases r <;> rfl

/-- `next` returns `runeEndOfSeq` or a non-negative rune that cost at least one item. -/
theorem next_cases (seq : Bytes) (s : Src) :
    ((next seq).run s).1.1 = eos ∨
      (0 ≤ ((next seq).run s).1.1 ∧ ((next seq).run s).2.items.length < s.items.length) := by
  rw [run_next]
  rcases h : (readRune .keySeq).run s with ⟨r, s'⟩
  cases r with
  | error e => left; rfl
  | ok r =>
    right
    have := readRune_ok_lt .keySeq s r (by rw [h])
    rw [h] at this
    exact ⟨Int.natCast_nonneg r, this⟩

end C31
