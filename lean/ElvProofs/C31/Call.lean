/-
C31 helper lemmas, part 4: one `ReadEvent` call and the reader loop.
-/
import ElvProofs.C31.Text
namespace C31
open Go

/-- What one call of a reader does, from any source: it ends in an event or an
error, the unread input is a suffix of what was there, at least one item of a
non-empty input is consumed, and the reads it performs are one untimed read
followed by timed reads only. -/
def CallSpec (m : M Outcome) : Prop :=
  ∀ s : Src,
    (m.run s).1.good ∧ (m.run s).2.items <:+ s.items ∧
      (s.items ≠ [] → (m.run s).2.items.length < s.items.length) ∧
      ∃ l, (m.run s).2.log = s.log ++ Timeout.untimed :: l ∧ ∀ t ∈ l, t.timed = true

theorem readEvent_callSpec (T : Tables) : CallSpec (readEvent T) := by
  intro s
  rw [run_readEvent]
  obtain ⟨hsuf, hlt, l, hl, htl⟩ := readRune_untimed s
  rcases h : (readRune .untimed).run s with ⟨r, s1⟩
  rw [h] at hsuf hlt hl
  cases r with
  | error e => exact ⟨trivial, hsuf, hlt, l, hl, htl⟩
  | ok r0 =>
    obtain ⟨hgood, hext⟩ := readEventTail_spec T r0 s1
    obtain ⟨l2, hl2, htl2⟩ := hext.log
    refine ⟨hgood, hext.suffix.trans hsuf, fun hne => Nat.lt_of_le_of_lt hext.length_le (hlt hne), l ++ l2, ?_, ?_⟩
    · show ((readEventTail T r0).run s1).2.log = _
      rw [hl2, hl]; simp
    · intro t ht
      rcases List.mem_append.mp ht with h | h
      · exact htl t h
      · exact htl2 t h

theorem readRawEvent_callSpec : CallSpec readRawEvent := by
  intro s
  rw [run_readRawEvent]
  obtain ⟨hsuf, hlt, l, hl, htl⟩ := readRune_untimed s
  rcases h : (readRune .untimed).run s with ⟨r, s1⟩
  rw [h] at hsuf hlt hl
  cases r with
  | error e => exact ⟨trivial, hsuf, hlt, l, hl, htl⟩
  | ok r0 => exact ⟨trivial, hsuf, hlt, l, hl, htl⟩

/-- The observation of one call that the property asks for. -/
def Call.ok (c : Call) : Prop :=
  c.out.good ∧ 1 ≤ c.consumed ∧ ∃ l, c.log = Timeout.untimed :: l ∧ ∀ t ∈ l, t.timed = true

theorem call_spec {m : M Outcome} (hm : CallSpec m) (items : List Item) (hne : items ≠ []) :
    (call m items).1.ok ∧ (call m items).1.consumed ≤ items.length ∧
      (call m items).2 = items.drop (call m items).1.consumed := by
  obtain ⟨hgood, hsuf, hlt, l, hl, htl⟩ := hm { items := items, log := [] }
  have hlt := hlt hne
  have hdrop := List.suffix_iff_eq_drop.mp hsuf
  unfold call
  simp only at hlt hdrop hl hsuf ⊢
  refine ⟨⟨hgood, ?_, l, by simpa using hl, htl⟩, by omega, hdrop⟩
  show 1 ≤ items.length - (m.run { items := items, log := [] }).2.items.length
  omega

def consumedSum : List (Option Call) → Nat
  | [] => 0
  | none :: t => consumedSum t
  | some c :: t => c.consumed + consumedSum t

/-- With fuel for the items that are left, the loop never stalls: every entry
is a call that is `ok`, and together the calls consume the whole stream. -/
theorem eventsFuel_total {m : M Outcome} (hm : CallSpec m) (fuel : Nat) (items : List Item)
    (hf : items.length ≤ fuel) :
    (∀ e ∈ eventsFuel m fuel items, ∃ c, e = some c ∧ c.ok) ∧
      consumedSum (eventsFuel m fuel items) = items.length := by
  induction fuel generalizing items with
  | zero =>
    have : items = [] := List.length_eq_zero_iff.mp (Nat.le_zero.mp hf)
    subst this
    simp [eventsFuel, consumedSum]
  | succ fuel ih =>
    by_cases hne : items = []
    · subst hne
      simp [eventsFuel, consumedSum]
    · rw [eventsFuel_succ_ne m fuel items hne]
      obtain ⟨hok, hle, hrest⟩ := call_spec hm items hne
      have h1 : 1 ≤ (call m items).1.consumed := hok.2.1
      have hlen : (call m items).2.length = items.length - (call m items).1.consumed := by
        rw [hrest, List.length_drop]
      obtain ⟨ihall, ihsum⟩ := ih (call m items).2 (by omega)
      refine ⟨?_, ?_⟩
      · intro e he
        rcases List.mem_cons.mp he with h | h
        · exact ⟨_, h, hok⟩
        · exact ihall e h
      · simp only [consumedSum, ihsum, hlen]
        omega

end C31
