import ElvProofs.C32.Inv
import ElvProofs.C32.Progress
import ElvProofs.C32.AcceptSound
import ElvProofs.C32.Liveness
import ElvProofs.C32.FairExample
open C32

/-! C32 — the editor event loop (pkg/cli/loop.go) handles events serially and
never loses a redraw.  All theorems quantify over `Reachable` states of the
protocol model, i.e. over every interleaving of the loop with any number of
`Redraw` / `Input` / `Return` calls and every resolution of `select`. -/

/-- Events are handled in arrival order: what `inputCh` accepted is exactly
what has been handled, then the event taken but not yet handled, then the
buffer; in particular the handled events are a prefix of the arrivals, and the
buffer never exceeds `inputChSize`. -/
theorem C32_arrival_order (s : State) (h : Reachable s) :
    arrived s.log = handled s.log ++ cur s.pc ++ s.inputCh ∧
    handled s.log <+: arrived s.log ∧ s.inputCh.length ≤ inputCap := by
  have hi := (Inv_of_reachable h).arrival
  refine ⟨hi.1, ?_, hi.2⟩
  rw [hi.1, List.append_assoc]
  exact List.prefix_append _ _

example : ∃ s, Reachable s ∧ handled s.log = [7] ∧ arrived s.log = [7, 8] :=
  ⟨_, reachable_run (ls := [.inp 7, .inp 8, .extract false, .drawStart, .drawEnd, .selIn 7, .hStart]) .init rfl,
    by decide, by decide⟩

/-- One at a time: callback begins and ends alternate in the log, and a
callback is open exactly when the loop's pc is inside one. -/
theorem C32_callbacks_serial (s : State) (h : Reachable s) :
    Serial s.log ∧ cbOpen s.log = inCallback s.pc :=
  ⟨(Inv_of_reachable h).serial.2, (Inv_of_reachable h).serial.1⟩

/-- No lost redraw, safety form: if a request has been issued since the last
extraction of the flag, then the token is in `redrawCh`, or the loop is at a
pc from which it reaches the top of `Run` without blocking, or it has taken a
result out of `returnCh`. -/
theorem C32_no_lost_redraw (s : State) (h : Reachable s) (hp : pending s.log = true) :
    s.token = true ∨ nonBlockingPc s.pc = true ∨ returningPc s.pc = true :=
  (Inv_of_reachable h).pend hp

example : ∃ s, Reachable s ∧ pending s.log = true ∧ s.pc = .sel :=
  ⟨_, reachable_run (ls := [.extract false, .drawStart, .drawEnd, .r1 true, .r2 true]) .init rfl,
    by decide, by decide⟩

/-- While a request is pending the loop goroutine is never stuck: it has an
enabled step, or the mutex it waits for is held by a `Redraw` call whose
remaining step is enabled and frees it. -/
theorem C32_pending_redraw_not_blocked (s : State) (h : Reachable s) (hp : pending s.log = true)
    (hd : ∀ r, s.pc ≠ .done r) :
    (∃ l, l.isLoop = true ∧ (step s l).isSome = true) ∨
    (∃ full s', s.mu = some full ∧ step s (.r2 (!s.token)) = some s' ∧ s'.mu = none) := by
  cases hm : s.mu with
  | some full =>
    obtain ⟨s', h1, h2⟩ := mutex_released s full hm
    exact .inr ⟨full, s', rfl, h1, h2⟩
  | none =>
    refine .inl (loop_enabled s (fun _ => hm) ?_ hd)
    intro hsel
    rcases C32_no_lost_redraw s h hp with ht | hn | hr
    · exact .inr (.inr ht)
    · simp [hsel, nonBlockingPc] at hn
    · simp [hsel, returningPc] at hr

/-- Bounded progress: an execution in which the loop takes more than
`rank s + 4·(number of Input steps)` steps contains the start of a redraw
callback.  (`rank s ≤ 4·|inputCh| + 6`.) -/
theorem C32_redraw_within_bound (s s' : State) (ls : List Label) (hrun : run s ls = some s')
    (hmany : rank s + 4 * ls.countP Label.isInput < ls.countP Label.isLoop) :
    ∃ l ∈ ls, l.isRedrawStart = true := by
  apply Classical.byContradiction
  intro hne
  have hn : ∀ l ∈ ls, l.isRedrawStart = false := by
    intro l hl
    cases hb : l.isRedrawStart with
    | false => rfl
    | true => exact absurd ⟨l, hl, hb⟩ hne
  have := run_bound hrun hn
  omega

/-- Every redraw request is followed by a redraw that starts after it, unless
the loop has returned — over infinite executions, under the fairness
assumptions spelled out in `FairExec` (the loop goroutine keeps being
scheduled and is not starved of the mutex; the environment stops sending
input events eventually, because `Run` deliberately consumes all queued events
before redrawing). -/
theorem C32_redraw_eventually (σ : Nat → State) (lab : Nat → Label) (hf : FairExec σ lab)
    (i : Nat) (hp : pending (σ i).log = true) :
    ∃ j, i ≤ j ∧ ((lab j).isRedrawStart = true ∨ ∃ r, (σ j).pc = .done r) :=
  redraw_eventually σ lab hf i hp

/-- No downgrade: in the log, every extraction of the flag that follows a
`Redraw(true)` request yields `true` and every ordinary redraw carries exactly
the flag extracted for it; and as long as a full request has not been
extracted the flag stays set (also when the loop returns instead). -/
theorem C32_no_downgrade (s : State) (h : Reachable s) :
    NoDowngrade s.log ∧ (pendingFull s.log = true → s.flag = true) :=
  ⟨(Inv_of_reachable h).noDowngrade, (Inv_of_reachable h).full⟩

/-- A requested full redraw is served by a *full* redraw: under the same
fairness assumptions, after a `Redraw(true)` request an ordinary redraw with
the full flag starts, unless the final redraw starts or `Run` has returned.
(An ordinary non-full redraw whose flag was extracted before the request may
start in between; the request stays pending across it.) -/
theorem C32_full_redraw_eventually (σ : Nat → State) (lab : Nat → Label) (hf : FairExec σ lab)
    (i : Nat) (hp : pendingFull (σ i).log = true) :
    ∃ j, i ≤ j ∧ ((lab j = .drawStart ∧ (σ j).pc = .draw true) ∨ lab j = .fStart ∨ ∃ r, (σ j).pc = .done r) :=
  full_redraw_eventually σ lab hf i hp

/-- The liveness hypotheses are satisfiable: a concrete infinite fair execution
with a full request pending at index 2. -/
example : FairExec demoState demoLab ∧ pendingFull (demoState 2).log = true ∧ pending (demoState 2).log = true :=
  ⟨demo_fair, demo_pending, pending_of_pendingFull demo_pending⟩

example : ∃ s, Reachable s ∧ s.log.head? = some (.drawStart true) :=
  ⟨_, reachable_run (ls := [.extract false, .r1 true, .drawStart, .r2 true, .drawEnd, .selTok, .extract true, .drawStart])
    .init rfl, by decide⟩

/-- The loop returns the first committed result: the result the loop has
taken out of `returnCh` is the oldest one that `returnCh` ever accepted. -/
theorem C32_first_return (s : State) (h : Reachable s) (r : Ret) (hr : r ∈ retOf s.pc) :
    (commits s.log).head? = some r := by
  have hi := (Inv_of_reachable h).ret
  unfold InvRet at hi
  rw [hi]
  cases hpc : s.pc <;> simp_all [retOf]

/-- Exactly one final redraw, as the last callback: when `Run` has returned,
one final redraw was started, and the newest two callback observations are its
begin and end. Before the loop takes a result there is none. -/
theorem C32_one_final_redraw (s : State) (h : Reachable s) :
    (∀ r, s.pc = .done r → finals s.log = 1 ∧ ∃ rest, callbacks s.log = .finalEnd :: .finalStart :: rest) ∧
    (returningPc s.pc = false → finals s.log = 0) := by
  have hi := (Inv_of_reachable h).final
  unfold InvFinal at hi
  constructor
  · intro r hr; rw [hr] at hi; exact hi
  · intro hn; cases hpc : s.pc <;> simp_all [returningPc]

example : ∃ s, Reachable s ∧ s.pc = .done 5 ∧ commits s.log = [5, 6] :=
  ⟨_, reachable_run (ls := [.inp 7, .extract false, .drawStart, .drawEnd, .selIn 7, .hStart, .ret 5 true, .ret 9 false,
      .hEnd, .pollRet (some 5), .ret 6 true, .fStart, .fEnd, .retn 5]) .init rfl, by decide, by decide⟩

/-- The trace acceptor used by the driver only holds reachable model states:
whatever entries it is fed, every surviving candidate was produced from the
initial state by `step`.  So an accepted recorded trace is an execution of the
model and all the theorems above apply to it. -/
theorem C32_acceptor_sound (es : List Entry) : ∀ c ∈ es.foldl accept [Cand.init], Reachable c.s :=
  acceptAll_ok es
