/-
C35 — Markdown rendering is total and agrees with CommonMark on the supported
subset.

Level: PARTIAL.  Proved here: totality of the model of the WHOLE BLOCK PHASE
of md.go (`renderBlocks`: a fold over the lines, no bound check of the
container stack ever fails, the marker loop never runs out of fuel), its
invariance under line-number shifts and its locality (ops of non-interacting
documents concatenate); termination (fuel sufficiency) and panic freedom of
the model of `inline.go` processEmphasis; termination of the reference
renderer's emphasis resolution (its tokenizer and line fold are structurally
recursive: terminating by construction); the reference escapes all text and
its HTML is well nested.  NOT proved (`…_full` below): totality of the inline
phase beyond emphasis and of the codecs, and agreement elvish = CommonMark;
both are differential (see notes/C35.md).
-/
import ElvModel.C35.Model
import ElvModel.C35.RefHtml
import ElvProofs.C35.Emph
import ElvProofs.C35.Markers
import ElvProofs.C35.Ref
import ElvModel.C35.Block
import ElvProofs.C35.BlockTotal
import ElvProofs.C35.BlockConcat
import ElvProofs.C35.BlockBound
import ElvProofs.C35.BlockPara
import ElvProofs.C35.BlockNest
import ElvProofs.C35.WellNested
open C35 Go

/-! ## The property at full strength (not proved) -/

/-- Totality and conformance for an abstract implementation `impl` of
`md.RenderString(·, HTMLCodec)`: it returns on every input (it is a total
function: no crash, no hang) and equals the reference rendering (lists forced
loose, elvish's serialisation) on every document of the declared subset the
reference accepts. -/
def C35_full (impl : Bytes → Bytes) : Prop :=
  ∀ doc, inSubset stdU doc = true → ∀ h, render stdU true doc = some h → impl doc = h

/-! ## inline.go: processEmphasis -/

/-- TERMINATION of the model of `processEmphasis`: started from any state with
fuel `Σ_{d ∈ right} (len(text d) + 1) + 1`, the loop finishes — every iteration
either moves past a delimiter or consumes at least one character of the
current closer. -/
theorem C35_emph_loop_terminates (s : PE) : peLoop (peMeasure s + 1) s ≠ .fuel :=
  peLoop_fuel (peMeasure s + 1) s (Nat.lt_succ_self _)

/-- NO SLICE PANIC: if every live delimiter still has at least one character of
text (the delimiter-stack invariant), `Text[1:]` / `Text[2:]` never goes out
of range, whatever the fuel. -/
theorem C35_emph_loop_no_panic (fuel : Nat) (s : PE) (h : PEInv s) : peLoop fuel s ≠ .panic :=
  peLoop_no_panic fuel s h

/-- Both, for the whole model of `inlineParser.render` on a text whose only
metacharacters are `*` and `_`: it neither runs out of fuel nor panics, for
every input and every instance of the Unicode predicates. -/
theorem C35_emph_total (G : GoU) (text : Bytes) :
    (∀ (_ : renderEmph G text = .fuel), False) ∧ (∀ (_ : renderEmph G text = .panic), False) := by
  unfold renderEmph
  generalize hst : tokScan G { pieces := [], delims := [], prev := NL.toNat, skip := 0, unsupported := false } text = st
  have hpos : ∀ d ∈ st.delims, 1 ≤ d.rem := by
    rw [← hst]
    exact tokScan_delims_pos G text _ (by intro d hd; cases hd)
  have hinv : PEInv { left := [], right := st.delims.reverse, ob := [], pieces := st.pieces.reverse } :=
    ⟨(by intro d hd; simp at hd), (by intro d hd; exact hpos d (List.mem_reverse.mp hd))⟩
  have h1 := C35_emph_loop_terminates { left := [], right := st.delims.reverse, ob := [], pieces := st.pieces.reverse }
  have h2 := C35_emph_loop_no_panic
    (peMeasure { left := [], right := st.delims.reverse, ob := [], pieces := st.pieces.reverse } + 1) _ hinv
  simp only []
  by_cases hu : st.unsupported = true
  · simp [hu]
  · simp only [hu]
    cases hp : peLoop (peMeasure { left := [], right := st.delims.reverse, ob := [], pieces := st.pieces.reverse } + 1)
        { left := [], right := st.delims.reverse, ob := [], pieces := st.pieces.reverse } with
    | fuel => exact absurd hp h1
    | panic => exact absurd hp h2
    | ok s => simp

set_option maxRecDepth 4000 in
/-- non-vacuity: `*a*` is emphasis -/
example : (match renderEmph goStdU [0x2A, 0x61, 0x2A] with
    | .ops l => l == [IOp.emStart, .text [0x61], .emEnd]
    | _ => false) = true := by decide

/-- a state satisfying the invariant exists and is non-trivial -/
example : PEInv { left := [], right := [{ id := 0, typ := 0x2A, n := 2, rem := 2, canOpen := true, canClose := false }],
                  ob := [], pieces := [] } :=
  ⟨(by intro d hd; simp at hd), (by intro d hd; simp at hd; subst hd; decide)⟩

/-- every match made by the loop obeys the rule of 3 and the can-open /
same-character conditions of the spec (by construction of `findOp`) -/
theorem C35_emph_opener_ok (c : D) (bot : Bot) (l : List D) (o : D) (rest : List D)
    (h : findOp c bot l = some (o, rest)) : openerOK o c = true := by
  induction l with
  | nil => simp [findOp] at h
  | cons p ps ih =>
    unfold findOp at h
    split at h
    · cases h
    · split at h
      · rename_i hok
        injection h with h; injection h with h1 h2
        subst h1; exact hok
      · exact ih h

/-! ## md.go: parseStartingMarkers -/

/-- TERMINATION of the model of `parseStartingMarkers`: with fuel
`len(line) + 1` the loop over container markers finishes — every iteration
that continues removes a non-empty marker from the line. -/
theorem C35_markers_terminate (line : Bytes) (newParagraph : Bool) :
    startingMarkers (line.length + 1) line newParagraph [] ≠ none :=
  startingMarkers_fuel (line.length + 1) line newParagraph [] (Nat.lt_succ_self _)

set_option maxRecDepth 8000 in
/-- non-vacuity: `> - a` opens a block quote and a bullet item of indent 2 -/
example : startingMarkers 6 [0x3E, 0x20, 0x2D, 0x20, 0x61] true [] =
    some ([0x61], [.quote, .bullet 0x2D 2]) := by decide

/-! ## md.go: the whole block phase (`blockParser.render`, lean/ElvModel/C35/Block.lean) -/

/-- The main loop is STRUCTURAL RECURSION on the list of lines: every iteration
consumes exactly one line (`backup()` + re-reading a line after a leaf block is
the second call of `stepNormal` inside `stepBlk`, not another iteration), so
`renderBlocks` is a total function by construction. -/
theorem C35_block_loop_structural (st : BSt) (ln : Int) (l : Bytes) (rest : List Bytes) :
    blockLoop st ln (l :: rest) =
      (stepBlk st ln l rest.head?).2 ++ blockLoop (stepBlk st ln l rest.head?).1 (ln + 1) rest := rfl

/-- TOTALITY of the block phase for ALL byte inputs: from any parser state and
for any lines, no bound check on the container stack fails (`containers[matched-1]`,
`containers[:keep]`, `len(containers)-1`) and the container-marker loop never
runs out of its fuel `len(line)+1`. -/
theorem C35_block_total_from (st : BSt) (ln : Int) (lines : List Bytes) :
    BOp.panic ∉ blockLoop st ln lines ∧ BOp.fuel ∉ blockLoop st ln lines := by
  have h := blockLoop_clean lines st ln
  exact ⟨fun hp => by have := h _ hp; simp [BOp.bad] at this,
         fun hf => by have := h _ hf; simp [BOp.bad] at this⟩

theorem C35_block_total (doc : Bytes) :
    BOp.panic ∉ renderBlocks doc ∧ BOp.fuel ∉ renderBlocks doc :=
  C35_block_total_from initSt 1 (docLines doc)

/-- non-vacuity: a quote with a list, then a fenced code block whose fence is
closed by the end of the quote (`backup()`), then a paragraph -/
example : renderBlocks (bs "> - a\n> ```\nb\n") =
    [.opn 1 .quote 0, .opn 1 .bulletList 0, .opn 1 .bulletItem 0, .para 1 (bs "a"),
     .cls 2 .bulletItem, .cls 2 .bulletList, .code 2 [] [], .cls 3 .quote, .para 3 (bs "b")] := by
  decide +kernel

/-- THE OP TRACE IS WELL NESTED FOR EVERY INPUT: the container ops the block
phase hands to the codec (`OpBlockquoteStart/End`, `Op…ListStart/End`,
`OpListItemStart/End`) form a Dyck word — every End closes the innermost open
container of the same type, and everything is closed at the end — from any
parser state whose open containers are `stack st`, in particular for
`renderBlocks doc` for ALL byte strings `doc`.  (This is the implementation-side
counterpart of `C35_ref_well_nested`: with a codec that writes one balanced
fragment per leaf op, the output is well nested whatever the input.) -/
theorem C35_block_trace_balanced_from (st : BSt) (ln : Int) (lines : List Bytes) :
    balance (stack st) (blockLoop st ln lines) = some [] :=
  blockLoop_bal lines st ln

theorem C35_block_trace_balanced (doc : Bytes) : balance [] (renderBlocks doc) = some [] :=
  blockLoop_bal (docLines doc) initSt 1

/-- the checker is not trivial: crossed or unclosed containers are rejected -/
example : balance [] [.opn 1 .quote 0, .opn 1 .bulletList 0, .cls 2 .quote, .cls 2 .bulletList] = none ∧
    balance [] [.opn 1 .quote 0] = some [.quote] ∧
    balance [] [.cls 1 .quote] = none := by decide

/-- every container marker parsed by the model of `parseStartingMarkers`
consumes at least one byte of the line: #markers + len(rest) ≤ len(line) -/
theorem C35_markers_consume (line : Bytes) (np : Bool) (rest : Bytes) (cs : List Cont)
    (h : startingMarkers (line.length + 1) line np [] = some (rest, cs)) :
    cs.length + rest.length ≤ line.length := by
  have := startingMarkers_count _ _ _ _ _ _ h
  simpa using this

/-- THE CONTAINER STACK IS BOUNDED BY THE LINE'S LENGTH: one line makes the
stack grow by at most `2·len(line)` containers (a list + an item per marker,
each marker at least one byte) … -/
theorem C35_block_stack_growth (st : BSt) (ln : Int) (l : Bytes) (next : Option Bytes) :
    (stepBlk st ln l next).1.ctrs.length ≤ st.ctrs.length + 2 * l.length :=
  stepBlk_len st ln l next

/-- … so after any prefix `a` of the lines the stack holds at most twice as
many containers as bytes were read -/
theorem C35_block_stack_bounded (a : List Bytes) (nx : Option Bytes) :
    (runLines initSt 1 a nx).1.ctrs.length ≤ 2 * (a.map List.length).sum := by
  have := runLines_len a initSt 1 nx
  simpa [initSt] using this

example : (runLines initSt 1 [bs "> - > a", bs "b"] none).1.ctrs.length = 4 := by decide +kernel

/-- the bound of `C35_markers_consume` is attained: `>>>` is three markers in three bytes -/
example : startingMarkers 4 [0x3E, 0x3E, 0x3E] true [] = some ([], [.quote, .quote, .quote]) := by decide +kernel

/-- The block phase does not depend on absolute line numbers: shifting the
start line (and the line numbers recorded in the state) by `k` shifts every
`LineNo` of the output by `k` and changes nothing else. -/
theorem C35_block_shift (k : Int) (st : BSt) (ln : Int) (lines : List Bytes) :
    blockLoop (st.shift k) (ln + k) lines = (blockLoop st ln lines).map (BOp.shift k) :=
  blockLoop_shift k lines st ln

/-- non-vacuity: an open fenced code block recorded at line 2, shifted by 40 -/
example : blockLoop (BSt.shift 40 { ctrs := [], para := [], mode := .fenced 2 0 0x60 3 [] [bs "x"] }) (3 + 40)
      [bs "y", bs "```", bs "z"] =
    [.code 42 [] [bs "x", bs "y"], .para 45 (bs "z")] := by decide +kernel

/-- LOCALITY: if after the lines `a` the parser is back in its initial state
(nothing open), the ops of `a ++ b` are the ops of `a` followed by the ops of
`b` with line numbers shifted by `len a`. -/
theorem C35_block_local (a b : List Bytes) (opsA : List BOp)
    (h : runLines initSt 1 a b.head? = (initSt, opsA)) :
    blockLoop initSt 1 (a ++ b) = opsA ++ (blockLoop initSt 1 b).map (BOp.shift a.length) :=
  blockLoop_concat a b opsA h

/-- non-vacuity: after `# h` and an empty line nothing is open -/
example : runLines initSt 1 [bs "# h", []] (some (bs "- x")) = (initSt, [.heading 1 1 (bs "h") []]) := by
  decide +kernel

/-- CONCATENATION: for a document `d1` ending in a newline and a document
`d2` that do not interact (`Separable`: nothing is left open after `d1` — no
list or block quote spanning the boundary, no unclosed fence or HTML block),
the block ops of `d1 ++ d2` are those of `d1` followed by those of `d2`
(line numbers shifted).  Every codec consumes the ops in sequence, so the
rendering of blank-line-separated top-level blocks is the concatenation of
their renderings. -/
theorem C35_block_concat (x d2 : Bytes) (h : Separable (x ++ [NL]) d2) :
    renderBlocks (x ++ [NL] ++ d2) =
      renderBlocks (x ++ [NL]) ++ (renderBlocks d2).map (BOp.shift (docLines (x ++ [NL])).length) :=
  renderBlocks_concat x d2 h

/-- A syntactic instance of non-interaction: a top-level PARAGRAPH whose lines
start with a byte that starts no block (`PlainLine`: not space/tab, none of
``- _ * # ` ~ > + <``, not a digit), followed by an empty line, produces one
`para` op and leaves the parser in its initial state — so whatever follows is
rendered exactly as it would be on its own (line numbers shifted). -/
theorem C35_block_paragraph_independent (ls b : List Bytes) (hne : ls ≠ [])
    (hl : ∀ l ∈ ls, PlainLine l) :
    blockLoop initSt 1 (ls ++ [[]] ++ b) =
      [.para 1 (trimSpTab (joinNL ls))] ++
        (blockLoop initSt 1 b).map (BOp.shift ((ls ++ [[]]).length : Int)) :=
  blockLoop_concat (ls ++ [[]]) b _ (runLines_paragraph ls hne hl b.head?)

example : PlainLine [0x66, 0x6F, 0x6F, 0x20, 0x2A, 0x62, 0x2A] := ⟨_, _, rfl, by decide⟩

/-- RENDERING IS CONCATENATION: for every codec that writes each op on its own
and ignores line numbers (`f`; `HTMLCodec.Do` is one: it appends to a
`strings.Builder` and never reads `LineNo`), the rendering of `d1 ++ d2` is the
rendering of `d1` followed by the rendering of `d2` when the two documents do
not interact. -/
theorem C35_render_concat (f : BOp → Bytes) (hf : ∀ k op, f (BOp.shift k op) = f op)
    (x d2 : Bytes) (h : Separable (x ++ [NL]) d2) :
    (renderBlocks (x ++ [NL] ++ d2)).flatMap f =
      (renderBlocks (x ++ [NL])).flatMap f ++ (renderBlocks d2).flatMap f := by
  rw [C35_block_concat x d2 h, List.flatMap_append]
  congr 1
  rw [List.flatMap_map]
  congr 1
  funext op
  exact hf _ op

/-- non-vacuity: a paragraph followed by a blank line, then a heading -/
example : Separable (bs "a\nb\n" ++ [NL]) (bs "# c\n") :=
  ⟨[.para 1 (bs "a\nb")], by decide +kernel, by decide +kernel⟩

/-- and the hypothesis is needed: a list item stays open across the blank line -/
example : renderBlocks (bs "- a\n" ++ [NL] ++ bs "  b\n") ≠
    renderBlocks (bs "- a\n" ++ [NL]) ++ (renderBlocks (bs "  b\n")).map (BOp.shift 2) := by
  decide +kernel

/-! ## the CommonMark reference -/

/-- TERMINATION of the reference's emphasis resolution (`procEmph` with the
fuel `resolveEmph` gives it always returns).  The reference tokenizer `scan`
and the block phase `parseBlocks` (a fold of `stepLine` over the lines) are
structurally recursive, i.e. terminating by construction. -/
theorem C35_ref_emph_terminates (items : List Item) : resolveEmph items ≠ none :=
  resolveEmph_total items

/-- The reference never lets `<`, `>` or `"` coming from text reach the
output: `escHtml` replaces them (and `&`) by entities. -/
theorem C35_ref_text_escaped (s : Bytes) : ∀ b ∈ escHtml s, b ≠ 0x3C ∧ b ≠ 0x3E ∧ b ≠ 0x22 :=
  escHtml_safe s

/-- WELL-NESTEDNESS of the reference's HTML: whenever the reference renders a
document, the output is the flattening of a token list that is a Dyck word
over the tags (`WellNested`), every text token is free of `<`, `>`, `"` and
every attribute value is free of `<`, `>`, `"` (`Ev.Safe`), so the tokenization
of the bytes is unambiguous. -/
theorem C35_ref_well_nested (U : UClass) (loose : Bool) (doc h : Bytes)
    (hr : render U loose doc = some h) :
    ∃ evs : List Ev, flat evs = h ∧ WellNested evs ∧ (∀ e ∈ evs, e.Safe) :=
  ref_well_nested U loose doc h hr

/-- the same at the level of BYTES: the byte-level scanner `scanB` (a model of
the harness oracle `malformedHTML`: tags must match, no stray `<`, `>`, `"`)
accepts the reference's output -/
theorem C35_ref_bytes_balanced (U : UClass) (loose : Bool) (doc h : Bytes)
    (hr : render U loose doc = some h) : scanB [] .text h = true :=
  ref_bytes_balanced U loose doc h hr

example : (render stdU true (bs "> - *a*\n")).isSome = true := by decide +kernel

example : escHtml [0x61, 0x3C, 0x26] = [0x61, 0x26, 0x6C, 0x74, 0x3B, 0x26, 0x61, 0x6D, 0x70, 0x3B] := by decide
