/-
C35 — Markdown rendering is total and agrees with CommonMark on the supported
subset.

Level: PARTIAL.  Proved here: termination (fuel sufficiency) and panic
freedom of the models of elvish's two risky loops (`inline.go`
processEmphasis, `md.go` parseStartingMarkers), termination of the reference
renderer's emphasis resolution (its tokenizer and line fold are structurally
recursive: terminating by construction), and that the reference escapes all
text.  NOT proved (`…_full` below): totality of the whole engine and agreement
elvish = CommonMark; both are differential (see notes/C35.md).
-/
import ElvModel.C35.Model
import ElvModel.C35.RefHtml
import ElvProofs.C35.Emph
import ElvProofs.C35.Markers
import ElvProofs.C35.Ref
open C35 Go

/-! ## The property at full strength (not proved) -/

/-- Totality and conformance for an abstract implementation `impl` of
`md.RenderString(·, HTMLCodec)`: it returns on every input (it is a total
function: no crash, no hang) and equals the reference rendering (lists forced
loose, elvish's serialisation) on every document of the declared subset the
reference accepts. -/
def C35_full (impl : Bytes → Bytes) : Prop :=
  ∀ doc, inSubset stdU doc = true → ∀ h, render stdU true doc = some h → impl doc = h

/-! ## inline.go: processEmphasis -/

/-- TERMINATION of the model of `processEmphasis`: started from any state with
fuel `Σ_{d ∈ right} (len(text d) + 1) + 1`, the loop finishes — every iteration
either moves past a delimiter or consumes at least one character of the
current closer. -/
theorem C35_emph_loop_terminates (s : PE) : peLoop (peMeasure s + 1) s ≠ .fuel :=
  peLoop_fuel (peMeasure s + 1) s (Nat.lt_succ_self _)

/-- NO SLICE PANIC: if every live delimiter still has at least one character of
text (the delimiter-stack invariant), `Text[1:]` / `Text[2:]` never goes out
of range, whatever the fuel. -/
theorem C35_emph_loop_no_panic (fuel : Nat) (s : PE) (h : PEInv s) : peLoop fuel s ≠ .panic :=
  peLoop_no_panic fuel s h

/-- Both, for the whole model of `inlineParser.render` on a text whose only
metacharacters are `*` and `_`: it neither runs out of fuel nor panics, for
every input and every instance of the Unicode predicates. -/
theorem C35_emph_total (G : GoU) (text : Bytes) :
    (∀ (_ : renderEmph G text = .fuel), False) ∧ (∀ (_ : renderEmph G text = .panic), False) := by
  unfold renderEmph
  generalize hst : tokScan G { pieces := [], delims := [], prev := NL.toNat, skip := 0, unsupported := false } text = st
  have hpos : ∀ d ∈ st.delims, 1 ≤ d.rem := by
    rw [← hst]
    exact tokScan_delims_pos G text _ (by intro d hd; cases hd)
  have hinv : PEInv { left := [], right := st.delims.reverse, ob := [], pieces := st.pieces.reverse } :=
    ⟨(by intro d hd; simp at hd), (by intro d hd; exact hpos d (List.mem_reverse.mp hd))⟩
  have h1 := C35_emph_loop_terminates { left := [], right := st.delims.reverse, ob := [], pieces := st.pieces.reverse }
  have h2 := C35_emph_loop_no_panic
    (peMeasure { left := [], right := st.delims.reverse, ob := [], pieces := st.pieces.reverse } + 1) _ hinv
  simp only []
  by_cases hu : st.unsupported = true
  · simp [hu]
  · simp only [hu]
    cases hp : peLoop (peMeasure { left := [], right := st.delims.reverse, ob := [], pieces := st.pieces.reverse } + 1)
        { left := [], right := st.delims.reverse, ob := [], pieces := st.pieces.reverse } with
    | fuel => exact absurd hp h1
    | panic => exact absurd hp h2
    | ok s => simp

set_option maxRecDepth 4000 in
/-- non-vacuity: `*a*` is emphasis -/
example : (match renderEmph goStdU [0x2A, 0x61, 0x2A] with
    | .ops l => l == [IOp.emStart, .text [0x61], .emEnd]
    | _ => false) = true := by decide

/-- a state satisfying the invariant exists and is non-trivial -/
example : PEInv { left := [], right := [{ id := 0, typ := 0x2A, n := 2, rem := 2, canOpen := true, canClose := false }],
                  ob := [], pieces := [] } :=
  ⟨(by intro d hd; simp at hd), (by intro d hd; simp at hd; subst hd; decide)⟩

/-- every match made by the loop obeys the rule of 3 and the can-open /
same-character conditions of the spec (by construction of `findOp`) -/
theorem C35_emph_opener_ok (c : D) (bot : Bot) (l : List D) (o : D) (rest : List D)
    (h : findOp c bot l = some (o, rest)) : openerOK o c = true := by
  induction l with
  | nil => simp [findOp] at h
  | cons p ps ih =>
    unfold findOp at h
    split at h
    · cases h
    · split at h
      · rename_i hok
        injection h with h; injection h with h1 h2
        subst h1; exact hok
      · exact ih h

/-! ## md.go: parseStartingMarkers -/

/-- TERMINATION of the model of `parseStartingMarkers`: with fuel
`len(line) + 1` the loop over container markers finishes — every iteration
that continues removes a non-empty marker from the line. -/
theorem C35_markers_terminate (line : Bytes) (newParagraph : Bool) :
    startingMarkers (line.length + 1) line newParagraph [] ≠ none :=
  startingMarkers_fuel (line.length + 1) line newParagraph [] (Nat.lt_succ_self _)

set_option maxRecDepth 8000 in
/-- non-vacuity: `> - a` opens a block quote and a bullet item of indent 2 -/
example : startingMarkers 6 [0x3E, 0x20, 0x2D, 0x20, 0x61] true [] =
    some ([0x61], [.quote, .bullet 0x2D 2]) := by decide

/-! ## the CommonMark reference -/

/-- TERMINATION of the reference's emphasis resolution (`procEmph` with the
fuel `resolveEmph` gives it always returns).  The reference tokenizer `scan`
and the block phase `parseBlocks` (a fold of `stepLine` over the lines) are
structurally recursive, i.e. terminating by construction. -/
theorem C35_ref_emph_terminates (items : List Item) : resolveEmph items ≠ none :=
  resolveEmph_total items

/-- The reference never lets `<`, `>` or `"` coming from text reach the
output: `escHtml` replaces them (and `&`) by entities. -/
theorem C35_ref_text_escaped (s : Bytes) : ∀ b ∈ escHtml s, b ≠ 0x3C ∧ b ≠ 0x3E ∧ b ≠ 0x22 :=
  escHtml_safe s

example : escHtml [0x61, 0x3C, 0x26] = [0x61, 0x26, 0x6C, 0x74, 0x3B, 0x26, 0x61, 0x6D, 0x70, 0x3B] := by decide
