/-
C42 helper lemmas: the ownership invariant of a form's frame across one
redirection of the fixed code.

* `PidInv`  — `pid` really is the identity of a `*Port`: the allocator's
  counter is above every port of the table, equal pids mean the same port.
* `FileInv T` — for a set `T` of tracked files (the files the form owned when
  it started, and every file opened later): an ownership flag is only set on a
  port whose file is tracked, and every tracked file that is open has an owner
  in the table.  Files outside `T` are never touched.
-/
import ElvProofs.C42.View
import ElvProofs.C42.Route
namespace C42
open Go

/-! ### pids are pointer identities -/

structure PidInv (st : St) : Prop where
  lt : ∀ i p, lookup st.ports i = some p → p.pid < st.nextPid
  inj : ∀ i j p q, lookup st.ports i = some p → lookup st.ports j = some q → p.pid = q.pid → p = q

theorem Installed.closedChans {st st2 : St} {d : Nat} (h : Installed st d st2) :
    st2.w.closedChans = st.w.closedChans := by
  obtain ⟨_, _, _, _, hcc, _⟩ := h
  exact hcc

theorem Installed.pidInv {st st2 : St} {d : Nat} (h : Installed st d st2) (hp : PidInv st) : PidInv st2 := by
  obtain ⟨pnew, fnew, htbl, _, _, hk⟩ := h
  have hnp : st.nextPid ≤ st2.nextPid := by
    rcases hk with ⟨_, _, _, hn⟩ | ⟨_, _, _, hn, _⟩ <;> omega
  have hnew : ∀ p, pnew = some p → p.pid < st2.nextPid ∧
      ∀ j q, lookup st.ports j = some q → p.pid = q.pid → p = q := by
    intro p hpn
    rcases hk with ⟨⟨s, hs⟩, _, _, hn⟩ | ⟨p', hp', hpid, hn, _⟩
    · rw [hs] at hpn
      exact ⟨by rw [hn]; exact hp.lt s p hpn, fun j q hq e => hp.inj s j p q hpn hq e⟩
    · rw [hp'] at hpn; cases hpn
      refine ⟨by omega, fun j q hq e => ?_⟩
      have := hp.lt j q hq
      omega
  constructor
  · intro i p hl
    rw [htbl] at hl; simp only at hl
    split at hl
    · exact (hnew p hl).1
    · have := hp.lt i p hl; omega
  · intro i j p q hi hj e
    rw [htbl] at hi hj; simp only at hi hj
    split at hi <;> split at hj
    · rw [hi] at hj; cases hj; rfl
    · exact (hnew p hi).2 j q hj e
    · exact ((hnew q hj).2 i p hi e.symm).symm
    · exact hp.inj i j p q hi hj e

/-- A port of the new table with the pid of a port of the old table is that port. -/
theorem Installed.same_port {st st2 : St} {d : Nat} (h : Installed st d st2) (hp : PidInv st)
    {o q : Port} {k i : Nat} (ho : lookup st.ports k = some o) (hq : lookup st2.ports i = some q)
    (e : q.pid = o.pid) : q = o := by
  obtain ⟨pnew, fnew, htbl, _, _, hk⟩ := h
  rw [htbl] at hq; simp only at hq
  split at hq
  · rcases hk with ⟨⟨s, hs⟩, _, _, _⟩ | ⟨p', hp', hpid, _, _⟩
    · rw [hs] at hq
      exact hp.inj s k q o hq ho e
    · rw [hp'] at hq; cases hq
      have := hp.lt k o ho
      omega
  · exact hp.inj i k q o hq ho e

theorem release_pidInv {st st' : St} {old : Option Port} {f : Fop} (h : release st old f = .ok st')
    (hp : PidInv st) : PidInv st' := by
  obtain ⟨e1, e2, _, _⟩ := release_shape h
  exact ⟨by rw [e1, e2]; exact hp.lt, by rw [e1]; exact hp.inj⟩

theorem execRedir_pidInv {st : St} {r : Redir} {s : Step} (h : execRedir Cfg.fixed st r = .ok s)
    (hp : PidInv st) : PidInv s.st := by
  rcases execRedir_fixed_cases st r with ⟨e, he⟩ | ⟨d, st2, exc, hin, he⟩
  · rw [he] at h; cases h; exact hp
  · rw [he] at h
    obtain ⟨st3, hr, h3⟩ := bind_eq_ok h
    cases h3
    exact release_pidInv hr (hin.pidInv hp)

theorem execRedirs_pidInv (rs : List Redir) : ∀ {st : St} {s : Step}, execRedirs Cfg.fixed st rs = .ok s →
    PidInv st → PidInv s.st := by
  induction rs with
  | nil => intro st s h hp; unfold execRedirs at h; cases h; exact hp
  | cons r rs ih =>
    intro st s h hp
    unfold execRedirs at h
    obtain ⟨s1, h1, h2⟩ := bind_eq_ok h
    have hp1 := execRedir_pidInv h1 hp
    cases he : s1.exc with
    | some e => rw [he] at h2; cases h2; exact hp1
    | none => rw [he] at h2; exact ih h2 hp1

/-! ### closing through an ownership entry -/

theorem closeHandle_get (w : World) (fo : Option Nat) (h : Nat) :
    (closeHandle w fo).hs[h]? =
      if fo = some h then (w.hs[h]?).map (fun hd => { hd with isOpen := false }) else w.hs[h]? := by
  unfold closeHandle
  cases fo with
  | none => simp
  | some k =>
    simp only
    cases hk : w.hs[k]? with
    | none =>
      simp only
      by_cases e : k = h
      · subst e; simp [hk]
      · simp [e]
    | some hd =>
      simp only [List.getElem?_set]
      by_cases e : k = h
      · subst e
        have := (List.getElem?_eq_some_iff.mp hk).1
        rw [if_pos rfl, if_pos this, if_pos rfl, hk]
        rfl
      · simp [e]

/-- The open files after `formOwnedPort.close`. -/
theorem Fop.close_get {f : Fop} {p : Port} {w w' : World} (h : f.close (some p) w = .ok w') (k : Nat) :
    w'.hs[k]? = if f.file = true ∧ p.file = some k
      then (w.hs[k]?).map (fun hd => { hd with isOpen := false }) else w.hs[k]? := by
  unfold Fop.close at h
  split at h
  · rename_i hu
    cases h
    have : f.file = false := by
      cases hf : f.file
      · rfl
      · simp [hf] at hu
    simp [this]
  · simp only at h
    have h1 : (if f.file = true then closeHandle w p.file else w).hs[k]? =
        if f.file = true ∧ p.file = some k
          then (w.hs[k]?).map (fun hd => { hd with isOpen := false }) else w.hs[k]? := by
      by_cases hf : f.file = true
      · rw [if_pos hf, closeHandle_get]
        simp [hf]
      · rw [if_neg hf]
        simp [hf]
    split at h
    · obtain ⟨_, e2⟩ := closeChan_shape h
      rw [e2]; exact h1
    · cases h; exact h1

/-! ### tracked files -/

structure FileInv (T : Nat → Prop) (st : St) : Prop where
  /-- every file opened from now on is tracked -/
  fresh : ∀ h, st.w.hs.length ≤ h → T h
  /-- a `File` flag is set only where there is a port, and its file is tracked -/
  owner : ∀ i, (fopAt st.fops i).file = true → ∃ p, lookup st.ports i = some p ∧ ∀ h, p.file = some h → T h
  /-- a tracked file that is open is owned by an entry of the table -/
  openOwned : ∀ h hd, T h → st.w.hs[h]? = some hd → hd.isOpen = true →
    ∃ i p, (fopAt st.fops i).file = true ∧ lookup st.ports i = some p ∧ p.file = some h

/-- The invariant while the replaced port is in limbo (taken out of the table,
not yet released). -/
theorem Installed.fileMid {T : Nat → Prop} {st st2 : St} {d : Nat} (hin : Installed st d st2)
    (hf : FileInv T st) :
    (∀ h, st2.w.hs.length ≤ h → T h) ∧
    (∀ i, (fopAt st2.fops i).file = true → ∃ p, lookup st2.ports i = some p ∧ ∀ h, p.file = some h → T h) ∧
    (∀ h hd, T h → st2.w.hs[h]? = some hd → hd.isOpen = true →
      (∃ i p, (fopAt st2.fops i).file = true ∧ lookup st2.ports i = some p ∧ p.file = some h) ∨
      ((fopAt st.fops d).file = true ∧ ∃ o, lookup st.ports d = some o ∧ o.file = some h)) ∧
    (∀ h, ¬ T h → st2.w.hs[h]? = st.w.hs[h]?) := by
  obtain ⟨pnew, fnew, htbl, hown, _, hk⟩ := hin
  have keep : ∀ h, (∃ i p, (fopAt st.fops i).file = true ∧ lookup st.ports i = some p ∧ p.file = some h) →
      (∃ i p, (fopAt st2.fops i).file = true ∧ lookup st2.ports i = some p ∧ p.file = some h) ∨
      ((fopAt st.fops d).file = true ∧ ∃ o, lookup st.ports d = some o ∧ o.file = some h) := by
    rintro h ⟨i, p, hfi, hl, hpf⟩
    by_cases hid : i = d
    · subst hid; exact Or.inr ⟨hfi, p, hl, hpf⟩
    · refine Or.inl ⟨i, p, ?_, ?_, hpf⟩
      · rw [hown]; simp only [hid, if_false]; exact hfi
      · rw [htbl]; simp only [hid, if_false]; exact hl
  have others : ∀ i, i ≠ d → (fopAt st2.fops i).file = true →
      ∃ p, lookup st2.ports i = some p ∧ ∀ h, p.file = some h → T h := by
    intro i hid hi
    rw [hown] at hi; simp only [hid, if_false] at hi
    obtain ⟨p, hl, ht⟩ := hf.owner i hi
    exact ⟨p, by rw [htbl]; simp only [hid, if_false]; exact hl, ht⟩
  have hcase : (fnew = Fop.unowned ∧ st2.w = st.w) ∨
      (∃ p, pnew = some p ∧ fnew = ⟨true, false⟩ ∧ p.file = some st.w.hs.length ∧
        ∃ hd, st2.w.hs = st.w.hs ++ [hd] ∧ hd.isOpen = true) := by
    rcases hk with ⟨_, hfn, hw, _⟩ | ⟨p, hpn, _, _, _, hk⟩
    · exact Or.inl ⟨hfn, hw⟩
    · rcases hk with ⟨hfn, hw⟩ | ⟨hfn, hpf, hd0, hhs, hop⟩
      · exact Or.inl ⟨hfn, hw⟩
      · exact Or.inr ⟨p, hpn, hfn, hpf, hd0, hhs, hop⟩
  rcases hcase with ⟨hfn, hw⟩ | ⟨p, hpn, hfn, hpf, hd0, hhs, hop⟩
  · refine ⟨by rw [hw]; exact hf.fresh, ?_, ?_, by intro h _; rw [hw]⟩
    · intro i hi
      by_cases hid : i = d
      · rw [hown] at hi; simp only [hid, if_true] at hi
        rw [hfn] at hi; cases hi
      · exact others i hid hi
    · intro h hd hT hh ho
      rw [hw] at hh
      exact keep h (hf.openOwned h hd hT hh ho)
  · have hlen : st2.w.hs.length = st.w.hs.length + 1 := by rw [hhs]; simp
    have hld : lookup st2.ports d = some p := by rw [htbl]; simp only [if_true]; exact hpn
    have hfd : (fopAt st2.fops d).file = true := by rw [hown]; simp only [if_true]; rw [hfn]
    refine ⟨fun h hh => hf.fresh h (by omega), ?_, ?_, ?_⟩
    · intro i hi
      by_cases hid : i = d
      · subst hid
        refine ⟨p, hld, fun h hh => ?_⟩
        rw [hpf] at hh; cases hh
        exact hf.fresh _ (Nat.le_refl _)
      · exact others i hid hi
    · intro h hd hT hh ho
      rw [hhs, List.getElem?_append] at hh
      split at hh
      · exact keep h (hf.openOwned h hd hT hh ho)
      · rename_i hge
        have : h = st.w.hs.length := by
          by_cases e : h = st.w.hs.length
          · exact e
          · have : h - st.w.hs.length ≠ 0 := by omega
            cases hm : h - st.w.hs.length with
            | zero => exact absurd hm this
            | succ m => rw [hm] at hh; simp at hh
        subst this
        exact Or.inl ⟨d, p, hfd, hld, hpf⟩
    · intro h hT
      have : h < st.w.hs.length := by
        apply Nat.lt_of_not_le
        intro hle
        exact hT (hf.fresh h hle)
      rw [hhs, List.getElem?_append_left this]

/-- One redirection keeps the file-ownership invariant and leaves every
untracked file as it was. -/
theorem execRedir_fileInv {T : Nat → Prop} {st : St} {r : Redir} {s : Step}
    (h : execRedir Cfg.fixed st r = .ok s) (hp : PidInv st) (hf : FileInv T st) :
    FileInv T s.st ∧ ∀ h, ¬ T h → s.st.w.hs[h]? = st.w.hs[h]? := by
  rcases execRedir_fixed_cases st r with ⟨e, he⟩ | ⟨d, st2, exc, hin, he⟩
  · rw [he] at h; cases h; exact ⟨hf, fun _ _ => rfl⟩
  · rw [he] at h
    obtain ⟨st3, hr, h3⟩ := bind_eq_ok h
    cases h3
    obtain ⟨m1, m2, m3, m4⟩ := hin.fileMid hf
    rcases release_cases st2 (lookup st.ports d) (fopAt st.fops d) with
      ⟨hnone, hrel⟩ | ⟨o, i, q, st3', hold, hq, hpid, hrel, hports3, hw3, _, hown3⟩ | ⟨o, hold, hnf, hrel⟩
    · rw [hrel] at hr; cases hr
      refine ⟨⟨m1, m2, fun h hd hT hh ho => ?_⟩, m4⟩
      rcases m3 h hd hT hh ho with h1 | ⟨_, o, ho', _⟩
      · exact h1
      · rw [hnone] at ho'; cases ho'
    · rw [hrel] at hr; cases hr
      have hqo : q = o := hin.same_port hp hold hq hpid
      subst hqo
      refine ⟨⟨by rw [hw3]; exact m1, ?_, ?_⟩, by intro h hT; rw [hw3]; exact m4 h hT⟩
      · intro n hn
        rw [hports3]
        rw [hown3] at hn; simp only at hn
        by_cases hni : n = i
        · subst hni
          rw [if_pos rfl] at hn
          simp only [Bool.or_eq_true] at hn
          rcases hn with hn | hn
          · exact m2 n hn
          · obtain ⟨p, hl, ht⟩ := hf.owner d hn
            rw [hold] at hl; cases hl
            exact ⟨q, hq, ht⟩
        · rw [if_neg hni] at hn; exact m2 n hn
      · intro h hd hT hh ho
        rw [hw3] at hh
        rw [hports3]
        rcases m3 h hd hT hh ho with ⟨j, p, hj, hl, hpf⟩ | ⟨hof, o', ho', hof'⟩
        · refine ⟨j, p, ?_, hl, hpf⟩
          rw [hown3]; simp only
          split
          · rename_i e; subst e; simp [hj]
          · exact hj
        · rw [hold] at ho'; cases ho'
          refine ⟨i, q, ?_, hq, hof'⟩
          rw [hown3]; simp [hof]
    · rw [hrel] at hr
      obtain ⟨w3, hc, h3⟩ := bind_eq_ok hr
      cases h3
      have hg := Fop.close_get hc
      have hlen := (Fop.close_shape hc).2
      refine ⟨⟨fun h hh => m1 h (by rw [← hlen]; exact hh), m2, ?_⟩, ?_⟩
      · intro h hd hT hh ho
        rw [show ({ st2 with w := w3 } : St).w.hs[h]? = w3.hs[h]? from rfl, hg h] at hh
        split at hh
        · exfalso
          cases hx : st2.w.hs[h]? with
          | none => rw [hx] at hh; cases hh
          | some x => rw [hx] at hh; cases hh; cases ho
        · rename_i hno
          rcases m3 h hd hT hh ho with h1 | ⟨hof, o', ho', hof'⟩
          · exact h1
          · rw [hold] at ho'; cases ho'
            exact absurd ⟨hof, hof'⟩ hno
      · intro h hT
        rw [show ({ st2 with w := w3 } : St).w.hs[h]? = w3.hs[h]? from rfl, hg h]
        split
        · rename_i hyes
          exfalso
          obtain ⟨p, hl, ht⟩ := hf.owner d hyes.1
          rw [hold] at hl; cases hl
          exact hT (ht h hyes.2)
        · exact m4 h hT

theorem execRedirs_fileInv {T : Nat → Prop} (rs : List Redir) : ∀ {st : St} {s : Step},
    execRedirs Cfg.fixed st rs = .ok s → PidInv st → FileInv T st →
    FileInv T s.st ∧ ∀ h, ¬ T h → s.st.w.hs[h]? = st.w.hs[h]? := by
  induction rs with
  | nil => intro st s h hp hf; unfold execRedirs at h; cases h; exact ⟨hf, fun _ _ => rfl⟩
  | cons r rs ih =>
    intro st s h hp hf
    unfold execRedirs at h
    obtain ⟨s1, h1, h2⟩ := bind_eq_ok h
    have hp1 := execRedir_pidInv h1 hp
    obtain ⟨hf1, hu1⟩ := execRedir_fileInv h1 hp hf
    cases he : s1.exc with
    | some e => rw [he] at h2; cases h2; exact ⟨hf1, hu1⟩
    | none =>
      rw [he] at h2
      obtain ⟨hf2, hu2⟩ := ih h2 hp1 hf1
      exact ⟨hf2, fun h hT => (hu2 h hT).trans (hu1 h hT)⟩

end C42
