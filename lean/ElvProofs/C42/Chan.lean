/-
C42 helper lemmas: the value channel a form owns (the channel of its output
pipe) is closed at most once, so `close(p.Chan)` never panics.

`ChanInv`: a `Chan` flag is only set on a port with a live channel that has
not been closed, and no two entries own the same channel.  One redirection of
the fixed code keeps it, and returns.
-/
import ElvProofs.C42.Own
namespace C42
open Go

structure ChanInv (st : St) : Prop where
  owner : ∀ i, (fopAt st.fops i).chan = true →
    ∃ p id, lookup st.ports i = some p ∧ p.chan = .live id ∧ id ∉ st.w.closedChans
  uniq : ∀ i j p q, i ≠ j → (fopAt st.fops i).chan = true → (fopAt st.fops j).chan = true →
    lookup st.ports i = some p → lookup st.ports j = some q → p.chan ≠ q.chan

/-- While the replaced port is in limbo, the channel owners of the table are
the old ones except `d`. -/
theorem Installed.chanMid {st st2 : St} {d : Nat} (hin : Installed st d st2) :
    ∀ i, (fopAt st2.fops i).chan = true →
      i ≠ d ∧ (fopAt st.fops i).chan = true ∧ lookup st2.ports i = lookup st.ports i := by
  obtain ⟨pnew, fnew, htbl, hown, _, hk⟩ := hin
  have hfn : fnew.chan = false := by
    rcases hk with ⟨_, hfn, _, _⟩ | ⟨_, _, _, _, _, hk⟩
    · rw [hfn]; rfl
    · rcases hk with ⟨hfn, _⟩ | ⟨hfn, _⟩ <;> (rw [hfn])
      rfl
  intro i hi
  rw [hown] at hi; simp only at hi
  by_cases hid : i = d
  · rw [if_pos hid, hfn] at hi; cases hi
  · rw [if_neg hid] at hi
    refine ⟨hid, hi, ?_⟩
    rw [htbl]; simp only [hid, if_false]

theorem Installed.chanInv {st st2 : St} {d : Nat} (hin : Installed st d st2) (hc : ChanInv st) : ChanInv st2 := by
  have hmid := hin.chanMid
  have hcc := hin.closedChans
  constructor
  · intro i hi
    obtain ⟨_, h1, h2⟩ := hmid i hi
    rw [h2, hcc]
    exact hc.owner i h1
  · intro i j p q hij hi hj hp hq
    obtain ⟨_, i1, i2⟩ := hmid i hi
    obtain ⟨_, j1, j2⟩ := hmid j hj
    rw [i2] at hp; rw [j2] at hq
    exact hc.uniq i j p q hij i1 j1 hp hq

theorem closeChan_ok {w : World} {id : Nat} (h : id ∉ w.closedChans) :
    closeChan w (.live id) = .ok { w with closedChans := id :: w.closedChans } := by
  unfold closeChan
  simp only
  have : w.closedChans.contains id = false := by
    cases hc : w.closedChans.contains id
    · rfl
    · exact absurd (List.contains_iff_mem.mp hc) h
  rw [this]
  rfl

/-- Closing what an ownership entry owns returns when the owned channel is live. -/
theorem Fop.close_ok (f : Fop) (p : Port) (w : World)
    (h : f.chan = true → ∃ id, p.chan = .live id ∧ id ∉ w.closedChans) :
    ∃ w', f.close (some p) w = .ok w' ∧
      ∀ id, id ∈ w'.closedChans ↔ (id ∈ w.closedChans ∨ (f.chan = true ∧ p.chan = .live id)) := by
  have hcc : (if f.file = true then closeHandle w p.file else w).closedChans = w.closedChans := by
    split
    · unfold closeHandle
      cases p.file with
      | none => rfl
      | some hi =>
        simp only
        cases w.hs[hi]? <;> rfl
    · rfl
  unfold Fop.close
  cases hf : f.chan
  · split
    · exact ⟨_, rfl, fun id => by simp⟩
    · simp only [Bool.false_eq_true, if_false]
      exact ⟨_, rfl, fun id => by rw [hcc]; simp⟩
  · obtain ⟨id, hid, hnc⟩ := h hf
    have hne : (!f.file && !true) = false := by simp
    rw [hne]
    simp only [Bool.false_eq_true, if_false, if_true]
    rw [hid, closeChan_ok (by rw [hcc]; exact hnc)]
    refine ⟨_, rfl, fun id' => ?_⟩
    simp only [List.mem_cons, hcc]
    constructor
    · rintro (e | e)
      · exact Or.inr ⟨trivial, by rw [e]⟩
      · exact Or.inl e
    · rintro (e | ⟨_, e⟩)
      · exact Or.inr e
      · cases e; exact Or.inl rfl

/-- One redirection of the fixed code returns and keeps the channel invariant. -/
theorem execRedir_chanInv (st : St) (r : Redir) (hp : PidInv st) (hc : ChanInv st) :
    ∃ s, execRedir Cfg.fixed st r = .ok s ∧ ChanInv s.st := by
  rcases execRedir_fixed_cases st r with ⟨e, he⟩ | ⟨d, st2, exc, hin, he⟩
  · exact ⟨_, he, hc⟩
  · rw [he]
    have hmid := hin.chanMid
    have hcc := hin.closedChans
    have hc2 := hin.chanInv hc
    rcases release_cases st2 (lookup st.ports d) (fopAt st.fops d) with
      ⟨_, hrel⟩ | ⟨o, i, q, st3, hold, hq, hpid, hrel, hports3, hw3, _, hown3⟩ | ⟨o, hold, hnf, hrel⟩
    · rw [hrel, bind_ok]
      exact ⟨_, rfl, hc2⟩
    · rw [hrel, bind_ok]
      refine ⟨_, rfl, ?_⟩
      have hqo : q = o := hin.same_port hp hold hq hpid
      subst hqo
      -- an owner of the new table is an owner of the intermediate one, or `i` taking over
      have hsplit : ∀ n, (fopAt st3.fops n).chan = true →
          (fopAt st2.fops n).chan = true ∨ (n = i ∧ (fopAt st.fops d).chan = true) := by
        intro n hn
        rw [hown3] at hn; simp only at hn
        by_cases hni : n = i
        · subst hni
          rw [if_pos rfl] at hn
          simp only [Bool.or_eq_true] at hn
          rcases hn with hn | hn
          · exact Or.inl hn
          · exact Or.inr ⟨rfl, hn⟩
        · rw [if_neg hni] at hn; exact Or.inl hn
      -- the channel of the replaced port differs from every channel owned elsewhere
      have hdiff : ∀ n p, (fopAt st.fops d).chan = true → (fopAt st2.fops n).chan = true →
          lookup st2.ports n = some p → q.chan ≠ p.chan := by
        intro n p hd hn hl
        obtain ⟨hnd, hn1, hn2⟩ := hmid n hn
        rw [hn2] at hl
        exact hc.uniq d n q p (fun e => hnd e.symm) hd hn1 hold hl
      constructor
      · intro n hn
        simp only [hports3, hw3]
        rcases hsplit n hn with h2 | ⟨hni, hd⟩
        · exact hc2.owner n h2
        · subst hni
          obtain ⟨p, id, hl, hch, hnc⟩ := hc.owner d hd
          rw [hold] at hl; cases hl
          exact ⟨q, id, hq, hch, by rw [hcc]; exact hnc⟩
      · intro a b p p' hab ha hb hpa hpb
        simp only [hports3] at hpa hpb
        rcases hsplit a ha with ha2 | ⟨hai, hda⟩ <;> rcases hsplit b hb with hb2 | ⟨hbi, hdb⟩
        · exact hc2.uniq a b p p' hab ha2 hb2 hpa hpb
        · subst hbi
          rw [hq] at hpb; cases hpb
          exact fun e => hdiff a p hdb ha2 hpa e.symm
        · subst hai
          rw [hq] at hpa; cases hpa
          exact hdiff b p' hda hb2 hpb
        · exact absurd (hai.trans hbi.symm) hab
    · rw [hrel]
      have hpre : (fopAt st.fops d).chan = true → ∃ id, o.chan = .live id ∧ id ∉ st2.w.closedChans := by
        intro hd
        obtain ⟨p, id, hl, hch, hnc⟩ := hc.owner d hd
        rw [hold] at hl; cases hl
        exact ⟨id, hch, by rw [hcc]; exact hnc⟩
      obtain ⟨w3, hclose, hmem⟩ := Fop.close_ok (fopAt st.fops d) o st2.w hpre
      rw [hclose, bind_ok, bind_ok]
      refine ⟨_, rfl, ?_⟩
      constructor
      · intro n hn
        obtain ⟨p, id, hl, hch, hnc⟩ := hc2.owner n hn
        refine ⟨p, id, hl, hch, fun hin3 => ?_⟩
        rcases (hmem id).mp hin3 with h1 | ⟨hd, hoc⟩
        · exact hnc h1
        · obtain ⟨hnd, hn1, hn2⟩ := hmid n hn
          have hl' : lookup st.ports n = some p := by rw [← hn2]; exact hl
          exact hc.uniq d n o p (fun e => hnd e.symm) hd hn1 hold hl' (by rw [hoc, hch])
      · exact hc2.uniq

theorem execRedirs_chanInv (rs : List Redir) : ∀ (st : St), PidInv st → ChanInv st →
    ∃ s, execRedirs Cfg.fixed st rs = .ok s ∧ PidInv s.st ∧ ChanInv s.st := by
  induction rs with
  | nil => intro st hp hc; exact ⟨_, rfl, hp, hc⟩
  | cons r rs ih =>
    intro st hp hc
    unfold execRedirs
    obtain ⟨s, hs, hc'⟩ := execRedir_chanInv st r hp hc
    have hp' := execRedir_pidInv hs hp
    rw [hs, bind_ok]
    cases s.exc with
    | some e => exact ⟨_, rfl, hp', hc'⟩
    | none => exact ih s.st hp' hc'

end C42
