/-
C42 helper lemmas: what a single successful redirection leaves at its
destination, and what writing bytes / values through that port does.
-/
import ElvProofs.C42.Refine
namespace C42
open Go

/-! ### file system -/

theorem FS.get_cons (q : String) (m : Node) (rest : FS) (p : String) :
    FS.get ((q, m) :: rest) p = if q = p then some m else FS.get rest p := by
  unfold FS.get
  by_cases h : q = p
  · simp [List.find?, h]
  · have : (q == p) = false := by simpa using h
    simp [List.find?, this, h]

theorem FS.put_cons (q : String) (m : Node) (rest : FS) (p : String) (n : Node) :
    FS.put ((q, m) :: rest) p n = if q = p then (q, n) :: rest else (q, m) :: FS.put rest p n := by
  by_cases h : q = p
  · simp [FS.put, h]
  · have : (q == p) = false := by simpa using h
    simp [FS.put, this, h]

theorem FS.get_put_same (fs : FS) (p : String) (n : Node) : (FS.put fs p n).get p = some n := by
  induction fs with
  | nil => simp [FS.put, FS.get]
  | cons e rest ih =>
    obtain ⟨q, m⟩ := e
    rw [FS.put_cons]
    by_cases h : q = p
    · simp [h, FS.get_cons]
    · simp [h, FS.get_cons, ih]

theorem FS.get_put_other (fs : FS) (p q : String) (n : Node) (hne : q ≠ p) :
    (FS.put fs p n).get q = fs.get q := by
  induction fs with
  | nil =>
    have : ¬ p = q := fun e => hne e.symm
    simp [FS.put, FS.get_cons, this]
  | cons e rest ih =>
    obtain ⟨r, m⟩ := e
    rw [FS.put_cons]
    by_cases h : r = p
    · have : ¬ p = q := fun e => hne e.symm
      simp [h, FS.get_cons, this]
    · simp [h, FS.get_cons, ih]
/-! ### the handle table under `release` -/

/-- Every file a port of the table refers to has been allocated. -/
def PortsInRange (st : St) : Prop :=
  ∀ (j : Nat) (q : Port) (h : Nat), lookup st.ports j = some q → q.file = some h → h < st.w.hs.length

theorem closeHandle_other (w : World) (fo : Option Nat) (hi : Nat) (hne : fo ≠ some hi) :
    (closeHandle w fo).hs[hi]? = w.hs[hi]? := by
  unfold closeHandle
  cases fo with
  | none => rfl
  | some k =>
    simp only
    cases hk : w.hs[k]? with
    | none => rfl
    | some hd =>
      simp only
      have : k ≠ hi := fun e => hne (by rw [e])
      rw [List.getElem?_set_ne this]

theorem Fop.close_other {f : Fop} {p : Port} {w w' : World} {hi : Nat}
    (h : f.close (some p) w = .ok w') (hne : p.file ≠ some hi) : w'.hs[hi]? = w.hs[hi]? := by
  unfold Fop.close at h
  split at h
  · cases h; rfl
  · simp only at h
    have h1 : (if f.file = true then closeHandle w p.file else w).hs[hi]? = w.hs[hi]? := by
      split
      · exact closeHandle_other _ _ _ hne
      · rfl
    split at h
    · obtain ⟨_, e2⟩ := closeChan_shape h
      rw [e2]; exact h1
    · cases h; exact h1

/-- `release` leaves alone every file the replaced port does not refer to. -/
theorem release_other {st st' : St} {old : Option Port} {f : Fop} {hi : Nat}
    (h : release st old f = .ok st') (hne : ∀ o, old = some o → o.file ≠ some hi) :
    st'.w.hs[hi]? = st.w.hs[hi]? := by
  unfold release at h
  cases old with
  | none => cases h; rfl
  | some o =>
    simp only at h
    split at h
    · cases h; rfl
    · obtain ⟨w, hw, hst⟩ := bind_eq_ok h
      cases hst
      exact Fop.close_other hw (hne o rfl)

/-! ### value output -/

/-- A port whose value channel refuses output. -/
def RefusesValues (p : Port) : Prop := p.chan = .closed ∨ (p.chan = .nil ∧ p.stop = true)

theorem fileRedirPort_refuses (pid : Nat) (m : Mode) (h : Nat) : RefusesValues (fileRedirPort pid m h) := by
  unfold fileRedirPort RefusesValues
  split
  · exact Or.inl rfl
  · exact Or.inr ⟨rfl, rfl⟩

theorem closedPort_refuses (pid : Nat) : RefusesValues (closedPort pid) := Or.inr ⟨rfl, rfl⟩

/-- `put` with such a port as port 1 raises "port does not support value output". -/
theorem valueOutput_refused {st : St} {p : Port} (v : Bytes) (hp : st.ports[1]? = some (some p))
    (hr : RefusesValues p) : valueOutput Cfg.fixed st v = .ok (st, some eNoValueOutput) := by
  unfold valueOutput
  have hlen : (1 : Int).toNat < st.ports.length := by
    have := (List.getElem?_eq_some_iff.mp hp).1
    simpa using this
  obtain ⟨q, hq, hq'⟩ := index_ok st.ports 1 (by omega) hlen
  have : q = some p := by
    have h1 : st.ports[(1 : Int).toNat]? = some (some p) := by simpa using hp
    rw [h1] at hq'; cases hq'; rfl
  rw [hq, bind_ok, this]
  simp only
  split
  · rfl
  · rcases hr with h | ⟨h1, h2⟩
    · rw [h]; rfl
    · rw [h1]; simp [h2]

/-- `put` with the reading end of a pipe as port 1 (`put x >&0` in `a | form`)
raises as well: its channel is closed by the writing side, nothing else may
send to it. -/
theorem valueOutput_readEnd {st : St} {p : Port} (v : Bytes) (hp : st.ports[1]? = some (some p))
    (hr : p.pipeReadEnd = true) : valueOutput Cfg.fixed st v = .ok (st, some eNoValueOutput) := by
  unfold valueOutput
  have hlen : (1 : Int).toNat < st.ports.length := by
    have := (List.getElem?_eq_some_iff.mp hp).1
    simpa using this
  obtain ⟨q, hq, hq'⟩ := index_ok st.ports 1 (by omega) hlen
  have : q = some p := by
    have h1 : st.ports[(1 : Int).toNat]? = some (some p) := by simpa using hp
    rw [h1] at hq'; cases hq'; rfl
  rw [hq, bind_ok, this]
  simp only
  rw [if_pos (by rw [hr]; rfl)]

/-- Is the source a file (name, file object, map) or `&-`? -/
def Src.isFileOrClose : Src → Bool
  | .name _ => true
  | .fileObj _ => true
  | .map _ _ => true
  | .fd (.str t none) => t == "-"
  | _ => false

theorem installSrc_refuses {st st' : St} {d : Nat} {mode : Mode} {src : Src}
    (hsrc : src.isFileOrClose = true) (h : installSrc Cfg.fixed st d mode src = .ok st') :
    ∃ p, st'.ports = st.ports.set d (some p) ∧ RefusesValues p := by
  unfold installSrc at h
  cases src with
  | fd v =>
    cases v with
    | str t pp =>
      cases pp with
      | some k => simp [Src.isFileOrClose] at hsrc
      | none =>
        have ht : t = "-" := by simpa [Src.isFileOrClose] using hsrc
        subst ht
        have he : evalForFd Cfg.fixed (.str "-" none) true = .ok (-1) := by
          simp [evalForFd]
        simp only at h
        rw [he, bind_ok] at h
        simp only [if_true] at h
        cases h
        exact ⟨_, rfl, closedPort_refuses _⟩
    | int n => simp [Src.isFileOrClose] at hsrc
    | other => simp [Src.isFileOrClose] at hsrc
    | many k => simp [Src.isFileOrClose] at hsrc
    | fail => simp [Src.isFileOrClose] at hsrc
  | name path =>
    simp only at h
    split at h
    · cases h
    · cases h; exact ⟨_, rfl, fileRedirPort_refuses _ _ _⟩
  | fileObj hh => cases h; exact ⟨_, rfl, fileRedirPort_refuses _ _ _⟩
  | map r w =>
    simp only at h
    split at h
    · split at h
      · cases h; exact ⟨_, rfl, fileRedirPort_refuses _ _ _⟩
      · cases h
    · split at h
      · cases h; exact ⟨_, rfl, fileRedirPort_refuses _ _ _⟩
      · cases h
    · cases h
  | other => cases hsrc
  | many k => cases hsrc
  | fail => cases hsrc

/-- The successful branch of one redirection, opened up. -/
theorem execRedir_fixed_ok_inv {st : St} {r : Redir} {st' : St}
    (h : execRedir Cfg.fixed st r = .ok ⟨st', none⟩) :
    ∃ dst oldFop st1,
      evalDst Cfg.fixed r = .ok dst ∧ 0 ≤ dst ∧ dst ≤ 1023 ∧
      installSrc Cfg.fixed
        { ports := grown st.ports dst.toNat none,
          fops := (grown st.fops dst.toNat Fop.unowned).set dst.toNat Fop.unowned,
          w := st.w, nextPid := st.nextPid } dst.toNat r.mode r.src = .ok st1 ∧
      release st1 (lookup (grown st.ports dst.toNat none) dst.toNat) oldFop = .ok st' := by
  unfold execRedir at h
  cases hd : evalDst Cfg.fixed r with
  | panic m => rw [hd] at h; cases h
  | exc e => rw [hd] at h; cases h
  | ok dst =>
    rw [hd] at h
    simp only at h
    obtain ⟨h0, h1⟩ := evalDst_fixed_range hd
    obtain ⟨oldFop, hp, _⟩ := prepDst_fixed st h0 h1
    rw [hp] at h
    simp only at h
    rw [if_pos (show Cfg.fixed.handOver = true from rfl)] at h
    unfold execAtFixed at h
    dsimp only at h
    cases hi : installSrc Cfg.fixed
        { ports := grown st.ports dst.toNat none,
          fops := (grown st.fops dst.toNat Fop.unowned).set dst.toNat Fop.unowned,
          w := st.w, nextPid := st.nextPid } dst.toNat r.mode r.src with
    | panic m => rw [hi] at h; cases h
    | exc e =>
      rw [hi] at h
      simp only at h
      obtain ⟨st2, _, h2⟩ := bind_eq_ok h
      cases h2
    | ok st1 =>
      rw [hi] at h
      simp only at h
      obtain ⟨st2, hr, h2⟩ := bind_eq_ok h
      cases h2
      exact ⟨dst, oldFop, st1, rfl, h0, h1, hi, hr⟩

/-! ### bytes through a file redirection -/

/-- The content of a regular file, `[]` when it does not exist yet. -/
def contentOr (old : Option Bytes) : Bytes := old.elim [] id

/-- What `openFile` does to a path that is a regular file or does not exist. -/
theorem openFile_regular {fs fs' : FS} {path : String} {mode : Mode} {old : Option Bytes} {hd : Handle}
    (hfile : fs.get path = old.map Node.file)
    (h : openFile fs path (makeFlag mode) = .ok (fs', hd)) :
    hd = ⟨path, 0, (makeFlag mode).rd, (makeFlag mode).wr, (makeFlag mode).app, true⟩ ∧
    (∀ q, q ≠ path → fs'.get q = fs.get q) ∧
    (match mode with
      | .read => ∃ data, old = some data ∧ fs'.get path = some (.file data)
      | .write => fs'.get path = some (.file [])
      | .append => fs'.get path = some (.file (contentOr old))
      | .readWrite => fs'.get path = some (.file (contentOr old))) := by
  unfold openFile at h
  rw [hfile] at h
  cases old with
  | none =>
    cases mode <;> simp [makeFlag] at h <;> obtain ⟨h1, h2⟩ := h <;> subst h1 <;> subst h2 <;>
      refine ⟨rfl, fun q hq => FS.get_put_other _ _ _ _ hq, ?_⟩ <;>
      simp [FS.get_put_same, contentOr]
  | some data =>
    cases mode <;> simp [makeFlag] at h <;> obtain ⟨h1, h2⟩ := h <;> subst h1 <;> subst h2
    · exact ⟨rfl, fun q hq => rfl, data, rfl, hfile⟩
    · exact ⟨rfl, fun q hq => FS.get_put_other _ _ _ _ hq, FS.get_put_same _ _ _⟩
    · exact ⟨rfl, fun q hq => rfl, hfile⟩
    · exact ⟨rfl, fun q hq => rfl, hfile⟩


theorem writeAt_zero (old d : Bytes) : writeAt old 0 d = d ++ old.drop d.length := by
  simp [writeAt]

theorem writeHandle_ok {w : World} {hi : Nat} {hd : Handle} {data : Bytes} (d : Bytes)
    (hh : w.hs[hi]? = some hd) (ho : hd.isOpen = true) (hw : hd.wr = true)
    (hf : w.fs.get hd.path = some (.file data)) :
    ∃ w', writeHandle w (some hi) d = .ok w' ∧
      w'.fs.get hd.path = some (.file (if hd.app then data ++ d else writeAt data hd.pos d)) ∧
      ∀ q, q ≠ hd.path → w'.fs.get q = w.fs.get q := by
  unfold writeHandle
  simp only [hh, ho, hw, hf, Bool.not_true, Bool.false_eq_true, if_false]
  cases ha : hd.app
  · exact ⟨_, rfl, by simp [FS.get_put_same], fun q hq => FS.get_put_other _ _ _ _ hq⟩
  · exact ⟨_, rfl, by simp [FS.get_put_same], fun q hq => FS.get_put_other _ _ _ _ hq⟩

theorem writeHandle_readonly {w : World} {hi : Nat} {hd : Handle} (d : Bytes)
    (hh : w.hs[hi]? = some hd) (ho : hd.isOpen = true) (hw : hd.wr = false) :
    writeHandle w (some hi) d = .error "w-ebadf" := by
  unfold writeHandle
  simp [hh, ho, hw]

theorem readHandle_ok {w : World} {hi : Nat} {hd : Handle} {data : Bytes}
    (hh : w.hs[hi]? = some hd) (ho : hd.isOpen = true) (hr : hd.rd = true)
    (hf : w.fs.get hd.path = some (.file data)) :
    ∃ w', readHandle w (some hi) = .ok (w', data.drop hd.pos) := by
  unfold readHandle
  simp [hh, ho, hr, hf]

/-- A successful file redirection, opened up: the destination port is a fresh
port on a fresh open handle with the flags of the operator, and the file
system is what `openFile` made of it. -/
theorem execRedir_name_inv {st st' : St} {dstv : Option FdVal} {mode : Mode} {path : String}
    (hwf : PortsInRange st)
    (h : execRedir Cfg.fixed st ⟨dstv, mode, .name path⟩ = .ok ⟨st', none⟩) :
    ∃ dst fs' hd, evalDst Cfg.fixed ⟨dstv, mode, .name path⟩ = .ok dst ∧
      openFile st.w.fs path (makeFlag mode) = .ok (fs', hd) ∧
      lookup st'.ports dst.toNat = some (fileRedirPort st.nextPid mode st.w.hs.length) ∧
      st'.w.hs[st.w.hs.length]? = some hd ∧ st'.w.fs = fs' := by
  obtain ⟨dst, oldFop, st1, hd, h0, h1, hi, hr⟩ := execRedir_fixed_ok_inv h
  refine ⟨dst, ?_⟩
  unfold installSrc at hi
  simp only at hi
  cases ho : openFile st.w.fs path (makeFlag mode) with
  | error e => rw [ho] at hi; cases hi
  | ok r =>
    obtain ⟨fs', hdl⟩ := r
    rw [ho] at hi
    simp only at hi
    cases hi
    obtain ⟨e1, _, e3, _⟩ := release_shape hr
    refine ⟨fs', hdl, hd, rfl, ?_, ?_, e3⟩
    · rw [e1]
      simp only
      rw [lookup_set _ _ _ _ (grown_length_gt _ _ _)]
      simp
    · have hne : ∀ o, lookup (grown st.ports dst.toNat none) dst.toNat = some o → o.file ≠ some st.w.hs.length := by
        intro o ho' hf
        rw [lookup_grown] at ho'
        have := hwf _ _ _ ho' hf
        omega
      rw [release_other hr hne]
      simp

end C42
