/-
C42 helper lemmas: the `Res` monad, `lookup`/`growAccess`, `evalForFd`.
-/
import ElvModel.C42.Model
namespace C42
open Go

/-! ### `Res` -/

/-- The outcome is not a Go panic. -/
def NoPanic {α} (r : Res α) : Prop := ∀ m, r ≠ .panic m

theorem NoPanic.ok {α} (a : α) : NoPanic (Res.ok a) := by intro m h; cases h
theorem NoPanic.exc {α} (e : String) : NoPanic (Res.exc e : Res α) := by intro m h; cases h

theorem NoPanic.bind {α β} {r : Res α} {f : α → Res β}
    (h1 : NoPanic r) (h2 : ∀ a, r = .ok a → NoPanic (f a)) : NoPanic (r >>= f) := by
  cases r with
  | ok a => exact h2 a rfl
  | exc e => exact NoPanic.exc e
  | panic m => exact absurd rfl (h1 m)

theorem bind_ok {α β} (a : α) (f : α → Res β) : (Res.ok a >>= f) = f a := rfl
theorem bind_exc {α β} (e : String) (f : α → Res β) : (Res.exc e >>= f) = .exc e := rfl
theorem bind_panic {α β} (m : String) (f : α → Res β) : (Res.panic m >>= f) = .panic m := rfl

theorem bind_eq_ok {α β} {r : Res α} {f : α → Res β} {b : β} (h : (r >>= f) = .ok b) :
    ∃ a, r = .ok a ∧ f a = .ok b := by
  cases r with
  | ok a => exact ⟨a, rfl, h⟩
  | exc e => cases h
  | panic m => cases h

/-! ### `lookup`, `growAccess`, `index` -/

theorem lookup_append_none (l : List (Option Port)) (k n : Nat) :
    lookup (l ++ List.replicate k none) n = lookup l n := by
  unfold lookup
  by_cases h : n < l.length
  · rw [List.getElem?_append_left h]
  · have h' : l.length ≤ n := Nat.le_of_not_lt h
    rw [List.getElem?_append_right h', List.getElem?_eq_none_iff.mpr h']
    simp only [List.getElem?_replicate]
    split <;> rfl

theorem lookup_set (l : List (Option Port)) (d : Nat) (p : Option Port) (n : Nat) (h : d < l.length) :
    lookup (l.set d p) n = if n = d then p else lookup l n := by
  unfold lookup
  by_cases hn : n = d
  · subst hn; simp [h]
  · have : d ≠ n := fun e => hn e.symm
    simp [List.getElem?_set_ne this, hn]

theorem lookup_lt {l : List (Option Port)} {n : Nat} {p : Port} (h : lookup l n = some p) : n < l.length := by
  unfold lookup at h
  cases hg : l[n]? with
  | none => simp [hg] at h
  | some x => exact (List.getElem?_eq_some_iff.mp hg).1

/-- The slice `growAccess` leaves behind. -/
def grown {α} (s : List α) (i : Nat) (z : α) : List α :=
  if i < s.length then s else s ++ List.replicate (i + 1 - s.length) z

theorem grown_length_gt {α} (s : List α) (i : Nat) (z : α) : i < (grown s i z).length := by
  unfold grown; split
  · assumption
  · simp; omega

theorem grown_length_ge {α} (s : List α) (i : Nat) (z : α) : s.length ≤ (grown s i z).length := by
  unfold grown; split <;> simp

theorem lookup_grown (l : List (Option Port)) (i n : Nat) : lookup (grown l i none) n = lookup l n := by
  unfold grown; split
  · rfl
  · exact lookup_append_none _ _ _

theorem growAccess_ok {α} (cfg : Cfg) (s : List α) (i : Int) (z : α)
    (h0 : 0 ≤ i) (h1 : i.toNat < cfg.memSlots) :
    growAccess cfg s i z = .ok (grown s i.toNat z) := by
  unfold growAccess grown
  have : ¬ i < 0 := by omega
  simp only [this, if_false]
  split
  · rfl
  · have : ¬ cfg.memSlots ≤ i.toNat := by omega
    simp [this]

theorem index_ok {α} (s : List α) (i : Int) (h0 : 0 ≤ i) (h1 : i.toNat < s.length) :
    ∃ a, index s i = .ok a ∧ s[i.toNat]? = some a := by
  unfold index
  simp only [h0, if_true]
  have : s[i.toNat]? = some s[i.toNat] := List.getElem?_eq_getElem h1
  rw [this]
  exact ⟨_, rfl, rfl⟩

/-! ### `evalForFd` -/

theorem checkRange_fixed {n m : Int} (h : checkRange Cfg.fixed n = .ok m) : m = n ∧ 0 ≤ n ∧ n ≤ 1023 := by
  unfold checkRange at h
  by_cases h1 : n < 0
  · simp [Cfg.fixed, h1] at h
  · by_cases h2 : n > maxRedirFD
    · simp [Cfg.fixed, h2] at h
    · simp [Cfg.fixed, h1, h2] at h
      unfold maxRedirFD at h2
      omega

theorem checkRange_noPanic (cfg : Cfg) (n : Int) : NoPanic (checkRange cfg n) := by
  unfold checkRange; split
  · exact NoPanic.exc _
  · exact NoPanic.ok _

/-- With the fix every fd that `evalForFd` yields is a valid table index, or
the close marker `-1` when closing is allowed. -/
theorem evalForFd_fixed_range {v : FdVal} {c : Bool} {n : Int}
    (h : evalForFd Cfg.fixed v c = .ok n) : (0 ≤ n ∧ n ≤ 1023) ∨ (n = -1 ∧ c = true) := by
  unfold evalForFd at h
  cases v with
  | fail => cases h
  | many k => cases h
  | other => cases h
  | int k => exact Or.inl (by have := checkRange_fixed h; omega)
  | str t p =>
    simp only at h
    split at h
    · cases h; exact Or.inl (by omega)
    · split at h
      · cases h; exact Or.inl (by omega)
      · split at h
        · cases h; exact Or.inl (by omega)
        · cases p with
          | some k => exact Or.inl (by have := checkRange_fixed h; omega)
          | none =>
            simp only at h
            split at h
            · rename_i hc
              cases h
              simp only [Bool.and_eq_true, decide_eq_true_eq] at hc
              exact Or.inr ⟨rfl, hc.2⟩
            · cases h

theorem evalForFd_noPanic (cfg : Cfg) (v : FdVal) (c : Bool) : NoPanic (evalForFd cfg v c) := by
  unfold evalForFd
  cases v with
  | fail => exact NoPanic.exc _
  | many k => exact NoPanic.exc _
  | other => exact NoPanic.exc _
  | int k => exact checkRange_noPanic _ _
  | str t p =>
    simp only
    split
    · exact NoPanic.ok _
    · split
      · exact NoPanic.ok _
      · split
        · exact NoPanic.ok _
        · cases p with
          | some k => exact checkRange_noPanic _ _
          | none =>
            simp only
            split
            · exact NoPanic.ok _
            · exact NoPanic.exc _

/-- A destination fd is never the close marker. -/
theorem evalDst_fixed_range {r : Redir} {n : Int} (h : evalDst Cfg.fixed r = .ok n) : 0 ≤ n ∧ n ≤ 1023 := by
  unfold evalDst at h
  cases hd : r.dst with
  | none =>
    rw [hd] at h; cases h
    unfold defaultDst; split <;> omega
  | some v =>
    rw [hd] at h
    rcases evalForFd_fixed_range h with h | ⟨_, h⟩
    · exact h
    · cases h

theorem evalDst_noPanic (cfg : Cfg) (r : Redir) : NoPanic (evalDst cfg r) := by
  unfold evalDst
  cases r.dst with
  | none => exact NoPanic.ok _
  | some v => exact evalForFd_noPanic _ _ _

end C42
