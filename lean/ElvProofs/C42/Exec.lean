/-
C42 helper lemmas: one redirection of the fixed code, step by step.
-/
import ElvProofs.C42.Basic
import ElvModel.C42.Spec
namespace C42
open Go

theorem fixed_memSlots : Cfg.fixed.memSlots = 8589934592 := by decide

/-! ### prepDst -/

theorem prepDst_fixed (st : St) {dst : Int} (h0 : 0 ≤ dst) (h1 : dst ≤ 1023) :
    ∃ oldFop, prepDst Cfg.fixed st dst =
      .ok ({ st with ports := grown st.ports dst.toNat none, fops := grown st.fops dst.toNat Fop.unowned },
           lookup (grown st.ports dst.toNat none) dst.toNat, oldFop)
      ∧ (grown st.fops dst.toNat Fop.unowned)[dst.toNat]? = some oldFop := by
  have hm : dst.toNat < Cfg.fixed.memSlots := by rw [fixed_memSlots]; omega
  obtain ⟨f, hf, hf'⟩ := index_ok (grown st.fops dst.toNat Fop.unowned) dst h0 (grown_length_gt _ _ _)
  refine ⟨f, ?_, hf'⟩
  unfold prepDst
  rw [growAccess_ok _ _ _ _ h0 hm, bind_ok, growAccess_ok _ _ _ _ h0 hm, bind_ok, hf, bind_ok]

/-! ### release -/

theorem Fop.close_noPanic_of_noChan (f : Fop) (p : Port) (w : World) (h : f.chan = false) :
    ∃ w', f.close (some p) w = .ok w' ∧ w'.fs = w.fs ∧ w'.hs.length = w.hs.length
      ∧ w'.closedChans = w.closedChans ∧ w'.sent = w.sent := by
  unfold Fop.close
  cases hf : f.file
  · simp [hf, h]
  · simp only [hf, h, Bool.not_true, Bool.false_and, Bool.false_eq_true, if_false, if_true]
    refine ⟨_, rfl, ?_⟩
    unfold closeHandle
    cases p.file with
    | none => simp
    | some hi =>
      simp only
      cases w.hs[hi]? with
      | none => simp
      | some hd => simp

theorem closeHandle_fs (w : World) (fo : Option Nat) : (closeHandle w fo).fs = w.fs := by
  unfold closeHandle
  cases fo with
  | none => rfl
  | some hi =>
    simp only
    cases w.hs[hi]? <;> rfl

theorem closeHandle_len (w : World) (fo : Option Nat) : (closeHandle w fo).hs.length = w.hs.length := by
  unfold closeHandle
  cases fo with
  | none => rfl
  | some hi =>
    simp only
    cases w.hs[hi]? with
    | none => rfl
    | some hd => simp

theorem closeChan_shape {w w' : World} {c : Chan} (h : closeChan w c = .ok w') :
    w'.fs = w.fs ∧ w'.hs = w.hs := by
  unfold closeChan at h
  cases c with
  | nil => cases h
  | closed => cases h
  | live id =>
    simp only at h
    split at h
    · cases h
    · cases h; exact ⟨rfl, rfl⟩

theorem Fop.close_shape {f : Fop} {p : Option Port} {w w' : World} (h : f.close p w = .ok w') :
    w'.fs = w.fs ∧ w'.hs.length = w.hs.length := by
  unfold Fop.close at h
  split at h
  · cases h; exact ⟨rfl, rfl⟩
  · cases p with
    | none => cases h
    | some p =>
      simp only at h
      have h1 : (if f.file = true then closeHandle w p.file else w).fs = w.fs := by
        split
        · exact closeHandle_fs _ _
        · rfl
      have h2 : (if f.file = true then closeHandle w p.file else w).hs.length = w.hs.length := by
        split
        · exact closeHandle_len _ _
        · rfl
      split at h
      · obtain ⟨e1, e2⟩ := closeChan_shape h
        exact ⟨e1.trans h1, (congrArg List.length e2).trans h2⟩
      · cases h; exact ⟨h1, h2⟩

/-- `release` only touches the owned list and the open state of files / channels. -/
theorem release_shape {st st' : St} {old : Option Port} {f : Fop} (h : release st old f = .ok st') :
    st'.ports = st.ports ∧ st'.nextPid = st.nextPid ∧ st'.w.fs = st.w.fs
      ∧ st'.w.hs.length = st.w.hs.length := by
  unfold release at h
  cases old with
  | none => cases h; exact ⟨rfl, rfl, rfl, rfl⟩
  | some o =>
    simp only at h
    split at h
    · cases h; exact ⟨rfl, rfl, rfl, rfl⟩
    · obtain ⟨w, hw, hst⟩ := bind_eq_ok h
      cases hst
      obtain ⟨e1, e2⟩ := Fop.close_shape hw
      exact ⟨rfl, rfl, e1, e2⟩

theorem release_noPanic (st : St) (old : Option Port) (f : Fop) (h : f.chan = false) :
    NoPanic (release st old f) := by
  unfold release
  cases old with
  | none => exact NoPanic.ok _
  | some o =>
    simp only
    split
    · exact NoPanic.ok _
    · obtain ⟨w', hw, _⟩ := Fop.close_noPanic_of_noChan f o st.w h
      rw [hw, bind_ok]
      exact NoPanic.ok _

/-! ### installSrc -/

/-- What a successful `installSrc` does to the state. -/
theorem installSrc_shape {cfg : Cfg} {st st' : St} {d : Nat} {mode : Mode} {src : Src}
    (h : installSrc cfg st d mode src = .ok st') :
    ∃ (p : Port) (own : Bool), st'.ports = st.ports.set d (some p)
      ∧ st'.fops = (if own then st.fops.set d ⟨true, false⟩ else st.fops)
      ∧ st'.w.closedChans = st.w.closedChans ∧ st'.w.sent = st.w.sent
      ∧ st.w.hs.length ≤ st'.w.hs.length ∧ st.nextPid ≤ st'.nextPid := by
  unfold installSrc at h
  cases src with
  | fd v =>
    simp only at h
    obtain ⟨s, _, h⟩ := bind_eq_ok h
    split at h
    · cases h; exact ⟨_, false, rfl, rfl, rfl, rfl, Nat.le_refl _, Nat.le_succ _⟩
    · split at h
      · cases h
      · obtain ⟨p, _, h⟩ := bind_eq_ok h
        cases p with
        | none => cases h
        | some p => cases h; exact ⟨_, false, rfl, rfl, rfl, rfl, Nat.le_refl _, Nat.le_refl _⟩
  | name path =>
    simp only at h
    split at h
    · cases h
    · cases h
      refine ⟨_, true, rfl, rfl, rfl, rfl, ?_, Nat.le_succ _⟩
      simp
  | fileObj hh => cases h; exact ⟨_, false, rfl, rfl, rfl, rfl, Nat.le_refl _, Nat.le_succ _⟩
  | map r w =>
    simp only at h
    split at h
    · split at h
      · cases h; exact ⟨_, false, rfl, rfl, rfl, rfl, Nat.le_refl _, Nat.le_succ _⟩
      · cases h
    · split at h
      · cases h; exact ⟨_, false, rfl, rfl, rfl, rfl, Nat.le_refl _, Nat.le_succ _⟩
      · cases h
    · cases h
  | other => cases h
  | many k => cases h
  | fail => cases h

theorem installSrc_noPanic_fixed (st : St) (d : Nat) (mode : Mode) (src : Src) :
    NoPanic (installSrc Cfg.fixed st d mode src) := by
  unfold installSrc
  cases src with
  | fd v =>
    simp only
    apply NoPanic.bind (evalForFd_noPanic _ _ _)
    intro s hs
    split
    · exact NoPanic.ok _
    · rename_i hne
      split
      · exact NoPanic.exc _
      · rename_i hlt
        have hr := evalForFd_fixed_range hs
        have h0 : 0 ≤ s := by
          rcases hr with h | ⟨h, _⟩
          · exact h.1
          · exact absurd h hne
        have h1 : s.toNat < st.ports.length := by omega
        obtain ⟨p, hp, _⟩ := index_ok st.ports s h0 h1
        rw [hp, bind_ok]
        cases p with
        | none => exact NoPanic.exc _
        | some p => exact NoPanic.ok _
  | name path =>
    simp only
    split
    · exact NoPanic.exc _
    · exact NoPanic.ok _
  | fileObj hh => exact NoPanic.ok _
  | map r w =>
    simp only
    split
    · split
      · exact NoPanic.ok _
      · exact NoPanic.exc _
    · split
      · exact NoPanic.ok _
      · exact NoPanic.exc _
    · exact NoPanic.exc _
  | other => exact NoPanic.exc _
  | many k => exact NoPanic.exc _
  | fail => exact NoPanic.exc _

end C42
