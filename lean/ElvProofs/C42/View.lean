/-
C42 helper lemmas: one redirection of the fixed code seen through the two
functions `fd ↦ port` (`lookup ports`) and `fd ↦ ownership` (`fopAt fops`):
what the source installs at the destination (`Installed`), and the three ways
`releaseReplacedPort` can end (`release_cases`).  The ownership invariants of
`Own.lean` are proved against this description, not against the slices.
-/
import ElvProofs.C42.Exec
namespace C42
open Go

/-! ### `fops[i]` with the zero value past the end -/

/-- `fops[i]`; entries past the end are not owned (the stage end only walks
the slice). -/
def fopAt (fops : List Fop) (i : Nat) : Fop :=
  match fops[i]? with
  | some f => f
  | none => Fop.unowned

theorem fopAt_of_getElem? {fops : List Fop} {i : Nat} {f : Fop} (h : fops[i]? = some f) : fopAt fops i = f := by
  unfold fopAt; rw [h]

theorem fopAt_nil (i : Nat) : fopAt [] i = Fop.unowned := by simp [fopAt]

theorem fopAt_ge {fops : List Fop} {i : Nat} (h : fops.length ≤ i) : fopAt fops i = Fop.unowned := by
  unfold fopAt; rw [List.getElem?_eq_none_iff.mpr h]

theorem fopAt_lt_of_file {fops : List Fop} {i : Nat} (h : (fopAt fops i).file = true) : i < fops.length := by
  apply Nat.lt_of_not_le
  intro hle
  rw [fopAt_ge hle] at h
  cases h

theorem fopAt_lt_of_chan {fops : List Fop} {i : Nat} (h : (fopAt fops i).chan = true) : i < fops.length := by
  apply Nat.lt_of_not_le
  intro hle
  rw [fopAt_ge hle] at h
  cases h

theorem getElem?_of_fopAt_lt {fops : List Fop} {i : Nat} (h : i < fops.length) : fops[i]? = some (fopAt fops i) := by
  unfold fopAt
  rw [List.getElem?_eq_getElem h]

theorem fopAt_append_unowned (fops : List Fop) (k i : Nat) :
    fopAt (fops ++ List.replicate k Fop.unowned) i = fopAt fops i := by
  unfold fopAt
  rw [List.getElem?_append]
  by_cases h : i < fops.length
  · rw [if_pos h]
  · rw [if_neg h, List.getElem?_eq_none_iff.mpr (Nat.le_of_not_lt h), List.getElem?_replicate]
    by_cases hk : i - fops.length < k <;> simp [hk]

theorem fopAt_grown (fops : List Fop) (d i : Nat) : fopAt (grown fops d Fop.unowned) i = fopAt fops i := by
  unfold grown; split
  · rfl
  · exact fopAt_append_unowned _ _ _

theorem fopAt_set (fops : List Fop) (d : Nat) (f : Fop) (i : Nat) (h : d < fops.length) :
    fopAt (fops.set d f) i = if i = d then f else fopAt fops i := by
  unfold fopAt
  rw [List.getElem?_set]
  by_cases hi : i = d
  · subst hi; simp [h]
  · have : ¬ d = i := fun e => hi e.symm
    simp [this, hi]

theorem fopAt_modify (fops : List Fop) (i : Nat) (g : Fop → Fop) (j : Nat) (h : i < fops.length) :
    fopAt (fops.modify i g) j = if j = i then g (fopAt fops i) else fopAt fops j := by
  unfold fopAt
  rw [List.getElem?_modify]
  by_cases hj : j = i
  · subst hj
    rw [List.getElem?_eq_getElem h]
    simp
  · have : ¬ i = j := fun e => hj e.symm
    cases fops[j]? <;> simp [this, hj]

/-! ### what the source installs -/

theorem openFile_isOpen {fs fs' : FS} {path : String} {fl : OpenFlag} {hd : Handle}
    (h : openFile fs path fl = .ok (fs', hd)) : hd.isOpen = true := by
  unfold openFile at h
  simp only at h
  split at h
  · cases h
  · split at h
    · cases h
    · cases h; rfl
  · cases h; rfl
  · split at h
    · cases h; rfl
    · cases h

/-- The state after the source of a redirection to `d` has been dealt with,
relative to the state `st` before the redirection: the table differs at `d`
only, the ownership of `d` has been reset (or set, for a file the redirection
opened).  The new entry is either an entry of the old table (`>&s`; a failed
redirection keeps the old entry: `s = d`), or a port that did not exist. -/
def Installed (st : St) (d : Nat) (st2 : St) : Prop :=
  ∃ (pnew : Option Port) (fnew : Fop),
    lookup st2.ports = (fun n => if n = d then pnew else lookup st.ports n) ∧
    fopAt st2.fops = (fun n => if n = d then fnew else fopAt st.fops n) ∧
    st2.w.closedChans = st.w.closedChans ∧
    (((∃ s, pnew = lookup st.ports s) ∧ fnew = Fop.unowned ∧ st2.w = st.w ∧ st2.nextPid = st.nextPid) ∨
     (∃ p, pnew = some p ∧ p.pid = st.nextPid ∧ st2.nextPid = st.nextPid + 1 ∧
        (p.chan = .nil ∨ p.chan = .closed) ∧
        ((fnew = Fop.unowned ∧ st2.w = st.w) ∨
         (fnew = ⟨true, false⟩ ∧ p.file = some st.w.hs.length ∧
            ∃ hd, st2.w.hs = st.w.hs ++ [hd] ∧ hd.isOpen = true))))

theorem fileRedirPort_chan (pid : Nat) (m : Mode) (h : Nat) :
    (fileRedirPort pid m h).chan = .nil ∨ (fileRedirPort pid m h).chan = .closed := by
  unfold fileRedirPort; split
  · exact Or.inr rfl
  · exact Or.inl rfl

theorem fileRedirPort_pid (pid : Nat) (m : Mode) (h : Nat) : (fileRedirPort pid m h).pid = pid := by
  unfold fileRedirPort; split <;> rfl

theorem fileRedirPort_file (pid : Nat) (m : Mode) (h : Nat) : (fileRedirPort pid m h).file = some h := by
  unfold fileRedirPort; split <;> rfl

/-- The kinds of a successful `installSrc`. -/
theorem installSrc_kind {st st' : St} {d : Nat} {mode : Mode} {src : Src}
    (h : installSrc Cfg.fixed st d mode src = .ok st') :
    ∃ (p : Port) (own : Bool), st'.ports = st.ports.set d (some p)
      ∧ st'.fops = (if own then st.fops.set d ⟨true, false⟩ else st.fops)
      ∧ st'.w.closedChans = st.w.closedChans
      ∧ ((own = false ∧ (∃ s, lookup st.ports s = some p) ∧ st'.w = st.w ∧ st'.nextPid = st.nextPid) ∨
         (p.pid = st.nextPid ∧ st'.nextPid = st.nextPid + 1 ∧ (p.chan = .nil ∨ p.chan = .closed) ∧
           ((own = false ∧ st'.w = st.w) ∨
            (own = true ∧ p.file = some st.w.hs.length ∧ ∃ hd, st'.w.hs = st.w.hs ++ [hd] ∧ hd.isOpen = true)))) := by
  unfold installSrc at h
  cases src with
  | fd v =>
    simp only at h
    obtain ⟨s, hs, h⟩ := bind_eq_ok h
    split at h
    · cases h
      exact ⟨_, false, rfl, rfl, rfl, Or.inr ⟨rfl, rfl, Or.inl rfl, Or.inl ⟨rfl, rfl⟩⟩⟩
    · rename_i hne
      split at h
      · cases h
      · rename_i hlt
        have h0 : 0 ≤ s := by
          rcases evalForFd_fixed_range hs with h | ⟨h, _⟩
          · exact h.1
          · exact absurd h hne
        have h1 : s.toNat < st.ports.length := by omega
        obtain ⟨q, hq, hq'⟩ := index_ok st.ports s h0 h1
        rw [hq, bind_ok] at h
        cases q with
        | none => cases h
        | some q =>
          cases h
          refine ⟨_, false, rfl, rfl, rfl, Or.inl ⟨rfl, ⟨s.toNat, ?_⟩, rfl, rfl⟩⟩
          unfold lookup; rw [hq']; rfl
  | name path =>
    simp only at h
    cases ho : openFile st.w.fs path (makeFlag mode) with
    | error e => rw [ho] at h; cases h
    | ok r =>
      obtain ⟨fs, hd⟩ := r
      rw [ho] at h
      simp only at h
      cases h
      exact ⟨_, true, rfl, rfl, rfl, Or.inr ⟨fileRedirPort_pid _ _ _, rfl, fileRedirPort_chan _ _ _,
        Or.inr ⟨rfl, fileRedirPort_file _ _ _, hd, rfl, openFile_isOpen ho⟩⟩⟩
  | fileObj hh =>
    cases h
    exact ⟨_, false, rfl, rfl, rfl, Or.inr ⟨fileRedirPort_pid _ _ _, rfl, fileRedirPort_chan _ _ _, Or.inl ⟨rfl, rfl⟩⟩⟩
  | map r w =>
    simp only at h
    split at h
    · split at h
      · cases h
        exact ⟨_, false, rfl, rfl, rfl, Or.inr ⟨fileRedirPort_pid _ _ _, rfl, fileRedirPort_chan _ _ _, Or.inl ⟨rfl, rfl⟩⟩⟩
      · cases h
    · split at h
      · cases h
        exact ⟨_, false, rfl, rfl, rfl, Or.inr ⟨fileRedirPort_pid _ _ _, rfl, fileRedirPort_chan _ _ _, Or.inl ⟨rfl, rfl⟩⟩⟩
      · cases h
    · cases h
  | other => cases h
  | many k => cases h
  | fail => cases h

/-- The state in which the source is evaluated: both slices grown, ownership of `d` reset. -/
def midSt (st : St) (d : Nat) : St :=
  { ports := grown st.ports d none,
    fops := (grown st.fops d Fop.unowned).set d Fop.unowned,
    w := st.w, nextPid := st.nextPid }

theorem midSt_lookup (st : St) (d : Nat) : lookup (midSt st d).ports = lookup st.ports :=
  funext fun _ => lookup_grown _ _ _

theorem midSt_fopAt (st : St) (d : Nat) :
    fopAt (midSt st d).fops = fun n => if n = d then Fop.unowned else fopAt st.fops n := by
  funext n
  show fopAt ((grown st.fops d Fop.unowned).set d Fop.unowned) n = _
  rw [fopAt_set _ _ _ _ (grown_length_gt _ _ _), fopAt_grown]

/-- A failed source leaves the old entry where it was. -/
theorem Installed.mid (st : St) (d : Nat) : Installed st d (midSt st d) := by
  refine ⟨lookup st.ports d, Fop.unowned, ?_, midSt_fopAt st d, rfl, Or.inl ⟨⟨d, rfl⟩, rfl, rfl, rfl⟩⟩
  rw [midSt_lookup]
  funext n
  split
  · rename_i h; rw [h]
  · rfl

theorem Installed.of_installSrc {st st2 : St} {d : Nat} {mode : Mode} {src : Src}
    (h : installSrc Cfg.fixed (midSt st d) d mode src = .ok st2) : Installed st d st2 := by
  obtain ⟨p, own, hports, hfops, hcc, hk⟩ := installSrc_kind h
  have hlp : d < (midSt st d).ports.length := grown_length_gt _ _ _
  have hlf : d < (midSt st d).fops.length := by
    show d < ((grown st.fops d Fop.unowned).set d Fop.unowned).length
    rw [List.length_set]; exact grown_length_gt _ _ _
  have htbl : lookup st2.ports = fun n => if n = d then some p else lookup st.ports n := by
    funext n
    rw [hports, lookup_set _ _ _ _ hlp, midSt_lookup]
  have hown : fopAt st2.fops = fun n => if n = d then (if own then ⟨true, false⟩ else Fop.unowned) else fopAt st.fops n := by
    funext n
    rw [hfops]
    cases own
    · simp only [Bool.false_eq_true, if_false]; rw [midSt_fopAt]
    · simp only [if_true]
      rw [fopAt_set _ _ _ _ hlf, midSt_fopAt]
      by_cases hn : n = d <;> simp [hn]
  refine ⟨some p, _, htbl, hown, hcc, ?_⟩
  rcases hk with ⟨ho, ⟨s, hs⟩, hw, hn⟩ | ⟨hpid, hn, hch, hk⟩
  · refine Or.inl ⟨⟨s, ?_⟩, ?_, hw, hn⟩
    · rw [← hs, midSt_lookup]
    · rw [ho]; rfl
  · refine Or.inr ⟨p, rfl, hpid, hn, hch, ?_⟩
    rcases hk with ⟨ho, hw⟩ | ⟨ho, hf, hd, hhs, hop⟩
    · exact Or.inl ⟨by rw [ho]; rfl, hw⟩
    · exact Or.inr ⟨by rw [ho]; rfl, hf, hd, hhs, hop⟩

/-! ### releaseReplacedPort -/

/-- The three ways `release` can end. -/
theorem release_cases (st : St) (old : Option Port) (oldFop : Fop) :
    (old = none ∧ release st old oldFop = .ok st) ∨
    (∃ o i q st3, old = some o ∧ lookup st.ports i = some q ∧ q.pid = o.pid ∧
       release st old oldFop = .ok st3 ∧ st3.ports = st.ports ∧ st3.w = st.w ∧ st3.nextPid = st.nextPid ∧
       fopAt st3.fops = fun n => if n = i then
         ⟨(fopAt st.fops i).file || oldFop.file, (fopAt st.fops i).chan || oldFop.chan⟩ else fopAt st.fops n) ∨
    (∃ o, old = some o ∧ (∀ i q, lookup st.ports i = some q → q.pid ≠ o.pid) ∧
       release st old oldFop = (oldFop.close (some o) st.w >>= fun w => .ok { st with w := w })) := by
  cases old with
  | none => exact Or.inl ⟨rfl, rfl⟩
  | some o =>
    refine Or.inr ?_
    unfold release
    simp only
    cases hf : st.ports.findIdx? (fun p => p.any (·.pid == o.pid)) with
    | some i =>
      refine Or.inl ?_
      obtain ⟨hlt, hp, _⟩ := List.findIdx?_eq_some_iff_getElem.mp hf
      cases hq : st.ports[i] with
      | none => rw [hq] at hp; cases hp
      | some q =>
        rw [hq] at hp
        have hpid : q.pid = o.pid := by simpa using hp
        have hl : lookup st.ports i = some q := by
          unfold lookup; rw [List.getElem?_eq_getElem hlt, hq]; rfl
        refine ⟨o, i, q, _, rfl, hl, hpid, rfl, rfl, rfl, rfl, ?_⟩
        funext n
        simp only
        have hg : (if i < st.fops.length then st.fops else st.fops ++ List.replicate (i + 1 - st.fops.length) Fop.unowned)
            = grown st.fops i Fop.unowned := rfl
        rw [hg, fopAt_modify _ _ _ _ (grown_length_gt _ _ _), fopAt_grown]
        split
        · rfl
        · rw [fopAt_grown]
    | none =>
      refine Or.inr ⟨o, rfl, ?_, rfl⟩
      intro i q hl hpid
      have hnone := List.findIdx?_eq_none_iff.mp hf
      have hlt := lookup_lt hl
      have hmem : st.ports[i] ∈ st.ports := List.getElem_mem hlt
      have := hnone _ hmem
      have hq : st.ports[i] = some q := by
        unfold lookup at hl
        rw [List.getElem?_eq_getElem hlt] at hl
        simpa using hl
      rw [hq] at this
      simp [hpid] at this

/-! ### one redirection -/

/-- One redirection of the fixed code, opened up: either the destination
raises, or the source is dealt with (`Installed`; with an exception or
without) and the replaced port is released. -/
theorem execRedir_fixed_cases_src (st : St) (r : Redir) :
    (∃ e, execRedir Cfg.fixed st r = .ok ⟨st, some e⟩) ∨
    (∃ (d : Nat) (st2 : St) (exc : Option String), Installed st d st2 ∧
      (st2 = midSt st d ∨ installSrc Cfg.fixed (midSt st d) d r.mode r.src = .ok st2) ∧
      execRedir Cfg.fixed st r =
        (release st2 (lookup st.ports d) (fopAt st.fops d) >>= fun st3 => .ok ⟨st3, exc⟩)) := by
  unfold execRedir
  cases hd : evalDst Cfg.fixed r with
  | panic m => exact absurd hd (evalDst_noPanic _ _ m)
  | exc e => exact Or.inl ⟨e, rfl⟩
  | ok dst =>
    refine Or.inr ?_
    simp only
    obtain ⟨h0, h1⟩ := evalDst_fixed_range hd
    obtain ⟨oldFop, hp, hof⟩ := prepDst_fixed st h0 h1
    rw [hp]
    simp only
    rw [if_pos (show Cfg.fixed.handOver = true from rfl)]
    have hold : lookup (grown st.ports dst.toNat none) dst.toNat = lookup st.ports dst.toNat := lookup_grown _ _ _
    have hfop : oldFop = fopAt st.fops dst.toNat := by
      rw [← fopAt_grown st.fops dst.toNat dst.toNat, fopAt_of_getElem? hof]
    rw [hold, hfop]
    unfold execAtFixed
    dsimp only
    show ∃ d st2 exc, Installed st d st2 ∧
      (st2 = midSt st d ∨ installSrc Cfg.fixed (midSt st d) d r.mode r.src = .ok st2) ∧
      (match installSrc Cfg.fixed (midSt st dst.toNat) dst.toNat r.mode r.src with
        | .panic m => Res.panic m
        | .exc e => release (midSt st dst.toNat) (lookup st.ports dst.toNat) (fopAt st.fops dst.toNat) >>= fun st => .ok (Step.mk st (some e))
        | .ok st' => release st' (lookup st.ports dst.toNat) (fopAt st.fops dst.toNat) >>= fun st' => .ok (Step.mk st' none)) =
      (release st2 (lookup st.ports d) (fopAt st.fops d) >>= fun st3 => .ok (Step.mk st3 exc))
    cases hi : installSrc Cfg.fixed (midSt st dst.toNat) dst.toNat r.mode r.src with
    | panic m => exact absurd hi (installSrc_noPanic_fixed _ _ _ _ m)
    | exc e => exact ⟨dst.toNat, _, some e, Installed.mid st _, Or.inl rfl, rfl⟩
    | ok st2 => exact ⟨dst.toNat, st2, none, Installed.of_installSrc hi, Or.inr hi, rfl⟩

theorem execRedir_fixed_cases (st : St) (r : Redir) :
    (∃ e, execRedir Cfg.fixed st r = .ok ⟨st, some e⟩) ∨
    (∃ (d : Nat) (st2 : St) (exc : Option String), Installed st d st2 ∧
      execRedir Cfg.fixed st r =
        (release st2 (lookup st.ports d) (fopAt st.fops d) >>= fun st3 => .ok ⟨st3, exc⟩)) := by
  rcases execRedir_fixed_cases_src st r with h | ⟨d, st2, exc, hin, _, he⟩
  · exact Or.inl h
  · exact Or.inr ⟨d, st2, exc, hin, he⟩

end C42
