/-
C42 helper lemmas: the port table the fixed code builds is the table of the
specification (`ElvModel/C42/Spec.lean`), redirection by redirection.
-/
import ElvProofs.C42.Exec
namespace C42
open Go

/-- the destination port becomes `p` -/
def SpecSt.setPort (s : SpecSt) (d : Nat) (p : Port) : SpecSt :=
  { s with tbl := fun n => if n = d then some p else s.tbl n }

theorem specStep_eq (s : SpecSt) (r : Redir) :
    specStep s r = match specDst r with
      | .error e => .error e
      | .ok dst => match specSrc s r.mode r.src with
        | .error e => .error e
        | .ok (p, s') => .ok (s'.setPort dst p) := rfl

theorem abs_eq_of {st st' : St} (h1 : st'.ports = st.ports) (h2 : st'.nextPid = st.nextPid)
    (h3 : st'.w.fs = st.w.fs) (h4 : st'.w.hs.length = st.w.hs.length) : st'.abs = st.abs := by
  unfold St.abs; rw [h1, h2, h3, h4]

theorem abs_grown (st : St) (i : Nat) (fo : List Fop) :
    St.abs { st with ports := grown st.ports i none, fops := fo } = st.abs := by
  unfold St.abs
  have : lookup (grown st.ports i none) = lookup st.ports := funext (lookup_grown _ _)
  simp only [this]

theorem abs_setPort (st : St) (d : Nat) (p : Port) (hd : d < st.ports.length) (fo : List Fop) :
    St.abs { st with ports := st.ports.set d (some p), fops := fo } = st.abs.setPort d p := by
  unfold St.abs SpecSt.setPort
  have : lookup (st.ports.set d (some p)) = fun n => if n = d then some p else lookup st.ports n :=
    funext fun n => lookup_set _ _ _ _ hd
  simp only [this]

theorem abs_mk_set (st : St) (d : Nat) (p : Port) (hd : d < st.ports.length) (fo : List Fop)
    (w : World) (np : Nat) :
    St.abs ⟨st.ports.set d (some p), fo, w, np⟩ =
      SpecSt.setPort ⟨lookup st.ports, w.fs, w.hs.length, np⟩ d p := by
  unfold St.abs SpecSt.setPort
  have : lookup (st.ports.set d (some p)) = fun n => if n = d then some p else lookup st.ports n :=
    funext fun n => lookup_set _ _ _ _ hd
  simp only [this]

/-- A successful source evaluation installs the port the specification names. -/
theorem installSrc_refines_ok {st st' : St} {d : Nat} {mode : Mode} {src : Src} (hd : d < st.ports.length)
    (h : installSrc Cfg.fixed st d mode src = .ok st') :
    ∃ p s', specSrc st.abs mode src = .ok (p, s') ∧ st'.abs = s'.setPort d p := by
  unfold installSrc at h
  unfold specSrc
  cases src with
  | fd v =>
    simp only at h ⊢
    cases he : evalForFd Cfg.fixed v true with
    | panic m => rw [he] at h; cases h
    | exc e => rw [he] at h; cases h
    | ok s =>
      rw [he, bind_ok] at h
      simp only
      by_cases hs : s = -1
      · simp only [hs, if_true] at h ⊢
        cases h
        exact ⟨_, _, rfl, abs_mk_set st d _ hd _ _ _⟩
      · simp only [hs, if_false] at h ⊢
        have h0 : 0 ≤ s := by
          rcases evalForFd_fixed_range he with h | ⟨h, _⟩
          · exact h.1
          · exact absurd h hs
        split at h
        · cases h
        · rename_i hlt
          have h1 : s.toNat < st.ports.length := by omega
          obtain ⟨p, hp, hp'⟩ := index_ok st.ports s h0 h1
          rw [hp, bind_ok] at h
          have hl : st.abs.tbl s.toNat = p := by
            show lookup st.ports s.toNat = p
            unfold lookup; rw [hp']; rfl
          rw [hl]
          cases p with
          | none => cases h
          | some p =>
            cases h
            exact ⟨_, _, rfl, abs_mk_set st d _ hd _ _ _⟩
  | name path =>
    simp only at h ⊢
    show ∃ p s', (match openFile st.w.fs path (makeFlag mode) with
      | .error e => (Except.error e.cls : Except String (Port × SpecSt))
      | .ok (fs, _) => .ok (fileRedirPort st.nextPid mode st.w.hs.length,
          { st.abs with fs := fs, nh := st.w.hs.length + 1, nextPid := st.nextPid + 1 })) = .ok (p, s') ∧ _
    cases ho : openFile st.w.fs path (makeFlag mode) with
    | error e => rw [ho] at h; cases h
    | ok r =>
      obtain ⟨fs, hh⟩ := r
      rw [ho] at h
      simp only at h ⊢
      cases h
      refine ⟨_, _, rfl, ?_⟩
      unfold St.abs SpecSt.setPort
      have hd' : d < st.ports.length := hd
      have : lookup (st.ports.set d (some (fileRedirPort st.nextPid mode st.w.hs.length))) =
          fun n => if n = d then some (fileRedirPort st.nextPid mode st.w.hs.length) else lookup st.ports n :=
        funext fun n => lookup_set _ _ _ _ hd'
      simp [this]
  | fileObj hh =>
    cases h
    exact ⟨_, _, rfl, abs_mk_set st d _ hd _ _ _⟩
  | map r w =>
    simp only at h ⊢
    cases mode <;> cases r <;> cases w <;> simp only at h ⊢ <;>
      first
        | (cases h; done)
        | (cases h; exact ⟨_, _, rfl, abs_mk_set st d _ hd _ _ _⟩)
  | other => cases h
  | many k => cases h
  | fail => cases h

/-- A source that raises an exception raises the one the specification names. -/
theorem installSrc_refines_exc {st : St} {d : Nat} {mode : Mode} {src : Src} {e : String}
    (h : installSrc Cfg.fixed st d mode src = .exc e) :
    specSrc st.abs mode src = .error e := by
  unfold installSrc at h
  unfold specSrc
  cases src with
  | fd v =>
    simp only at h ⊢
    cases he : evalForFd Cfg.fixed v true with
    | panic m => rw [he] at h; cases h
    | exc e' => rw [he] at h; cases h; rfl
    | ok s =>
      rw [he, bind_ok] at h
      simp only
      by_cases hs : s = -1
      · simp only [hs, if_true] at h; cases h
      · simp only [hs, if_false] at h ⊢
        have h0 : 0 ≤ s := by
          rcases evalForFd_fixed_range he with h | ⟨h, _⟩
          · exact h.1
          · exact absurd h hs
        split at h
        · rename_i hge
          cases h
          have hl : st.abs.tbl s.toNat = none := by
            show lookup st.ports s.toNat = none
            unfold lookup
            have : st.ports.length ≤ s.toNat := by omega
            rw [List.getElem?_eq_none_iff.mpr this]; rfl
          rw [hl]
        · rename_i hlt
          have h1 : s.toNat < st.ports.length := by omega
          obtain ⟨p, hp, hp'⟩ := index_ok st.ports s h0 h1
          rw [hp, bind_ok] at h
          have hl : st.abs.tbl s.toNat = p := by
            show lookup st.ports s.toNat = p
            unfold lookup; rw [hp']; rfl
          rw [hl]
          cases p with
          | none => cases h; rfl
          | some p => cases h
  | name path =>
    simp only at h ⊢
    show (match openFile st.w.fs path (makeFlag mode) with
      | .error e => (Except.error e.cls : Except String (Port × SpecSt))
      | .ok (fs, _) => .ok (fileRedirPort st.nextPid mode st.w.hs.length,
          { st.abs with fs := fs, nh := st.w.hs.length + 1, nextPid := st.nextPid + 1 })) = .error e
    cases ho : openFile st.w.fs path (makeFlag mode) with
    | error e' => rw [ho] at h; cases h; rfl
    | ok r => obtain ⟨fs, hh⟩ := r; rw [ho] at h; cases h
  | fileObj hh => cases h
  | map r w =>
    simp only at h ⊢
    cases mode <;> cases r <;> cases w <;> simp only at h ⊢ <;>
      first
        | (cases h; done)
        | (cases h; rfl)
  | other => cases h; rfl
  | many k => cases h; rfl
  | fail => cases h; rfl

/-- One redirection refines one step of the specification. -/
theorem execRedir_refines {st : St} {r : Redir} {s : Step} (h : execRedir Cfg.fixed st r = .ok s) :
    (∀ e, s.exc = some e → specStep st.abs r = .error e ∧ s.st.abs = st.abs) ∧
    (s.exc = none → specStep st.abs r = .ok s.st.abs) := by
  unfold execRedir at h
  rw [specStep_eq]
  unfold specDst
  cases hd : evalDst Cfg.fixed r with
  | panic m => rw [hd] at h; cases h
  | exc e =>
    rw [hd] at h; cases h
    refine ⟨fun e' he => ?_, fun he => by cases he⟩
    cases he; exact ⟨rfl, rfl⟩
  | ok dst =>
    rw [hd] at h
    simp only at h ⊢
    obtain ⟨h0, h1⟩ := evalDst_fixed_range hd
    obtain ⟨oldFop, hp, _⟩ := prepDst_fixed st h0 h1
    rw [hp] at h
    simp only at h
    rw [if_pos (show Cfg.fixed.handOver = true from rfl)] at h
    unfold execAtFixed at h
    dsimp only at h
    have hlen : dst.toNat < (grown st.ports dst.toNat none).length := grown_length_gt _ _ _
    cases hi : installSrc Cfg.fixed
        { ports := grown st.ports dst.toNat none,
          fops := (grown st.fops dst.toNat Fop.unowned).set dst.toNat Fop.unowned,
          w := st.w, nextPid := st.nextPid } dst.toNat r.mode r.src with
    | panic m => rw [hi] at h; cases h
    | exc e =>
      rw [hi] at h
      simp only at h
      obtain ⟨st2, hr, h2⟩ := bind_eq_ok h
      cases h2
      have hs := installSrc_refines_exc hi
      rw [abs_grown] at hs
      obtain ⟨e1, e2, e3, e4⟩ := release_shape hr
      refine ⟨fun e' he => ?_, fun he => by cases he⟩
      cases he
      rw [hs]
      exact ⟨rfl, (abs_eq_of e1 e2 e3 e4).trans (abs_grown st _ _)⟩
    | ok st1 =>
      rw [hi] at h
      simp only at h
      obtain ⟨st2, hr, h2⟩ := bind_eq_ok h
      cases h2
      obtain ⟨p, s', hs, ha⟩ := installSrc_refines_ok hlen hi
      rw [abs_grown] at hs
      obtain ⟨e1, e2, e3, e4⟩ := release_shape hr
      refine ⟨fun e' he => (by cases he), fun _ => ?_⟩
      rw [hs]
      simp only
      rw [← ha]
      exact congrArg _ (abs_eq_of e1 e2 e3 e4).symm

/-- The whole list: the fixed code computes the specification's table and
raises the specification's exception. -/
theorem execRedirs_refines (rs : List Redir) : ∀ {st : St} {s : Step},
    execRedirs Cfg.fixed st rs = .ok s → specRedirs st.abs rs = (s.st.abs, s.exc) := by
  induction rs with
  | nil =>
    intro st s h
    unfold execRedirs at h; cases h; rfl
  | cons r rs ih =>
    intro st s h
    unfold execRedirs at h
    obtain ⟨s1, h1, h2⟩ := bind_eq_ok h
    obtain ⟨hexc, hok⟩ := execRedir_refines h1
    unfold specRedirs
    cases he : s1.exc with
    | some e =>
      rw [he] at h2
      cases h2
      obtain ⟨hs, ha⟩ := hexc e he
      rw [hs]
      simp only [ha]
    | none =>
      rw [he] at h2
      rw [hok he]
      exact ih h2

end C42
