/-
C42 helper lemmas: the redirections of the fixed code never panic, for a form
that owns no channel (every form that is not followed by another form of its
pipeline), with no hypothesis on the frame.  The general case (a form that owns
the channel of its output pipe) is `Chan.lean`.
-/
import ElvProofs.C42.Exec
namespace C42
open Go

/-- The form owns no value channel. -/
@[reducible] def NoChanOwned (fops : List Fop) : Prop :=
  ∀ (i : Nat) (f : Fop), fops[i]? = some f → f.chan = false

theorem NoChanOwned.nil : NoChanOwned [] := by intro i f h; simp at h

theorem NoChanOwned.grown {fops : List Fop} (h : NoChanOwned fops) (i : Nat) :
    NoChanOwned (grown fops i Fop.unowned) := by
  unfold C42.grown
  split
  · exact h
  · intro j f hj
    rw [List.getElem?_append] at hj
    split at hj
    · exact h j f hj
    · rw [List.getElem?_replicate] at hj
      split at hj
      · cases hj; rfl
      · cases hj

theorem NoChanOwned.set {fops : List Fop} (h : NoChanOwned fops) (d : Nat) (f : Fop) (hf : f.chan = false) :
    NoChanOwned (fops.set d f) := by
  intro j g hj
  rw [List.getElem?_set] at hj
  split at hj
  · split at hj
    · cases hj; exact hf
    · cases hj
  · exact h j g hj

theorem NoChanOwned.modify {fops : List Fop} (h : NoChanOwned fops) (i : Nat) (g : Fop → Fop)
    (hg : ∀ f, f.chan = false → (g f).chan = false) : NoChanOwned (fops.modify i g) := by
  intro j f hj
  rw [List.getElem?_modify] at hj
  cases hl : fops[j]? with
  | none => rw [hl] at hj; cases hj
  | some f0 =>
    rw [hl] at hj
    have h0 := h j f0 hl
    simp only [Functor.map, Option.map, Option.some.injEq] at hj
    split at hj
    · rw [← hj]; exact hg f0 h0
    · rw [← hj]; exact h0

theorem release_ok (st : St) (old : Option Port) (f : Fop) (hf : f.chan = false)
    (hn : NoChanOwned st.fops) : ∃ st', release st old f = .ok st' ∧ NoChanOwned st'.fops := by
  unfold release
  cases old with
  | none => exact ⟨_, rfl, hn⟩
  | some o =>
    simp only
    split
    · refine ⟨_, rfl, ?_⟩
      apply NoChanOwned.modify
      · show NoChanOwned (if _ then st.fops else st.fops ++ List.replicate _ Fop.unowned)
        split
        · exact hn
        · intro j g hj
          rw [List.getElem?_append] at hj
          split at hj
          · exact hn j g hj
          · rw [List.getElem?_replicate] at hj
            split at hj
            · cases hj; rfl
            · cases hj
      · intro g hg; simp [hg, hf]
    · obtain ⟨w', hw, _⟩ := Fop.close_noPanic_of_noChan f o st.w hf
      rw [hw, bind_ok]
      exact ⟨_, rfl, hn⟩

theorem execAtFixed_ok (st : St) (d : Nat) (old : Option Port) (oldFop : Fop) (mode : Mode) (src : Src)
    (hf : oldFop.chan = false) (hn : NoChanOwned st.fops) :
    ∃ s, execAtFixed Cfg.fixed st d old oldFop mode src = .ok s ∧ NoChanOwned s.st.fops := by
  unfold execAtFixed
  dsimp only
  have hn1 : NoChanOwned (st.fops.set d Fop.unowned) := hn.set d _ rfl
  cases hi : installSrc Cfg.fixed { st with fops := st.fops.set d Fop.unowned } d mode src with
  | panic m => exact absurd hi (installSrc_noPanic_fixed _ _ _ _ m)
  | exc e =>
    simp only
    obtain ⟨st', hr, hn'⟩ := release_ok { st with fops := st.fops.set d Fop.unowned } old oldFop hf hn1
    rw [hr, bind_ok]
    exact ⟨_, rfl, hn'⟩
  | ok st1 =>
    simp only
    obtain ⟨p, own, _, hfo, _⟩ := installSrc_shape hi
    have hn2 : NoChanOwned st1.fops := by
      rw [hfo]
      cases own
      · exact hn1
      · exact hn1.set d _ rfl
    obtain ⟨st', hr, hn'⟩ := release_ok st1 old oldFop hf hn2
    rw [hr, bind_ok]
    exact ⟨_, rfl, hn'⟩

/-- One redirection of the fixed code always returns (with or without an
exception), whatever the fd values are. -/
theorem execRedir_fixed_ok (st : St) (r : Redir) (hn : NoChanOwned st.fops) :
    ∃ s, execRedir Cfg.fixed st r = .ok s ∧ NoChanOwned s.st.fops := by
  unfold execRedir
  cases hd : evalDst Cfg.fixed r with
  | panic m => exact absurd hd (evalDst_noPanic _ _ m)
  | exc e => exact ⟨_, rfl, hn⟩
  | ok dst =>
    simp only
    obtain ⟨h0, h1⟩ := evalDst_fixed_range hd
    obtain ⟨oldFop, hp, hof⟩ := prepDst_fixed st h0 h1
    rw [hp]
    simp only [Cfg.fixed, if_true]
    have hg := hn.grown dst.toNat
    exact execAtFixed_ok _ _ _ _ _ _ (hg _ _ hof) hg

theorem execRedirs_fixed_ok (rs : List Redir) : ∀ (st : St), NoChanOwned st.fops →
    ∃ s, execRedirs Cfg.fixed st rs = .ok s ∧ NoChanOwned s.st.fops := by
  induction rs with
  | nil => intro st hn; exact ⟨_, rfl, hn⟩
  | cons r rs ih =>
    intro st hn
    unfold execRedirs
    obtain ⟨s, hs, hn'⟩ := execRedir_fixed_ok st r hn
    rw [hs, bind_ok]
    cases s.exc with
    | some e => exact ⟨_, rfl, hn'⟩
    | none => exact ih s.st hn'

end C42
