/-
C42 helper lemmas: the body of the form and the stage end.

* the actions of the body (`echo >&n`, `put >&n`, direct writes, reads) move
  offsets and data but never open or close a file of the form's frame;
* `closeOwned` closes exactly the files of the entries whose `File` flag is set;
* `runForm_files`: with the ownership invariant at the start, when the form has
  finished every tracked file is closed and every other file has kept its
  open state.
-/
import ElvProofs.C42.Own
namespace C42
open Go

/-! ### same open state -/

/-- The same files exist and are open. -/
def OpenEq (w w' : World) : Prop :=
  ∀ k : Nat, (w'.hs[k]?).map Handle.isOpen = (w.hs[k]?).map Handle.isOpen

theorem OpenEq.refl (w : World) : OpenEq w w := fun _ => rfl

theorem OpenEq.trans {a b c : World} (h1 : OpenEq a b) (h2 : OpenEq b c) : OpenEq a c :=
  fun k => (h2 k).trans (h1 k)

theorem OpenEq.of_hs {w w' : World} (h : w'.hs = w.hs) : OpenEq w w' := by
  intro k; rw [h]

theorem openEq_set_pos {w : World} {hi : Nat} {hd : Handle} (hh : w.hs[hi]? = some hd) (p : Nat) (k : Nat) :
    ((w.hs.set hi { hd with pos := p })[k]?).map Handle.isOpen = (w.hs[k]?).map Handle.isOpen := by
  rw [List.getElem?_set]
  by_cases e : hi = k
  · subst e
    have := (List.getElem?_eq_some_iff.mp hh).1
    rw [if_pos rfl, if_pos this, hh]
    rfl
  · rw [if_neg e]

theorem writeHandle_openEq {w w' : World} {fo : Option Nat} {d : Bytes}
    (h : writeHandle w fo d = .ok w') : OpenEq w w' := by
  unfold writeHandle at h
  cases fo with
  | none => cases h
  | some hi =>
    simp only at h
    cases hh : w.hs[hi]? with
    | none => rw [hh] at h; cases h
    | some hd =>
      rw [hh] at h
      simp only at h
      split at h
      · cases h
      · split at h
        · cases h
        · split at h
          · split at h
            · cases h; exact OpenEq.of_hs rfl
            · cases h; exact fun k => openEq_set_pos hh _ k
          · cases h

theorem readHandle_openEq {w w' : World} {fo : Option Nat} {d : Bytes}
    (h : readHandle w fo = .ok (w', d)) : OpenEq w w' := by
  unfold readHandle at h
  cases fo with
  | none => cases h
  | some hi =>
    simp only at h
    cases hh : w.hs[hi]? with
    | none => rw [hh] at h; cases h
    | some hd =>
      rw [hh] at h
      simp only at h
      split at h
      · cases h
      · split at h
        · cases h
        · split at h
          · cases h; exact fun k => openEq_set_pos hh _ k
          · cases h
          · cases h

/-! ### `closeOwned` -/

theorem Fop.close_unowned (p : Option Port) (w : World) : Fop.unowned.close p w = .ok w := rfl

theorem closeOwned_unowned {ports : List (Option Port)} : ∀ {fops : List Fop} {k : Nat} {w w' : World},
    (∀ f ∈ fops, f = Fop.unowned) → closeOwned ports fops k w = .ok w' → w' = w := by
  intro fops
  induction fops with
  | nil => intro k w w' _ h; unfold closeOwned at h; cases h; rfl
  | cons f fs ih =>
    intro k w w' hun h
    unfold closeOwned at h
    obtain ⟨p, _, h⟩ := bind_eq_ok h
    rw [hun f (List.mem_cons_self), Fop.close_unowned, bind_ok] at h
    exact ih (fun g hg => hun g (List.mem_cons_of_mem _ hg)) h

theorem all_unowned_of_fopAt {fops : List Fop} (h : ∀ i, fopAt fops i = Fop.unowned) :
    ∀ f ∈ fops, f = Fop.unowned := by
  intro f hf
  obtain ⟨i, hi, e⟩ := List.getElem_of_mem hf
  have := h i
  rw [fopAt_of_getElem? (List.getElem?_eq_getElem hi)] at this
  rw [← e]; exact this

/-- Entry `k + j` of the table owns the file `h`. -/
def Owns (ports : List (Option Port)) (fops : List Fop) (k h : Nat) : Prop :=
  ∃ j f p, fops[j]? = some f ∧ f.file = true ∧ lookup ports (k + j) = some p ∧ p.file = some h

theorem Owns.cons {ports : List (Option Port)} {f : Fop} {fs : List Fop} {k h : Nat} :
    Owns ports (f :: fs) k h ↔
      ((f.file = true ∧ ∃ p, lookup ports k = some p ∧ p.file = some h) ∨ Owns ports fs (k + 1) h) := by
  constructor
  · rintro ⟨j, g, p, hj, hg, hl, hp⟩
    cases j with
    | zero =>
      simp only [List.getElem?_cons_zero, Option.some.injEq] at hj
      subst hj
      exact Or.inl ⟨hg, p, hl, hp⟩
    | succ j =>
      simp only [List.getElem?_cons_succ] at hj
      refine Or.inr ⟨j, g, p, hj, hg, ?_, hp⟩
      rw [← hl]; congr 1; omega
  · rintro (⟨hg, p, hl, hp⟩ | ⟨j, g, p, hj, hg, hl, hp⟩)
    · exact ⟨0, f, p, rfl, hg, hl, hp⟩
    · refine ⟨j + 1, g, p, by simpa using hj, hg, ?_, hp⟩
      rw [← hl]; congr 1; omega

theorem index_nat_ok {ports : List (Option Port)} {k : Nat} {p : Option Port}
    (h : index ports (k : Int) = .ok p) : ports[k]? = some p := by
  unfold index at h
  simp only [Int.natCast_nonneg, if_true, Int.toNat_natCast] at h
  split at h
  · cases h; assumption
  · cases h

/-- The stage end closes exactly the files of the owning entries. -/
theorem closeOwned_get {ports : List (Option Port)} : ∀ {fops : List Fop} {k : Nat} {w w' : World},
    closeOwned ports fops k w = .ok w' → ∀ h,
      (Owns ports fops k h → w'.hs[h]? = (w.hs[h]?).map (fun hd => { hd with isOpen := false })) ∧
      (¬ Owns ports fops k h → w'.hs[h]? = w.hs[h]?) := by
  intro fops
  induction fops with
  | nil =>
    intro k w w' hc h
    unfold closeOwned at hc; cases hc
    refine ⟨?_, fun _ => rfl⟩
    rintro ⟨j, f, p, hj, _⟩
    simp at hj
  | cons f fs ih =>
    intro k w w' hc h
    unfold closeOwned at hc
    obtain ⟨p, hp, hc⟩ := bind_eq_ok hc
    obtain ⟨w1, h1, hc⟩ := bind_eq_ok hc
    obtain ⟨ihA, ihB⟩ := ih hc h
    have hpk : lookup ports k = p := by
      unfold lookup; rw [index_nat_ok hp]; rfl
    -- the first entry
    have hstep : w1.hs[h]? = if f.file = true ∧ ∃ q, lookup ports k = some q ∧ q.file = some h
        then (w.hs[h]?).map (fun hd => { hd with isOpen := false }) else w.hs[h]? := by
      cases p with
      | none =>
        have : ¬ (f.file = true ∧ ∃ q, lookup ports k = some q ∧ q.file = some h) := by
          rintro ⟨_, q, hq, _⟩; rw [hpk] at hq; cases hq
        rw [if_neg this]
        unfold Fop.close at h1
        split at h1
        · cases h1; rfl
        · cases h1
      | some q =>
        rw [Fop.close_get h1 h]
        have : (f.file = true ∧ q.file = some h) ↔ (f.file = true ∧ ∃ q', lookup ports k = some q' ∧ q'.file = some h) := by
          constructor
          · rintro ⟨a, b⟩; exact ⟨a, q, hpk, b⟩
          · rintro ⟨a, q', hq', b⟩; rw [hpk] at hq'; cases hq'; exact ⟨a, b⟩
        by_cases hc1 : f.file = true ∧ q.file = some h
        · rw [if_pos hc1, if_pos (this.mp hc1)]
        · rw [if_neg hc1, if_neg (fun x => hc1 (this.mpr x))]
    have hidem : ∀ x : Option Handle,
        (x.map (fun hd => { hd with isOpen := false })).map (fun hd => { hd with isOpen := false }) =
          x.map (fun hd : Handle => { hd with isOpen := false }) := by
      intro x; cases x <;> rfl
    rw [Owns.cons]
    by_cases hA : f.file = true ∧ ∃ q, lookup ports k = some q ∧ q.file = some h
    · rw [if_pos hA] at hstep
      refine ⟨fun _ => ?_, fun hn => absurd (Or.inl hA) hn⟩
      by_cases hB : Owns ports fs (k + 1) h
      · rw [ihA hB, hstep, hidem]
      · rw [ihB hB, hstep]
    · rw [if_neg hA] at hstep
      constructor
      · rintro (hx | hB)
        · exact absurd hx hA
        · rw [ihA hB, hstep]
      · intro hn
        have hB : ¬ Owns ports fs (k + 1) h := fun x => hn (Or.inr x)
        rw [ihB hB, hstep]

/-! ### the body -/

theorem execRedir_fd_unowned {st : St} {r : Redir} {s : Step} (hsrc : ∃ v, r.src = .fd v)
    (hun : ∀ i, fopAt st.fops i = Fop.unowned) (h : execRedir Cfg.fixed st r = .ok s) :
    s.st.w = st.w ∧ ∀ i, fopAt s.st.fops i = Fop.unowned := by
  rcases execRedir_fixed_cases_src st r with ⟨e, he⟩ | ⟨d, st2, exc, _, hsrc2, he⟩
  · rw [he] at h; cases h; exact ⟨rfl, hun⟩
  · have h2 : st2.w = st.w ∧ ∀ i, fopAt st2.fops i = Fop.unowned := by
      have hmid : ∀ i, fopAt (midSt st d).fops i = Fop.unowned := by
        intro i
        rw [midSt_fopAt]
        simp only
        split
        · rfl
        · exact hun i
      rcases hsrc2 with e | hi
      · rw [e]; exact ⟨rfl, hmid⟩
      · obtain ⟨v, hv⟩ := hsrc
        rw [hv] at hi
        unfold installSrc at hi
        simp only at hi
        obtain ⟨n, _, hi⟩ := bind_eq_ok hi
        split at hi
        · cases hi; exact ⟨rfl, hmid⟩
        · split at hi
          · cases hi
          · obtain ⟨p, _, hi⟩ := bind_eq_ok hi
            cases p with
            | none => cases hi
            | some p => cases hi; exact ⟨rfl, hmid⟩
    rw [he, hun d] at h
    obtain ⟨st3, hr, h3⟩ := bind_eq_ok h
    cases h3
    rcases release_cases st2 (lookup st.ports d) Fop.unowned with
      ⟨_, hrel⟩ | ⟨o, i, q, st3', _, _, _, hrel, _, hw3, _, hown3⟩ | ⟨o, _, _, hrel⟩
    · rw [hrel] at hr; cases hr; exact h2
    · rw [hrel] at hr; cases hr
      refine ⟨hw3.trans h2.1, fun n => ?_⟩
      rw [hown3]
      simp only
      split
      · rw [h2.2 i]; rfl
      · exact h2.2 n
    · rw [hrel, Fop.close_unowned, bind_ok] at hr
      cases hr
      exact h2

theorem subForm_ok_inv {st st' : St} {r : Option Redir} {body : St → Res (St × String)} {out : String}
    (h : subForm Cfg.fixed st r body = .ok (st', out)) :
    ∃ s sub w,
      ((r = none ∧ s = ⟨{ st with fops := [] }, none⟩) ∨
       (∃ r', r = some r' ∧ execRedir Cfg.fixed { st with fops := [] } r' = .ok s)) ∧
      ((∃ e, s.exc = some e ∧ sub = s.st) ∨ (s.exc = none ∧ body s.st = .ok (sub, out))) ∧
      closeOwned sub.ports sub.fops 0 sub.w = .ok w ∧
      st' = { st with w := w, nextPid := sub.nextPid } := by
  unfold subForm at h
  cases r with
  | none =>
    simp only [bind_ok] at h
    obtain ⟨⟨sub, o⟩, hb, h⟩ := bind_eq_ok h
    obtain ⟨w, hw, h⟩ := bind_eq_ok h
    cases h
    exact ⟨_, sub, w, Or.inl ⟨rfl, rfl⟩, Or.inr ⟨rfl, hb⟩, hw, rfl⟩
  | some r' =>
    simp only at h
    obtain ⟨s, hs, h⟩ := bind_eq_ok h
    cases he : s.exc with
    | some e =>
      rw [he] at h
      simp only [bind_ok] at h
      obtain ⟨w, hw, h⟩ := bind_eq_ok h
      cases h
      exact ⟨s, s.st, w, Or.inr ⟨r', rfl, hs⟩, Or.inl ⟨_, he, rfl⟩, hw, rfl⟩
    | none =>
      rw [he] at h
      simp only at h
      obtain ⟨⟨sub, o⟩, hb, h⟩ := bind_eq_ok h
      obtain ⟨w, hw, h⟩ := bind_eq_ok h
      cases h
      exact ⟨s, sub, w, Or.inr ⟨r', rfl, hs⟩, Or.inr ⟨he, hb⟩, hw, rfl⟩

/-- A sub-form `cmd >&n` whose body keeps the files leaves the frame and the
open state of every file as they were. -/
theorem subForm_keeps {st st' : St} {r : Option Redir} {body : St → Res (St × String)} {out : String}
    (hr : ∀ r', r = some r' → ∃ v, r'.src = .fd v)
    (hb : ∀ s0 s1 o, body s0 = .ok (s1, o) → s1.fops = s0.fops ∧ OpenEq s0.w s1.w)
    (h : subForm Cfg.fixed st r body = .ok (st', out)) :
    st'.ports = st.ports ∧ st'.fops = st.fops ∧ OpenEq st.w st'.w := by
  obtain ⟨s, sub, w, hs, hbody, hw, hst'⟩ := subForm_ok_inv h
  have h1 : s.st.w = st.w ∧ ∀ i, fopAt s.st.fops i = Fop.unowned := by
    rcases hs with ⟨_, e⟩ | ⟨r', hr', hs⟩
    · rw [e]; exact ⟨rfl, fopAt_nil⟩
    · exact execRedir_fd_unowned (st := { st with fops := [] }) (hr r' hr') fopAt_nil hs
  have h2 : OpenEq st.w sub.w ∧ ∀ f ∈ sub.fops, f = Fop.unowned := by
    rcases hbody with ⟨e, _, hsub⟩ | ⟨_, hbody⟩
    · rw [hsub]
      exact ⟨OpenEq.of_hs (by rw [h1.1]), all_unowned_of_fopAt h1.2⟩
    · obtain ⟨e1, e2⟩ := hb _ _ _ hbody
      refine ⟨fun k => ?_, by rw [e1]; exact all_unowned_of_fopAt h1.2⟩
      rw [e2 k, h1.1]
  have := closeOwned_unowned h2.2 hw
  subst this
  rw [hst']
  exact ⟨rfl, rfl, h2.1⟩

theorem dupTo_fd (m : Mode) (n : Option Nat) : ∀ r', dupTo m n = some r' → ∃ v, r'.src = .fd v := by
  intro r' h
  cases n with
  | none => cases h
  | some n => cases h; exact ⟨_, rfl⟩

theorem runAction_keeps {st st' : St} {a : Action} {out : String}
    (h : runAction Cfg.fixed st a = .ok (st', out)) :
    st'.ports = st.ports ∧ st'.fops = st.fops ∧ OpenEq st.w st'.w := by
  cases a with
  | echo n t =>
    simp only [runAction] at h
    refine subForm_keeps (dupTo_fd _ _) ?_ h
    intro s0 s1 o hb
    obtain ⟨⟨s, e⟩, hbo, hb⟩ := bind_eq_ok hb
    cases hb
    unfold byteOutput at hbo
    obtain ⟨p, _, hbo⟩ := bind_eq_ok hbo
    cases p with
    | none => cases hbo
    | some p =>
      simp only at hbo
      cases hw : writeHandle s0.w p.file (t ++ [10]) with
      | error e' => rw [hw] at hbo; cases hbo; exact ⟨rfl, OpenEq.refl _⟩
      | ok w' => rw [hw] at hbo; cases hbo; exact ⟨rfl, writeHandle_openEq hw⟩
  | put n t =>
    simp only [runAction] at h
    refine subForm_keeps (dupTo_fd _ _) ?_ h
    intro s0 s1 o hb
    obtain ⟨⟨s, e⟩, hvo, hb⟩ := bind_eq_ok hb
    cases hb
    unfold valueOutput at hvo
    obtain ⟨p, _, hvo⟩ := bind_eq_ok hvo
    cases p with
    | none => cases hvo
    | some p =>
      simp only at hvo
      split at hvo
      · cases hvo; exact ⟨rfl, OpenEq.refl _⟩
      · split at hvo
        · split at hvo
          · cases hvo; exact ⟨rfl, OpenEq.refl _⟩
          · cases hvo
        · split at hvo
          · cases hvo; exact ⟨rfl, OpenEq.refl _⟩
          · cases hvo
        · split at hvo
          · cases hvo
          · cases hvo; exact ⟨rfl, OpenEq.of_hs rfl⟩
  | direct n t =>
    simp only [runAction] at h
    refine subForm_keeps (fun r' (hr' : (none : Option Redir) = some r') => by cases hr') ?_ h
    intro s0 s1 o hb
    split at hb
    · cases hb; exact ⟨rfl, OpenEq.refl _⟩
    · split at hb
      · cases hb; exact ⟨rfl, OpenEq.refl _⟩
      · rename_i hw
        cases hb; exact ⟨rfl, writeHandle_openEq hw⟩
  | read n =>
    simp only [runAction] at h
    refine subForm_keeps (dupTo_fd _ _) ?_ h
    intro s0 s1 o hb
    obtain ⟨p, _, hb⟩ := bind_eq_ok hb
    cases p with
    | none => cases hb
    | some p =>
      simp only at hb
      split at hb
      · cases hb; exact ⟨rfl, OpenEq.refl _⟩
      · rename_i hrd
        cases hb; exact ⟨rfl, readHandle_openEq hrd⟩

theorem runActions_keeps : ∀ {as : List Action} {st st' : St} {outs : List String},
    runActions Cfg.fixed st as = .ok (st', outs) →
    st'.ports = st.ports ∧ st'.fops = st.fops ∧ OpenEq st.w st'.w := by
  intro as
  induction as with
  | nil => intro st st' outs h; unfold runActions at h; cases h; exact ⟨rfl, rfl, OpenEq.refl _⟩
  | cons a as ih =>
    intro st st' outs h
    unfold runActions at h
    obtain ⟨⟨st1, o⟩, h1, h⟩ := bind_eq_ok h
    simp only at h
    obtain ⟨⟨st2, os⟩, h2, h⟩ := bind_eq_ok h
    cases h
    obtain ⟨a1, a2, a3⟩ := runAction_keeps h1
    obtain ⟨b1, b2, b3⟩ := ih h2
    exact ⟨b1.trans a1, b2.trans a2, a3.trans b3⟩

/-! ### the whole form -/

/-- A form that returns, opened up. -/
theorem runForm_ok_inv {st : St} {inPipe : Option Port} {rs : List Redir} {as : List Action} {o : FormOut}
    (h : runForm Cfg.fixed st inPipe rs as = .ok o) :
    ∃ s st1 w, execRedirs Cfg.fixed st rs = .ok s ∧
      ((∃ e, s.exc = some e ∧ st1 = s.st) ∨ (∃ outs, s.exc = none ∧ runActions Cfg.fixed s.st as = .ok (st1, outs))) ∧
      closeOwned st1.ports st1.fops 0 st1.w = .ok w ∧ o.st = { st1 with w := w } ∧ o.exc = s.exc ∧
      (∀ ip, inPipe = some ip → ip.pipeCtl = true) := by
  unfold runForm at h
  obtain ⟨s, hs, h⟩ := bind_eq_ok h
  dsimp only at h
  have hpi : Cfg.fixed.pipeInput = true := rfl
  cases he : s.exc with
  | some e =>
    rw [he] at h
    simp only [bind_ok] at h
    cases inPipe with
    | none =>
      simp only at h
      obtain ⟨w, hw, h⟩ := bind_eq_ok h
      cases h
      exact ⟨s, s.st, w, hs, Or.inl ⟨e, he, rfl⟩, hw, rfl, he.symm, fun ip hip => by cases hip⟩
    | some ip =>
      simp only [hpi, if_true] at h
      split at h
      · rename_i hctl
        obtain ⟨w, hw, h⟩ := bind_eq_ok h
        cases h
        exact ⟨s, s.st, w, hs, Or.inl ⟨e, he, rfl⟩, hw, rfl, he.symm, fun ip' hip => by cases hip; exact hctl⟩
      · cases h
  | none =>
    rw [he] at h
    simp only at h
    obtain ⟨⟨st1, outs⟩, hra, h⟩ := bind_eq_ok h
    simp only [bind_ok] at h
    cases inPipe with
    | none =>
      simp only at h
      obtain ⟨w, hw, h⟩ := bind_eq_ok h
      cases h
      exact ⟨s, st1, w, hs, Or.inr ⟨outs, he, hra⟩, hw, rfl, he.symm, fun ip hip => by cases hip⟩
    | some ip =>
      simp only [hpi, if_true] at h
      split at h
      · rename_i hctl
        obtain ⟨w, hw, h⟩ := bind_eq_ok h
        cases h
        exact ⟨s, st1, w, hs, Or.inr ⟨outs, he, hra⟩, hw, rfl, he.symm, fun ip' hip => by cases hip; exact hctl⟩
      · cases h

/-- With the ownership invariant at the start: when the form has finished,
every tracked file is closed and every other file has kept its open state. -/
theorem runForm_files {T : Nat → Prop} {st : St} {inPipe : Option Port} {rs : List Redir}
    {as : List Action} {o : FormOut} (h : runForm Cfg.fixed st inPipe rs as = .ok o)
    (hp : PidInv st) (hf : FileInv T st) :
    (∀ h hd, T h → o.st.w.hs[h]? = some hd → hd.isOpen = false) ∧
    (∀ h, ¬ T h → (o.st.w.hs[h]?).map Handle.isOpen = (st.w.hs[h]?).map Handle.isOpen) := by
  obtain ⟨s, st1, w, hs, hbody, hw, hst, _, _⟩ := runForm_ok_inv h
  obtain ⟨hf1, hu1⟩ := execRedirs_fileInv rs hs hp hf
  have hk : st1.ports = s.st.ports ∧ st1.fops = s.st.fops ∧ OpenEq s.st.w st1.w := by
    rcases hbody with ⟨e, _, e1⟩ | ⟨outs, _, hra⟩
    · rw [e1]; exact ⟨rfl, rfl, OpenEq.refl _⟩
    · exact runActions_keeps hra
  obtain ⟨k1, k2, k3⟩ := hk
  rw [hst]
  have hg := closeOwned_get hw
  rw [k1, k2] at hg
  -- an owner in the sense of the invariant is an owner for the stage end
  have howns : ∀ h, (∃ i p, (fopAt s.st.fops i).file = true ∧ lookup s.st.ports i = some p ∧ p.file = some h) ↔
      Owns s.st.ports s.st.fops 0 h := by
    intro h
    constructor
    · rintro ⟨i, p, hfi, hl, hpf⟩
      exact ⟨i, _, p, getElem?_of_fopAt_lt (fopAt_lt_of_file hfi), hfi, by rw [Nat.zero_add]; exact hl, hpf⟩
    · rintro ⟨j, f, p, hj, hfj, hl, hpf⟩
      rw [Nat.zero_add] at hl
      exact ⟨j, p, by rw [fopAt_of_getElem? hj]; exact hfj, hl, hpf⟩
  constructor
  · intro h hd hT hh
    show hd.isOpen = false
    have hh' : w.hs[h]? = some hd := hh
    by_cases hO : Owns s.st.ports s.st.fops 0 h
    · rw [(hg h).1 hO] at hh'
      cases hx : st1.w.hs[h]? with
      | none => rw [hx] at hh'; cases hh'
      | some x => rw [hx] at hh'; cases hh'; rfl
    · rw [(hg h).2 hO] at hh'
      cases hop : hd.isOpen with
      | false => rfl
      | true =>
        exfalso
        have h3 := k3 h
        rw [hh'] at h3
        cases hx : s.st.w.hs[h]? with
        | none => rw [hx] at h3; cases h3
        | some x =>
          rw [hx] at h3
          simp only [Option.map_some, Option.some.injEq] at h3
          exact hO ((howns h).mp (hf1.openOwned h x hT hx (by rw [← h3]; exact hop)))
  · intro h hT
    have hO : ¬ Owns s.st.ports s.st.fops 0 h := by
      intro hO
      obtain ⟨i, p, hfi, hl, hpf⟩ := (howns h).mpr hO
      obtain ⟨p', hl', ht⟩ := hf1.owner i hfi
      rw [hl] at hl'; cases hl'
      exact hT (ht h hpf)
    show (w.hs[h]?).map Handle.isOpen = _
    rw [(hg h).2 hO, k3 h, hu1 h hT]

end C42
