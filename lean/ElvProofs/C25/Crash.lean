/-
C25 helper lemmas: the generic crash argument.  For ANY program `S` whose
calls are one synced `Update` or one `View` (`Sys.exec`), a reopen after a kill
at any event reads the sequential state after `progress` calls.
-/
import ElvModel.C25.Model
namespace C25
variable {σ κ ρ : Type}

theorem durable_append (s : σ) (a b : List (Ev σ ρ)) : durable s (a ++ b) = durable (durable s a) b := by
  induction a generalizing s with
  | nil => rfl
  | cons e a ih => cases e <;> simp [durable, ih]

theorem acks_append (a b : List (Ev σ ρ)) : acks (a ++ b) = acks a ++ acks b := by
  induction a with
  | nil => rfl
  | cons e a ih => cases e <;> simp [acks, ih]

theorem pendingFrom_append (p : Bool) (a b : List (Ev σ ρ)) :
    pendingFrom p (a ++ b) = pendingFrom (pendingFrom p a) b := by
  induction a generalizing p with
  | nil => rfl
  | cons e a ih => cases e <;> simp [pendingFrom, ih]

theorem durable_writes (s : σ) (n : Nat) (l : List (Ev σ ρ)) :
    durable s (List.replicate n .write ++ l) = durable s l := by
  induction n with
  | zero => simp
  | succ n ih => simp [List.replicate_succ, durable, ih]

theorem acks_writes (n : Nat) (l : List (Ev σ ρ)) : acks (List.replicate n .write ++ l) = acks l := by
  induction n with
  | zero => simp
  | succ n ih => simp [List.replicate_succ, acks, ih]

theorem pendingFrom_writes (p : Bool) (n : Nat) (l : List (Ev σ ρ)) :
    pendingFrom p (List.replicate n .write ++ l) = pendingFrom p l := by
  induction n with
  | zero => simp
  | succ n ih => simp [List.replicate_succ, pendingFrom, ih]

theorem durable_writes' (s : σ) (n : Nat) : durable s (List.replicate n (.write : Ev σ ρ)) = s := by
  simpa [durable] using durable_writes s n ([] : List (Ev σ ρ))

theorem acks_writes' (n : Nat) : acks (List.replicate n (.write : Ev σ ρ)) = [] := by
  simpa [acks] using acks_writes n ([] : List (Ev σ ρ))

theorem pendingFrom_writes' (p : Bool) (n : Nat) : pendingFrom p (List.replicate n (.write : Ev σ ρ)) = p := by
  simpa [pendingFrom] using pendingFrom_writes p n ([] : List (Ev σ ρ))

/-- a prefix of `writes ++ l` is some writes, or all of them and a prefix of `l` -/
theorem prefix_writes (n : Nat) (l p : List (Ev σ ρ)) (hp : p <+: List.replicate n .write ++ l) :
    (∃ m, p = List.replicate m .write ++ []) ∨ ∃ t, p = List.replicate n .write ++ t ∧ t <+: l := by
  induction n generalizing p with
  | zero => exact .inr ⟨p, by simp, by simpa using hp⟩
  | succ n ih =>
    rw [List.replicate_succ, List.cons_append] at hp
    rcases List.prefix_cons_iff.1 hp with rfl | ⟨t, rfl, ht⟩
    · exact .inl ⟨0, rfl⟩
    · rcases ih t ht with ⟨m, rfl⟩ | ⟨u, rfl, hu⟩
      · exact .inl ⟨m + 1, by simp [List.replicate_succ]⟩
      · exact .inr ⟨u, by simp [List.replicate_succ], hu⟩

theorem next_eq_step (S : Sys σ κ ρ) (hro : ∀ s c, S.mutates c = false → (S.step s c).1 = s) (s : σ) (c : κ) :
    S.next s c = (S.step s c).1 := by
  unfold Sys.next
  split
  · rfl
  · rename_i h
    exact (hro s c (by simpa using h)).symm

theorem durable_exec (S : Sys σ κ ρ) (hs : S.synced = true) (s : σ) (c : κ) :
    durable s (S.exec s c) = S.next s c := by
  unfold Sys.exec Sys.next
  split
  · simp [durable_writes, durable]
  · simp [durable]

theorem acks_exec (S : Sys σ κ ρ) (hs : S.synced = true) (s : σ) (c : κ) :
    acks (S.exec s c) = [(S.step s c).2] := by
  unfold Sys.exec
  split
  · simp [acks_writes, acks]
  · simp [acks]

theorem pendingFrom_exec (S : Sys σ κ ρ) (hs : S.synced = true) (p : Bool) (s : σ) (c : κ) :
    pendingFrom p (S.exec s c) = false := by
  unfold Sys.exec
  split
  · simp [pendingFrom_writes, pendingFrom]
  · simp [pendingFrom]

/-- A proper prefix of the events of one call acknowledges nothing, and a
reopen reads either the old state, or — only for an `Update`, and then the
commit is in the prefix — the new one. -/
theorem exec_prefix (S : Sys σ κ ρ) (hs : S.synced = true) (s : σ) (c : κ) (p : List (Ev σ ρ))
    (hp : p <+: S.exec s c) :
    p = S.exec s c ∨ (acks p = [] ∧ ((durable s p = s ∧ pendingFrom false p = false) ∨
      (S.mutates c = true ∧ durable s p = (S.step s c).1 ∧ pendingFrom false p = true))) := by
  unfold Sys.exec at hp ⊢
  by_cases hm : S.mutates c = true
  · simp only [hm, hs, if_true] at hp ⊢
    rcases prefix_writes _ _ p hp with ⟨m, rfl⟩ | ⟨t, rfl, ht⟩
    · right
      simp [acks_writes', durable_writes', pendingFrom_writes']
    · clear hp
      rcases List.prefix_cons_iff.1 ht with rfl | ⟨t1, rfl, h1⟩
      · right; simp [acks_writes', durable_writes', pendingFrom_writes']
      clear ht
      rcases List.prefix_cons_iff.1 h1 with rfl | ⟨t2, rfl, h2⟩
      · right; simp [acks_writes, durable_writes, pendingFrom_writes, acks, durable, pendingFrom]
      clear h1
      rcases List.prefix_cons_iff.1 h2 with rfl | ⟨t3, rfl, h3⟩
      · right; simp [acks_writes, durable_writes, pendingFrom_writes, acks, durable, pendingFrom]
      clear h2
      rcases List.prefix_cons_iff.1 h3 with rfl | ⟨t4, rfl, h4⟩
      · right; simp [acks_writes, durable_writes, pendingFrom_writes, acks, durable, pendingFrom]
      · left
        have : t4 = [] := by simpa using h4
        simp [this]
  · have hm' : S.mutates c = false := by simpa using hm
    simp only [hm', Bool.false_eq_true, if_false] at hp ⊢
    rcases List.prefix_cons_iff.1 hp with rfl | ⟨t, rfl, ht⟩
    · right; simp [acks, durable, pendingFrom]
    · left
      have : t = [] := by simpa using ht
      simp [this]

theorem progress_exec_append (S : Sys σ κ ρ) (hs : S.synced = true) (s : σ) (c : κ) (es : List (Ev σ ρ)) :
    progress (S.exec s c ++ es) = progress es + 1 := by
  simp only [progress, acks_append, pendingFrom_append, acks_exec S hs, pendingFrom_exec S hs,
    List.length_append, List.length_cons, List.length_nil]
  omega

theorem run_take_succ (S : Sys σ κ ρ) (s : σ) (c : κ) (cs : List κ) (j : Nat) :
    S.run s ((c :: cs).take (j + 1)) =
      ((S.run (S.step s c).1 (cs.take j)).1, (S.step s c).2 :: (S.run (S.step s c).1 (cs.take j)).2) := by
  simp [List.take_succ_cons, Sys.run]

/-- The crash theorem for any program of the shape `Sys.exec`. -/
theorem crash_prefix (S : Sys σ κ ρ) (hs : S.synced = true)
    (hro : ∀ s c, S.mutates c = false → (S.step s c).1 = s) :
    ∀ (cs : List κ) (s : σ) (k : Nat),
      progress (S.crash s cs k) ≤ cs.length ∧
      durable s (S.crash s cs k) = (S.run s (cs.take (progress (S.crash s cs k)))).1 ∧
      acks (S.crash s cs k) = (S.run s (cs.take (acks (S.crash s cs k)).length)).2
  | [], s, k => by simp [Sys.crash, Sys.trace, progress, acks, pendingFrom, durable, Sys.run]
  | c :: cs, s, k => by
    have hnext := next_eq_step S hro s c
    simp only [Sys.crash, Sys.trace, List.take_append]
    by_cases hk : (S.exec s c).length ≤ k
    · -- the whole first call is in the prefix
      rw [List.take_of_length_le hk]
      obtain ⟨h1, h2, h3⟩ := crash_prefix S hs hro cs (S.next s c) (k - (S.exec s c).length)
      simp only [Sys.crash] at h1 h2 h3
      refine ⟨?_, ?_, ?_⟩
      · rw [progress_exec_append S hs]; simp only [List.length_cons]; omega
      · rw [progress_exec_append S hs, durable_append, durable_exec S hs, run_take_succ, h2, hnext]
      · rw [acks_append, acks_exec S hs]
        simp only [List.singleton_append, List.length_cons]
        rw [run_take_succ]
        simp only
        rw [← hnext, ← h3]
    · -- the kill falls inside the first call
      have hk' : k < (S.exec s c).length := by omega
      have h0 : k - (S.exec s c).length = 0 := by omega
      rw [h0, List.take_zero, List.append_nil]
      rcases exec_prefix S hs s c _ (List.take_prefix k (S.exec s c)) with heq | ⟨ha, hd⟩
      · have := congrArg List.length heq
        simp only [List.length_take] at this
        omega
      · rcases hd with ⟨hd, hp⟩ | ⟨_, hd, hp⟩
        · simp [progress, ha, hd, hp, Sys.run]
        · simp [progress, ha, hd, hp, Sys.run]

end C25
