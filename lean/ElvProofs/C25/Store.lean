/-
C25 helper lemmas: the store of elvish as an instance of the crash argument,
and its refinement of the specification state (C24's sequential log).
-/
import ElvProofs.C24
import ElvProofs.C25.Crash
import ElvModel.C25.Spec
namespace C25
open Go C24 C24.Spec

/-- a trivial instance of the score operations, for the concrete examples -/
def unitOps : ScoreOps where
  F := Nat
  parse := fun _ => 0
  format := fun _ => []
  mul := fun a b => a * b
  add := fun a b => a + b
  lt := fun a b => a < b
  zero := 0
  decay := 1
  increment := 10

/-- the store that holds a specification state -/
def conc (st : Spec.St) : Store := S st.log st.dir

theorem call_readOnly (o : ScoreOps) (s : Store) (c : Call o.F) (h : mutates c = false) : (call o s c).1 = s := by
  cases c with
  | cmd op => cases op <;> first | rfl | simp [mutates, Call.api, Api.txns] at h
  | addDir d f => simp [mutates, Call.api, Api.txns] at h
  | addDirRaw d x => simp [mutates, Call.api, Api.txns] at h
  | delDir d => simp [mutates, Call.api, Api.txns] at h
  | dirs bl => rfl

theorem addDir_frame (o : ScoreOps) (c d : Bucket) (p : Bytes) (f : o.F) :
    addDir o ⟨c, d⟩ p f = (⟨c, (addDir o ⟨Bucket.empty, d⟩ p f).1.dir⟩, (addDir o ⟨Bucket.empty, d⟩ p f).2) := by
  simp only [addDir]
  split <;> simp_all

theorem addDirRaw_frame (o : ScoreOps) (c d : Bucket) (p : Bytes) (x : o.F) :
    addDirRaw o ⟨c, d⟩ p x =
      (⟨c, (addDirRaw o ⟨Bucket.empty, d⟩ p x).1.dir⟩, (addDirRaw o ⟨Bucket.empty, d⟩ p x).2) := by
  simp only [addDirRaw]
  split <;> simp_all

/-- every API call on the store that holds `st` is the specification step -/
theorem call_conc (o : ScoreOps) (st : Spec.St) (c : Call o.F) (h : st.log.WF) (hc : st.log.counter + 1 < two63) :
    call o (conc st) c = (conc (Spec.step o st c).1, (Spec.step o st c).2) := by
  cases c with
  | cmd op => simp only [call, Spec.step, conc, C24_step_refines st.log st.dir op h hc]
  | addDir p f => simp only [call, Spec.step, conc, S]; rw [addDir_frame]
  | addDirRaw p x => simp only [call, Spec.step, conc, S]; rw [addDirRaw_frame]
  | delDir p => rfl
  | dirs bl => rfl

theorem step_WF (o : ScoreOps) (st : Spec.St) (c : Call o.F) (h : st.log.WF) : (Spec.step o st c).1.log.WF := by
  cases c with
  | cmd op => exact Log.WF_step h op
  | addDir p f => exact h
  | addDirRaw p x => exact h
  | delDir p => exact h
  | dirs bl => exact h

theorem step_counter (o : ScoreOps) (st : Spec.St) (c : Call o.F) :
    st.log.counter ≤ (Spec.step o st c).1.log.counter ∧ (Spec.step o st c).1.log.counter ≤ st.log.counter + 1 := by
  cases c with
  | cmd op => exact Log.counter_step st.log op
  | addDir p f => simp [Spec.step]
  | addDirRaw p x => simp [Spec.step]
  | delDir p => simp [Spec.step]
  | dirs bl => simp [Spec.step]

/-- a number is handed out only by raising the counter to it -/
theorem step_seq (o : ScoreOps) (st : Spec.St) (c : Call o.F) (n : Int)
    (hn : (Spec.step o st c).2.seq? = some n) :
    n = ((Spec.step o st c).1.log.counter : Int) ∧ (Spec.step o st c).1.log.counter = st.log.counter + 1 := by
  cases c with
  | cmd op =>
    cases op <;> simp [Spec.step, C24.Spec.step, Ret.seq?, Log.add] at hn ⊢
    omega
  | addDir p f => simp [Spec.step, Ret.seq?] at hn
  | addDirRaw p x => simp [Spec.step, Ret.seq?] at hn
  | delDir p => simp [Spec.step, Ret.seq?] at hn
  | dirs bl => simp [Spec.step, Ret.seq?] at hn

theorem run_WF (o : ScoreOps) : ∀ (cs : List (Call o.F)) (st : Spec.St), st.log.WF → (Spec.run o st cs).1.log.WF
  | [], _, h => h
  | c :: cs, st, h => by
    simp only [Spec.run]
    exact run_WF o cs _ (step_WF o st c h)

/-- the numbers a history hands out: strictly increasing, above the counter it
started from, at most the counter it ends with -/
theorem issued_run (o : ScoreOps) : ∀ (cs : List (Call o.F)) (st : Spec.St),
    st.log.counter ≤ (Spec.run o st cs).1.log.counter ∧
    (Spec.run o st cs).1.log.counter ≤ st.log.counter + cs.length ∧
    (issued (Spec.run o st cs).2).Pairwise (· < ·) ∧
    ∀ n ∈ issued (Spec.run o st cs).2, (st.log.counter : Int) < n ∧ n ≤ ((Spec.run o st cs).1.log.counter : Int)
  | [], st => by simp [Spec.run, issued]
  | c :: cs, st => by
    obtain ⟨i1, i2, i3, i4⟩ := issued_run o cs (Spec.step o st c).1
    obtain ⟨s1, s2⟩ := step_counter o st c
    simp only [Spec.run, List.length_cons]
    refine ⟨by omega, by omega, ?_, ?_⟩
    · simp only [issued, List.filterMap_cons]
      cases hq : (Spec.step o st c).2.seq? with
      | none => exact i3
      | some n =>
        obtain ⟨e1, _⟩ := step_seq o st c n hq
        refine List.pairwise_cons.2 ⟨?_, i3⟩
        intro m hm
        have := (i4 m hm).1
        omega
    · intro n hn
      simp only [issued, List.filterMap_cons] at hn
      cases hq : (Spec.step o st c).2.seq? with
      | none =>
        rw [hq] at hn
        have := i4 n hn
        constructor <;> omega
      | some m =>
        rw [hq] at hn
        obtain ⟨e1, e2⟩ := step_seq o st c m hq
        rcases List.mem_cons.1 hn with rfl | hn
        · constructor <;> omega
        · have := i4 n hn
          constructor <;> omega

theorem counter_take_mono (o : ScoreOps) : ∀ (cs : List (Call o.F)) (st : Spec.St) (a j : Nat), a ≤ j →
    (Spec.run o st (cs.take a)).1.log.counter ≤ (Spec.run o st (cs.take j)).1.log.counter
  | [], st, a, j, _ => by simp
  | c :: cs, st, 0, j, _ => by
    simpa [Spec.run] using (issued_run o ((c :: cs).take j) st).1
  | c :: cs, st, a + 1, 0, h => by omega
  | c :: cs, st, a + 1, j + 1, h => by
    simp only [List.take_succ_cons, Spec.run]
    exact counter_take_mono o cs _ a j (by omega)

/-- a history on the store that holds `st` = the history on the specification state -/
theorem run_conc (o : ScoreOps) (pg : Store → Call o.F → Nat) : ∀ (cs : List (Call o.F)) (st : Spec.St),
    st.log.WF → st.log.counter + cs.length < two63 →
    (elvish o pg).run (conc st) cs = (conc (Spec.run o st cs).1, (Spec.run o st cs).2)
  | [], _, _, _ => rfl
  | c :: cs, st, h, hc => by
    simp only [List.length_cons] at hc
    have hstep : (elvish o pg).step (conc st) c = (conc (Spec.step o st c).1, (Spec.step o st c).2) :=
      call_conc o st c h (by omega)
    have hcnt := step_counter o st c
    simp only [Sys.run, Spec.run, hstep]
    rw [run_conc o pg cs _ (step_WF o st c h) (by omega)]

theorem elvish_synced (o : ScoreOps) (pg : Store → Call o.F → Nat) : (elvish o pg).synced = true := rfl

theorem elvish_readOnly (o : ScoreOps) (pg : Store → Call o.F → Nat) (s : Store) (c : Call o.F)
    (h : (elvish o pg).mutates c = false) : ((elvish o pg).step s c).1 = s := call_readOnly o s c h

theorem progress_bounds {σ ρ : Type} (es : List (Ev σ ρ)) :
    (acks es).length ≤ progress es ∧ progress es ≤ (acks es).length + 1 := by
  unfold progress
  split <;> omega

theorem issued_append {F : Type} (a b : List (Ret F)) : issued (a ++ b) = issued a ++ issued b := by
  simp [issued, List.filterMap_append]

end C25
