/-
Sanity of the C37 spec vocabulary: `afterNL`/`lineStart` and `lineEnd` really
denote "just after the k-th newline" and "the next newline or the end".
-/
import ElvProofs.C37.Lemmas
namespace C37
open Go C37.Spec

theorem afterNL_spec (s : Bytes) (k : Nat) (h : k ≤ newlines s) :
    afterNL s k ≤ s.length ∧ newlines (s.take (afterNL s k)) = k ∧
    (0 < k → s[afterNL s k - 1]? = some 10) := by
  induction s generalizing k with
  | nil =>
    simp [newlines] at h; subst h
    simp [afterNL, newlines]
  | cons b s ih =>
    cases k with
    | zero => simp [afterNL, newlines]
    | succ k =>
      by_cases hb : b = 10
      · subst hb
        simp [newlines] at h
        obtain ⟨i1, i2, i3⟩ := ih k h
        refine ⟨by simp [afterNL]; omega, by simp [afterNL, newlines, i2], ?_⟩
        intro _
        simp only [afterNL, if_true, Nat.add_sub_cancel]
        cases k with
        | zero => simp [afterNL]
        | succ k =>
          have := i3 (by omega)
          have pos : 0 < afterNL s (k + 1) := by
            cases s with
            | nil => simp [newlines] at h
            | cons c s => simp only [afterNL]; split <;> omega
          rw [List.getElem?_cons]
          simp [Nat.ne_of_gt pos, this]
      · simp [newlines, hb] at h
        obtain ⟨i1, i2, i3⟩ := ih (k + 1) h
        refine ⟨by simp [afterNL, hb]; omega, by simp [afterNL, newlines, hb, i2], ?_⟩
        intro _
        have := i3 (by omega)
        have pos : 0 < afterNL s (k + 1) := by
          cases s with
          | nil => simp [newlines] at h
          | cons c s => simp only [afterNL]; split <;> omega
        simp only [afterNL, hb, if_false, Nat.add_sub_cancel]
        rw [List.getElem?_cons]
        simp [Nat.ne_of_gt pos, this]

theorem lineEnd_spec (s : Bytes) (p : Nat) (h : p ≤ s.length) :
    p ≤ lineEnd s p ∧ lineEnd s p ≤ s.length ∧
    newlines (sub s p (lineEnd s p)) = 0 ∧
    (lineEnd s p < s.length → s[lineEnd s p]? = some 10) := by
  induction s generalizing p with
  | nil => simp at h; subst h; simp [lineEnd, sub, newlines]
  | cons b s ih =>
    cases p with
    | zero =>
      by_cases hb : b = 10
      · simp [lineEnd, hb, sub, newlines]
      · obtain ⟨_, i2, i3, i4⟩ := ih 0 (by omega)
        simp only [sub, List.drop_zero, Nat.sub_zero] at i3
        refine ⟨by omega, by simp [lineEnd, hb]; omega, ?_, ?_⟩
        · simp [lineEnd, hb, sub, newlines, i3]
        · intro hlt
          simp only [lineEnd, hb, if_false] at hlt ⊢
          simp at hlt
          simpa using i4 hlt
    | succ p =>
      simp at h
      obtain ⟨i1, i2, i3, i4⟩ := ih p h
      refine ⟨by simp [lineEnd]; omega, by simp [lineEnd]; omega, ?_, ?_⟩
      · simp only [sub, lineEnd, List.drop_succ_cons] at i3 ⊢
        have : lineEnd s p + 1 - (p + 1) = lineEnd s p - p := by omega
        rw [this]; exact i3
      · intro hlt
        simp only [lineEnd] at hlt ⊢
        simp at hlt
        simpa using i4 hlt
