/-
Helper lemmas for C37: the model's `lastLine`/`countNL`/`firstLine` against
the structurally recursive spec functions of `ElvModel/C37/Spec.lean`.
-/
import ElvModel.C37.Model
import ElvModel.C37.Spec
namespace C37
open Go C37.Spec

theorem countNL_eq (s : Bytes) : countNL s = newlines s := by
  induction s with
  | nil => rfl
  | cons b s ih =>
    simp only [countNL, NL] at ih ⊢
    rw [List.count_cons, ih]
    by_cases h : b = 10 <;> simp [newlines, h]

theorem newlines_append (a b : Bytes) : newlines (a ++ b) = newlines a + newlines b := by
  induction a with
  | nil => simp [newlines]
  | cons x a ih =>
    by_cases h : x = 10 <;> simp [newlines, h, ih] <;> omega

theorem newlines_eq_zero_iff (s : Bytes) : newlines s = 0 ↔ ∀ x ∈ s, x ≠ 10 := by
  induction s with
  | nil => simp [newlines]
  | cons x s ih =>
    by_cases h : x = 10 <;> simp [newlines, h, ih]

theorem afterNL_append_le (a b : Bytes) (n : Nat) (h : n ≤ newlines a) :
    afterNL (a ++ b) n = afterNL a n := by
  induction a generalizing n with
  | nil =>
    simp [newlines] at h
    subst h
    cases b <;> rfl
  | cons x a ih =>
    cases n with
    | zero => rfl
    | succ n =>
      by_cases hx : x = 10
      · simp [newlines, hx] at h
        simp [afterNL, hx, ih n h]
      · simp [newlines, hx] at h
        simp [afterNL, hx, ih (n+1) h]

theorem takeWhile_self {α} (p : α → Bool) (l : List α) (h : ∀ x ∈ l, p x = true) :
    l.takeWhile p = l := by
  induction l with
  | nil => rfl
  | cons x l ih =>
    have hx := h x (by simp)
    simp [hx]
    exact ih (fun y hy => h y (by simp [hy]))

theorem all_of_takeWhile_length {α} (p : α → Bool) (l : List α)
    (h : (l.takeWhile p).length = l.length) : ∀ x ∈ l, p x = true := by
  induction l with
  | nil => simp
  | cons x l ih =>
    by_cases hx : p x = true
    · simp [hx] at h
      intro y hy
      rcases List.mem_cons.mp hy with rfl | hy
      · exact hx
      · exact ih h y hy
    · simp [hx] at h

theorem mem_takeWhile_imp' {α} {p : α → Bool} {l : List α} {x : α}
    (h : x ∈ l.takeWhile p) : p x = true := by
  induction l with
  | nil => simp at h
  | cons y l ih =>
    by_cases hy : p y = true
    · simp [hy] at h
      rcases h with rfl | h
      · exact hy
      · exact ih h
    · simp [hy] at h

theorem lastLine_append (a b : Bytes) :
    lastLine (a ++ b) = if newlines b = 0 then lastLine a ++ b else lastLine b := by
  unfold lastLine
  rw [List.reverse_append, List.takeWhile_append]
  split
  · rename_i h
    have hall : ∀ x ∈ b.reverse, (x != NL) = true := by
      intro x hx
      exact all_of_takeWhile_length _ _ h x hx
    have h0 : newlines b = 0 := by
      rw [newlines_eq_zero_iff]
      intro x hx
      have := hall x (List.mem_reverse.mpr hx)
      simpa [NL] using this
    simp [h0]
  · rename_i h
    have h0 : newlines b ≠ 0 := by
      intro h0
      apply h
      rw [newlines_eq_zero_iff] at h0
      have : b.reverse.takeWhile (· != NL) = b.reverse := by
        apply takeWhile_self
        intro x hx
        simpa [NL] using h0 x (List.mem_reverse.mp hx)
      rw [this]
    simp [h0]

theorem lastLine_nil : lastLine [] = [] := rfl

theorem lastLine_singleton (b : UInt8) : lastLine [b] = if b = 10 then [] else [b] := by
  by_cases h : b = 10 <;> simp [lastLine, NL, h]

/-- The model's `lastLine` of a text ends exactly where the text ends and
starts just after the text's last newline, as located by the spec's `afterNL`. -/
theorem afterNL_lastLine (a : Bytes) :
    afterNL a (newlines a) + (lastLine a).length = a.length := by
  induction a with
  | nil => rfl
  | cons b t ih =>
    have hl := lastLine_append [b] t
    simp only [List.singleton_append] at hl
    rw [hl, lastLine_singleton]
    have a0 : ∀ l : Bytes, afterNL l 0 = 0 := fun l => by cases l <;> rfl
    by_cases hb : b = 10
    · subst hb
      have e1 : newlines (10 :: t) = newlines t + 1 := by simp [newlines]
      have e2 : afterNL (10 :: t) (newlines t + 1) = afterNL t (newlines t) + 1 := by simp [afterNL]
      rw [e1, e2]
      by_cases h0 : newlines t = 0
      · simp [h0, a0]; omega
      · simp [h0]; omega
    · have e1 : newlines (b :: t) = newlines t := by simp [newlines, hb]
      rw [e1]
      by_cases h0 : newlines t = 0
      · simp [h0, a0, hb]
      · obtain ⟨m, hm⟩ := Nat.exists_eq_succ_of_ne_zero h0
        have e2 : afterNL (b :: t) (newlines t) = afterNL t (newlines t) + 1 := by
          rw [hm]; simp [afterNL, hb]
        rw [e2]
        simp [h0]; omega

theorem lastLine_suffix (s : Bytes) : ∃ pre, s = pre ++ lastLine s := by
  refine ⟨(s.reverse.dropWhile (· != NL)).reverse, ?_⟩
  unfold lastLine
  rw [← List.reverse_append, List.takeWhile_append_dropWhile, List.reverse_reverse]

theorem lastLine_no_nl (s : Bytes) : ∀ x ∈ lastLine s, x ≠ 10 := by
  intro x hx
  unfold lastLine at hx
  have := mem_takeWhile_imp' (List.mem_reverse.mp hx)
  simpa [NL] using this

theorem firstLine_no_nl (s : Bytes) : ∀ x ∈ firstLine s, x ≠ 10 := by
  intro x hx
  have := mem_takeWhile_imp' hx
  simpa [NL] using this

theorem lineEnd_zero (s : Bytes) : lineEnd s 0 = (firstLine s).length := by
  induction s with
  | nil => rfl
  | cons b s ih =>
    by_cases hb : b = 10 <;> simp [lineEnd, firstLine, NL, hb] at ih ⊢
    exact ih

theorem lineEnd_append (a b : Bytes) : lineEnd (a ++ b) a.length = a.length + lineEnd b 0 := by
  induction a with
  | nil => simp
  | cons x a ih => simp [lineEnd, ih]; omega

theorem firstLine_prefix (s : Bytes) : ∃ post, s = firstLine s ++ post :=
  ⟨s.dropWhile (· != NL), by simp [firstLine]⟩

theorem slice_mid {α} (pre mid post : List α) (i j : Int)
    (hi : i = pre.length) (hj : j = pre.length + mid.length) :
    slice (pre ++ mid ++ post) i j = .ok mid := by
  subst hi hj
  unfold slice
  have : (pre.length : Int) + mid.length = ((pre.length + mid.length : Nat) : Int) := by simp
  rw [this]
  simp only [Int.toNat_natCast]
  rw [if_pos]
  · simp
  · refine ⟨by omega, by omega, ?_⟩
    simp
    omega
