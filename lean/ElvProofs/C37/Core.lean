/-
C37 core: `getContextDetails` on a decomposed source `before ++ body0 ++ after`.
-/
import ElvProofs.C37.Lemmas
namespace C37
open Go C37.Spec

/-- The body of `getContextDetails` after the three slice expressions. -/
def detailsOf (before body0 after : Bytes) : Details :=
  let head := lastLine before
  let bt : Bytes × Bytes :=
    if endsNL body0 then (body0.dropLast, ([] : Bytes)) else (body0, firstLine after)
  let startLine : Int := countNL before + 1
  let startCol : Int := 1 + head.length
  let endLine : Int := startLine + countNL bt.1
  let endCol : Int :=
    if startLine = endLine then startCol + bt.1.length - 1 else (lastLine bt.1).length
  { startLine, startCol, endLine, endCol, body := bt.1, head, tail := bt.2 }

theorem getContextDetails_eq (src : Bytes) (f t : Nat) (h1 : f ≤ t) (h2 : t ≤ src.length) :
    getContextDetails src f t
      = .ok (detailsOf (src.take f) ((src.drop f).take (t - f)) (src.drop t)) := by
  have hf : (f : Int) ≤ t := by omega
  have ht : (t : Int) ≤ src.length := by omega
  have hfl : (f : Int) ≤ src.length := by omega
  unfold getContextDetails slice detailsOf
  simp only [bind, Res.bind, hf, ht, hfl, Int.toNat_natCast, Int.toNat_zero, List.drop_zero,
    Nat.sub_zero, Int.natCast_nonneg, Int.le_refl, and_self, if_true, pure]
  have : List.take (src.length - t) (List.drop t src) = List.drop t src := by
    apply List.take_of_length_le; simp
  rw [this]

/-- Shape of the body: either it ends in a newline (which is stripped) or not. -/
theorem endsNL_cases (body0 : Bytes) :
    (endsNL body0 = true ∧ ∃ b, body0 = b ++ [10]) ∨
    (endsNL body0 = false) := by
  by_cases h : endsNL body0 = true
  · left
    refine ⟨h, body0.dropLast, ?_⟩
    unfold endsNL at h
    simp [NL] at h
    have hne : body0 ≠ [] := by intro e; simp [e] at h
    have := List.dropLast_concat_getLast hne
    rw [List.getLast?_eq_some_getLast hne] at h
    simp at h
    rw [h] at this
    exact this.symm
  · right; simpa using h

theorem endsNL_snoc (b : Bytes) : endsNL (b ++ [10]) = true := by
  simp [endsNL, NL]

/-- The spec's "range ends in a newline" agrees with `strings.HasSuffix(body, "\n")`. -/
theorem endsInNL_eq (before body0 after : Bytes) :
    endsInNL (before ++ body0 ++ after) before.length (before.length + body0.length)
      = endsNL body0 := by
  rcases List.eq_nil_or_concat body0 with rfl | ⟨b, c, rfl⟩
  · simp [endsInNL, endsNL]
  · simp only [endsInNL, endsNL]
    simp [NL]

theorem take_append_mid (before body0 after : Bytes) :
    (before ++ body0 ++ after).take before.length = before := by simp

theorem sub_prefix (a b : Bytes) : sub (a ++ b) 0 a.length = a := by simp [sub]

theorem sub_mid (a m b : Bytes) : sub (a ++ m ++ b) a.length (a.length + m.length) = m := by
  simp [sub]

/-- START: line number and column of `from`. -/
theorem start_core (before body0 after : Bytes) :
    let d := detailsOf before body0 after
    let src := before ++ body0 ++ after
    d.startLine = 1 + newlines before ∧ 1 ≤ d.startCol ∧
    (lineStart src d.startLine.toNat : Int) + d.startCol - 1 = before.length := by
  intro d src
  have hsl : d.startLine = 1 + newlines before := by
    simp only [d, detailsOf, countNL_eq]; omega
  refine ⟨hsl, by simp only [d, detailsOf]; omega, ?_⟩
  have hk : d.startLine.toNat - 1 = newlines before := by rw [hsl]; omega
  have := afterNL_lastLine before
  simp only [lineStart, hk, src, List.append_assoc]
  rw [afterNL_append_le _ _ _ (Nat.le_refl _)]
  simp only [d, detailsOf]
  omega

/-- END: with `body` the range minus one trailing newline, line number and
column of its end offset. -/
theorem end_core (before body0 after : Bytes) :
    let d := detailsOf before body0 after
    let src := before ++ body0 ++ after
    let body := if endsNL body0 then body0.dropLast else body0
    d.body = body ∧
    d.endLine = 1 + newlines (before ++ body) ∧ 0 ≤ d.endCol ∧
    (lineStart src d.endLine.toNat : Int) + d.endCol = before.length + body.length := by
  intro d src body
  have hb : d.body = body := by
    simp only [d, detailsOf, body]; split <;> rfl
  have hpre : ∃ rest, src = (before ++ body) ++ rest := by
    rcases endsNL_cases body0 with ⟨h, b, rfl⟩ | h
    · exact ⟨10 :: after, by simp [src, body, h]⟩
    · exact ⟨after, by simp [src, body, h]⟩
  obtain ⟨rest, hrest⟩ := hpre
  have hel : d.endLine = 1 + newlines (before ++ body) := by
    have : d.endLine = (countNL before + 1 : Int) + countNL d.body := by
      simp only [d, detailsOf]
    rw [this, hb, countNL_eq, countNL_eq, newlines_append]; omega
  have hec : d.endCol = (lastLine (before ++ body)).length := by
    have : d.endCol = if (countNL before + 1 : Int) = (countNL before + 1 : Int) + countNL d.body
        then (1 + (lastLine before).length : Int) + d.body.length - 1
        else (lastLine d.body).length := by
      simp only [d, detailsOf]
    rw [this, hb, lastLine_append, countNL_eq, countNL_eq]
    by_cases h0 : newlines body = 0
    · simp [h0]; omega
    · have : ¬ ((newlines before + 1 : Int) = (newlines before + 1 : Int) + newlines body) := by omega
      simp [h0, this]
  refine ⟨hb, hel, by rw [hec]; omega, ?_⟩
  have hk : d.endLine.toNat - 1 = newlines (before ++ body) := by rw [hel]; omega
  have := afterNL_lastLine (before ++ body)
  simp only [lineStart, hk, hrest]
  rw [afterNL_append_le _ _ _ (Nat.le_refl _), hec]
  simp only [List.length_append] at this ⊢
  omega

/-- CONTEXT: head ++ body ++ tail is the source text from the start of the
start line to the end of the line containing the adjusted end. -/
theorem context_core (before body0 after : Bytes) :
    let d := detailsOf before body0 after
    let src := before ++ body0 ++ after
    let body := if endsNL body0 then body0.dropLast else body0
    slice src (lineStart src d.startLine.toNat) (lineEnd src (before.length + body.length))
      = .ok (d.head ++ d.body ++ d.tail) ∧
    (∀ x ∈ d.head, x ≠ 10) ∧ (∀ x ∈ d.tail, x ≠ 10) := by
  intro d src body
  have hst : (lineStart src d.startLine.toNat : Int) + d.startCol - 1 = before.length :=
    (start_core before body0 after).2.2
  have hb : d.body = body := (end_core before body0 after).1
  have hhead : d.head = lastLine before := rfl
  have hsc : d.startCol = 1 + (lastLine before).length := rfl
  obtain ⟨pre, hpre⟩ := lastLine_suffix before
  have hlen : before.length = pre.length + (lastLine before).length := by
    have := congrArg List.length hpre
    simpa using this
  have hls : lineStart src d.startLine.toNat = pre.length := by
    omega
  refine ⟨?_, by rw [hhead]; exact lastLine_no_nl _, ?_⟩
  · rcases endsNL_cases body0 with ⟨h, b, hb0⟩ | h
    · -- stripped newline: tail empty, the text ends at the newline
      have hbody : body = b := by simp [body, hb0, endsNL_snoc]
      have htail : d.tail = [] := by simp [d, detailsOf, h]
      have hsrc : src = pre ++ (lastLine before ++ b) ++ (10 :: after) := by
        simp only [src, hb0]; conv => lhs; rw [hpre]
        simp
      have hle : lineEnd src (before.length + body.length) = before.length + b.length := by
        have e : src = (before ++ b) ++ 10 :: after := by simp [src, hb0]
        have := lineEnd_append (before ++ b) (10 :: after)
        rw [e, hbody]
        simp only [List.length_append] at this
        rw [this]; simp [lineEnd]
      rw [hls, hle, hb, htail, hhead, hbody, hsrc]
      simp only [List.append_nil]
      apply slice_mid
      · rfl
      · simp only [List.length_append]; omega
    · have hbody : body = body0 := by simp [body, h]
      have htail : d.tail = firstLine after := by simp [d, detailsOf, h]
      obtain ⟨post, hpost⟩ := firstLine_prefix after
      have hsrc : src = pre ++ (lastLine before ++ body0 ++ firstLine after) ++ post := by
        simp only [src]; conv => lhs; rw [hpre, hpost]
        simp
      have hle : lineEnd src (before.length + body.length)
          = before.length + body0.length + (firstLine after).length := by
        have := lineEnd_append (before ++ body0) after
        simp only [List.length_append] at this
        rw [hbody]; simp only [src]
        rw [this, lineEnd_zero]
      rw [hls, hle, hb, htail, hhead, hbody, hsrc]
      apply slice_mid
      · rfl
      · simp only [List.length_append]; omega
  · rcases endsNL_cases body0 with ⟨h, b, hb0⟩ | h
    · have htail : d.tail = [] := by simp [d, detailsOf, h]
      rw [htail]; simp
    · have htail : d.tail = firstLine after := by simp [d, detailsOf, h]
      rw [htail]; exact firstLine_no_nl _

/-- DESCRIBE: which of the three formats `describeRange` uses. -/
theorem describe_core (before body0 after : Bytes) :
    let d := detailsOf before body0 after
    let body := if endsNL body0 then body0.dropLast else body0
    (d.startLine = d.endLine ↔ newlines body = 0) ∧
    ((d.startLine = d.endLine ∧ d.endCol < d.startCol) ↔ body = []) ∧
    describeRange d =
      if body = [] then s!"{d.startLine}:{d.startCol}"
      else if newlines body = 0 then s!"{d.startLine}:{d.startCol}-{d.endCol}"
      else s!"{d.startLine}:{d.startCol}-{d.endLine}:{d.endCol}" := by
  intro d body
  have hb : d.body = body := (end_core before body0 after).1
  have hel : d.endLine = d.startLine + countNL d.body := rfl
  have hec : d.endCol = if d.startLine = d.endLine then d.startCol + d.body.length - 1
      else (lastLine d.body).length := rfl
  rw [hb, countNL_eq] at hel
  rw [hb] at hec
  have h1 : d.startLine = d.endLine ↔ newlines body = 0 := by omega
  have h2 : (d.startLine = d.endLine ∧ d.endCol < d.startCol) ↔ body = [] := by
    constructor
    · rintro ⟨e, lt⟩
      rw [if_pos e] at hec
      have : body.length = 0 := by omega
      exact List.length_eq_zero_iff.mp this
    · intro e
      have e0 : newlines body = 0 := by rw [e]; rfl
      have e1 := h1.mpr e0
      rw [if_pos e1, e] at hec
      exact ⟨e1, by simp at hec; omega⟩
  refine ⟨h1, h2, ?_⟩
  unfold describeRange
  by_cases e : body = []
  · have := h2.mpr e
    rw [if_pos this.1, if_pos this.2, if_pos e]
  · rw [if_neg e]
    by_cases e0 : newlines body = 0
    · have e1 := h1.mpr e0
      have : ¬ d.endCol < d.startCol := fun lt => e (h2.mp ⟨e1, lt⟩)
      rw [if_pos e1, if_neg this, if_pos e0]
    · have e1 : ¬ d.startLine = d.endLine := fun x => e0 (h1.mp x)
      rw [if_neg e1, if_neg e0]

/-- Transfer: an in-range call is `detailsOf` on the three pieces of the source. -/
theorem transfer (src : Bytes) (f t : Int) (h0 : 0 ≤ f) (h1 : f ≤ t) (h2 : t ≤ src.length)
    (d : Details) (hd : getContextDetails src f t = .ok d) :
    ∃ before body0 after, src = before ++ body0 ++ after ∧ f = (before.length : Nat) ∧
      t = ((before.length + body0.length : Nat) : Int) ∧ d = detailsOf before body0 after := by
  obtain ⟨fn, rfl⟩ := Int.eq_ofNat_of_zero_le h0
  obtain ⟨tn, rfl⟩ := Int.eq_ofNat_of_zero_le (Int.le_trans h0 h1)
  have h1' : fn ≤ tn := by omega
  have h2' : tn ≤ src.length := by omega
  rw [getContextDetails_eq src fn tn h1' h2'] at hd
  injection hd with hd
  refine ⟨src.take fn, (src.drop fn).take (tn - fn), src.drop tn, ?_, ?_, ?_, hd.symm⟩
  · have e : List.drop tn src = List.drop (tn - fn) (List.drop fn src) := by
      rw [List.drop_drop]; congr 1; omega
    rw [e, List.append_assoc, List.take_append_drop, List.take_append_drop]
  · simp; omega
  · simp; omega

/-- The adjusted end offset on a decomposed source. -/
theorem adjTo_eq (before body0 after : Bytes) :
    adjTo (before ++ body0 ++ after) before.length (before.length + body0.length)
      = before.length + (if endsNL body0 then body0.dropLast else body0).length := by
  unfold adjTo
  rw [endsInNL_eq]
  rcases endsNL_cases body0 with ⟨h, b, rfl⟩ | h
  · simp [h]
  · simp [h]

theorem sub_to_adj (before body0 after : Bytes) :
    let body := if endsNL body0 then body0.dropLast else body0
    sub (before ++ body0 ++ after) 0 (before.length + body.length) = before ++ body ∧
    sub (before ++ body0 ++ after) before.length (before.length + body.length) = body := by
  intro body
  have hpre : ∃ rest, before ++ body0 ++ after = (before ++ body) ++ rest := by
    rcases endsNL_cases body0 with ⟨h, b, rfl⟩ | h
    · exact ⟨10 :: after, by simp [body, h]⟩
    · exact ⟨after, by simp [body, h]⟩
  obtain ⟨rest, hrest⟩ := hpre
  rw [hrest]
  constructor
  · have := sub_prefix (before ++ body) rest
    simpa using this
  · exact sub_mid before body rest

/-- A range whose last counted byte is itself a newline ends at column 0. -/
theorem end_after_newline_core (before body0 after : Bytes) :
    let d := detailsOf before body0 after
    let body := if endsNL body0 then body0.dropLast else body0
    endsNL body = true → d.endCol = 0 := by
  intro d body h
  have hb : d.body = body := (end_core before body0 after).1
  have hec : d.endCol = if d.startLine = d.startLine + countNL d.body
      then d.startCol + d.body.length - 1 else (lastLine d.body).length := rfl
  rcases endsNL_cases body with ⟨_, b, hb'⟩ | h'
  · rw [hb, hb', countNL_eq, newlines_append, lastLine_append] at hec
    have : newlines [10] = 1 := rfl
    rw [this] at hec
    have ne : ¬ (d.startLine = d.startLine + ((newlines b + 1 : Nat) : Int)) := by omega
    rw [if_neg ne] at hec
    simpa [lastLine_singleton] using hec
  · rw [h] at h'; cases h'
