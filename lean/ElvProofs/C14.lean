/-
C14 — Element assignment never mutates values seen elsewhere.

Property theorems over the model `ElvModel/C14/Model.lean` (element.go with
fixes/C14-element-set-stale-containers.patch) and the spec vocabulary
`ElvModel/C14/Spec.lean` (`assocIn`, `dissocIn`, `headsS`).

What these theorems can and cannot say: values of the model are immutable by
construction, so "every previously obtained value keeps its contents" holds
structurally; the theorems state which VARIABLES a statement may rebind and
to what.  That the Go containers (persistent vector / HAMT) never write
through shared slices or arrays is the content of C06_ops_preserve_old /
C07_history_refines_reference for the containers in isolation and of the
alias re-observation of harness/c14 for their use by element assignment
(sampled) — see `C14_full` below and notes/C14.md.
-/
import ElvProofs.C14.Exec
import ElvProofs.C14.NoPanic
open Go C14

/-! ## element.go computes the nested assoc / dissoc of the statement -/

/-- `elem.Set` (containers outside-in, then `Assoc` inside-out) computes
`assoc a i₁ (assoc a[i₁] i₂ (… v))`. -/
theorem C14_element_set_is_nested_assoc (cur : Val) (idx : List Key) (v : Val) (hne : idx ≠ []) :
    setElem cur idx v = assocIn cur idx v :=
  setElem_eq_assocIn cur idx v hne

/-- `DelElement` computes `assoc a i₁ (… (dissoc a[i₁]…[i_{k-1}] i_k))`. -/
theorem C14_element_del_is_nested_dissoc (cur : Val) (idx : List Key) :
    delElem cur idx = dissocIn cur idx :=
  delElem_eq_dissocIn cur idx

/-- What `assoc`/`dissoc` mean on maps (the reference operations the HAMT is
proved to refine in C07): the key gets the value / disappears, every other key
keeps its entry. -/
theorem C14_map_assoc_dissoc_lookup (kvs : List (Key × Val)) (k k' : Key) (v : Val) :
    lookup (mapAssoc kvs k v) k = some v ∧
    lookup (mapDissoc kvs k) k = none ∧
    (k' ≠ k → lookup (mapAssoc kvs k v) k' = lookup kvs k' ∧ lookup (mapDissoc kvs k) k' = lookup kvs k') := by
  have hfilter : ∀ k', k' ≠ k →
      (kvs.filter (fun e => !(e.1 == k))).find? (fun e => e.1 == k') = kvs.find? (fun e => e.1 == k') := by
    intro k' hk
    induction kvs with
    | nil => rfl
    | cons e rest ih =>
      by_cases he : e.1 = k
      · have h1 : (e.1 == k) = true := by simpa using he
        have h2 : (e.1 == k') = false := by simpa [he] using fun h => hk h.symm
        simp [List.filter, List.find?, h1, h2, ih]
      · have h1 : (e.1 == k) = false := by simpa using he
        by_cases he' : e.1 = k'
        · have h2 : (e.1 == k') = true := by simpa using he'
          simp [List.filter, List.find?, h1, h2]
        · have h2 : (e.1 == k') = false := by simpa using he'
          simp [List.filter, List.find?, h1, h2, ih]
  refine ⟨by simp [lookup, mapAssoc], ?_, ?_⟩
  · simp only [lookup, mapDissoc, Option.map_eq_none_iff, List.find?_eq_none]
    intro e he
    simp only [List.mem_filter] at he
    simpa using he.2
  · intro hk
    have hb : (k == k') = false := by simpa using fun h => hk h.symm
    simp [lookup, mapAssoc, mapDissoc, List.find?, hb, hfilter k' hk]

example : lookup (mapAssoc [(.str [97], .nil)] (.str [98]) (.num 1)) (.str [98]) = some (.num 1) := rfl

/-! ## `set`: only the head variable is rebound, to the nested assoc -/

/-- `set a[i₁]…[i_k] = e`: every other variable keeps its value; on success
the new value of `a` is the nested assoc of its old value (`k = 0`: `e` itself)
and no restore is registered; on failure the store is untouched. -/
theorem C14_set_rebinds_only_head (σ : Store) (lv : LV) (r : Rhs) :
    (∀ y, y ≠ lv.head → (exec σ (.assign false [lv] [r])).store.get y = σ.get y) ∧
    ((exec σ (.assign false [lv] [r])).err = none →
      ∃ cur v nv, σ.get lv.head = some cur ∧ evalRhs σ r = .ok v ∧ assocIn cur lv.idx v = .ok nv ∧
        (exec σ (.assign false [lv] [r])).store = σ.set lv.head nv ∧
        (exec σ (.assign false [lv] [r])).store.get lv.head = some nv ∧
        (exec σ (.assign false [lv] [r])).defers = []) ∧
    ((exec σ (.assign false [lv] [r])).err ≠ none → (exec σ (.assign false [lv] [r])).store = σ) := by
  refine ⟨fun y hy => exec_frame σ _ y (by simpa [headsS] using hy), ?_, ?_⟩
  all_goals
    simp only [exec]
    rcases doAssign_single false σ lv r with ⟨f, hf⟩ | ⟨cur, v, nv, h1, h2, h3, h4⟩
  · intro h; rw [hf] at h; cases h
  · intro _
    rw [h4]
    exact ⟨cur, v, nv, h1, h2, by rw [← newValue_eq_assocIn]; exact h3, rfl, get_set_eq _ _ _, rfl⟩
  · intro _; rw [hf]
  · intro h; rw [h4] at h; exact absurd rfl h

/-- non-vacuity: `set a[1][k] = z` on `a = [x [&k=y]]`. -/
example :
    ((exec [("a", .list [.str [120], .map [(.str [107], .str [121])]])]
        (.assign false [⟨"L", "a", [.str [49], .str [107]]⟩] [.lit (.str [122])])).store.get "a").isSome = true ∧
    (exec [("a", .list [.str [120], .map [(.str [107], .str [121])]])]
        (.assign false [⟨"L", "a", [.str [49], .str [107]]⟩] [.lit (.str [122])])).err.isNone = true := by
  constructor <;> decide

/-! ## `del`: only the head variable is rebound, to the nested dissoc -/

theorem C14_del_rebinds_only_head (σ : Store) (lv : LV) :
    (∀ y, y ≠ lv.head → (exec σ (.del lv)).store.get y = σ.get y) ∧
    ((exec σ (.del lv)).err = none →
      ∃ cur nv, σ.get lv.head = some cur ∧ dissocIn cur lv.idx = .ok nv ∧
        (exec σ (.del lv)).store = σ.set lv.head nv ∧
        (exec σ (.del lv)).store.get lv.head = some nv) ∧
    ((exec σ (.del lv)).err ≠ none → (exec σ (.del lv)).store = σ) := by
  refine ⟨fun y hy => exec_frame σ _ y (by simpa [headsS] using hy), ?_, ?_⟩
  all_goals
    simp only [exec, execDel]
    cases hg : σ.get lv.head with
    | none => simp
    | some cur =>
      simp only []
      cases hd : delElem cur lv.idx with
      | ok nv =>
        simp only []
        first
        | (intro _; exact ⟨cur, nv, rfl, by rw [← delElem_eq_dissocIn]; exact hd, rfl, get_set_eq _ _ _⟩)
        | (intro h; exact absurd rfl h)
      | panic w => simp
      | exc e =>
        simp only []
        cases delErrSite e lv.idx.length with
        | none => simp
        | some n => cases n <;> simp

/-- The error range of `del`: `ends[level]` is always inside `ends` (length
`n+1`); the "does not support element removal" error points at the whole
`a[i₁]…[i_n]`, every other error at the variable name. -/
theorem C14_del_error_level_in_range (msg : String) (n : Nat) :
    ∃ i, delErrSite msg n = some i ∧ i < n + 1 ∧
      (msg = noRemoval → i = n ∧ delErrLevel msg n = n) ∧
      (msg ≠ noRemoval → i = 0 ∧ delErrLevel msg n = -1) := by
  unfold delErrSite delErrLevel
  by_cases h : msg = noRemoval
  · refine ⟨n, ?_, by omega, fun _ => ⟨rfl, by simp [h]⟩, fun h' => absurd h h'⟩
    simp only [h, if_true]
    rw [if_neg (by omega), if_pos (by omega)]
    simp
  · refine ⟨0, ?_, by omega, fun h' => absurd h' h, fun _ => ⟨rfl, by simp [h]⟩⟩
    simp [h]

/-! ## the general frame condition and aliases -/

/-- ANY statement (nested `set`/`tmp`/`del`/`with`/function calls) leaves every
variable that is not the head of one of its lvalues exactly as it was. -/
theorem C14_frame (σ : Store) (s : Stmt) (y : String) (hy : y ∉ headsS s) :
    (exec σ s).store.get y = σ.get y :=
  exec_frame σ s y hy

/-- An alias — another variable (or a closure's private variable) holding the
value — still evaluates to that value after any statement that does not
assign the alias itself. -/
theorem C14_alias_unchanged (σ : Store) (s : Stmt) (b : String) (v : Val)
    (hb : σ.get b = some v) (hs : b ∉ headsS s) :
    evalRhs (exec σ s).store (.ref b []) = .ok v := by
  simp [evalRhs, exec_frame σ s b hs, hb, indexPath]

example : "b" ∉ headsS (.call [.assign true [⟨"L", "a", [.str [48]]⟩] [.lit .nil], .del ⟨"M", "a", [.str [49]]⟩]) := by
  decide

/-! ## `with` and `tmp` restore the head variable's whole previous value -/

/-- `with [l₁ = r₁]… { body }`: whatever the body does (including assignments
to the same variables), afterwards every head variable of the assignments has
the value it had before — and if one of the assignments fails, every variable
has. -/
theorem C14_with_restores (σ : Store) (assigns : List (List LV × List Rhs)) (body : List Stmt) :
    (∀ a ∈ assigns, ∀ lv ∈ a.1, (exec σ (.withS assigns body)).store.get lv.head = σ.get lv.head) ∧
    ((withAssigns σ [] assigns).2.2 ≠ none →
      ∀ h, (exec σ (.withS assigns body)).store.get h = σ.get h) := by
  obtain ⟨hinv, hall, _⟩ := withAssigns_inv σ assigns σ [] (inv_init σ)
  simp only [exec]
  rcases hw : withAssigns σ [] assigns with ⟨σ1, ds, e⟩
  rw [hw] at hinv hall
  have hfail : ∀ h, (restore ds σ1).get h = σ.get h := by
    intro h
    rw [restore_get]
    obtain ⟨i1, i2⟩ := hinv h
    cases hf : ds.find? (fun d => d.1 == h) with
    | some d => exact (i1 d hf).symm
    | none => exact i2 hf
  cases e with
  | some f => exact ⟨fun a _ lv _ => hfail lv.head, fun _ h => hfail h⟩
  | none =>
    refine ⟨?_, fun h => absurd rfl h⟩
    intro a ha lv hlv
    simp only []
    rw [restore_get]
    have hsome := hall rfl a ha lv hlv
    cases hf : ds.find? (fun d => d.1 == lv.head) with
    | some d => exact ((hinv lv.head).1 d hf).symm
    | none => simp [hf] at hsome

/-- A function whose first statement is `tmp l₁ … = r₁ …`: whatever the rest of
the body does, when the function has finished every head variable of that `tmp`
has the value it had before. -/
theorem C14_tmp_restores (σ : Store) (lhs : List LV) (rhs : List Rhs) (body : List Stmt) :
    ∀ lv ∈ lhs, (exec σ (.call (.assign true lhs rhs :: body))).store.get lv.head = σ.get lv.head := by
  intro lv hlv
  obtain ⟨hinv, hall, _⟩ := doAssign_inv σ σ [] lhs rhs (inv_init σ)
  simp only [exec, execList]
  rcases hd : doAssign true σ lhs rhs with ⟨σ1, ds, e⟩
  rw [hd] at hinv hall
  simp only [List.nil_append] at hinv hall
  cases e with
  | some f =>
    simp only []
    rw [restore_get]
    obtain ⟨i1, i2⟩ := hinv lv.head
    cases hf : ds.find? (fun d => d.1 == lv.head) with
    | some d => exact (i1 d hf).symm
    | none => exact i2 hf
  | none =>
    simp only []
    rw [restore_get, List.find?_append]
    have hsome := hall rfl lv hlv
    cases hf : ds.find? (fun d => d.1 == lv.head) with
    | some d => simpa using ((hinv lv.head).1 d hf).symm
    | none => simp [hf] at hsome

/-- non-vacuity: `{ tmp a[0] = t; set a[1] = u; put $a }` leaves `a` as it was
and outputs the temporary value. -/
example :
    let σ : Store := [("a", .list [.str [120], .str [121]])]
    let r := exec σ (.call [.assign true [⟨"L", "a", [.str [48]]⟩] [.lit (.str [116])],
                             .assign false [⟨"M", "a", [.str [49]]⟩] [.lit (.str [117])],
                             .put [.ref "a" []]])
    r.err.isNone = true ∧ r.outs.length = 1 ∧ (r.store.get "a").isSome = true := by
  decide

/-! ## no panic -/

/-- A single `set`/`tmp` on a declared variable and a `del` with at least one
index never take a Go-panic branch (bad index arithmetic, nil containers,
`ends[level]` out of range). -/
theorem C14_set_del_no_panic (σ : Store) (temp : Bool) (lv : LV) (r : Rhs) (w : String)
    (hdecl : (σ.get lv.head).isSome) (hrhs : ∀ x p, r = .ref x p → (σ.get x).isSome) :
    (exec σ (.assign temp [lv] [r])).err ≠ some (.panic w) ∧
    (lv.idx ≠ [] → (exec σ (.del lv)).err ≠ some (.panic w)) := by
  obtain ⟨cur, hcur⟩ := Option.isSome_iff_exists.mp hdecl
  constructor
  · simp only [exec, doAssign]
    cases hd : derefAll σ [lv] with
    | error f =>
      intro h
      simp only [Option.some.injEq] at h
      exact derefAll_single_no_panic σ lv cur hcur w (by rw [hd, h])
    | ok u =>
      rw [evalAll_single]
      have hr : ∀ w', evalRhs σ r ≠ .panic w' := by
        intro w'
        cases r with
        | lit v => simp [evalRhs]
        | ref x p =>
          obtain ⟨c, hc⟩ := Option.isSome_iff_exists.mp (hrhs x p rfl)
          simpa [evalRhs, hc] using indexPath_no_panic p c w'
      cases he : evalRhs σ r with
      | panic w' => exact absurd he (hr w')
      | exc e => simp
      | ok v =>
        simp only [List.length_cons, List.length_nil, ne_eq, not_true_eq_false, if_false,
          List.zip_cons_cons, List.zip_nil_right, setAll, hcur]
        have hn := newValue_eq_assocIn cur lv v
        unfold newValue at hn
        rw [hn]
        cases ha : assocIn cur lv.idx v with
        | panic w' => exact absurd ha (assocIn_no_panic _ cur v w')
        | exc e => simp
        | ok nv => simp
  · intro hne
    simp only [exec, execDel, hcur, delElem_eq_dissocIn]
    cases hd : dissocIn cur lv.idx with
    | panic w' => exact absurd hd (dissocIn_no_panic _ hne cur w')
    | ok nv => simp
    | exc e =>
      simp only []
      obtain ⟨i, hi, _, _, _⟩ := C14_del_error_level_in_range e lv.idx.length
      rw [hi]
      cases i <;> simp

/-! ## several lvalues: assigned one after the other (the fixed `elem.Set`) -/

/-- `set a[i…] a[j…] = e₁ e₂`: both right-hand sides are evaluated first; then
the elements are assigned in order, the second into the value the first
assignment produced — `a` ends as `assocIn (assocIn a i e₁) j e₂`.  (Hence
`set a[i] a[j] = $a[j] $a[i]` swaps.) -/
theorem C14_multi_assign_is_sequential (σ : Store) (t1 t2 a : String) (i1 i2 : List Key) (r1 r2 : Rhs)
    (hok : (exec σ (.assign false [⟨t1, a, i1⟩, ⟨t2, a, i2⟩] [r1, r2])).err = none) :
    ∃ cur v1 v2 nv1 nv2, σ.get a = some cur ∧ evalRhs σ r1 = .ok v1 ∧ evalRhs σ r2 = .ok v2 ∧
      assocIn cur i1 v1 = .ok nv1 ∧ assocIn nv1 i2 v2 = .ok nv2 ∧
      (exec σ (.assign false [⟨t1, a, i1⟩, ⟨t2, a, i2⟩] [r1, r2])).store.get a = some nv2 := by
  simp only [exec, doAssign] at hok ⊢
  cases hd : derefAll σ [⟨t1, a, i1⟩, ⟨t2, a, i2⟩] with
  | error f => rw [hd] at hok; cases hok
  | ok u =>
    rw [hd] at hok
    simp only [] at hok ⊢
    rw [evalAll_pair] at hok ⊢
    cases h1 : evalRhs σ r1 with
    | exc e => rw [h1] at hok; cases hok
    | panic w => rw [h1] at hok; cases hok
    | ok v1 =>
      cases h2 : evalRhs σ r2 with
      | exc e => rw [h1, h2] at hok; cases hok
      | panic w => rw [h1, h2] at hok; cases hok
      | ok v2 =>
        rw [h1, h2] at hok
        simp only [List.length_cons, List.length_nil, ne_eq, not_true_eq_false, if_false,
          List.zip_cons_cons, List.zip_nil_right, setAll] at hok ⊢
        cases hg : σ.get a with
        | none => rw [hg] at hok; cases hok
        | some cur =>
          rw [hg] at hok
          simp only [] at hok ⊢
          have e1 := newValue_eq_assocIn cur ⟨t1, a, i1⟩ v1
          unfold newValue at e1
          simp only [] at e1
          rw [e1] at hok ⊢
          cases ha1 : assocIn cur i1 v1 with
          | exc e => rw [ha1] at hok; cases hok
          | panic w => rw [ha1] at hok; cases hok
          | ok nv1 =>
            rw [ha1] at hok
            simp only [Bool.false_eq_true, if_false, get_set_eq] at hok ⊢
            have e2 := newValue_eq_assocIn nv1 ⟨t2, a, i2⟩ v2
            unfold newValue at e2
            simp only [] at e2
            rw [e2] at hok ⊢
            cases ha2 : assocIn nv1 i2 v2 with
            | exc e => rw [ha2] at hok; cases hok
            | panic w => rw [ha2] at hok; cases hok
            | ok nv2 =>
              exact ⟨cur, v1, v2, nv1, nv2, rfl, rfl, rfl, ha1, ha2, get_set_eq _ _ _⟩

example :
    (exec [("a", .list [.str [49], .str [50], .str [51]])]
      (.assign false [⟨"L1", "a", [.str [48]]⟩, ⟨"L2", "a", [.str [49]]⟩] [.ref "a" [.str [49]], .ref "a" [.str [48]]])).err.isNone = true := by
  decide

/-! ## the unfixed `elem.Set` (before fixes/C14-element-set-stale-containers.patch) -/

/-- With the containers cached by `MakeElement`, `set a[0] a[1] = x y` on
`a = [1 2 3]` succeeds and leaves `[1 y 3]` — the assignment to `a[0]` is lost
(the variable is NOT rebound to the nested assoc of its old value `[x 2 3]`) —
and the swap `set a[0] a[1] = $a[1] $a[0]` leaves `[1 1 3]`.  The fixed model
gives `[x y 3]` and `[2 1 3]`.  Witness in harness/corpus/C14.txt. -/
theorem C14_unfixed_counterexample :
    let σ : Store := [("a", .list [.str [49], .str [50], .str [51]])]
    let lhs : List LV := [⟨"L1", "a", [.str [48]]⟩, ⟨"L2", "a", [.str [49]]⟩]
    let xy : List Rhs := [.lit (.str [120]), .lit (.str [121])]
    let swap : List Rhs := [.ref "a" [.str [49]], .ref "a" [.str [48]]]
    (doAssignStale σ lhs xy).1.get "a" = some (.list [.str [49], .str [121], .str [51]]) ∧
    (doAssignStale σ lhs xy).2.isNone = true ∧
    (exec σ (.assign false lhs xy)).store.get "a" = some (.list [.str [120], .str [121], .str [51]]) ∧
    (doAssignStale σ lhs swap).1.get "a" = some (.list [.str [49], .str [49], .str [51]]) ∧
    (exec σ (.assign false lhs swap)).store.get "a" = some (.list [.str [50], .str [49], .str [51]]) := by
  refine ⟨?_, ?_, ?_, ?_, ?_⟩ <;> rfl

/-! ## the property -/

/-- C14 as far as a model with immutable values can state it: statements
rebind only the variables they assign (every other variable, hence every alias
held in another variable or in a closure's own variable, keeps its value);
`set` rebinds to the nested assoc and `del` to the nested dissoc of the old
value, and change nothing when they fail; `with` and a function starting with
`tmp` put back the head variable's whole previous value.

NOT expressible here (the `_partial` in the theorem's name): that the Go
containers reachable from an old value are never written through — in Lean a
`Val` cannot change.  For the containers in isolation this is
`C06_ops_preserve_old` / `C07_history_refines_reference`; for their use by
element assignment it is checked on every step of every generated history by
the `alias-mutated` oracle of harness/c14 (sampled). -/
def C14_full : Prop :=
  (∀ (σ : Store) (s : Stmt) (y : String), y ∉ headsS s → (exec σ s).store.get y = σ.get y) ∧
  (∀ (σ : Store) (s : Stmt) (b : String) (v : Val), σ.get b = some v → b ∉ headsS s →
    evalRhs (exec σ s).store (.ref b []) = .ok v) ∧
  (∀ (σ : Store) (lv : LV) (r : Rhs),
    ((exec σ (.assign false [lv] [r])).err = none →
      ∃ cur v nv, σ.get lv.head = some cur ∧ evalRhs σ r = .ok v ∧ assocIn cur lv.idx v = .ok nv ∧
        (exec σ (.assign false [lv] [r])).store = σ.set lv.head nv) ∧
    ((exec σ (.assign false [lv] [r])).err ≠ none → (exec σ (.assign false [lv] [r])).store = σ)) ∧
  (∀ (σ : Store) (lv : LV),
    ((exec σ (.del lv)).err = none →
      ∃ cur nv, σ.get lv.head = some cur ∧ dissocIn cur lv.idx = .ok nv ∧
        (exec σ (.del lv)).store = σ.set lv.head nv) ∧
    ((exec σ (.del lv)).err ≠ none → (exec σ (.del lv)).store = σ)) ∧
  (∀ (σ : Store) (assigns : List (List LV × List Rhs)) (body : List Stmt),
    ∀ a ∈ assigns, ∀ lv ∈ a.1, (exec σ (.withS assigns body)).store.get lv.head = σ.get lv.head) ∧
  (∀ (σ : Store) (lhs : List LV) (rhs : List Rhs) (body : List Stmt),
    ∀ lv ∈ lhs, (exec σ (.call (.assign true lhs rhs :: body))).store.get lv.head = σ.get lv.head)

theorem C14_full_partial : C14_full := by
  refine ⟨C14_frame, C14_alias_unchanged, ?_, ?_, fun σ as body => (C14_with_restores σ as body).1,
    C14_tmp_restores⟩
  · intro σ lv r
    obtain ⟨_, h2, h3⟩ := C14_set_rebinds_only_head σ lv r
    refine ⟨fun h => ?_, h3⟩
    obtain ⟨cur, v, nv, a, b, c, d, _⟩ := h2 h
    exact ⟨cur, v, nv, a, b, c, d⟩
  · intro σ lv
    obtain ⟨_, h2, h3⟩ := C14_del_rebinds_only_head σ lv
    refine ⟨fun h => ?_, h3⟩
    obtain ⟨cur, nv, a, b, c, _⟩ := h2 h
    exact ⟨cur, nv, a, b, c⟩
