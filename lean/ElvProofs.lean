import ElvProofs.C37
