import ElvModel.C00.Driver
def main : IO Unit := C00.driver.main
