import ElvModel.Go.Driver
import ElvModel.Go.Utf8
/-! C00 is not a property: it ties the shared UTF-8 prelude to Go's unicode/utf8. -/
namespace C00
open Go

def stepLine : List String → String
  | ["dec", h] => match hexDecode h with
    | some s => let (r, n) := decodeRune s; s!"{r} {n}"
    | none => "bad-op"
  | ["declast", h] => match hexDecode h with
    | some s => let (r, n) := decodeLastRune s; s!"{r} {n}"
    | none => "bad-op"
  | ["enc", r] => match r.toNat? with
    | some r => s!"{hexEnc (encodeRune r)} {runeLen r}"
    | none => "bad-op"
  | ["valid", h] => match hexDecode h with
    | some s => s!"{validUtf8 s} {toRunes s}"
    | none => "bad-op"
  | _ => "bad-op"

def driver : Driver := Driver.pure stepLine
end C00
