import ElvModel.Go.Driver
import ElvModel.C42.Model
/-!
C42 driver.  Op lines (tab separated):

`run <ctx> <files> <redirs> <actions>`
* ctx: `p` (plain), `i` (input is a pipe), `o` (output is a pipe), `io`
* files: `a:<c>,b:<c>,c:<c>` with `<c>` = `~` (absent) | hex (`-` = empty)
* redirs: `;`-separated `DST|MODE|SRC` (or `-`):
  FdVal = `S:<text>:<int|x>` | `I:<int>` | `O` | `M:<k>` | `E`; DST = `_` | FdVal;
  MODE = `r|w|rw|a`; SRC = `&`FdVal | `f:<path>` | `F` | `P:<rw|r|w|0>` | `X` | `M:<k>` | `E`
* actions: `;`-separated `e:<n|_>:<hex>` | `p:<n|_>:<hex>` | `d:<n>:<hex>` | `r:<n|_>` (or `-`)

The initial frame mirrors the harness set-up: handles 0 `in0` (read only),
1/2 the capture pipes of ports 1/2, 3 the file object `$fo` (on file `o`),
4/5 the two ends of the pipe map `$pp`, 6/7 the pipeline pipes of the form.
-/
namespace C42
open Go

def parseInt? (s : String) : Option Int := s.toInt?

def parseFdVal (s : String) : Option FdVal :=
  match s.splitOn ":" with
  | ["S", t, "x"] => some (.str t none)
  | ["S", t, n] => (parseInt? n).map fun n => .str t (some n)
  | ["I", n] => (parseInt? n).map .int
  | ["O"] => some .other
  | ["M", k] => k.toNat?.map .many
  | ["E"] => some .fail
  | _ => none

def parseMode : String → Option Mode
  | "r" => some .read
  | "w" => some .write
  | "rw" => some .readWrite
  | "a" => some .append
  | _ => none

def parseSrc (s : String) : Option Src :=
  if s.startsWith "&" then (parseFdVal (s.drop 1).toString).map .fd
  else match s.splitOn ":" with
    | ["f", p] => some (.name p)
    | ["F"] => some (.fileObj 3)
    | ["P", "rw"] => some (.map (some 4) (some 5))
    | ["P", "r"] => some (.map (some 4) none)
    | ["P", "w"] => some (.map none (some 5))
    | ["P", "0"] => some (.map none none)
    | ["X"] => some .other
    | ["M", k] => k.toNat?.map .many
    | ["E"] => some .fail
    | _ => none

def parseRedir (s : String) : Option Redir :=
  match s.splitOn "|" with
  | [d, m, src] => do
    let dst ← if d = "_" then some none else (parseFdVal d).map some
    let mode ← parseMode m
    let src ← parseSrc src
    some ⟨dst, mode, src⟩
  | _ => none

def parseList {α} (f : String → Option α) (s : String) : Option (List α) :=
  if s = "-" then some [] else (s.splitOn ";").mapM f

def parseOptNat (s : String) : Option (Option Nat) :=
  if s = "_" then some none else s.toNat?.map some

def parseAction (s : String) : Option Action :=
  match s.splitOn ":" with
  | ["e", n, h] => do some (.echo (← parseOptNat n) (← hexDecode h))
  | ["p", n, h] => do some (.put (← parseOptNat n) (← hexDecode h))
  | ["d", n, h] => do some (.direct (← n.toNat?) (← hexDecode h))
  | ["r", n] => do some (.read (← parseOptNat n))
  | _ => none

def parseFiles (s : String) : Option FS :=
  (s.splitOn ",").foldlM (fun fs e =>
    match e.splitOn ":" with
    | [_, "~"] => some fs
    | [name, h] => (hexDecode h).map fun d => fs ++ [(name, Node.file d)]
    | _ => none) []

def inBytes : Bytes := strBytes "IN0\n"
def upBytes : Bytes := strBytes "UP\n"
def foBytes : Bytes := strBytes "OOOO"
def ppBytes : Bytes := strBytes "PP\n"

/-- Initial state for a context; also the input pipe port when there is one. -/
def initSt (ctx : String) (files : FS) : St × Option Port :=
  let pin := ctx = "i" || ctx = "io"
  let pout := ctx = "o" || ctx = "io"
  let fs : FS := files ++ [("d", .dir), ("n/x", .noParent), ("o", .file foBytes),
    ("in0", .file inBytes), ("|o1", .file []), ("|o2", .file []), ("|pp", .file ppBytes),
    ("|up", .file upBytes), ("|dn", .file [])]
  let hs : List Handle := [
    ⟨"in0", 0, true, false, false, true⟩,
    ⟨"|o1", 0, false, true, true, true⟩,
    ⟨"|o2", 0, false, true, true, true⟩,
    ⟨"o", 0, true, true, false, true⟩,
    ⟨"|pp", 0, true, false, false, true⟩,
    ⟨"|pp", 0, false, true, true, true⟩,
    ⟨"|up", 0, true, false, false, pin⟩,
    ⟨"|dn", 0, false, true, true, pout⟩]
  let p0 : Port := if pin then ⟨3, some 6, .live 3, false, true, true⟩ else ⟨0, some 0, .closed, false, false, false⟩
  let p1 : Port := if pout then ⟨4, some 7, .live 4, false, true, false⟩ else ⟨1, some 1, .live 1, false, false, false⟩
  let p2 : Port := ⟨2, some 2, .live 2, false, false, false⟩
  let fops : List Fop :=
    if pout then [⟨pin, false⟩, ⟨true, true⟩] else if pin then [⟨true, false⟩] else []
  (⟨[some p0, some p1, some p2], fops, ⟨fs, hs, [], []⟩, 5⟩, if pin then some p0 else none)

def handleName (w : World) (hi : Nat) : String :=
  match hi with
  | 0 => "in0" | 1 => "o1" | 2 => "o2" | 3 => "fo" | 4 => "pr" | 5 => "pw" | 6 => "up" | 7 => "dn"
  | _ => match w.hs[hi]? with
    | some h => h.path
    | none => "?"

def chanName : Chan → String
  | .nil => "nil"
  | .closed => "closed"
  | .live 1 => "c1"
  | .live 2 => "c2"
  | .live _ => "pipe"

/-- drop trailing `none`s -/
def trimTable (t : List (Option Port)) : List (Option Port) :=
  (t.reverse.dropWhile (·.isNone)).reverse

def showTable (w : World) (t : List (Option Port)) : String :=
  let t := trimTable t
  if t.isEmpty then "-" else
  let idxOf (f : Port → Bool) : Nat := (t.findIdx? (fun q => q.any f)).elim 0 id
  ",".intercalate <| t.map fun
    | none => "_"
    | some p =>
      let fileS := match p.file with
        | none => "nil"
        | some hi => s!"{handleName w hi}@{idxOf (fun q => q.file == some hi)}"
      s!"{fileS}.{chanName p.chan}.{idxOf (fun q => q.pid == p.pid)}"

def fileContent (w : World) (p : String) : String :=
  match w.fs.get p with
  | some (.file d) => hexEnc d
  | some .dir => "D"
  | some .noParent => "N"
  | none => "~"

def sentOn (w : World) (id : Nat) : String :=
  let vs := (w.sent.filter (·.1 == id)).map fun (_, v) => hexEnc v
  if vs.isEmpty then "-" else ",".intercalate vs

def showOut (ctx : String) (o : FormOut) : String :=
  let w := o.st.w
  let pout := ctx = "o" || ctx = "io"
  let o1 := if pout then s!"{fileContent w "|dn"}/{sentOn w 4}" else s!"{fileContent w "|o1"}/{sentOn w 1}"
  let openBits := String.ofList <| (List.range 6).map fun i =>
    match w.hs[i]? with
    | some h => if h.isOpen then '1' else '0'
    | none => '?'
  -- what is left in the pipe of `$pp` for the harness to read after the form
  let ppRest := match w.hs[4]?, w.fs.get "|pp" with
    | some h, some (.file d) => if h.isOpen then hexEnc (d.drop h.pos) else "X"
    | _, _ => "?"
  let leak := ((w.hs.drop 6).filter (·.isOpen)).length
  let acts := if o.acts.isEmpty then "-" else ",".intercalate o.acts
  s!"exc={o.exc.elim "ok" id} acts={acts} tbl={showTable w o.table} o1={o1} " ++
  s!"o2={fileContent w "|o2"}/{sentOn w 2} files=a:{fileContent w "a"},b:{fileContent w "b"},c:{fileContent w "c"},o:{fileContent w "o"} " ++
  s!"pp={ppRest} open={openBits} leak={leak}"

def stepLine : List String → String
  | ["run", ctx, files, redirs, actions] =>
    match parseFiles files, parseList parseRedir redirs, parseList parseAction actions with
    | some fs, some rs, some as =>
      let (st, ip) := initSt ctx fs
      match runForm Cfg.fixed st ip rs as with
      | .ok o => showOut ctx o
      | .exc e => s!"EXC {e}"
      | .panic _ => "PANIC"
    | _, _, _ => "bad-op"
  | _ => "bad-op"

def driver : Driver := Driver.pure stepLine
end C42
