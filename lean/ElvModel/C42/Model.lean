/-
C42 model: redirections (pkg/eval/compile_effect.go `redirOp.exec`, `evalForFd`,
`fileRedirPort`, `growAccess`, `makeFlag`, `formOwnedPort.close`, the per-form
part of `pipelineOp.exec`; pkg/eval/frame.go `ValueOutput`/`ByteOutput`;
pkg/eval/port.go `valueOutput.Put`), over an explicit world of files, open
file handles (`*os.File`) and value channels.

The model is parameterised by `Cfg`: which of the four repairs
`fixes/C42-*.patch` (and of the later repair of `Frame.ValueOutput` for the
reading end of a pipe, `pipeReadEnd`) the modelled code contains.  `Cfg.fixed`
is the code the theorems and the correspondence are about; `Cfg.orig` is the
unchanged tree and is only used for the `C42_counterexample_*` theorems.
-/
import ElvModel.Go.Basic
import ElvModel.Generated.C42Flags
namespace C42
open Go

/-! ### Configuration -/

structure Cfg where
  /-- `evalForFd` rejects `fd < 0` and `fd > maxRedirFD` (C42-fd-range). -/
  fdRange : Bool
  /-- a replaced port is handed over / kept instead of closed eagerly (C42-dup-then-override). -/
  handOver : Bool
  /-- `pipelineOp.exec` remembers the input pipe port itself (C42-pipe-input-override). -/
  pipeInput : Bool
  /-- `Frame.ValueOutput` refuses `ClosedChan` (C42-value-output-input-port). -/
  inputPortVO : Bool
  /-- number of slice elements whose allocation kills the process (only reachable when `fdRange = false`). -/
  memSlots : Nat
  /-- `Frame.ValueOutput` refuses the reading end of a pipe (`pipeReadEnd`; the later fix
  "value output to the reading end of a pipe raises instead of panicking", found by C17). -/
  readEndVO : Bool

def Cfg.fixed : Cfg := ⟨true, true, true, true, 2 ^ 33, true⟩
def Cfg.orig : Cfg := ⟨false, false, false, false, 2 ^ 33, false⟩

/-- `maxRedirFD` of the fix. -/
def maxRedirFD : Int := 1023

/-! ### Redirection modes and open flags -/

inductive Mode | read | write | readWrite | append
  deriving Repr, DecidableEq

/-- The value of the `parse.RedirMode` constant (regenerated from pkg/parse/parse.go). -/
def Mode.code : Mode → Int
  | .read => Gen.C42Flags.Read
  | .write => Gen.C42Flags.Write
  | .readWrite => Gen.C42Flags.ReadWrite
  | .append => Gen.C42Flags.Append

/-- `os.OpenFile` flags, symbolically (the numeric `os.O_*` values are platform constants). -/
structure OpenFlag where
  rd : Bool
  wr : Bool
  create : Bool
  trunc : Bool
  app : Bool
  deriving Repr, DecidableEq

/-- `makeFlag` (the `default: -1` arm is unreachable for the four modes). -/
def makeFlag : Mode → OpenFlag
  | .read => ⟨true, false, false, false, false⟩      -- O_RDONLY
  | .write => ⟨false, true, true, true, false⟩       -- O_WRONLY|O_CREATE|O_TRUNC
  | .readWrite => ⟨true, true, true, false, false⟩   -- O_RDWR|O_CREATE
  | .append => ⟨false, true, true, false, true⟩      -- O_WRONLY|O_CREATE|O_APPEND

/-! ### World: file system, open files, value channels -/

inductive Node
  | file (data : Bytes)
  | dir
  /-- a path whose parent directory does not exist: cannot be opened or created -/
  | noParent
  deriving Repr, DecidableEq

/-- `path ↦ node`; a path that is absent does not exist but can be created. -/
abbrev FS := List (String × Node)

def FS.get (fs : FS) (p : String) : Option Node := (fs.find? (·.1 == p)).map (·.2)

def FS.put (fs : FS) (p : String) (n : Node) : FS :=
  match fs with
  | [] => [(p, n)]
  | (q, m) :: rest => if q == p then (q, n) :: rest else (q, m) :: FS.put rest p n

/-- An open file (`*os.File`). Pipes are files whose write end appends. -/
structure Handle where
  path : String
  pos : Nat
  rd : Bool
  wr : Bool
  app : Bool
  isOpen : Bool
  deriving Repr, DecidableEq

inductive Chan
  | nil
  /-- `ClosedChan` -/
  | closed
  | live (id : Nat)
  deriving Repr, DecidableEq

structure World where
  fs : FS
  hs : List Handle
  /-- values sent so far: (channel id, value) -/
  sent : List (Nat × Bytes)
  /-- channels closed with `close(ch)` -/
  closedChans : List Nat
  deriving Repr

/-- `*Port`. `pid` is the identity of the pointer. -/
structure Port where
  pid : Nat
  file : Option Nat
  chan : Chan
  /-- `sendStop == closedSendStop`, `sendError == &ErrPortDoesNotSupportValueOutput` -/
  stop : Bool
  /-- `sendStop`, `sendError`, `readerGone` populated by the pipeline (an inter-form pipe) -/
  pipeCtl : Bool
  /-- `pipeReadEnd`: the port from which a form reads the output of the previous form of its
  pipeline (its channel is closed by the writing side) -/
  pipeReadEnd : Bool
  deriving Repr, DecidableEq

/-- `formOwnedPort` -/
structure Fop where
  file : Bool
  chan : Bool
  deriving Repr, DecidableEq

def Fop.unowned : Fop := ⟨false, false⟩

/-- The frame of a form being executed, its owned-ports list, and the world. -/
structure St where
  ports : List (Option Port)
  fops : List Fop
  w : World
  nextPid : Nat
  deriving Repr

/-! ### Error classes (the reasons of the exceptions, as the harness canonicalises them) -/

def eInvalidFd (n : Int) : String := s!"invalid-fd,{n}"
def eBadDst := "badval-dst"
def eBadSrcFd := "badval-srcfd"
def eBadSrc := "badval-src"
def eBadMapR := "badmap-r"
def eBadMapW := "badmap-w"
def eMapMode := "map-mode"
def eArity := "arity"
def eFail := "fail"
def eNoValueOutput := "no-value-output"

/-! ### growAccess -/

/-- `growAccess(&s, i)`: the slice after the call. Negative `i` indexes out of
range; a huge `i` makes `make` kill the process. -/
def growAccess {α} (cfg : Cfg) (s : List α) (i : Int) (zero : α) : Res (List α) :=
  if i < 0 then .panic "index out of range"
  else if i.toNat < s.length then .ok s
  else if cfg.memSlots ≤ i.toNat then .panic "out of memory"
  else .ok (s ++ List.replicate (i.toNat + 1 - s.length) zero)

/-- `fm.ports[i]`, flattened: `none` for a nil entry or an index past the end. -/
def lookup (ports : List (Option Port)) (i : Nat) : Option Port := ports[i]?.bind id

/-! ### evalForFd -/

/-- What `evalForValue` produced for an fd expression. -/
inductive FdVal
  /-- a string and `strconv.ParseInt(text, 0, 0)` of it (library function: value supplied with the op) -/
  | str (text : String) (parsed : Option Int)
  /-- an `int` value -/
  | int (n : Int)
  /-- one value that is neither a string nor an `int` -/
  | other
  /-- `k ≠ 1` values -/
  | many (k : Nat)
  /-- evaluation raised an exception -/
  | fail
  deriving Repr, DecidableEq

def checkRange (cfg : Cfg) (fd : Int) : Res Int :=
  if cfg.fdRange && (fd < 0 || fd > maxRedirFD) then .exc (eInvalidFd fd) else .ok fd

def evalForFd (cfg : Cfg) (v : FdVal) (closeOK : Bool) : Res Int :=
  let bad := if closeOK then eBadSrcFd else eBadDst
  match v with
  | .fail => .exc eFail
  | .many _ => .exc eArity
  | .other => .exc bad
  | .int n => checkRange cfg n
  | .str t p =>
    if t = "stdin" then .ok 0
    else if t = "stdout" then .ok 1
    else if t = "stderr" then .ok 2
    else match p with
      | some n => checkRange cfg n
      | none => if t = "-" && closeOK then .ok (-1) else .exc bad

/-! ### Files -/

inductive OpenErr | enoent | eisdir
  deriving Repr, DecidableEq

def OpenErr.cls : OpenErr → String
  | .enoent => "open-enoent"
  | .eisdir => "open-eisdir"

/-- `os.OpenFile(path, flag, 0644)`: new file system, and the handle. -/
def openFile (fs : FS) (path : String) (fl : OpenFlag) : Except OpenErr (FS × Handle) :=
  let h : Handle := ⟨path, 0, fl.rd, fl.wr, fl.app, true⟩
  match fs.get path with
  | some .noParent => .error .enoent
  | some .dir => if fl.wr then .error .eisdir else .ok (fs, h)
  | some (.file _) => .ok (if fl.trunc then fs.put path (.file []) else fs, h)
  | none => if fl.create then .ok (fs.put path (.file []), h) else .error .enoent

/-- Write `d` at offset `pos` (zero-filling a gap). -/
def writeAt (old : Bytes) (pos : Nat) (d : Bytes) : Bytes :=
  old.take pos ++ List.replicate (pos - old.length) 0 ++ d ++ old.drop (pos + d.length)

/-- `(*os.File).Write` through handle `h`: the error class, or the new world. -/
def writeHandle (w : World) (fo : Option Nat) (d : Bytes) : Except String World :=
  match fo with
  | none => .error "w-invalid"                      -- nil *os.File: os.ErrInvalid
  | some hi =>
    match w.hs[hi]? with
    | none => .error "w-nohandle"
    | some h =>
      if !h.isOpen then .error "w-closed"
      else if !h.wr then .error "w-ebadf"
      else match w.fs.get h.path with
        | some (.file old) =>
          if h.app then .ok { w with fs := w.fs.put h.path (.file (old ++ d)) }
          else .ok { w with fs := w.fs.put h.path (.file (writeAt old h.pos d)),
                            hs := w.hs.set hi { h with pos := h.pos + d.length } }
        | _ => .error "w-nofile"

/-- read to end of file through a handle -/
def readHandle (w : World) (fo : Option Nat) : Except String (World × Bytes) :=
  match fo with
  | none => .error "r-invalid"
  | some hi =>
    match w.hs[hi]? with
    | none => .error "r-nohandle"
    | some h =>
      if !h.isOpen then .error "r-closed"
      else if !h.rd then .error "r-ebadf"
      else match w.fs.get h.path with
        | some (.file data) =>
          .ok ({ w with hs := w.hs.set hi { h with pos := max h.pos data.length } }, data.drop h.pos)
        | some .dir => .error "r-eisdir"
        | _ => .error "r-nofile"

/-- `f.Close()`; the error of closing a nil or closed file is ignored by the callers. -/
def closeHandle (w : World) (fo : Option Nat) : World :=
  match fo with
  | none => w
  | some hi =>
    match w.hs[hi]? with
    | none => w
    | some h => { w with hs := w.hs.set hi { h with isOpen := false } }

/-- `close(ch)` -/
def closeChan (w : World) (c : Chan) : Res World :=
  match c with
  | .nil => .panic "close of nil channel"
  | .closed => .panic "close of closed channel"
  | .live id =>
    if w.closedChans.contains id then .panic "close of closed channel"
    else .ok { w with closedChans := id :: w.closedChans }

/-- `formOwnedPort.close(p)` -/
def Fop.close (fop : Fop) (p : Option Port) (w : World) : Res World :=
  if !fop.file && !fop.chan then .ok w
  else match p with
    | none => .panic "nil pointer dereference"
    | some p => do
      let w := if fop.file then closeHandle w p.file else w
      if fop.chan then closeChan w p.chan else .ok w

/-! ### fileRedirPort -/

def fileRedirPort (pid : Nat) (m : Mode) (h : Nat) : Port :=
  if m = .read then ⟨pid, some h, .closed, false, false, false⟩
  else ⟨pid, some h, .nil, true, false, false⟩

/-- the port installed by `>&-` -/
def closedPort (pid : Nat) : Port := ⟨pid, none, .nil, true, false, false⟩

/-! ### redirOp.exec -/

inductive Src
  /-- `&fd` -/
  | fd (v : FdVal)
  /-- a string: file name -/
  | name (path : String)
  /-- a file object (an already open handle) -/
  | fileObj (h : Nat)
  /-- a map or field map; what its `r` and `w` fields hold when they hold files -/
  | map (r w : Option Nat)
  /-- one value of another kind -/
  | other
  | many (k : Nat)
  | fail
  deriving Repr, DecidableEq

structure Redir where
  dst : Option FdVal
  mode : Mode
  src : Src
  deriving Repr, DecidableEq

def defaultDst : Mode → Int
  | .read => 0
  | _ => 1

/-- `releaseReplacedPort` of the fix. -/
def release (st : St) (old : Option Port) (oldFop : Fop) : Res St :=
  match old with
  | none => .ok st
  | some o =>
    match st.ports.findIdx? (fun p => p.any (·.pid == o.pid)) with
    | some i =>
      -- `fop := growAccess(fops, i)`; `i` is a valid, small index here
      let fops := if i < st.fops.length then st.fops else st.fops ++ List.replicate (i + 1 - st.fops.length) Fop.unowned
      .ok { st with fops := fops.modify i fun f => ⟨f.file || oldFop.file, f.chan || oldFop.chan⟩ }
    | none => do
      let w ← oldFop.close (some o) st.w
      .ok { st with w := w }

/-- The part of `redirOp.exec` after the destination has been prepared:
evaluates the source and installs the new port at `dst`. -/
def installSrc (cfg : Cfg) (st : St) (dst : Nat) (mode : Mode) (src : Src) : Res St :=
  let setPort (st : St) (p : Port) (own : Bool) : St :=
    { st with ports := st.ports.set dst (some p),
              fops := if own then st.fops.set dst ⟨true, false⟩ else st.fops }
  match src with
  | .fd v => do
    let s ← evalForFd cfg v true
    if s = -1 then
      .ok { setPort st (closedPort st.nextPid) false with nextPid := st.nextPid + 1 }
    else if s ≥ st.ports.length then .exc (eInvalidFd s)
    else do
      let p ← index st.ports s
      match p with
      | none => .exc (eInvalidFd s)
      | some p => .ok (setPort st p false)
  | .name path =>
    match openFile st.w.fs path (makeFlag mode) with
    | .error e => .exc e.cls
    | .ok (fs, h) =>
      let hi := st.w.hs.length
      let st := { st with w := { st.w with fs := fs, hs := st.w.hs ++ [h] } }
      .ok { setPort st (fileRedirPort st.nextPid mode hi) true with nextPid := st.nextPid + 1 }
  | .fileObj h =>
    .ok { setPort st (fileRedirPort st.nextPid mode h) false with nextPid := st.nextPid + 1 }
  | .map r w =>
    match mode with
    | .read =>
      match r with
      | some h => .ok { setPort st (fileRedirPort st.nextPid mode h) false with nextPid := st.nextPid + 1 }
      | none => .exc eBadMapR
    | .write =>
      match w with
      | some h => .ok { setPort st (fileRedirPort st.nextPid mode h) false with nextPid := st.nextPid + 1 }
      | none => .exc eBadMapW
    | _ => .exc eMapMode
  | .other => .exc eBadSrc
  | .many _ => .exc eArity
  | .fail => .exc eFail

/-- Outcome of one redirection: the state is also returned with an exception,
because what was closed before the exception stays closed. -/
structure Step where
  st : St
  exc : Option String
  deriving Repr

/-- The destination of a redirection: the default of the operator, or `evalForFd`. -/
def evalDst (cfg : Cfg) (r : Redir) : Res Int :=
  match r.dst with
  | none => .ok (defaultDst r.mode)
  | some v => evalForFd cfg v false

/-- `dstPort := growAccess(&fm.ports, dst); dstFop := growAccess(fops, dst)`:
the frame with both slices grown, the port and the ownership found at `dst`. -/
def prepDst (cfg : Cfg) (st : St) (dst : Int) : Res (St × Option Port × Fop) := do
  let ports ← growAccess cfg st.ports dst none
  let fops ← growAccess cfg st.fops dst Fop.unowned
  let oldFop ← index fops dst
  .ok ({ st with ports := ports, fops := fops }, lookup ports dst.toNat, oldFop)

/-- `redirOp.exec` of the fix, from the point where the destination is
prepared: reset the ownership, carry out the redirection, then (deferred)
release the replaced port. -/
def execAtFixed (cfg : Cfg) (st : St) (d : Nat) (old : Option Port) (oldFop : Fop)
    (mode : Mode) (src : Src) : Res Step :=
  let st := { st with fops := st.fops.set d Fop.unowned }
  match installSrc cfg st d mode src with
  | .panic m => .panic m
  | .exc e => do
    let st ← release st old oldFop
    .ok ⟨st, some e⟩
  | .ok st' => do
    let st' ← release st' old oldFop
    .ok ⟨st', none⟩

/-- `redirOp.exec` of the unchanged tree, from the same point: close the
replaced port eagerly, then carry out the redirection. -/
def execAtOrig (cfg : Cfg) (st : St) (d : Nat) (old : Option Port) (oldFop : Fop)
    (mode : Mode) (src : Src) : Res Step :=
  let stR : Res St := match old with
    | none => .ok st
    | some o => do
      let w ← oldFop.close (some o) st.w
      .ok { st with w := w, fops := st.fops.set d Fop.unowned }
  match stR with
  | .panic m => .panic m
  | .exc e => .exc e
  | .ok st =>
    match installSrc cfg st d mode src with
    | .panic m => .panic m
    | .exc e => .ok ⟨st, some e⟩
    | .ok st' => .ok ⟨st', none⟩

/-- `redirOp.exec` -/
def execRedir (cfg : Cfg) (st : St) (r : Redir) : Res Step :=
  match evalDst cfg r with
  | .panic m => .panic m
  | .exc e => .ok ⟨st, some e⟩
  | .ok dst =>
    match prepDst cfg st dst with
    | .panic m => .panic m
    | .exc e => .exc e
    | .ok (st, old, oldFop) =>
      if cfg.handOver then execAtFixed cfg st dst.toNat old oldFop r.mode r.src
      else execAtOrig cfg st dst.toNat old oldFop r.mode r.src

/-- The redirection loop of `formOp.exec`: stops at the first exception. -/
def execRedirs (cfg : Cfg) (st : St) : List Redir → Res Step
  | [] => .ok ⟨st, none⟩
  | r :: rs => do
    let s ← execRedir cfg st r
    match s.exc with
    | some e => .ok ⟨s.st, some e⟩
    | none => execRedirs cfg s.st rs

/-! ### Output and input through a port (what builtins do with the frame) -/

/-- `fm.ByteOutput().WriteString(d)`: writes through port 1 of the frame. -/
def byteOutput (st : St) (d : Bytes) : Res (St × Option String) := do
  let p ← index st.ports 1
  match p with
  | none => .panic "nil pointer dereference"
  | some p =>
    match writeHandle st.w p.file d with
    | .error e => .ok (st, some e)
    | .ok w => .ok ({ st with w := w }, none)

/-- `fm.ValueOutput().Put(v)` -/
def valueOutput (cfg : Cfg) (st : St) (v : Bytes) : Res (St × Option String) := do
  let p ← index st.ports 1
  match p with
  | none => .panic "nil pointer dereference"
  | some p =>
    -- `if p.Chan == ClosedChan || p.pipeReadEnd { return valueOutput{nil, closedSendStop, …} }`
    if cfg.readEndVO && p.pipeReadEnd then .ok (st, some eNoValueOutput)
    else match p.chan with
    | .closed =>
      if cfg.inputPortVO then .ok (st, some eNoValueOutput)
      else .panic "send on closed channel"
    | .nil =>
      if p.stop then .ok (st, some eNoValueOutput) else .exc "BLOCK"
    | .live id =>
      if st.w.closedChans.contains id then .panic "send on closed channel"
      else .ok ({ st with w := { st.w with sent := st.w.sent ++ [(id, v)] } }, none)

/-! ### The form -/

/-- What the body of the generated form does, one action at a time; each is
wrapped in `?( … )` so its exception is recorded instead of propagated. -/
inductive Action
  /-- `echo text >&n` (`n = none`: no redirection) -/
  | echo (n : Option Nat) (text : Bytes)
  /-- `put text >&n` -/
  | put (n : Option Nat) (text : Bytes)
  /-- harness builtin writing `text` to `fm.Port(n).File` directly -/
  | direct (n : Nat) (text : Bytes)
  /-- harness builtin reading its input to the end, `<&n` -/
  | read (n : Option Nat)
  deriving Repr, DecidableEq

/-- Stage end of `pipelineOp.exec` for one form: close what the form owns. -/
def closeOwned (ports : List (Option Port)) : List Fop → Nat → World → Res World
  | [], _, w => .ok w
  | f :: fs, i, w => do
    let p ← index ports i
    let w ← f.close p w
    closeOwned ports fs (i + 1) w

/-- A sub-form `cmd >&n` run inside the frame: fork (ports cloned, nothing
owned), redirect, run `body`, close what the sub-form owns. -/
def subForm (cfg : Cfg) (st : St) (r : Option Redir)
    (body : St → Res (St × String)) : Res (St × String) := do
  let sub : St := { st with fops := [] }
  let s ← match r with
    | none => (.ok ⟨sub, none⟩ : Res Step)
    | some r => execRedir cfg sub r
  let (sub, out) ← match s.exc with
    | some e => (.ok (s.st, e) : Res (St × String))
    | none => body s.st
  let w ← closeOwned sub.ports sub.fops 0 sub.w
  -- the parent frame keeps its own ports and owned list; the world and the
  -- pointer counter are shared
  .ok ({ st with w := w, nextPid := sub.nextPid }, out)

def dupTo (dstMode : Mode) (n : Option Nat) : Option Redir :=
  n.map fun n => ⟨none, dstMode, .fd (.int n)⟩

def chanDesc (_w : World) (c : Chan) : String :=
  match c with
  | .nil => "vnil"
  | .closed => "vclosed"
  | .live _ => "vlive"

def runAction (cfg : Cfg) (st : St) : Action → Res (St × String)
  | .echo n t => subForm cfg st (dupTo .write n) fun s => do
      let (s, e) ← byteOutput s (t ++ [10])
      .ok (s, e.elim "ok" id)
  | .put n t => subForm cfg st (dupTo .write n) fun s => do
      let (s, e) ← valueOutput cfg s t
      .ok (s, e.elim "ok" id)
  | .direct n t => subForm cfg st none fun s =>
      match lookup s.ports n with
      | none => .ok (s, "noport")
      | some p =>
        match writeHandle s.w p.file t with
        | .error e => .ok (s, e)
        | .ok w => .ok ({ s with w := w }, "ok")
  | .read n => subForm cfg st (dupTo .read n) fun s => do
      let p ← index s.ports 0
      match p with
      | none => .panic "nil pointer dereference"
      | some p =>
        match readHandle s.w p.file with
        | .error e => .ok (s, s!"{e}/{chanDesc s.w p.chan}")
        | .ok (w, d) => .ok ({ s with w := w }, s!"r{hexEnc d}/{chanDesc s.w p.chan}")

def runActions (cfg : Cfg) : St → List Action → Res (St × List String)
  | st, [] => .ok (st, [])
  | st, a :: as => do
    let (st, o) ← runAction cfg st a
    let (st, os) ← runActions cfg st as
    .ok (st, o :: os)

/-- Outcome of a whole form. -/
structure FormOut where
  st : St
  /-- exception of a redirection, if any (then the body did not run) -/
  exc : Option String
  /-- port table when the body started -/
  table : List (Option Port)
  acts : List String
  deriving Repr

/-- One form of a pipeline, as `pipelineOp.exec` runs it: redirections, body,
the input-pipe bookkeeping, closing of owned ports.  `inPipe` is the input
pipe port when the form is not the first of its pipeline. -/
def runForm (cfg : Cfg) (st : St) (inPipe : Option Port) (rs : List Redir) (as : List Action) : Res FormOut := do
  let s ← execRedirs cfg st rs
  let (st1, outs, tbl) ← match s.exc with
    | some _ => (.ok (s.st, [], []) : Res (St × List String × List (Option Port)))
    | none => do
      let (st1, outs) ← runActions cfg s.st as
      .ok (st1, outs, s.st.ports)
  -- `if inputIsPipe { input := …; *input.sendError = …; close(input.sendStop); … }`
  match inPipe with
  | some ip =>
    let input ← if cfg.pipeInput then (.ok (some ip) : Res (Option Port)) else index st1.ports 0
    match input with
    | none => .panic "nil pointer dereference"
    | some p => if p.pipeCtl then pure () else .panic "nil pointer dereference or close of closed channel"
  | none => pure ()
  let w ← closeOwned st1.ports st1.fops 0 st1.w
  .ok ⟨{ st1 with w := w }, s.exc, tbl, outs⟩

end C42
