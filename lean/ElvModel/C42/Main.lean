import ElvModel.C42.Driver
def main : IO Unit := C42.driver.main
