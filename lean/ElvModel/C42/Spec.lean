/-
C42 specification: what the language reference (website/ref/language.md,
"Redirection") says a list of redirections does to the IO ports of a
command.  No slices, no growth, no ownership, no closing: the port table is a
function `fd ↦ port`, redirections are applied from left to right, each one
sets the destination port to what its source denotes *at that moment*.
-/
import ElvModel.C42.Model
namespace C42
open Go

structure SpecSt where
  /-- the IO ports of the command -/
  tbl : Nat → Option Port
  fs : FS
  /-- how many files have been opened so far (the next open file gets this identity) -/
  nh : Nat
  /-- how many ports have been made so far -/
  nextPid : Nat

/-- The port a source denotes, and the effect of evaluating it (opening a
file creates / truncates it as the operator says). -/
def specSrc (s : SpecSt) (mode : Mode) : Src → Except String (Port × SpecSt)
  | .fd v =>
    match evalForFd Cfg.fixed v true with
    | .ok n =>
      if n = -1 then
        -- `&-`: a closed port
        .ok (closedPort s.nextPid, { s with nextPid := s.nextPid + 1 })
      else match s.tbl n.toNat with
        -- `&n`: the very port `n` is at this moment
        | some p => .ok (p, s)
        | none => .error (eInvalidFd n)
    | .exc e => .error e
    | .panic m => .error m
  | .name path =>
    match openFile s.fs path (makeFlag mode) with
    | .error e => .error e.cls
    | .ok (fs, _) =>
      .ok (fileRedirPort s.nextPid mode s.nh, { s with fs := fs, nh := s.nh + 1, nextPid := s.nextPid + 1 })
  | .fileObj h => .ok (fileRedirPort s.nextPid mode h, { s with nextPid := s.nextPid + 1 })
  | .map r w =>
    match mode, r, w with
    | .read, some h, _ => .ok (fileRedirPort s.nextPid mode h, { s with nextPid := s.nextPid + 1 })
    | .read, none, _ => .error eBadMapR
    | .write, _, some h => .ok (fileRedirPort s.nextPid mode h, { s with nextPid := s.nextPid + 1 })
    | .write, _, none => .error eBadMapW
    | _, _, _ => .error eMapMode
  | .other => .error eBadSrc
  | .many _ => .error eArity
  | .fail => .error eFail

/-- The destination port: given, or the default of the operator (`<` 0, the others 1). -/
def specDst (r : Redir) : Except String Nat :=
  match evalDst Cfg.fixed r with
  | .ok n => .ok n.toNat
  | .exc e => .error e
  | .panic m => .error m

/-- One redirection: the destination port becomes what the source denotes. -/
def specStep (s : SpecSt) (r : Redir) : Except String SpecSt :=
  match specDst r with
  | .error e => .error e
  | .ok dst =>
    match specSrc s r.mode r.src with
    | .error e => .error e
    | .ok (p, s') => .ok { s' with tbl := fun n => if n = dst then some p else s'.tbl n }

/-- Redirections are applied in the order they appear; the first exception stops the form. -/
def specRedirs (s : SpecSt) : List Redir → SpecSt × Option String
  | [] => (s, none)
  | r :: rs =>
    match specStep s r with
    | .error e => (s, some e)
    | .ok s' => specRedirs s' rs

/-- The part of the implementation state the specification speaks about. -/
def St.abs (st : St) : SpecSt := ⟨lookup st.ports, st.w.fs, st.w.hs.length, st.nextPid⟩

end C42
