import ElvModel.C24.Driver
def main : IO Unit := C24.driver.main
