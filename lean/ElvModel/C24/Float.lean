/-
C24 model, part 3: the instance of `ScoreOps` the driver runs — exact binary64
arithmetic on finite values, as rationals.  `none` = a value outside what is
modelled here (NaN, ±Inf, subnormal, −0, overflow); the driver prints it as
`RANGE`, never as a default.

  * `round64`   : round-to-nearest-even into a 53-bit significand (IEEE 754
                  binary64, normal range) — what `*` and `+` on `float64` and a
                  correctly rounded `strconv.ParseFloat` do;
  * `formatE`   : `strconv.FormatFloat(x, 'E', prec, 64)` — exact decimal
                  expansion rounded half-to-even to `prec+1` digits;
  * `parseE`    : `strconv.ParseFloat` on the strings `formatE` produces.
Tied to Go by the correspondence run (every dir score travels as bit pattern).
-/
import ElvModel.C24.Model
namespace C24
open Go

namespace F64

def pow2 (e : Int) : Rat := if e ≥ 0 then ((2 ^ e.toNat : Nat) : Rat) else 1 / ((2 ^ (-e).toNat : Nat) : Rat)
def pow10 (e : Int) : Rat := if e ≥ 0 then ((10 ^ e.toNat : Nat) : Rat) else 1 / ((10 ^ (-e).toNat : Nat) : Rat)

/-- round a non-negative rational to the nearest integer, ties to even -/
def roundHalfEven (q : Rat) : Nat :=
  let f := q.floor
  let r := q - (f : Rat)
  let half : Rat := 1 / 2
  let n := if r < half then f else if half < r then f + 1 else if f % 2 = 0 then f else f + 1
  n.toNat

/-- `⌊log_b a⌋` for `a > 0`, from an estimate corrected by at most a few steps -/
def floorLog (b : Nat) (powb : Int → Rat) (a : Rat) : Int :=
  let est : Int := (Nat.log2 a.num.toNat : Int) - (Nat.log2 a.den : Int)
  let est : Int := if b = 2 then est else est * 30103 / 100000
  -- correct downwards, then upwards (the estimate is off by at most 2)
  let e := if a < powb est then est - 1 else est
  let e := if a < powb e then e - 1 else e
  let e := if a < powb e then e - 1 else e
  let e := if powb (e + 1) ≤ a then e + 1 else e
  let e := if powb (e + 1) ≤ a then e + 1 else e
  let e := if powb (e + 1) ≤ a then e + 1 else e
  e

/-- nearest binary64 (normal range), ties to even; `none` if the result is not
a normal finite number (zero is kept exact). -/
def round64 (q : Rat) : Option Rat :=
  if q = 0 then some 0 else
  let a := if q < 0 then -q else q
  let e := floorLog 2 pow2 a
  if ¬ (pow2 e ≤ a ∧ a < pow2 (e + 1)) then none else
  if e < -1022 then none else
  let m := roundHalfEven (a / pow2 (e - 52))
  let r := (m : Rat) * pow2 (e - 52)
  if pow2 1024 ≤ r then none else some (if q < 0 then -r else r)

def natDigits (n : Nat) : List UInt8 := (toString n).toUTF8.toList

/-- `%E` with `prec` digits after the point. -/
def formatE (prec : Nat) (q : Rat) : Option Bytes :=
  let zeros : Bytes := List.replicate prec 48
  if q = 0 then some ([48, 46] ++ zeros ++ [69, 43, 48, 48]) else
  let a := if q < 0 then -q else q
  let x := floorLog 10 pow10 a
  if ¬ (pow10 x ≤ a ∧ a < pow10 (x + 1)) then none else
  let d := roundHalfEven (a / pow10 (x - prec))
  let (d, x) := if d = 10 ^ (prec + 1) then (10 ^ prec, x + 1) else (d, x)
  let ds := natDigits d
  match ds with
  | [] => none
  | d0 :: frac =>
    let ex := natDigits x.natAbs
    let ex := if ex.length < 2 then 48 :: ex else ex
    some ((if q < 0 then [45] else []) ++ [d0, 46] ++ frac ++ [69, if x < 0 then 45 else 43] ++ ex)

def digitVal (b : UInt8) : Option Nat := if 48 ≤ b ∧ b ≤ 57 then some (b.toNat - 48) else none

def parseNat : Bytes → Option Nat
  | [] => none
  | l => l.foldl (fun acc b => match acc, digitVal b with
      | some a, some d => some (a * 10 + d)
      | _, _ => none) (some 0)

/-- `ParseFloat` on `[-]d.ddddE±xx` (the only strings the dir bucket ever
holds when written through `marshalScore` with finite scores). -/
def parseE (s : Bytes) : Option Rat :=
  let (neg, s) := match s with
    | 45 :: r => (true, r)
    | _ => (false, s)
  match s with
  | d0 :: 46 :: rest =>
    let frac := rest.takeWhile (· != 69)
    match rest.dropWhile (· != 69) with
    | 69 :: sg :: ex =>
      if sg != 43 && sg != 45 then none else
      match parseNat (d0 :: frac), parseNat ex with
      | some m, some e =>
        let e : Int := if sg = 45 then -(e : Int) else e
        let v := (m : Rat) * pow10 (e - frac.length)
        (round64 v).map fun r => if neg then -r else r
      | _, _ => none
    | _ => none
  | _ => none

/-- value of a finite, non-subnormal, non-negative-zero bit pattern -/
def ofBits (b : Nat) : Option Rat :=
  let sign : Nat := b / 2 ^ 63
  let ex : Nat := b / 2 ^ 52 % 2048
  let mant : Nat := b % 2 ^ 52
  if b = 0 then some 0
  else if ex = 0 ∨ ex = 2047 then none
  else
    let v := ((2 ^ 52 + mant : Nat) : Rat) * pow2 ((ex : Int) - 1075)
    some (if sign = 1 then -v else v)

/-- bit pattern of a (binary64-representable) rational -/
def toBits (q : Rat) : Option Nat :=
  if q = 0 then some 0 else
  let a := if q < 0 then -q else q
  let e := floorLog 2 pow2 a
  let m := a / pow2 (e - 52)
  if m.den ≠ 1 ∨ e < -1022 ∨ e > 1023 then none else
  let m := m.num.toNat
  if m < 2 ^ 52 ∨ m ≥ 2 ^ 53 then none else
  some ((if q < 0 then 2 ^ 63 else 0) + (e + 1023).toNat * 2 ^ 52 + (m - 2 ^ 52))

end F64

/-- exact binary64 on finite normal values -/
def ratOps : ScoreOps where
  F := Option Rat
  parse := fun s => F64.parseE s
  format := fun x => match x.bind (F64.formatE Gen.C24Consts.DirScorePrecision) with
    | some s => s
    | none => "RANGE".toUTF8.toList
  mul := fun a b => match a, b with
    | some a, some b => F64.round64 (a * b)
    | _, _ => none
  add := fun a b => match a, b with
    | some a, some b => F64.round64 (a + b)
    | _, _ => none
  lt := fun a b => match a, b with
    | some a, some b => a < b
    | _, _ => false
  zero := some 0
  -- `DirScoreDecay = 0.986` (untyped float constant, converted to float64 where used);
  -- tied to the Go constant by the `consts` op of the correspondence run
  decay := F64.round64 ((986 : Rat) / 1000)
  increment := F64.round64 (Gen.C24Consts.DirScoreIncrement : Nat)

end C24
