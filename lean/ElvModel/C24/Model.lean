/-
C24 model, part 2: pkg/store/cmd.go and pkg/store/dir.go, function by
function, over the bucket of `Bolt.lean`.  Go's `int` is `Int`; the
`uint64(seq)` / `int(seq)` conversions are `toU64` / `toInt` (two's
complement, as coded — negative arguments wrap to numbers ≥ 2^63).

Loops over a cursor: `for k, v := c.Seek(x); k != nil; k, v = c.Next()` visits
`c.after` front to back, `for ...; k != nil; k, v = c.Prev()` visits `c.before`
(nearest first), so both are structural recursions over those lists.

Every `db.Update` callback that returns an error is rolled back by bbolt: the
store is unchanged.
-/
import ElvModel.C24.Bolt
import ElvModel.Generated.C24Consts
namespace C24
open Go

/-- `storedefs.ErrNoMatchingCmd.Error()` -/
def errNoMatchingCmd : String := "no matching command line"

def two64 : Nat := 18446744073709551616
def two63 : Nat := 9223372036854775808

/-- `uint64(i)` for an `int` -/
def toU64 (i : Int) : Nat := (i % (two64 : Int)).toNat
/-- `int(u)` for a `uint64` -/
def toInt (u : Nat) : Int :=
  if u % two64 < two63 then ((u % two64 : Nat) : Int) else ((u % two64 : Nat) : Int) - (two64 : Int)

/-- `byte(v >> (8*i))` -/
def byteAt (v : Nat) (i : Nat) : UInt8 := UInt8.ofNat (v / 256 ^ i % 256)

/-- `marshalSeq`: `binary.BigEndian.PutUint64` into 8 fresh bytes. -/
def marshalSeq (seq : Nat) : Bytes :=
  [byteAt seq 7, byteAt seq 6, byteAt seq 5, byteAt seq 4, byteAt seq 3, byteAt seq 2, byteAt seq 1, byteAt seq 0]

/-- `unmarshalSeq`: `binary.BigEndian.Uint64(key)`; panics (bounds check
`_ = b[7]`) when the key is shorter than 8 bytes, ignores bytes after the 8th. -/
def unmarshalSeq (key : Bytes) : Res Nat :=
  match key with
  | b0 :: b1 :: b2 :: b3 :: b4 :: b5 :: b6 :: b7 :: _ =>
    .ok (((((((b0.toNat * 256 + b1.toNat) * 256 + b2.toNat) * 256 + b3.toNat) * 256 + b4.toNat) * 256
      + b5.toNat) * 256 + b6.toNat) * 256 + b7.toNat)
  | _ => .panic "index out of range [7]"

structure Cmd where
  text : Bytes
  seq : Int
  deriving Repr, DecidableEq

/-- The two buckets of the store. -/
structure Store where
  cmd : Bucket
  dir : Bucket
  deriving Repr, DecidableEq

/-- A fresh database after `NewStore` (both buckets created empty). -/
def Store.fresh : Store := ⟨Bucket.empty, Bucket.empty⟩

/-- `bytes.HasPrefix(v, p)` -/
def hasPrefix (v p : Bytes) : Bool := p.isPrefixOf v

/-! ### cmd.go -/

/-- `NextCmdSeq`: `int(b.Sequence() + 1)` (the addition is on `uint64`). -/
def nextCmdSeq (s : Store) : Int := toInt ((s.cmd.sequence + 1) % two64)

/-- `AddCmd` -/
def addCmd (s : Store) (text : Bytes) : Store × Res Int :=
  let (b, seq) := s.cmd.nextSequence
  match b.put (marshalSeq seq) text with
  | .ok b' => ({ s with cmd := b' }, .ok (toInt seq))
  | .exc e => (s, .exc e)
  | .panic w => (s, .panic w)

/-- `DelCmd` -/
def delCmd (s : Store) (seq : Int) : Store :=
  { s with cmd := s.cmd.delete (marshalSeq (toU64 seq)) }

/-- `Cmd` -/
def cmd (s : Store) (seq : Int) : Res Bytes :=
  match s.cmd.get (marshalSeq (toU64 seq)) with
  | none => .exc errNoMatchingCmd
  | some v => .ok v

/-- body of the loop of `IterateCmds`, over the pairs from the cursor on -/
def iterLoop (upto : Nat) : List KV → Res (List Cmd)
  | [] => .ok []
  | (k, v) :: rest =>
    match unmarshalSeq k with
    | .ok n =>
      if n < upto then
        match iterLoop upto rest with
        | .ok r => .ok ({ text := v, seq := toInt n } :: r)
        | e => e
      else .ok []
    | .exc e => .exc e
    | .panic w => .panic w

/-- `IterateCmds` with the collecting callback of `CmdsWithSeq` -/
def cmdsWithSeq (s : Store) (frm upto : Int) : Res (List Cmd) :=
  iterLoop (toU64 upto) (s.cmd.seek (marshalSeq (toU64 frm))).after

/-- the `for` loop body shared by `NextCmd` (forwards) and `PrevCmd` (backwards): the first pair with the prefix -/
def scanLoop (p : Bytes) : List KV → Res Cmd
  | [] => .exc errNoMatchingCmd
  | (k, v) :: rest =>
    if hasPrefix v p then
      match unmarshalSeq k with
      | .ok n => .ok { text := v, seq := toInt n }
      | .exc e => .exc e
      | .panic w => .panic w
    else scanLoop p rest

/-- `NextCmd` -/
def nextCmd (s : Store) (frm : Int) (p : Bytes) : Res Cmd :=
  scanLoop p (s.cmd.seek (marshalSeq (toU64 frm))).after

/-- `PrevCmd`: `Seek(upto)`; if nothing is ≥ `upto` start from `Last()`,
otherwise from `Prev()`; then walk backwards. -/
def prevCmd (s : Store) (upto : Int) (p : Bytes) : Res Cmd :=
  let c := s.cmd.seek (marshalSeq (toU64 upto))
  match c.cur with
  | none =>
    let c := s.cmd.last
    match c.cur with
    | none => .exc errNoMatchingCmd
    | some x => scanLoop p (x :: c.before)
  | some _ => scanLoop p c.before

/-! ### dir.go -/

/-- The float64 operations and the two `strconv` functions `dir.go` uses.
They are parameters: the theorems hold for every instance, the driver
instantiates them with exact binary64 arithmetic (`Float.lean`). -/
structure ScoreOps where
  F : Type
  /-- `unmarshalScore`: `strconv.ParseFloat(s, 64)`, error dropped -/
  parse : Bytes → F
  /-- `marshalScore`: `strconv.FormatFloat(x, 'E', DirScorePrecision, 64)` -/
  format : F → Bytes
  mul : F → F → F
  add : F → F → F
  /-- `<` on float64 -/
  lt : F → F → Bool
  zero : F
  /-- `float64(DirScoreDecay)` -/
  decay : F
  /-- `float64(DirScoreIncrement)` -/
  increment : F

/-- the decay loop of `AddDir`: `b.Put(k, marshalScore(unmarshalScore(v) * DirScoreDecay))`
for every pair the cursor yields; the error of `Put` is dropped as coded. -/
def decayLoop (o : ScoreOps) : List KV → Bucket → Bucket
  | [], b => b
  | (k, v) :: rest, b =>
    match b.put k (o.format (o.mul (o.parse v) o.decay)) with
    | .ok b' => decayLoop o rest b'
    | _ => decayLoop o rest b

/-- `AddDir`; `some e` = the error returned (transaction rolled back). -/
def addDir (o : ScoreOps) (s : Store) (d : Bytes) (incFactor : o.F) : Store × Option String :=
  let b := decayLoop o s.dir.first.after s.dir
  let score := match b.get d with
    | some v => o.parse v
    | none => o.zero
  let score := o.add score (o.mul o.increment incFactor)
  match b.put d (o.format score) with
  | .ok b' => ({ s with dir := b' }, none)
  | .exc e => (s, some e)
  | .panic w => (s, some w)

/-- `AddDirRaw` -/
def addDirRaw (o : ScoreOps) (s : Store) (d : Bytes) (score : o.F) : Store × Option String :=
  match s.dir.put d (o.format score) with
  | .ok b' => ({ s with dir := b' }, none)
  | .exc e => (s, some e)
  | .panic w => (s, some w)

/-- `DelDir` -/
def delDir (s : Store) (d : Bytes) : Store := { s with dir := s.dir.delete d }

/-- `Dirs`: the listing loop, then `sort.Sort(sort.Reverse(dirList(dirs)))`.
`sort.Sort` is not stable; the order among equal scores is unspecified (the
model keeps key order there, the harness canonicalises ties the same way). -/
def dirs (o : ScoreOps) (s : Store) (blacklist : List Bytes) : List (Bytes × o.F) :=
  let l := (s.dir.first.after.filter (fun kv => !blacklist.contains kv.1)).map (fun kv => (kv.1, o.parse kv.2))
  l.mergeSort (fun a b => !o.lt a.2 b.2)

end C24

/-! ### histories of command-history operations -/
namespace C24
open Go

inductive Op where
  | add (text : Bytes)
  | del (seq : Int)
  | get (seq : Int)
  | list (frm upto : Int)
  | next (frm : Int) (p : Bytes)
  | prev (upto : Int) (p : Bytes)
  | nseq
  deriving Repr, DecidableEq

/-- what an operation returns -/
inductive Out where
  | seq (r : Res Int)
  | unit
  | text (r : Res Bytes)
  | cmds (r : Res (List Cmd))
  | cmd (r : Res Cmd)
  | nseq (n : Int)
  deriving Repr, DecidableEq

def step (s : Store) : Op → Store × Out
  | .add t => let (s', r) := addCmd s t; (s', .seq r)
  | .del n => (delCmd s n, .unit)
  | .get n => (s, .text (cmd s n))
  | .list f u => (s, .cmds (cmdsWithSeq s f u))
  | .next f p => (s, .cmd (nextCmd s f p))
  | .prev u p => (s, .cmd (prevCmd s u p))
  | .nseq => (s, .nseq (nextCmdSeq s))

def run (s : Store) : List Op → Store × List Out
  | [] => (s, [])
  | op :: ops =>
    let (s', o) := step s op
    let (s'', os) := run s' ops
    (s'', o :: os)

end C24
