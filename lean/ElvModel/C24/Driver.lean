import ElvModel.Go.Driver
import ElvModel.C24.Float
namespace C24
open Go

def showErr (e : String) : String :=
  if e = errNoMatchingCmd then "ERR nomatch"
  else if e = "key required" then "ERR keyrequired"
  else if e = "key too large" then "ERR keytoolarge"
  else "ERR other " ++ e

def showCmd (c : Cmd) : String := s!"{c.seq}:{hexEnc c.text}"

def showList (l : List String) : String := if l.isEmpty then "-" else ",".intercalate l

def showResCmd : Res Cmd → String
  | .ok c => showCmd c
  | .exc e => showErr e
  | .panic _ => "PANIC"

def showOptErr : Option String → String
  | none => "ok"
  | some e => showErr e

def parseHexList (s : String) : Option (List Bytes) :=
  if s = "-" then some [] else (s.splitOn ",").mapM hexDecode

def showBits (x : Option Rat) : String :=
  match x.bind F64.toBits with
  | some b => toString b
  | none => "RANGE"

/-- One op of the line protocol on the model store. -/
def stepLine (s : Store) : List String → Store × String
  | ["reset"] => (Store.fresh, "ok")
  | ["consts"] =>
    (s, s!"{showBits ratOps.decay} {Gen.C24Consts.DirScoreIncrement} {Gen.C24Consts.DirScorePrecision}")
  | ["nseq"] => (s, toString (nextCmdSeq s))
  | ["add", h] =>
    match hexDecode h with
    | some t =>
      match addCmd s t with
      | (s', .ok n) => (s', toString n)
      | (s', .exc e) => (s', showErr e)
      | (s', .panic _) => (s', "PANIC")
    | none => (s, "bad-op")
  | ["del", n] =>
    match n.toInt? with
    | some n => (delCmd s n, "ok")
    | none => (s, "bad-op")
  | ["get", n] =>
    match n.toInt? with
    | some n =>
      match cmd s n with
      | .ok v => (s, hexEnc v)
      | .exc e => (s, showErr e)
      | .panic _ => (s, "PANIC")
    | none => (s, "bad-op")
  | ["list", a, b] =>
    match a.toInt?, b.toInt? with
    | some a, some b =>
      match cmdsWithSeq s a b with
      | .ok l => (s, showList (l.map showCmd))
      | .exc e => (s, showErr e)
      | .panic _ => (s, "PANIC")
    | _, _ => (s, "bad-op")
  | ["next", a, h] =>
    match a.toInt?, hexDecode h with
    | some a, some p => (s, showResCmd (nextCmd s a p))
    | _, _ => (s, "bad-op")
  | ["prev", a, h] =>
    match a.toInt?, hexDecode h with
    | some a, some p => (s, showResCmd (prevCmd s a p))
    | _, _ => (s, "bad-op")
  | ["adddir", h, bits] =>
    match hexDecode h, bits.toNat? with
    | some d, some b =>
      let (s', e) := addDir ratOps s d (F64.ofBits b)
      (s', showOptErr e)
    | _, _ => (s, "bad-op")
  | ["addraw", h, bits] =>
    match hexDecode h, bits.toNat? with
    | some d, some b =>
      let (s', e) := addDirRaw ratOps s d (F64.ofBits b)
      (s', showOptErr e)
    | _, _ => (s, "bad-op")
  | ["deldir", h] =>
    match hexDecode h with
    | some d => (delDir s d, "ok")
    | none => (s, "bad-op")
  | ["dirs", bl] =>
    match parseHexList bl with
    | some bl =>
      (s, showList ((dirs ratOps s bl).map fun (p, x) => s!"{hexEnc p}:{showBits x}"))
    | none => (s, "bad-op")
  | _ => (s, "bad-op")

def driver : Driver := { σ := Store, init := Store.fresh, step := stepLine }
end C24
