/-
C24 specification: the command history as a sequential log — a list of
(sequence number, text) in order of insertion and a counter.  Sequence-number
arguments are natural numbers here; the Go API passes `int`s which the code
converts with `uint64(·)` (`C24.toU64`), so a negative argument is a number
≥ 2^63, above every sequence number (documented for `store:cmds`: "use -1 for
`$upto` to not set an upper bound").
-/
import ElvModel.C24.Model
namespace C24.Spec
open Go C24

abbrev Entry := Nat × Bytes

structure Log where
  entries : List Entry
  counter : Nat
  deriving Repr, DecidableEq

def Log.empty : Log := ⟨[], 0⟩

/-- every entry was issued (1 ≤ seq ≤ counter) and the log is in strictly ascending sequence order -/
def Log.WF (l : Log) : Prop :=
  l.entries.Pairwise (fun a b => a.1 < b.1) ∧ ∀ e ∈ l.entries, 1 ≤ e.1 ∧ e.1 ≤ l.counter

def Log.add (l : Log) (t : Bytes) : Log × Nat :=
  (⟨l.entries ++ [(l.counter + 1, t)], l.counter + 1⟩, l.counter + 1)

def Log.del (l : Log) (n : Nat) : Log := { l with entries := l.entries.filter (fun e => e.1 ≠ n) }

def Log.get (l : Log) (n : Nat) : Option Bytes := (l.entries.find? (fun e => e.1 = n)).map (·.2)

/-- entries with `frm ≤ seq < upto`, in log order -/
def Log.list (l : Log) (frm upto : Nat) : List Entry :=
  l.entries.filter (fun e => frm ≤ e.1 ∧ e.1 < upto)

/-- first entry with `seq ≥ frm` whose text starts with `p` -/
def Log.next (l : Log) (frm : Nat) (p : Bytes) : Option Entry :=
  l.entries.find? (fun e => frm ≤ e.1 ∧ hasPrefix e.2 p)

/-- last entry with `seq < upto` whose text starts with `p` -/
def Log.prev (l : Log) (upto : Nat) (p : Bytes) : Option Entry :=
  l.entries.reverse.find? (fun e => e.1 < upto ∧ hasPrefix e.2 p)

def Log.nextSeq (l : Log) : Nat := l.counter + 1

def toCmd (e : Entry) : Cmd := { text := e.2, seq := (e.1 : Int) }

def found : Option Entry → Res Cmd
  | some e => .ok (toCmd e)
  | none => .exc errNoMatchingCmd

def textOf : Option Bytes → Res Bytes
  | some v => .ok v
  | none => .exc errNoMatchingCmd

/-- one operation on the log, with the result the Go API reports -/
def step (l : Log) : Op → Log × Out
  | .add t => let (l', n) := l.add t; (l', .seq (.ok (n : Int)))
  | .del n => (l.del (toU64 n), .unit)
  | .get n => (l, .text (textOf (l.get (toU64 n))))
  | .list f u => (l, .cmds (.ok ((l.list (toU64 f) (toU64 u)).map toCmd)))
  | .next f p => (l, .cmd (found (l.next (toU64 f) p)))
  | .prev u p => (l, .cmd (found (l.prev (toU64 u) p)))
  | .nseq => (l, .nseq (l.nextSeq : Int))

def run (l : Log) : List Op → Log × List Out
  | [] => (l, [])
  | op :: ops =>
    let (l', o) := step l op
    let (l'', os) := run l' ops
    (l'', o :: os)

/-- the sequence numbers the `add`s of a history returned, in order -/
def issued : List Out → List Int
  | [] => []
  | .seq (.ok n) :: r => n :: issued r
  | _ :: r => issued r

end C24.Spec
