/-
C24 model, part 1: what elvish uses of a bbolt bucket (go.etcd.io/bbolt
v1.3.10).  TRUSTED abstraction (not elvish code): a bucket is the list of its
leaf pairs in ascending `bytes.Compare` key order, without duplicate keys,
plus the `sequence` counter; every access goes through `seek` (first pair whose
key is ≥ the sought key), exactly as `Bucket.Get/Put/Delete` and
`Cursor.Seek` do.  A cursor is a zipper over that list.
-/
import ElvModel.Go.Basic
namespace C24
open Go

/-- `bytes.Compare(a, b) < 0` -/
def bytesLt : Bytes → Bytes → Bool
  | [], [] => false
  | [], _ :: _ => true
  | _ :: _, [] => false
  | a :: as, b :: bs => if a < b then true else if b < a then false else bytesLt as bs

abbrev KV := Bytes × Bytes

/-- `bolt.MaxKeySize` -/
def maxKeySize : Nat := 32768

structure Bucket where
  /-- leaf pairs, ascending by key -/
  kvs : List KV
  /-- `bucket.sequence` (a `uint64`) -/
  sequence : Nat
  deriving Repr, DecidableEq

def Bucket.empty : Bucket := ⟨[], 0⟩

/-- Pairs strictly before the sought key (the part a `seek` skips). -/
def seekPre (k : Bytes) (l : List KV) : List KV := l.takeWhile (fun kv => bytesLt kv.1 k)
/-- Pairs from the first key ≥ `k` on (what the cursor points at after `seek`). -/
def seekPost (k : Bytes) (l : List KV) : List KV := l.dropWhile (fun kv => bytesLt kv.1 k)

/-- `Bucket.Get`: seek, then compare the key found with the key sought. -/
def Bucket.get (b : Bucket) (k : Bytes) : Option Bytes :=
  match seekPost k b.kvs with
  | (k', v) :: _ => if k' = k then some v else none
  | [] => none

/-- after a `seek` for `k`: the pairs that stay behind the position when a pair
with exactly the key `k` (which can only be the first) is replaced or removed -/
def dropKey (k : Bytes) : List KV → List KV
  | (k', v') :: rest => if k' = k then rest else (k', v') :: rest
  | [] => []

/-- `Bucket.Put` (errors `ErrKeyRequired`, `ErrKeyTooLarge`; the value-size
limit of 2 GiB is not modelled). -/
def Bucket.put (b : Bucket) (k v : Bytes) : Res Bucket :=
  if k.length = 0 then .exc "key required"
  else if k.length > maxKeySize then .exc "key too large"
  else
    .ok { b with kvs := seekPre k b.kvs ++ (k, v) :: dropKey k (seekPost k b.kvs) }

/-- `Bucket.Delete`: nothing happens if the key is absent. -/
def Bucket.delete (b : Bucket) (k : Bytes) : Bucket :=
  { b with kvs := seekPre k b.kvs ++ dropKey k (seekPost k b.kvs) }

/-- `Bucket.NextSequence` (`b.bucket.sequence++` on a `uint64`). -/
def Bucket.nextSequence (b : Bucket) : Bucket × Nat :=
  let n := (b.sequence + 1) % 18446744073709551616
  ({ b with sequence := n }, n)

/-- A cursor: `after.head?` is the current pair (`none` ↔ Go's `k == nil`),
`before` holds the pairs in front of it, nearest first. -/
structure Cursor where
  before : List KV
  after : List KV
  deriving Repr

def Cursor.cur (c : Cursor) : Option KV := c.after.head?

/-- `Cursor.Seek(k)` -/
def Bucket.seek (b : Bucket) (k : Bytes) : Cursor :=
  ⟨(seekPre k b.kvs).reverse, seekPost k b.kvs⟩

/-- `Cursor.First()` -/
def Bucket.first (b : Bucket) : Cursor := ⟨[], b.kvs⟩

/-- `Cursor.Last()` -/
def Bucket.last (b : Bucket) : Cursor :=
  match b.kvs.reverse with
  | [] => ⟨[], []⟩
  | x :: r => ⟨r, [x]⟩

/-- `Cursor.Next()`; the loops of elvish stop at the first `nil`, so what a
cursor does after running off the end is never observed. -/
def Cursor.next (c : Cursor) : Cursor :=
  match c.after with
  | [] => c
  | x :: r => ⟨x :: c.before, r⟩

/-- `Cursor.Prev()`: `before = []` ↔ Go's `k == nil`. -/
def Cursor.prev (c : Cursor) : Cursor :=
  match c.before with
  | [] => ⟨[], []⟩
  | x :: r => ⟨r, x :: c.after⟩

end C24
