/-
C22 — model of `use` / `useFromFile` / `evalModule` (pkg/eval/builtin_special.go)
and of the `modules` cache (pkg/eval/eval.go), over an abstract file system.

Strings.  Every Go string that matters here (module specs, paths, cache keys)
is handled by the code only through `strings.HasPrefix(spec, "./" | "../")`,
`filepath.Clean`, `filepath.Join`, `filepath.Dir`, `+ "/" +` and map-key
equality.  All of these respect the decomposition of a string at its `/`
bytes, so a string is modelled in SPLIT FORM: `Str = List Comp`, the list of
its `/`-separated components (`"a/b" = ["a","b"]`, `"/x" = ["","x"]`,
`"" = [""]`, `"/" = ["",""]`).  Components are opaque (`String`); the driver
does the split (`String.splitOn "/"`), the model never looks inside one except
for comparing with `""`, `"."`, `".."`.  Concatenation `x + "/" + y` is `x ++ y`
in split form.

`filepath.Clean`/`Join`/`Dir` are modelled by their documented contract for
ROOTED paths (every directory that reaches them is absolute: `os.Getwd()`, the
directory of an absolute script name, an absolute lib dir).

Module bodies are universally quantified programs: a list of actions
`use spec | try { use spec } catch { } | var d = 1 | fail | fail on the first n evaluations`.
-/
import ElvModel.Go.Basic
namespace C22

abbrev Comp := String
/-- a Go string in split-on-`/` form -/
abbrev Str := List Comp
/-- a key of `Evaler.modules` (a Go string) -/
abbrev Key := Str

/-! ### `path/filepath` on rooted paths -/

/-- One element of `filepath.Clean`'s loop for a rooted path; the stack of kept
elements is top-first.  Empty and `.` elements are dropped, `..` removes the
last kept element (and is dropped at the root), anything else is kept. -/
def cleanStep (stk : List Comp) (c : Comp) : List Comp :=
  if c = "" ∨ c = "." then stk
  else if c = ".." then stk.drop 1
  else c :: stk

/-- `filepath.Clean("/" + join(comps, "/"))` as the list of its elements
(bottom first); the result denotes `"/" + join(result, "/")`. -/
def cleanAbs (comps : List Comp) : List Comp := (comps.foldl cleanStep []).reverse

/-- The string (split form) of the clean rooted path with the given elements. -/
def pathStr (stk : List Comp) : Str := if stk = [] then ["", ""] else "" :: stk

/-- `filepath.Clean(dir + "/" + spec)` = `filepath.Join(dir, spec)` for a
non-empty rooted `dir` given by its elements. -/
def joinClean (dir : List Comp) (spec : Str) : List Comp := cleanAbs (pathStr dir ++ spec)

/-- `filepath.Dir(path + ".elv")` for the clean rooted `path` with elements `p`. -/
def dirOf (p : List Comp) : List Comp := p.dropLast

/-- `strings.HasPrefix(spec, "./") || strings.HasPrefix(spec, "../")`. -/
def isRel : Str → Bool
  | c :: _ :: _ => c = "." || c = ".."
  | _ => false

/-! ### The world: file system, lib dirs, bundled and pre-defined modules -/

/-- One statement of a module body / script. -/
inductive Act where
  /-- `use spec` — an error propagates (the body fails) -/
  | use (spec : Str)
  /-- `try { use spec } catch { }` — an error is swallowed -/
  | tryUse (spec : Str)
  /-- `var dN = 1` — initialises one more variable of the module's namespace -/
  | def_
  /-- `fail x` -/
  | fail
  /-- `if (<= $cnt n) { fail x }` where `$cnt` is how many evaluations of this
  module have been started so far (this one included) -/
  | failUntil (n : Nat)
  deriving Repr, DecidableEq

/-- What `readFileUTF8(path + ".elv")` + `PrepareEval` make of a present file:
`bad` = unreadable / not UTF-8 / does not parse or compile (an error before
anything is installed), `code` = compiles to this body. -/
inductive File where
  | bad
  | code (body : List Act)
  deriving Repr, DecidableEq

structure World where
  /-- `path ↦ file` for clean rooted paths (elements, without `.elv`); first
  entry wins, no entry = the file does not exist -/
  files : List (List Comp × File)
  /-- `Evaler.LibDirs` (elements of each, rooted) -/
  libDirs : List (List Comp)
  /-- `Evaler.BundledModules`: spec ↦ body -/
  bundled : List (Str × List Act)
  /-- specs installed by `Evaler.AddModule` before anything runs -/
  predefined : List Str

def assoc {α β} [DecidableEq α] (k : α) : List (α × β) → Option β
  | [] => none
  | (k', v) :: r => if k' = k then some v else assoc k r

/-! ### The cache (`map[string]*Ns`): key ↦ token of the namespace object -/

abbrev Mods := List (Key × Nat)

def mget (m : Mods) (k : Key) : Option Nat := assoc k m
/-- `delete(m, k)` -/
def mdel (m : Mods) (k : Key) : Mods := m.filter (fun p => decide (p.1 ≠ k))
/-- `m[k] = v` -/
def mset (m : Mods) (k : Key) (v : Nat) : Mods := (k, v) :: mdel m k

/-! ### Events (ghost history) and state -/

inductive Ev where
  /-- `evalModule` installed a fresh namespace `t` under `k` and starts the body -/
  | start (k : Key) (t : Nat)
  /-- the body of evaluation `t` of `k` completed; `evalModule` returns `t` -/
  | done (k : Key) (t : Nat)
  /-- the body failed; `delete(modules, k)` -/
  | failed (k : Key) (t : Nat)
  /-- a lookup `modules[k]` succeeded and `use` returns `t` without evaluating -/
  | hit (k : Key) (t : Nat)
  /-- a `use spec` statement of importer `by_` (`none` = top-level code)
  received namespace `t` of `k`, in which `seen` variables were initialised -/
  | got (by_ : Option Nat) (spec : Str) (k : Key) (t : Nat) (seen : Nat)
  /-- `var dN = 1` executed in the body of evaluation `by_` -/
  | def_ (by_ : Option Nat)
  /-- a `try { use … }` of `by_` caught an error -/
  | caught (by_ : Option Nat)
  deriving Repr, DecidableEq

structure St where
  /-- `Evaler.modules` -/
  mods : Mods
  /-- number of namespaces created so far = next token -/
  next : Nat
  /-- GHOST: evaluations in progress, innermost first -/
  stack : List (Key × Nat)
  /-- GHOST: history, newest first -/
  log : List Ev
  deriving Repr

def St.emit (s : St) (e : Ev) : St := { s with log := e :: s.log }

/-- number of evaluations of `k` started so far -/
def countStarts (log : List Ev) (k : Key) : Nat :=
  log.countP fun e => match e with
    | .start k' _ => decide (k' = k)
    | _ => false

/-- number of `var d = 1` executed so far in evaluation `t` -/
def seenDefs (log : List Ev) (t : Nat) : Nat :=
  log.countP fun e => decide (e = .def_ (some t))

inductive Cause where
  | nosuch | bad | fail | fuel
  deriving Repr, DecidableEq

/-- Result of `use`: the namespace, or an error.  `direct = true`: the Go error
value is itself a `NoSuchModule` / parse error (not wrapped in an exception by
a module body) — only a direct `nosuch` makes the lib-dir loop continue. -/
inductive R where
  | ok (k : Key) (t : Nat)
  | err (direct : Bool) (c : Cause)
  deriving Repr, DecidableEq

/-- The frame executing a `use`: `fm.src` and who it is. -/
structure Cx where
  /-- `some dir` if `fm.src.IsFile` (dir = `filepath.Dir(fm.src.Name)`), else `none` -/
  base : Option (List Comp)
  /-- token of the module evaluation this code belongs to (`none` = top level) -/
  tok : Option Nat
  /-- key of that module (`[]` at top level) -/
  key : Key
  deriving Repr

/-- The recursive knot: `use` one level down. -/
abbrev Rec := Cx → St → Str → St × R

/-- Execute a body.  `none` = ran to completion, `some c` = raised. -/
def runBody (rec : Rec) (cx : Cx) : List Act → St → St × Option Cause
  | [], s => (s, none)
  | .def_ :: as, s => runBody rec cx as (s.emit (.def_ cx.tok))
  | .fail :: _, s => (s, some .fail)
  | .failUntil n :: as, s =>
    if countStarts s.log cx.key ≤ n then (s, some .fail) else runBody rec cx as s
  | .use sp :: as, s =>
    match rec cx s sp with
    | (s', .ok k t) => runBody rec cx as (s'.emit (.got cx.tok sp k t (seenDefs s'.log t)))
    | (s', .err _ c) => (s', some c)
  | .tryUse sp :: as, s =>
    match rec cx s sp with
    | (s', .ok k t) => runBody rec cx as (s'.emit (.got cx.tok sp k t (seenDefs s'.log t)))
    | (s', .err _ .fuel) => (s', some .fuel)
    | (s', .err _ _) => runBody rec cx as (s'.emit (.caught cx.tok))

/-- `evalModule(fm, key, src, r)` once `PrepareEval` succeeded: install, run, unload on failure. -/
def evalModule (rec : Rec) (key : Key) (base : Option (List Comp)) (body : List Act) (s : St) : St × R :=
  let t := s.next
  let s1 : St := { mods := mset s.mods key t, next := t + 1, stack := (key, t) :: s.stack,
                   log := .start key t :: s.log }
  match runBody rec { base := base, tok := some t, key := key } body s1 with
  | (s2, none) =>
    ({ s2 with stack := s2.stack.drop 1, log := .done key t :: s2.log }, .ok key t)
  | (s2, some c) =>
    ({ s2 with mods := mdel s2.mods key, stack := s2.stack.drop 1, log := .failed key t :: s2.log },
     .err false c)

/-- `useFromFile(fm, spec, path, r)` (no `.so` plugins). -/
def useFromFile (w : World) (rec : Rec) (s : St) (p : List Comp) : St × R :=
  let key := pathStr p
  match mget s.mods key with
  | some t => (s.emit (.hit key t), .ok key t)
  | none =>
    match assoc p w.files with
    | none => (s, .err true .nosuch)
    | some .bad => (s, .err true .bad)
    | some (.code body) => evalModule rec key (some (dirOf p)) body s

/-- the loop over `LibDirs` -/
def useLib (w : World) (rec : Rec) (sp : Str) : List (List Comp) → St → St × R
  | [], s => (s, .err true .nosuch)
  | d :: ds, s =>
    match useFromFile w rec s (joinClean d sp) with
    | (s', .err true .nosuch) => useLib w rec sp ds s'
    | r => r

/-- `use(fm, spec, r)` with the recursive calls tied to `rec`. -/
def useStep (w : World) (cwd : List Comp) (rec : Rec) (cx : Cx) (s : St) (sp : Str) : St × R :=
  if isRel sp then
    let dir := match cx.base with
      | some d => d
      | none => cwd
    useFromFile w rec s (joinClean dir sp)
  else
    match mget s.mods sp with
    | some t => (s.emit (.hit sp t), .ok sp t)
    | none =>
      match assoc sp w.bundled with
      | some body => evalModule rec sp none body s
      | none => useLib w rec sp w.libDirs s

/-- `use` with `fuel` levels of nested module evaluation allowed. -/
def useSpec (w : World) (cwd : List Comp) : Nat → Rec
  | 0 => fun _ s _ => (s, .err false .fuel)
  | f + 1 => fun cx s sp => useStep w cwd (useSpec w cwd f) cx s sp

/-! ### Top level -/

/-- keys that can ever be evaluated: every file with code, every bundled module -/
def allKeys (w : World) : List Key :=
  (w.files.filterMap fun (p, f) => match f with
    | .code _ => some (pathStr p)
    | .bad => none) ++ w.bundled.map (·.1)

/-- enough fuel for any history over `w` (theorem `C22_terminates`) -/
def enough (w : World) : Nat := (allKeys w).length + 1

def St.empty : St := ⟨[], 0, [], []⟩

/-- pre-defined modules are in the cache from the start, as if evaluated (a
repeated name is ignored: the harness installs each name once) -/
def initSt (w : World) : St :=
  w.predefined.foldl (fun s k =>
    match mget s.mods k with
    | some _ => s
    | none => { mods := mset s.mods k s.next, next := s.next + 1, stack := s.stack,
                log := .done k s.next :: .start k s.next :: s.log }) St.empty

/-- A top-level piece of code: where it runs and what it does. -/
structure Op where
  /-- `os.Getwd()` -/
  cwd : List Comp
  /-- `some dir`: the code is a file in `dir`; `none`: not from a file -/
  base : Option (List Comp)
  acts : List Act
  deriving Repr

def topCx (o : Op) : Cx := { base := o.base, tok := none, key := [] }

def runOp (w : World) (s : St) (o : Op) : St × Option Cause :=
  runBody (useSpec w o.cwd (enough w)) (topCx o) o.acts s

def run (w : World) (ops : List Op) : St :=
  ops.foldl (fun s o => (runOp w s o).1) (initSt w)

end C22
