import ElvModel.Go.Driver
import ElvModel.C22.Model
/-!
Line protocol of C22 (stateful; a history starts with `reset`).

* `reset <libdirs> <predefined> <bundled> <files>`
  - `<libdirs>`: `,`-separated rooted paths, `-` = none
  - `<predefined>`: `,`-separated specs, `-` = none
  - `<bundled>`, `<files>`: `;`-separated `name=body`, `-` = none; a body is `bad`, `_`
    (empty) or `,`-separated statements `u<spec>` `t<spec>` `d` `f` `g<n>`
  → `ok`
* `resetc <files>`: a world for `cmd` ops (files only) → `ok`
* `cmd <cwd>,<spec>;<cwd>,<spec>;…`: ONE `elvish -c 'cd <cwd>; use <spec>; …'` run of the real shell
  entry point on a fresh interpreter → `E:<key>` for each evaluation started, then `| ok` / `| err`
* `run <file|code> <dir> <cwd> <body>`: top-level code (a file in `<dir>`, or
  not from a file) executed with working directory `<cwd>`
  → the observable events in order, then `| ok` or `| err:<cause>`:
  `s<t>=<key>` evaluation `t` of `<key>` started, `d<t>` it completed,
  `g<by>:<spec>><key>#<t>+<seen>` a `use <spec>` of `<by>` (`T` = top level) received
  namespace `<t>` of `<key>` with `<seen>` initialised variables, `c<by>` a `try` caught.
-/
namespace C22
open Go

def splitNonEmpty (s : String) (sep : String) : List String :=
  if s = "-" then [] else s.splitOn sep

def parsePath (s : String) : List Comp := cleanAbs (s.splitOn "/")

def parseAct (s : String) : Option Act :=
  match s.toList with
  | 'u' :: r => some (.use ((String.ofList r).splitOn "/"))
  | 't' :: r => some (.tryUse ((String.ofList r).splitOn "/"))
  | ['d'] => some .def_
  | ['f'] => some .fail
  | 'g' :: r => (String.ofList r).toNat?.map .failUntil
  | _ => none

def parseBody (s : String) : Option (List Act) :=
  if s = "_" then some [] else (s.splitOn ",").mapM parseAct

def parseFile (s : String) : Option File :=
  if s = "bad" then some .bad else (parseBody s).map .code

def parseEntry {α} (f : String → Option α) (s : String) : Option (String × α) :=
  match s.splitOn "=" with
  | [n, b] => (f b).map fun x => (n, x)
  | _ => none

def parseWorld (libs pre bun files : String) : Option World := do
  let fs ← (splitNonEmpty files ";").mapM (parseEntry parseFile)
  let bs ← (splitNonEmpty bun ";").mapM (parseEntry parseBody)
  pure { files := fs.map fun (n, f) => (parsePath n, f),
         libDirs := (splitNonEmpty libs ",").map parsePath,
         bundled := bs.map fun (n, b) => (n.splitOn "/", b),
         predefined := (splitNonEmpty pre ",").map fun n => n.splitOn "/" }

def showStr (k : Str) : String := "/".intercalate k

def showBy : Option Nat → String
  | none => "T"
  | some t => toString t

def showEv : Ev → Option String
  | .start k t => some s!"s{t}={showStr k}"
  | .done _ t => some s!"d{t}"
  | .got b sp k t n => some s!"g{showBy b}:{showStr sp}>{showStr k}#{t}+{n}"
  | .caught b => some s!"c{showBy b}"
  | _ => none

def showCause : Cause → String
  | .nosuch => "err:nosuch"
  | .bad => "err:bad"
  | .fail => "err:fail"
  | .fuel => "FUEL"

def showOutcome (old new : St) (r : Option Cause) : String :=
  let evs := (new.log.take (new.log.length - old.log.length)).reverse.filterMap showEv
  let res := match r with
    | none => "ok"
    | some c => showCause c
  " ".intercalate (evs ++ ["|", res])

/-- One `elvish -c` invocation on a fresh interpreter: `cd <cwd>; use <spec>` pairs, code not from a
file; stops at the first error.  Observable: the evaluations started, in order. -/
def runCmd (w : World) : List (List Comp × Str) → St → St × Bool
  | [], s => (s, true)
  | (cwd, sp) :: rest, s =>
    match runOp w s { cwd := cwd, base := none, acts := [.use sp] } with
    | (s', none) => runCmd w rest s'
    | (s', some _) => (s', false)

def parseCmdStep (s : String) : Option (List Comp × Str) :=
  match s.splitOn "," with
  | [cwd, sp] => some (parsePath cwd, sp.splitOn "/")
  | _ => none

def showCmd (s : St) (ok : Bool) : String :=
  let evs := s.log.reverse.filterMap fun e => match e with
    | .start k _ => some s!"E:{showStr k}"
    | _ => none
  " ".intercalate (evs ++ ["|", if ok then "ok" else "err"])

def step (σ : Option (World × St)) : List String → Option (World × St) × String
  | ["reset", libs, pre, bun, files] =>
    match parseWorld libs pre bun files with
    | some w => (some (w, initSt w), "ok")
    | none => (none, "bad-op")
  | ["resetc", files] =>
    match parseWorld "-" "-" "-" files with
    | some w => (some (w, initSt w), "ok")
    | none => (none, "bad-op")
  | ["cmd", steps] =>
    match σ, (steps.splitOn ";").mapM parseCmdStep with
    | some (w, _), some sts =>
      let (s', ok) := runCmd w sts (initSt w)
      (σ, showCmd s' ok)
    | _, _ => (σ, "bad-op")
  | ["run", origin, dir, cwd, body] =>
    match σ, parseBody body with
    | some (w, s), some acts =>
      let o : Op := { cwd := parsePath cwd, base := if origin = "file" then some (parsePath dir) else none,
                      acts := acts }
      let (s', r) := runOp w s o
      (some (w, s'), showOutcome s s' r)
    | _, _ => (σ, "bad-op")
  | _ => (σ, "bad-op")

def driver : Driver := { σ := Option (World × St), init := none, step := step }
end C22
