import ElvModel.C22.Driver
def main : IO Unit := C22.driver.main
