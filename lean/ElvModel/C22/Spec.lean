/-
C22 — the vocabulary the theorems are stated in (no proofs here).

* `live log k`     what the history says is installed under key `k`
* `countDone log k` how many evaluations of `k` completed
* `WF log`         every event of the history is justified by the history before it
* `Stale log`      a completed (hence cached) module holds the namespace of an evaluation that failed
* `walk d spec`    the documented meaning of a relative spec: walk from directory `d`
-/
import ElvModel.C22.Model
namespace C22

/-! ### the live token of a key, read off the history -/

/-- `live log k`: the namespace the history says is installed under `k` — that
of the latest evaluation of `k` that started, unless it failed since. -/
def live : List Ev → Key → Option Nat
  | [], _ => none
  | .start k' t :: l, k => if k' = k then some t else live l k
  | .failed k' _ :: l, k => if k' = k then none else live l k
  | _ :: l, k => live l k

/-- number of completed evaluations of `k` -/
def countDone (log : List Ev) (k : Key) : Nat :=
  log.countP fun e => match e with
    | .done k' _ => decide (k' = k)
    | _ => false

/-- Well-formed history: every event is justified by the history before it. -/
def WF : List Ev → Prop
  | [] => True
  | e :: l => WF l ∧
    match e with
    | .start k _ => live l k = none
    | .done k t => live l k = some t ∧ countDone l k = 0
    | .failed k t => live l k = some t ∧ Ev.done k t ∉ l
    | .hit k t => live l k = some t
    | .got _ _ k t _ => live l k = some t
    | _ => True

/-- evaluation `t` failed (and was unloaded) -/
def failedTok (log : List Ev) (t : Nat) : Prop := ∃ k, Ev.failed k t ∈ log
/-- evaluation `t` completed (and stays cached) -/
def doneTok (log : List Ev) (t : Nat) : Prop := ∃ k, Ev.done k t ∈ log

/-- A module whose evaluation `b` completed received, from one of its `use`
statements, the namespace of an evaluation `t` that (later) failed: `b` stays
cached and keeps a namespace the interpreter has forgotten. -/
def Stale (log : List Ev) : Prop :=
  ∃ b sp k t n, Ev.got (some b) sp k t n ∈ log ∧ failedTok log t ∧ doneTok log b

/-- no cyclic import happened: every `use` handed out a namespace whose evaluation had completed -/
def Acyclic (log : List Ev) : Prop :=
  ∀ b sp k t n l, (Ev.got b sp k t n :: l) <:+ log → Ev.done k t ∈ l

/-! ### paths -/

/-- an ordinary path element -/
def Plain (c : Comp) : Prop := c ≠ "" ∧ c ≠ "." ∧ c ≠ ".."

/-- The documented meaning of a relative spec: start in directory `d`
(elements, bottom first); an empty element or `.` stays, `..` goes to the
parent (the root is its own parent), a name descends. -/
def walk (d : List Comp) : Str → List Comp
  | [] => d
  | c :: cs =>
    if c = "" ∨ c = "." then walk d cs
    else if c = ".." then walk d.dropLast cs
    else walk (d ++ [c]) cs

end C22
