import ElvModel.C25.Driver
def main : IO Unit := C25.driver.main
