/-
C25 driver.  Line protocol (stateful, histories start with `reset`):

  facts                                    the structure facts of the model
  round <mode> <phase> <ops> <a> <acks> <dump>
                                           one life of the process: the child ran <ops> on what the
                                           previous lives left, was killed (<mode>; it had got as far as
                                           <phase>), <a> acknowledgements with results <acks> got out,
                                           a reopen read <dump>
  cont <ops> <results>                     after the last reopen the parent ran <ops> and saw <results>

`round`: the model enumerates ITS crash points `k` of the history (`Sys.crash`)
and answers with the number of calls `progress` whose effect the reopen saw at
the first `k` that explains the observation (`a` acknowledgements, the dump of
`durable` equal to <dump>) — `j=NONE` when no crash point of the model does.
-/
import ElvModel.Go.Driver
import ElvModel.C24.Driver
import ElvModel.C25.Model
namespace C25
open Go C24

abbrev F := ratOps.F

def showRes {α : Type} (f : α → String) : Res α → String
  | .ok a => f a
  | .exc e => showErr e
  | .panic _ => "PANIC"

def showRet : Ret F → String
  | .cmd (.seq r) => showRes toString r
  | .cmd .unit => "ok"
  | .cmd (.text r) => showRes hexEnc r
  | .cmd (.cmds r) => showRes (fun l => showList (l.map showCmd)) r
  | .cmd (.cmd r) => showResCmd r
  | .cmd (.nseq n) => toString n
  | .err e => showOptErr e
  | .unit => "ok"
  | .dirs l => showList (l.map fun (p, x) => s!"{hexEnc p}:{showBits x}")

/-- one call in the op syntax of the C24 harness, fields separated by blanks -/
def parseCall : List String → Option (Call F)
  | ["nseq"] => some (.cmd .nseq)
  | ["add", h] => (hexDecode h).map fun t => .cmd (.add t)
  | ["del", n] => n.toInt?.map fun n => .cmd (.del n)
  | ["get", n] => n.toInt?.map fun n => .cmd (.get n)
  | ["list", a, b] => do
    let a ← a.toInt?
    let b ← b.toInt?
    pure (.cmd (.list a b))
  | ["adddir", h, bits] => do
    let d ← hexDecode h
    let b ← bits.toNat?
    pure (.addDir d (F64.ofBits b))
  | ["addraw", h, bits] => do
    let d ← hexDecode h
    let b ← bits.toNat?
    pure (.addDirRaw d (F64.ofBits b))
  | ["deldir", h] => (hexDecode h).map fun d => .delDir d
  | ["dirs"] => some (.dirs [])
  | _ => none

/-- `op;op;…` (`~` = no ops) -/
def parseCalls (s : String) : Option (List (Call F)) :=
  if s = "~" then some [] else (s.splitOn ";").mapM fun op => parseCall (op.splitOn " ")

def splitBar (s : String) : List String := if s = "~" then [] else s.splitOn "|"

/-- the program the driver runs: two page writes per transaction -/
def sys : Sys Store (Call F) (Ret F) := elvish ratOps (fun _ _ => 2)

/-- what the parent reads back after a reopen: NextCmdSeq, all commands, all directories -/
def dumpOf (s : Store) : String :=
  "|".intercalate ([Call.cmd .nseq, .cmd (.list 0 (-1)), .dirs []].map fun c => showRet (call ratOps s c).2)

/-- index of the first difference between two result lists -/
def firstDiff : List String → List String → Nat → Option Nat
  | [], [], _ => none
  | a :: as, b :: bs, i => if a = b then firstDiff as bs (i + 1) else some i
  | _, _, i => some i

def cmpShow (model obs : List String) : String :=
  match firstDiff model obs 0 with
  | none => "ok"
  | some i => s!"bad@{i}"

/-- least crash point of the model that explains the observation.  `Sys.crash s cs k`
is `(sys.trace s cs).take k` by definition; the trace is computed once. -/
def explain (s : Store) (cs : List (Call F)) (a : Nat) (dump : String) : Option (List (Ev Store (Ret F))) :=
  let tr := sys.trace s cs
  (List.range (tr.length + 1)).findSome? fun k =>
    let es := tr.take k
    if (acks es).length = a ∧ dumpOf (durable s es) = dump then some es else none

example (s : Store) (cs : List (Call F)) (k : Nat) : sys.crash s cs k = (sys.trace s cs).take k := rfl

def factsLine : String :=
  let api := ",".intercalate (Api.all.map fun a => s!"{a.name}:{a.txns.1}:{a.txns.2}")
  let showOpts (o : OpenOpts) : String :=
    s!"NoSync={o.noSync},NoFreelistSync={o.noFreelistSync},NoGrowSync={o.noGrowSync}"
  let opens := " ".intercalate (openCalls.map fun (f, o) => s!"open@{f}:{showOpts o}")
  s!"api={api} {opens} newstore-via={newStoreOpensVia} nosync-assignments=0 addcmd-seq-and-put-in-one-update=true"

structure DState where
  st : Store
  broken : Bool

def stepLine (d : DState) : List String → DState × String
  | ["reset"] => (⟨Store.fresh, false⟩, "ok")
  | ["facts"] => (d, factsLine)
  | ["round", _, _, ops, a, ackd, dump] =>
    if d.broken then (d, "SKIP") else
    match parseCalls ops, a.toNat? with
    | some cs, some a =>
      match explain d.st cs a dump with
      | some es =>
        (⟨durable d.st es, false⟩, s!"j={progress es} acks={cmpShow ((acks es).map showRet) (splitBar ackd)}")
      | none => (⟨d.st, true⟩, "j=NONE")
    | _, _ => (d, "bad-op")
  | ["cont", ops, res] =>
    if d.broken then (d, "SKIP") else
    match parseCalls ops with
    | some cs =>
      let r := sys.run d.st cs
      let out := r.2.map showRet
      let obs := splitBar res
      let same := match firstDiff out obs 0 with
        | none => "same"
        | some i => s!"differ@{i}"
      (⟨r.1, false⟩, (if out.isEmpty then "~" else "|".intercalate out) ++ " obs=" ++ same)
    | none => (d, "bad-op")
  | _ => (d, "bad-op")

def driver : Driver := { σ := DState, init := ⟨Store.fresh, false⟩, step := stepLine }
end C25
