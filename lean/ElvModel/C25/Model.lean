/-
C25 model: the history store of pkg/store (sequential semantics = the model of
C24) over a durable medium, with a process kill at any point.

What is ASSUMED (of go.etcd.io/bbolt + the kernel + the file system, not
provable here; supported by kill-point enumeration in harness/c25):
  * a `db.Update` makes its effect visible to a later `bolt.Open` by ONE atomic
    step, the write of the meta page (`Ev.commit`); everything it writes before
    that (dirty pages go to free pages, `Ev.write`/`Ev.sync`) is invisible to a
    reopen;
  * with `Options.NoSync` unset, `tx.Commit` returns only after that step;
  * `db.View` writes nothing;
  * `bolt.Open` of a file left behind by a killed process succeeds and reads
    the state of the last meta-page write.

What elvish CONTRIBUTES (regenerated from the source by the go/ast extractor of
harness/c25 and compared with `Api.txns`, `openCalls`, … below by the `facts`
op): every exported method of `dbStore` is exactly one `s.db.Update` or exactly
one `s.db.View`; `AddCmd` takes its number (`NextSequence`) and stores the text
(`Put`) inside the same `Update`; the options `NewStore` passes to `bolt.Open`
leave `NoSync`/`NoFreelistSync`/`NoGrowSync` unset.  The API call returns (is
ACKNOWLEDGED, `Ev.ack`) after its transaction.

The initial state `Store.fresh` stands for every stage of creating the file
(absent, empty, initialised without buckets, with empty buckets): `NewStore`
turns each of them into two empty buckets.  Reopening an existing database is
the identity on the abstract state (`CreateBucketIfNotExists`).
-/
import ElvModel.C24.Model
namespace C25
open Go C24

/-! ## 1. The medium: events of a run, crash, reopen -/

/-- What a run of the process does to the outside world, in program order. -/
inductive Ev (σ ρ : Type) where
  /-- `pwrite` of a dirty page / freelist of the open transaction, `ftruncate` -/
  | write
  /-- `fdatasync`/`fsync` -/
  | sync
  /-- the meta-page write of `tx.Commit`: from here on a reopen reads `s` -/
  | commit (s : σ)
  /-- the API call returns `r` to its caller (the child prints its ack line) -/
  | ack (r : ρ)
  deriving Repr

/-- `reopen`: the state `bolt.Open` reads after the events `es` happened on a
medium that held `s0`: the last committed one. -/
def durable {σ ρ : Type} (s0 : σ) : List (Ev σ ρ) → σ
  | [] => s0
  | .commit s :: es => durable s es
  | .write :: es => durable s0 es
  | .sync :: es => durable s0 es
  | .ack _ :: es => durable s0 es

/-- the acknowledgements that got out, in order -/
def acks {σ ρ : Type} : List (Ev σ ρ) → List ρ
  | [] => []
  | .ack r :: es => r :: acks es
  | .commit _ :: es => acks es
  | .write :: es => acks es
  | .sync :: es => acks es

/-- is there a commit after the last acknowledgement? (`p`: so far) -/
def pendingFrom {σ ρ : Type} (p : Bool) : List (Ev σ ρ) → Bool
  | [] => p
  | .commit _ :: es => pendingFrom true es
  | .ack _ :: es => pendingFrom false es
  | .write :: es => pendingFrom p es
  | .sync :: es => pendingFrom p es

/-- number of API calls whose effect a reopen sees: the acknowledged ones, plus
one when a commit happened after the last acknowledgement -/
def progress {σ ρ : Type} (es : List (Ev σ ρ)) : Nat :=
  (acks es).length + (if pendingFrom false es then 1 else 0)

/-- A program on the store. -/
structure Sys (σ κ ρ : Type) where
  /-- sequential semantics of one API call -/
  step : σ → κ → σ × ρ
  /-- the call is one `db.Update` (otherwise: one `db.View`) -/
  mutates : κ → Bool
  /-- `tx.Commit` syncs before returning (`Options.NoSync` unset) -/
  synced : Bool
  /-- how many dirty-page writes the transaction makes (any number) -/
  pages : σ → κ → Nat

variable {σ κ ρ : Type}

/-- The events of ONE API call started on the committed state `s`. -/
def Sys.exec (S : Sys σ κ ρ) (s : σ) (c : κ) : List (Ev σ ρ) :=
  if S.mutates c then
    if S.synced then
      List.replicate (S.pages s c) .write ++ [.sync, .commit (S.step s c).1, .sync, .ack (S.step s c).2]
    else
      -- NoSync: the call returns before the meta page is on the medium
      List.replicate (S.pages s c) .write ++ [.ack (S.step s c).2, .commit (S.step s c).1]
  else [.ack (S.step s c).2]

/-- the committed state the next call starts from (one process, one writer) -/
def Sys.next (S : Sys σ κ ρ) (s : σ) (c : κ) : σ := if S.mutates c then (S.step s c).1 else s

/-- The events of a history of calls. -/
def Sys.trace (S : Sys σ κ ρ) : σ → List κ → List (Ev σ ρ)
  | _, [] => []
  | s, c :: cs => S.exec s c ++ S.trace (S.next s c) cs

/-- The sequential specification: the calls one after the other, no crash. -/
def Sys.run (S : Sys σ κ ρ) : σ → List κ → σ × List ρ
  | s, [] => (s, [])
  | s, c :: cs =>
    let r := S.run (S.step s c).1 cs
    (r.1, (S.step s c).2 :: r.2)

/-- The process is killed after `k` events of the history `cs`. -/
def Sys.crash (S : Sys σ κ ρ) (s : σ) (cs : List κ) (k : Nat) : List (Ev σ ρ) := (S.trace s cs).take k

/-- Several lives of the process: each runs a history on what the previous one
left behind and is killed after `k` events.  Result: the state the last reopen
reads and all acknowledgements that ever got out. -/
def Sys.lives (S : Sys σ κ ρ) : σ → List (List κ × Nat) → σ × List ρ
  | s, [] => (s, [])
  | s, (cs, k) :: rs =>
    let r := S.lives (durable s (S.crash s cs k)) rs
    (r.1, acks (S.crash s cs k) ++ r.2)

/-! ## 2. The store of elvish -/

/-- The API calls (`storedefs.Store` on `*dbStore`, plus `AddDirRaw`); the
command-history part is the operation type of C24. -/
inductive Call (F : Type) where
  | cmd (op : C24.Op)
  | addDir (d : Bytes) (f : F)
  | addDirRaw (d : Bytes) (x : F)
  | delDir (d : Bytes)
  | dirs (bl : List Bytes)

/-- what a call returns -/
inductive Ret (F : Type) where
  | cmd (o : C24.Out)
  | err (e : Option String)
  | unit
  | dirs (l : List (Bytes × F))

/-- sequential semantics: the functions of the C24 model -/
def call (o : ScoreOps) (s : Store) : Call o.F → Store × Ret o.F
  | .cmd op => ((C24.step s op).1, .cmd (C24.step s op).2)
  | .addDir d f => ((addDir o s d f).1, .err (addDir o s d f).2)
  | .addDirRaw d x => ((addDirRaw o s d x).1, .err (addDirRaw o s d x).2)
  | .delDir d => (delDir s d, .unit)
  | .dirs bl => (s, .dirs (C24.dirs o s bl))

/-- the exported methods of `*dbStore` and the exported constructors -/
inductive Api where
  | NextCmdSeq | AddCmd | DelCmd | Cmd | IterateCmds | CmdsWithSeq | NextCmd | PrevCmd
  | AddDir | AddDirRaw | DelDir | Dirs | Close
  | NewStore | NewStoreFromDB | MustTempStore
  deriving Repr, DecidableEq

def Api.all : List Api :=
  [.AddCmd, .AddDir, .AddDirRaw, .Close, .Cmd, .CmdsWithSeq, .DelCmd, .DelDir, .Dirs, .IterateCmds,
   .MustTempStore, .NewStore, .NewStoreFromDB, .NextCmd, .NextCmdSeq, .PrevCmd]

def Api.name : Api → String
  | .NextCmdSeq => "NextCmdSeq" | .AddCmd => "AddCmd" | .DelCmd => "DelCmd" | .Cmd => "Cmd"
  | .IterateCmds => "IterateCmds" | .CmdsWithSeq => "CmdsWithSeq" | .NextCmd => "NextCmd"
  | .PrevCmd => "PrevCmd" | .AddDir => "AddDir" | .AddDirRaw => "AddDirRaw" | .DelDir => "DelDir"
  | .Dirs => "Dirs" | .Close => "Close" | .NewStore => "NewStore" | .NewStoreFromDB => "NewStoreFromDB"
  | .MustTempStore => "MustTempStore"

/-- (number of `db.Update` calls, number of `db.View` calls) the function
makes, callees in the package included — what the source says (extractor). -/
def Api.txns : Api → Nat × Nat
  | .AddCmd | .DelCmd | .AddDir | .AddDirRaw | .DelDir => (1, 0)
  | .NextCmdSeq | .Cmd | .IterateCmds | .CmdsWithSeq | .NextCmd | .PrevCmd | .Dirs => (0, 1)
  | .Close => (0, 0)
  -- creating the buckets that do not exist yet
  | .NewStore | .NewStoreFromDB | .MustTempStore => (1, 0)

/-- which method a call is -/
def Call.api {F : Type} : Call F → Api
  | .cmd (.add _) => .AddCmd
  | .cmd (.del _) => .DelCmd
  | .cmd (.get _) => .Cmd
  | .cmd (.list _ _) => .CmdsWithSeq
  | .cmd (.next _ _) => .NextCmd
  | .cmd (.prev _ _) => .PrevCmd
  | .cmd .nseq => .NextCmdSeq
  | .addDir _ _ => .AddDir
  | .addDirRaw _ _ => .AddDirRaw
  | .delDir _ => .DelDir
  | .dirs _ => .Dirs

/-- the call is an `Update` -/
def mutates {F : Type} (c : Call F) : Bool := c.api.txns.1 == 1

/-- the `bolt.Options` fields that weaken durability -/
structure OpenOpts where
  noSync : Bool
  noFreelistSync : Bool
  noGrowSync : Bool
  deriving Repr, DecidableEq

/-- `dbWithDefaultOptions`: `&bolt.Options{Timeout: 1 * time.Second}` -/
def defaultOpts : OpenOpts := ⟨false, false, false⟩

/-- the `bolt.Open` calls of the package: enclosing function and options.
`MustTempStore` is the test helper (temporary file, deleted at cleanup); it is
not reachable from `NewStore`. -/
def openCalls : List (String × OpenOpts) :=
  [("MustTempStore", ⟨true, true, false⟩), ("dbWithDefaultOptions", defaultOpts)]

/-- the functions through which `NewStore` reaches `bolt.Open` -/
def newStoreOpensVia : String := "dbWithDefaultOptions"

/-- The history store as a program on the medium. -/
def elvish (o : ScoreOps) (pages : Store → Call o.F → Nat) : Sys Store (Call o.F) (Ret o.F) where
  step := call o
  mutates := mutates
  synced := !defaultOpts.noSync
  pages := pages

/-- the sequence number a result carries: `AddCmd` returned it -/
def Ret.seq? {F : Type} : Ret F → Option Int
  | .cmd (.seq (.ok n)) => some n
  | _ => none

/-- the sequence numbers the `AddCmd`s among some results returned -/
def issued {F : Type} (rs : List (Ret F)) : List Int := rs.filterMap Ret.seq?

/-! ## 3. Variants that break the property (what the structure facts exclude) -/

/-- `AddCmd` split into two `Update`s — the number in one, the `Put` in the
next: the events of one such call on a fresh database. -/
def splitAddCmdEvents (t : Bytes) : List (Ev Store (Res Int)) :=
  let b := (Store.fresh.cmd.nextSequence).1
  let s1 : Store := { Store.fresh with cmd := b }
  [.sync, .commit s1, .sync, .sync, .commit (addCmd Store.fresh t).1, .sync, .ack (addCmd Store.fresh t).2]

end C25
