/-
C25 specification state: the sequential log of C24 (`C24.Spec.Log`) for the
command history, and the directory bucket itself for the directory history
(C24 characterises `AddDir`/`DelDir`/`Dirs` directly on the bucket:
`C24_addDir`, `C24_addDirRaw_delDir`, `C24_dirs`).
-/
import ElvModel.C25.Model
import ElvModel.C24.Spec
namespace C25.Spec
open Go C24 C24.Spec

structure St where
  log : Log
  dir : Bucket
  deriving Repr, DecidableEq

def St.fresh : St := ⟨Log.empty, Bucket.empty⟩

/-- one API call on the specification state -/
def step (o : ScoreOps) (s : St) : Call o.F → St × Ret o.F
  | .cmd op => (⟨(C24.Spec.step s.log op).1, s.dir⟩, .cmd (C24.Spec.step s.log op).2)
  | .addDir d f => (⟨s.log, (addDir o ⟨Bucket.empty, s.dir⟩ d f).1.dir⟩, .err (addDir o ⟨Bucket.empty, s.dir⟩ d f).2)
  | .addDirRaw d x =>
    (⟨s.log, (addDirRaw o ⟨Bucket.empty, s.dir⟩ d x).1.dir⟩, .err (addDirRaw o ⟨Bucket.empty, s.dir⟩ d x).2)
  | .delDir d => (⟨s.log, s.dir.delete d⟩, .unit)
  | .dirs bl => (s, .dirs (C24.dirs o ⟨Bucket.empty, s.dir⟩ bl))

/-- a history of calls on the specification state -/
def run (o : ScoreOps) : St → List (Call o.F) → St × List (Ret o.F)
  | s, [] => (s, [])
  | s, c :: cs =>
    let r := run o (step o s c).1 cs
    (r.1, (step o s c).2 :: r.2)

end C25.Spec
