/-
C15 reference interpreter — pure operations on values: equality, boolean
conversion, canonical printing, number syntax, concatenation, indexing,
element update, ordering.  Written from language.md ("Value types",
"Indexing", "Compounding") and the documentation of the builtin commands.
-/
import ElvModel.C15.Syntax
namespace C15

/-! ### Exception classes -/

def Exc.fail (v : Value) : Exc := ⟨"fail", [v]⟩
def Exc.brk : Exc := ⟨"break", []⟩
def Exc.cont : Exc := ⟨"continue", []⟩
def Exc.ret : Exc := ⟨"return", []⟩
def Exc.arity : Exc := ⟨"arity", []⟩
def Exc.badOption : Exc := ⟨"bad-option", []⟩
def Exc.outOfRange : Exc := ⟨"out-of-range", []⟩
def Exc.badIndex : Exc := ⟨"bad-index", []⟩
def Exc.notBoundary : Exc := ⟨"not-rune-boundary", []⟩
def Exc.noSuchKey : Exc := ⟨"no-such-key", []⟩
def Exc.notIndexable : Exc := ⟨"not-indexable", []⟩
def Exc.cannotConcat : Exc := ⟨"cannot-concat", []⟩
def Exc.wrongType : Exc := ⟨"wrong-type", []⟩
def Exc.badValue : Exc := ⟨"bad-value", []⟩
def Exc.cannotIterate : Exc := ⟨"cannot-iterate", []⟩
def Exc.uncomparable : Exc := ⟨"bad-value", []⟩
def Exc.noLength : Exc := ⟨"no-length", []⟩
def Exc.elemOp : Exc := ⟨"element-op", []⟩

/-! ### Equality (`eq`), boolean conversion -/

mutual
/-- Value equality as `eq` tests it: structural on data, identity on functions. -/
def veq : Value → Value → Bool
  | .str a, .str b => a == b
  | .num a, .num b => a == b
  | .bool a, .bool b => a == b
  | .nil, .nil => true
  | .ok, .ok => true
  | .list a, .list b => veqList a b
  | .map a, .map b => a.length == b.length && mapSub a b
  | .closure i _ _ _ _ _ _ _ _, .closure j _ _ _ _ _ _ _ _ => i == j
  | .builtin a, .builtin b => a == b
  | .exc k p, .exc k' p' => k == k' && veqList p p'
  | _, _ => false
def veqList : List Value → List Value → Bool
  | [], [] => true
  | a :: as, b :: bs => veq a b && veqList as bs
  | _, _ => false
def mapSub : List (Value × Value) → List (Value × Value) → Bool
  | [], _ => true
  | (k, v) :: rest, m => m.any (fun kv => veq k kv.1 && veq v kv.2) && mapSub rest m
end

/-- language.md "Boolean": `$nil`, `$false` and exceptions are booleanly false. -/
def truthy : Value → Bool
  | .bool b => b
  | .nil => false
  | .exc _ _ => false
  | _ => true

/-- `and`-ing a list of values (an empty list is true). -/
def allTrue (vs : List Value) : Bool := vs.all truthy

/-! ### Maps as association lists -/

def mapGet (m : List (Value × Value)) (k : Value) : Option Value :=
  (m.find? (fun kv => veq kv.1 k)).map (·.2)

def mapDel (m : List (Value × Value)) (k : Value) : List (Value × Value) :=
  m.filter (fun kv => !veq kv.1 k)

/-- Insert or replace. -/
def mapPut (m : List (Value × Value)) (k v : Value) : List (Value × Value) :=
  mapDel m k ++ [(k, v)]

/-- A map literal: later pairs replace earlier ones with the same key. -/
def mapOfPairs (ks vs : List Value) : List (Value × Value) :=
  mapPutAll [] ks vs
where
  mapPutAll (acc : List (Value × Value)) : List Value → List Value → List (Value × Value)
    | k :: ks, v :: vs => mapPutAll (mapPut acc k v) ks vs
    | _, _ => acc

/-! ### Printing -/

def numToString (q : Rat) : String :=
  if q.den == 1 then toString q.num else toString q.num ++ "/" ++ toString q.den

/-- Stable insertion sort: an element is inserted after the elements it does
not precede. -/
def stableSort {α} (lt : α → α → Bool) (xs : List α) : List α :=
  xs.foldl (fun acc x => insertAfter lt x acc) []
where
  insertAfter (lt : α → α → Bool) (x : α) : List α → List α
    | [] => [x]
    | y :: ys => if lt x y then x :: y :: ys else y :: insertAfter lt x ys

mutual
/-- Canonical text of a value (what the harness prints for the real value):
strings single-quoted, typed numbers `(num n)`, maps sorted by the text of
the key, functions without their address, exceptions by cause. -/
def vrepr : Value → String
  | .str s => "'" ++ s ++ "'"
  | .num q => "(num " ++ numToString q ++ ")"
  | .bool true => "$true"
  | .bool false => "$false"
  | .nil => "$nil"
  | .ok => "$ok"
  | .list vs => "[" ++ " ".intercalate (vreprList vs) ++ "]"
  | .map kvs =>
    if kvs.isEmpty then "[&]"
    else "[" ++ " ".intercalate ((stableSort (fun a b => a < b) (vreprPairs kvs))) ++ "]"
  | .closure _ _ _ _ _ _ _ _ _ => "<closure>"
  | .builtin n => "<builtin " ++ n ++ ">"
  | .exc k p => "?(" ++ " ".intercalate (k :: vreprList p) ++ ")"
def vreprList : List Value → List String
  | [] => []
  | v :: vs => vrepr v :: vreprList vs
def vreprPairs : List (Value × Value) → List String
  | [] => []
  | (k, v) :: rest => ("&" ++ vrepr k ++ "=" ++ vrepr v) :: vreprPairs rest
end

def Exc.repr (e : Exc) : String := vrepr e.toValue

/-! ### Number syntax (language.md "Number", "Strings and numbers") -/

/-- Result of reading a string as a number. `unsupported`: the string is (or
may be) a number outside the modelled fragment — inexact, or written with a
base prefix or digit separators. -/
inductive NumParse where
  | num (q : Rat)
  | notNum
  | unsupported
  deriving Inhabited

inductive UParse where
  | ok (n : Nat)
  | floatish     -- decimal digits that are not an integer literal (`08`): an inexact number
  | maybe        -- may be a number in a syntax that is not modelled
  | no
  deriving Inhabited

def isDigit (c : Char) : Bool := '0' ≤ c && c ≤ '9'

def natOfDigits (base : Nat) (cs : List Char) : Nat :=
  cs.foldl (fun acc c => acc * base + (c.toNat - 48)) 0

def numericLooking (c : Char) : Bool :=
  isDigit c || c ∈ ['.', '+', '-', '_', 'x', 'X', 'o', 'O', 'p', 'P'] ||
  ('a' ≤ c && c ≤ 'f') || ('A' ≤ c && c ≤ 'F')

/-- An unsigned integer literal: decimal, or octal when it has a leading zero. -/
def parseU (cs : List Char) : UParse :=
  if cs.isEmpty then .no
  else if cs.all isDigit then
    if cs.length > 1 && cs.head? == some '0' then
      if cs.all (fun c => c < '8') then .ok (natOfDigits 8 cs) else .floatish
    else .ok (natOfDigits 10 cs)
  else if cs.all numericLooking && cs.any isDigit then .maybe
  else if (String.ofList (cs.map Char.toLower)) ∈ ["inf", "infinity", "nan"] then .maybe
  else .no

def stripSign : List Char → Bool × List Char
  | '-' :: cs => (true, cs)
  | '+' :: cs => (false, cs)
  | cs => (false, cs)

def signed (neg : Bool) (n : Nat) : Int := if neg then - (n : Int) else n

def splitOnChar (c : Char) : List Char → Option (List Char × List Char)
  | [] => none
  | x :: xs => if x == c then some ([], xs) else
    match splitOnChar c xs with
    | some (a, b) => some (x :: a, b)
    | none => none

def parseNum (s : String) : NumParse :=
  let cs := s.toList
  match splitOnChar '/' cs with
  | none =>
    let (neg, body) := stripSign cs
    match parseU body with
    | .ok n => .num (signed neg n : Int)
    | .floatish => .unsupported
    | .maybe => .unsupported
    | .no => .notNum
  | some (a, b) =>
    let (neg, ab) := stripSign a
    match parseU ab, parseU b with
    | .ok n, .ok d => if d == 0 then .notNum else .num ((signed neg n : Int) / (d : Int) : Rat)
    | .maybe, _ => .unsupported
    | _, .maybe => .unsupported
    | _, _ => .notNum

/-- A value used where a number is expected. -/
def toNum : Value → NumParse
  | .num q => .num q
  | .str s => parseNum s
  | _ => .notNum

/-- Decimal integer syntax of list/string indices: optional sign, digits. -/
def parseDecInt (cs : List Char) : Option Int :=
  let (neg, body) := stripSign cs
  if !body.isEmpty && body.all isDigit then some (signed neg (natOfDigits 10 body)) else none

/-! ### Strings -/

/-- Split a string at a byte offset of its UTF-8 encoding; `none` if the
offset is inside a codepoint or beyond the end. -/
def splitAtByte : List Char → Nat → Option (List Char × List Char)
  | cs, 0 => some ([], cs)
  | [], _ + 1 => none
  | c :: cs, n + 1 =>
    if c.utf8Size ≤ n + 1 then
      match splitAtByte cs (n + 1 - c.utf8Size) with
      | some (a, b) => some (c :: a, b)
      | none => none
    else none

def byteLen (cs : List Char) : Nat := (cs.map Char.utf8Size).sum

/-- Value → string for compounding: strings and numbers only
(language.md "Compounding"). -/
def toStr? : Value → Option String
  | .str s => some s
  | .num q => some (numToString q)
  | _ => none

/-- Concatenate two values in a compound expression. -/
def concat (a b : Value) : Except Exc Value :=
  match toStr? a, toStr? b with
  | some x, some y => .ok (.str (x ++ y))
  | _, _ => .error Exc.cannotConcat

/-- One left value with every right value. -/
def concatRow (l : Value) : List Value → Except Exc (List Value)
  | [] => .ok []
  | r :: rs => do
    let x ← concat l r
    let xs ← concatRow l rs
    pure (x :: xs)

/-- All combinations of a list of left values with a list of right values,
first left value first (language.md "Compounding"). -/
def outer : List Value → List Value → Except Exc (List Value)
  | [], _ => .ok []
  | l :: ls, rs => do
    let row ← concatRow l rs
    let rest ← outer ls rs
    pure (row ++ rest)

def compoundFrom (acc : List Value) : List (List Value) → Except Exc (List Value)
  | [] => .ok acc
  | vs :: rest => do
    let acc' ← outer acc vs
    compoundFrom acc' rest

/-- The values of a compound expression from the values of its parts. -/
def compoundAll : List (List Value) → Except Exc (List Value)
  | [] => .ok []
  | first :: rest => compoundFrom first rest

/-! ### Indexing (language.md "List", "String", "Map", "Indexing") -/

/-- A parsed list/string index: an element position or a slice `lo..hi` with
optional ends; `incl` for `..=`. -/
inductive Idx where
  | elem (i : Int)
  | slice (lo hi : Option Int) (incl : Bool)

def findDotDot : List Char → Option (List Char × List Char)
  | [] => none
  | [_] => none
  | a :: b :: rest =>
    if a == '.' && b == '.' then some ([], rest) else
    match findDotDot (b :: rest) with
    | some (x, y) => some (a :: x, y)
    | none => none

def parseOptInt (cs : List Char) : Option (Option Int) :=
  if cs.isEmpty then some none else (parseDecInt cs).map some

/-- Read an index value for a list or string. -/
def parseIdx : Value → Except Exc Idx
  | .num q => if q.den == 1 then .ok (.elem q.num) else .error Exc.badIndex
  | .str s =>
    let cs := s.toList
    match findDotDot cs with
    | none => match parseDecInt cs with
      | some i => .ok (.elem i)
      | none => .error Exc.badIndex
    | some (a, b) =>
      let (incl, b) := match b with
        | '=' :: b' => (true, b')
        | _ => (false, b)
      match parseOptInt a, parseOptInt b with
      | some lo, some hi => .ok (.slice lo hi incl)
      | _, _ => .error Exc.badIndex
  | _ => .error Exc.badIndex

/-- Resolve an index against a length: an element position `p` with
`0 ≤ p < n`, or slice bounds `0 ≤ lo ≤ hi ≤ n`; negative numbers count from
the back; `a..=b` includes position `b`. -/
def resolveIdx (n : Nat) : Idx → Except Exc (Nat ⊕ (Nat × Nat))
  | .elem i =>
    let p : Int := if i < 0 then i + n else i
    if 0 ≤ p && p < n then .ok (.inl p.toNat) else .error Exc.outOfRange
  | .slice lo hi incl =>
    let l : Int := match lo with
      | none => (0 : Int)
      | some i => if i < 0 then i + n else i
    let h : Int := match hi with
      | none => (n : Int)
      | some i => (if i < 0 then i + n else i) + (if incl then 1 else 0)
    if 0 ≤ l && l ≤ h && h ≤ n then .ok (.inr (l.toNat, h.toNat)) else .error Exc.outOfRange

def indexList (vs : List Value) (idx : Value) : Except Exc Value := do
  match ← resolveIdx vs.length (← parseIdx idx) with
  | .inl p => match vs[p]? with
    | some v => .ok v
    | none => .error Exc.outOfRange
  | .inr (l, h) => .ok (.list ((vs.drop l).take (h - l)))

def indexString (s : String) (idx : Value) : Except Exc Value := do
  let cs := s.toList
  match ← resolveIdx (byteLen cs) (← parseIdx idx) with
  | .inl p => match splitAtByte cs p with
    | some (_, c :: _) => .ok (.str (String.singleton c))
    | _ => .error Exc.notBoundary
  | .inr (l, h) => match splitAtByte cs l with
    | some (_, tail) => match splitAtByte tail (h - l) with
      | some (mid, _) => .ok (.str (String.ofList mid))
      | none => .error Exc.notBoundary
    | none => .error Exc.notBoundary

/-- The documented fields of the pseudo-maps (language.md "Exception", "Function");
their values are not modelled. -/
def pseudoField (c idx : Value) : Bool :=
  match c, idx with
  | .exc _ _, .str k => k == "reason" || k == "stack-trace"
  | .closure .., .str k => k ∈ ["arg-names", "rest-arg", "opt-names", "opt-defaults", "def", "body", "src"]
  | _, _ => false

/-- `container[idx]` for one container value and one index value. -/
def indexValue (c idx : Value) : Except Exc Value :=
  match c with
  | .list vs => indexList vs idx
  | .str s => indexString s idx
  | .map m => match mapGet m idx with
    | some v => .ok v
    | none => .error Exc.noSuchKey
  -- language.md "Pseudo-map": exceptions and user-defined functions can be
  -- indexed like maps; only the absence of other keys is modelled
  | .ok => match idx with
    | .str "reason" => .ok .nil
    | _ => .error Exc.noSuchKey
  | .exc _ _ => if pseudoField c idx then .error ⟨"UNSUPPORTED-pseudo-map-field", []⟩ else .error Exc.noSuchKey
  | .closure .. => if pseudoField c idx then .error ⟨"UNSUPPORTED-pseudo-map-field", []⟩ else .error Exc.noSuchKey
  | _ => .error Exc.notIndexable

/-- New container with one element replaced / added (`set x[idx] = v`):
lists at an existing element position, maps at any key. -/
def assocValue (c idx v : Value) : Except Exc Value :=
  match c with
  | .list vs => do
    -- the index is resolved against the list first (a slice out of range is
    -- "out of range"), then a slice is refused
    match ← resolveIdx vs.length (← parseIdx idx) with
    | .inl p => .ok (.list (vs.set p v))
    | .inr _ => .error Exc.elemOp
  | .map m => .ok (.map (mapPut m idx v))
  -- a string: the codepoint / byte range is replaced by a string
  | .str s => do
    let cs := s.toList
    let (l, h) ← match ← resolveIdx (byteLen cs) (← parseIdx idx) with
      | .inl p => match splitAtByte cs p with
        | some (_, c :: _) => pure (p, p + c.utf8Size)
        | _ => .error Exc.notBoundary
      | .inr (l, h) => pure (l, h)
    match splitAtByte cs l with
    | some (pre, tail) => match splitAtByte tail (h - l) with
      | some (_, post) => match v with
        | .str r => .ok (.str (String.ofList (pre ++ r.toList ++ post)))
        | _ => .error Exc.elemOp
      | none => .error Exc.notBoundary
    | none => .error Exc.notBoundary
  | _ => .error Exc.elemOp

/-- Nested update `c[i1][i2]...[in] = v` (language.md "set": a new container
is built, nothing is mutated). -/
def assocPath (c : Value) : List Value → Value → Except Exc Value
  | [], v => .ok v
  | [i], v => assocValue c i v
  | i :: is, v => do
    let inner ← indexValue c i
    let inner' ← assocPath inner is v
    assocValue c i inner'

/-- Remove a map element (`del m[k]`); only maps support it. -/
def dissocValue (c idx : Value) : Except Exc Value :=
  match c with
  | .map m => .ok (.map (mapDel m idx))
  | _ => .error Exc.elemOp

def dissocPath (c : Value) : List Value → Except Exc Value
  | [] => .ok c
  | [i] => dissocValue c i
  | i :: is => do
    let inner ← indexValue c i
    let inner' ← dissocPath inner is
    assocValue c i inner'

/-! ### Iteration, length -/

/-- The elements a `for` loop / `each` / `all` iterates over: list elements,
or the codepoints of a string. -/
def elements : Value → Except Exc (List Value)
  | .list vs => .ok vs
  | .str s => .ok (s.toList.map (fun c => .str (String.singleton c)))
  | _ => .error Exc.cannotIterate

def lengthOf : Value → Except Exc Nat
  | .list vs => .ok vs.length
  | .str s => .ok (byteLen s.toList)
  | .map m => .ok m.length
  | _ => .error Exc.noLength

end C15
