/-
C15 reference interpreter — the pure value-stream and container builtins,
written from their documentation (`pkg/eval/builtin_fn_stream.d.elv`,
`builtin_fn_container.d.elv`, `builtin_fn_pred.d.elv`, `builtin_fn_io.d.elv`;
the sentence a rule comes from is quoted at the rule), NOT from
`pkg/eval/builtin_fn_*.go`.

Every command here is a function of its arguments (and, for the stream
commands `compact` and `make-map`, of the values on its input): no state, no
request to the evaluator.  `Interp.callPure` feeds them.

Where the documentation is silent (which error class, strings measured in
bytes) the reading is aligned with pkg/eval and listed in notes/C15.md; where
pkg/eval's behaviour is not something the documentation promises
(`make-map` of a non-ASCII string, `is` on anything but strings, booleans and
`$nil`, containers that are pseudo-maps) the reference is undefined
(`PRes.unsup`) and the program is outside the quantifier.
-/
import ElvModel.C15.Values
namespace C15

def Exc.cannotDissoc : Exc := ⟨"cannot-dissoc", []⟩

/-- Result of a pure builtin: output values, an exception, or "the
documentation does not say". -/
inductive PRes where
  | vals (vs : List Value)
  | err (e : Exc)
  | unsup (why : String)

/-! ### `compact` -/

/-- The rest of `compact` after the value `prev` was output: values equal to
`prev` are dropped until a different one appears. -/
def compactFrom (prev : Value) : List Value → List Value
  | [] => []
  | v :: vs => if veq prev v then compactFrom prev vs else v :: compactFrom v vs

/-- "Replaces consecutive runs of equal values with a single copy."  The
first value is always output — whatever it is, `$nil` included. -/
def compact : List Value → List Value
  | [] => []
  | v :: vs => v :: compactFrom v vs

/-! ### `make-map` -/

/-- One input of `make-map`: "an iterable value with with two elements. The
first element of each value is used as the key, and the second element is
used as the value." -/
def makeMapPair : Value → Except (Option Exc) (Value × Value)
  | .list [k, v] => .ok (k, v)
  | .list _ => .error (some Exc.badValue)
  | .str s =>
    let cs := s.toList
    -- pkg/eval measures a string in bytes here; the documentation counts
    -- elements (codepoints): only strings where the two agree are in the reference
    if byteLen cs != cs.length then .error none
    else match cs with
      | [a, b] => .ok (.str (String.singleton a), .str (String.singleton b))
      | _ => .error (some Exc.badValue)
  | _ => .error (some Exc.badValue)

/-- "If the same key appears multiple times, the last value is used." -/
def makeMapFrom (acc : List (Value × Value)) : List Value → PRes
  | [] => .vals [.map acc]
  | x :: xs =>
    match makeMapPair x with
    | .ok (k, v) => makeMapFrom (mapPut acc k v) xs
    | .error (some e) => .err e
    | .error none => .unsup "make-map of a string with multi-byte codepoints"

def makeMap (inputs : List Value) : PRes := makeMapFrom [] inputs

/-! ### Containers -/

/-- Containers whose behaviour as a pseudo-map is not documented per command. -/
def isPseudoMap : Value → Bool
  | .closure .. => true
  | .builtin _ => true
  | .exc _ _ => true
  | .ok => true
  | _ => false

def liftR : Except Exc Value → PRes
  | .ok v => .vals [v]
  | .error e => .err e

/-- "Determine whether `$key` is a key in `$container`. A key could be a map
key or an index on a list or string. This includes a range of indexes." -/
def hasKey (c k : Value) : PRes :=
  let viaIndex (n : Nat) : PRes :=
    match parseIdx k with
    | .ok i => .vals [.bool (match resolveIdx n i with | .ok _ => true | .error _ => false)]
    | .error _ => .vals [.bool false]
  match c with
  | .map m => .vals [.bool (mapGet m k).isSome]
  | .list vs => viaIndex vs.length
  | .str s => viaIndex (byteLen s.toList)
  | .num _ => .vals [.bool false]
  | .bool _ => .vals [.bool false]
  | .nil => .vals [.bool false]
  | _ => .unsup "has-key on a pseudo-map"

/-- "Determine whether `$value` is a value in `$container`": the values of a
map, the elements of a list, the codepoints of a string. -/
def hasValue (c v : Value) : PRes :=
  match c with
  | .map m => .vals [.bool (m.any (fun kv => veq kv.2 v))]
  | .list vs => .vals [.bool (vs.any (fun x => veq x v))]
  | .str s => .vals [.bool (s.toList.any (fun ch => veq (.str (String.singleton ch)) v))]
  | c => if isPseudoMap c then .unsup "has-value on a pseudo-map" else .err Exc.cannotIterate

/-- "Put all keys of `$map` on the structured stdout."  ("There is no
guaranteed order": the reference lists them in insertion order, the generator
only observes them through `order` / `count`.) -/
def keysOf (c : Value) : PRes :=
  match c with
  | .map m => .vals (m.map (·.1))
  | c => if isPseudoMap c then .unsup "keys of a pseudo-map" else .err Exc.cannotIterate

/-- "Output a slightly modified version of `$container`, such that its value
at `$k` is `$v`. Applies to both lists and to maps.  When `$container` is a
list, `$k` may be a negative index. However, slice is not yet supported." -/
def assocB (c k v : Value) : PRes :=
  if isPseudoMap c then .unsup "assoc on a pseudo-map" else liftR (assocValue c k v)

/-- "Output a slightly modified version of `$map`, with the key `$k` removed.
If `$map` does not contain `$k` as a key, the same map is returned." -/
def dissocB (c k : Value) : PRes :=
  match c with
  | .map m => .vals [.map (mapDel m k)]
  | c => if isPseudoMap c then .unsup "dissoc on a pseudo-map" else .err Exc.cannotDissoc

/-- "Outputs a list created from adding values in `$more` to the end of
`$list`. The output is the same as `[$@list $more...]`." -/
def conjB (l : Value) (more : List Value) : PRes :=
  match l with
  | .list vs => .vals [.list (vs ++ more)]
  -- `$nil` where a list is declared: pkg/eval crashes (known finding of C17,
  -- class crash-nil-argument); outside the reference
  | .nil => .unsup "conj $nil: nil argument for a typed parameter"
  | _ => .err Exc.wrongType

/-- `is`: "Determine whether all `$value`s have the same identity. Writes
`$true` when given no or one argument."  ("The definition of identity is
subject to change": defined here only for strings, booleans and `$nil`, where
identity is equality.) -/
def isScalar : Value → Bool
  | .str _ => true
  | .bool _ => true
  | .nil => true
  | _ => false

def isB (args : List Value) : PRes :=
  if args.all isScalar then .vals [.bool (chainV' args)] else .unsup "identity of a non-scalar value"
where
  chainV' : List Value → Bool
    | a :: b :: rest => veq a b && chainV' (b :: rest)
    | _ => true

/-- The builtins that are functions of their arguments alone. -/
def argBuiltin (name : String) (args : List Value) : PRes :=
  match name, args with
  | "has-key", [c, k] => hasKey c k
  | "has-key", _ => .err Exc.arity
  | "has-value", [c, v] => hasValue c v
  | "has-value", _ => .err Exc.arity
  | "keys", [c] => keysOf c
  | "keys", _ => .err Exc.arity
  | "assoc", [c, k, v] => assocB c k v
  | "assoc", _ => .err Exc.arity
  | "dissoc", [c, k] => dissocB c k
  | "dissoc", _ => .err Exc.arity
  | "conj", l :: more => conjB l more
  | "conj", [] => .err Exc.arity
  | "is", args => isB args
  | name, _ => .unsup ("builtin " ++ name)

/-- Names served by `Interp.callPure`. -/
def pureBuiltinNames : List String :=
  ["compact", "make-map", "repeat", "has-value", "keys", "assoc", "dissoc", "conj", "is"]

end C15
