/-
C15 — the static resolver: which programs the reference accepts before
running anything (language.md "Scoping rule": "Elvish resolves all variables
in a code chunk before starting to execute any of it"; "Variable use":
"referencing a nonexistent variable results in a compilation error").

The resolver is deliberately conservative where language.md leaves the
meaning of a program open: a declaration (`var`, `fn`, `del x`, a new `for` /
`catch` variable) is only accepted as a command of its own in the chunk of a
function body or of the top level — not inside an output/exception capture
and not in a pipeline of several commands — so that "declared" and "declared
when control gets here" coincide.  The generator emits only such programs
(plus deliberately ill-scoped ones the resolver must reject like elvish does).
-/
import ElvModel.C15.Interp
namespace C15

/-- Static scope chain: names declared per scope, innermost first; the last
entry is the builtin namespace (read-only). -/
abbrev SScope := List (List String)

def SScope.has (sc : SScope) (x : String) : Bool := sc.any (·.contains x)

/-- `x` can be assigned: it is found in a scope other than the builtin one. -/
def SScope.assignable (sc : SScope) (x : String) : Bool :=
  match sc.find? (·.contains x) with
  | some f => sc.getLast? != some f || sc.dropLast.any (·.contains x)
  | none => false

def SScope.declare (sc : SScope) (x : String) : SScope :=
  match sc with
  | [] => []
  | f :: rest => (x :: f.filter (· != x)) :: rest

def SScope.undeclare (sc : SScope) (x : String) : Option SScope :=
  match sc with
  | [] => none
  | f :: rest => if f.contains x then some (f.filter (· != x) :: rest) else none

def SScope.declareAll (sc : SScope) : List String → SScope
  | [] => sc
  | x :: xs => SScope.declareAll (sc.declare x) xs

def initSScope : SScope := [[], ["true", "false", "nil", "ok"]]

mutual
def rExpr (sc : SScope) : Expr → Bool
  | .lit _ => true
  | .var x => sc.has x
  | .explode x => sc.has x
  | .list es => rExprs sc es
  | .map ks vs => rExprs sc ks && rExprs sc vs
  | .lambda pos rest post optNames optDefaults body =>
    -- every option has a default value (`&opt=default`)
    optNames.length == optDefaults.length && rExprs sc optDefaults &&
      (rChunk ((pos ++ rest.toList ++ post ++ optNames).reverse :: sc) body)
  | .capture c => rChunkNoDecl sc c
  | .excCapture c => rChunkNoDecl sc c
  | .braced es => rExprs sc es
  | .index e idx => rExpr sc e && rExprs sc idx
  | .compound es => rExprs sc es

def rExprs (sc : SScope) : List Expr → Bool
  | [] => true
  | e :: es => rExpr sc e && rExprs sc es

/-- lvalues of `set`/`tmp`: assignable variable, resolvable indices. -/
def rLVals (sc : SScope) : List LVal → Bool
  | [] => true
  | .mk x _ idx :: lvs => sc.assignable x && rExprs sc idx && rLVals sc lvs

/-- lvalues of `del` -/
def rDelLVals (sc : SScope) (decl : Bool) : List LVal → Option SScope
  | [] => some sc
  | .mk x _ idx :: lvs =>
    match idx with
    | [] =>
      if decl then
        match sc.undeclare x with
        | some sc' => rDelLVals sc' decl lvs
        | none => none
      else none
    | _ => if sc.assignable x && rExprs sc idx then rDelLVals sc decl lvs else none

/-- A body block / function body: its own scope on top of `sc` (already pushed by the caller). -/
def rChunk (sc : SScope) : Chunk → Bool
  | .mk ps => (rPipes sc true ps).isSome

/-- Chunk of a capture: same scope, declarations rejected. -/
def rChunkNoDecl (sc : SScope) : Chunk → Bool
  | .mk ps => (rPipes sc false ps).isSome

def rBlock (sc : SScope) : Chunk → Bool
  | .mk ps => (rPipes ([] :: sc) true ps).isSome

def rBlocks (sc : SScope) : List Chunk → Bool
  | [] => true
  | c :: cs => rBlock sc c && rBlocks sc cs

def rOptBlock (sc : SScope) : Option Chunk → Bool
  | none => true
  | some c => rBlock sc c

def rPipes (sc : SScope) (decl : Bool) : List Pipeline → Option SScope
  | [] => some sc
  | .mk [f] :: ps =>
    match rForm sc decl f with
    | some sc' => rPipes sc' decl ps
    | none => none
  | .mk fs :: ps => if rForms sc fs then rPipes sc decl ps else none

/-- commands of a pipeline of several commands: no declarations -/
def rForms (sc : SScope) : List Form → Bool
  | [] => true
  | f :: fs => (rForm sc false f).isSome && rForms sc fs

/-- Resolve one command; the result is the scope after it. `decl`: declarations allowed here. -/
def rForm (sc : SScope) (decl : Bool) : Form → Option SScope
  | .cmd head args _ optVals =>
    let headOk := match head with
      | .lit _ => true   -- an unknown command is an external command, resolved at run time
      | e => rExpr sc e
    if headOk && rExprs sc args && rExprs sc optVals then some sc else none
  | .declare names => if decl then some (sc.declareAll names) else none
  | .assign .var lvs rhs =>
    if decl && rExprs sc rhs && lvs.all (fun lv => lv.idx.isEmpty) &&
        (lvs.filter LVal.rest).length ≤ 1 then
      some (sc.declareAll (lvs.map LVal.name))
    else none
  | .assign k lvs rhs =>
    -- "The `tmp` command can only be used inside a function"
    if (k != .tmp || sc.length > 2) && rLVals sc lvs && rExprs sc rhs &&
        (lvs.filter LVal.rest).length ≤ 1 then some sc else none
  | .del lvs => rDelLVals sc decl lvs
  | .logic _ args => if rExprs sc args then some sc else none
  | .ifF conds bodies els =>
    if conds.length == bodies.length && rExprs sc conds && rBlocks sc bodies && rOptBlock sc els then some sc else none
  | .whileF cond body els =>
    if rExpr sc cond && rBlock sc body && rOptBlock sc els then some sc else none
  | .forF v iter body els =>
    if sc.has v then
      if sc.assignable v && rExpr sc iter && rBlock sc body && rOptBlock sc els then some sc else none
    else if decl then
      let sc' := sc.declare v
      if rExpr sc' iter && rBlock sc' body && rOptBlock sc' els then some sc' else none
    else none
  | .tryF body catchVar catchB elseB fin =>
    -- "Using `else` requires a `catch`"; "at least one of `catch` and `finally` must be present"
    if (elseB.isSome && catchB.isNone) || (catchB.isNone && fin.isNone) || (catchVar.isSome && catchB.isNone) then none
    else if !rBlock sc body then none
    else
      let sc1 : Option SScope := match catchVar with
        | none => some sc
        | some v =>
          if sc.has v then (if sc.assignable v then some sc else none)
          else if decl then some (sc.declare v) else none
      match sc1 with
      | none => none
      | some sc' =>
        if rOptBlock sc' catchB && rOptBlock sc' elseB && rOptBlock sc' fin then some sc' else none
  | .fnF name lam =>
    if decl then
      let sc' := sc.declare (name ++ "~")
      match lam with
      | .lambda pos rest post optNames optDefaults body =>
        if optNames.length == optDefaults.length && rExprs sc' optDefaults &&
            rChunk ((pos ++ rest.toList ++ post ++ optNames).reverse :: sc') body then some sc' else none
      | _ => none
    else none
end

/-- A program is accepted iff it resolves at the top level. -/
def accepts (c : Chunk) : Bool := (rPipes initSScope true c.pipes).isSome

end C15
