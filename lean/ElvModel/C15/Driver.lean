/-
C15 driver: decodes a program (s-expression of the core AST), runs the
resolver and the reference interpreter, prints `<status>|<outputs>`.

op: `prog <mode> <sexp> <hex source>`; the mode field is `ref` (the reference);
`old-element-lvalues` runs `Cfg.staleElem := true` (pkg/eval before commit
798ebe2; not used by the check).
-/
import ElvModel.Go.Basic
import ElvModel.Go.Driver
import ElvModel.C15.Resolve
namespace C15
open Go

inductive Sexp where
  | atom (s : String)
  | node (xs : List Sexp)
  deriving Inhabited

partial def tokenize (cs : List Char) (cur : List Char) (acc : Array String) : Array String :=
  let flush (acc : Array String) := if cur.isEmpty then acc else acc.push (String.ofList cur.reverse)
  match cs with
  | [] => flush acc
  | '(' :: rest => tokenize rest [] ((flush acc).push "(")
  | ')' :: rest => tokenize rest [] ((flush acc).push ")")
  | ' ' :: rest => tokenize rest [] (flush acc)
  | c :: rest => tokenize rest (c :: cur) acc

mutual
partial def parseSexp (toks : Array String) (i : Nat) : Option (Sexp × Nat) :=
  match toks[i]? with
  | none => none
  | some "(" => match parseSexps toks (i + 1) #[] with
    | some (xs, j) => some (.node xs.toList, j)
    | none => none
  | some ")" => none
  | some a => some (.atom a, i + 1)
partial def parseSexps (toks : Array String) (i : Nat) (acc : Array Sexp) : Option (Array Sexp × Nat) :=
  match toks[i]? with
  | none => none
  | some ")" => some (acc, i + 1)
  | some _ => match parseSexp toks i with
    | some (x, j) => parseSexps toks j (acc.push x)
    | none => none
end

def hexStr (s : String) : Option String := do
  let b ← hexDecode s
  String.fromUTF8? (ByteArray.mk b.toArray)

def atomStr : Sexp → Option String
  | .atom a => hexStr a
  | _ => none

def optStr : Sexp → Option (Option String)
  | .atom "~" => some none
  | .atom a => (hexStr a).map some
  | _ => none

def strs : Sexp → Option (List String)
  | .node xs => xs.mapM atomStr
  | _ => none

mutual
partial def dExpr : Sexp → Option Expr
  | .node [.atom "lit", a] => do pure (.lit (← atomStr a))
  | .node [.atom "var", a] => do pure (.var (← atomStr a))
  | .node [.atom "expl", a] => do pure (.explode (← atomStr a))
  | .node (.atom "list" :: es) => do pure (.list (← es.mapM dExpr))
  | .node [.atom "map", .node ks, .node vs] => do pure (.map (← ks.mapM dExpr) (← vs.mapM dExpr))
  | .node [.atom "lam", pos, rest, post, on, .node od, body] => do
    pure (.lambda (← strs pos) (← optStr rest) (← strs post) (← strs on) (← od.mapM dExpr) (← dChunk body))
  | .node [.atom "cap", c] => do pure (.capture (← dChunk c))
  | .node [.atom "exc", c] => do pure (.excCapture (← dChunk c))
  | .node (.atom "br" :: es) => do pure (.braced (← es.mapM dExpr))
  | .node [.atom "idx", e, .node is] => do pure (.index (← dExpr e) (← is.mapM dExpr))
  | .node (.atom "cmp" :: es) => do pure (.compound (← es.mapM dExpr))
  | _ => none
partial def dLVal : Sexp → Option LVal
  | .node [.atom "lv", n, .atom r, .node is] => do pure (.mk (← atomStr n) (r == "1") (← is.mapM dExpr))
  | _ => none
partial def dOptChunk : Sexp → Option (Option Chunk)
  | .atom "~" => some none
  | c => (dChunk c).map some
partial def dForm : Sexp → Option Form
  | .node [.atom "cmd", h, .node args, on, .node ov] => do
    pure (.cmd (← dExpr h) (← args.mapM dExpr) (← strs on) (← ov.mapM dExpr))
  | .node [.atom "decl", ns] => do pure (.declare (← strs ns))
  | .node [.atom "asg", .atom k, .node lvs, .node rhs] => do
    let k ← match k with
      | "var" => some AKind.var
      | "set" => some AKind.set
      | "tmp" => some AKind.tmp
      | _ => none
    pure (.assign k (← lvs.mapM dLVal) (← rhs.mapM dExpr))
  | .node [.atom "del", .node lvs] => do pure (.del (← lvs.mapM dLVal))
  | .node [.atom "logic", .atom k, .node args] => do
    let k ← match k with
      | "and" => some LKind.and
      | "or" => some LKind.or
      | "coalesce" => some LKind.coalesce
      | _ => none
    pure (.logic k (← args.mapM dExpr))
  | .node [.atom "if", .node cs, .node bs, els] => do
    pure (.ifF (← cs.mapM dExpr) (← bs.mapM dChunk) (← dOptChunk els))
  | .node [.atom "while", c, b, els] => do pure (.whileF (← dExpr c) (← dChunk b) (← dOptChunk els))
  | .node [.atom "for", v, it, b, els] => do
    pure (.forF (← atomStr v) (← dExpr it) (← dChunk b) (← dOptChunk els))
  | .node [.atom "try", b, cv, cb, eb, fb] => do
    pure (.tryF (← dChunk b) (← optStr cv) (← dOptChunk cb) (← dOptChunk eb) (← dOptChunk fb))
  | .node [.atom "fn", n, lam] => do pure (.fnF (← atomStr n) (← dExpr lam))
  | _ => none
partial def dPipeline : Sexp → Option Pipeline
  | .node (.atom "pipe" :: fs) => do pure (.mk (← fs.mapM dForm))
  | _ => none
partial def dChunk : Sexp → Option Chunk
  | .node (.atom "chunk" :: ps) => do pure (.mk (← ps.mapM dPipeline))
  | _ => none
end

def decodeProgram (s : String) : Option Chunk :=
  match parseSexp (tokenize s.toList [] #[]) 0 with
  | some (x, _) => dChunk x
  | none => none

def fuel : Nat := 100000

def runLine (mode sexp : String) : String :=
  match decodeProgram sexp with
  | none => "bad-op"
  | some c =>
    if !accepts c then "compile-error|"
    else (runProgram { staleElem := mode == "old-element-lvalues" } fuel c).text

def stepLine : List String → String
  | ["prog", mode, sexp, _src] => runLine mode sexp
  | _ => "bad-op"

def driver : Driver := Driver.pure stepLine
end C15
