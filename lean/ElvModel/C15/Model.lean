/-
C15 model = the reference interpreter (Syntax, Values, Interp) and the static
resolver (Resolve).
-/
import ElvModel.C15.Interp
import ElvModel.C15.Resolve
