import ElvModel.C15.Driver
def main : IO Unit := C15.driver.main
