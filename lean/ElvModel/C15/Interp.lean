/-
C15 — fuel-indexed big-step REFERENCE interpreter of the Elvish core language,
written from `website/ref/language.md` (the section a rule comes from is cited
at the rule) and from the documentation of the builtin commands
(`pkg/eval/*.d.elv`), NOT from the op-tree compiler in pkg/eval.

Shape.  `step rec` gives the meaning of one construct in terms of the
meaning `rec` of its constituents (open recursion: `step` itself is not
recursive); `run (n+1) = step (run n)` and `run 0` is the explicit
out-of-fuel outcome, which nothing can catch.  Fuel bounds the nesting depth
of evaluation (loop iterations and list elements count as nesting).

State.  Variables are storage locations (`heap`); a scope chain maps names to
locations, so closures share — not copy — the variables they close over
(language.md "Closure semantics").  `out` is the value output of the current
output port, `inp` the values still available on the input port.

A pipeline `a | b` is given the sequential reading (run `a`, hand all its
outputs to `b`).  language.md "Pipeline" says the commands run in parallel;
the two readings agree on programs whose commands do not race (no command of
a pipeline observes variables another one assigns, and a command that may
throw is not followed by one that stops reading early) — the generator only
emits such pipelines (notes/C15.md, "determinism of pipelines").

`Cfg.staleElem` exists only to state what pkg/eval did BEFORE commit 798ebe2
("fix: eval: element assignment uses the variable's current value"): with
`true` an lvalue with indices keeps the container it read when the lvalue was
evaluated.  The reference (and the driver, and pkg/eval since that commit) is
`false`: the element is replaced in the value the variable holds at the
moment of the assignment (language.md "set": "creates a new list or map with
the mutation applied, and assigns it to the variable").  See
`C15_unfixed_stale_element_container` and the first two corpus programs.
-/
import ElvModel.C15.Builtins
namespace C15

/-! ### State, outcomes, monad -/

structure St where
  heap : List Value := []
  out : List Value := []
  inp : List Value := []
  scope : Scope := []
  /-- `tmp` restores of the function being executed, newest first: location and saved value -/
  defers : List (Nat × Value) := []
  nextId : Nat := 0

/-- Final outcome of an evaluation. -/
inductive Res (α : Type) where
  | ok (a : α) (s : St)
  | exc (e : Exc) (s : St)
  /-- fuel exhausted (never caught, never produced by a construct) -/
  | oof
  /-- the program left the modelled fragment (inexact number, external command, …) -/
  | unsupported (why : String)

/-! ### What can be evaluated -/

/-- Requests to the evaluator.  Every result is a list of values (effects
return `[]`); `exprsEach` returns one list value per expression. -/
inductive Call where
  | expr (e : Expr)
  | exprs (es : List Expr)
  | exprsEach (es : List Expr)
  | form (f : Form)
  | pipeline (p : Pipeline)
  | pipes (ps : List Pipeline)
  /-- run a chunk as the body of a function: `frame` holds the parameters,
  `env` the scope chain closed over; `isFn`: defined with `fn` -/
  | body (c : Chunk) (frame : Frame) (env : Scope) (isFn : Bool)
  | call (f : Value) (args : List Value) (optNames : List String) (optVals : List Value)
  | logicArgs (k : LKind) (args : List Expr) (last : Value)
  | ifChain (conds : List Expr) (bodies : List Chunk) (els : Option Chunk)
  | whileLoop (cond : Expr) (body : Chunk) (els : Option Chunk) (iterated : Bool)
  | forLoop (addr : Nat) (items : List Value) (body : Chunk) (els : Option Chunk) (iterated : Bool)
  | eachLoop (f : Value) (items : List Value)
  | keepIfLoop (f : Value) (items : List Value)
  | stages (fs : List Form) (input : List Value) (first : Bool) (excs : List Value)
  /-- the pairs of a map literal, as `k1 v1 k2 v2 …` -/
  | mapPairs (ks vs : List Expr)
  /-- the rest of a compound expression: `acc` = the combinations so far -/
  | compoundFrom (acc : List Value) (es : List Expr)

/-- The meaning of one construct as a computation that may ask for the
evaluation of constituents (`call`): a free monad over that one request.
`step` below produces such computations; `interp` answers the requests with
the interpreter of one level less fuel. -/
inductive FM (α : Type) where
  | ret (a : α) (s : St)
  | exc (e : Exc) (s : St)
  | unsupported (why : String)
  /-- evaluate `c` in state `s`, continue with its result (values or exception) and state -/
  | call (c : Call) (s : St) (k : Except Exc (List Value) → St → FM α)

def FM.bind {α β} : FM α → (α → St → FM β) → FM β
  | .ret a s, f => f a s
  | .exc e s, _ => .exc e s
  | .unsupported w, _ => .unsupported w
  | .call c s k, f => .call c s (fun r s' => (k r s').bind f)

/-- An exception becomes a value. -/
def FM.attempt {α} : FM α → FM (Except Exc α)
  | .ret a s => .ret (.ok a) s
  | .exc e s => .ret (.error e) s
  | .unsupported w => .unsupported w
  | .call c s k => .call c s (fun r s' => (k r s').attempt)

def M (α : Type) := St → FM α

@[inline] def M.pure {α} (a : α) : M α := fun s => .ret a s
@[inline] def M.bind {α β} (m : M α) (f : α → M β) : M β := fun s => (m s).bind f

instance : Monad M where
  pure := M.pure
  bind := M.bind

def throwE {α} (e : Exc) : M α := fun s => .exc e s
def unsupported {α} (why : String) : M α := fun _ => .unsupported why
def getSt : M St := fun s => .ret s s
def modifySt (f : St → St) : M Unit := fun s => .ret () (f s)

/-- Ask the evaluator for a constituent. -/
def rec (c : Call) : M (List Value) := fun s =>
  .call c s (fun r s' => match r with
    | .ok vs => .ret vs s'
    | .error e => .exc e s')

/-- Run `m`; an exception becomes a value.  (Out-of-fuel is not an exception:
it arises only in `interp` and ends everything.) -/
def attempt {α} (m : M α) : M (Except Exc α) := fun s => (m s).attempt

def liftE {α} : Except Exc α → M α
  | .ok a => pure a
  | .error e => throwE e

def rethrow {α} : Except Exc α → M α := liftE

structure Cfg where
  /-- `true`: an lvalue with indices keeps the container it read when it was
  evaluated (behaviour of pkg/eval before commit 798ebe2); `false`: the reference. -/
  staleElem : Bool := false

/-! ### Variables and scopes (language.md "Variable", "Scoping rule") -/

def Frame.find (f : Frame) (x : String) : Option Nat :=
  (f.find? (fun p => p.1 == x)).map (·.2)

/-- Look a name up: the current scope, then its parent, and so forth. -/
def Scope.find : Scope → String → Option Nat
  | [], _ => none
  | f :: rest, x => match Frame.find f x with
    | some a => some a
    | none => Scope.find rest x

def Exc.varNotFound : Exc := ⟨"variable-not-found", []⟩

def lookupVar (x : String) : M Nat := fun s =>
  match s.scope.find x with
  | some a => .ret a s
  | none => .exc Exc.varNotFound s

def readAddr (a : Nat) : M Value := fun s =>
  match s.heap[a]? with
  | some v => .ret v s
  | none => .unsupported "dangling variable location"

def writeAddr (a : Nat) (v : Value) : M Unit :=
  modifySt fun s => { s with heap := s.heap.set a v }

def getVar (x : String) : M Value := do readAddr (← lookupVar x)

/-- Declare `x` in the current (innermost) scope with initial value `v`; a
variable of the same name declared earlier in the same scope is shadowed
(language.md "var").  Returns the new location. -/
def declare (x : String) (v : Value) : M Nat := fun s =>
  match s.scope with
  | [] => .unsupported "no scope"
  | f :: rest =>
    let a := s.heap.length
    .ret a { s with heap := s.heap ++ [v], scope := ((x, a) :: f.filter (fun p => p.1 != x)) :: rest }

/-- `del x`: remove the name from the current scope (language.md "del": "it
only removes the name"). -/
def undeclare (x : String) : M Unit := fun s =>
  match s.scope with
  | [] => .unsupported "no scope"
  | f :: rest =>
    match Frame.find f x with
    | some _ => .ret () { s with scope := f.filter (fun p => p.1 != x) :: rest }
    | none => .exc Exc.varNotFound s

def emit (vs : List Value) : M Unit := modifySt fun s => { s with out := s.out ++ vs }

/-- Take all values from the input port. -/
def takeInput : M (List Value) := fun s => .ret s.inp { s with inp := [] }

def freshId : M Nat := fun s => .ret s.nextId { s with nextId := s.nextId + 1 }

/-- The single value of an expression that must evaluate to exactly one value. -/
def one (vs : List Value) : M Value :=
  match vs with
  | [v] => pure v
  | _ => throwE Exc.arity

def unwrapList : Value → List Value
  | .list vs => vs
  | v => [v]

/-- Exactly one value from each part (parts are wrapped as lists by `Call.exprsEach`). -/
def oneEach : List Value → M (List Value)
  | [] => pure []
  | p :: ps => do
    let v ← one (unwrapList p)
    let vs ← oneEach ps
    pure (v :: vs)

/-- References produced by evaluating an lvalue: the location of the variable,
the index values, and the value the variable held when the lvalue was evaluated. -/
structure Ref where
  addr : Nat
  idx : List Value
  snapshot : Value



/-- A control-flow body `{ ... }` is a function without parameters closing
over the current scope (language.md "if": "the body blocks introduce new
scopes because they are lambdas"). -/
def runBlock (c : Chunk) : M Unit := do
  let s ← getSt
  let _ ← rec (.body c [] s.scope false)

def runOptBlock : Option Chunk → M Unit
  | some c => runBlock c
  | none => pure ()

/-! ### Expressions (language.md "Expressions") -/

def interleave {α} : List α → List α → List α
  | a :: as, b :: bs => a :: b :: interleave as bs
  | _, _ => []

def uninterleave {α} : List α → List α × List α
  | a :: b :: rest => let (x, y) := uninterleave rest; (a :: x, b :: y)
  | _ => ([], [])

def indexAll (cs idx : List Value) : Except Exc (List Value) :=
  cs.foldlM (fun acc c => do
    let row ← idx.mapM (fun i => indexValue c i)
    pure (acc ++ row)) []

def evalExpr : Expr → M (List Value)
  -- "Literal"
  | .lit s => pure [.str s]
  -- "Variable use"
  | .var x => do pure [← getVar x]
  | .explode x => do liftE (elements (← getVar x))
  | .list es => do pure [.list (← rec (.exprs es))]
  | .map ks vs => do
    -- pairs left to right, each key before its value
    let kv ← rec (.mapPairs ks vs)
    let (k, v) := uninterleave kv
    pure [.map (mapOfPairs k v)]
  -- "Function": a function literal evaluates to a new function closing over the current scope
  | .lambda pos rest post optNames optDefaults body => do
    let defs ← oneEach (← rec (.exprsEach optDefaults))
    let id ← freshId
    let s ← getSt
    pure [.closure id pos rest post optNames defs body s.scope false]
  -- "Output capture": the output of the chunk becomes the values; no new scope
  | .capture c => do
    let s ← getSt
    modifySt fun s => { s with out := [] }
    let r ← attempt (rec (.pipes c.pipes))
    let s' ← getSt
    modifySt fun t => { t with out := s.out }
    let _ ← rethrow r
    pure s'.out
  -- "Exception capture": `$ok` or the exception; output is not affected
  | .excCapture c => do
    match ← attempt (rec (.pipes c.pipes)) with
    | .ok _ => pure [.ok]
    | .error e => pure [e.toValue]
  -- "Braced list"
  | .braced es => rec (.exprs es)
  -- "Indexing": every indexee value with every index value, first indexee first
  | .index e idx => do
    let cs ← rec (.expr e)
    let is ← rec (.exprs idx)
    if cs.any (fun c => is.any (pseudoField c)) then unsupported "field of a pseudo-map"
    liftE (indexAll cs is)
  -- "Compounding": the values of the first part, combined with those of each further part in turn
  | .compound [] => pure []
  | .compound (e :: es) => do
    let vs ← rec (.expr e)
    rec (.compoundFrom vs es)

/-! ### Assignment (language.md "var", "set", "tmp", "del") -/

/-- One index value per bracket pair of an lvalue. -/
def evalIdx : List Expr → M (List Value)
  | [] => pure []
  | e :: es => do
    let v ← one (← rec (.expr e))
    let vs ← evalIdx es
    pure (v :: vs)

/-- The values reached by following all indices but the last must exist. -/
def checkPath (c : Value) : List Value → Except Exc Unit
  | [] => .ok ()
  | [_] => .ok ()
  | i :: is => do checkPath (← indexValue c i) is

def derefLVal (lv : LVal) : M Ref := do
  let a ← lookupVar lv.name
  let idx ← evalIdx lv.idx
  let v ← readAddr a
  liftE (checkPath v idx)
  pure { addr := a, idx := idx, snapshot := v }

def derefLVals : List LVal → M (List Ref)
  | [] => pure []
  | lv :: lvs => do
    let r ← derefLVal lv
    let rs ← derefLVals lvs
    pure (r :: rs)

/-- Distribute values over lvalues; at most one lvalue is a rest variable and
takes a list of the surplus (language.md "set"). -/
def distribute (rests : List Bool) (vals : List Value) : Except Exc (List Value) :=
  let n := rests.length
  match rests.findIdx? id with
  | none => if vals.length == n then .ok vals else .error Exc.arity
  | some r =>
    if vals.length + 1 < n then .error Exc.arity
    else
      let k := vals.length + 1 - n
      .ok (vals.take r ++ [.list ((vals.drop r).take k)] ++ vals.drop (r + k))

def assignRef (cfg : Cfg) (tmp : Bool) (r : Ref) (v : Value) : M Unit := do
  let cur ← readAddr r.addr
  let base := if cfg.staleElem then r.snapshot else cur
  let new ← liftE (assocPath base r.idx v)
  writeAddr r.addr new
  -- `tmp` saves the value the variable holds just before it is assigned
  if tmp then modifySt fun s => { s with defers := (r.addr, cur) :: s.defers }

def assignRefs (cfg : Cfg) (tmp : Bool) : List Ref → List Value → M Unit
  | r :: rs, v :: vs => do assignRef cfg tmp r v; assignRefs cfg tmp rs vs
  | _, _ => pure ()

def declareAll : List String → List Value → M Unit
  | x :: xs, v :: vs => do let _ ← declare x v; declareAll xs vs
  | _, _ => pure ()

def delLVal (lv : LVal) : M Unit := do
  match lv.idx with
  | [] => undeclare lv.name
  | _ => do
    let a ← lookupVar lv.name
    let idx ← evalIdx lv.idx
    let v ← readAddr a
    writeAddr a (← liftE (dissocPath v idx))

def delLVals : List LVal → M Unit
  | [] => pure ()
  | lv :: lvs => do delLVal lv; delLVals lvs

/-! ### Builtin commands -/

def builtinNames : List String :=
  ["put", "nop", "fail", "break", "continue", "return", "num", "+", "-", "*", "/", "%",
   "<", "<=", "==", "!=", ">", ">=", "eq", "not-eq", "not", "bool", "each", "all", "take", "drop",
   "count", "one", "range", "order", "keep-if", "has-key", "kind-of"] ++ pureBuiltinNames

/-- Numbers from argument values (typed numbers or their string representation). -/
def numArgs : List Value → M (List Rat)
  | [] => pure []
  | v :: vs => do
    match toNum v with
    | .num q => do pure (q :: (← numArgs vs))
    | .notNum => throwE Exc.wrongType
    | .unsupported => unsupported "number outside the exact fragment"

/-- An argument that must be an integer (machine `int` in the documentation). -/
def intArg (v : Value) : M Int :=
  match v with
  | .num q => if q.den == 1 then pure q.num else throwE Exc.wrongType
  | .str s => match parseNum s with
    | .num q => if q.den == 1 then pure q.num else throwE Exc.wrongType
    | .notNum => throwE Exc.wrongType
    | .unsupported => if (parseU (stripSign s.toList).2 matches .floatish) then throwE Exc.wrongType
        else unsupported "integer outside the modelled syntax"
  | _ => throwE Exc.wrongType

def chain (rel : Rat → Rat → Bool) : List Rat → Bool
  | a :: b :: rest => rel a b && chain rel (b :: rest)
  | _ => true

def chainV (rel : Value → Value → Bool) : List Value → Bool
  | a :: b :: rest => rel a b && chainV rel (b :: rest)
  | _ => true

/-- `range`: from `a` towards `b` (exclusive), counting up when `a ≤ b` and
down otherwise; fuel-free because the number of steps is computed. -/
def rangeVals (a b step : Rat) : List Value :=
  if step == 0 then [] else
  let n : Int := ((b - a) / step).ceil
  (List.range n.toNat).map (fun (i : Nat) => .num (a + step * ((i : Int) : Rat)))

def kindOf : Value → String
  | .str _ => "string"
  | .num _ => "number"
  | .bool _ => "bool"
  | .nil => "nil"
  | .ok => "exception"
  | .list _ => "list"
  | .map _ => "map"
  | .closure .. => "fn"
  | .builtin _ => "fn"
  | .exc _ _ => "exception"

/-- Order for `order`: all strings (bytewise) or all numbers. -/
def orderVals (rev : Bool) (vs : List Value) : M (List Value) :=
  let strs := vs.filterMap (fun v => match v with | .str s => some s | _ => none)
  let nums := vs.filterMap (fun v => match v with | .num q => some q | _ => none)
  let fin (l : List Value) := if rev then l.reverse else l
  if strs.length == vs.length then pure (fin ((stableSort (fun a b => a < b) strs).map .str))
  else if nums.length == vs.length then pure (fin ((stableSort (fun a b => a < b) nums).map .num))
  else if strs.length + nums.length == vs.length then throwE Exc.uncomparable
  else unsupported "order of values other than strings and numbers"

/-- Input of a value-stream command: the optional last argument, or the input port. -/
def inputsOf : List Value → M (List Value)
  | [] => takeInput
  | [v] => liftE (elements v)
  | _ => throwE Exc.arity

def isCallable : Value → Bool
  | .closure .. => true
  | .builtin _ => true
  | _ => false

def noOpts (optNames : List String) : M Unit :=
  if optNames.isEmpty then pure () else throwE Exc.badOption

def liftP : PRes → M (List Value)
  | .vals vs => pure vs
  | .err e => throwE e
  | .unsup w => unsupported w

/-- The pure builtins of `Builtins.lean`: none takes options; `compact` and
`make-map` read "value inputs" (the optional last argument, or the input
port); `repeat n v`: "Output `$value` for `$n` times"; the others are
functions of their arguments. -/
def callPure (name : String) (args : List Value) (optNames : List String) : M Unit := do
  noOpts optNames
  match name with
  | "compact" => do emit (compact (← inputsOf args))
  | "make-map" => do emit (← liftP (makeMap (← inputsOf args)))
  | "repeat" =>
    match args with
    | [n, v] => do
      let n ← intArg n
      emit (List.replicate n.toNat v)
    | _ => throwE Exc.arity
  | _ => do emit (← liftP (argBuiltin name args))

/-- How many arguments a builtin command takes.  (The documentation gives the
signatures; that a wrong number of arguments is reported before an option the
command does not take, and both before a wrong kind of argument, is pkg/eval's
order — the documentation is silent.) -/
def arityOk (name : String) (n : Nat) : Bool :=
  if ["fail", "num", "not", "bool", "keys"].contains name then n == 1
  else if ["break", "continue", "return"].contains name then n == 0
  else if ["%", "!=", "not-eq", "has-key", "has-value", "dissoc", "repeat"].contains name then n == 2
  else if name == "assoc" then n == 3
  else if ["all", "one", "order", "compact", "make-map"].contains name then n ≤ 1
  else if ["take", "drop", "each", "keep-if"].contains name then n == 1 || n == 2
  else if name == "conj" then n ≥ 1
  else true

def precheck (name : String) (args : List Value) (optNames : List String) : M Unit :=
  if !arityOk name args.length then throwE Exc.arity
  else if !(["nop", "range", "order"].contains name) && !optNames.isEmpty then throwE Exc.badOption
  else pure ()

def callBuiltinBody (name : String) (args : List Value) (optNames : List String)
    (optVals : List Value) : M Unit := do
  match name with
  | "put" => do noOpts optNames; emit args
  | "nop" => pure ()
  | "fail" => do
    noOpts optNames
    match args with
    | [.exc k p] => throwE ⟨k, p⟩      -- "fail": an exception argument is rethrown as is
    | [v] => throwE (Exc.fail v)
    | _ => throwE Exc.arity
  | "break" => do noOpts optNames; if args.isEmpty then throwE Exc.brk else throwE Exc.arity
  | "continue" => do noOpts optNames; if args.isEmpty then throwE Exc.cont else throwE Exc.arity
  | "return" => do noOpts optNames; if args.isEmpty then throwE Exc.ret else throwE Exc.arity
  | "num" => do
    noOpts optNames
    match args with
    | [v] => do let qs ← numArgs [v]; emit (qs.map .num)
    | _ => throwE Exc.arity
  | "+" => do noOpts optNames; emit [.num ((← numArgs args).foldl (· + ·) 0)]
  | "*" => do noOpts optNames; emit [.num ((← numArgs args).foldl (· * ·) 1)]
  | "-" => do
    noOpts optNames
    match ← numArgs args with
    | [] => throwE Exc.arity
    | [a] => emit [.num (-a)]
    | a :: rest => emit [.num (rest.foldl (· - ·) a)]
  | "/" => do
    noOpts optNames
    match ← numArgs args with
    | [] => unsupported "/ without arguments changes directory"
    | [a] => if a == 0 then throwE Exc.badValue else emit [.num (1 / a)]
    | a :: rest => if rest.any (· == 0) then throwE Exc.badValue else emit [.num (rest.foldl (· / ·) a)]
  | "%" => do
    noOpts optNames
    match args with
    | [a, b] => do
      let qs ← numArgs [a, b]
      match qs with
      | [x, y] =>
        if x.den != 1 || y.den != 1 then throwE Exc.badValue
        else if y == 0 then throwE Exc.badValue
        else emit [.num (Int.tmod x.num y.num : Int)]
      | _ => throwE Exc.arity
    | _ => throwE Exc.arity
  | "<" => do noOpts optNames; emit [.bool (chain (· < ·) (← numArgs args))]
  | "<=" => do noOpts optNames; emit [.bool (chain (· ≤ ·) (← numArgs args))]
  | "==" => do noOpts optNames; emit [.bool (chain (· == ·) (← numArgs args))]
  | "!=" => do
    noOpts optNames
    if args.length != 2 then throwE Exc.arity
    emit [.bool (chain (· != ·) (← numArgs args))]
  | ">" => do noOpts optNames; emit [.bool (chain (· > ·) (← numArgs args))]
  | ">=" => do noOpts optNames; emit [.bool (chain (· ≥ ·) (← numArgs args))]
  | "eq" => do noOpts optNames; emit [.bool (chainV veq args)]
  | "not-eq" => do
    noOpts optNames
    match args with
    | [a, b] => emit [.bool (!veq a b)]
    | _ => throwE Exc.arity
  | "not" => do
    noOpts optNames
    match args with
    | [v] => emit [.bool (!truthy v)]
    | _ => throwE Exc.arity
  | "bool" => do
    noOpts optNames
    match args with
    | [v] => emit [.bool (truthy v)]
    | _ => throwE Exc.arity
  | "kind-of" => do noOpts optNames; emit (args.map (fun v => .str (kindOf v)))
  | "all" => do noOpts optNames; emit (← inputsOf args)
  | "one" => do
    noOpts optNames
    let vs ← inputsOf args
    match vs with
    | [v] => emit [v]
    | _ => throwE Exc.arity
  | "take" => do
    noOpts optNames
    match args with
    | n :: rest => do
      let n ← intArg n
      let vs ← inputsOf rest
      emit (vs.take n.toNat)
    | [] => throwE Exc.arity
  | "drop" => do
    noOpts optNames
    match args with
    | n :: rest => do
      let n ← intArg n
      let vs ← inputsOf rest
      emit (vs.drop n.toNat)
    | [] => throwE Exc.arity
  | "count" => do
    noOpts optNames
    match args with
    | [] => do let vs ← takeInput; emit [.num (vs.length : Int)]
    | [v] => do emit [.num ((← liftE (lengthOf v)) : Int)]
    | _ => throwE Exc.arity
  | "range" => do
    let step ← match optNames, optVals with
      | [], _ => pure none
      | ["step"], [v] => do
        match ← numArgs [v] with
        | [q] => pure (some q)
        | _ => throwE Exc.arity
      | _, _ => throwE Exc.badOption
    let (a, b) ← match ← numArgs args with
      | [b] => pure ((0 : Rat), b)
      | [a, b] => pure (a, b)
      | _ => throwE Exc.arity
    if a ≤ b then
      match step with
      | some st => if st ≤ 0 then throwE Exc.badValue else emit (rangeVals a b st)
      | none => emit (rangeVals a b 1)
    else
      match step with
      | some st => if st ≥ 0 then throwE Exc.badValue else emit (rangeVals a b st)
      | none => emit (rangeVals a b (-1))
  | "order" => do
    let rev ← match optNames, optVals with
      | [], _ => pure false
      | ["reverse"], [v] => pure (truthy v)
      | _, _ => throwE Exc.badOption
    emit (← orderVals rev (← inputsOf args))
  | "each" => do
    noOpts optNames
    match args with
    | f :: rest =>
      if !isCallable f then throwE Exc.wrongType else do
      let vs ← inputsOf rest
      let _ ← rec (.eachLoop f vs)
    | [] => throwE Exc.arity
  | "keep-if" => do
    noOpts optNames
    match args with
    | f :: rest =>
      if !isCallable f then throwE Exc.wrongType else do
      let vs ← inputsOf rest
      let _ ← rec (.keepIfLoop f vs)
    | [] => throwE Exc.arity
  | _ => callPure name args optNames

def callBuiltin (name : String) (args : List Value) (optNames : List String)
    (optVals : List Value) : M Unit := do
  precheck name args optNames
  callBuiltinBody name args optNames optVals

/-! ### Function calls (language.md "Function", "fn", "tmp") -/

/-- Bind parameters: allocate one location per parameter. -/
def bindParams : List String → List Value → M Frame
  | x :: xs, v :: vs => do
    let s ← getSt
    let a := s.heap.length
    modifySt fun s => { s with heap := s.heap ++ [v] }
    let f ← bindParams xs vs
    pure ((x, a) :: f)
  | _, _ => pure []

/-- Value of each declared option: the supplied one (the last, if repeated) or the default. -/
def optValues (names : List String) (defaults : List Value) (gotNames : List String)
    (gotVals : List Value) : List Value :=
  (names.zip defaults).map fun (n, d) =>
    match ((gotNames.zip gotVals).reverse.find? (fun p => p.1 == n)) with
    | some p => p.2
    | none => d

/-- Run the `tmp` restores of the finished function, newest first (language.md "tmp"). -/
def runDefers : List (Nat × Value) → M Unit
  | [] => pure ()
  | (a, v) :: rest => do writeAddr a v; runDefers rest

def callValue (f : Value) (args : List Value) (optNames : List String)
    (optVals : List Value) : M Unit :=
  match f with
  | .builtin name => callBuiltin name args optNames optVals
  | .closure _ pos rest post onames odefs body env isFn => do
    -- "too few arguments, too many arguments or unknown options, an exception is thrown"
    let fixed := pos.length + post.length
    if (rest.isNone && args.length != fixed) || args.length < fixed then throwE Exc.arity
    if optNames.any (fun n => !onames.contains n) then throwE Exc.badOption
    let k := args.length - fixed
    let restVals : List Value := match rest with
      | some _ => [.list ((args.drop pos.length).take k)]
      | none => []
    let names := pos ++ rest.toList ++ post ++ onames
    let vals := args.take pos.length ++ restVals ++ args.drop (pos.length + k) ++
      optValues onames odefs optNames optVals
    let frame ← bindParams names vals
    let _ ← rec (.body body frame env isFn)
  | _ => throwE Exc.badValue

/-- The body of a function: a new scope holding the parameters on top of the
closed-over chain; `tmp` restores run when it finishes; a function defined
with `fn` "captures" `return`; afterwards the caller's scope is current again. -/
def runBody (c : Chunk) (frame : Frame) (env : Scope) (isFn : Bool) : M Unit := do
  let s ← getSt
  modifySt fun t => { t with scope := frame :: env, defers := [] }
  let r ← attempt (rec (.pipes c.pipes))
  let t ← getSt
  runDefers t.defers
  modifySt fun t => { t with scope := s.scope, defers := s.defers }
  match r with
  | .ok _ => pure ()
  | .error e => if isFn && e.kind == "return" then pure () else throwE e

/-! ### Command forms (language.md "Command forms", "Special commands") -/

def resolveHead (head : Expr) : M Value := do
  match head with
  | .lit name => do
    -- "Ordinary command": static resolution of a literal head to `$name~`
    let s ← getSt
    match s.scope.find (name ++ "~") with
    | some a => readAddr a
    | none =>
      if builtinNames.contains name then pure (.builtin name)
      else unsupported ("external command " ++ name)
  | e => do
    let v ← one (← rec (.expr e))
    if isCallable v then pure v else throwE Exc.badValue

/-- The location of the exception variable of a `try`: the variable exists
after the try-block (declared in the current scope unless it exists already). -/
def catchVarAddr : Option String → M (Option Nat)
  | none => pure none
  | some v => do
    let s ← getSt
    match s.scope.find v with
    | some a => pure (some a)
    | none => do
      let a ← declare v .nil
      pure (some a)

def storeCaught : Option Nat → Exc → M Unit
  | some a, e => writeAddr a e.toValue
  | none, _ => pure ()

/-- `try { body } catch v { cb } else { eb }` up to (not including) the
finally-block: the result is the pending outcome — `ok`, or the exception that
will be rethrown after the finally-block (language.md "try", steps 1–3). -/
def tryProtected (body : Chunk) (catchVar : Option String) (catchB elseB : Option Chunk) :
    M (Except Exc Unit) := do
  -- 1. the try-block is always executed first
  let r ← attempt (runBlock body)
  let cv ← catchVarAddr catchVar
  match r, catchB, elseB with
  -- 2. if `catch` is present the exception is caught, stored, and the catch-block executed
  | .error e, some cb, _ => do
    storeCaught cv e
    attempt (runBlock cb)
  | .error e, none, _ => pure (.error e)
  -- 3. if no exception occurs and `else` is present, the else-block is executed
  | .ok _, _, some eb => attempt (runBlock eb)
  | .ok _, _, none => pure (.ok ())

def evalForm (cfg : Cfg) : Form → M Unit
  | .cmd head args optNames optVals => do
    let f ← resolveHead head
    let a ← rec (.exprs args)
    let o ← oneEach (← rec (.exprsEach optVals))
    let _ ← rec (.call f a optNames o)
  -- "var": variables start out as `$nil`
  | .declare names => declareAll names (names.map fun _ => .nil)
  | .assign .var lvs rhs => do
    -- "If the right-hand-side references the variable being shadowed, it sees the old variable"
    let vs ← rec (.exprs rhs)
    let vals ← liftE (distribute (lvs.map LVal.rest) vs)
    declareAll (lvs.map LVal.name) vals
  | .assign k lvs rhs => do
    let refs ← derefLVals lvs
    let vs ← rec (.exprs rhs)
    let vals ← liftE (distribute (lvs.map LVal.rest) vs)
    assignRefs cfg (k == .tmp) refs vals
  | .del lvs => delLVals lvs
  | .logic k args => do
    let init : Value := match k with
      | .and => .bool true
      | .or => .bool false
      | .coalesce => .nil
    let _ ← rec (.logicArgs k args init)
  | .ifF conds bodies els => do let _ ← rec (.ifChain conds bodies els)
  | .whileF cond body els => do let _ ← rec (.whileLoop cond body els false)
  | .forF v iter body els => do
    -- the variable is assigned if it exists, declared in the current scope otherwise
    let s ← getSt
    let a ← match s.scope.find v with
      | some a => pure a
      | none => declare v .nil
    let c ← one (← rec (.expr iter))
    let items ← liftE (elements c)
    let _ ← rec (.forLoop a items body els false)
  -- "try"
  | .tryF body catchVar catchB elseB fin => do
    let pending ← tryProtected body catchVar catchB elseB
    -- 4. if the finally-block is present, it is executed
    match fin with
    | some fb => do
      runBlock fb      -- an exception of the finally-block replaces the pending one
      -- 5. if the exception was not caught, it is rethrown
      rethrow pending
    | none => rethrow pending
  -- "fn": defines `$name~`; the body may refer to the function being defined
  | .fnF name lam => do
    let a ← declare (name ++ "~") (.builtin "nop")
    let v ← one (← rec (.expr lam))
    match v with
    | .closure id pos rest post on od body env _ => writeAddr a (.closure id pos rest post on od body env true)
    | _ => unsupported "fn with a non-lambda"

/-! ### Pipelines (language.md "Pipeline", "Pipeline exception") -/

def excOf : Except Exc (List Value) → Value
  | .ok _ => .ok
  | .error e => e.toValue

/-- "If only one command has thrown an exception, that exception is rethrown;
if more than one, a composite exception is thrown." -/
def pipelineResult (excs : List Value) : M Unit :=
  match excs.filter (fun v => !(v matches .ok)) with
  | [] => pure ()
  | [.exc k p] => throwE ⟨k, p⟩
  | _ => throwE ⟨"pipeline", excs⟩

/-- The value at which a logic command stops (language.md "and, or, coalesce"):
`and` at the first booleanly false value, `or` at the first booleanly true
one, `coalesce` at the first non-nil one. -/
def logicStop : LKind → Value → Bool
  | .and, v => !truthy v
  | .or, v => truthy v
  | .coalesce, .nil => false
  | .coalesce, _ => true

/-! ### The step function -/

def step (cfg : Cfg) : Call → M (List Value)
  | .expr e => evalExpr e
  -- values of several expressions, left to right
  | .exprs [] => pure []
  | .exprs (e :: es) => do
    let a ← rec (.expr e)
    let b ← rec (.exprs es)
    pure (a ++ b)
  | .exprsEach [] => pure []
  | .exprsEach (e :: es) => do
    let a ← rec (.expr e)
    let b ← rec (.exprsEach es)
    pure (.list a :: b)
  -- one pair of a map literal; a pair stands for several pairs when key and
  -- value evaluate to equally many values
  | .mapPairs (k :: ks) (v :: vs) => do
    let kvals ← rec (.expr k)
    let vvals ← rec (.expr v)
    if kvals.length != vvals.length then throwE Exc.arity
    let rest ← rec (.mapPairs ks vs)
    pure (interleave kvals vvals ++ rest)
  | .mapPairs _ _ => pure []
  -- a further part of a compound expression: all combinations with the values so far
  -- (a part is combined as soon as it is evaluated; language.md "Compounding")
  | .compoundFrom acc [] => pure acc
  | .compoundFrom acc (e :: es) => do
    let us ← rec (.expr e)
    let acc' ← liftE (outer acc us)
    rec (.compoundFrom acc' es)
  | .form f => do evalForm cfg f; pure []
  -- a pipeline of one command is that command
  | .pipeline (.mk [f]) => rec (.form f)
  | .pipeline (.mk fs) => do
    let s ← getSt
    rec (.stages fs s.inp true [])
  -- "Code Chunk": pipelines are executed in sequence; an exception stops the chunk
  | .pipes [] => pure []
  | .pipes (p :: ps) => do
    let _ ← rec (.pipeline p)
    rec (.pipes ps)
  | .body c frame env isFn => do runBody c frame env isFn; pure []
  | .call f args optNames optVals => do callValue f args optNames optVals; pure []
  -- "and", "or", "coalesce": short-circuit over the values of the arguments
  | .logicArgs _ [] last => do emit [last]; pure []
  | .logicArgs k (e :: es) last => do
    let vs ← rec (.expr e)
    match vs.find? (logicStop k) with
    | some v => do emit [v]; pure []
    | none =>
      let last' := match k, vs.getLast? with
        | .coalesce, _ => last
        | _, some v => v
        | _, none => last
      rec (.logicArgs k es last')
  -- "if": conditions one by one; several values are and'ed
  | .ifChain (c :: cs) (b :: bs) els => do
    let vs ← rec (.expr c)
    if allTrue vs then do runBlock b; pure []
    else rec (.ifChain cs bs els)
  | .ifChain _ _ els => do runOptBlock els; pure []
  -- "while"
  | .whileLoop cond body els iterated => do
    let vs ← rec (.expr cond)
    if allTrue vs then do
      match ← attempt (runBlock body) with
      | .ok _ => rec (.whileLoop cond body els true)
      | .error e =>
        if e.kind == "continue" then rec (.whileLoop cond body els true)
        else if e.kind == "break" then pure []
        else throwE e
    else do
      if !iterated then runOptBlock els
      pure []
  -- "for"
  | .forLoop _ [] _ els iterated => do
    if !iterated then runOptBlock els
    pure []
  | .forLoop a (v :: vs) body els _ => do
    writeAddr a v
    match ← attempt (runBlock body) with
    | .ok _ => rec (.forLoop a vs body els true)
    | .error e =>
      if e.kind == "continue" then rec (.forLoop a vs body els true)
      else if e.kind == "break" then pure []
      else throwE e
  -- `each`: call the function with every value; `break`/`continue` are captured
  | .eachLoop _ [] => pure []
  | .eachLoop f (v :: vs) => do
    match ← attempt (rec (.call f [v] [] [])) with
    | .ok _ => rec (.eachLoop f vs)
    | .error e =>
      if e.kind == "continue" then rec (.eachLoop f vs)
      else if e.kind == "break" then pure []
      else throwE e
  -- `keep-if`: the function must output exactly one boolean
  | .keepIfLoop _ [] => pure []
  | .keepIfLoop f (v :: vs) => do
    let s ← getSt
    modifySt fun s => { s with out := [] }
    let r ← attempt (rec (.call f [v] [] []))
    let s' ← getSt
    modifySt fun t => { t with out := s.out }
    let _ ← rethrow r
    match s'.out with
    | [.bool b] => do
      if b then emit [v]
      rec (.keepIfLoop f vs)
    | [_] => throwE Exc.badValue
    | _ => throwE Exc.arity
  -- pipeline of several commands, sequential reading
  | .stages [] _ _ excs => do pipelineResult excs; pure []
  | .stages (f :: fs) input first excs => do
    let s ← getSt
    let isLast := fs.isEmpty
    modifySt fun t => { t with inp := if first then t.inp else input, out := if isLast then t.out else [] }
    let r ← attempt (rec (.form f))
    let t ← getSt
    -- what the command did not read is discarded; the outer ports are current again
    modifySt fun u => { u with inp := if first then u.inp else s.inp, out := if isLast then u.out else s.out }
    rec (.stages fs t.out false (excs ++ [excOf r]))

/-- Answer the requests of a computation with `ev`. -/
def interp {α} (ev : Call → St → Res (List Value)) : FM α → Res α
  | .ret a s => .ok a s
  | .exc e s => .exc e s
  | .unsupported w => .unsupported w
  | .call c s k =>
    match ev c s with
    | .ok vs s' => interp ev (k (.ok vs) s')
    | .exc e s' => interp ev (k (.error e) s')
    | .oof => .oof
    | .unsupported w => .unsupported w

/-- The interpreter: `n` levels of nesting; `run 0` is out of fuel. -/
def run (cfg : Cfg) : Nat → Call → St → Res (List Value)
  | 0, _, _ => .oof
  | n + 1, c, s => interp (run cfg n) (step cfg c s)

/-! ### Programs -/

/-- The builtin namespace as the outermost scope: `$true $false $nil $ok`. -/
def initSt : St :=
  { heap := [.bool true, .bool false, .nil, .ok],
    scope := [[], [("true", 0), ("false", 1), ("nil", 2), ("ok", 3)]] }

/-- Outcome of a whole program: outputs and `ok` or the exception. -/
inductive Outcome where
  | done (outputs : List Value) (exc : Option Exc)
  | oof
  | unsupported (why : String)

/-- `<status>|<outputs>`: what the driver prints and the harness compares. -/
def Outcome.text : Outcome → String
  | .done outs none => "ok|" ++ " ".intercalate (vreprList outs)
  | .done outs (some e) => e.repr ++ "|" ++ " ".intercalate (vreprList outs)
  | .oof => "FUEL"
  | .unsupported w => "UNSUPPORTED " ++ w

def runProgram (cfg : Cfg) (fuel : Nat) (c : Chunk) : Outcome :=
  match run cfg fuel (.pipes c.pipes) initSt with
  | .ok _ s => .done s.out none
  | .exc e s => .done s.out (some e)
  | .oof => .oof
  | .unsupported w => .unsupported w

end C15
