/-
C15 reference interpreter — abstract syntax and values of the core language.

Written from `website/ref/language.md` (sections are cited where a
constructor is defined).  Core Lean only.
-/
namespace C15

/-! ### Abstract syntax (language.md "Expressions", "Command forms",
"Special commands", "Pipeline", "Code Chunk") -/

/-- Which assignment command (`var` / `set` / `tmp`). -/
inductive AKind where
  | var | set | tmp
  deriving DecidableEq, Repr, Inhabited

/-- Which logic command. -/
inductive LKind where
  | and | or | coalesce
  deriving DecidableEq, Repr, Inhabited

mutual
/-- Expressions; each evaluates to any number of values. -/
inductive Expr where
  /-- string literal: bareword, single- or double-quoted (all equivalent) -/
  | lit (s : String)
  /-- variable use `$name` -/
  | var (name : String)
  /-- exploded variable use `$@name` -/
  | explode (name : String)
  /-- list literal `[e ...]` -/
  | list (es : List Expr)
  /-- map literal `[&k=v ...]`; `ks` and `vs` have the same length -/
  | map (ks : List Expr) (vs : List Expr)
  /-- function literal `{|pos.. @rest post.. &opt=default..| body }` -/
  | lambda (pos : List String) (rest : Option String) (post : List String)
      (optNames : List String) (optDefaults : List Expr) (body : Chunk)
  /-- output capture `( chunk )` -/
  | capture (c : Chunk)
  /-- exception capture `?( chunk )` -/
  | excCapture (c : Chunk)
  /-- braced list `{e ...}` -/
  | braced (es : List Expr)
  /-- indexing `e[i ...]` -/
  | index (e : Expr) (idx : List Expr)
  /-- compounding `e1e2...` (no space in between) -/
  | compound (es : List Expr)

/-- An lvalue: a variable name, possibly `@`-prefixed (rest variable), possibly
followed by indices (one bracket pair per element of `idx`). -/
inductive LVal where
  | mk (name : String) (rest : Bool) (idx : List Expr)

/-- Command forms: ordinary commands and the special commands of the core. -/
inductive Form where
  /-- ordinary command: head, arguments, options (`&name=value`, same length) -/
  | cmd (head : Expr) (args : List Expr) (optNames : List String) (optVals : List Expr)
  /-- `var a b` (no `=`) -/
  | declare (names : List String)
  /-- `var|set|tmp lv... = e...` -/
  | assign (k : AKind) (lvs : List LVal) (rhs : List Expr)
  /-- `del lv...` (variable, or map element) -/
  | del (lvs : List LVal)
  /-- `and|or|coalesce e...` -/
  | logic (k : LKind) (args : List Expr)
  /-- `if c1 { b1 } elif c2 { b2 } ... else { e }`; `conds`, `bodies` same length -/
  | ifF (conds : List Expr) (bodies : List Chunk) (els : Option Chunk)
  /-- `while c { body } else { e }` -/
  | whileF (cond : Expr) (body : Chunk) (els : Option Chunk)
  /-- `for x container { body } else { e }` -/
  | forF (v : String) (iter : Expr) (body : Chunk) (els : Option Chunk)
  /-- `try { body } catch v { c } else { e } finally { f }` -/
  | tryF (body : Chunk) (catchVar : Option String) (catchB : Option Chunk)
      (elseB : Option Chunk) (fin : Option Chunk)
  /-- `fn name lambda` -/
  | fnF (name : String) (lam : Expr)

/-- A pipeline: command forms joined by `|`. -/
inductive Pipeline where
  | mk (forms : List Form)

/-- A code chunk: pipelines separated by newlines / semicolons. -/
inductive Chunk where
  | mk (pipes : List Pipeline)
end

instance : Inhabited Expr := ⟨.lit ""⟩
instance : Inhabited Chunk := ⟨.mk []⟩
instance : Inhabited Pipeline := ⟨.mk []⟩
instance : Inhabited Form := ⟨.declare []⟩
instance : Inhabited LVal := ⟨.mk "" false []⟩

def Chunk.pipes : Chunk → List Pipeline
  | .mk ps => ps
def Pipeline.forms : Pipeline → List Form
  | .mk fs => fs
def LVal.name : LVal → String
  | .mk n _ _ => n
def LVal.rest : LVal → Bool
  | .mk _ r _ => r
def LVal.idx : LVal → List Expr
  | .mk _ _ i => i

/-! ### Values (language.md "Value types") -/

/-- One lexical scope: the variables declared in it, newest first, each bound
to the address of its storage location. -/
abbrev Frame := List (String × Nat)

/-- A chain of lexical scopes, innermost first (language.md "Scoping rule"). -/
abbrev Scope := List Frame

/-- Values.  Numbers are exact rationals (integers are the rationals with
denominator 1); inexact numbers are outside the modelled fragment. -/
inductive Value where
  | str (s : String)
  | num (q : Rat)
  | bool (b : Bool)
  | nil
  | ok
  | list (vs : List Value)
  /-- map as an association list with pairwise different keys -/
  | map (kvs : List (Value × Value))
  /-- user-defined function: identity, signature, default option values,
  body, the scope chain it closes over, and whether it was defined with `fn`
  (such a function "captures" `return`) -/
  | closure (id : Nat) (pos : List String) (rest : Option String) (post : List String)
      (optNames : List String) (optDefaults : List Value) (body : Chunk) (env : Scope) (isFn : Bool)
  /-- builtin function `$name~` -/
  | builtin (name : String)
  /-- exception value: cause class and payload (`fail`: the content;
  `pipeline`: one entry per command, `$ok` for those that did not throw) -/
  | exc (kind : String) (payload : List Value)

instance : Inhabited Value := ⟨.nil⟩

/-- An exception in flight = cause class + payload. -/
structure Exc where
  kind : String
  payload : List Value := []

def Exc.toValue (e : Exc) : Value := .exc e.kind e.payload

end C15
