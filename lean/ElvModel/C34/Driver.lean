import ElvModel.Go.Driver
import ElvModel.C34.Model
import ElvModel.C34.Buffer
namespace C34
open Go

def parseOvr (s : String) : Option Overrides :=
  if s = "-" then some []
  else (s.splitOn ",").foldl (fun acc kv =>
    match acc, kv.splitOn ":" with
    | some ovr, [k, v] =>
      match k.toInt?, v.toInt? with
      | some k, some v => some (override ovr k v)
      | _, _ => none
    | _, _ => none) (some [])

/-- comma-separated hex strings; `.` is the empty list -/
def parseSegs (s : String) : Option (List Bytes) :=
  if s = "." then some [] else (s.splitOn ",").mapM hexDecode

/-- `;`-separated items, each `_` (no segments) or comma-separated hex; `.` = no items -/
def parseItems (s : String) : Option (List (List Bytes)) :=
  if s = "." then some []
  else (s.splitOn ";").mapM fun it => if it = "_" then some [] else parseSegs it

def showRes (f : α → String) : Res α → String
  | .ok a => f a
  | .exc e => e
  | .panic _ => "PANIC"

/-- scrollbar glyphs `│` and `━` print as a space on both sides -/
def canonCell (c : Bytes) : Bytes :=
  if c = [0xe2, 0x94, 0x82] || c = [0xe2, 0x94, 0x81] then [0x20] else c

def showLines (canon : Bool) (ls : List (List Bytes)) : String :=
  if ls.isEmpty then "!"
  else "|".intercalate (ls.map fun l =>
    if l.isEmpty then "." else ",".intercalate (l.map fun c => hexEnc (if canon then canonCell c else c)))

def showBuf (canon : Bool) (b : Buf) : String :=
  s!"{b.width} {b.dot.1},{b.dot.2} {b.lines.length} {showLines canon b.lines}"

def runProg (wd : Int → Int) (bb : BB) : List String → Option BB
  | [] => some bb
  | op :: rest =>
    let arg := String.ofList (op.toList.drop 1)
    match op.toList.head? with
    | some 'w' => match hexDecode arg with
      | some s => runProg wd (bb.writeString wd s) rest
      | none => none
    | some 'n' => runProg wd (bb.newline wd) rest
    | some 'i' => match arg.toInt? with
      | some k => runProg wd { bb with indent := k } rest
      | none => none
    | some 'e' => runProg wd { bb with eager := arg = "1" } rest
    | some 'd' => runProg wd bb.setDotHere rest
    | _ => none

def wd0 : Int → Int := OfRune []

def stepLine : List String → String
  | ["ofrune", o, r] => match parseOvr o, r.toInt? with
    | some ovr, some r => s!"{OfRune ovr r}"
    | _, _ => "bad-op"
  | ["of", o, h] => match parseOvr o, hexDecode h with
    | some ovr, some s => s!"{Of (OfRune ovr) s}"
    | _, _ => "bad-op"
  | ["trim", o, h, w] => match parseOvr o, hexDecode h, w.toInt? with
    | some ovr, some s, some w => hexEnc (Trim (OfRune ovr) s w)
    | _, _, _ => "bad-op"
  | ["force", o, h, w] => match parseOvr o, hexDecode h, w.toInt? with
    | some ovr, some s, some w => showRes hexEnc (Force (OfRune ovr) s w)
    | _, _, _ => "bad-op"
  | ["trimlines", o, h, w] => match parseOvr o, hexDecode h, w.toInt? with
    | some ovr, some s, some w => hexEnc (TrimEachLine (OfRune ovr) s w)
    | _, _, _ => "bad-op"
  | ["bb", w, prog] => match w.toInt? with
    | some w => match newBB w with
      | .ok bb => match runProg wd0 bb (if prog = "." then [] else prog.splitOn ",") with
        | some bb => s!"{bb.col} {showBuf false bb.buffer}"
        | none => "bad-op"
      | _ => "PANIC"
    | none => "bad-op"
  | ["label", w, h, segs] => match w.toInt?, h.toInt?, parseSegs segs with
    | some w, some h, some segs => showRes (showBuf false) (labelRender wd0 segs w h)
    | _, _, _ => "bad-op"
  | ["textview", w, h, sc, first, lines] => match w.toInt?, h.toInt?, first.toInt?, parseSegs lines with
    | some w, some h, some first, some lines => showRes (showBuf true) (textViewRender wd0 (sc = "1") lines first w h)
    | _, _, _, _ => "bad-op"
  | ["listbox", w, h, flags, pad, sel, first, ph, items, _styles] =>
    match w.toInt?, h.toInt?, pad.toInt?, sel.toInt?, first.toInt?, parseSegs ph, parseItems items with
    | some w, some h, some pad, some sel, some first, some ph, some items =>
      showRes (showBuf true) (listBoxRender wd0 (flags.contains 'h') ph items sel first pad (flags.contains 'e') w h)
    | _, _, _, _, _, _, _ => "bad-op"
  | ["codearea", w, h, prompt, rprompt, content, dot, pf, pt, pc, tips] =>
    match w.toInt?, h.toInt?, parseSegs prompt, parseSegs rprompt, hexDecode content, dot.toInt?, pf.toInt?, pt.toInt?,
      hexDecode pc, parseItems tips with
    | some w, some h, some prompt, some rprompt, some content, some dot, some pf, some pt, some pc, some tips =>
      showRes (showBuf false) (do
        let (before, after) ← codeViewPieces content dot pf pt pc
        codeAreaRender wd0 prompt before after rprompt tips w h)
    | _, _, _, _, _, _, _, _, _, _ => "bad-op"
  | _ => "bad-op"

def driver : Driver := Driver.pure stepLine
end C34
