/-
C34 model, part 2: pkg/cli/term — `BufferBuilder` (`Newline`, `WriteRuneSGR`
wrapping, `WriteStringSGR`, `WriteStyled`) and `Buffer` (`TrimToLines`,
`ExtendDown`, `ExtendRight`); pkg/cli/tk — `Label`, `VScrollbar`/`HScrollbar`
(geometry only), `TextView`, `croppedLines`, the vertical and horizontal
`ListBox` windows and renderers, `renderView`/`truncateToHeight` of `CodeArea`.

Styles do not influence widths or line counts, so a cell is just its text and
a styled text is the list of its segment texts (the SGR string of a cell is
dropped).  `wd` is the rune width function (`OfRune` with the current
overrides).
-/
import ElvModel.C34.Model
namespace C34
open Go

/-! ### term.BufferBuilder -/

/-- `term.BufferBuilder`.  `prev` holds the finished lines (most recent first,
cells in order), `cur` the cells of the last line in reverse order. -/
structure BB where
  width : Int
  col : Int
  indent : Int
  eager : Bool
  prev : List (List Bytes)
  cur : List Bytes
  dot : Int × Int
  deriving Repr

/-- `term.Buffer` -/
structure Buf where
  width : Int
  lines : List (List Bytes)
  dot : Int × Int
  deriving Repr

/-- `NewBufferBuilder(width)`: `make([]Cell, 0, width)` panics for a negative capacity. -/
def newBB (width : Int) : Res BB :=
  if width < 0 then .panic "makeslice: cap out of range"
  else .ok { width, col := 0, indent := 0, eager := false, prev := [], cur := [], dot := (0, 0) }

def BB.lines (b : BB) : List (List Bytes) := (b.cur.reverse :: b.prev).reverse

def BB.buffer (b : BB) : Buf := { width := b.width, lines := b.lines, dot := b.dot }

/-- `Cursor()`: `Pos{len(bb.Lines) - 1, bb.Col}` -/
def BB.cursor (b : BB) : Int × Int := ((b.prev.length : Int), b.col)

def BB.setDotHere (b : BB) : BB := { b with dot := b.cursor }

def BB.appendLine (b : BB) : BB := { b with prev := b.cur.reverse :: b.prev, cur := [], col := 0 }

/-- `appendCell(c)`: `bb.Col += wcwidth.Of(c.Text)` -/
def BB.appendCell (wd : Int → Int) (b : BB) (c : Bytes) : BB :=
  { b with cur := c :: b.cur, col := b.col + Of wd c }

def BB.appendSpaces (wd : Int → Int) (b : BB) : Nat → BB
  | 0 => b
  | n + 1 => (b.appendCell wd [0x20]).appendSpaces wd n

/-- `Newline()` -/
def BB.newline (wd : Int → Int) (b : BB) : BB :=
  let b := b.appendLine
  if b.indent > 0 then b.appendSpaces wd b.indent.toNat else b

/-- The cell `WriteRuneSGR` makes for a rune other than `'\n'`. -/
def cellOf (r : Rune) : Bytes :=
  if r < 0x20 || r == 0x7f then 0x5E :: encodeRune (r ^^^ 0x40) else encodeRune r

/-- `WriteRuneSGR(r, style)` -/
def BB.writeRune (wd : Int → Int) (b : BB) (r : Rune) : BB :=
  if r = 10 then b.newline wd
  else
    let c := cellOf r
    if b.col + Of wd c > b.width then (b.newline wd).appendCell wd c
    else
      let b := b.appendCell wd c
      if b.col = b.width && b.eager then b.newline wd else b

/-- `WriteStringSGR(text, style)` -/
def BB.writeString (wd : Int → Int) (b : BB) (s : Bytes) : BB :=
  (toRunes s).foldl (BB.writeRune wd) b

/-- `WriteStyled(t)` on the segment texts of `t`. -/
def BB.writeSegs (wd : Int → Int) (b : BB) (segs : List Bytes) : BB :=
  segs.foldl (BB.writeString wd) b

/-- `Write(text)` = `WriteStyled(ui.T(text))`. -/
def BB.write (wd : Int → Int) (b : BB) (s : Bytes) : BB := b.writeString wd s

/-! ### term.Buffer -/

def lineWidth (wd : Int → Int) (l : List Bytes) : Int := (l.map (Of wd)).sum

/-- `TrimToLines(low, high)`; `b.Lines[low:high]` panics when `low > high` after clamping. -/
def Buf.trimToLines (b : Buf) (low high : Int) : Res Buf := do
  let low := if low < 0 then 0 else low
  let high := if high > b.lines.length then (b.lines.length : Int) else high
  let ls ← slice b.lines low high
  let dl := b.dot.1 - low
  pure { b with lines := ls, dot := (if dl < 0 then 0 else dl, b.dot.2) }

/-- `ExtendDown(b2, moveDot)` (`b2` non-nil; `b2.Lines == nil` means no lines). -/
def Buf.extendDown (b b2 : Buf) (moveDot : Bool) : Buf :=
  if b2.lines.isEmpty then b
  else
    { width := if b.width < b2.width then b2.width else b.width
      lines := b.lines ++ b2.lines
      dot := if moveDot then ((b.lines.length : Int) + b2.dot.1, b2.dot.2) else b.dot }

/-- `makeSpacing(n)`; `make` panics for negative `n`. -/
def makeSpacing (n : Int) : Res (List Bytes) :=
  if n < 0 then .panic "makeslice: len out of range" else .ok (List.replicate n.toNat [0x20])

def extendRows (wd : Int → Int) (w : Int) : List (List Bytes) → List (List Bytes) → Res (List (List Bytes))
  | l :: ls, l2 :: ls2 => do
    let w0 := lineWidth wd l
    let l ← if w0 < w then do let sp ← makeSpacing (w - w0); pure (l ++ sp) else pure l
    let rest ← extendRows wd w ls ls2
    pure ((l ++ l2) :: rest)
  | ls, [] => pure ls
  | [], l2 :: ls2 => do
    let sp ← makeSpacing w
    let rest ← extendRows wd w [] ls2
    pure ((sp ++ l2) :: rest)

/-- `ExtendRight(b2, moveDot)` -/
def Buf.extendRight (wd : Int → Int) (b b2 : Buf) (moveDot : Bool) : Res Buf := do
  let ls ← extendRows wd b.width b.lines b2.lines
  pure { width := b.width + b2.width, lines := ls,
         dot := if moveDot then (b2.dot.1, b.width + b2.dot.2) else b.dot }

/-! ### tk.Label -/

/-- `Label{content}.Render(width, height)` -/
def labelRender (wd : Int → Int) (content : List Bytes) (width height : Int) : Res Buf := do
  let bb ← newBB width
  (bb.writeSegs wd content).buffer.trimToLines 0 height

/-! ### scrollbars (geometry only: every scrollbar cell is one column wide; which
cells are thumb and which trough is not modelled, the driver prints both as a space) -/

def scrollCell : Bytes := [0x20]

/-- `VScrollbar.Render(1, height)`: `height` rows of one cell (one empty row if `height ≤ 0`). -/
def vscrollbarRender (wd : Int → Int) (height : Int) : Res Buf := do
  let bb ← newBB 1
  let rec go (bb : BB) (i : Nat) : Nat → BB
    | 0 => bb
    | k + 1 =>
      let bb := if i > 0 then bb.newline wd else bb
      go (bb.writeString wd scrollCell) (i + 1) k
  pure (go bb 0 height.toNat).buffer

/-- `HScrollbar.Render(width, 1)`: `width` cells written to a builder of that width. -/
def hscrollbarRender (wd : Int → Int) (width : Int) : Res Buf := do
  let bb ← newBB width
  let rec go (bb : BB) : Nat → BB
    | 0 => bb
    | k + 1 => go (bb.writeString wd scrollCell) k
  pure (go bb width.toNat).buffer

/-! ### tk.TextView -/

/-- `(*textView).Render(width, height)` for state `(lines, first)`. -/
def textViewRender (wd : Int → Int) (scrollable : Bool) (lines : List Bytes) (first0 : Int)
    (width height : Int) : Res Buf := do
  let n : Int := lines.length
  -- getStateForRender
  let first := if first0 > n - height && n - height ≥ 0 then n - height else first0
  let needScrollbar := scrollable && (first > 0 || first + height < n)
  let textWidth := if needScrollbar then width - 1 else width
  let bb ← newBB textWidth
  let rec go (bb : BB) (i : Int) : Nat → Res BB
    | 0 => pure bb
    | k + 1 =>
      if i < first + height && i < n then do
        let bb := if i > first then bb.newline wd else bb
        let line ← index lines i
        go (bb.write wd (Trim wd line textWidth)) (i + 1) k
      else pure bb
  let bb ← go bb first (lines.length + 1)
  let buf := bb.buffer
  if needScrollbar then do
    let sb ← vscrollbarRender wd height
    buf.extendRight wd sb false
  else pure buf

/-! ### ui.Text as seen by the list box: segment texts only -/

/-- `Text.TrimWcwidth(wmax)` (after fixes/C33-trimwcwidth-normalise.patch) on segment texts. -/
def trimSegs (wd : Int → Int) : List Bytes → Int → List Bytes
  | [], _ => []
  | seg :: rest, wmax =>
    let w := Of wd seg
    if w > wmax then [Trim wd seg wmax] else seg :: trimSegs wd rest (wmax - w)

/-- `strings.Count(seg, "\n")` summed over the segments, plus one: `Text.CountLines`. -/
def countLines (t : List Bytes) : Int := ((t.map fun s => (s.count 10 : Int)).sum) + 1

/-- `Text.SplitByRune('\n')` on segment texts: the pieces of each line, in
order, empty pieces dropped; `nil` for a text without segments. -/
def splitLinesSegs (t : List Bytes) : List (List Bytes) :=
  if t.isEmpty then []
  else
    let step (acc : List (List Bytes) × List Bytes) (seg : Bytes) : List (List Bytes) × List Bytes :=
      match splitNL seg with
      | [] => acc
      | [p] => (acc.1, if p.isEmpty then acc.2 else acc.2 ++ [p])
      | p :: ps =>
        let firstLine := if p.isEmpty then acc.2 else acc.2 ++ [p]
        let mids := ps.dropLast.map fun m => if m.isEmpty then [] else [m]
        let lastPiece := match ps.getLast? with
          | some l => if l.isEmpty then [] else [l]
          | none => []
        (acc.1 ++ [firstLine] ++ mids, lastPiece)
    let (done, paste) := t.foldl step ([], [])
    done ++ [paste]

def spaces (n : Nat) : Bytes := List.replicate n 0x20

/-- `croppedLines{lines, padding, selectFrom, selectTo, extendStyle}.Render(width, height)` -/
def croppedLinesRender (wd : Int → Int) (lines : List (List Bytes)) (padding selectFrom selectTo : Int)
    (extendStyle : Bool) (width : Int) : Res Buf := do
  let bb ← newBB width
  let leftSp ← repeatSpace padding
  let rightSp ← repeatSpace (width - padding)
  let rec go (bb : BB) (i : Nat) : List (List Bytes) → BB
    | [] => bb
    | line :: rest =>
      let bb := if i > 0 then bb.newline wd else bb
      let selected := decide (selectFrom ≤ (i : Int)) && decide ((i : Int) < selectTo)
      let ext := extendStyle && !line.isEmpty
      let acc := leftSp :: trimSegs wd line (width - 2 * padding)
      let acc := if ext || selected then trimSegs wd (acc ++ [rightSp]) width else acc
      go (bb.writeSegs wd acc) (i + 1) rest
  pure (go bb 0 lines).buffer

/-! ### tk.ListBox -/

/-- `maxWidth(items, padding, low, high)`; `items.Show(i)` panics for `i < 0`. -/
def maxWidth (wd : Int → Int) (items : List (List Bytes)) (padding low high : Int) : Res Int := do
  let n : Int := items.length
  let rec go (i : Int) (width : Int) : Nat → Res Int
    | 0 => pure width
    | k + 1 =>
      if i < high && i < n then do
        let it ← index items i
        let w := (it.map (Of wd)).sum
        go (i + 1) (if width < w then w else width) k
      else pure width
  let w ← go low 0 (items.length + 1)
  pure (w + 2 * padding)

/-- Go's `/` on `int`: truncated division, panic on zero. -/
def goDiv (a b : Int) : Res Int :=
  if b = 0 then .panic "integer divide by zero" else .ok (Int.tdiv a b)

def respectDistance : Int := 2
def listBoxColGap : Int := 2

/-- `getVerticalWindow(state, height)` → `(first, crop)` -/
def getVerticalWindow (items : List (List Bytes)) (selected0 lastFirst height : Int) : Res (Int × Int) := do
  let n : Int := items.length
  let selected := if selected0 < 0 then 0 else if selected0 ≥ n then n - 1 else selected0
  let selIt ← index items selected
  let selectedHeight := countLines selIt
  if height ≤ selectedHeight then pure (selected, 0)
  else do
    let budget := height - selectedHeight
    let needDown0 := if budget ≥ 2 * respectDistance then respectDistance else Int.tdiv budget 2
    let rec down (i : Int) (useDown : Int) : Nat → Res Int
      | 0 => pure useDown
      | k + 1 =>
        if i < n then do
          let it ← index items i
          let useDown := useDown + countLines it
          if useDown ≥ budget then pure useDown else down (i + 1) useDown k
        else pure useDown
    let useDown ← down (selected + 1) 0 (items.length + 1)
    let needDown := if needDown0 > useDown then useDown else needDown0
    let budgetUp := budget - needDown
    let rec up (i : Int) (useUp : Int) : Nat → Res (Int × Int)
      | 0 => pure (0, 0)
      | k + 1 =>
        if i ≥ 0 then do
          let it ← index items i
          let useUp := useUp + countLines it
          if useUp ≥ budgetUp then pure (i, useUp - budgetUp)
          else if i ≤ lastFirst && useUp ≥ respectDistance && useUp + useDown ≥ budget then pure (i, 0)
          else up (i - 1) useUp k
        else pure (0, 0)
    up (selected - 1) 0 (items.length + 1)

/-- `(*listBox).renderVertical(width, height)` for a non-empty item list
(after fixes/C34-listbox-vertical-crop.patch). -/
def listBoxVertical (wd : Int → Int) (items : List (List Bytes)) (selected lastFirst padding : Int)
    (extendStyle : Bool) (width height : Int) : Res Buf := do
  let n : Int := items.length
  let (first, firstCrop) ← getVerticalWindow items selected lastFirst height
  let rec go (i : Int) (allLines : List (List Bytes)) (selFrom selTo : Int) (hasCropped : Bool) :
      Nat → Res (Int × List (List Bytes) × Int × Int × Bool)
    | 0 => pure (i, allLines, selFrom, selTo, hasCropped)
    | k + 1 =>
      if i < n && (allLines.length : Int) < height then do
        let item ← index items i
        let lines := splitLinesSegs item
        let lines ← if i = first then slice lines firstCrop lines.length else pure lines
        let (selFrom, selTo) :=
          if i = selected then ((allLines.length : Int), (allLines.length : Int) + lines.length)
          else (selFrom, selTo)
        let over := decide ((allLines.length : Int) + lines.length > height)
        let lines ← if over then slice lines 0 (height - allLines.length) else pure lines
        go (i + 1) (allLines ++ lines) selFrom selTo (hasCropped || over) k
      else pure (i, allLines, selFrom, selTo, hasCropped)
  let (i, allLines, selFrom, selTo, hasCropped) ← go first [] 0 0 (decide (firstCrop > 0)) (items.length + 1)
  if first > 0 || i < n || hasCropped then do
    -- VScrollbarContainer
    let buf ← croppedLinesRender wd allLines padding selFrom selTo extendStyle (width - 1)
    let sb ← vscrollbarRender wd height
    buf.extendRight wd sb false
  else croppedLinesRender wd allLines padding selFrom selTo extendStyle width

/-- `getHorizontalWindow(state, padding, width, height)` → `(first, colHeight, scrollbar)` -/
def getHorizontalWindow (wd : Int → Int) (items : List (List Bytes)) (selected lastFirst padding width height : Int) :
    Res (Int × Int × Bool) := do
  let n : Int := items.length
  let mw ← maxWidth wd items padding 0 n
  let perRow0 ← goDiv (width + listBoxColGap) (mw + listBoxColGap)
  let perRow := if perRow0 = 0 then 1 else perRow0
  if height * perRow ≥ n then do
    let h ← goDiv (n + perRow - 1) perRow
    pure (0, h, false)
  else do
    let scrollbar := decide (height > 1)
    let height := if height > 1 then height - 1 else height
    let q ← goDiv selected height
    let first := q * height
    let used0 ← maxWidth wd items padding first (first + height)
    let rec go (first used : Int) : Nat → Res Int
      | 0 => .exc "FUEL"
      | k + 1 =>
        if first > lastFirst then do
          let w ← maxWidth wd items padding (first - height) first
          let used := used + w + listBoxColGap
          if used > width then pure first else go (first - height) used k
        else pure first
    let first ← go first used0 (items.length + 2 + selected.natAbs)
    pure (first, height, scrollbar)

/-- `(*listBox).renderHorizontal(width, height)` for a non-empty item list. -/
def listBoxHorizontal (wd : Int → Int) (items : List (List Bytes)) (selected lastFirst padding : Int)
    (extendStyle : Bool) (width height : Int) : Res Buf := do
  let n : Int := items.length
  let (first, colHeight, _) ← getHorizontalWindow wd items selected lastFirst padding width height
  let rec cols (i : Int) (buf : Buf) (remained : Int) (hasCropped : Bool) (last : Int) :
      Nat → Res (Buf × Bool × Int)
    | 0 => .exc "FUEL"
    | k + 1 =>
      if i < n then do
        -- the column starting at i
        let rec col (j : Int) (acc : List (List Bytes)) (selRow last : Int) : Nat → Res (List (List Bytes) × Int × Int)
          | 0 => pure (acc, selRow, last)
          | m + 1 =>
            if j < i + colHeight && j < n then do
              let it ← index items j
              col (j + 1) (acc ++ [it]) (if j = selected then j - i else selRow) j m
            else pure (acc, selRow, last)
        let (colItems, selRow, last) ← col i [] (-1) last (items.length + 1)
        let cw0 ← maxWidth wd items padding i (i + colHeight)
        let (colWidth, hasCropped) := if cw0 > remained then (remained, true) else (cw0, hasCropped)
        let colBuf ← croppedLinesRender wd colItems padding selRow (selRow + 1) extendStyle colWidth
        let buf ← buf.extendRight wd colBuf false
        let remained := remained - colWidth
        if remained ≤ listBoxColGap then pure (buf, hasCropped, last)
        else cols (i + colHeight) { buf with width := buf.width + listBoxColGap } (remained - listBoxColGap) hasCropped last k
      else pure (buf, hasCropped, last)
  let (buf, hasCropped, last) ← cols first { width := 0, lines := [], dot := (0, 0) } width false first (items.length + 1)
  let buf := { buf with width := width }
  if colHeight < height && (first ≠ 0 || last ≠ n - 1 || hasCropped) then do
    let sb ← hscrollbarRender wd width
    pure (buf.extendDown sb false)
  else pure buf

/-- `(*listBox).Render(width, height)`; an empty item list renders the placeholder as a `Label`. -/
def listBoxRender (wd : Int → Int) (horizontal : Bool) (placeholder : List Bytes) (items : List (List Bytes))
    (selected lastFirst padding : Int) (extendStyle : Bool) (width height : Int) : Res Buf :=
  if items.isEmpty then labelRender wd placeholder width height
  else if horizontal then listBoxHorizontal wd items selected lastFirst padding extendStyle width height
  else listBoxVertical wd items selected lastFirst padding extendStyle width height

/-! ### tk.CodeArea -/

/-- `truncateToHeight(b, maxHeight)` -/
def truncateToHeight (b : Buf) (maxHeight : Int) : Res Buf :=
  if (b.lines.length : Int) ≤ maxHeight then pure b
  else if b.dot.1 < maxHeight then b.trimToLines 0 maxHeight
  else b.trimToLines (b.dot.1 - maxHeight + 1) (b.dot.1 + 1)

/-- `styledWcswidth(t)` -/
def segsWidth (wd : Int → Int) (t : List Bytes) : Int := (t.map (Of wd)).sum

/-- `renderView`, first part: eager wrapping on, the prompt, and the indent rule
(`len(buf.Lines) == 1 && buf.Col*2 < buf.Width`). -/
def rvPrompt (wd : Int → Int) (prompt : List Bytes) (bb : BB) : BB :=
  let bb := ({ bb with eager := true } : BB).writeSegs wd prompt
  if bb.prev.length = 0 && bb.col * 2 < bb.width then { bb with indent := bb.col } else bb

/-- `renderView`, second part: the code before the dot, `SetDotHere`, the code after it. -/
def rvCode (wd : Int → Int) (codeBefore codeAfter : List Bytes) (bb : BB) : BB :=
  ((bb.writeSegs wd codeBefore).setDotHere).writeSegs wd codeAfter

/-- `renderView`, third part: eager wrapping and indent off, then the right
prompt if it fits with at least one column of padding. -/
def rvRPrompt (wd : Int → Int) (rprompt : List Bytes) (bb : BB) : Res BB :=
  let bb : BB := { bb with eager := false, indent := 0 }
  let rw := segsWidth wd rprompt
  if rw > 0 then
    let padding := bb.width - bb.col - rw
    if padding ≥ 1 then
      match repeatSpace padding with
      | .ok sp => .ok ((bb.write wd sp).writeSegs wd rprompt)
      | .exc e => .exc e
      | .panic w => .panic w
    else .ok bb
  else .ok bb

/-- `renderView`, last part: each tip on a new line. -/
def rvTips (wd : Int → Int) (tips : List (List Bytes)) (bb : BB) : BB :=
  tips.foldl (fun bb tip => (bb.newline wd).writeSegs wd tip) bb

/-- `renderView(v, buf)`: prompt, code before and after the dot (as segment
texts), rprompt, tips. -/
def renderView (wd : Int → Int) (prompt codeBefore codeAfter rprompt : List Bytes) (tips : List (List Bytes))
    (bb : BB) : Res BB :=
  match rvRPrompt wd rprompt (rvCode wd codeBefore codeAfter (rvPrompt wd prompt bb)) with
  | .ok bb => .ok (rvTips wd tips bb)
  | .exc e => .exc e
  | .panic w => .panic w

/-- `Text.Partition(idx)` on segment texts (one index): the loop of `Partition`. -/
def partitionSegs : List Bytes → Int → List Bytes × List Bytes
  | [], _ => ([], [])
  | seg :: rest, toConsume =>
    if toConsume > 0 then
      if (seg.length : Int) ≤ toConsume then
        let (a, b) := partitionSegs rest (toConsume - seg.length)
        (seg :: a, b)
      else ([seg.take toConsume.toNat], seg.drop toConsume.toNat :: rest)
    else ([], seg :: rest)

/-- `getView` with a highlighter that returns the code unstyled: the segment
texts of the code before and after the dot.  `patchPending`, then the pending
part becomes its own (underlined) segment, then `Partition(dot)`. -/
def codeViewPieces (content : Bytes) (dot pFrom pTo : Int) (pContent : Bytes) : Res (List Bytes × List Bytes) := do
  let invalid := decide (pFrom > pTo) || decide (pFrom < 0) || decide (pTo > content.length)
  let noop := decide (pFrom = pTo) && pContent.isEmpty
  if invalid || noop then
    let segs := if content.isEmpty then [] else [content]
    pure (partitionSegs segs dot)
  else do
    let a ← slice content 0 pFrom
    let c ← slice content pTo content.length
    let newDot : Int :=
      if dot < pFrom then dot
      else if dot ≥ pFrom && dot < pTo then pFrom + pContent.length
      else dot - (pTo - pFrom) + pContent.length
    let segs := if pContent.isEmpty then (if (a ++ c).isEmpty then [] else [a ++ c])
                else [a, pContent, c].filter (fun x => !x.isEmpty)
    pure (partitionSegs segs newDot)

/-- `(*codeArea).Render(width, height)` given the view. -/
def codeAreaRender (wd : Int → Int) (prompt codeBefore codeAfter rprompt : List Bytes) (tips : List (List Bytes))
    (width height : Int) : Res Buf := do
  let bb ← newBB width
  let bb ← renderView wd prompt codeBefore codeAfter rprompt tips bb
  truncateToHeight bb.buffer height

end C34
