/-
C34 model, part 1: pkg/wcwidth/wcwidth.go — `inRange` (sort.Search binary
search over the generated `combiningRanges` table), `OfRune` (override map as a
parameter), `Of`, `Trim`, `Force`, `TrimEachLine`.

Go strings are byte lists; `for i, r := range s` is `Go.runes s`.  The width
function is a parameter `wd : Int → Int` of `Of/Trim/Force/...` so that the
theorems hold for every override map; `OfRune ovr` is the instance the driver
runs.
-/
import ElvModel.Go.Utf8
import ElvModel.Generated.C34Wcwidth
namespace C34
open Go

/-! ### the table -/

/-- The generated table is a `[][2]rune`; the translator emits the inner arrays
as lists.  `toPairs` reads them as pairs (`C34_table_wellformed` proves that no
row is dropped). -/
def toPairs : List (List Int) → List (Int × Int)
  | [] => []
  | [a, b] :: rest => (a, b) :: toPairs rest
  | _ :: rest => toPairs rest

def combining : List (Int × Int) := toPairs Gen.C34Wcwidth.combiningRanges

/-! ### `sort.Search` and `inRange` -/

/-- `sort.Search(n, f)`:
```go
i, j := 0, n
for i < j { h := int(uint(i+j) >> 1); if !f(h) { i = h + 1 } else { j = h } }
return i
```
`f` is only ever called on indices `< n`, which the `Fin` argument makes explicit. -/
def search (n : Nat) (f : Fin n → Bool) (i j : Nat) (hj : j ≤ n) : Nat :=
  if hij : i < j then
    let h := (i + j) / 2
    have hh : h < n := by omega
    if !f ⟨h, hh⟩ then search n f (h + 1) j hj
    else search n f i h (by omega)
  else i
termination_by j - i
decreasing_by all_goals omega

/-- `inRange(r, ranges)`: `i := sort.Search(n, func(i) bool { return r <= ranges[i][1] }); return i < n && r >= ranges[i][0]` -/
def inRange (r : Int) (ranges : List (Int × Int)) : Bool :=
  let i := search ranges.length (fun k => decide (r ≤ (ranges[k.1]'k.2).2)) 0 ranges.length (Nat.le_refl _)
  if h : i < ranges.length then decide (r ≥ (ranges[i]'h).1) else false

/-! ### overrides (`Override`, `Unoverride`, `getOverride`) -/

/-- The override map, as an association list with distinct keys. -/
abbrev Overrides := List (Int × Int)

def getOverride (ovr : Overrides) (r : Int) : Option Int :=
  match ovr with
  | [] => none
  | (k, w) :: rest => if k = r then some w else getOverride rest r

def unoverride (ovr : Overrides) (r : Int) : Overrides := ovr.filter (fun p => p.1 != r)

/-- `Override(r, w)`: `w < 0` removes the override. -/
def override (ovr : Overrides) (r w : Int) : Overrides :=
  if w < 0 then unoverride ovr r else (r, w) :: unoverride ovr r

/-! ### `OfRune` -/

/-- The "wide" condition of `OfRune`. -/
def isWide (r : Int) : Bool :=
  r ≥ 0x1100 &&
    (r ≤ 0x115f ||
      r == 0x2329 || r == 0x232a ||
      (r ≥ 0x2e80 && r ≤ 0xa4cf && r != 0x303f) ||
      (r ≥ 0xac00 && r ≤ 0xd7a3) ||
      (r ≥ 0xf900 && r ≤ 0xfaff) ||
      (r ≥ 0xfe10 && r ≤ 0xfe19) ||
      (r ≥ 0xfe30 && r ≤ 0xfe6f) ||
      (r ≥ 0xff00 && r ≤ 0xff60) ||
      (r ≥ 0xffe0 && r ≤ 0xffe6) ||
      (r ≥ 0x20000 && r ≤ 0x2fffd) ||
      (r ≥ 0x30000 && r ≤ 0x3fffd) ||
      (r ≥ 0x1f300 && r ≤ 0x1f6ff))

/-- `OfRune(r)` with the override map as a parameter. -/
def OfRune (ovr : Overrides) (r : Int) : Int :=
  match getOverride ovr r with
  | some w => w
  | none =>
    if r == 0 || r < 32 || (0x7f ≤ r && r < 0xa0) || inRange r combining then 0
    else if isWide r then 2
    else 1

/-! ### `Of`, `Trim`, `Force`, `TrimEachLine` (generic in the rune width `wd`) -/

/-- `Of(s)`: `for _, r := range s { w += OfRune(r) }` -/
def Of (wd : Int → Int) (s : Bytes) : Int :=
  ((runes s).map fun x => wd (x.2.1 : Int)).sum

/-- The loop of `Trim`: the byte offset `i` of the first rune at which the
accumulated width exceeds `wmax`, if any. -/
def trimIdx (wd : Int → Int) : List (Nat × Rune × Nat) → Int → Int → Option Nat
  | [], _, _ => none
  | (i, r, _) :: rest, w, wmax =>
    let w := w + wd (r : Int)
    if w > wmax then some i else trimIdx wd rest w wmax

/-- `Trim(s, wmax)`.  `s[:i]` cannot panic: `i` is a `range` offset of `s`
(`C34_trim_slice_in_bounds`). -/
def Trim (wd : Int → Int) (s : Bytes) (wmax : Int) : Bytes :=
  match trimIdx wd (runes s) 0 wmax with
  | some i => s.take i
  | none => s

/-- The loop of `Force`: `(i, w)` when it breaks at offset `i` with width `w`
(before the offending rune), else the total width. -/
def forceIdx (wd : Int → Int) : List (Nat × Rune × Nat) → Int → Int → Option Nat × Int
  | [], w, _ => (none, w)
  | (i, r, _) :: rest, w, width =>
    let w0 := wd (r : Int)
    let w := w + w0
    if w > width then (some i, w - w0) else forceIdx wd rest w width

/-- `strings.Repeat(" ", n)`: panics for negative `n`. -/
def repeatSpace (n : Int) : Res Bytes :=
  if n < 0 then .panic "strings: negative Repeat count" else .ok (List.replicate n.toNat 0x20)

/-- `Force(s, width)` -/
def Force (wd : Int → Int) (s : Bytes) (width : Int) : Res Bytes :=
  let (oi, w) := forceIdx wd (runes s) 0 width
  let s' := match oi with
    | some i => s.take i
    | none => s
  match repeatSpace (width - w) with
  | .ok pad => .ok (s' ++ pad)
  | .exc e => .exc e
  | .panic p => .panic p

/-- `strings.Split(s, "\n")` (always at least one element). -/
def splitNL : Bytes → List Bytes
  | [] => [[]]
  | b :: rest =>
    if b = 10 then [] :: splitNL rest
    else match splitNL rest with
      | [] => [[b]]   -- unreachable: `splitNL` is never empty
      | l :: ls => (b :: l) :: ls

/-- `strings.Join(lines, "\n")` -/
def joinNL : List Bytes → Bytes
  | [] => []
  | [l] => l
  | l :: ls => l ++ 10 :: joinNL ls

/-- `TrimEachLine(s, width)` -/
def TrimEachLine (wd : Int → Int) (s : Bytes) (width : Int) : Bytes :=
  joinNL ((splitNL s).map fun l => Trim wd l width)

end C34
