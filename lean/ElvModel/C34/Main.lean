import ElvModel.C34.Driver
def main : IO Unit := C34.driver.main
