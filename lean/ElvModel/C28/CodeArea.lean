/-
C28 model, part 2: pkg/cli/tk/codearea.go — `InsertAtDot`, `resetInserts`,
`handlePasteSetting`, `expandSimpleAbbr`, `expandCommandAbbr` (with the
`commandRegex` match characterised directly), `expandSmallWordAbbr`,
`handleKeyEvent`, and a builtin command applied through `MutateState`.

`parse.Quote` is a parameter (`quote`), as are the Unicode predicates (`Env`).
Bindings are `DummyBindings` (never handle), `OnSubmit` is a no-op.
-/
import ElvModel.C28.Model
namespace C28
open Go

structure CodeBuffer where
  content : Bytes
  dot : Int
  deriving DecidableEq, Repr

/-- `CodeAreaSpec`, the part that matters: abbreviation tables in the order the
callbacks present them, and `QuotePaste()`. -/
structure Spec where
  simple : List (Bytes × Bytes)
  command : List (Bytes × Bytes)
  smallWord : List (Bytes × Bytes)
  quotePaste : Bool
  /-- `parse.Quote` -/
  quote : Bytes → Bytes

/-- `codeArea` fields: `State.Buffer`, `inserts`, `lastCodeBuffer`, `pasting`, `pasteBuffer`. -/
structure State where
  buffer : CodeBuffer
  inserts : Bytes
  last : CodeBuffer
  pasting : Bool
  pasteBuffer : Bytes
  deriving DecidableEq, Repr

/-- A key: `ui.Key{Rune, Mod}` (`Rune` is an `int32`, negative for function keys). -/
structure Key where
  rune : Int
  mod : Nat
  deriving DecidableEq, Repr

def modCtrl : Nat := 4
def backspace : Int := 0x7f

/-- `(*CodeBuffer).InsertAtDot(text)` -/
def insertAtDot (c : CodeBuffer) (text : Bytes) : Res CodeBuffer := do
  let a ← slice c.content 0 c.dot
  let b ← slice c.content c.dot c.content.length
  pure { content := a ++ text ++ b, dot := c.dot + (text.length : Int) }

/-- `resetInserts` -/
def resetInserts (s : State) : State :=
  { s with inserts := [], last := { content := [], dot := 0 } }

/-- `handlePasteSetting(start)` (always returns true) -/
def handlePasteSetting (S : Spec) (s : State) (start : Bool) : Res State := do
  let s := resetInserts s
  if start then pure { s with pasting := true }
  else
    let text := s.pasteBuffer
    let text := if S.quotePaste then S.quote text else text
    let b ← insertAtDot s.buffer text
    pure { s with buffer := b, pasting := false, pasteBuffer := [] }

/-- `strings.HasSuffix` -/
def hasSuffix (s suffix : Bytes) : Bool :=
  suffix.length ≤ s.length && s.drop (s.length - suffix.length) == suffix

/-- callback loop of `expandSimpleAbbr`: longest abbreviation that is a suffix of `inserts`. -/
def longestSimple (inserts : Bytes) : List (Bytes × Bytes) → Bytes × Bytes → Bytes × Bytes
  | [], acc => acc
  | (a, f) :: rest, acc =>
    if hasSuffix inserts a && a.length > acc.1.length then longestSimple inserts rest (a, f)
    else longestSimple inserts rest acc

/-- `expandSimpleAbbr` -/
def expandSimpleAbbr (S : Spec) (s : State) : Res State := do
  let (abbr, full) := longestSimple s.inserts S.simple ([], [])
  if abbr.length > 0 then
    let buf := s.buffer
    let a ← slice buf.content 0 (buf.dot - (abbr.length : Int))
    let b ← slice buf.content buf.dot buf.content.length
    pure (resetInserts { s with buffer :=
      { content := a ++ full ++ b, dot := buf.dot - (abbr.length : Int) + (full.length : Int) } })
  else pure s

/-! #### `commandRegex`
`(?:^|[^^]\n|\||;|{\s|\()\s*([\p{L}\p{M}\p{N}!%+,\-./:@\\_<>*]+)(\s)$`

Every component that can precede group 1 ends in a character outside the
group-1 class, so group 1 is the maximal run of class characters ending just
before the final whitespace character and the match exists iff one of the
prefix alternatives can end inside (or at the start of) the whitespace run
that precedes it.  Go's regexp reads invalid bytes as U+FFFD of width 1, like
`DecodeRuneInString`. -/

/-- Perl `\s` in Go regexp: `[\t\n\f\r ]`. -/
def reSpace (r : Rune) : Bool := r == 9 || r == 10 || r == 12 || r == 13 || r == 32

/-- `[\p{L}\p{M}\p{N}!%+,\-./:@\\_<>*]` -/
def cmdChar (E : Env) (r : Rune) : Bool :=
  E.isLetter r || E.isMark r || E.isNumber r ||
  r == 33 || r == 37 || r == 43 || r == 44 || r == 45 || r == 46 || r == 47 || r == 58 ||
  r == 64 || r == 92 || r == 95 || r == 60 || r == 62 || r == 42

/-- Can one of the alternatives `^ | [^^]\n | \| | ; | {\s | \(` followed by
`\s*` end exactly where group 1 starts?  `ws` is the whitespace run before
group 1 (nearest first), `before` the runes before that run (nearest first). -/
def prefixOk (ws before : List Rune) : Bool :=
  match before with
  | [] => true                                   -- `^` then `\s*`
  | b :: _ =>
    b == 124 || b == 59 || b == 40               -- `|` `;` `(`
    || (b == 123 && !ws.isEmpty)                 -- `{\s`
    || (ws.contains 10 && (b != 94 || (ws.dropLast).contains 10))
       -- `[^^]\n`: a newline of the run not directly after a `^`
       -- (`ws` is nearest-first, so its last element follows `b`)

/-- `commandRegex.FindStringSubmatch(content)`: `some (command, whitespace)`. -/
def commandMatch (E : Env) (content : Bytes) : Option (Bytes × Bytes) :=
  let rs := (runes content).reverse        -- nearest-the-end first
  match rs with
  | [] => none
  | (_, w, wn) :: rest =>
    if !(reSpace w) then none
    else
      let cmd := rest.takeWhile (fun x => cmdChar E x.2.1)
      let rest := rest.dropWhile (fun x => cmdChar E x.2.1)
      if cmd.isEmpty then none
      else
        let ws := rest.takeWhile (fun x => reSpace x.2.1)
        let before := rest.dropWhile (fun x => reSpace x.2.1)
        if prefixOk (ws.map (·.2.1)) (before.map (·.2.1)) then
          let cmdLen := (cmd.map (·.2.2)).sum
          some ((content.drop (content.length - wn - cmdLen)).take cmdLen,
                content.drop (content.length - wn))
        else none

/-- callback loop of `expandCommandAbbr`: `if a == command { expansion = e }` -/
def findCommand (command : Bytes) : List (Bytes × Bytes) → Bytes → Bytes
  | [], acc => acc
  | (a, e) :: rest, acc => if a == command then findCommand command rest e else findCommand command rest acc

/-- `expandCommandAbbr` -/
def expandCommandAbbr (E : Env) (S : Spec) (s : State) : Res State := do
  let buf := s.buffer
  if buf.dot < buf.content.length then pure s
  else
    match commandMatch E buf.content with
    | none => pure s
    | some (command, whitespace) =>
      let expansion := findCommand command S.command []
      if expansion = [] then pure s
      else
        let a ← slice buf.content 0 (buf.dot - (command.length : Int) - 1)
        let newContent := a ++ expansion ++ whitespace
        pure (resetInserts { s with buffer := { content := newContent, dot := newContent.length } })

/-- callback loop of `expandSmallWordAbbr`; slice expressions can in principle panic. -/
def longestSmallWord (cat : Categorizer) (content inserts : Bytes) (trigger : Rune) (triggerLen : Nat) :
    List (Bytes × Bytes) → Bytes × Bytes → Res (Bytes × Bytes)
  | [], acc => pure acc
  | (a, f) :: rest, acc => do
    if a.length ≤ acc.1.length then longestSmallWord cat content inserts trigger triggerLen rest acc
    else if !(hasSuffix inserts a) then longestSmallWord cat content inserts trigger triggerLen rest acc
    else if cat trigger == cat (decodeLastRune a).1 then
      longestSmallWord cat content inserts trigger triggerLen rest acc
    else if content.length > a.length + triggerLen then
      let p ← slice content 0 ((content.length : Int) - a.length - triggerLen)
      if cat (decodeLastRune p).1 == cat (decodeRune a).1 then
        longestSmallWord cat content inserts trigger triggerLen rest acc
      else longestSmallWord cat content inserts trigger triggerLen rest (a, f)
    else longestSmallWord cat content inserts trigger triggerLen rest (a, f)

/-- `expandSmallWordAbbr(trigger, categorizer)` -/
def expandSmallWordAbbr (S : Spec) (s : State) (trigger : Rune) (cat : Categorizer) : Res State := do
  let buf := s.buffer
  if buf.dot < buf.content.length then pure s
  else
    let triggerLen := (encodeRune trigger).length
    if triggerLen ≥ s.inserts.length then pure s
    else
      let inserts ← slice s.inserts 0 ((s.inserts.length : Int) - triggerLen)
      let (abbr, full) ← longestSmallWord cat buf.content inserts trigger triggerLen S.smallWord ([], [])
      if abbr.length > 0 then
        let a ← slice buf.content 0 (buf.dot - (abbr.length : Int) - triggerLen)
        pure (resetInserts { s with buffer :=
          { content := a ++ full ++ encodeRune trigger,
            dot := buf.dot - (abbr.length : Int) + (full.length : Int) } })
      else pure s

/-- `parse.IsWhitespace` -/
def isWhitespace (r : Int) : Bool := r == 32 || r == 9 || r == 13 || r == 10

/-- `handleKeyEvent(key)`: new state and the `bool` result. -/
def handleKeyEvent (E : Env) (S : Spec) (s : State) (key : Key) : Res (State × Bool) := do
  let isFuncKey := key.mod != 0 || key.rune < 0
  if s.pasting then
    if isFuncKey then pure (s, true)
    else pure ({ s with pasteBuffer := s.pasteBuffer ++ encodeRune key.rune.toNat }, true)
  -- Bindings.Handle: DummyBindings ⇒ false
  else if key = ⟨10, 0⟩ then
    pure (resetInserts s, true)                       -- Submit() is a callback
  else if key = ⟨backspace, 0⟩ || key = ⟨72, modCtrl⟩ then
    let s := resetInserts s
    let c := s.buffer
    let p ← slice c.content 0 c.dot
    let chop : Int := (decodeLastRune p).2
    let a ← slice c.content 0 (c.dot - chop)
    let b ← slice c.content c.dot c.content.length
    pure ({ s with buffer := { content := a ++ b, dot := c.dot - chop } }, true)
  else if isFuncKey || !(E.isGraphic key.rune.toNat) then
    pure (resetInserts s, false)
  else
    let s := if s.last ≠ s.buffer then resetInserts s else s
    let str := encodeRune key.rune.toNat
    let b ← insertAtDot s.buffer str
    let s := { s with buffer := b, inserts := s.inserts ++ str, last := b }
    let s ← if isWhitespace key.rune then expandCommandAbbr E S s else pure s
    let s ← expandSimpleAbbr S s
    let s ← expandSmallWordAbbr S s key.rune.toNat (categorizeSmallWord E)
    pure (s, true)

/-- An event reaching the code area. -/
inductive Event where
  | key (k : Key)
  | paste (start : Bool)
  /-- a builtin of `bufferBuiltinsData` run through `MutateState(fn(&s.Buffer))` -/
  | cmd (c : Cmd)
  deriving Repr

/-- One step; the `Bool` is the handler's result (`true` for commands). -/
def step (E : Env) (S : Spec) (s : State) : Event → Res (State × Bool)
  | .key k => handleKeyEvent E S s k
  | .paste start => do
    let s ← handlePasteSetting S s start
    pure (s, true)
  | .cmd c => do
    let (content, dot) ← c.fn E s.buffer.content s.buffer.dot
    pure ({ s with buffer := { content, dot } }, true)

end C28
