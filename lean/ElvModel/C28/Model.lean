/-
C28 model, part 1: pkg/edit/buffer_builtins.go (every entry of
`bufferBuiltinsData`), pkg/strutil/eol_sol.go, pkg/wcwidth `Of`/`Trim`, and
the pieces of Go's `strings` the code calls (`TrimLeftFunc`, `TrimRightFunc`,
`TrimFunc`, following go1.23 strings.go statement by statement).

Strings are byte lists, the dot is a Go `int` (`Int`); every slice expression
of the elvish code is the partial `Go.slice`.  `unicode.IsSpace/IsLetter/
IsNumber/IsGraphic/Is(M)` and `wcwidth.OfRune` are parameters (`Env`).
-/
import ElvModel.Go.Basic
import ElvModel.Go.Utf8
namespace C28
open Go

/-- Library predicates the code consults; parameters of the model. -/
structure Env where
  isSpace : Rune → Bool
  isLetter : Rune → Bool
  isNumber : Rune → Bool
  isGraphic : Rune → Bool
  isMark : Rune → Bool
  /-- `wcwidth.OfRune` (non-negative) -/
  width : Rune → Nat

def NL : UInt8 := 10

/-! ### pkg/strutil/eol_sol.go -/

/-- `strutil.FindFirstEOL(s)`: index of the first `'\n'`, `len(s)` if none. -/
def findFirstEOL (s : Bytes) : Nat := (s.takeWhile (· != NL)).length

/-- `strutil.FindLastSOL(s)`: `strings.LastIndex(s, "\n") + 1`. -/
def findLastSOL (s : Bytes) : Nat := s.length - (s.reverse.takeWhile (· != NL)).length

/-! ### Go `strings` (go1.23) -/

/-- `strings.indexFunc(s, f, truth)`: `for i, r := range s { if f(r) == truth { return i } }; return -1` -/
def indexFunc (f : Rune → Bool) (truth : Bool) (s : Bytes) : Int :=
  match (runes s).find? (fun x => f x.2.1 == truth) with
  | some x => (x.1 : Int)
  | none => -1

/-- `strings.lastIndexFunc(s, f, truth)`:
`for i := len(s); i > 0; { r, size := DecodeLastRuneInString(s[0:i]); i -= size; if f(r) == truth { return i } }; return -1`.
Fuel = iterations; `size ≥ 1` whenever `i > 0`, so `len(s)` always suffices
(out of fuel is the visible outcome `exc "FUEL"`). -/
def lastIndexFunc (f : Rune → Bool) (truth : Bool) (s : Bytes) : Nat → Nat → Res Int
  | 0, i => if i = 0 then .ok (-1) else .exc "FUEL"
  | fuel + 1, i =>
    if i = 0 then .ok (-1)
    else
      let d := decodeLastRune (s.take i)
      let i' := i - d.2
      if f d.1 == truth then .ok (i' : Int) else lastIndexFunc f truth s fuel i'

/-- `strings.TrimLeftFunc(s, f)` -/
def trimLeftFunc (f : Rune → Bool) (s : Bytes) : Res Bytes :=
  let i := indexFunc f false s
  if i = -1 then .ok [] else slice s i s.length

/-- `strings.TrimRightFunc(s, f)` -/
def trimRightFunc (f : Rune → Bool) (s : Bytes) : Res Bytes := do
  let i ← lastIndexFunc f false s s.length s.length
  let i' ←
    if 0 ≤ i then do
      let b ← index s i
      if 0x80 ≤ b.toNat then pure (i + ((decodeRune (s.drop i.toNat)).2 : Int)) else pure (i + 1)
    else pure (i + 1)
  slice s 0 i'

/-- `strings.TrimFunc(s, f)` -/
def trimFunc (f : Rune → Bool) (s : Bytes) : Res Bytes := do
  let l ← trimLeftFunc f s
  trimRightFunc f l

/-! ### pkg/wcwidth `Of`, `Trim` (`OfRune` is `E.width`) -/

/-- `wcwidth.Of(s)` -/
def wcOf (E : Env) (s : Bytes) : Nat :=
  (runes s).foldl (fun w x => w + E.width x.2.1) 0

/-- loop of `wcwidth.Trim`: `some i` = `return s[:i]`, `none` = fell through. -/
def trimLoop (E : Env) (wmax : Nat) : Nat → List (Nat × Rune × Nat) → Option Nat
  | _, [] => none
  | w, x :: rest =>
    let w' := w + E.width x.2.1
    if w' > wmax then some x.1 else trimLoop E wmax w' rest

/-- `wcwidth.Trim(s, wmax)` -/
def wcTrim (E : Env) (s : Bytes) (wmax : Nat) : Res Bytes :=
  match trimLoop E wmax 0 (runes s) with
  | some i => slice s 0 i
  | none => .ok s

/-! ### Categorizers -/

abbrev Categorizer := Rune → Nat

def categorizeWord (E : Env) : Categorizer := fun r => if E.isSpace r then 0 else 1

/-- `tk.IsAlnum` -/
def isAlnum (E : Env) (r : Rune) : Bool := E.isLetter r || E.isNumber r

/-- `tk.CategorizeSmallWord` -/
def categorizeSmallWord (E : Env) : Categorizer := fun r =>
  if E.isSpace r then 0 else if isAlnum E r then 1 else 2

def categorizeAlnum (E : Env) : Categorizer := fun r => if isAlnum E r then 1 else 0

/-! ### Pure movers -/

abbrev PureMover := Bytes → Int → Res Int
abbrev PureTransformer := Bytes → Int → Res (Bytes × Int)

def moveDotLeft : PureMover := fun buffer dot => do
  let p ← slice buffer 0 dot
  pure (dot - ((decodeLastRune p).2 : Int))

def moveDotRight : PureMover := fun buffer dot => do
  let p ← slice buffer dot buffer.length
  pure (dot + ((decodeRune p).2 : Int))

def moveDotSOL : PureMover := fun buffer dot => do
  let p ← slice buffer 0 dot
  pure (findLastSOL p : Int)

def moveDotEOL : PureMover := fun buffer dot => do
  let p ← slice buffer dot buffer.length
  pure ((findFirstEOL p : Int) + dot)

def moveDotUp (E : Env) : PureMover := fun buffer dot => do
  let sol : Int := findLastSOL (← slice buffer 0 dot)
  if sol = 0 then pure dot
  else
    let prevEOL := sol - 1
    let prevSOL : Int := findLastSOL (← slice buffer 0 prevEOL)
    let width := wcOf E (← slice buffer sol dot)
    let t ← wcTrim E (← slice buffer prevSOL prevEOL) width
    pure (prevSOL + (t.length : Int))

def moveDotDown (E : Env) : PureMover := fun buffer dot => do
  let eol : Int := (findFirstEOL (← slice buffer dot buffer.length) : Int) + dot
  if eol = buffer.length then pure dot
  else
    let nextSOL := eol + 1
    let nextEOL : Int := (findFirstEOL (← slice buffer nextSOL buffer.length) : Int) + nextSOL
    let sol : Int := findLastSOL (← slice buffer 0 dot)
    let width := wcOf E (← slice buffer sol dot)
    let t ← wcTrim E (← slice buffer nextSOL nextEOL) width
    pure (nextSOL + (t.length : Int))

/-! ### Word movement helpers -/

def skipCatLeft (cat : Categorizer) (c : Nat) (buffer : Bytes) (pos : Int) : Res Int := do
  let left ← trimRightFunc (fun r => cat r == c) (← slice buffer 0 pos)
  pure (left.length : Int)

def skipWsLeft (cat : Categorizer) (buffer : Bytes) (pos : Int) : Res Int :=
  skipCatLeft cat 0 buffer pos

def skipSameCatLeft (cat : Categorizer) (buffer : Bytes) (pos : Int) : Res Int := do
  if pos = 0 then pure pos
  else
    let p ← slice buffer 0 pos
    skipCatLeft cat (cat (decodeLastRune p).1) buffer pos

def skipCatRight (cat : Categorizer) (c : Nat) (buffer : Bytes) (pos : Int) : Res Int := do
  let right ← trimLeftFunc (fun r => cat r == c) (← slice buffer pos buffer.length)
  pure ((buffer.length : Int) - (right.length : Int))

def skipWsRight (cat : Categorizer) (buffer : Bytes) (pos : Int) : Res Int :=
  skipCatRight cat 0 buffer pos

def skipSameCatRight (cat : Categorizer) (buffer : Bytes) (pos : Int) : Res Int := do
  if pos = buffer.length then pure pos
  else
    let p ← slice buffer pos buffer.length
    skipCatRight cat (cat (decodeRune p).1) buffer pos

def moveDotLeftGeneralWord (cat : Categorizer) : PureMover := fun buffer dot => do
  let pos ← skipWsLeft cat buffer dot
  skipSameCatLeft cat buffer pos

def moveDotRightGeneralWord (cat : Categorizer) : PureMover := fun buffer dot => do
  let pos ← skipWsRight cat buffer dot
  if pos > dot then pure pos
  else
    let pos ← skipSameCatRight cat buffer pos
    skipWsRight cat buffer pos

/-! ### Transformers -/

def transposeRunes : PureTransformer := fun buffer dot => do
  if buffer.length = 0 then pure (buffer, dot)
  else if dot = 0 then
    let (first, firstLen) := decodeRune buffer
    if firstLen = buffer.length then pure (buffer, dot)
    else
      let (second, secondLen) := decodeRune (← slice buffer firstLen buffer.length)
      let rest ← slice buffer ((firstLen : Int) + secondLen) buffer.length
      pure (encodeRune second ++ encodeRune first ++ rest, (firstLen : Int) + secondLen)
  else if dot = buffer.length then
    let (second, secondLen) := decodeLastRune buffer
    if secondLen = buffer.length then pure (buffer, dot)
    else
      let (first, firstLen) := decodeLastRune (← slice buffer 0 ((buffer.length : Int) - secondLen))
      let front ← slice buffer 0 ((buffer.length : Int) - firstLen - secondLen)
      let newBuffer := front ++ encodeRune second ++ encodeRune first
      pure (newBuffer, (newBuffer.length : Int))
  else
    let (first, firstLen) := decodeLastRune (← slice buffer 0 dot)
    let (second, secondLen) := decodeRune (← slice buffer dot buffer.length)
    let front ← slice buffer 0 (dot - firstLen)
    let rest ← slice buffer (dot + secondLen) buffer.length
    pure (front ++ encodeRune second ++ encodeRune first ++ rest, dot + secondLen)

def transposeGeneralWord (cat : Categorizer) : PureTransformer := fun buffer dot => do
  let trimmed ← trimFunc (fun r => cat r == 0) buffer
  if trimmed = [] then pure (buffer, dot)
  else
    let pos ← skipWsRight cat buffer dot
    let rightEnd ←
      if pos = buffer.length then skipWsLeft cat buffer pos
      else skipSameCatRight cat buffer pos
    let rightStart ← skipSameCatLeft cat buffer rightEnd
    let leftEnd ← skipWsLeft cat buffer rightStart
    if leftEnd = 0 then
      let leftStart := rightStart
      let leftEnd := rightEnd
      let rightStart ← skipWsRight cat buffer leftEnd
      if rightStart = buffer.length then pure (buffer, dot)
      else
        let rightEnd ← skipSameCatRight cat buffer rightStart
        let a ← slice buffer 0 leftStart
        let r ← slice buffer rightStart rightEnd
        let m ← slice buffer leftEnd rightStart
        let l ← slice buffer leftStart leftEnd
        let z ← slice buffer rightEnd buffer.length
        pure (a ++ r ++ m ++ l ++ z, rightEnd)
    else
      let leftStart ← skipSameCatLeft cat buffer leftEnd
      let a ← slice buffer 0 leftStart
      let r ← slice buffer rightStart rightEnd
      let m ← slice buffer leftEnd rightStart
      let l ← slice buffer leftStart leftEnd
      let z ← slice buffer rightEnd buffer.length
      pure (a ++ r ++ m ++ l ++ z, rightEnd)

/-! ### makeMove / makeKill / makeTransform and the table -/

/-- A builtin as a function on `(Content, Dot)`. -/
abbrev Builtin := Bytes → Int → Res (Bytes × Int)

def makeMove (m : PureMover) : Builtin := fun content dot => do
  let d ← m content dot
  pure (content, d)

def makeKill (m : PureMover) : Builtin := fun content dot => do
  let newDot ← m content dot
  if newDot < dot then
    let a ← slice content 0 newDot
    let b ← slice content dot content.length
    pure (a ++ b, newDot)
  else if newDot > dot then
    let a ← slice content 0 dot
    let b ← slice content newDot content.length
    pure (a ++ b, dot)
  else pure (content, dot)

def makeTransform (t : PureTransformer) : Builtin := t

/-- Movers by flavour. -/
def moveDotLeftWord (E : Env) := moveDotLeftGeneralWord (categorizeWord E)
def moveDotRightWord (E : Env) := moveDotRightGeneralWord (categorizeWord E)
def moveDotLeftSmallWord (E : Env) := moveDotLeftGeneralWord (categorizeSmallWord E)
def moveDotRightSmallWord (E : Env) := moveDotRightGeneralWord (categorizeSmallWord E)
def moveDotLeftAlnumWord (E : Env) := moveDotLeftGeneralWord (categorizeAlnum E)
def moveDotRightAlnumWord (E : Env) := moveDotRightGeneralWord (categorizeAlnum E)

/-- The ten pure movers of `bufferBuiltinsData` plus up/down, by the suffix of
their builtin names. -/
inductive Mover where
  | left | right | leftWord | rightWord | leftSmallWord | rightSmallWord
  | leftAlnumWord | rightAlnumWord | sol | eol | up | down
  deriving DecidableEq, Repr

def Mover.fn (E : Env) : Mover → PureMover
  | .left => moveDotLeft
  | .right => moveDotRight
  | .leftWord => moveDotLeftWord E
  | .rightWord => moveDotRightWord E
  | .leftSmallWord => moveDotLeftSmallWord E
  | .rightSmallWord => moveDotRightSmallWord E
  | .leftAlnumWord => moveDotLeftAlnumWord E
  | .rightAlnumWord => moveDotRightAlnumWord E
  | .sol => moveDotSOL
  | .eol => moveDotEOL
  | .up => moveDotUp E
  | .down => moveDotDown E

inductive Transformer where
  | rune | word | smallWord | alnumWord
  deriving DecidableEq, Repr

def Transformer.fn (E : Env) : Transformer → PureTransformer
  | .rune => transposeRunes
  | .word => transposeGeneralWord (categorizeWord E)
  | .smallWord => transposeGeneralWord (categorizeSmallWord E)
  | .alnumWord => transposeGeneralWord (categorizeAlnum E)

/-- An entry of `bufferBuiltinsData`. -/
inductive Cmd where
  | move (m : Mover)
  | kill (m : Mover)
  | transform (t : Transformer)
  deriving DecidableEq, Repr

def Cmd.fn (E : Env) : Cmd → Builtin
  | .move m => makeMove (m.fn E)
  | .kill m => makeKill (m.fn E)
  | .transform t => makeTransform (t.fn E)

/-- `bufferBuiltinsData`: name ↦ entry (26 entries; kill has no up/down). -/
def bufferBuiltinsData : List (String × Cmd) := [
  ("move-dot-left", .move .left),
  ("move-dot-right", .move .right),
  ("move-dot-left-word", .move .leftWord),
  ("move-dot-right-word", .move .rightWord),
  ("move-dot-left-small-word", .move .leftSmallWord),
  ("move-dot-right-small-word", .move .rightSmallWord),
  ("move-dot-left-alnum-word", .move .leftAlnumWord),
  ("move-dot-right-alnum-word", .move .rightAlnumWord),
  ("move-dot-sol", .move .sol),
  ("move-dot-eol", .move .eol),
  ("move-dot-up", .move .up),
  ("move-dot-down", .move .down),
  ("kill-rune-left", .kill .left),
  ("kill-rune-right", .kill .right),
  ("kill-word-left", .kill .leftWord),
  ("kill-word-right", .kill .rightWord),
  ("kill-small-word-left", .kill .leftSmallWord),
  ("kill-small-word-right", .kill .rightSmallWord),
  ("kill-alnum-word-left", .kill .leftAlnumWord),
  ("kill-alnum-word-right", .kill .rightAlnumWord),
  ("kill-line-left", .kill .sol),
  ("kill-line-right", .kill .eol),
  ("transpose-rune", .transform .rune),
  ("transpose-word", .transform .word),
  ("transpose-small-word", .transform .smallWord),
  ("transpose-alnum-word", .transform .alnumWord)]

def lookupBuiltin (name : String) : Option Cmd :=
  (bufferBuiltinsData.find? (·.1 == name)).map (·.2)

end C28
