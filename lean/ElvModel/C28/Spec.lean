/-
C28: the vocabulary of the property statement — what the theorems in
`ElvProofs/C28.lean` say about the model.
-/
import ElvModel.C28.Model
import ElvModel.C28.CodeArea
namespace C28
open Go

/-- `dot` is inside `buf` and on a character boundary: the text on both sides
of it is valid UTF-8 (so the cut is not in the middle of an encoded rune). -/
def Boundary (buf : Bytes) (dot : Int) : Prop :=
  0 ≤ dot ∧ dot ≤ buf.length ∧
    validUtf8 (buf.take dot.toNat) = true ∧ validUtf8 (buf.drop dot.toNat) = true

/-- the rune after byte offset `p` / before byte offset `p` -/
def runeAt (buf : Bytes) (p : Nat) : Rune := (decodeRune (buf.drop p)).1
def runeBefore (buf : Bytes) (p : Nat) : Rune := (decodeLastRune (buf.take p)).1

/-- A word of the flavour `cat` starts at byte offset `p`: the rune at `p` is
in a non-whitespace category and `p` is the start of the buffer or the rune
before it is in a different category (DESIGN / buffer_builtins.go comment:
"a word is a run of runes in the same non-whitespace category"). -/
def WordStart (cat : Categorizer) (buf : Bytes) (p : Nat) : Prop :=
  p < buf.length ∧ cat (runeAt buf p) ≠ 0 ∧ (p = 0 ∨ cat (runeBefore buf p) ≠ cat (runeAt buf p))

/-- start of the line containing offset `p`: just after the last `'\n'` before `p` -/
def lineStart (buf : Bytes) (p : Nat) : Nat := findLastSOL (buf.take p)

/-- display column of offset `p`: width of the text between the start of its line and `p` -/
def column (E : Env) (buf : Bytes) (p : Nat) : Nat :=
  wcOf E ((buf.take p).drop (lineStart buf p))

/-- the three word flavours of buffer_builtins.go -/
inductive Flavour where
  | word | smallWord | alnumWord
  deriving DecidableEq, Repr

def Flavour.cat (E : Env) : Flavour → Categorizer
  | .word => categorizeWord E
  | .smallWord => categorizeSmallWord E
  | .alnumWord => categorizeAlnum E

def Flavour.left : Flavour → Mover
  | .word => .leftWord
  | .smallWord => .leftSmallWord
  | .alnumWord => .leftAlnumWord

def Flavour.right : Flavour → Mover
  | .word => .rightWord
  | .smallWord => .rightSmallWord
  | .alnumWord => .rightAlnumWord

/-! ### code area -/

/-- abbreviation tables hold valid UTF-8 -/
def AbbrOK (l : List (Bytes × Bytes)) : Prop :=
  ∀ p ∈ l, validUtf8 p.1 = true ∧ validUtf8 p.2 = true

/-- assumptions on the configuration: abbreviations and their expansions are
valid UTF-8, and `parse.Quote` maps valid UTF-8 to valid UTF-8 -/
structure SpecOK (S : Spec) : Prop where
  simple : AbbrOK S.simple
  command : AbbrOK S.command
  smallWord : AbbrOK S.smallWord
  quote : ∀ t, validUtf8 t = true → validUtf8 (S.quote t) = true

/-- invariant of the code area state: the buffer is valid UTF-8 with the dot
on a character boundary; `inserts` is a suffix of the text left of the dot of
`lastCodeBuffer` (the `inserts` / `lastCodeBuffer` bookkeeping that makes the
slice expressions of the abbreviation expanders safe); the paste buffer is
valid UTF-8. -/
structure Inv (s : State) : Prop where
  bnd : Boundary s.buffer.content s.buffer.dot
  ins : ∃ p, s.last.content.take s.last.dot.toNat = p ++ s.inserts
  paste : validUtf8 s.pasteBuffer = true

/-- `b'` is `b` with the text `a` that ends at the dot replaced by `f` (dot after `f`) -/
def ReplacedAtDot (b b' : CodeBuffer) (a f : Bytes) : Prop :=
  ∃ x, b.content.take b.dot.toNat = x ++ a ∧
    b' = ⟨x ++ f ++ b.content.drop b.dot.toNat, ((x ++ f).length : Int)⟩

/-- the dot of `b` is at the end, `b.content = x ++ a ++ w`, and `b'` is `x ++ f ++ w` with the dot at the end -/
def ReplacedBeforeLast (b b' : CodeBuffer) (a f w : Bytes) : Prop :=
  b.dot = b.content.length ∧
    ∃ x, b.content = x ++ a ++ w ∧ b' = ⟨x ++ f ++ w, ((x ++ f ++ w).length : Int)⟩

/-- `InsertAtDot(text)` as a relation -/
def Inserted (b : CodeBuffer) (text : Bytes) : CodeBuffer :=
  ⟨b.content.take b.dot.toNat ++ text ++ b.content.drop b.dot.toNat, b.dot + (text.length : Int)⟩

/-- what a graphic key may do to the buffer: plain insertion of `string(rune)`,
possibly followed by exactly one abbreviation expansion -/
def KeyInsertEffect (S : Spec) (b b' : CodeBuffer) (str : Bytes) : Prop :=
  b' = Inserted b str ∨
  (∃ a f, (a, f) ∈ S.simple ∧ a ≠ [] ∧ ReplacedAtDot (Inserted b str) b' a f) ∨
  (∃ a e w, (a, e) ∈ S.command ∧ e ≠ [] ∧ w.length = 1 ∧ ReplacedBeforeLast (Inserted b str) b' a e w) ∨
  (∃ a f, (a, f) ∈ S.smallWord ∧ a ≠ [] ∧ ReplacedBeforeLast (Inserted b str) b' a f str)

/-- is the key a function key (`key.Mod != 0 || key.Rune < 0`)? -/
def Key.isFunc (key : Key) : Bool := key.mod != 0 || key.rune < 0

/-- `ui.K(ui.Backspace)` or `ui.K('H', ui.Ctrl)` -/
def Key.isBackspace (key : Key) : Prop := key = ⟨backspace, 0⟩ ∨ key = ⟨72, modCtrl⟩

/-- a freshly created code area with the given buffer -/
def initState (b : CodeBuffer) : State :=
  { buffer := b, inserts := [], last := ⟨[], 0⟩, pasting := false, pasteBuffer := [] }

/-- run a sequence of events -/
def runEvents (E : Env) (S : Spec) : State → List Event → Res State
  | s, [] => pure s
  | s, e :: rest => do
    let (s', _) ← step E S s e
    runEvents E S s' rest

end C28
