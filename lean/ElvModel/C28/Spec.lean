/-
C28: the vocabulary of the property statement — what the theorems in
`ElvProofs/C28.lean` say about the model.
-/
import ElvModel.C28.Model
namespace C28
open Go

/-- `dot` is inside `buf` and on a character boundary: the text on both sides
of it is valid UTF-8 (so the cut is not in the middle of an encoded rune). -/
def Boundary (buf : Bytes) (dot : Int) : Prop :=
  0 ≤ dot ∧ dot ≤ buf.length ∧
    validUtf8 (buf.take dot.toNat) = true ∧ validUtf8 (buf.drop dot.toNat) = true

/-- the rune after byte offset `p` / before byte offset `p` -/
def runeAt (buf : Bytes) (p : Nat) : Rune := (decodeRune (buf.drop p)).1
def runeBefore (buf : Bytes) (p : Nat) : Rune := (decodeLastRune (buf.take p)).1

/-- A word of the flavour `cat` starts at byte offset `p`: the rune at `p` is
in a non-whitespace category and `p` is the start of the buffer or the rune
before it is in a different category (DESIGN / buffer_builtins.go comment:
"a word is a run of runes in the same non-whitespace category"). -/
def WordStart (cat : Categorizer) (buf : Bytes) (p : Nat) : Prop :=
  p < buf.length ∧ cat (runeAt buf p) ≠ 0 ∧ (p = 0 ∨ cat (runeBefore buf p) ≠ cat (runeAt buf p))

/-- start of the line containing offset `p`: just after the last `'\n'` before `p` -/
def lineStart (buf : Bytes) (p : Nat) : Nat := findLastSOL (buf.take p)

/-- display column of offset `p`: width of the text between the start of its line and `p` -/
def column (E : Env) (buf : Bytes) (p : Nat) : Nat :=
  wcOf E ((buf.take p).drop (lineStart buf p))

end C28
