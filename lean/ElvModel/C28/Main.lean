import ElvModel.C28.Driver
def main : IO Unit := C28.driver.main
