import ElvModel.Go.Driver
import ElvModel.C28.Model
import ElvModel.C28.CodeArea
namespace C28
open Go

/-! Line protocol (fields tab-separated):

* `b <name> <hex buf> <dot> <table>` → `<hex buf'> <dot'>` | `PANIC` | `FUEL`
* `ball <hex buf> <table>` → the `b` results for every boundary dot × every builtin (by name), each followed by `;`
* `seq <q> <S> <C> <W> <hex buf> <dot> <events> <table>` → one record per event joined by `|`:
  `<ret>:<hex content>:<dot>:<hex inserts>:<hex last.content>:<last.dot>:<pasting>:<hex pasteBuffer>`,
  followed by `PANIC` / `FUEL` if an event panicked (the sequence stops there).

`<table>`: `rune:flags:width` joined by `,` (`-` = empty) — the values of
`unicode.IsSpace` (1) `IsLetter` (2) `IsNumber` (4) `IsGraphic` (8) `Is(M)` (16)
and `wcwidth.OfRune` for every rune that can occur, dumped by the harness from
the real libraries.  `<S>/<C>/<W>`: `hexabbr:hexfull` joined by `,`.
Events: `k<rune>.<mod>`, `p1`, `p0.<hex raw>.<hex quoted>`, `c<builtin name>`.
-/

abbrev Table := List (Nat × Nat × Nat)

def parseTable (s : String) : Option Table :=
  if s = "-" then some [] else
  (s.splitOn ",").mapM fun e =>
    match e.splitOn ":" with
    | [r, f, w] => do
      let r ← r.toNat?
      let f ← f.toNat?
      let w ← w.toNat?
      pure (r, f, w)
    | _ => none

def Table.flags (t : Table) (r : Rune) : Nat :=
  match t.find? (·.1 == r) with
  | some e => e.2.1
  | none => 0

def Table.env (t : Table) : Env where
  isSpace r := t.flags r % 2 == 1
  isLetter r := t.flags r / 2 % 2 == 1
  isNumber r := t.flags r / 4 % 2 == 1
  isGraphic r := t.flags r / 8 % 2 == 1
  isMark r := t.flags r / 16 % 2 == 1
  width r := match t.find? (·.1 == r) with
    | some e => e.2.2
    | none => 0

/-- every rune of `s` has an entry -/
def Table.covers (t : Table) (s : Bytes) : Bool :=
  (toRunes s).all fun r => t.any (·.1 == r)

def showRes (r : Res (Bytes × Int)) : String :=
  match r with
  | .ok (b, d) => s!"{hexEnc b} {d}"
  | .exc e => e
  | .panic _ => "PANIC"

def parsePairs (s : String) : Option (List (Bytes × Bytes)) :=
  if s = "-" then some [] else
  (s.splitOn ",").mapM fun e =>
    match e.splitOn ":" with
    | [a, f] => do
      let a ← hexDecode a
      let f ← hexDecode f
      pure (a, f)
    | _ => none

/-- a parsed event plus the `parse.Quote` graph point it carries -/
structure Ev where
  ev : Event
  raw : Bytes := []
  quoted : Bytes := []

def parseEvent (s : String) : Option Ev :=
  match s.toList with
  | 'k' :: rest =>
    match (String.ofList rest).splitOn "." with
    | [r, m] => do
      let r ← r.toInt?
      let m ← m.toNat?
      pure { ev := .key ⟨r, m⟩ }
    | _ => none
  | 'p' :: '1' :: [] => some { ev := .paste true }
  | 'p' :: '0' :: '.' :: rest =>
    match (String.ofList rest).splitOn "." with
    | [a, b] => do
      let a ← hexDecode a
      let b ← hexDecode b
      pure { ev := .paste false, raw := a, quoted := b }
    | _ => none
  | 'c' :: rest => do
    let c ← lookupBuiltin (String.ofList rest)
    pure { ev := .cmd c }
  | _ => none

def parseEvents (s : String) : Option (List Ev) :=
  if s = "-" then some [] else (s.splitOn ",").mapM parseEvent

def showState (ret : Bool) (s : State) : String :=
  s!"{ret}:{hexEnc s.buffer.content}:{s.buffer.dot}:{hexEnc s.inserts}:{hexEnc s.last.content}:{s.last.dot}:{s.pasting}:{hexEnc s.pasteBuffer}"

/-- `none` = some intermediate buffer contains a rune the table does not cover
(possible only in the malformed stream, where deleting bytes can join fragments
into a new rune); the implementation side reports the same condition. -/
def runSeq (t : Table) (S : Spec) : State → List Ev → List String → Option (List String)
  | _, [], acc => some acc.reverse
  | s, e :: rest, acc =>
    let S' := { S with quote := fun t => if t == e.raw then e.quoted else strBytes "<quote-mismatch>" ++ t }
    match step t.env S' s e.ev with
    | .ok (s', ret) =>
      if t.covers s'.buffer.content then runSeq t S s' rest (showState ret s' :: acc) else none
    | .exc x => some (x :: acc).reverse
    | .panic _ => some ("PANIC" :: acc).reverse

/-- raw rune values of key events (the model consults `IsGraphic` on them) -/
def evKeyRunes (e : Ev) : List Rune :=
  match e.ev with
  | .key k => if 0 ≤ k.rune then [k.rune.toNat] else []
  | _ => []

/-- names of `bufferBuiltinsData` in Go's `sort.Strings` order (ASCII) -/
def sortedNames : List String := (bufferBuiltinsData.map (·.1)).mergeSort (fun a b => a ≤ b)

/-- `ball`: every boundary dot × every builtin (sorted by name), results joined by `;` -/
def runAll (E : Env) (buf : Bytes) : String :=
  let dots := (runes buf).map (·.1) ++ [buf.length]
  String.join (dots.flatMap fun (d : Nat) => sortedNames.map fun n =>
    match lookupBuiltin n with
    | some c => showRes (c.fn E buf (d : Int)) ++ ";"
    | none => "bad-name;")

def stepLine : List String → String
  | ["b", name, hbuf, sdot, stbl] =>
    match lookupBuiltin name, hexDecode hbuf, sdot.toInt?, parseTable stbl with
    | some c, some buf, some dot, some t =>
      if !(t.covers buf) then "bad-table" else showRes (c.fn t.env buf dot)
    | _, _, _, _ => "bad-op"
  | ["ball", hbuf, stbl] =>
    match hexDecode hbuf, parseTable stbl with
    | some buf, some t => if !(t.covers buf) then "bad-table" else runAll t.env buf
    | _, _ => "bad-op"
  | ["seq", q, sS, sC, sW, hbuf, sdot, sev, stbl] =>
    match parsePairs sS, parsePairs sC, parsePairs sW, hexDecode hbuf, sdot.toInt?, parseEvents sev, parseTable stbl with
    | some pS, some pC, some pW, some buf, some dot, some evs, some t =>
      let pieces := buf :: (pS ++ pC ++ pW).flatMap (fun p => [p.1, p.2]) ++ evs.flatMap (fun e => [e.raw, e.quoted])
      if !(pieces.all t.covers) || !((evs.flatMap evKeyRunes).all fun r => t.any (·.1 == r)) then "bad-table" else
      let S : Spec := { simple := pS, command := pC, smallWord := pW, quotePaste := q == "1", quote := id }
      let s0 : State := { buffer := ⟨buf, dot⟩, inserts := [], last := ⟨[], 0⟩, pasting := false, pasteBuffer := [] }
      match runSeq t S s0 evs [] with
      | none => "bad-table"
      | some out => if out.isEmpty then "-" else "|".intercalate out
    | _, _, _, _, _, _, _ => "bad-op"
  | _ => "bad-op"

def driver : Driver := Driver.pure stepLine
end C28
