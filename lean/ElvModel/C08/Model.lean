/-
C08 (shared with C09): the elvish value model, `vals.Equal` and `vals.Hash`.

Anchors: pkg/eval/vals/equal.go (Equal, equalList, equalMap,
equalFieldMapAndMap, equalFieldMapAndFieldMap), pkg/eval/vals/hash.go (Hash,
hashMap, hashFieldMap), pkg/persistent/hash/hash.go (leaf functions,
REGENERATED into ElvModel/Generated/C08Hash.lean; `DJB`, `String` and
`UIntPtr` contain loops / `unsafe.Sizeof` and are hand-modelled here on top of
the generated leaves, for a 64-bit platform).

Modelled code = the tree WITH fixes/C08-negzero-hash.patch (hash of a float
zero ignores the sign).  `hashFloatOld` is the unfixed code, kept for
`C08_counterexample`.

A float64 is its IEEE-754 bit pattern (`UInt64`) with a transparent decoding,
so that every fact about ±0, NaN and ordering is proved by the kernel; nothing
here uses Lean's opaque `Float`.
-/
import ElvModel.Go.Basic
import ElvModel.Generated.C08Hash

namespace C08
open Go Gen.C08Hash

/-! ### float64 as a bit pattern -/
namespace F64

/-- magnitude bits (everything but the sign). -/
def mag (b : UInt64) : Nat := b.toNat % 2 ^ 63
/-- sign bit set. -/
def neg (b : UInt64) : Bool := decide (2 ^ 63 ≤ b.toNat)
def expInf : Nat := 0x7FF0000000000000
/-- `math.IsNaN`. -/
def isNaN (b : UInt64) : Bool := decide (expInf < mag b)
def isInf (b : UInt64) : Bool := mag b == expInf
def isZero (b : UInt64) : Bool := mag b == 0
/-- Order key of a non-NaN float: sign-magnitude read as an integer; `+0` and
`-0` both give 0, `±Inf` are the extremes. For non-NaN `a b`, Go's `a < b`
is `key a < key b` and `a == b` is `key a = key b`. -/
def key (b : UInt64) : Int := if neg b then - (mag b : Int) else (mag b : Int)
/-- Go `a == b` on float64. -/
def eq (a b : UInt64) : Bool := !isNaN a && !isNaN b && key a == key b
/-- Go `a < b` on float64. -/
def lt (a b : UInt64) : Bool := !isNaN a && !isNaN b && decide (key a < key b)

def posZero : UInt64 := 0
def negZero : UInt64 := 0x8000000000000000
def posInf : UInt64 := 0x7FF0000000000000
def negInf : UInt64 := 0xFFF0000000000000
def nan : UInt64 := 0x7FF8000000000001

end F64

/-! ### values -/

/-- An elvish value.  `int` is a Go `int` (expected in the int64 range),
`bigint` a `*big.Int`, `rat` a `*big.Rat` (math/big keeps it in lowest terms,
as does core `Rat`), `float` a float64 bit pattern, `str` a Go string, `list`
a persistent vector (only its element sequence matters here), `map false` a
`hashmap.Map` given by its entries, `map true` a field map (struct; keys are
the dash-case field names as `str`), `ref kind id` a value of an identity
kind: closures, builtin functions, namespaces, exceptions (address), external
commands (name), `ui.Key` (rune, mod), files (fd) — equal iff same kind and
same identity. -/
inductive Val where
  | nil
  | bool (b : Bool)
  | int (i : Int)
  | bigint (i : Int)
  | rat (r : Rat)
  | float (bits : UInt64)
  | str (s : Bytes)
  | list (xs : List Val)
  | map (field : Bool) (kvs : List (Val × Val))
  | ref (kind : Nat) (id : Nat)
  deriving Inhabited

/-! ### Equal (pkg/eval/vals/equal.go) -/

mutual
/-- `vals.Equal`. -/
def Equal : Val → Val → Bool
  | .nil, .nil => true
  | .bool x, .bool y => x == y
  | .int x, .int y => x == y
  | .bigint x, .bigint y => x == y          -- x.Cmp(y) == 0
  | .rat x, .rat y => x == y                -- x.Cmp(y) == 0
  | .float x, .float y => F64.eq x y        -- Go ==
  | .str x, .str y => x == y
  | .list xs, .list ys => xs.length == ys.length && equalList xs ys
  | .ref k1 i1, .ref k2 i2 => k1 == k2 && i1 == i2
  -- Map/Map: equalMap(x, y); field map/Map: equalFieldMapAndMap(x, keys, y);
  -- field map/field map: equalFieldMapAndFieldMap — all iterate the LEFT
  -- operand's entries and look each key up in the right operand;
  -- Map/field map: equalFieldMapAndMap(y, keys, x) iterates the RIGHT one.
  | .map false xs, .map true ys => xs.length == ys.length && entriesEq ys xs
  | .map _ xs, .map _ ys => xs.length == ys.length && entriesEq xs ys
  | _, _ => false
termination_by a b => sizeOf a + sizeOf b
/-- loop of `equalList` (lengths already compared). -/
def equalList : List Val → List Val → Bool
  | x :: xs, y :: ys => Equal x y && equalList xs ys
  | _, _ => true
termination_by a b => sizeOf a + sizeOf b
/-- loop of `equalMap` & co.: every entry of `xs` is found in `ys` with an
equal value. -/
def entriesEq : List (Val × Val) → List (Val × Val) → Bool
  | [], _ => true
  | (k, v) :: xs, ys => lookupEq k v ys && entriesEq xs ys
termination_by a b => sizeOf a + sizeOf b
/-- `vy, ok := y.Index(k); ok && Equal(vx, vy)`: `Index` is the C07 abstract
lookup — the first entry whose key is `Equal` to `k`. -/
def lookupEq (k v : Val) : List (Val × Val) → Bool
  | [] => false
  | (k', v') :: ys => if Equal k k' then Equal v v' else lookupEq k v ys
termination_by ys => sizeOf k + sizeOf v + sizeOf ys
end

/-! ### Hash (pkg/eval/vals/hash.go, pkg/persistent/hash) -/

/-- `hash.UIntPtr` on a 64-bit platform. -/
def hashUIntPtr (u : UInt64) : UInt32 := hashU64 u
/-- `hash.DJB(hs...)`. -/
def djb (hs : List UInt32) : UInt32 := hs.foldl DJBCombine DJBInit
/-- `hash.String`. -/
def hashString (s : Bytes) : UInt32 := s.foldl (fun h c => DJBCombine h c.toUInt32) DJBInit

/-- `big.Int.Bits()`: little-endian base-2^64 digits of the absolute value. -/
def natWords (n : Nat) : List UInt64 :=
  if h : n = 0 then [] else UInt64.ofNat (n % 2 ^ 64) :: natWords (n / 2 ^ 64)
decreasing_by exact Nat.div_lt_self (Nat.pos_of_ne_zero h) (by decide)

/-- `uint32(v.Sign())`. -/
def signU32 (i : Int) : UInt32 := if i < 0 then 0xFFFFFFFF else if i = 0 then 0 else 1

/-- `Hash` of a `*big.Int`. -/
def hashBigInt (i : Int) : UInt32 :=
  (natWords i.natAbs).foldl (fun h w => DJBCombine h (hashUIntPtr w)) (DJBCombine DJBInit (signU32 i))

/-- `Hash` of a float64, unfixed code: the bit pattern. -/
def hashFloatOld (b : UInt64) : UInt32 := hashU64 b
/-- `Hash` of a float64 after fixes/C08-negzero-hash.patch: `-0.0` hashes as `+0.0`. -/
def hashFloat (b : UInt64) : UInt32 := hashU64 (if F64.isZero b then 0 else b)

section
-- `refHash`: hash of identity kinds, any function of the identity (address, name, fd …).
-- `fh`: which float hash (`hashFloat` = fixed tree, `hashFloatOld` = unfixed).
variable (refHash : Nat → Nat → UInt32) (fh : UInt64 → UInt32)

mutual
/-- `vals.Hash`, generic in the float leaf. -/
def HashG : Val → UInt32
  | .nil => 0                         -- default branch
  | .bool b => if b then 1 else 0
  | .int i => hashUIntPtr (UInt64.ofInt i)
  | .bigint i => hashBigInt i
  | .rat r => djb [hashBigInt r.num, hashBigInt (r.den : Int)]
  | .float b => fh b
  | .str s => hashString s
  | .list xs => hashListG DJBInit xs
  | .map _ kvs => hashEntriesG kvs
  | .ref k i => refHash k i
/-- loop of the `List` case. -/
def hashListG (h : UInt32) : List Val → UInt32
  | [] => h
  | x :: xs => hashListG (DJBCombine h (HashG x)) xs
/-- `hashMap` / `hashFieldMap`: order-independent sum. -/
def hashEntriesG : List (Val × Val) → UInt32
  | [] => 0
  | (k, v) :: kvs => djb [HashG k, HashG v] + hashEntriesG kvs
end
end

/-- `vals.Hash` of the fixed tree. -/
abbrev Hash (refHash : Nat → Nat → UInt32) : Val → UInt32 := HashG refHash hashFloat
/-- `vals.Hash` of the unfixed tree. -/
abbrev HashOld (refHash : Nat → Nat → UInt32) : Val → UInt32 := HashG refHash hashFloatOld

/-! ### Map operations (the abstract map of C07: association list modulo `Equal`) -/

/-- `Map.Index`. -/
def mapIndex (k : Val) : List (Val × Val) → Option Val
  | [] => none
  | (k', v') :: ys => if Equal k k' then some v' else mapIndex k ys
/-- `has-key`. -/
def mapHasKey (k : Val) (m : List (Val × Val)) : Bool := (mapIndex k m).isSome
/-- `Map.Assoc`: an entry with an equal key is replaced by `(k, v)` (new key
and new value, `replaceEntry(entries, idx, k, v)`), otherwise `(k, v)` is added. -/
def mapAssoc (k v : Val) : List (Val × Val) → List (Val × Val)
  | [] => [(k, v)]
  | (k', v') :: ys => if Equal k k' then (k, v) :: ys else (k', v') :: mapAssoc k v ys
/-- `Map.Dissoc`. -/
def mapDissoc (k : Val) : List (Val × Val) → List (Val × Val)
  | [] => []
  | (k', v') :: ys => if Equal k k' then ys else (k', v') :: mapDissoc k ys

/-- A map bucketed by hash, as the HAMT sees it: only entries whose key has the
same hash as the probe are ever compared with `Equal`. -/
def mapIndexH (h : Val → UInt32) (k : Val) : List (Val × Val) → Option Val
  | [] => none
  | (k', v') :: ys => if h k == h k' && Equal k k' then some v' else mapIndexH h k ys

end C08
