/-
Line-protocol codec for elvish values (shared by the C08 and C09 drivers).
Not part of the model the theorems are about: it only builds `Val`s.

A value is a comma-separated token sequence (prefix notation):
  n | t | f | i<dec> | I<dec> | r<num>/<den> | F<16 hex digits> | s<hex or ->
  L<n>,v1,…,vn | M<n>,k1,v1,…,kn,vn | S<type>,fields… | P<kind>.<id>
`M` is built with `mapAssoc` in the given order, as the harness does with
`Map.Assoc`.  `S<type>` is one of the harness's struct types (field maps):
1 = {a}, 2 = {a, b}, 3 = {a, foo-bar, c}, 4 = {b, a}.
-/
import ElvModel.C08.Model

namespace C08
open Go

def hexNat (s : List Char) : Option Nat :=
  s.foldl (fun acc c => do let a ← acc; let d ← hexVal c; pure (a * 16 + d)) (some 0)

def structKeys : Nat → Option (List String)
  | 1 => some ["a"]
  | 2 => some ["a", "b"]
  | 3 => some ["a", "foo-bar", "c"]
  | 4 => some ["b", "a"]
  | _ => none

/-- k1 v1 k2 v2 … assoc'ed in order. -/
def pairUp : List Val → List (Val × Val) → List (Val × Val)
  | k :: v :: more, acc => pairUp more (mapAssoc k v acc)
  | _, acc => acc

mutual
/-- parse one value from the token list (fuel bounds the recursion). -/
def parseVal : Nat → List String → Option (Val × List String)
  | 0, _ => none
  | _, [] => none
  | fuel + 1, tok :: rest =>
    match tok.toList with
    | ['n'] => some (.nil, rest)
    | ['t'] => some (.bool true, rest)
    | ['f'] => some (.bool false, rest)
    | 'i' :: d => (String.ofList d).toInt?.map fun i => (.int i, rest)
    | 'I' :: d => (String.ofList d).toInt?.map fun i => (.bigint i, rest)
    | 'r' :: d =>
      match (String.ofList d).splitOn "/" with
      | [a, b] => do
        let n ← a.toInt?
        let m ← b.toNat?
        if m = 0 then none else some (.rat (mkRat n m), rest)
      | _ => none
    | 'F' :: d => if d.length = 16 then (hexNat d).map fun n => (.float (UInt64.ofNat n), rest) else none
    | 's' :: d => (hexDecode (String.ofList d)).map fun b => (.str b, rest)
    | 'L' :: d => do
      let n ← (String.ofList d).toNat?
      let (xs, rest) ← parseVals fuel n rest
      some (.list xs, rest)
    -- a list the harness builds as a slice of a longer list: the same value
    | 'l' :: d => do
      let n ← (String.ofList d).toNat?
      let (xs, rest) ← parseVals fuel n rest
      some (.list xs, rest)
    | 'M' :: d => do
      let n ← (String.ofList d).toNat?
      let (xs, rest) ← parseVals fuel (2 * n) rest
      some (.map false (pairUp xs []), rest)
    | 'S' :: d => do
      let t ← (String.ofList d).toNat?
      let keys ← structKeys t
      let (xs, rest) ← parseVals fuel keys.length rest
      some (.map true ((keys.map fun k => Val.str (strBytes k)).zip xs), rest)
    | 'P' :: d =>
      match (String.ofList d).splitOn "." with
      | [a, b] => do
        let k ← a.toNat?
        let i ← b.toNat?
        some (.ref k i, rest)
      | _ => none
    | _ => none
def parseVals : Nat → Nat → List String → Option (List Val × List String)
  | 0, _, _ => none
  | _, 0, rest => some ([], rest)
  | fuel + 1, n + 1, rest => do
    let (v, rest) ← parseVal fuel rest
    let (vs, rest) ← parseVals fuel n rest
    some (v :: vs, rest)
end

/-- decode a whole field. -/
def decodeVal (s : String) : Option Val :=
  let toks := s.splitOn ","
  match parseVal (2 * toks.length + 2) toks with
  | some (v, []) => some v
  | _ => none

/-- Identity kinds of the harness pool: 0 closure, 1 namespace, 2 builtin
function (address identity: hash = address, not reproducible), 3 external
command `cmd<id>` (hash of the name), 4 `ui.Key{Rune: 'a'+id, Mod: id % 8}`
(`hash.DJB(rune, mod)`), 5 file with fd `id` (`hash.UIntPtr(fd)`). -/
def poolRefHash (kind id : Nat) : UInt32 :=
  match kind with
  | 3 => hashString (strBytes s!"cmd{id}")
  | 4 => djb [UInt32.ofNat (97 + id), UInt32.ofNat (id % 8)]
  | 5 => hashUIntPtr (UInt64.ofNat id)
  | _ => 0

mutual
/-- does the value contain an address-identity ref (hash not reproducible)? -/
def hasAddrRef : Val → Bool
  | .ref k _ => k < 3
  | .list xs => anyAddrRef xs
  | .map _ kvs => anyAddrRefE kvs
  | _ => false
def anyAddrRef : List Val → Bool
  | [] => false
  | x :: xs => hasAddrRef x || anyAddrRef xs
def anyAddrRefE : List (Val × Val) → Bool
  | [] => false
  | (k, v) :: xs => hasAddrRef k || hasAddrRef v || anyAddrRefE xs
end

def showHash (v : Val) : String :=
  if hasAddrRef v then "*" else toString (Hash poolRefHash v).toNat

def showBool (b : Bool) : String := if b then "t" else "f"

end C08
