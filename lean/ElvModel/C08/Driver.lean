import ElvModel.Go.Driver
import ElvModel.C08.Codec
namespace C08
open Go

def showOptHash : Option Val → String
  | none => "none"
  | some v => showHash v

def showMap (m : List (Val × Val)) : String :=
  s!"{m.length}:{showHash (.map false m)}"

/-- ops:
`eqh <a> <b>` → `<Equal a b> <Hash a> <Hash b>` (hash `*` when it depends on an address);
`map <m> <a> <b> <v>` → has-key/index/assoc/dissoc observations for both keys. -/
def stepLine : List String → String
  | ["eqh", sa, sb] =>
    match decodeVal sa, decodeVal sb with
    | some a, some b => s!"{showBool (Equal a b)} {showHash a} {showHash b}"
    | _, _ => "bad-op"
  | ["map", sm, sa, sb, sv] =>
    match decodeVal sm, decodeVal sa, decodeVal sb, decodeVal sv with
    | some (.map false m), some a, some b, some v =>
      let ma := mapAssoc a v m
      let mb := mapAssoc b v m
      let mab := mapAssoc b (.str [120]) ma
      String.intercalate " " [
        showBool (Equal a b),
        showBool (mapHasKey a m), showBool (mapHasKey b m),
        showOptHash (mapIndex a m), showOptHash (mapIndex b m),
        showMap ma, showMap mb, showBool (Equal (.map false ma) (.map false mb)),
        showMap mab, showBool (mapHasKey b ma), showOptHash (mapIndex b ma),
        showMap (mapDissoc a m), showMap (mapDissoc b m),
        showMap (mapDissoc b ma)]
    | _, _, _, _ => "bad-op"
  | _ => "bad-op"

def driver : Driver := Driver.pure stepLine
end C08
