import ElvModel.C08.Driver
def main : IO Unit := C08.driver.main
