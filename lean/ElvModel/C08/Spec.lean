/-
C08/C09: well-formedness of values.  A real elvish map never holds two keys
that are eq (that is C08's own conclusion, established by `C08_assoc_wf` for
every map built with `assoc`); the theorems about `Equal`/`Hash` quantify over
values all of whose maps have that shape.
-/
import ElvModel.C08.Model

namespace C08

/-- no two keys are eq (in either argument order). -/
def NoDupKeys (kvs : List (Val × Val)) : Prop :=
  kvs.Pairwise fun p q => Equal p.1 q.1 = false ∧ Equal q.1 p.1 = false

mutual
/-- every map inside the value has pairwise non-eq keys. -/
def WF : Val → Prop
  | .list xs => WFList xs
  | .map _ kvs => WFEntries kvs ∧ NoDupKeys kvs
  | _ => True
def WFList : List Val → Prop
  | [] => True
  | x :: xs => WF x ∧ WFList xs
def WFEntries : List (Val × Val) → Prop
  | [] => True
  | (k, v) :: kvs => WF k ∧ WF v ∧ WFEntries kvs
end

mutual
/-- no NaN anywhere inside. -/
def NaNFree : Val → Prop
  | .float b => F64.isNaN b = false
  | .list xs => NaNFreeList xs
  | .map _ kvs => NaNFreeEntries kvs
  | _ => True
def NaNFreeList : List Val → Prop
  | [] => True
  | x :: xs => NaNFree x ∧ NaNFreeList xs
def NaNFreeEntries : List (Val × Val) → Prop
  | [] => True
  | (k, v) :: kvs => NaNFree k ∧ NaNFree v ∧ NaNFreeEntries kvs
end

end C08
