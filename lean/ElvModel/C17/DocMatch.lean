/-
C17 (round 2) — `pkg/mods/doc/match.go`, the highlighting of `doc:find`:

* `match`: for every query the first block whose text contains it
  (`strings.Index`), `bMatches[i] = append(bMatches[i], Ranging{from, from+len(q)})`;
* `sortAndMergeMatches`: `sort.Slice` by `From` (BY CONTRACT: the sorted slice
  is a parameter `sort`), then the in-place merge loop with its `rs[j]`,
  `rs[j-1]`, `rs[i]`, `rs[i] = …`, `rs[:i+1]`;
* `matchedBlock.Show`: both branches (code block / normal text) with every
  `b.block.Text[…:…]` slice, and the helpers `firstSentenceStart`,
  `lastSentenceStart`, `firstLineEnd`, `lastLineStart` (`s[from:]`, `s[:upto]`).

`strings.Index` / `strings.LastIndex` are C41's models (`C41.strIndex`,
`C41.strLastIndex`).  `ui.T(text, Bold, FgRed).String()` is a parameter
(`styled`); `strings.ReplaceAll(q, "\n", " … ")` replaces a single byte and is
written out.  Every index and slice is `Go.index` / `Go.slice` / `setIdx`.
-/
import ElvModel.Go.Basic
import ElvModel.C41.Strings
import ElvModel.C17.Model
namespace C17
open Go

/-- `diag.Ranging` -/
structure Ranging where
  from_ : Int
  to : Int
  deriving Repr, DecidableEq

/-- `md.TextBlock` -/
structure Block where
  text : Bytes
  code : Bool
  deriving Repr

/-! ## `sortAndMergeMatches` -/

/-- One iteration of `for j := 1; j < len(rs); j++`; the state is `(rs, i)`. -/
def mergeStep (j : Int) (st : List Ranging × Int) : Res (List Ranging × Int) := do
  let rs := st.1
  let i := st.2
  let rj ← index rs j
  let rp ← index rs (j - 1)
  if rj.from_ > rp.to then
    -- i++; rs[i] = rs[j]
    let rs' ← setIdx rs (i + 1) rj
    .ok (rs', i + 1)
  else
    -- rs[i].To = rs[j].To
    let ri ← index rs i
    let rs' ← setIdx rs i { ri with to := rj.to }
    .ok (rs', i)

/-- The part of `sortAndMergeMatches` after `sort.Slice`: `sorted` is the slice
as `sort.Slice` left it. -/
def mergeSorted (sorted : List Ranging) : Res (List Ranging) := do
  let st ← forLoop 1 sorted.length mergeStep (sorted, 0)
  slice st.1 0 (st.2 + 1)

/-- `sortAndMergeMatches(rs)`; `sort` is what `sort.Slice(rs, From <)` does to `rs`. -/
def sortAndMergeMatches (sort : List Ranging → List Ranging) (rs : List Ranging) : Res (List Ranging) :=
  mergeSorted (sort rs)

/-! ## `match` -/

/-- The inner loop of `match` for one query: the first block containing `q`
gets the range appended; `none` = `!qMatchesAny`. -/
def matchQuery (q : Bytes) : List Block → Int → List (List Ranging) → Res (Option (List (List Ranging)))
  | [], _, _ => .ok none
  | b :: rest, i, bm =>
    match C41.strIndex b.text q with
    | some fr => do
      let cur ← index bm i
      let bm' ← setIdx bm i (cur ++ [⟨fr, fr + q.length⟩])
      .ok (some bm')
    | none => matchQuery q rest (i + 1) bm

/-- The loop over the queries. -/
def matchQueries (bs : List Block) : List Bytes → List (List Ranging) → Res (Option (List (List Ranging)))
  | [], bm => .ok (some bm)
  | q :: qs, bm => do
    match ← matchQuery q bs 0 bm with
    | none => .ok none
    | some bm' => matchQueries bs qs bm'

structure MatchedBlock where
  block : Block
  isMatches : List Ranging
  deriving Repr

/-- The final loop of `match`: `for i, b := range bs { if len(bMatches[i]) > 0 {…} }`. -/
def collectMatched (sort : List Ranging → List Ranging) (bm : List (List Ranging)) :
    List Block → Int → Res (List MatchedBlock)
  | [], _ => .ok []
  | b :: rest, i => do
    let cur ← index bm i
    if cur.length > 0 then
      let ms ← sortAndMergeMatches sort cur
      let tl ← collectMatched sort bm rest (i + 1)
      .ok (⟨b, ms⟩ :: tl)
    else collectMatched sort bm rest (i + 1)

/-- `match(markdown, qs)` from the blocks `codec.Blocks()` on; `none` = `(nil, false)`. -/
def matchBlocks (sort : List Ranging → List Ranging) (bs : List Block) (qs : List Bytes) :
    Res (Option (List MatchedBlock)) := do
  match ← matchQueries bs qs (List.replicate bs.length []) with
  | none => .ok none
  | some bm => do
    let r ← collectMatched sort bm bs 0
    .ok (some r)

/-! ## `matchedBlock.Show` -/

def dotSpace : Bytes := [46, 32]
def newline : Bytes := [10]
/-- `"… "` -/
def ellipsisSp : Bytes := [0xE2, 0x80, 0xA6, 32]
/-- `" …"` -/
def spEllipsis : Bytes := [32, 0xE2, 0x80, 0xA6]
/-- `"…"` -/
def ellipsis : Bytes := [0xE2, 0x80, 0xA6]
/-- `" … "` -/
def spEllipsisSp : Bytes := [32, 0xE2, 0x80, 0xA6, 32]

/-- `strings.ReplaceAll(s, "\n", " … ")` (the old string is one byte). -/
def replaceNewlines (s : Bytes) : Bytes :=
  s.flatMap fun b => if b = 10 then spEllipsisSp else [b]

def firstSentenceStart (s : Bytes) (fr : Int) : Res Int := do
  let t ← slice s fr s.length
  match C41.strIndex t dotSpace with
  | some i => .ok (fr + i + 2)
  | none => .ok s.length

def lastSentenceStart (s : Bytes) (upto : Int) : Res Int := do
  let t ← slice s 0 upto
  match C41.strLastIndex t dotSpace with
  | some i => .ok (i + 2)
  | none => .ok 0

def firstLineEnd (s : Bytes) (fr : Int) : Res Int := do
  let t ← slice s fr s.length
  match C41.strIndex t newline with
  | some i => .ok (fr + i)
  | none => .ok s.length

def lastLineStart (s : Bytes) (upto : Int) : Res Int := do
  let t ← slice s 0 upto
  match C41.strLastIndex t newline with
  | some i => .ok (i + 1)
  | none => .ok 0

/-- Loop state of `Show`: the builder, `lastTo`, `lastLineTo` / `lastSentenceTo`. -/
structure ShowSt where
  sb : Bytes
  lastTo : Int
  lastEnd : Int
  deriving Repr

/-- One iteration of the loop of the code-block branch. -/
def showCodeStep (styled : Bytes → Bytes) (text : Bytes) (st : ShowSt) (m : Ranging) : Res ShowSt := do
  let lineFrom ← lastLineStart text m.from_
  let sb ←
    if st.lastEnd < lineFrom then do
      let a ← slice text st.lastTo st.lastEnd
      let sb1 := st.sb ++ a
      let sb2 := if sb1.length > 0 then sb1 ++ [32] else sb1
      let b ← slice text lineFrom m.from_
      pure (sb2 ++ ellipsisSp ++ b)
    else do
      let a ← slice text st.lastTo m.from_
      pure (st.sb ++ a)
  let q ← slice text m.from_ m.to
  let sb := sb ++ styled (replaceNewlines q)
  let lastLineTo ← firstLineEnd text m.to
  .ok ⟨sb, m.to, lastLineTo⟩

/-- One iteration of the loop of the normal-text branch. -/
def showTextStep (styled : Bytes → Bytes) (text : Bytes) (st : ShowSt) (m : Ranging) : Res ShowSt := do
  let sentenceFrom ← lastSentenceStart text m.from_
  let sb ←
    if st.lastEnd < sentenceFrom then do
      let a ← slice text st.lastTo st.lastEnd
      let b ← slice text sentenceFrom m.from_
      pure (st.sb ++ a ++ ellipsisSp ++ b)
    else do
      let a ← slice text st.lastTo m.from_
      pure (st.sb ++ a)
  let q ← slice text m.from_ m.to
  let sb := sb ++ styled q
  let lastSentenceTo ← firstSentenceStart text m.to
  .ok ⟨sb, m.to, lastSentenceTo⟩

/-- `for _, m := range b.matches { … }` -/
def showLoop (step : ShowSt → Ranging → Res ShowSt) : List Ranging → ShowSt → Res ShowSt
  | [], st => .ok st
  | m :: ms, st => do
    let st' ← step st m
    showLoop step ms st'

/-- `matchedBlock.Show()`; `styled t` is `ui.T(t, queryStyling).String()`. -/
def showBlock (styled : Bytes → Bytes) (b : MatchedBlock) : Res Bytes := do
  let text := b.block.text
  if b.block.code then
    let st ← showLoop (showCodeStep styled text) b.isMatches ⟨[], 0, 0⟩
    let a ← slice text st.lastTo st.lastEnd
    let sb := st.sb ++ a
    .ok (if st.lastEnd < text.length then sb ++ spEllipsis else sb)
  else
    let st ← showLoop (showTextStep styled text) b.isMatches ⟨[], 0, 0⟩
    let a ← slice text st.lastTo st.lastEnd
    let sb := st.sb ++ a
    .ok (if st.lastEnd < text.length then sb ++ ellipsis else sb)

/-- The `for _, b := range bs { … b.Show() … }` loop of `find`'s `findIn`. -/
def showAll (styled : Bytes → Bytes) : List MatchedBlock → Res (List Bytes)
  | [] => .ok []
  | b :: rest => do
    let s ← showBlock styled b
    let tl ← showAll styled rest
    .ok (s :: tl)

/-- `findIn` of `doc:find` for one symbol's documentation, from the rendered
blocks on: `none` when some query matches nowhere. -/
def docFindIn (sort : List Ranging → List Ranging) (styled : Bytes → Bytes) (bs : List Block) (qs : List Bytes) :
    Res (Option (List Bytes)) := do
  match ← matchBlocks sort bs qs with
  | none => .ok none
  | some ms => do
    let out ← showAll styled ms
    .ok (some out)

/-! ## specification vocabulary -/

/-- A match produced by `match` for a text of `n` bytes: `0 ≤ From ≤ To ≤ n`. -/
def Ranging.Valid (n : Int) (r : Ranging) : Prop := 0 ≤ r.from_ ∧ r.from_ ≤ r.to ∧ r.to ≤ n

/-- Ordered, non-overlapping (not even touching) ranges inside a text of `n`
bytes, all starting at or after `lo`: what `Show` needs of `b.matches`. -/
def Sep (n : Int) : Int → List Ranging → Prop
  | _, [] => True
  | lo, r :: rest => lo ≤ r.from_ ∧ r.from_ ≤ r.to ∧ r.to ≤ n ∧ Sep n (r.to + 1) rest

/-- The contract of `sort.Slice(rs, func(i, j) { return rs[i].From < rs[j].From })`:
a permutation ordered by `From` (NOT necessarily stable). -/
def SortContract (sort : List Ranging → List Ranging) : Prop :=
  ∀ rs, (sort rs).Perm rs ∧ (sort rs).Pairwise fun a b => a.from_ ≤ b.from_

/-! ## instances for the driver -/

/-- Insertion of `x` after every element whose `From` is not larger. -/
def insertByFrom (x : Ranging) : List Ranging → List Ranging
  | [] => [x]
  | y :: ys => if y.from_ ≤ x.from_ then y :: insertByFrom x ys else x :: y :: ys

/-- A stable (insertion) sort by `From`: what `sort.Slice` does for at most 12
elements (`insertionSortLessFunc`) and, up to the order of equal keys, always. -/
def stableSortByFrom (rs : List Ranging) : List Ranging :=
  rs.foldl (fun acc x => insertByFrom x acc) []

/-- `ui.T(t, ui.Bold, ui.FgRed).String()`: the `nil` text of the empty string
renders as the bare reset `ESC[m`, otherwise one segment `ESC[;1;31m … ESC[m`. -/
def styledBoldRed (t : Bytes) : Bytes :=
  if t.isEmpty then [27, 91, 109] else [27, 91, 59, 49, 59, 51, 49, 109] ++ t ++ [27, 91, 109]

end C17
